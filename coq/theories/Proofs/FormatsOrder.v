(* C08_natural_order: consequences of ChromsortLemmas stated for the property. *)
From CNV Require Import Base.Prelude Base.Str Model.Chromsort Model.Formats.
From CNV Require Import Proofs.ChromsortLemmas Proofs.FormatsLemmas.

Definition key_lt (a b : string) : Prop := ckey_ltb (chrom_key a) (chrom_key b) = true.

Lemma order_of_the_property_text :
  key_lt "1" "2" /\ key_lt "2" "10" /\ key_lt "10" "X" /\ key_lt "X" "Y" /\ key_lt "Y" "M" /\
  key_lt "chr1" "chr2" /\ key_lt "chr2" "chr10" /\ key_lt "chr10" "chrX" /\
  key_lt "chrX" "chrY" /\ key_lt "chrY" "chrM".
Proof. repeat split; reflexivity. Qed.

Definition all_digits (cs : list ascii) : Prop := cs <> [] /\ forallb is_digit cs = true.

Lemma digits_no_chr cs : all_digits cs -> has_chr_prefix cs = false.
Proof.
  intros [Hne Hd]. destruct cs as [|c t]; [congruence|].
  cbn in Hd. apply andb_true_iff in Hd. destruct Hd as [Hc _].
  unfold has_chr_prefix. cbn [lower map chr_prefix prefixb].
  destruct (Ascii.eqb_spec "c"%char (to_lower c)) as [E|]; auto.
  exfalso. unfold to_lower in E. unfold is_digit in Hc.
  destruct (is_upper c) eqn:Hu.
  - unfold is_upper in Hu. apply andb_true_iff in Hc, Hu. destruct Hc as [H1 H2], Hu as [H3 H4].
    apply Nat.leb_le in H1, H2, H3, H4. lia.
  - subst c. discriminate.
Qed.

Definition chr_or_none (p : list ascii) : Prop :=
  p = [] \/ (lower p = chr_prefix /\ length p = 3%nat).

Lemma key_of_numeric p ds :
  chr_or_none p -> all_digits ds -> chrom_key_chars (p ++ ds) = (digits_val ds, EmptyString).
Proof.
  intros [->|[Hp Hl]] D.
  - cbn [app]. rewrite chrom_key_nochr by now apply digits_no_chr.
    apply key_body_numeric, D.
  - destruct p as [|a [|b [|c [|? ?]]]]; try discriminate. cbn [app].
    rewrite chrom_key_chr_strip by assumption. apply key_body_numeric, D.
Qed.

(* numeric names sort by their decimal value, with or without the prefix *)
Lemma numeric_by_value (p1 p2 ds1 ds2 : list ascii) :
  chr_or_none p1 -> chr_or_none p2 -> all_digits ds1 -> all_digits ds2 ->
  digits_val ds1 < digits_val ds2 ->
  ckey_ltb (chrom_key_chars (p1 ++ ds1)) (chrom_key_chars (p2 ++ ds2)) = true.
Proof.
  intros H1 H2 D1 D2 Hlt. rewrite !key_of_numeric by assumption. now apply ckey_ltb_fst.
Qed.

(* the chr prefix (any letter case) does not change the key *)
Lemma chr_prefix_irrelevant a b c cs :
  lower [a; b; c] = chr_prefix -> has_chr_prefix cs = false ->
  chrom_key_chars (a :: b :: c :: cs) = chrom_key_chars cs.
Proof. apply chrom_key_chr_irrelevant. Qed.

(* numbers below 1000, then X, Y, then single-letter names, then longer names *)
Lemma class_order ds c d d' rest :
  all_digits ds -> digits_val ds < 1000 ->
  is_digit c = false -> is_XY [c] = false -> is_digit d = false ->
  ckey_ltb (key_body ds) (key_body ["X"%char]) = true /\
  ckey_ltb (key_body ["X"%char]) (key_body ["Y"%char]) = true /\
  ckey_ltb (key_body ["Y"%char]) (key_body [c]) = true /\
  ckey_ltb (key_body [c]) (key_body (d :: d' :: rest)) = true.
Proof.
  intros [_ D] Hlt Hc HXY Hd. split; [|split; [|split]].
  - now apply numeric_before_X.
  - apply X_before_Y.
  - now apply Y_before_single.
  - now apply single_before_long.
Qed.

Lemma sort_rows_facts (t : list row) :
  Permutation t (sort_rows t) /\ rows_sorted (sort_rows t) /\
  sort_rows (sort_rows t) = sort_rows t /\
  (forall z, filter (equivb (region_leb row_region) z) (sort_rows t)
             = filter (equivb (region_leb row_region) z) t) /\
  (forall z y, equivb (region_leb row_region) z y = true
               <-> rkey_of (row_region z) = rkey_of (row_region y)).
Proof.
  split; [apply sort_regions_perm|]. split; [apply sort_rows_sorted|].
  split; [apply sort_regions_idem|]. split; [intros z; apply sort_regions_stable|].
  intros z y. apply equivb_region_same_key.
Qed.

(* what "sorted" says about two rows, spelled out *)
Lemma region_leb_rows (a b : row) :
  region_leb row_region a b = true <->
  (ckey_ltb (chrom_key (fst (fst (fst a)))) (chrom_key (fst (fst (fst b)))) = true \/
   (chrom_key (fst (fst (fst a))) = chrom_key (fst (fst (fst b))) /\
    (snd (fst (fst a)) < snd (fst (fst b)) \/
     (snd (fst (fst a)) = snd (fst (fst b)) /\ snd (fst a) <= snd (fst b))))).
Proof.
  destruct a as [[[ca sa] ea] xa], b as [[[cb sb] eb] xb]. unfold region_leb, row_region. cbn.
  apply rkey_leb_spec.
Qed.

(* ------------------------------------------------------------------------ *)
(* extension: the order as a total preorder, the ranking table, decimal names,
   uniqueness of the stable sort                                              *)
From CNV Require Import Model.Decimal Proofs.FormatsLib.
From CNV Require Gen.Formats.

Definition name_leb (a b : string) : bool := ckey_leb (chrom_key a) (chrom_key b).

Lemma ckey_ltb_iff a b : ckey_ltb a b = true <-> ckey_leb a b = true /\ ckey_leb b a = false.
Proof.
  split.
  - intros H. split; [now apply ckey_ltb_leb | now apply ckey_ltb_not_leb].
  - intros [_ H]. unfold ckey_leb in H. unfold ckey_ltb.
    destruct ckey_compare_good as (_ & An & _ & _). rewrite (An a b).
    destruct (ckey_compare b a); try discriminate. reflexivity.
Qed.

(* chromosome names are totally pre-ordered by their key; two names are tied exactly when
   their keys are equal (chr1 / Chr1 / 1 / 01) *)
Lemma name_preorder :
  (forall a, name_leb a a = true) /\
  (forall a b c, name_leb a b = true -> name_leb b c = true -> name_leb a c = true) /\
  (forall a b, name_leb a b = true \/ name_leb b a = true) /\
  (forall a b, name_leb a b = true /\ name_leb b a = true <-> chrom_key a = chrom_key b) /\
  (forall a b, key_lt a b <-> name_leb a b = true /\ name_leb b a = false).
Proof.
  unfold name_leb, key_lt. split; [|split; [|split; [|split]]].
  - intros a. apply ckey_leb_refl.
  - intros a b c. apply ckey_leb_trans.
  - intros a b. apply ckey_leb_total.
  - intros a b. split; [intros [H1 H2]; now apply ckey_leb_antisym | intros ->; split; apply ckey_leb_refl].
  - intros a b. apply ckey_ltb_iff.
Qed.

(* rows: (key, start, end) lexicographically is a total preorder whose ties are the rows
   with the same key, start and end *)
Lemma row_preorder :
  (forall a : row, region_leb row_region a a = true) /\
  (forall a b c : row, region_leb row_region a b = true -> region_leb row_region b c = true ->
                       region_leb row_region a c = true) /\
  (forall a b : row, region_leb row_region a b = true \/ region_leb row_region b a = true) /\
  (forall a b : row, region_leb row_region a b = true /\ region_leb row_region b a = true
                     <-> rkey_of (row_region a) = rkey_of (row_region b)).
Proof.
  split; [|split; [|split]].
  - intros a. apply region_leb_refl.
  - intros a b c. apply region_leb_trans.
  - intros a b. apply region_leb_total.
  - intros a b. rewrite <- (equivb_region_same_key row_region a b). unfold equivb.
    now rewrite andb_true_iff.
Qed.

(* the ranking table of sorter_chrom, per class of name (prefix stripped) *)
Lemma ranking_table :
  (forall cs, has_chr_prefix cs = false -> chrom_key_chars cs = key_body cs) /\
  (forall a b c cs, lower [a; b; c] = chr_prefix -> chrom_key_chars (a :: b :: c :: cs) = key_body cs) /\
  (forall ds, forallb is_digit ds = true -> key_body ds = (digits_val ds, EmptyString)) /\
  key_body ["X"%char] = (1000, "X"%string) /\ key_body ["Y"%char] = (1000, "Y"%string) /\
  (forall ds c, forallb is_digit ds = true -> is_digit c = false -> is_XY (ds ++ [c]) = false ->
     key_body (ds ++ [c]) = (2000 + digits_val ds, unchars [c])) /\
  (forall ds c c' rest, forallb is_digit ds = true -> is_digit c = false ->
     key_body (ds ++ c :: c' :: rest) = (3000 + digits_val ds, unchars (c :: c' :: rest))) /\
  (* the literals of skgenome/chromsort.py the table was written for *)
  Gen.Formats.sorter_rank_xy = 1000 /\ Gen.Formats.sorter_rank_single = 2000 /\
  Gen.Formats.sorter_rank_long = 3000 /\ Gen.Formats.sorter_xy_names = ["X"; "Y"]%string.
Proof.
  split; [exact chrom_key_nochr|]. split; [exact chrom_key_chr_strip|].
  split; [exact key_body_numeric|]. split; [reflexivity|]. split; [reflexivity|].
  split; [exact key_body_single|]. split; [exact key_body_long|]. repeat split; reflexivity.
Qed.

Lemma ranking_examples :
  chrom_key "chr1" = (1, "")%string /\ chrom_key "2" = (2, "")%string /\ chrom_key "chr10" = (10, "")%string /\
  chrom_key "chr22" = (22, "")%string /\ chrom_key "chrX" = (1000, "X")%string /\ chrom_key "Y" = (1000, "Y")%string /\
  chrom_key "chrM" = (2000, "M")%string /\ chrom_key "chrMT" = (3000, "MT")%string /\
  chrom_key "chrUn_gl000211" = (3000, "Un_gl000211")%string /\
  chrom_key "chr1_gl000191_random" = (3001, "_gl000191_random")%string /\
  chrom_key "GL000192.1" = (3000, "GL000192.1")%string /\ chrom_key "CHR7" = (7, "")%string /\
  chrom_key "chrx" = (2000, "x")%string /\ chrom_key "chr" = (0, "")%string /\ chrom_key "007" = (7, "")%string.
Proof. repeat split; reflexivity. Qed.

Definition human_names : list string :=
  ["chr1"; "chr2"; "chr3"; "chr4"; "chr5"; "chr6"; "chr7"; "chr8"; "chr9"; "chr10"; "chr11"; "chr12";
   "chr13"; "chr14"; "chr15"; "chr16"; "chr17"; "chr18"; "chr19"; "chr20"; "chr21"; "chr22";
   "chrX"; "chrY"; "chrM"]%string.

(* the human karyotype, in any input order (here: reversed, and string-sorted), sorts to
   1..22, X, Y, M *)
Lemma human_order :
  stable_sort name_leb (rev human_names) = human_names /\
  stable_sort name_leb
    ["chr1"; "chr10"; "chr11"; "chr12"; "chr13"; "chr14"; "chr15"; "chr16"; "chr17"; "chr18"; "chr19";
     "chr2"; "chr20"; "chr21"; "chr22"; "chr3"; "chr4"; "chr5"; "chr6"; "chr7"; "chr8"; "chr9";
     "chrM"; "chrX"; "chrY"]%string = human_names.
Proof. split; vm_compute; reflexivity. Qed.

Lemma print_all_digits z : 0 <= z -> all_digits (chars (print_Z z)).
Proof. intros H. split; [apply print_nonempty | now apply print_digits]. Qed.

(* names that are decimal numbers, with or without the prefix, sort by their value *)
Lemma natural_order_decimal (p1 p2 : list ascii) a b :
  chr_or_none p1 -> chr_or_none p2 -> 0 <= a < b ->
  ckey_ltb (chrom_key_chars (p1 ++ chars (print_Z a))) (chrom_key_chars (p2 ++ chars (print_Z b))) = true.
Proof.
  intros H1 H2 Hab. apply numeric_by_value; auto; try (apply print_all_digits; lia).
  rewrite !digits_val_print by lia. lia.
Qed.

(* the table GenomicArray.sort must return is determined: any arrangement of the rows that
   is sorted by (key, start, end) and keeps the input order inside every tie class is the
   model's sort *)
Lemma sort_rows_unique (t l : list row) :
  rows_sorted l ->
  (forall z, filter (equivb (region_leb row_region) z) l = filter (equivb (region_leb row_region) z) t) ->
  l = sort_rows t.
Proof.
  intros HS HF.
  apply (sorted_stable_unique (region_leb row_region) (region_leb_total row_region)); auto.
  - apply sort_rows_sorted.
  - intros z. rewrite HF. unfold sort_rows. now rewrite sort_regions_stable.
Qed.

(* dropping rows commutes with the sort (used by readers that filter before sorting) *)
Lemma sort_rows_filter (p : row -> bool) t : filter p (sort_rows t) = sort_rows (filter p t).
Proof.
  unfold sort_rows, sort_regions.
  apply (filter_stable_sort _ (region_leb_total row_region) (region_leb_trans row_region)).
Qed.
