(* Proofs for C13: the line-wise scanner of access.get_regions computes the
   maximal non-N runs of the concatenated sequence, for every way of cutting the
   sequence into non-empty lines; join_regions properties. *)
From CNV Require Import Base.Prelude Base.Str Spec.Runs Model.Access.

Section ScanProofs.
Context {A : Type} (isN : A -> bool).

Notation runs_line := (runs_line isN).
Notation n_indices := (n_indices isN).

Lemma runs_line_app l1 l2 pos o :
  runs_line (l1 ++ l2) pos o =
  let '(out1, o1) := runs_line l1 pos o in
  let '(out2, o2) := runs_line l2 (pos + Z.of_nat (length l1)) o1 in
  (out1 ++ out2, o2).
Proof.
  revert pos o; induction l1 as [|c t IH]; intros pos o; cbn [app runs_line length].
  - replace (pos + Z.of_nat 0) with pos by lia.
    destruct (runs_line l2 pos o); reflexivity.
  - destruct (isN c).
    + rewrite IH.
      replace (pos + 1 + Z.of_nat (length t)) with (pos + Z.of_nat (S (length t))) by lia.
      destruct (runs_line t (pos + 1) None) as [out1 o1].
      destruct (runs_line l2 _ o1) as [out2 o2].
      now rewrite app_assoc.
    + rewrite IH.
      replace (pos + 1 + Z.of_nat (length t)) with (pos + Z.of_nat (S (length t))) by lia.
      reflexivity.
Qed.

(* a line without N *)
Lemma runs_line_noN l pos o :
  existsb isN l = false -> l <> [] ->
  runs_line l pos o = ([], match o with Some s => Some s | None => Some pos end).
Proof.
  revert pos o; induction l as [|c t IH]; intros pos o HN Hne; [congruence|].
  cbn [existsb] in HN. apply orb_false_iff in HN as [Hc Ht].
  cbn [runs_line]. rewrite Hc.
  destruct t as [|c' t'].
  - cbn [runs_line]. reflexivity.
  - rewrite IH by (auto; congruence). destruct o; reflexivity.
Qed.

Lemma runs_line_noN_any l pos s :
  existsb isN l = false -> runs_line l pos (Some s) = ([], Some s).
Proof.
  revert pos; induction l as [|c t IH]; intros pos HN; [reflexivity|].
  cbn [existsb] in HN. apply orb_false_iff in HN as [Hc Ht].
  cbn [runs_line]. rewrite Hc. now apply IH.
Qed.

(* a line of N only *)
Lemma runs_line_allN_None l pos :
  forallb isN l = true -> runs_line l pos None = ([], None).
Proof.
  revert pos; induction l as [|c t IH]; intros pos HN; [reflexivity|].
  cbn [forallb] in HN. apply andb_true_iff in HN as [Hc Ht].
  cbn [runs_line]. rewrite Hc, IH by assumption. reflexivity.
Qed.

Lemma runs_line_allN l pos o :
  forallb isN l = true -> l <> [] -> runs_line l pos o = (close o pos, None).
Proof.
  destruct l as [|c t]; intros HN Hne; [congruence|].
  cbn [forallb] in HN. apply andb_true_iff in HN as [Hc Ht].
  cbn [runs_line]. rewrite Hc, runs_line_allN_None by assumption.
  now rewrite app_nil_r.
Qed.

(* state of the character machine after the last N at line index prev,
   when the next character has line index i *)
Definition open_of (cursor prev i : Z) : option Z :=
  if prev + 1 <? i then Some (cursor + prev + 1) else None.

Lemma open_of_next cursor k : open_of cursor k (k + 1) = None.
Proof. unfold open_of. destruct (k + 1 <? k + 1) eqn:E; [lia|reflexivity]. Qed.

Lemma n_indices_lower l i : Forall (fun n => i <= n) (n_indices l i).
Proof.
  revert i; induction l as [|c t IH]; intros i; cbn [Access.n_indices]; [constructor|].
  destruct (isN c).
  - constructor; [lia|]. eapply Forall_impl; [|apply IH]. cbn; intros; lia.
  - eapply Forall_impl; [|apply IH]. cbn; intros; lia.
Qed.

Lemma last_cons_ne {B} (x : B) l d : l <> [] -> last (x :: l) d = last l d.
Proof. destruct l; [congruence|reflexivity]. Qed.

Lemma after_N cursor l i prev :
  prev < i ->
  runs_line l (cursor + i) (open_of cursor prev i) =
  (gaps cursor (prev :: n_indices l i),
   open_of cursor (last (prev :: n_indices l i) 0) (i + Z.of_nat (length l))).
Proof.
  revert i prev; induction l as [|c t IH]; intros i prev Hlt.
  - cbn [runs_line Access.n_indices gaps last length]. now replace (i + Z.of_nat 0) with i by lia.
  - cbn [runs_line Access.n_indices length]. destruct (isN c) eqn:Hc.
    + replace (cursor + i + 1) with (cursor + (i + 1)) by lia.
      rewrite <- (open_of_next cursor i), IH by lia.
      replace (i + 1 + Z.of_nat (length t)) with (i + Z.of_nat (S (length t))) by lia.
      f_equal.
      cbn [gaps]. f_equal. unfold open_of, close.
      destruct (prev + 1 <? i) eqn:E1, (1 <? i - prev) eqn:E2; try lia.
      * do 2 f_equal; lia.
      * reflexivity.
    + replace (cursor + i + 1) with (cursor + (i + 1)) by lia.
      assert (H1 : match open_of cursor prev i with Some s => Some s | None => Some (cursor + i) end
                   = open_of cursor prev (i + 1)).
      { unfold open_of. destruct (prev + 1 <? i) eqn:E1, (prev + 1 <? i + 1) eqn:E2; try lia; try reflexivity.
        f_equal; lia. }
      rewrite H1, IH by lia.
      now replace (i + 1 + Z.of_nat (length t)) with (i + Z.of_nat (S (length t))) by lia.
Qed.

Lemma after_N_None cursor l k :
  runs_line l (cursor + (k + 1)) None =
  (gaps cursor (k :: n_indices l (k + 1)),
   open_of cursor (last (k :: n_indices l (k + 1)) 0) (k + 1 + Z.of_nat (length l))).
Proof. rewrite <- (open_of_next cursor k). apply after_N. lia. Qed.

Lemma first_N_split l :
  existsb isN l = true ->
  exists pre c post, l = pre ++ c :: post /\ existsb isN pre = false /\ isN c = true.
Proof.
  induction l as [|c t IH]; cbn [existsb]; intros H; [discriminate|].
  destruct (isN c) eqn:Hc.
  - exists [], c, t. auto.
  - cbn in H. destruct (IH H) as (pre & c' & post & -> & Hp & Hc').
    exists (c :: pre), c', post. cbn [existsb app]. rewrite Hc, Hp. auto.
Qed.

Lemma n_indices_app l1 l2 i :
  n_indices (l1 ++ l2) i = n_indices l1 i ++ n_indices l2 (i + Z.of_nat (length l1)).
Proof.
  revert i; induction l1 as [|c t IH]; intros i; cbn [app Access.n_indices length].
  - now replace (i + Z.of_nat 0) with i by lia.
  - rewrite IH. replace (i + 1 + Z.of_nat (length t)) with (i + Z.of_nat (S (length t))) by lia.
    destruct (isN c); reflexivity.
Qed.

Lemma n_indices_noN l i : existsb isN l = false -> n_indices l i = [].
Proof.
  revert i; induction l as [|c t IH]; intros i H; [reflexivity|].
  cbn [existsb] in H. apply orb_false_iff in H as [Hc Ht].
  cbn [Access.n_indices]. rewrite Hc. auto.
Qed.

(* One scanner step agrees with the character machine on that line. *)
Lemma scan_line_body_correct cursor rs line :
  line <> [] ->
  scan_line_body isN (cursor, rs) line =
  let '(out, o) := runs_line line cursor rs in (out, (cursor + Z.of_nat (length line), o)).
Proof.
  intros Hne. unfold scan_line_body.
  destruct (existsb isN line) eqn:Hex.
  - destruct (forallb isN line) eqn:Hall.
    + rewrite runs_line_allN by assumption. reflexivity.
    + destruct (first_N_split _ Hex) as (pre & c & post & -> & Hpre & Hc).
      rewrite n_indices_app, (n_indices_noN pre) by assumption.
      cbn [app Access.n_indices]. rewrite Hc. cbn [hd].
      set (k := Z.of_nat (length pre)).
      replace (0 + k) with k by lia.
      rewrite runs_line_app.
      assert (Hpre_run : runs_line pre cursor rs =
                ([], match rs with Some s => Some s
                               | None => if k =? 0 then None else Some cursor end)).
      { destruct rs as [s|].
        - now apply runs_line_noN_any.
        - destruct pre as [|p pre'].
          + subst k; cbn. reflexivity.
          + rewrite runs_line_noN by (auto; congruence).
            subst k. cbn [length]. destruct (Z.of_nat (S (length pre')) =? 0) eqn:E; [lia|reflexivity]. }
      rewrite Hpre_run. fold k.
      cbn [runs_line]. rewrite Hc.
      replace (cursor + k + 1) with (cursor + (k + 1)) by lia.
      rewrite after_N_None.
      assert (Hlen : Z.of_nat (length (pre ++ c :: post)) = k + 1 + Z.of_nat (length post)).
      { rewrite app_length. cbn [length]. subst k. lia. }
      rewrite Hlen. cbn [app]. unfold open_of.
      f_equal.
      f_equal. destruct rs as [s|]; cbn [close]; [reflexivity|].
      destruct (k =? 0) eqn:E; cbn [close]; reflexivity.
  - rewrite runs_line_noN by assumption. reflexivity.
Qed.

(* every line, the empty one included (skipped by the code: no output, state unchanged) *)
Lemma scan_line_correct cursor rs line :
  scan_line isN (cursor, rs) line =
  let '(out, o) := runs_line line cursor rs in (out, (cursor + Z.of_nat (length line), o)).
Proof.
  destruct line as [|c t].
  - cbn. now replace (cursor + 0) with cursor by lia.
  - change (scan_line isN (cursor, rs) (c :: t)) with (scan_line_body isN (cursor, rs) (c :: t)).
    apply scan_line_body_correct. discriminate.
Qed.

Lemma scan_lines_correct lines : forall cursor rs,
  scan_lines isN (cursor, rs) lines =
  let '(out, o) := runs_line (concat lines) cursor rs in
  (out, (cursor + Z.of_nat (length (concat lines)), o)).
Proof.
  induction lines as [|l t IH]; intros cursor rs.
  - cbn. now replace (cursor + 0) with cursor by lia.
  - cbn [scan_lines concat]. rewrite scan_line_correct.
    rewrite runs_line_app.
    destruct (runs_line l cursor rs) as [out1 o1].
    rewrite IH.
    destruct (runs_line (concat t) _ o1) as [out2 o2].
    rewrite app_length. f_equal. f_equal. lia.
Qed.

(* for EVERY list of lines, blank ones included *)
Theorem regions_of_record_runs lines :
  regions_of_record isN lines = runs isN (concat lines).
Proof.
  unfold regions_of_record, runs, runs_from.
  rewrite scan_lines_correct.
  destruct (runs_line (concat lines) 0 None) as [out o]. reflexivity.
Qed.

End ScanProofs.

Lemma get_regions_record_runs (lines : list string) :
  get_regions_record lines = runs isN_ascii (concat (map Str.chars lines)).
Proof. unfold get_regions_record. apply regions_of_record_runs. Qed.

(* ---------------------------------------------------------------------- *)
(* The specification function `runs` against the mathematical object:
   it covers exactly the non-N positions, by non-empty regions that are sorted
   and separated by at least one base (hence each region is a maximal run). *)
From CNV Require Import Spec.Regions.

Section RunsChar.
Context {A : Type} (isN : A -> bool).
Notation runs_from := (runs_from isN).
Notation nonN_at := (nonN_at isN).

Lemma runs_from_nil pos o : runs_from [] pos o = close o pos.
Proof. unfold Runs.runs_from. cbn. now replace (pos + 0) with pos by lia. Qed.

Lemma runs_from_N c t pos o : isN c = true ->
  runs_from (c :: t) pos o = close o pos ++ runs_from t (pos + 1) None.
Proof.
  intros Hc. unfold Runs.runs_from. cbn [Runs.runs_line length]. rewrite Hc.
  destruct (Runs.runs_line isN t (pos + 1) None) as [out o'].
  rewrite <- app_assoc. do 3 f_equal. lia.
Qed.

Lemma runs_from_nonN c t pos o : isN c = false ->
  runs_from (c :: t) pos o =
  runs_from t (pos + 1) (match o with Some s => Some s | None => Some pos end).
Proof.
  intros Hc. unfold Runs.runs_from. cbn [Runs.runs_line length]. rewrite Hc.
  destruct (Runs.runs_line isN t (pos + 1) _) as [out o'].
  do 2 f_equal. lia.
Qed.

Lemma char_at_cons (c : A) t x : 0 < x -> char_at (c :: t) x = char_at t (x - 1).
Proof.
  intros Hx. unfold char_at.
  destruct (x <? 0) eqn:E1; [lia|]. destruct (x - 1 <? 0) eqn:E2; [lia|].
  replace (Z.to_nat x) with (S (Z.to_nat (x - 1))) by lia. reflexivity.
Qed.

Lemma char_at_0 (c : A) t : char_at (c :: t) 0 = Some c.
Proof. reflexivity. Qed.

Lemma char_at_neg (l : list A) x : x < 0 -> char_at l x = None.
Proof. intros. unfold char_at. destruct (x <? 0) eqn:E; [reflexivity|lia]. Qed.

Lemma nonN_at_cons (c : A) t x : 0 < x -> nonN_at (c :: t) x <-> nonN_at t (x - 1).
Proof. intros Hx. unfold Runs.nonN_at. now rewrite char_at_cons. Qed.

Definition open_ok (o : option Z) (pos : Z) : Prop :=
  match o with Some st => st <= pos | None => True end.

Lemma runs_from_cover l : forall pos o x,
  open_ok o pos ->
  (cov (runs_from l pos o) x <->
   (match o with Some st => st <= x < pos | None => False end) \/
   (pos <= x /\ nonN_at l (x - pos))).
Proof.
  induction l as [|c t IH]; intros pos o x Hok.
  - rewrite runs_from_nil. split.
    + destruct o as [st|]; cbn [close]; [|intros H; now apply cov_nil in H].
      rewrite cov_cons. intros [H|H]; [left; exact H|now apply cov_nil in H].
    + intros [H|[_ (c & Hc & _)]].
      * destruct o as [st|]; [|tauto]. cbn [close]. rewrite cov_cons. now left.
      * unfold char_at in Hc. destruct (x - pos <? 0); [discriminate|].
        destruct (Z.to_nat (x - pos)); discriminate.
  - destruct (isN c) eqn:Hc.
    + rewrite runs_from_N by assumption. rewrite cov_app, IH by exact I.
      split.
      * intros [H|[[]|[Hx Hn]]].
        -- left. destruct o as [st|]; cbn [close] in H; [|now apply cov_nil in H].
           apply cov_cons in H as [H|H]; [exact H|now apply cov_nil in H].
        -- right. split; [lia|]. apply nonN_at_cons; [lia|].
           now replace (x - pos - 1) with (x - (pos + 1)) by lia.
      * intros [H|[Hx Hn]].
        -- left. destruct o as [st|]; [|tauto]. cbn [close]. apply cov_cons. now left.
        -- assert (Hne : x <> pos).
           { intros ->. destruct Hn as (c' & Hc' & HN). replace (pos - pos) with 0 in Hc' by lia.
             rewrite char_at_0 in Hc'. congruence. }
           right; right. split; [lia|].
           apply nonN_at_cons in Hn; [|lia].
           now replace (x - (pos + 1)) with (x - pos - 1) by lia.
    + rewrite runs_from_nonN by assumption.
      assert (Hok' : open_ok (match o with Some s => Some s | None => Some pos end) (pos + 1)).
      { destruct o as [st|]; cbn in *; lia. }
      rewrite IH by exact Hok'.
      assert (H0 : nonN_at (c :: t) 0) by (exists c; split; [apply char_at_0|exact Hc]).
      split.
      * intros [H|[Hx Hn]].
        -- destruct (Z.eq_dec x pos) as [->|Hne].
           ++ right. split; [lia|]. now replace (pos - pos) with 0 by lia.
           ++ left. destruct o as [st|]; lia.
        -- right. split; [lia|]. apply nonN_at_cons; [lia|].
           now replace (x - pos - 1) with (x - (pos + 1)) by lia.
      * intros [H|[Hx Hn]].
        -- left. destruct o as [st|]; [lia|tauto].
        -- destruct (Z.eq_dec x pos) as [->|Hne].
           ++ left. destruct o as [st|]; cbn in Hok; lia.
           ++ right. split; [lia|]. apply nonN_at_cons in Hn; [|lia].
              now replace (x - (pos + 1)) with (x - pos - 1) by lia.
Qed.

(* [runs s] covers exactly the non-N positions of s *)
Theorem runs_cover (s : list A) x : cov (runs isN s) x <-> nonN_at s x.
Proof.
  unfold runs. rewrite runs_from_cover by exact I.
  replace (x - 0) with x by lia. split.
  - intros [[]|[_ H]]; exact H.
  - intros H. right. split; [|exact H].
    destruct H as (c & Hc & _). destruct (Z_lt_ge_dec x 0) as [Hneg|]; [|lia].
    rewrite char_at_neg in Hc by assumption. discriminate.
Qed.

Lemma runs_from_sep l : forall pos o,
  match o with
  | None => sep_from 1 (pos - 1) (runs_from l pos None)
  | Some st => st < pos -> exists e t,
       runs_from l pos (Some st) = (st, e) :: t /\ pos <= e /\ sep_from 1 e t
  end.
Proof.
  induction l as [|c t IH]; intros pos o.
  - destruct o as [st|]; rewrite runs_from_nil; cbn [close sep_from]; [|exact I].
    intros Hst. exists pos, []. cbn. repeat split; lia.
  - destruct (isN c) eqn:Hc.
    + destruct o as [st|]; rewrite runs_from_N by assumption; cbn [close app].
      * intros Hst. exists pos, (runs_from t (pos + 1) None). repeat split; [lia|].
        specialize (IH (pos + 1) None). cbn in IH.
        now replace (pos + 1 - 1) with pos in IH by lia.
      * specialize (IH (pos + 1) None). cbn in IH.
        eapply sep_from_weaken; [|exact IH]. lia.
    + destruct o as [st|]; rewrite runs_from_nonN by assumption.
      * intros Hst. specialize (IH (pos + 1) (Some st)). cbn in IH.
        destruct IH as (e & t' & -> & He & Hs); [lia|].
        exists e, t'. repeat split; [lia|exact Hs].
      * specialize (IH (pos + 1) (Some pos)). cbn in IH.
        destruct IH as (e & t' & -> & He & Hs); [lia|].
        cbn [sep_from]. repeat split; [lia|lia|exact Hs].
Qed.

(* regions are non-empty, start at >= 0, sorted, separated by at least one base *)
Theorem runs_sep (s : list A) : sep_from 1 (-1) (runs isN s).
Proof. exact (runs_from_sep s 0 None). Qed.

End RunsChar.

Lemma sep_from_nonempty p l : sep_from 1 p l -> Forall (fun q => p + 1 <= fst q < snd q) l.
Proof.
  revert p. induction l as [|[a b] t IH]; intros p H; [constructor|].
  cbn in H. destruct H as (H1 & H2 & H3). constructor; [cbn; lia|].
  eapply Forall_impl; [|apply (IH b H3)]. cbn. intros q Hq. lia.
Qed.

Lemma get_regions_record_nonempty (lines : list string) :
  Forall (fun p => 0 <= fst p < snd p) (get_regions_record lines).
Proof.
  rewrite get_regions_record_runs.
  eapply Forall_impl; [|apply (sep_from_nonempty (-1)), (runs_sep isN_ascii)]. cbn. intros q Hq. lia.
Qed.

Lemma noncanonical_spec (name : string) :
  is_canonical_contig_name name = false <->
  (name = "chrEBV"%string \/ str_prefix "NC" name = true \/ str_suffix "_random" name = true \/
   str_infix "Un_" name = true \/ str_prefix "HLA-" name = true \/ str_suffix "_alt" name = true \/
   ends_hap_digit (Str.chars name) = true \/ str_infix "chrM" name = true \/ str_infix "MT" name = true).
Proof.
  unfold is_canonical_contig_name, noncanonical, str_prefix, str_suffix, str_infix.
  rewrite negb_false_iff, !orb_true_iff, String.eqb_eq. tauto.
Qed.
