(* Proofs for C13: the line-wise scanner of access.get_regions computes the
   maximal non-N runs of the concatenated sequence, for every way of cutting the
   sequence into non-empty lines; join_regions properties. *)
From CNV Require Import Base.Prelude Base.Str Spec.Runs Model.Access.

Section ScanProofs.
Context {A : Type} (isN : A -> bool).

Notation runs_line := (runs_line isN).
Notation n_indices := (n_indices isN).

Lemma runs_line_app l1 l2 pos o :
  runs_line (l1 ++ l2) pos o =
  let '(out1, o1) := runs_line l1 pos o in
  let '(out2, o2) := runs_line l2 (pos + Z.of_nat (length l1)) o1 in
  (out1 ++ out2, o2).
Proof.
  revert pos o; induction l1 as [|c t IH]; intros pos o; cbn [app runs_line length].
  - replace (pos + Z.of_nat 0) with pos by lia.
    destruct (runs_line l2 pos o); reflexivity.
  - destruct (isN c).
    + rewrite IH.
      replace (pos + 1 + Z.of_nat (length t)) with (pos + Z.of_nat (S (length t))) by lia.
      destruct (runs_line t (pos + 1) None) as [out1 o1].
      destruct (runs_line l2 _ o1) as [out2 o2].
      now rewrite app_assoc.
    + rewrite IH.
      replace (pos + 1 + Z.of_nat (length t)) with (pos + Z.of_nat (S (length t))) by lia.
      reflexivity.
Qed.

(* a line without N *)
Lemma runs_line_noN l pos o :
  existsb isN l = false -> l <> [] ->
  runs_line l pos o = ([], match o with Some s => Some s | None => Some pos end).
Proof.
  revert pos o; induction l as [|c t IH]; intros pos o HN Hne; [congruence|].
  cbn [existsb] in HN. apply orb_false_iff in HN as [Hc Ht].
  cbn [runs_line]. rewrite Hc.
  destruct t as [|c' t'].
  - cbn [runs_line]. reflexivity.
  - rewrite IH by (auto; congruence). destruct o; reflexivity.
Qed.

Lemma runs_line_noN_any l pos s :
  existsb isN l = false -> runs_line l pos (Some s) = ([], Some s).
Proof.
  revert pos; induction l as [|c t IH]; intros pos HN; [reflexivity|].
  cbn [existsb] in HN. apply orb_false_iff in HN as [Hc Ht].
  cbn [runs_line]. rewrite Hc. now apply IH.
Qed.

(* a line of N only *)
Lemma runs_line_allN_None l pos :
  forallb isN l = true -> runs_line l pos None = ([], None).
Proof.
  revert pos; induction l as [|c t IH]; intros pos HN; [reflexivity|].
  cbn [forallb] in HN. apply andb_true_iff in HN as [Hc Ht].
  cbn [runs_line]. rewrite Hc, IH by assumption. reflexivity.
Qed.

Lemma runs_line_allN l pos o :
  forallb isN l = true -> l <> [] -> runs_line l pos o = (close o pos, None).
Proof.
  destruct l as [|c t]; intros HN Hne; [congruence|].
  cbn [forallb] in HN. apply andb_true_iff in HN as [Hc Ht].
  cbn [runs_line]. rewrite Hc, runs_line_allN_None by assumption.
  now rewrite app_nil_r.
Qed.

(* state of the character machine after the last N at line index prev,
   when the next character has line index i *)
Definition open_of (cursor prev i : Z) : option Z :=
  if prev + 1 <? i then Some (cursor + prev + 1) else None.

Lemma open_of_next cursor k : open_of cursor k (k + 1) = None.
Proof. unfold open_of. destruct (k + 1 <? k + 1) eqn:E; [lia|reflexivity]. Qed.

Lemma n_indices_lower l i : Forall (fun n => i <= n) (n_indices l i).
Proof.
  revert i; induction l as [|c t IH]; intros i; cbn [Access.n_indices]; [constructor|].
  destruct (isN c).
  - constructor; [lia|]. eapply Forall_impl; [|apply IH]. cbn; intros; lia.
  - eapply Forall_impl; [|apply IH]. cbn; intros; lia.
Qed.

Lemma last_cons_ne {B} (x : B) l d : l <> [] -> last (x :: l) d = last l d.
Proof. destruct l; [congruence|reflexivity]. Qed.

Lemma after_N cursor l i prev :
  prev < i ->
  runs_line l (cursor + i) (open_of cursor prev i) =
  (gaps cursor (prev :: n_indices l i),
   open_of cursor (last (prev :: n_indices l i) 0) (i + Z.of_nat (length l))).
Proof.
  revert i prev; induction l as [|c t IH]; intros i prev Hlt.
  - cbn [runs_line Access.n_indices gaps last length]. now replace (i + Z.of_nat 0) with i by lia.
  - cbn [runs_line Access.n_indices length]. destruct (isN c) eqn:Hc.
    + replace (cursor + i + 1) with (cursor + (i + 1)) by lia.
      rewrite <- (open_of_next cursor i), IH by lia.
      replace (i + 1 + Z.of_nat (length t)) with (i + Z.of_nat (S (length t))) by lia.
      f_equal.
      cbn [gaps]. f_equal. unfold open_of, close.
      destruct (prev + 1 <? i) eqn:E1, (1 <? i - prev) eqn:E2; try lia.
      * do 2 f_equal; lia.
      * reflexivity.
    + replace (cursor + i + 1) with (cursor + (i + 1)) by lia.
      assert (H1 : match open_of cursor prev i with Some s => Some s | None => Some (cursor + i) end
                   = open_of cursor prev (i + 1)).
      { unfold open_of. destruct (prev + 1 <? i) eqn:E1, (prev + 1 <? i + 1) eqn:E2; try lia; try reflexivity.
        f_equal; lia. }
      rewrite H1, IH by lia.
      now replace (i + 1 + Z.of_nat (length t)) with (i + Z.of_nat (S (length t))) by lia.
Qed.

Lemma after_N_None cursor l k :
  runs_line l (cursor + (k + 1)) None =
  (gaps cursor (k :: n_indices l (k + 1)),
   open_of cursor (last (k :: n_indices l (k + 1)) 0) (k + 1 + Z.of_nat (length l))).
Proof. rewrite <- (open_of_next cursor k). apply after_N. lia. Qed.

Lemma first_N_split l :
  existsb isN l = true ->
  exists pre c post, l = pre ++ c :: post /\ existsb isN pre = false /\ isN c = true.
Proof.
  induction l as [|c t IH]; cbn [existsb]; intros H; [discriminate|].
  destruct (isN c) eqn:Hc.
  - exists [], c, t. auto.
  - cbn in H. destruct (IH H) as (pre & c' & post & -> & Hp & Hc').
    exists (c :: pre), c', post. cbn [existsb app]. rewrite Hc, Hp. auto.
Qed.

Lemma n_indices_app l1 l2 i :
  n_indices (l1 ++ l2) i = n_indices l1 i ++ n_indices l2 (i + Z.of_nat (length l1)).
Proof.
  revert i; induction l1 as [|c t IH]; intros i; cbn [app Access.n_indices length].
  - now replace (i + Z.of_nat 0) with i by lia.
  - rewrite IH. replace (i + 1 + Z.of_nat (length t)) with (i + Z.of_nat (S (length t))) by lia.
    destruct (isN c); reflexivity.
Qed.

Lemma n_indices_noN l i : existsb isN l = false -> n_indices l i = [].
Proof.
  revert i; induction l as [|c t IH]; intros i H; [reflexivity|].
  cbn [existsb] in H. apply orb_false_iff in H as [Hc Ht].
  cbn [Access.n_indices]. rewrite Hc. auto.
Qed.

(* One scanner step agrees with the character machine on that line. *)
Lemma scan_line_correct cursor rs line :
  line <> [] ->
  scan_line isN (cursor, rs) line =
  let '(out, o) := runs_line line cursor rs in (out, (cursor + Z.of_nat (length line), o)).
Proof.
  intros Hne. unfold scan_line.
  destruct (existsb isN line) eqn:Hex.
  - destruct (forallb isN line) eqn:Hall.
    + rewrite runs_line_allN by assumption. reflexivity.
    + destruct (first_N_split _ Hex) as (pre & c & post & -> & Hpre & Hc).
      rewrite n_indices_app, (n_indices_noN pre) by assumption.
      cbn [app Access.n_indices]. rewrite Hc. cbn [hd].
      set (k := Z.of_nat (length pre)).
      replace (0 + k) with k by lia.
      rewrite runs_line_app.
      assert (Hpre_run : runs_line pre cursor rs =
                ([], match rs with Some s => Some s
                               | None => if k =? 0 then None else Some cursor end)).
      { destruct rs as [s|].
        - now apply runs_line_noN_any.
        - destruct pre as [|p pre'].
          + subst k; cbn. reflexivity.
          + rewrite runs_line_noN by (auto; congruence).
            subst k. cbn [length]. destruct (Z.of_nat (S (length pre')) =? 0) eqn:E; [lia|reflexivity]. }
      rewrite Hpre_run. fold k.
      cbn [runs_line]. rewrite Hc.
      replace (cursor + k + 1) with (cursor + (k + 1)) by lia.
      rewrite after_N_None.
      assert (Hlen : Z.of_nat (length (pre ++ c :: post)) = k + 1 + Z.of_nat (length post)).
      { rewrite app_length. cbn [length]. subst k. lia. }
      rewrite Hlen. cbn [app]. unfold open_of.
      f_equal.
      f_equal. destruct rs as [s|]; cbn [close]; [reflexivity|].
      destruct (k =? 0) eqn:E; cbn [close]; reflexivity.
  - rewrite runs_line_noN by assumption. reflexivity.
Qed.

Lemma scan_lines_correct lines : forall cursor rs,
  Forall (fun l => l <> []) lines ->
  scan_lines isN (cursor, rs) lines =
  let '(out, o) := runs_line (concat lines) cursor rs in
  (out, (cursor + Z.of_nat (length (concat lines)), o)).
Proof.
  induction lines as [|l t IH]; intros cursor rs Hne.
  - cbn. now replace (cursor + 0) with cursor by lia.
  - inversion Hne as [|? ? Hl Ht]; subst.
    cbn [scan_lines concat]. rewrite scan_line_correct by assumption.
    rewrite runs_line_app.
    destruct (runs_line l cursor rs) as [out1 o1].
    rewrite IH by assumption.
    destruct (runs_line (concat t) _ o1) as [out2 o2].
    rewrite app_length. f_equal. f_equal. lia.
Qed.

Theorem regions_of_record_runs lines :
  Forall (fun l => l <> []) lines ->
  regions_of_record isN lines = runs isN (concat lines).
Proof.
  intros Hne. unfold regions_of_record, runs, runs_from.
  rewrite scan_lines_correct by assumption.
  destruct (runs_line (concat lines) 0 None) as [out o]. reflexivity.
Qed.

End ScanProofs.

Lemma chars_nonempty (s : string) : s <> ""%string -> chars s <> [].
Proof. destruct s; [congruence|]. cbn. congruence. Qed.

Lemma get_regions_record_runs (lines : list string) :
  Forall (fun l => l <> ""%string) lines ->
  get_regions_record lines = runs isN_ascii (concat (map Str.chars lines)).
Proof.
  intros H. unfold get_regions_record. apply regions_of_record_runs.
  induction H as [|l t Hl Ht IH]; cbn [map]; constructor; auto using chars_nonempty.
Qed.
