(* Proofs for C16, part 7: do_breaks as a complete ordered list.  The gene intervals are, per gene
   of a chromosome, (smallest start, largest end) of its own bins, listed by position; the raw rows
   come boundary by boundary, gene by gene; the result is their stable descending sort by
   (min(probes left, probes right), |change|). *)
From Coq Require Import Qabs Sorting.Permutation Sorting.Sorted.
From CNV Require Import Base.Prelude Base.Str Gen.Params Gen.GenesDefaults
  Model.Genes Model.Reports Model.Chromsort Spec.Genes
  Proofs.GenesMap Proofs.Genes Proofs.GenesReports Proofs.GenesBreaks Proofs.GenesGeneral
  Proofs.ChromsortLemmas.

Local Open Scope nat_scope.

(* ---- the model's insertion sorts are the stable sort ------------------------------------------------ *)

Lemma ins_b_insert x l : ins_b x l = insert_by bkey_ge x l.
Proof. induction l as [|y t IH]; [reflexivity|]. cbn [ins_b insert_by]. rewrite IH. reflexivity. Qed.

Lemma sort_b_stable l : sort_b l = stable_sort bkey_ge l.
Proof.
  unfold sort_b. induction l as [|x t IH]; [reflexivity|]. cbn [fold_right stable_sort].
  rewrite IH. apply ins_b_insert.
Qed.

Definition iv_leb (x y : interval) : bool := lex_le (snd (fst x)) (snd (fst y)).

Lemma ins_iv_insert x l : ins_iv x l = insert_by iv_leb x l.
Proof. induction l as [|y t IH]; [reflexivity|]. cbn [ins_iv insert_by]. rewrite IH. reflexivity. Qed.

Lemma sort_iv_stable l : sort_iv l = stable_sort iv_leb l.
Proof.
  unfold sort_iv. induction l as [|x t IH]; [reflexivity|]. cbn [fold_right stable_sort].
  rewrite IH. apply ins_iv_insert.
Qed.

(* ---- the sort key is a total preorder ------------------------------------------------------------------ *)

Lemma bkey_ge_iff x y : bkey_ge x y = true <-> break_key_ge x y.
Proof.
  unfold bkey_ge, break_key_ge.
  destruct (Z.ltb_spec (Z.min (k_left y) (k_right y)) (Z.min (k_left x) (k_right x))) as [H|H].
  - split; [left; exact H | reflexivity].
  - destruct (Z.ltb_spec (Z.min (k_left x) (k_right x)) (Z.min (k_left y) (k_right y))) as [H'|H'].
    + split; [discriminate|]. intros [H1|[H1 _]]; lia.
    + rewrite Qle_bool_iff. split.
      * intros Hq. right. split; [lia | exact Hq].
      * intros [H1|[_ Hq]]; [lia | exact Hq].
Qed.

Lemma bkey_ge_total a b : bkey_ge a b = true \/ bkey_ge b a = true.
Proof.
  rewrite !bkey_ge_iff. unfold break_key_ge.
  destruct (Z.lt_trichotomy (Z.min (k_left a) (k_right a)) (Z.min (k_left b) (k_right b))) as [H|[H|H]].
  - right. left. exact H.
  - destruct (Qlt_le_dec (Qabs (k_change a)) (Qabs (k_change b))) as [Hq|Hq].
    + right. right. split; [exact H | apply Qlt_le_weak; exact Hq].
    + left. right. split; [symmetry; exact H | exact Hq].
  - left. left. exact H.
Qed.

Lemma bkey_ge_trans a b c : bkey_ge a b = true -> bkey_ge b c = true -> bkey_ge a c = true.
Proof.
  rewrite !bkey_ge_iff. unfold break_key_ge. intros [H1|[H1 Q1]] [H2|[H2 Q2]].
  - left. lia.
  - left. lia.
  - left. lia.
  - right. split; [lia|]. eapply Qle_trans; eassumption.
Qed.

(* ---- the groups by whole name, in order of first occurrence ----------------------------------------------- *)

Lemma iv_fold_names l : forall m,
  cnames (fold_left (fun m b => iv_add b m) l m) = fold_left add_new (map b_gene l) (cnames m).
Proof.
  induction l as [|b t IH]; intros m; [reflexivity|].
  cbn [fold_left map]. rewrite IH, iv_add_names. reflexivity.
Qed.

Lemma iv_groups_order rows :
  iv_groups rows = map (fun g => (g, gene_rows g rows)) (dedup (map b_gene rows)).
Proof.
  assert (Hn : cnames (iv_groups rows) = dedup (map b_gene rows)).
  { unfold iv_groups. rewrite iv_fold_names. apply fold_add_new_nil. }
  rewrite <- Hn. unfold cnames. rewrite map_map.
  rewrite <- (map_id (iv_groups rows)) at 1. apply map_ext_in.
  intros [c l] Hin. cbn [fst]. destruct (iv_groups_rows _ _ _ Hin) as [-> _]. reflexivity.
Qed.

Lemma dedup_in x l : In x (dedup l) <-> In x l.
Proof.
  induction l as [|y t IH]; cbn [dedup]; [tauto|]. cbn [In]. rewrite filter_In, IH. split.
  - intros [H|[H _]]; auto.
  - intros [H|H]; [left; exact H|]. destruct (String.eqb x y) eqn:E.
    + left. apply String.eqb_eq in E. congruence.
    + right. split; [exact H | reflexivity].
Qed.

(* ---- smallest start ------------------------------------------------------------------------------------------ *)

Lemma fold_min_le l : forall a, (fold_left Z.min l a <= a)%Z /\ forall x, In x l -> (fold_left Z.min l a <= x)%Z.
Proof.
  induction l as [|y t IH]; intros a; cbn [fold_left]; [split; [lia | intros x []]|].
  destruct (IH (Z.min a y)) as [H1 H2]. split; [lia|]. intros x [<-|Hx]; [lia | apply H2; exact Hx].
Qed.

Lemma fold_min_in l : forall a, fold_left Z.min l a = a \/ In (fold_left Z.min l a) l.
Proof.
  induction l as [|y t IH]; intros a; cbn [fold_left]; [left; reflexivity|].
  destruct (IH (Z.min a y)) as [H|H]; [|right; right; exact H].
  rewrite H. destruct (Z.min_spec a y) as [[_ E]|[_ E]]; rewrite E; [left; reflexivity | right; left; reflexivity].
Qed.

Lemma hd_sortZ_in l : l <> [] -> In (hd 0%Z (sortZ l)) l.
Proof.
  intros Hne. destruct (sortZ l) as [|h r] eqn:E.
  - exfalso. destruct l as [|x t]; [congruence|].
    assert (Hx : In x (sortZ (x :: t))) by (apply sortZ_in; left; reflexivity). rewrite E in Hx. destruct Hx.
  - cbn [hd]. apply sortZ_in. rewrite E. left. reflexivity.
Qed.

Lemma hd_sortZ_min l : hd 0%Z (sortZ l) = minZ l.
Proof.
  destruct l as [|x t]; [reflexivity|].
  assert (Hin : In (hd 0%Z (sortZ (x :: t))) (x :: t)) by (apply hd_sortZ_in; discriminate).
  assert (Hle : forall y, In y (x :: t) -> (hd 0%Z (sortZ (x :: t)) <= y)%Z) by (intros y Hy; apply hd_sortZ_le; exact Hy).
  unfold minZ. destruct (fold_min_le t x) as [M1 M2].
  assert (Hmin_in : In (fold_left Z.min t x) (x :: t)).
  { destruct (fold_min_in t x) as [H|H]; [left; symmetry; exact H | right; exact H]. }
  assert (Hmin_le : forall y, In y (x :: t) -> (fold_left Z.min t x <= y)%Z).
  { intros y [<-|Hy]; [exact M1 | apply M2; exact Hy]. }
  pose proof (Hle _ Hmin_in). pose proof (Hmin_le _ Hin). lia.
Qed.

(* ---- the gene intervals of a chromosome, listed by position -------------------------------------------------------- *)

Definition interval_of (c : string) (rows : list bin) (g : string) : interval :=
  (g, gene_starts c g rows, gene_max_end c g rows).

Lemma ignored_for_breaks_spec g : ignored_for_breaks g = mem_string g (full_ignore IGNORE_GENE_NAMES).
Proof. reflexivity. Qed.

Lemma gene_intervals_order rows c :
  gene_intervals IGNORE_GENE_NAMES rows c = map (interval_of c rows) (genes_by_position c rows).
Proof.
  rewrite gene_intervals_eq. unfold gene_intervals_chrom, genes_by_position.
  set (ign := full_ignore IGNORE_GENE_NAMES). set (crows := chrom_rows c rows).
  set (named := filter (fun b => negb (mem_string (b_gene b) ign)) crows).
  change (fold_left (fun m b => iv_add b m) named []) with (iv_groups named).
  rewrite iv_groups_order, map_map. cbn [fst snd].
  change (filter (fun b => negb (ignored_for_breaks (b_gene b))) crows) with named.
  rewrite sort_iv_stable.
  assert (Hext : forall g, In g (dedup (map b_gene named)) ->
            (g, sortZ (map b_start (gene_rows g named)), maxZ (map b_end (gene_rows g named))) = interval_of c rows g).
  { intros g Hg. apply (proj1 (dedup_in _ _)) in Hg. apply in_map_iff in Hg as (b & <- & Hb).
    unfold named in Hb. apply filter_In in Hb as [_ Hb]. apply negb_true_iff in Hb.
    unfold interval_of, gene_starts, gene_max_end, gene_bins. fold crows. unfold named.
    rewrite gene_rows_filter_real. fold ign. rewrite Hb. reflexivity. }
  rewrite (map_ext_in _ _ _ Hext).
  symmetry. apply (stable_sort_map (interval_of c rows) iv_leb).
Qed.

Lemma break_at_spec mp rows cur next g :
  break_at mp cur next (interval_of (b_chr cur) rows g) = break_rows_at mp rows cur next g.
Proof.
  unfold break_at, interval_of, break_rows_at, gene_starts, gene_min_start.
  rewrite hd_sortZ_min, !countb_sortZ, !countb_map.
  set (own := gene_bins (b_chr cur) g rows).
  destruct ((minZ (map b_start own) <? b_end cur)%Z && (b_end cur <? gene_max_end (b_chr cur) g rows)%Z);
    cbn [andb]; [|reflexivity].
  destruct ((mp <=? Z.of_nat (countb (fun x => (b_start x <? b_end cur)%Z) own))%Z &&
            (mp <=? Z.of_nat (countb (fun x => (b_end cur <=? b_start x)%Z) own))%Z); reflexivity.
Qed.

Lemma breakpoints_raw_cons ivs mp cur next t :
  breakpoints_raw ivs mp (cur :: next :: t) =
  (if String.eqb (b_chr next) (b_chr cur) then flat_map (break_at mp cur next) (ivs (b_chr cur)) else [])
  ++ breakpoints_raw ivs mp (next :: t).
Proof. reflexivity. Qed.

Lemma breaks_unsorted_cons mp rows cur next t :
  breaks_unsorted mp rows (cur :: next :: t) =
  (if String.eqb (b_chr next) (b_chr cur)
   then flat_map (break_rows_at mp rows cur next) (genes_by_position (b_chr cur) rows) else [])
  ++ breaks_unsorted mp rows (next :: t).
Proof. reflexivity. Qed.

Lemma breakpoints_raw_spec rows mp segs :
  breakpoints_raw (gene_intervals IGNORE_GENE_NAMES rows) mp segs = breaks_unsorted mp rows segs.
Proof.
  induction segs as [|cur t IH]; [reflexivity|]. destruct t as [|next t']; [reflexivity|].
  rewrite breakpoints_raw_cons, breaks_unsorted_cons, IH. f_equal.
  destruct (String.eqb (b_chr next) (b_chr cur)); [|reflexivity].
  rewrite gene_intervals_order. rewrite flat_map_concat_map, map_map, <- flat_map_concat_map.
  apply flat_map_ext. intros g. apply break_at_spec.
Qed.

(* ---- the complete ordered result ----------------------------------------------------------------------------------------- *)

Lemma SSorted_impl {A} (R1 R2 : A -> A -> Prop) l :
  (forall a b, R1 a b -> R2 a b) -> StronglySorted R1 l -> StronglySorted R2 l.
Proof.
  intros H Hs. induction Hs as [|a l Hs IH Hf]; constructor; [exact IH|].
  eapply Forall_impl; [|exact Hf]. intros b. apply H.
Qed.

Lemma do_breaks_rows rows segs mp :
  let raw := breaks_unsorted mp rows segs in
  let out := do_breaks rows segs mp in
  out = stable_sort bkey_ge raw /\
  Permutation raw out /\
  StronglySorted break_key_ge out /\
  (forall z, filter (same_break_key z) out = filter (same_break_key z) raw).
Proof.
  intros raw out.
  assert (Hout : out = stable_sort bkey_ge raw).
  { unfold out, do_breaks. rewrite sort_b_stable, breakpoints_raw_spec. reflexivity. }
  split; [exact Hout|]. rewrite Hout. split; [apply stable_sort_perm|]. split.
  - eapply SSorted_impl; [|apply (stable_sort_sorted bkey_ge bkey_ge_total bkey_ge_trans raw)].
    intros a b Hab. apply bkey_ge_iff. exact Hab.
  - intros z. apply (stable_sort_stable bkey_ge bkey_ge_trans).
Qed.

(* the interval of a gene: chromosome, smallest start and largest end over its own bins *)
Lemma gene_interval_fields rows c g starts gend :
  In (g, starts, gend) (gene_intervals IGNORE_GENE_NAMES rows c) <->
  ignored_for_breaks g = false /\ gene_bins c g rows <> [] /\
  starts = gene_starts c g rows /\ gend = gene_max_end c g rows.
Proof. rewrite gene_intervals_eq. apply gene_intervals_chrom_in. Qed.

Lemma gene_starts_min rows c g : hd 0%Z (gene_starts c g rows) = gene_min_start c g rows.
Proof. apply hd_sortZ_min. Qed.

Lemma do_breaks_table_spec rows segs mp :
  do_breaks_table rows segs mp =
  (["gene"; "chromosome"; "location"; "change"; "probes_left"; "probes_right"]%string,
   map brow_cells (stable_sort bkey_ge (breaks_unsorted mp rows segs))).
Proof.
  unfold do_breaks_table. destruct (do_breaks_rows rows segs mp) as [H _]. cbv zeta in H. rewrite H. reflexivity.
Qed.

Lemma gene_intervals_full rows c :
  (forall g starts gend,
     In (g, starts, gend) (gene_intervals IGNORE_GENE_NAMES rows c) <->
     ignored_for_breaks g = false /\ gene_bins c g rows <> [] /\
     starts = gene_starts c g rows /\ gend = gene_max_end c g rows) /\
  (forall g, hd 0%Z (gene_starts c g rows) = gene_min_start c g rows) /\
  gene_intervals IGNORE_GENE_NAMES rows c = map (interval_of c rows) (genes_by_position c rows).
Proof.
  split; [intros; apply gene_interval_fields|]. split; [intros; apply gene_starts_min|].
  apply gene_intervals_order.
Qed.
