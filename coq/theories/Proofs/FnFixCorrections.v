(* C04 tie of the control flow of load_adjust_coverages (regenerated from the Python source on every run):

       if (cnarr["log2"] > params.NULL_LOG2_COVERAGE - params.MIN_REF_COVERAGE).sum() <= len(cnarr) // 2:
           logging.warning(...)
       else:
           frac = ...
           cnarr_index_reset = False
           if fix_gc:
               if "gc" in ref_matched:
                   cnarr = center_by_window(cnarr, frac, ref_matched["gc"]); cnarr_index_reset = True
               else: logging.warning(...)
           if fix_edge:
               edge_bias = get_edge_bias(cnarr, params.INSERT_SIZE)
               cnarr = center_by_window(cnarr, frac, edge_bias); cnarr_index_reset = True
           if fix_rmask:
               if "rmask" in ref_matched:
                   cnarr = center_by_window(cnarr, frac, ref_matched["rmask"]); cnarr_index_reset = True
               else: logging.warning(...)

     Gen/FnFixLow.v          fn_low_row (the row mask under .sum()), fn_mostly_low (the count test);
     Gen/FnFixCorrections.v  fn_corr_gc / fn_corr_edge / fn_corr_rmask: (cnarr, cnarr_index_reset) after the first
                             one / two / three `if` statements.  Tables are opaque ids: the table on entry and what
                             each center_by_window call returns at its site.
   Here: the model's mostly_low is the generated test on the generated mask, and Model/Fix.v corrections IS the
   three statements in their order, each correction computed from the table the previous prefix leaves. *)
From Coq Require Import Qabs.
From CNV Require Import Base.Prelude Base.Str Base.QNum Gen.Params Gen.FixDefaults Gen.FnFixLow Gen.FnFixCorrections
  Model.Fix.

Local Open Scope Z_scope.

(* ---- the low-coverage test --------------------------------------------------------------------------------------- *)

Lemma Qle_bool_red_r x y : Qle_bool x (Qred y) = Qle_bool x y.
Proof.
  destruct (Qle_bool x y) eqn:E.
  - apply Qle_bool_iff. apply Qle_bool_iff in E. rewrite Qred_correct. exact E.
  - destruct (Qle_bool x (Qred y)) eqn:F; [|reflexivity].
    apply Qle_bool_iff in F. rewrite Qred_correct in F. apply Qle_bool_iff in F. congruence.
Qed.

Lemma source_low_row b sf :
  qlt_b low_cut (blog2 b) = fn_low_row (blog2 b) NULL_LOG2_COVERAGE MIN_REF_COVERAGE sf.
Proof. unfold qlt_b, low_cut, fn_low_row. cbv zeta. rewrite Qle_bool_red_r. reflexivity. Qed.

Theorem source_mostly_low l sf :
  mostly_low l
  = fn_mostly_low (Z.of_nat (length (filter (fun b => fn_low_row (blog2 b) NULL_LOG2_COVERAGE MIN_REF_COVERAGE sf) l)))
                  (Z.of_nat (length l)) sf.
Proof.
  unfold mostly_low, fn_mostly_low. cbv zeta.
  rewrite (filter_ext _ (fun b => fn_low_row (blog2 b) NULL_LOG2_COVERAGE MIN_REF_COVERAGE sf));
    [reflexivity | intro b; apply source_low_row].
Qed.

(* ---- the corrections ------------------------------------------------------------------------------------------- *)

(* ids: 0 the table on entry; 1 / 2 / 3 what the gc / edge / rmask call of center_by_window returns at its site *)
Definition run_prefix (f : Z -> bool -> bool -> bool -> bool -> bool -> Z -> Z -> Z -> Z -> Z * bool)
  (c : cfg) (fix_gc fix_edge fix_rmask : bool) : Z * bool :=
  f 0 fix_gc fix_edge fix_rmask (has_gc c) (has_rmask c) 1 0 2 3.

Definition py_corrections (c : cfg) (fix_gc fix_edge fix_rmask : bool) (perm : list nat) (wing : nat)
  (l : list brow) : list brow :=
  let l1 := if fst (run_prefix fn_corr_gc c fix_gc fix_edge fix_rmask) =? 1
            then center_by_window perm wing (map (fun b => r_gc (snd b)) l) l else l in
  let l2 := if fst (run_prefix fn_corr_edge c fix_gc fix_edge fix_rmask) =? 2
            then center_by_window perm wing (edge_bias l1) l1 else l1 in
  let l3 := if fst (run_prefix fn_corr_rmask c fix_gc fix_edge fix_rmask) =? 3
            then center_by_window perm wing (map (fun b => r_rmask (snd b)) l2) l2 else l2 in
  l3.

Theorem source_corrections c fix_gc fix_edge fix_rmask perm wing l :
  corrections c fix_gc fix_edge fix_rmask perm wing l = py_corrections c fix_gc fix_edge fix_rmask perm wing l.
Proof.
  unfold corrections, py_corrections, run_prefix, fn_corr_gc, fn_corr_edge, fn_corr_rmask.
  destruct fix_gc, fix_edge, fix_rmask, (has_gc c), (has_rmask c); reflexivity.
Qed.

(* the index of the reference is reset exactly when some correction ran *)
Lemma source_index_reset c fix_gc fix_edge fix_rmask :
  snd (run_prefix fn_corr_rmask c fix_gc fix_edge fix_rmask)
  = (fix_gc && has_gc c) || fix_edge || (fix_rmask && has_rmask c).
Proof.
  unfold run_prefix, fn_corr_rmask.
  destruct fix_gc, fix_edge, fix_rmask, (has_gc c), (has_rmask c); reflexivity.
Qed.
