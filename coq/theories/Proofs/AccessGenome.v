(* C13_genome: do_access over several sequences is, sequence by sequence and in the order of
   the FASTA, the per-sequence pipeline on that sequence's runs and on the rows of each
   exclude table that carry its name; sequences dropped by skip_noncanonical contribute
   nothing; names that occur only in an exclude table are never looked at. *)
From CNV Require Import Base.Prelude Base.Str Model.IvRow Model.Intervals Model.Access Model.AccessText
  Model.AccessPipe.

Definition record : Type := (string * list (Z * Z))%type.

(* the table GA.from_rows(get_regions(...)) of a genome: each sequence's runs under its name *)
Definition flatten_recs (recs : list record) : list tagged :=
  flat_map (fun nr => tag (fst nr) (snd nr)) recs.

Definition collect {X} (l : list (option (list X))) : option (list X) :=
  match all_some l with Some parts => Some (concat parts) | None => None end.

(* what one sequence contributes once it is kept *)
Definition per_kept (g : Z) (excls : list (list tagged)) (nr : record) : option (list tagged) :=
  match access_sequence g (snd nr) (excls_for (fst nr) excls) with
  | Some r => Some (tag (fst nr) r)
  | None => None
  end.

Definition dropped (skip : bool) (name : string) : bool := skip && negb (is_canonical_contig_name name).

Definition per_record (g : Z) (skip : bool) (excls : list (list tagged)) (nr : record) : option (list tagged) :=
  if dropped skip (fst nr) then Some [] else per_kept g excls nr.

(* ---- collect ---------------------------------------------------------------------------- *)

Lemma collect_cons_some {X} (x : list X) l :
  collect (Some x :: l) = match collect l with Some r => Some (x ++ r) | None => None end.
Proof. unfold collect. cbn [all_some]. destruct (all_some l); reflexivity. Qed.

Lemma collect_cons_none {X} (l : list (option (list X))) : collect (None :: l) = None.
Proof. reflexivity. Qed.

Lemma collect_filter {X Y} (f : Y -> option (list X)) (p : Y -> bool) l :
  collect (map f (filter p l)) = collect (map (fun y => if p y then f y else Some []) l).
Proof.
  induction l as [|y t IH]; [reflexivity|].
  cbn [filter map]. destruct (p y).
  - cbn [map]. destruct (f y) as [x|]; [|reflexivity]. now rewrite !collect_cons_some, IH.
  - rewrite collect_cons_some, <- IH. destruct (collect _); reflexivity.
Qed.

(* ---- names ------------------------------------------------------------------------------ *)

Lemma t_name_tag n rs : map t_name (tag n rs) = repeat n (length rs).
Proof. induction rs as [|p t IH]; [reflexivity|]. cbn [tag map length repeat]. f_equal. exact IH. Qed.

Lemma names_flatten_in c recs : In c (map t_name (flatten_recs recs)) -> In c (map fst recs).
Proof.
  induction recs as [|[n rs] t IH]; [auto|].
  unfold flatten_recs. cbn [flat_map]. rewrite map_app, t_name_tag. intros H.
  apply in_app_or in H as [H|H].
  - left. apply repeat_spec in H. now subst.
  - right. now apply IH.
Qed.

Lemma uniq_in c l : In c (uniq l) -> In c l.
Proof.
  revert c. induction l as [|d t IH]; intros c; [auto|].
  cbn [uniq]. intros [->|H]; [now left|]. apply filter_In in H as [H _]. right. now apply IH.
Qed.

Lemma filter_neq_notin n l : ~ In n l -> filter (fun d => negb (String.eqb d n)) l = l.
Proof.
  induction l as [|d t IH]; intros Hn; [reflexivity|].
  cbn [filter]. destruct (String.eqb d n) eqn:E.
  - apply String.eqb_eq in E. subst. exfalso. apply Hn. now left.
  - cbn [negb]. f_equal. apply IH. intros H. apply Hn. now right.
Qed.

Lemma uniq_repeat_app n k l : ~ In n l -> uniq (repeat n (S k) ++ l) = n :: uniq l.
Proof.
  intros Hn. induction k as [|k IH].
  - cbn [repeat app uniq]. f_equal. apply filter_neq_notin. intros H. apply Hn. now apply uniq_in.
  - change (repeat n (S (S k)) ++ l) with (n :: (repeat n (S k) ++ l)).
    cbn [uniq]. rewrite IH. cbn [filter]. rewrite String.eqb_refl. cbn [negb]. f_equal.
    apply filter_neq_notin. intros H. apply Hn. now apply uniq_in.
Qed.

Definition nonempty (nr : record) : bool := match snd nr with [] => false | _ => true end.

Lemma uniq_flatten recs : NoDup (map fst recs) ->
  uniq (map t_name (flatten_recs recs)) = map fst (filter nonempty recs).
Proof.
  induction recs as [|[n rs] t IH]; intros Hnd; [reflexivity|].
  cbn [map fst] in Hnd. inversion Hnd as [|? ? Hn Hnd']; subst.
  unfold flatten_recs. cbn [flat_map]. fold (flatten_recs t). rewrite map_app, t_name_tag.
  cbn [filter]. unfold nonempty at 1. cbn [snd fst].
  destruct rs as [|p rs'].
  - cbn [length repeat app]. now apply IH.
  - cbn [length map fst]. rewrite uniq_repeat_app.
    + f_equal. now apply IH.
    + intros H. apply Hn. now apply names_flatten_in.
Qed.

(* ---- rows of one name --------------------------------------------------------------------- *)

Lemma rows_of_app c t1 t2 : rows_of c (t1 ++ t2) = rows_of c t1 ++ rows_of c t2.
Proof. unfold rows_of. now rewrite filter_app, map_app. Qed.

Lemma rows_of_tag c n rs : rows_of c (tag n rs) = if String.eqb n c then rs else [].
Proof.
  unfold rows_of. induction rs as [|[a b] t IH]; [now destruct (String.eqb n c)|].
  cbn [tag map filter t_name fst]. destruct (String.eqb n c) eqn:E.
  - cbn [map t_pair fst snd]. f_equal. fold (tag n t). exact IH.
  - fold (tag n t). exact IH.
Qed.

Lemma rows_of_notin c recs : ~ In c (map fst recs) -> rows_of c (flatten_recs recs) = [].
Proof.
  induction recs as [|[n rs] t IH]; intros Hn; [reflexivity|].
  unfold flatten_recs. cbn [flat_map]. fold (flatten_recs t). rewrite rows_of_app, rows_of_tag.
  cbn [fst snd]. destruct (String.eqb n c) eqn:E.
  - apply String.eqb_eq in E. subst. exfalso. apply Hn. now left.
  - cbn [app]. apply IH. intros H. apply Hn. now right.
Qed.

Lemma rows_of_record c rs recs : NoDup (map fst recs) -> In (c, rs) recs ->
  rows_of c (flatten_recs recs) = rs.
Proof.
  induction recs as [|[n ms] t IH]; intros Hnd Hin; [destruct Hin|].
  cbn [map fst] in Hnd. inversion Hnd as [|? ? Hn Hnd']; subst.
  unfold flatten_recs. cbn [flat_map]. fold (flatten_recs t). rewrite rows_of_app, rows_of_tag.
  cbn [fst snd]. destruct Hin as [Heq|Hin].
  - injection Heq as -> ->. rewrite String.eqb_refl, rows_of_notin by exact Hn. apply app_nil_r.
  - destruct (String.eqb n c) eqn:E.
    + apply String.eqb_eq in E. subst. exfalso. apply Hn.
      apply in_map_iff. exists (c, rs). auto.
    + cbn [app]. now apply IH.
Qed.

(* ---- skip_noncanonical -------------------------------------------------------------------- *)

Lemma filter_tag (f : string -> bool) n rs :
  filter (fun r => f (t_name r)) (tag n rs) = if f n then tag n rs else [].
Proof.
  induction rs as [|p t IH]; [now destruct (f n)|].
  cbn [tag map filter t_name fst]. fold (tag n t). rewrite IH. now destruct (f n).
Qed.

Lemma drop_noncanonical_flatten skip recs :
  drop_noncanonical skip (flatten_recs recs) =
  flatten_recs (filter (fun nr => negb (dropped skip (fst nr))) recs).
Proof.
  unfold drop_noncanonical, dropped. destruct skip; cbn [andb negb].
  - induction recs as [|[n rs] t IH]; [reflexivity|].
    unfold flatten_recs. cbn [flat_map filter fst snd]. fold (flatten_recs t).
    rewrite filter_app, IH, (filter_tag is_canonical_contig_name). rewrite negb_involutive.
    destruct (is_canonical_contig_name n); reflexivity.
  - induction recs as [|[n rs] t IH]; [reflexivity|]. cbn [filter]. unfold flatten_recs in *. cbn [flat_map]. now rewrite <- IH.
Qed.

Lemma NoDup_map_filter {X} (f : X -> string) (p : X -> bool) l : NoDup (map f l) -> NoDup (map f (filter p l)).
Proof.
  induction l as [|x t IH]; intros H; [constructor|].
  cbn [map] in H. inversion H as [|? ? Hn Hnd]; subst. cbn [filter]. destruct (p x); [|auto].
  cbn [map]. constructor; [|auto]. intros Hin. apply Hn.
  apply in_map_iff in Hin as (y & Hy & Hin). apply filter_In in Hin as [Hin _].
  apply in_map_iff. eauto.
Qed.

(* ---- the empty sequence contributes nothing ----------------------------------------------- *)

Lemma exclude_all_nil excls : exclude_all [] excls = [].
Proof. induction excls as [|ex t IH]; [reflexivity|]. cbn [exclude_all fold_left]. exact IH. Qed.

Lemma per_kept_empty g excls nr : nonempty nr = false -> per_kept g excls nr = Some [].
Proof.
  destruct nr as [n rs]. unfold nonempty, per_kept. cbn [fst snd]. destruct rs; [|discriminate].
  intros _. unfold access_sequence. now rewrite exclude_all_nil.
Qed.

(* ---- the theorem --------------------------------------------------------------------------- *)

Lemma do_access_collect g skip regions excls :
  do_access g skip regions excls =
  collect (map (access_chrom (gap_or_0 g) (drop_noncanonical skip regions) excls)
               (uniq (map t_name (drop_noncanonical skip regions)))).
Proof. reflexivity. Qed.

Lemma kept_collect g excls recs' :
  NoDup (map fst recs') ->
  collect (map (access_chrom g (flatten_recs recs') excls) (uniq (map t_name (flatten_recs recs')))) =
  collect (map (per_kept g excls) recs').
Proof.
  intros Hnd'. rewrite (uniq_flatten recs' Hnd'), map_map.
  transitivity (collect (map (per_kept g excls) (filter nonempty recs'))).
  - f_equal. apply map_ext_in. intros [n rs] Hin. apply filter_In in Hin as [Hin _].
    unfold access_chrom, per_kept. cbn [fst snd]. now rewrite (rows_of_record n rs recs' Hnd' Hin).
  - rewrite collect_filter. f_equal. apply map_ext. intros nr.
    destruct (nonempty nr) eqn:E; [reflexivity|]. symmetry. now apply per_kept_empty.
Qed.

Theorem do_access_per_record g skip recs excls :
  NoDup (map fst recs) ->
  do_access g skip (flatten_recs recs) excls =
  collect (map (per_record (gap_or_0 g) skip excls) recs).
Proof.
  intros Hnd. rewrite do_access_collect, drop_noncanonical_flatten.
  rewrite kept_collect by (apply NoDup_map_filter; exact Hnd).
  rewrite collect_filter. f_equal. apply map_ext. intros nr.
  unfold per_record. now destruct (dropped skip (fst nr)).
Qed.
