(* C13 source tie of the contig-name rule.

   cnvlib/antitarget.py  is_canonical_contig_name, the WHOLE function:
       return not re_noncanonical.search(name)
   is regenerated on every run as Gen/FnAccessCanon.v (fn_is_canonical: a function of "the pattern is found").  With
   the model's pattern test `noncanonical name` (Model/Access.v) it IS the model's is_canonical_contig_name. *)
From CNV Require Import Base.Prelude Base.Str Gen.FnAccessCanon Model.Access.

Lemma source_is_canonical (name : string) :
  fn_is_canonical (noncanonical name) = is_canonical_contig_name name.
Proof. reflexivity. Qed.

