(* C04, structural part: which bins come out of do_fix and in what order (C04_bins), and when
   it refuses (C04_errors). *)
From CNV Require Import Base.Prelude Base.Str Base.QNum Model.Chromsort Proofs.ChromsortLemmas
  Proofs.QNumLemmas Model.Smoothing Model.Fix Spec.Fix Proofs.FixLib Gen.Params Gen.FixDefaults Gen.DescDefaults.
From Coq Require Import Qround Qabs Setoid Morphisms Psatz.

Definition idk (k : key) : string * Z * Z := k.
Definition rk (k : key) : rkey := rkey_of k.

(* ------------------------------------------------------------------------ *)
(* more list / sort facts                                                      *)

Lemma Permutation_filter' {A} (p : A -> bool) l l' : Permutation l l' -> Permutation (filter p l) (filter p l').
Proof.
  induction 1 as [|x l l' P IH|x y l|l1 l2 l3 P1 IH1 P2 IH2]; cbn; auto.
  - destruct (p x); auto.
  - destruct (p x), (p y); auto. apply perm_swap.
  - eapply perm_trans; eauto.
Qed.

Lemma filter_sort_regions {A} (proj : A -> string * Z * Z) (p : A -> bool) l :
  NoDup (map (fun x => rkey_of (proj x)) l) ->
  filter p (sort_regions proj l) = sort_regions proj (filter p l).
Proof.
  intros ND.
  rewrite (sort_regions_perm_eq proj (filter p l) (filter p (sort_regions proj l))).
  - symmetry. apply sort_regions_sorted_perm_id. apply regions_sorted_filter. apply sort_regions_sorted.
  - apply Permutation_filter'. apply sort_regions_perm.
  - now apply NoDup_map_filter.
Qed.

Lemma map_fst_combine {A B} (a : list A) (b : list B) : length a = length b -> map fst (combine a b) = a.
Proof.
  revert b; induction a as [|x t IH]; intros [|y b]; cbn; intros H; try discriminate; auto.
  f_equal. apply IH. lia.
Qed.

Lemma map_snd_combine {A B} (a : list A) (b : list B) : length a = length b -> map snd (combine a b) = b.
Proof.
  revert b; induction a as [|x t IH]; intros [|y b]; cbn; intros H; try discriminate; auto.
  f_equal. apply IH. lia.
Qed.

Lemma regions_sorted_map {A} (proj : A -> string * Z * Z) l :
  regions_sorted proj l <-> regions_sorted idk (map proj l).
Proof.
  unfold regions_sorted. induction l as [|x t IH]; cbn.
  - split; constructor.
  - split; intros H; inversion H as [|? ? S F]; subst; constructor.
    + now apply IH.
    + rewrite Forall_map. exact F.
    + now apply IH.
    + rewrite Forall_map in F. exact F.
Qed.

(* ------------------------------------------------------------------------ *)
(* distinct: the chromosome groups partition the table                          *)

Lemma distinct_In l x : In x (distinct l) <-> In x l.
Proof.
  induction l as [|y t IH]; cbn; [tauto|].
  rewrite filter_In, IH. split.
  - intros [H|[H _]]; auto.
  - intros [H|H]; auto. destruct (String.eqb y x) eqn:E.
    + left. now apply String.eqb_eq.
    + right. split; auto.
Qed.

Lemma distinct_NoDup l : NoDup (distinct l).
Proof.
  induction l as [|y t IH]; cbn; [constructor|]. constructor.
  - rewrite filter_In. intros [_ H]. rewrite String.eqb_refl in H. cbn in H. discriminate.
  - now apply NoDup_filter.
Qed.

Lemma fold_right_ext' {A B} (f g : A -> B -> B) a l :
  (forall c acc, f c acc = g c acc) -> fold_right f a l = fold_right g a l.
Proof. intros E; induction l; cbn; auto. now rewrite IHl, E. Qed.

Lemma indicator_sum (v : string) cs :
  NoDup cs -> In v cs ->
  fold_right (fun c acc => ((if String.eqb c v then 1 else 0) + acc)%nat) O cs = 1%nat.
Proof.
  induction cs as [|c cs IH]; intros ND Hin; [contradiction|].
  inversion ND as [|? ? Hnin ND']; subst. cbn [fold_right].
  destruct (String.eqb c v) eqn:E.
  - apply String.eqb_eq in E. subst c.
    assert (Z0 : fold_right (fun c acc => ((if String.eqb c v then 1 else 0) + acc)%nat) O cs = O).
    { clear IH ND ND' Hin. induction cs as [|c' cs IH']; cbn [fold_right]; auto.
      destruct (String.eqb c' v) eqn:E'.
      - apply String.eqb_eq in E'. exfalso. apply Hnin. now left.
      - rewrite IH'; auto. intro; apply Hnin; now right. }
    rewrite Z0. reflexivity.
  - destruct Hin as [->|Hin]; [rewrite String.eqb_refl in E; discriminate|].
    rewrite IH; auto.
Qed.

Lemma sum_split {A} (f h : A -> nat) cs :
  fold_right (fun c acc => (f c + h c + acc)%nat) O cs
  = (fold_right (fun c acc => (f c + acc)%nat) O cs + fold_right (fun c acc => (h c + acc)%nat) O cs)%nat.
Proof. induction cs as [|c cs IH]; cbn [fold_right]; auto. rewrite IH. lia. Qed.

Lemma group_lengths {A} (g : A -> string) (l : list A) : forall cs,
  NoDup cs -> (forall x, In x l -> In (g x) cs) ->
  fold_right (fun c acc => (length (filter (fun x => String.eqb c (g x)) l) + acc)%nat) O cs = length l.
Proof.
  induction l as [|x t IH]; intros cs ND Hin.
  - clear. induction cs as [|c cs IHc]; cbn; auto.
  - assert (Ht : forall y, In y t -> In (g y) cs) by (intros; apply Hin; now right).
    specialize (IH cs ND Ht).
    assert (Hx : In (g x) cs) by (apply Hin; now left).
    rewrite (fold_right_ext' _ (fun c acc => ((if String.eqb c (g x) then 1 else 0)
                    + length (filter (fun y => String.eqb c (g y)) t) + acc)%nat)).
    + rewrite sum_split, IH, indicator_sum; auto.
    + intros c acc. cbn [filter]. destruct (String.eqb c (g x)); reflexivity.
Qed.

Lemma length_concat_map {A B} (f : A -> list B) (cs : list A) :
  length (concat (map f cs)) = fold_right (fun c acc => (length (f c) + acc)%nat) O cs.
Proof. induction cs; cbn; auto. rewrite app_length. now rewrite IHcs. Qed.

Lemma edge_go_length prev l : length (edge_go prev l) = length l.
Proof.
  revert prev; induction l as [|[s e] t IH]; intros prev; cbn [edge_go length]; auto.
Qed.

Lemma edge_bias_length l : length (edge_bias l) = length l.
Proof.
  unfold edge_bias. cbv zeta. rewrite length_concat_map.
  erewrite fold_right_ext'.
  2:{ intros c acc. rewrite edge_go_length, map_length. reflexivity. }
  rewrite (group_lengths (fun k : key => fst (fst k))).
  - apply map_length.
  - apply distinct_NoDup.
  - intros x Hx. apply distinct_In. apply in_map_iff. exists x. auto.
Qed.

(* ------------------------------------------------------------------------ *)
(* the literal filter is the coded filter                                      *)
Local Open Scope Q_scope.

Lemma qle_b_Qeq a a' b b' : a == a' -> b == b' -> qle_b a b = qle_b a' b'.
Proof.
  intros Ea Eb. destruct (qle_b a b) eqn:E1, (qle_b a' b') eqn:E2; auto.
  - apply qle_b_iff in E1. apply qle_b_false in E2. rewrite Ea, Eb in E1. lra.
  - apply qle_b_false in E1. apply qle_b_iff in E2. rewrite Ea, Eb in E1. lra.
Qed.

Lemma qlt_negb_qle a b : qlt_b a b = negb (qle_b b a).
Proof. reflexivity. Qed.

Lemma gc_bounds :
  (3 # 10) - (1 # 1000000000) < gc_lower /\ gc_lower <= 3 # 10 /\
  (7 # 10) - (1 # 1000000000) <= gc_upper /\ gc_upper <= 7 # 10.
Proof.
  repeat split; (apply Qlt_alt || apply Qle_alt); vm_compute; (reflexivity || discriminate).
Qed.

Lemma gc_atom g : gc_clear g ->
  (qlt_b gc_upper g || qlt_b g gc_lower) = negb (qle_b (3 # 10) g && qle_b g (7 # 10)).
Proof.
  intros [[C1|C1] [C2|C2]]; destruct gc_bounds as (B1 & B2 & B3 & B4);
  destruct (qlt_b gc_upper g) eqn:E1; [apply qlt_b_iff in E1|apply qlt_b_false in E1| | | | | | ];
  try (apply qlt_b_iff in E1); try (apply qlt_b_false in E1);
  destruct (qlt_b g gc_lower) eqn:E2; try (apply qlt_b_iff in E2); try (apply qlt_b_false in E2);
  destruct (qle_b (3 # 10) g) eqn:E3; try (apply qle_b_iff in E3); try (apply qle_b_false in E3);
  destruct (qle_b g (7 # 10)) eqn:E4; try (apply qle_b_iff in E4); try (apply qle_b_false in E4);
  cbn; try reflexivity; exfalso; lra.
Qed.

Lemma depth_atom d : 0 <= d -> qeq_b d 0 = negb (qlt_b 0 d).
Proof.
  intros H. destruct (qeq_b d 0) eqn:E1; [apply qeq_b_iff in E1|apply qeq_b_false in E1];
  destruct (qlt_b 0 d) eqn:E2; try (apply qlt_b_iff in E2); try (apply qlt_b_false in E2); cbn; auto.
  - rewrite E1 in E2. lra.
  - exfalso. apply E1. lra.
Qed.

Lemma bad_bin_lit c r : 0 <= r_depth r -> gc_clear (r_gc r) -> bad_bin c r = negb (lit_pass_b c r).
Proof.
  intros Hd Hg. unfold bad_bin, lit_pass_b.
  rewrite (gc_atom _ Hg), (depth_atom _ Hd), !qlt_negb_qle.
  rewrite (qle_b_Qeq MIN_REF_COVERAGE (-5) (r_log2 r) (r_log2 r)) by reflexivity.
  rewrite (qle_b_Qeq (r_log2 r) (r_log2 r) (- MIN_REF_COVERAGE) 5) by reflexivity.
  rewrite (qle_b_Qeq (r_spread r) (r_spread r) MAX_REF_SPREAD 1) by reflexivity.
  destruct (qle_b (-5) (r_log2 r)), (qle_b (r_log2 r) 5), (qle_b (r_spread r) 1), (has_rdepth c),
    (qle_b (r_depth r) 0), (has_gc c), (qle_b (3 # 10) (r_gc r) && qle_b (r_gc r) (7 # 10)); reflexivity.
Qed.

Local Close Scope Q_scope.

(* ------------------------------------------------------------------------ *)
(* rows keep their coordinates and their reference row                         *)

Definition bref_ok (ref : list rrow) (b : brow) : Prop := lookup ref (bkey b) = Some (snd b).

Definition good (l : list brow) : Prop := NoDup (map rk (map bkey l)) /\ regions_sorted bkey l.

Lemma good_of_keys l l' : map bkey l' = map bkey l -> good l -> good l'.
Proof.
  intros E [ND S]. unfold good. rewrite E. split; [exact ND|].
  apply regions_sorted_map. apply regions_sorted_map in S.
  change (map bkey l') with (map bkey l') in *.
  replace (map bkey l') with (map bkey l). exact S.
Qed.

Lemma keys_length (l l' : list brow) : map bkey l' = map bkey l -> length l' = length l.
Proof. intros E. rewrite <- (map_length bkey l'), E. apply map_length. Qed.

Lemma center_all_keys c k l : map bkey (center_all c k l) = map bkey l.
Proof. unfold center_all. destruct (center_sel c k l); auto. rewrite map_map. now apply map_ext. Qed.

Lemma center_all_snd c k l : map snd (center_all c k l) = map snd l.
Proof. unfold center_all. destruct (center_sel c k l); auto. rewrite map_map. now apply map_ext. Qed.

Lemma center_all_bref_ok ref c k l : Forall (bref_ok ref) l -> Forall (bref_ok ref) (center_all c k l).
Proof.
  unfold center_all. destruct (center_sel c k l); auto. intros H. rewrite Forall_map.
  eapply Forall_impl; [|exact H]. intros b0 Hb0. exact Hb0.
Qed.

Lemma rolling_length wing x : length (rolling wing x) = length x.
Proof.
  unfold rolling. destruct (Z.of_nat (length x) <? ROLLING_MIN_LEN)%Z; auto.
  unfold rolling_median_wing, windows. now rewrite !map_length, seq_length.
Qed.

(* the rows center_by_window re-sorts, before the final genomic sort *)
Definition cbw_order (perm : list nat) (keys : list Q) (l : list brow) : list brow :=
  map snd (stable_sort key_leb (pick (combine keys l) perm)).

Lemma cbw_order_perm perm keys l :
  Permutation perm (seq 0 (length l)) -> length keys = length l -> Permutation (cbw_order perm keys l) l.
Proof.
  intros P Hlen. unfold cbw_order.
  rewrite <- (map_snd_combine keys l Hlen) at 2. apply Permutation_map.
  eapply perm_trans; [apply Permutation_sym, stable_sort_perm|].
  apply pick_perm. rewrite combine_length, Hlen, Nat.min_id. exact P.
Qed.

Lemma cbw_unfold perm wing keys l :
  center_by_window perm wing keys l =
  sort_brows (map (fun p => bset_log2 (Qred (blog2 (fst p) - snd p)) (fst p))
                  (combine (cbw_order perm keys l) (rolling wing (map blog2 (cbw_order perm keys l))))).
Proof. reflexivity. Qed.

Lemma cbw_keys perm wing keys l :
  Permutation perm (seq 0 (length l)) -> length keys = length l -> good l ->
  map bkey (center_by_window perm wing keys l) = map bkey l.
Proof.
  intros P Hlen [ND S]. rewrite cbw_unfold. unfold sort_brows. rewrite sort_regions_fast_eq.
  rewrite (sort_regions_map bkey bkey idk) by reflexivity.
  rewrite map_map.
  rewrite (map_ext _ (fun p => bkey (fst p))) by reflexivity.
  rewrite <- (map_map fst bkey).
  rewrite map_fst_combine by (now rewrite rolling_length, map_length).
  rewrite <- (sort_regions_perm_eq idk (map bkey l) (map bkey (cbw_order perm keys l))).
  - apply sort_regions_sorted_perm_id. apply (proj1 (regions_sorted_map bkey l)). exact S.
  - apply Permutation_map, Permutation_sym. now apply cbw_order_perm.
  - exact ND.
Qed.

Lemma cbw_bref_ok ref perm wing keys l :
  Permutation perm (seq 0 (length l)) -> length keys = length l ->
  Forall (bref_ok ref) l -> Forall (bref_ok ref) (center_by_window perm wing keys l).
Proof.
  intros P Hlen H. rewrite cbw_unfold. unfold sort_brows. rewrite sort_regions_fast_eq.
  rewrite Forall_forall. intros b Hb. apply sort_regions_In in Hb.
  apply in_map_iff in Hb as ([p1 p2] & <- & Hp). cbn [fst snd].
  apply in_combine_l in Hp.
  assert (Hin : In p1 l) by (eapply Permutation_in; [exact (cbw_order_perm perm keys l P Hlen)|exact Hp]).
  rewrite Forall_forall in H. exact (H _ Hin).
Qed.

Lemma corrections_keys c g e r perm wing l :
  Permutation perm (seq 0 (length l)) -> good l ->
  map bkey (corrections c g e r perm wing l) = map bkey l.
Proof.
  intros P G. unfold corrections. cbv zeta.
  set (l1 := if g && has_gc c then _ else l).
  assert (K1 : map bkey l1 = map bkey l).
  { unfold l1. destruct (g && has_gc c); auto. apply cbw_keys; auto. now rewrite map_length. }
  assert (G1 : good l1) by (eapply good_of_keys; eauto).
  assert (L1 : length l1 = length l) by now apply keys_length.
  set (l2 := if e then _ else l1).
  assert (K2 : map bkey l2 = map bkey l1).
  { unfold l2. destruct e; auto. apply cbw_keys; auto; [now rewrite L1|apply edge_bias_length]. }
  assert (G2 : good l2) by (eapply good_of_keys; eauto).
  assert (L2 : length l2 = length l) by (rewrite <- L1; now apply keys_length).
  destruct (r && has_rmask c).
  - rewrite cbw_keys; auto; [congruence|now rewrite L2|now rewrite map_length].
  - congruence.
Qed.

Lemma corrections_bref_ok ref c g e r perm wing l :
  Permutation perm (seq 0 (length l)) -> good l -> Forall (bref_ok ref) l ->
  Forall (bref_ok ref) (corrections c g e r perm wing l).
Proof.
  intros P G H. unfold corrections. cbv zeta.
  set (l1 := if g && has_gc c then _ else l).
  assert (K1 : map bkey l1 = map bkey l).
  { unfold l1. destruct (g && has_gc c); auto. apply cbw_keys; auto. now rewrite map_length. }
  assert (H1 : Forall (bref_ok ref) l1).
  { unfold l1. destruct (g && has_gc c); auto. apply cbw_bref_ok; auto. now rewrite map_length. }
  assert (G1 : good l1) by (eapply good_of_keys; eauto).
  assert (L1 : length l1 = length l) by now apply keys_length.
  set (l2 := if e then _ else l1).
  assert (K2 : map bkey l2 = map bkey l1).
  { unfold l2. destruct e; auto. apply cbw_keys; auto; [now rewrite L1|apply edge_bias_length]. }
  assert (H2 : Forall (bref_ok ref) l2).
  { unfold l2. destruct e; auto. apply cbw_bref_ok; auto; [now rewrite L1|apply edge_bias_length]. }
  assert (L2 : length l2 = length l) by (rewrite <- L1; now apply keys_length).
  destruct (r && has_rmask c); auto.
  apply cbw_bref_ok; auto; [now rewrite L2|now rewrite map_length].
Qed.

(* ------------------------------------------------------------------------ *)
(* match_ref, mask_bad, load_adjust                                            *)

Lemma ref_row_lookup ref k : ref_row ref k = lookup ref k.
Proof. reflexivity. Qed.

Lemma presort_eq samp : presort samp = sort_regions skey samp.
Proof. change (presort samp) with (sort_regions_fast skey samp). apply sort_regions_fast_eq. Qed.

Lemma match_ref_inr ref samp m : match_ref ref samp = inr m ->
  map fst m = samp /\ Forall (bref_ok ref) m /\ NoDup (map skey samp) /\ NoDup (map rkey3 ref).
Proof.
  unfold match_ref. destruct (has_dup (map skey samp)) eqn:D1; [discriminate|].
  destruct (has_dup (map rkey3 ref)) eqn:D2; [discriminate|].
  destruct (Prelude.all_some (map (fun s => lookup ref (skey s)) samp)) as [l|] eqn:A; [|discriminate].
  intros E; injection E as <-.
  apply all_some_Some in A.
  assert (L : length samp = length l).
  { rewrite <- (map_length (fun s => lookup ref (skey s)) samp), A. apply map_length. }
  split; [now apply map_fst_combine|]. split; [|split; now apply has_dup_false_iff].
  clear D1 L. revert l A. induction samp as [|s t IH]; intros [|r l] A; cbn in A; try discriminate; cbn [combine].
  - constructor.
  - injection A as A1 A2. constructor; [exact A1|now apply IH].
Qed.

Lemma match_ref_bad ref samp :
  (~ NoDup (map skey samp) \/ ~ NoDup (map rkey3 ref) \/ exists s, In s samp /\ lookup ref (skey s) = None) ->
  exists e, match_ref ref samp = inl e.
Proof.
  intros H. destruct (match_ref ref samp) as [e|m] eqn:E; [eauto|]. exfalso.
  apply match_ref_inr in E as (E1 & E2 & E3 & E4).
  destruct H as [H|[H|(s & Hs & Hn)]]; auto.
  rewrite <- E1 in Hs. apply in_map_iff in Hs as (b & <- & Hb).
  rewrite Forall_forall in E2. specialize (E2 b Hb). unfold bref_ok in E2.
  change (bkey b) with (skey (fst b)) in E2. congruence.
Qed.

Lemma mask_bad_keys c ref m : ref_wf c ref -> Forall (bref_ok ref) m ->
  map bkey (mask_bad c m) = filter (kept_b c ref) (map bkey m).
Proof.
  intros W H. unfold mask_bad. rewrite filter_map_comm. f_equal. apply filter_ext_In'.
  intros b Hb. rewrite Forall_forall in H. specialize (H b Hb). unfold bref_ok in H.
  unfold kept_b. rewrite ref_row_lookup, H. apply lookup_Some in H as [Hin _].
  destruct (W _ Hin) as [W1 W2]. rewrite bad_bin_lit by auto. now rewrite negb_involutive.
Qed.

Lemma mask_bad_bref_ok c ref m : Forall (bref_ok ref) m -> Forall (bref_ok ref) (mask_bad c m).
Proof.
  intros H. unfold mask_bad. rewrite Forall_forall in *. intros b Hb. apply filter_In in Hb as [Hb _]. auto.
Qed.

Lemma NoDup_rk_sort ks : NoDup (map rk ks) -> NoDup (map rk (sort_regions idk ks)).
Proof. apply NoDup_map_perm. apply sort_regions_perm. Qed.

Lemma load_adjust_keys c ref is_t perm wing samp t :
  ref_wf c ref -> NoDup (map rk (map skey samp)) ->
  Permutation perm (seq 0 (length (filter (kept_b c ref) (map skey samp)))) ->
  load_adjust c ref is_t perm wing samp = inr t ->
  map bkey t = sort_regions idk (filter (kept_b c ref) (map skey samp)) /\ Forall (bref_ok ref) t.
Proof.
  intros W ND P. unfold load_adjust. destruct samp as [|s0 samp'].
  { intros E; injection E as <-. cbn. split; constructor. }
  set (samp := s0 :: samp') in *.
  destruct (match_ref ref (presort samp)) as [e|m] eqn:M; [discriminate|].
  apply match_ref_inr in M as (M1 & M2 & _ & _).
  set (ok := center_all c is_t (mask_bad c m)).
  assert (Kok : map bkey ok = sort_regions idk (filter (kept_b c ref) (map skey samp))).
  { unfold ok. rewrite center_all_keys, (mask_bad_keys c ref) by auto.
    replace (map bkey m) with (map skey (presort samp)) by (rewrite <- M1, map_map; reflexivity).
    rewrite presort_eq. rewrite (sort_regions_map skey skey idk) by reflexivity.
    apply filter_sort_regions. exact ND. }
  assert (Hok : Forall (bref_ok ref) ok).
  { unfold ok. apply center_all_bref_ok, mask_bad_bref_ok, M2. }
  assert (Gok : good ok).
  { split.
    - rewrite Kok. apply NoDup_rk_sort. now apply NoDup_map_filter.
    - assert (S : regions_sorted idk (map bkey ok)) by (rewrite Kok; apply sort_regions_sorted).
      exact (proj2 (regions_sorted_map bkey ok) S). }
  assert (Lok : length ok = length (filter (kept_b c ref) (map skey samp))).
  { rewrite <- (map_length bkey ok), Kok. apply sort_regions_length. }
  destruct (mostly_low ok); intros E; injection E as <-.
  - auto.
  - split.
    + rewrite corrections_keys; auto. now rewrite Lok.
    + apply corrections_bref_ok; auto. now rewrite Lok.
Qed.

Lemma load_adjust_inr_inv c ref is_t perm wing samp t :
  load_adjust c ref is_t perm wing samp = inr t ->
  samp = [] \/ (NoDup (map skey samp) /\ NoDup (map rkey3 ref) /\
                forall s, In s samp -> lookup ref (skey s) <> None).
Proof.
  unfold load_adjust. destruct samp as [|s0 samp']; [now left|]. right.
  set (samp := s0 :: samp') in *.
  destruct (match_ref ref (presort samp)) as [e|m] eqn:M; [discriminate|].
  apply match_ref_inr in M as (M1 & M2 & M3 & M4).
  assert (PS : Permutation samp (presort samp)) by (rewrite presort_eq; apply sort_regions_perm).
  split; [|split; auto].
  - eapply Permutation_NoDup; [|exact M3]. apply Permutation_map, Permutation_sym, PS.
  - intros s Hs. assert (Hs' : In s (presort samp)) by (eapply Permutation_in; eauto).
    rewrite <- M1 in Hs'. apply in_map_iff in Hs' as (b & <- & Hb).
    rewrite Forall_forall in M2. specialize (M2 b Hb). unfold bref_ok in M2.
    change (bkey b) with (skey (fst b)) in M2. congruence.
Qed.

(* ------------------------------------------------------------------------ *)
(* fix_pre / do_fix                                                             *)

Lemma fix_post_keys c sq vt va l : map (fun p => bkey (fst p)) (fix_post c sq vt va l) = map bkey l.
Proof.
  unfold fix_post, apply_weights. rewrite map_map. cbn [fst].
  rewrite <- (center_all_keys c true l). reflexivity.
Qed.

Lemma fix_pre_keys c o target anti ref l :
  ref_wf c ref -> distinct_bins (map skey target ++ map skey anti) ->
  perm_contract (perm_t o) (length (filter (kept_b c ref) (map skey target))) ->
  perm_contract (perm_a o) (length (filter (kept_b c ref) (map skey anti))) ->
  fix_pre c o target anti ref = inr l ->
  map bkey l = expected_bins c ref target anti.
Proof.
  intros W ND Pt Pa. unfold fix_pre.
  destruct (load_adjust c ref true (perm_t o) (wing_t o) target) as [e|t] eqn:T; [discriminate|].
  destruct (load_adjust c ref false (perm_a o) (wing_a o) anti) as [e|a] eqn:A; [discriminate|].
  intros E; injection E as <-.
  rewrite map_map. rewrite (map_ext _ bkey) by reflexivity.
  unfold distinct_bins in ND.
  apply load_adjust_keys in T as [T1 _]; auto; [|eapply NoDup_app_l'; rewrite <- map_app; exact ND].
  apply load_adjust_keys in A as [A1 _]; auto; [|eapply NoDup_app_r'; rewrite <- map_app; exact ND].
  unfold expected_bins. rewrite filter_app.
  destruct a as [|a0 a'].
  - cbn in A1. symmetry in A1.
    assert (Z0 : filter (kept_b c ref) (map skey anti) = []).
    { apply length_zero_iff_nil. rewrite <- (sort_regions_length idk), A1. reflexivity. }
    rewrite Z0, app_nil_r. exact T1.
  - unfold sort_brows. rewrite sort_regions_fast_eq.
    rewrite (sort_regions_map bkey bkey idk) by reflexivity.
    rewrite map_app, T1, A1. apply sort_regions_app_sorted.
    rewrite <- filter_app. apply NoDup_map_filter. exact ND.
Qed.

Theorem bins_thm bmv2 c o sq target anti ref out :
  ref_wf c ref -> distinct_bins (map skey target ++ map skey anti) ->
  perm_contract (perm_t o) (length (filter (kept_b c ref) (map skey target))) ->
  perm_contract (perm_a o) (length (filter (kept_b c ref) (map skey anti))) ->
  do_fix_gen bmv2 c o sq target anti ref = inr out ->
  map (fun p => bkey (fst p)) out = expected_bins c ref target anti /\
  regions_sorted idk (map (fun p => bkey (fst p)) out).
Proof.
  intros W ND Pt Pa. unfold do_fix_gen.
  destruct (fix_pre c o target anti ref) as [e|l] eqn:F; [discriminate|].
  intros E; injection E as <-. rewrite fix_post_keys.
  rewrite (fix_pre_keys c o target anti ref l) by auto.
  split; auto. apply sort_regions_sorted.
Qed.

Theorem errors_thm bmv2 c o sq target anti ref :
  malformed target anti ref -> exists e, do_fix_gen bmv2 c o sq target anti ref = inl e.
Proof.
  intros H. unfold do_fix_gen, fix_pre.
  destruct (load_adjust c ref true (perm_t o) (wing_t o) target) as [e|t] eqn:T; [eauto|].
  destruct (load_adjust c ref false (perm_a o) (wing_a o) anti) as [e|a] eqn:A; [eauto|].
  exfalso. apply load_adjust_inr_inv in T, A.
  destruct H as [H|[H|[[Hne H]|(s & Hs & Hn)]]].
  - destruct T as [->|(T1 & _)]; [apply H; constructor|auto].
  - destruct A as [->|(A1 & _)]; [apply H; constructor|auto].
  - destruct T as [->|(_ & T2 & _)]; auto. destruct A as [->|(_ & A2 & _)]; auto.
    destruct Hne; congruence.
  - rewrite ref_row_lookup in Hn. apply in_app_or in Hs as [Hs|Hs].
    + destruct T as [->|(_ & _ & T3)]; [contradiction|]. exact (T3 s Hs Hn).
    + destruct A as [->|(_ & _ & A3)]; [contradiction|]. exact (A3 s Hs Hn).
Qed.
