(* C12 source ties of target.filter_names and target.shortest_name (whole function bodies, regenerated from
   the Python source on every run as Gen/FnTargetNames.v):

       def filter_names(names, exclude=("mRNA",)):
           if len(names) > 1:
               ok_names = set(n for n in names if not any(n.startswith(ex) for ex in exclude))
               if ok_names:
                   return ok_names
           return names

       def shortest_name(names):
           name = min(filter_names(names), key=len)
           if len(name) > 2 and "|" in name[1:-1]:
               name = name.split("|")[-1]
           return name

   A set of names is the list of its elements; the set comprehension, min(.., key=len), the substring
   test on name[1:-1] and the split are opaque inputs keyed by their source text.  Here: Model/Target.v
   filter_names, strip_db and shortest_name_pick ARE the generated functions on the model's values
   of those inputs. *)
From CNV Require Import Base.Prelude Base.Str Model.Target.
From CNV Require Gen.BinsDefaults Gen.FnTargetNames.

Local Open Scope Z_scope.

(* set(n for n in names if not any(n.startswith(ex) for ex in exclude)) *)
Definition ok_names (names : list string) : list string :=
  filter (fun n => negb (existsb (fun ex => str_prefix ex n) Gen.BinsDefaults.name_exclude)) names.

Theorem source_filter_names (names : list string) :
  filter_names names = FnTargetNames.fn_filter_names names (ok_names names).
Proof.
  unfold filter_names, FnTargetNames.fn_filter_names. fold (ok_names names).
  destruct (1 <? Z.of_nat (length names)); [|reflexivity].
  destruct (ok_names names); reflexivity.
Qed.

(* "|" in name[1:-1]  and  name.split("|")[-1] *)
Definition inner_bar (name : string) : bool :=
  existsb (Ascii.eqb (sep_char Gen.BinsDefaults.accession_sep)) (removelast (tl (chars name))).
Definition accession (name : string) : string :=
  last (split_str Gen.BinsDefaults.accession_sep (chars name)) name.

Theorem source_strip_db (name : string) :
  strip_db name = FnTargetNames.fn_shortest_name name (inner_bar name) (accession name).
Proof. reflexivity. Qed.

(* shortest_name(names), `pick` standing for min(.., key=len) among the equally short names *)
Theorem source_shortest_name (pick : list string -> string) (names : list string) :
  shortest_name_pick pick names =
  let name := pick (shortest_names names) in
  FnTargetNames.fn_shortest_name name (inner_bar name) (accession name).
Proof. reflexivity. Qed.
