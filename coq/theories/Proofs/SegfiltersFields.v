(* C14, part 5: every field of the row that replaces a run, as squash_region
   computes it, against the specification functions of Spec/Segfilters.v
   (merged_row), for every non-empty run and hence for every run merged by any
   of the four filters. *)
From Coq Require Import QArith.Qabs.
From CNV Require Import Base.Prelude Base.Str Gen.SegfilterDefaults Model.Segfilters Spec.Segfilters.
From CNV Require Base.QNum Model.Descriptives Spec.Stats Proofs.QNumLemmas.
From CNV Require Import Proofs.SegfiltersRuns Proofs.SegfiltersKeys Proofs.SegfiltersConserve Proofs.SegfiltersLib.
From Coq Require Import Lqa.

(* ------------------------------------------------------------ the weight switch *)

Lemma pos_weighted r : Qltb region_weight_min (sumQ (map weight r)) = weighted r.
Proof.
  unfold weighted, run_weight, qlt, Qltb. change region_weight_min with 0%Q.
  f_equal. apply eq_true_iff_eq. rewrite !Qle_bool_iff, sumQ_qsum. reflexivity.
Qed.

Lemma weighted_lt r : weighted r = true <-> (0 < run_weight r)%Q.
Proof. unfold weighted. apply Qltb_lt. Qed.

Lemma dotQ_qsum_gen (ws xs : list Q) : forall (r : list seg) (f : seg -> Q),
  ws = map weight r -> xs = map f r ->
  (dotQ ws xs == qsum (map (fun s => weight s * f s) r))%Q.
Proof.
  intros r f -> ->. induction r as [|s t IH]; cbn [dotQ qsum map]; [reflexivity|].
  rewrite Qred_correct, IH. reflexivity.
Qed.

(* np.average / np.mean of a full column *)
Lemma wmean_run (f : seg -> Q) r : (wmean (map weight r) (map f r) == run_mean f r)%Q.
Proof.
  unfold wmean, run_mean. rewrite pos_weighted. destruct (weighted r).
  - rewrite Qred_correct, (dotQ_qsum_gen _ _ r f eq_refl eq_refl), sumQ_qsum. reflexivity.
  - rewrite Qred_correct, sumQ_qsum. unfold avg, Qlen. rewrite map_length. reflexivity.
Qed.

(* ------------------------------------------------------------ optional columns *)

Lemma all_some_complete (l : list (option Q)) :
  match all_some l with
  | Some v => complete l = true /\ v = map odflt l
  | None => complete l = false
  end.
Proof.
  induction l as [|[x|] t IH]; cbn [all_some complete forallb map]; [split; reflexivity| |reflexivity].
  fold (complete t). destruct (all_some t) as [v|].
  - destruct IH as (C & ->). split; [exact C|reflexivity].
  - exact IH.
Qed.

Lemma wmean_opt_run (f : seg -> option Q) r :
  oq_equiv (wmean_opt (map weight r) (map f r)) (run_mean_opt f r).
Proof.
  unfold wmean_opt, run_mean_opt. rewrite pos_weighted.
  destruct (weighted r) eqn:W.
  - pose proof (all_some_complete (map f r)) as A.
    destruct (all_some (map f r)) as [v|].
    + destruct A as (C & ->). rewrite C. cbn [oq_equiv].
      rewrite map_map. rewrite (wmean_run (fun s => odflt (f s)) r). unfold run_mean. rewrite W. reflexivity.
    + rewrite A. exact I.
  - rewrite filter_some_present. destruct (present (map f r)) as [|x l]; [exact I|].
    cbn [oq_equiv]. rewrite Qred_correct, sumQ_qsum. reflexivity.
Qed.

(* ------------------------------------------------------------------- genes *)

Lemma gene_squash r : r <> [] -> gene (squash_region r) = joined_genes r.
Proof.
  destruct r as [|s0 r']; [intros H; contradiction H; reflexivity|]. intros _.
  cbn [squash_region gene]. unfold join_genes, joined_genes. rewrite uniq_str_first_occurrences. reflexivity.
Qed.

(* --------------------------------------------------------------------- cn *)

Lemma combine_col_pairs (f : seg -> Q) r : combine (map f r) (map weight r) = col_pairs f r.
Proof. induction r as [|s t IH]; cbn [map combine col_pairs]; [reflexivity|]. f_equal. exact IH. Qed.

Lemma drop_none_ocol_pairs (f : seg -> option Q) r :
  drop_none (combine (map f r) (map weight r)) = ocol_pairs f r.
Proof.
  induction r as [|s t IH]; cbn [map combine drop_none ocol_pairs]; [reflexivity|].
  destruct (f s); rewrite IH; reflexivity.
Qed.

Lemma nonneg_col_pairs (f : seg -> Q) r : nonneg_run r -> Stats.nonneg_weights (col_pairs f r).
Proof.
  intros H p Hp. unfold col_pairs in Hp. apply in_map_iff in Hp as (s & <- & Hs).
  cbn [snd]. unfold nonneg_run in H. rewrite Forall_forall in H. apply H, Hs.
Qed.

Lemma in_ocol_pairs (f : seg -> option Q) r p :
  In p (ocol_pairs f r) -> exists s, In s r /\ f s = Some (fst p) /\ snd p = weight s.
Proof.
  induction r as [|s t IH]; cbn [ocol_pairs]; [contradiction|].
  destruct (f s) as [x|] eqn:E.
  - intros [<-|H]; [exists s; repeat split; [left; reflexivity|exact E]|].
    destruct (IH H) as (s' & I & A & B). exists s'. repeat split; [right; exact I|exact A|exact B].
  - intros H. destruct (IH H) as (s' & I & A & B). exists s'. repeat split; [right; exact I|exact A|exact B].
Qed.

Lemma nonneg_ocol_pairs (f : seg -> option Q) r : nonneg_run r -> Stats.nonneg_weights (ocol_pairs f r).
Proof.
  intros H p Hp. destruct (in_ocol_pairs f r p Hp) as (s & I & _ & ->).
  unfold nonneg_run in H. rewrite Forall_forall in H. apply H, I.
Qed.

Lemma interval_proper a b : forall x y, (x == y)%Q -> (a <= x <= b)%Q -> (a <= y <= b)%Q.
Proof. intros x y E H. rewrite <- E. exact H. Qed.

Lemma interval_mean a b : forall x y, (a <= x <= b)%Q -> (a <= y <= b)%Q -> (a <= (x + y) / 2 <= b)%Q.
Proof.
  intros x y (X1 & X2) (Y1 & Y2). split.
  - apply Qle_shift_div_l; [reflexivity|]. lra.
  - apply Qle_shift_div_r; [reflexivity|]. lra.
Qed.

Lemma cn_merged r : r <> [] -> merged_cn r (squash_region r).
Proof.
  intros NE. unfold merged_cn. split; [|split].
  - intros a b H. apply (cn_squash_P (fun x => (a <= x <= b)%Q)).
    + apply interval_proper.
    + apply interval_mean.
    + exact NE.
    + apply Forall_forall. exact H.
  - intros W. destruct r as [|s0 r']; [contradiction NE; reflexivity|].
    rewrite squash_cn, pos_weighted, W. reflexivity.
  - intros W Hn. destruct r as [|s0 r']; [contradiction NE; reflexivity|].
    rewrite squash_cn, pos_weighted, W. unfold wmedian. rewrite combine_col_pairs.
    destruct (wmedian_pairs_some (col_pairs cn (s0 :: r'))) as (m & E); [cbn; discriminate|].
    rewrite E. apply wmedian_pairs_halves; [apply nonneg_col_pairs; exact Hn|exact E].
Qed.

Lemma present_ocol (f : seg -> option Q) r : map fst (ocol_pairs f r) = present (map f r).
Proof.
  induction r as [|s t IH]; cbn [ocol_pairs map present]; [reflexivity|].
  destruct (f s); cbn [map fst]; rewrite IH; reflexivity.
Qed.

Lemma all_some_present (l : list (option Q)) v : all_some l = Some v -> v = present l.
Proof.
  revert v. induction l as [|[x|] t IH]; cbn [all_some present]; intros v E.
  - injection E as <-. reflexivity.
  - destruct (all_some t) as [u|]; [|discriminate]. injection E as <-. f_equal. apply IH. reflexivity.
  - discriminate.
Qed.

Lemma cn1_merged r : r <> [] -> merged_cn1 r (squash_region r).
Proof.
  intros NE. destruct r as [|s0 r']; [contradiction NE; reflexivity|]. set (r := s0 :: r') in *.
  unfold merged_cn1.
  assert (E1 : cn1 (squash_region r) =
               if weighted r then wmedian_pairs (ocol_pairs cn1 r) else median_opt (map cn1 r)).
  { unfold r. rewrite squash_cn1, pos_weighted. unfold wmedian_opt. rewrite drop_none_ocol_pairs. reflexivity. }
  assert (E2 : cn2 (squash_region r) =
               match cn1 (squash_region r) with
               | Some c1 => Some (Qred (cn (squash_region r) - c1))
               | None => None
               end) by reflexivity.
  split; [|split; [|split; [|split; [|split]]]].
  - (* range *)
    intros a b m H Em. rewrite E1 in Em. destruct (weighted r).
    + apply (wmedian_pairs_P (fun x => (a <= x <= b)%Q) (interval_proper a b) (interval_mean a b)
               (ocol_pairs cn1 r) m); [|exact Em].
      apply Forall_forall. intros p Hp. destruct (in_ocol_pairs cn1 r p Hp) as (s & I & A & _).
      apply (H s (fst p) I A).
    + unfold median_opt in Em. destruct (all_some (map cn1 r)) as [[|x v]|] eqn:A; try discriminate.
      injection Em as <-. apply (median_P (fun x => (a <= x <= b)%Q) (interval_proper a b) (interval_mean a b));
        [discriminate|].
      pose proof (all_some_present _ _ A) as Ev. rewrite Ev.
      apply Forall_forall. intros y Hy. rewrite <- present_ocol in Hy.
      apply in_map_iff in Hy as (p & <- & Hp).
      destruct (in_ocol_pairs cn1 r p Hp) as (s & I & A' & _). apply (H s (fst p) I A').
  - (* weighted: missing iff no cell present *)
    intros W. rewrite E1, W. rewrite <- present_ocol.
    destruct (ocol_pairs cn1 r) as [|[a w] [|q t]]; cbn [wmedian_pairs map]; split; intros H; try reflexivity; discriminate.
  - (* not weighted: missing iff a cell is missing *)
    intros W. rewrite E1, W. unfold median_opt.
    pose proof (all_some_complete (map cn1 r)) as A.
    destruct (all_some (map cn1 r)) as [[|x v]|].
    + destruct A as (_ & A). unfold r in A. cbn in A. discriminate.
    + destruct A as (C & _). rewrite C. split; intros H; discriminate.
    + rewrite A. split; reflexivity.
  - (* not weighted, complete: np.median *)
    intros W C. rewrite E1, W. unfold median_opt.
    pose proof (all_some_complete (map cn1 r)) as A.
    destruct (all_some (map cn1 r)) as [v|] eqn:Av; [|congruence].
    pose proof (all_some_present _ _ Av) as Ev. subst v.
    destruct (present (map cn1 r)) as [|x v] eqn:P.
    + destruct A as (_ & A). unfold r in A. cbn in A. discriminate.
    + reflexivity.
  - (* weighted, non-negative weights: weighted median up to the allowance *)
    intros W Hn m Em. rewrite E1, W in Em.
    apply wmedian_pairs_halves; [apply nonneg_ocol_pairs; exact Hn|exact Em].
  - rewrite E2. destruct (cn1 (squash_region r)); [|reflexivity]. cbn [oq_equiv]. apply Qred_correct.
Qed.

(* ------------------------------------------------------------ the whole row *)

Theorem squash_region_merged r : r <> [] -> merged_row r (squash_region r).
Proof.
  intros NE. unfold merged_row.
  split; [apply squash_region_spans|].
  split; [apply probes_squash|].
  split; [apply weight_squash|].
  split. { destruct r as [|s0 r']; [contradiction NE; reflexivity|]. rewrite squash_log2. apply wmean_run. }
  split; [apply gene_squash, NE|].
  split. { destruct r as [|s0 r']; [contradiction NE; reflexivity|]. apply wmean_opt_run. }
  split. { destruct r as [|s0 r']; [contradiction NE; reflexivity|]. apply wmean_opt_run. }
  split; [apply cn_merged, NE|].
  split; [apply cn1_merged, NE|].
  split. { destruct r as [|s0 r']; [contradiction NE; reflexivity|]. cbn [squash_region pbt].
           rewrite omax_run_max. destruct (run_max _); cbn; [reflexivity|exact I]. }
  destruct r as [|s0 r']; [contradiction NE; reflexivity|]. repeat split.
Qed.

(* for every filter: each output row of the grouping step carries the merged
   fields of its run; ampdel keeps a sub-list of these rows *)
Theorem filter_merged_fields : forall (f : filt) (t : list seg),
  Contig (map chrom t) ->
  Forall2 merged_row (level_runs f t) (squashed f t) /\
  (forall o, In o (apply_filter f t) -> exists r, In r (level_runs f t) /\ merged_row r o).
Proof.
  intros f t C. rewrite (squashed_runs f t C).
  destruct (level_runs_max f t) as (_ & NE & _ & _).
  assert (F2 : Forall2 merged_row (level_runs f t) (map squash_region (level_runs f t))).
  { induction NE as [|r rs Hr _ IH]; cbn [map]; constructor; [apply squash_region_merged, Hr|exact IH]. }
  split; [exact F2|].
  intros o Ho.
  assert (Hin : In o (map squash_region (level_runs f t))).
  { destruct f; cbn [apply_filter] in Ho; rewrite ?(squashed_runs _ t C) in Ho; try exact Ho.
    apply filter_In in Ho. tauto. }
  apply in_map_iff in Hin as (r & <- & Hr). exists r. split; [exact Hr|].
  apply squash_region_merged. rewrite Forall_forall in NE. apply NE, Hr.
Qed.

(* the cn of a merged run is C19's weighted_median of the run's (cn, weight) pairs *)
Theorem cn_is_c19_wmedian r :
  r <> [] -> weighted r = true -> nonneg_run r ->
  Descriptives.weighted_median (map cn r) (map weight r) = Some (cn (squash_region r)).
Proof.
  intros NE W Hn. destruct r as [|s0 r']; [contradiction NE; reflexivity|].
  rewrite squash_cn, pos_weighted, W. unfold wmedian, Descriptives.weighted_median.
  rewrite combine_col_pairs.
  rewrite (wmedian_pairs_c19 _ (nonneg_col_pairs cn _ Hn)).
  destruct (Descriptives.weighted_median_ps (col_pairs cn (s0 :: r'))) eqn:E; [reflexivity|].
  rewrite <- (wmedian_pairs_c19 _ (nonneg_col_pairs cn _ Hn)) in E.
  destruct (wmedian_pairs_some (col_pairs cn (s0 :: r'))) as (m & E'); [cbn; discriminate|congruence].
Qed.
