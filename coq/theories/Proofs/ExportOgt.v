(* C20 proofs, nexus-ogt: the rows are the bins that pass the weight threshold, each with its
   coordinates, log2 and ITS OWN per-bin BAF (the C18 statement of baf_by_ranges). *)
From CNV Require Import Base.Prelude Base.Str Model.Decimal Gen.ExportDefaults.
From CNV Require Import Model.Export Spec.Export Proofs.ExportLib.
From CNV Require Model.Vcf Model.VBaf Proofs.VBaf.

Local Open Scope Z_scope.

Lemma filter_all {A} (l : list A) : filter (fun _ => true) l = l.
Proof. induction l as [|a t IH]; cbn [filter]; [reflexivity | now rewrite IH]. Qed.

Lemma ogt_kept_spec mw hw bins : ogt_kept mw hw bins = filter (sp_ogt_keeps mw hw) bins.
Proof.
  unfold ogt_kept, sp_ogt_keeps.
  destruct (negb (Qeq_bool mw 0) && hw); cbn [andb negb].
  - apply filter_ext_in'. intros b _. unfold ogt_low, qltb. destruct (o_w b); reflexivity.
  - now rewrite filter_all.
Qed.

(* the BAF of a bin: C18's summary of the heterozygous variants overlapping it, direction of
   the majority (above_half = None), no TumorBoost *)
Definition sp_bin_baf (vrows : list VBaf.lrow) (b : obin) : Vcf.xq :=
  VBaf.series2value None (VBaf.hits_of (VBaf.heterozygous vrows) (obin_region b)).

Lemma nexus_ogt_spec paired vrows mw hw bins :
  filter (sp_ogt_keeps mw hw) bins <> [] ->
  export_nexus_ogt paired vrows mw hw bins
  = Some (map (fun b => (o_chrom b, o_lo b, o_hi b, o_v b, sp_bin_baf vrows b))
              (filter (sp_ogt_keeps mw hw) bins)).
Proof.
  intro NE. unfold export_nexus_ogt. rewrite ogt_kept_spec.
  set (kept := filter (sp_ogt_keeps mw hw) bins) in *.
  assert (NEr : map obin_region kept <> []) by (destruct kept; [congruence | discriminate]).
  rewrite (Proofs.VBaf.baf_by_ranges_shape paired vrows _ None ogt_tumor_boost NEr).
  change ogt_tumor_boost with false. rewrite Proofs.VBaf.baf_source_plain.
  rewrite map_map, map2_id_map. reflexivity.
Qed.

(* no bin left: the export fails *)
Lemma nexus_ogt_none paired vrows mw hw bins :
  filter (sp_ogt_keeps mw hw) bins = [] -> export_nexus_ogt paired vrows mw hw bins = None.
Proof. intro E. unfold export_nexus_ogt. rewrite ogt_kept_spec, E. reflexivity. Qed.

(* the row set and the coordinate convention, whatever the variants: one row per kept bin, in
   order: chromosome, start (0-based, as in the table), end, log2 *)
Lemma nexus_ogt_rows paired vrows mw hw bins out :
  export_nexus_ogt paired vrows mw hw bins = Some out ->
  map (fun r : ogt_row => fst r) out
  = map (fun b => (o_chrom b, o_lo b, o_hi b, o_v b)) (filter (sp_ogt_keeps mw hw) bins).
Proof.
  assert (D : filter (sp_ogt_keeps mw hw) bins = [] \/ filter (sp_ogt_keeps mw hw) bins <> []).
  { destruct (filter (sp_ogt_keeps mw hw) bins); [left; reflexivity | right; discriminate]. }
  destruct D as [E|NE].
  - rewrite (nexus_ogt_none _ _ _ _ _ E). discriminate.
  - rewrite (nexus_ogt_spec _ _ _ _ _ NE). intro H. injection H as <-. rewrite map_map. reflexivity.
Qed.

(* with the default threshold 0, or without a weight column, every bin is listed *)
Lemma ogt_keeps_all mw hw bins :
  (mw == 0)%Q \/ hw = false -> filter (sp_ogt_keeps mw hw) bins = bins.
Proof.
  intro H. rewrite <- (filter_all bins) at 2. apply filter_ext_in'. intros b _. unfold sp_ogt_keeps.
  destruct H as [H | ->].
  - apply Qeq_bool_iff in H. rewrite H. reflexivity.
  - now rewrite andb_false_r.
Qed.
