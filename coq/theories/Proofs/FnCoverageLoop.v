(* C09 source tie of region_depth_count's read loop: ONE ITERATION of

       for read in bamfile.fetch(reference=chrom, start=start, end=end):
           if filter_read(read):
               count += 1
               bases += sum(1 for p in read.positions if start <= p < end)

   is regenerated from the Python source on every run (Gen/FnCoverageLoop.v fn_read_step).  Here: the
   step folded over the fetched reads, from (0, 0), gives the number of counted reads and the model's
   base count (Model/Coverage.v bases_count), whatever the reads. *)
From CNV Require Import Base.Prelude Base.Str Gen.FnCoverageLoop Model.Coverage.

Local Open Scope Z_scope.

Definition read_loop (cut lo hi : Z) (reads : list read) (st : Z * Z) : Z * Z :=
  fold_left (fun s r => fn_read_step (fst s) (snd s) (counted cut r) (read_bases_count lo hi r)) reads st.

Lemma source_read_step count bases passes rb :
  fn_read_step count bases passes rb = if passes then (count + 1, bases + rb) else (count, bases).
Proof. unfold fn_read_step. destruct passes; reflexivity. Qed.

Lemma read_loop_acc cut lo hi reads : forall c b,
  read_loop cut lo hi reads (c, b)
  = (c + Z.of_nat (length (filter (counted cut) reads)),
     b + sumZ (map (read_bases_count lo hi) (filter (counted cut) reads))).
Proof.
  unfold read_loop. induction reads as [|r t IH]; intros c b; cbn [fold_left filter].
  - cbn. f_equal; lia.
  - rewrite source_read_step. cbn [fst snd]. destruct (counted cut r).
    + rewrite IH. cbn [length map sumZ]. f_equal; lia.
    + apply IH.
Qed.

(* `fetch(reference=chrom, ...)` hands the loop the reads of the contig *)
Lemma source_read_loop cut c lo hi reads :
  read_loop cut lo hi (filter (on_contig c) reads) (0, 0)
  = (Z.of_nat (length (filter (fun r => on_contig c r && counted cut r) reads)),
     bases_count cut c lo hi reads).
Proof.
  rewrite read_loop_acc. unfold bases_count.
  assert (H : filter (counted cut) (filter (on_contig c) reads)
              = filter (fun r => on_contig c r && counted cut r) reads).
  { induction reads as [|r t IH]; [reflexivity|]. cbn [filter].
    destruct (on_contig c r); cbn [filter andb]; [destruct (counted cut r)|]; rewrite ?IH; reflexivity. }
  rewrite H. reflexivity.
Qed.
