(* C04, centring without the no-crossing hypothesis, and the NaN boundary of the weights.

   centred_selected_thm   whatever the final shift does, the bins that HAD coverage before it are centred after it
   null_cov_badd_iff      a bin changes its coverage status under the shift exactly when it [crosses] -15
   centred_crossing_refuted  a crossing bin can leave the covered output bins uncentred (sharp: witness)
   class_nan_iff          the residual vector of a class is empty iff every bin of the class is null-coverage
   class_nan_depth        input level: a depth column that is 0 on every sample bin of the class
   fix_pre_origin         every bin before the final centring carries the gene and depth of a sample row *)
From CNV Require Import Base.Prelude Base.Str Base.QNum Model.Chromsort Proofs.ChromsortLemmas
  Proofs.QNumLemmas Model.Smoothing Model.Fix Spec.Fix Proofs.FixLib Proofs.FixBins Proofs.FixShift
  Gen.Params Gen.FixDefaults Gen.DescDefaults.
From Coq Require Import Qround Qabs Setoid Morphisms Psatz.
Local Open Scope Q_scope.

(* ------------------------------------------------------------------------ *)
(* the selection as a function of a list of bins                              *)

Definition sel_of (l : list brow) : list brow := if existsb is_auto l then filter is_auto l else l.

Lemma centre_rows_cl2 l : centre_rows (map cl2 l) = map cl2 (sel_of l).
Proof.
  unfold centre_rows, sel_of. rewrite existsb_map. unfold autosomal, is_auto. cbn [fst cl2].
  destruct (existsb _ l); auto. now rewrite filter_map_comm.
Qed.

Lemma sel_of_badd s l : sel_of (map (badd_log2 s) l) = map (badd_log2 s) (sel_of l).
Proof.
  unfold sel_of. rewrite existsb_map. change (fun x => is_auto (badd_log2 s x)) with is_auto.
  destruct (existsb is_auto l); auto. rewrite filter_map_comm. reflexivity.
Qed.

Lemma center_sel_sel_of c l : center_sel c true l = sel_of (nonnull_rows c l).
Proof.
  unfold center_sel, sel_of, nonnull_rows.
  rewrite (filter_ext_In' (fun b => negb (low_b c b)) (fun b => negb (null_cov_b c (fst b))) l)
    by (intros; now rewrite low_b_null).
  reflexivity.
Qed.

Theorem centred_selected_thm bmv2 c o sq target anti ref out :
  do_fix_gen bmv2 c o sq target anti ref = inr out ->
  exists pre s,
    (map fst out = pre \/ map fst out = map (badd_log2 s) pre) /\
    centred (map cl2 (map (badd_log2 s) (nonnull_rows c pre))).
Proof.
  unfold do_fix_gen. destruct (fix_pre c o target anti ref) as [e|pre] eqn:F; [discriminate|].
  intros E; injection E as <-. exists pre, (center_shift c true pre).
  assert (R : map fst (fix_post c sq (bmv2 (class_residuals c false pre)) (bmv2 (class_residuals c true pre)) pre)
              = center_all c true pre).
  { unfold fix_post, apply_weights. rewrite map_map. cbn [fst]. apply map_id. }
  rewrite R, center_all_eq. unfold centred.
  rewrite centre_rows_cl2, sel_of_badd, <- center_sel_sel_of.
  destruct (center_sel c true pre) as [|b0 sel'] eqn:S.
  - split; [now left|]. intros N. exfalso. apply N. reflexivity.
  - split; [now right|]. intros _. unfold median_of_chrom_medians.
    rewrite (cmed_shift_rel _ _ _ (cl2_badd_rel (center_shift c true pre) (b0 :: sel'))) by discriminate.
    unfold center_shift. rewrite S. rewrite Qred_correct. ring.
Qed.

(* ------------------------------------------------------------------------ *)
(* which bins change their coverage status under the shift                    *)

Lemma qlt_b_reflect a b : if qlt_b a b then a < b else b <= a.
Proof. destruct (qlt_b a b) eqn:E; [apply qlt_b_iff in E|apply qlt_b_false in E]; exact E. Qed.

Lemma null_cov_badd_iff c s b :
  null_cov_b c (fst (badd_log2 s b)) <> null_cov_b c (fst b) <-> crosses c s (fst b).
Proof.
  unfold null_cov_b, crosses.
  change (s_depth (fst (badd_log2 s b))) with (s_depth (fst b)).
  change (s_log2 (fst (badd_log2 s b))) with (Qred (blog2 b + s)).
  change (s_log2 (fst b)) with (blog2 b).
  rewrite (qlt_b_Qeq (Qred (blog2 b + s)) (blog2 b + s) (-15) (-15)) by (try apply Qred_correct; reflexivity).
  set (A := qlt_b (blog2 b + s) (-15)). set (B := qlt_b (blog2 b) (-15)).
  set (D := has_sdepth c && qeq_b (s_depth (fst b)) 0).
  assert (PA : if A then blog2 b + s < -15 else -15 <= blog2 b + s).
  { exact (qlt_b_reflect _ _). }
  assert (PB : if B then blog2 b < -15 else -15 <= blog2 b).
  { exact (qlt_b_reflect _ _). }
  assert (PD : if D then (has_sdepth c = true /\ s_depth (fst b) == 0)
               else ~ (has_sdepth c = true /\ s_depth (fst b) == 0)).
  { unfold D. destruct (has_sdepth c); cbn [andb].
    - destruct (qeq_b _ _) eqn:E.
      + split; auto. now apply qeq_b_iff.
      + intros [_ Z]. apply qeq_b_false in E. contradiction.
    - intros [Z _]. discriminate. }
  destruct A, B, D; cbn [orb]; split; intros H;
    try (exfalso; apply H; reflexivity);
    try (split; [exact PD| first [left; split; lra | right; split; lra]]);
    try (destruct H as [H1 [[X Y]|[X Y]]]; first [contradiction | exfalso; lra | discriminate]).
Qed.

(* no bin crosses: the covered output bins are the shifted covered bins, and the old statement follows *)
Lemma nonnull_rows_badd c s l :
  (forall b, In b l -> ~ crosses c s (fst b)) ->
  nonnull_rows c (map (badd_log2 s) l) = map (badd_log2 s) (nonnull_rows c l).
Proof.
  intros H. unfold nonnull_rows. rewrite filter_map_comm. apply (f_equal (map (badd_log2 s))). apply filter_ext_In'. intros b Hb.
  f_equal. destruct (Bool.bool_dec (null_cov_b c (fst (badd_log2 s b))) (null_cov_b c (fst b))) as [E|N]; auto.
  exfalso. apply (H b Hb). now apply null_cov_badd_iff.
Qed.

Theorem centred_nocross_thm bmv2 c o sq target anti ref out :
  do_fix_gen bmv2 c o sq target anti ref = inr out ->
  exists pre s,
    (map fst out = pre \/ map fst out = map (badd_log2 s) pre) /\
    centred (map cl2 (map (badd_log2 s) (nonnull_rows c pre))) /\
    ((forall b, In b pre -> ~ crosses c s (fst b)) ->
     nonnull_rows c (map (badd_log2 s) pre) = map (badd_log2 s) (nonnull_rows c pre)).
Proof.
  intros E. destruct (centred_selected_thm _ _ _ _ _ _ _ _ E) as (pre & s & H1 & H2).
  exists pre, s. split; [exact H1|]. split; [exact H2|]. apply nonnull_rows_badd.
Qed.

(* ------------------------------------------------------------------------ *)
(* sharp: a crossing bin leaves the covered output bins uncentred              *)

Local Close Scope Q_scope.
Definition cross_cfg : cfg := mkCfg true true false false false false false.
Definition cross_target : list srow :=
  [mkS "chr1" 0 100 "A" (-31 # 2) 1; mkS "chr1" 100 200 "B" (-1 # 1) 1; mkS "chr1" 200 300 "C" 1 1].
Definition cross_ref : list rrow :=
  [mkR "chr1" 0 100 0 1 0 0 0; mkR "chr1" 100 200 1 1 0 0 0; mkR "chr1" 200 300 5 1 0 0 0].
Definition cross_or : oracles := mkOr [0; 1; 2]%nat 1 [] 0.
Local Open Scope Q_scope.

Theorem centred_crossing_refuted :
  exists out,
    do_fix_gen (fun _ => 0) cross_cfg cross_or (fun z => inject_Z z) cross_target [] cross_ref = inr out /\
    map (fun p => Qred (blog2 (fst p))) out = [-25 # 2; 1; -1] /\
    ~ centred (map cl2 (nonnull_rows cross_cfg (map fst out))).
Proof.
  eexists. split; [vm_compute; reflexivity|]. split; [vm_compute; reflexivity|].
  intros H. unfold centred in H.
  assert (N : centre_rows (map cl2 (nonnull_rows cross_cfg (map fst
            [((mkS "chr1" 0 100 "A" (-25 # 2) 1), (mkR "chr1" 0 100 0 1 0 0 0), (1 # 10000));
             ((mkS "chr1" 100 200 "B" 1 1), (mkR "chr1" 100 200 1 1 0 0 0), (1 # 10000));
             ((mkS "chr1" 200 300 "C" (-1 # 1) 1), (mkR "chr1" 200 300 5 1 0 0 0), (1 # 10000))]))) <> [])
    by (vm_compute; discriminate).
  match type of H with ?A -> _ => assert (HA : A) end.
  { vm_compute. discriminate. }
  specialize (H HA). vm_compute in H. discriminate.
Qed.

(* ------------------------------------------------------------------------ *)
(* when the variance of a class is NaN                                          *)

Lemma filter_nil_iff {A} (p : A -> bool) l : filter p l = [] <-> forall x, In x l -> p x = false.
Proof.
  induction l as [|a l IH]; cbn; [split; [intros _ x []|reflexivity]|].
  destruct (p a) eqn:E.
  - split; [discriminate|]. intros H. specialize (H a (or_introl eq_refl)). congruence.
  - rewrite IH. split.
    + intros H x [<-|Hx]; auto.
    + intros H x Hx. apply H. now right.
Qed.

Lemma residuals_nil l : residuals l = [] <-> l = [].
Proof.
  split; [|intros ->; reflexivity].
  destruct l as [|b t]; [reflexivity|]. intros H. exfalso.
  unfold residuals in H. cbv zeta in H.
  remember (map cl2 (b :: t)) as vs eqn:Evs.
  assert (Hx : In (s_chrom (fst b)) (map fst vs)) by (subst vs; left; reflexivity).
  apply distinct_In in Hx.
  destruct (distinct (map fst vs)) as [|x ds] eqn:Ed; [contradiction|].
  cbn [map concat] in H. apply app_eq_nil in H as [H _]. apply map_eq_nil in H.
  assert (Hin : In x (map fst vs)) by (apply distinct_In; rewrite Ed; now left).
  exact (chrom_values_nonnil vs x Hin H).
Qed.

Theorem class_nan_iff c k l : class_residuals c k l = [] <-> class_all_null c k l.
Proof.
  unfold class_residuals, class_all_null. rewrite residuals_nil, filter_nil_iff. split.
  - intros H b Hb Ek. specialize (H b). rewrite <- low_b_null.
    assert (Hin : In b (filter (fun b0 => Bool.eqb (is_anti_gene b0) k) l)).
    { apply filter_In. split; auto. rewrite Ek. apply Bool.eqb_reflx. }
    specialize (H Hin). now apply negb_false_iff in H.
  - intros H b Hb. apply filter_In in Hb as [Hb Ek]. apply Bool.eqb_prop in Ek.
    apply negb_false_iff. rewrite low_b_null. now apply H.
Qed.

(* ------------------------------------------------------------------------ *)
(* every bin of the pre-centring table carries the key, gene and depth of a sample row *)

Definition origin (samp : list srow) (b : brow) : Prop :=
  exists s, In s samp /\ skey s = bkey b /\ s_gene s = s_gene (fst b) /\ s_depth s = s_depth (fst b).

Lemma origin_bset samp v b : origin samp b -> origin samp (bset_log2 v b).
Proof. intros (s & H1 & H2 & H3 & H4). exists s. repeat split; assumption. Qed.

Lemma pick_In {A} (l : list A) perm x : In x (pick l perm) -> In x l.
Proof.
  unfold pick. intros H. apply in_flat_map in H as (i & _ & Hi).
  destruct (nth_error l i) eqn:E; [|contradiction]. destruct Hi as [<-|[]]. eapply nth_error_In; eauto.
Qed.

Lemma cbw_order_In perm keys l b : In b (cbw_order perm keys l) -> In b l.
Proof.
  unfold cbw_order. intros H. apply in_map_iff in H as (p & <- & Hp).
  apply (Permutation_in _ (Permutation_sym (stable_sort_perm key_leb _))) in Hp.
  apply pick_In in Hp. destruct p as [k b0]. now apply in_combine_r in Hp.
Qed.

Lemma cbw_origin samp perm wing keys l :
  Forall (origin samp) l -> Forall (origin samp) (center_by_window perm wing keys l).
Proof.
  intros H. rewrite cbw_unfold. unfold sort_brows. rewrite sort_regions_fast_eq.
  rewrite Forall_forall. intros b Hb. apply sort_regions_In in Hb.
  apply in_map_iff in Hb as ([p1 p2] & <- & Hp). cbn [fst snd].
  apply in_combine_l in Hp. apply cbw_order_In in Hp.
  rewrite Forall_forall in H. apply origin_bset. exact (H _ Hp).
Qed.

Lemma center_all_origin samp c k l : Forall (origin samp) l -> Forall (origin samp) (center_all c k l).
Proof.
  unfold center_all. destruct (center_sel c k l); auto. intros H. rewrite Forall_map.
  eapply Forall_impl; [|exact H]. intros b1 Hb1. unfold badd_log2. now apply origin_bset.
Qed.

Lemma corrections_origin samp c g e r perm wing l :
  Forall (origin samp) l -> Forall (origin samp) (corrections c g e r perm wing l).
Proof.
  intros H. unfold corrections. cbv zeta.
  set (l1 := if g && has_gc c then _ else l).
  assert (H1 : Forall (origin samp) l1) by (unfold l1; destruct (g && has_gc c); auto; now apply cbw_origin).
  set (l2 := if e then _ else l1).
  assert (H2 : Forall (origin samp) l2) by (unfold l2; destruct e; auto; now apply cbw_origin).
  destruct (r && has_rmask c); auto. now apply cbw_origin.
Qed.

Lemma load_adjust_origin c ref is_t perm wing samp t :
  load_adjust c ref is_t perm wing samp = inr t -> Forall (origin samp) t.
Proof.
  unfold load_adjust. destruct samp as [|s0 samp'].
  { intros E; injection E as <-. constructor. }
  set (samp := s0 :: samp') in *.
  destruct (match_ref ref (presort samp)) as [e|m] eqn:M; [discriminate|].
  apply match_ref_inr in M as (M1 & _ & _ & _).
  assert (Hm : Forall (origin samp) m).
  { rewrite Forall_forall. intros b Hb. exists (fst b). repeat split.
    assert (Hin : In (fst b) (presort samp)) by (rewrite <- M1; now apply in_map).
    rewrite presort_eq in Hin. now apply sort_regions_In in Hin. }
  assert (Hok : Forall (origin samp) (center_all c is_t (mask_bad c m))).
  { apply center_all_origin. unfold mask_bad. rewrite Forall_forall in *. intros b Hb.
    apply filter_In in Hb as [Hb _]. auto. }
  destruct (mostly_low _); intros E; injection E as <-; auto. now apply corrections_origin.
Qed.

Theorem fix_pre_origin c o target anti ref l :
  fix_pre c o target anti ref = inr l -> Forall (origin (target ++ anti)) l.
Proof.
  unfold fix_pre.
  destruct (load_adjust c ref true (perm_t o) (wing_t o) target) as [e|t] eqn:T; [discriminate|].
  destruct (load_adjust c ref false (perm_a o) (wing_a o) anti) as [e|a] eqn:A; [discriminate|].
  intros E; injection E as <-.
  apply load_adjust_origin in T. apply load_adjust_origin in A.
  assert (W : forall samp x, origin samp x -> incl samp (target ++ anti) -> origin (target ++ anti) x).
  { intros samp x (s & H1 & H2) I. exists s. split; auto. }
  assert (Hall : Forall (origin (target ++ anti)) (match a with [] => t | _ => sort_brows (t ++ a) end)).
  { rewrite Forall_forall in *. destruct a as [|a0 a'].
    - intros b Hb. apply (W target); auto. apply incl_appl, incl_refl.
    - intros b Hb. unfold sort_brows in Hb. rewrite sort_regions_fast_eq in Hb. apply sort_regions_In in Hb.
      apply in_app_or in Hb as [Hb|Hb].
      + apply (W target); auto. apply incl_appl, incl_refl.
      + apply (W anti); auto. apply incl_appr, incl_refl. }
  rewrite Forall_map. eapply Forall_impl; [|exact Hall]. intros b Hb. now apply origin_bset.
Qed.

(* input level, the depth route: the sample tables have a depth column and it is 0 on every sample bin of the
   class (by gene name) -- then the class, if it has output bins at all, has no residual: NaN weights *)
Theorem class_nan_depth c o target anti ref l k :
  has_sdepth c = true ->
  (forall s, In s (target ++ anti) -> mem_string (s_gene s) ANTITARGET_ALIASES = k -> s_depth s == 0) ->
  fix_pre c o target anti ref = inr l -> class_all_null c k l.
Proof.
  intros HD H F b Hb Ek. apply fix_pre_origin in F. rewrite Forall_forall in F.
  destruct (F b Hb) as (s & Hs & _ & G & D).
  unfold null_cov_b. rewrite HD. cbn [andb]. apply orb_true_iff. right. apply qeq_b_iff.
  rewrite <- D. apply H; auto. unfold is_anti_gene in Ek. now rewrite G.
Qed.

(* the model covers do_fix with do_cluster=False (the default): plain log2 / spread columns *)
Lemma fix_scope_literals :
  fix_do_cluster_default = false /\ fix_log2_key = "log2"%string /\ fix_spread_key = "spread"%string.
Proof. repeat split. Qed.
