(* C05, the statistical clauses as DETERMINISTIC bounded-noise statements (part 2: the cohort).

   Corrections off; any number of files, any bins; exact rational arithmetic.

     * a column of the all_logr matrix whose values (flat pseudo-sample included) all lie within r of v:
       the reference log2 lies within r of v -- ONLY the range property of the biweight location
       (C19: qmin <= location <= qmax) is used -- and spread^2 <= 62 r^2            [column_near]
     * centring: a file that is a profile plus a constant d up to eps on the bins the centre is taken
       over has a centring shift within eps of (the profile's shift - d): the median of per-chromosome
       medians moves by at most eps (median_lipschitz twice)                          [center_shift_near]
     * hence every centred, sex-shifted value lies within 2 eps of the ideal one     [sample_near]
     * autosomal bins, X bins, Y bins of a bounded-noise cohort                       [noise_autosomal,
       noise_sex_x, noise_sex_y, noise_sex_y_males, noise_sex_y_females] *)
From CNV Require Import Base.Prelude Base.Str Base.QNum Model.Chromsort Model.Center Model.Sex
  Model.Reference Spec.Biweight Spec.Reference Proofs.QNumLemmas Proofs.ChromsortLemmas
  Proofs.ReferenceFlat Proofs.ReferenceBins Proofs.ReferenceBiweight Proofs.ReferenceEstimator
  Proofs.ReferenceMajority Proofs.ReferenceCentre Proofs.ReferenceCohort Proofs.ReferenceNoise.
From CNV Require Model.Descriptives Proofs.DescriptivesBiweight.
From Coq Require Import Qabs Psatz.
Local Open Scope Q_scope.

(* ---- one column ---------------------------------------------------------------------------------------- *)
(* the ONLY fact about the location that is used: it lies between the smallest and the largest value *)
Lemma consensus_log2_range col :
  (2 <= length col)%nat -> qmin col <= consensus_log2 col <= qmax col.
Proof.
  intros Hl. unfold consensus_log2. rewrite <- (ref_biloc_spec col Hl).
  unfold ref_biloc, Descriptives.biweight_location, Descriptives.on_array.
  destruct col as [|x [|y t]]; cbn in Hl; try lia. cbn [opt0].
  apply DescriptivesBiweight.biweight_location_core_range. discriminate.
Qed.

Lemma mad_to_sd_small : 4 * (mad_to_sd * mad_to_sd) <= 62.
Proof. apply Qle_bool_iff. vm_compute. reflexivity. Qed.

Theorem column_near col v r :
  (2 <= length col)%nat -> (forall x, In x col -> Qabs (x - v) <= r) ->
  Qabs (consensus_log2 col - v) <= r /\ consensus_spread_sq col <= spread_K_radius * (r * r).
Proof.
  intros Hl Hn.
  assert (Hne : col <> []) by (destruct col; [cbn in Hl; lia|discriminate]).
  assert (Hloc : Qabs (consensus_log2 col - v) <= r).
  { destruct (consensus_log2_range col Hl) as (L1 & L2).
    assert (G1 : v - r <= qmin col).
    { apply qmin_glb; [exact Hne|]. intros x Hx. specialize (Hn x Hx). apply Qabs_Qle_condition in Hn. lra. }
    assert (G2 : qmax col <= v + r).
    { apply qmax_lub; [exact Hne|]. intros x Hx. specialize (Hn x Hx). apply Qabs_Qle_condition in Hn. lra. }
    apply Qabs_Qle_condition. split; lra. }
  split; [exact Hloc|]. unfold consensus_spread_sq, spread_K_radius.
  apply (midvar_near eps_1e3 mad_to_sd eps_pos col (consensus_log2 col) v r Hne Hn Hloc mad_to_sd_small).
Qed.

Lemma Qabs_le_eq_l x x' y r : x == x' -> Qabs (x' - y) <= r -> Qabs (x - y) <= r.
Proof. intros E H. rewrite E. exact H. Qed.
Lemma Qabs_le_eq_r x y y' r : y == y' -> Qabs (x - y') <= r -> Qabs (x - y) <= r.
Proof. intros E H. rewrite E. exact H. Qed.

(* ---- the sex shift does not stretch distances -------------------------------------------------------------- *)
Lemma shifted_value_near xx fl xm ym x y r :
  Qabs (x - y) <= r -> Qabs (shifted_value xx fl xm ym x - shifted_value xx fl xm ym y) <= r.
Proof.
  intros H. assert (Hr : 0 <= r) by (pose proof (Qabs_nonneg (x - y)); lra).
  unfold shifted_value. destruct xx; [destruct ym|destruct (xm || ym)].
  - setoid_replace (-1 - -1) with 0 by ring. exact Hr.
  - setoid_replace (x + fl - (y + fl)) with (x - y) by ring. exact H.
  - setoid_replace (x + fl + 1 - (y + fl + 1)) with (x - y) by ring. exact H.
  - setoid_replace (x + fl - (y + fl)) with (x - y) by ring. exact H.
Qed.

(* ---- centring under bounded noise ---------------------------------------------------------------------------- *)
(* bins at the same place; on the selected ones the second is the first plus d, up to e *)
Definition bin_near (d e : Q) (sel : bin -> bool) (b b' : bin) : Prop :=
  b_chrom b = b_chrom b' /\ b_start b = b_start b' /\ b_end b = b_end b' /\
  (sel b = true -> Qabs (b_log2 b' - (b_log2 b + d)) <= e).

Definition val_near (d e : Q) (b b' : bin) : Prop :=
  b_chrom b = b_chrom b' /\ Qabs (b_log2 b' - (b_log2 b + d)) <= e.

(* the positions alone *)
Lemma bin_near_geom d e sel t t' :
  Forall2 (bin_near d e sel) t t' -> Forall2 (bin_rel 0 (fun _ => false)) t t'.
Proof.
  apply Forall2_imp. intros x y (H1 & H2 & H3 & _). repeat split; auto. discriminate.
Qed.

Lemma filter_near d e t t' (P P' : bin -> bool) :
  Forall2 (bin_near d e P) t t' -> Forall2 (fun b b' => P b = P' b') t t' ->
  Forall2 (val_near d e) (filter P t) (filter P' t').
Proof.
  intros H. induction H as [|b b' t t' (Hc & _ & _ & Hv) _ IH]; intros HP; [constructor|].
  inversion HP as [|? ? ? ? Hpp HP']; subst. cbn [filter]. rewrite <- Hpp.
  destruct (P b) eqn:E; [constructor; [split; auto|]|]; auto.
Qed.

Definition grp_near (d e : Q) (g g' : string * list Q) : Prop :=
  fst g = fst g' /\ near_list d e (snd g) (snd g') /\ snd g <> [].

Lemma near_list_app d e l1 l1' l2 l2' :
  near_list d e l1 l1' -> near_list d e l2 l2' -> near_list d e (l1 ++ l2) (l1' ++ l2').
Proof. unfold near_list. induction 1; cbn; [auto|]. intros H2. constructor; auto. Qed.

Lemma group_insert_near d e k v v' gs gs' :
  Forall2 (grp_near d e) gs gs' -> Qabs (v' - (v + d)) <= e ->
  Forall2 (grp_near d e) (group_insert k v gs) (group_insert k v' gs').
Proof.
  intros H Hv. induction H as [|[k0 vs] [k0' vs'] gs gs' (Hk & He & Hn) Hrest IH]; cbn [group_insert].
  - constructor; [|constructor]. split; [reflexivity|]. split; [|discriminate].
    cbn. constructor; [exact Hv|constructor].
  - cbn in Hk. subst k0'. destruct (String.eqb k k0).
    + constructor; [|exact Hrest]. split; [reflexivity|]. split.
      * cbn [snd] in *. apply near_list_app; [exact He|]. constructor; [exact Hv|constructor].
      * cbn. intro E. apply app_eq_nil in E. destruct E; discriminate.
    + constructor; [|exact IH]. split; [reflexivity|]. split; assumption.
Qed.

Lemma groups_fold_near d e l l' acc acc' :
  Forall2 (val_near d e) l l' -> Forall2 (grp_near d e) acc acc' ->
  Forall2 (grp_near d e)
    (fold_left (fun gs b => group_insert (b_chrom b) (b_log2 b) gs) l acc)
    (fold_left (fun gs b => group_insert (b_chrom b) (b_log2 b) gs) l' acc').
Proof.
  intros H. revert acc acc'. induction H as [|b b' l l' (Hc & Hv) _ IH]; intros acc acc' Ha; [exact Ha|].
  cbn [fold_left]. apply IH. rewrite <- Hc. apply group_insert_near; assumption.
Qed.

(* the per-chromosome medians move by at most e ... *)
Lemma group_medians_near d e gs gs' :
  Forall2 (grp_near d e) gs gs' ->
  near_list d e (map median (map snd gs)) (map median (map snd gs')).
Proof.
  induction 1 as [|g g' gs gs' (_ & He & Hn) _ IH]; [constructor|]. cbn [map]. constructor; [|exact IH].
  apply median_lipschitz; assumption.
Qed.

(* ... and so does their median *)
Lemma center_stat_near d e sel sel' :
  Forall2 (val_near d e) sel sel' -> sel <> [] ->
  Qabs (center_stat median true sel' - (center_stat median true sel + d)) <= e.
Proof.
  intros H Hne. unfold center_stat, group_log2, groups_of.
  assert (Hg : Forall2 (grp_near d e)
            (fold_left (fun gs b => group_insert (b_chrom b) (b_log2 b) gs) sel [])
            (fold_left (fun gs b => group_insert (b_chrom b) (b_log2 b) gs) sel' []))
    by (apply groups_fold_near; [exact H|constructor]).
  apply median_lipschitz; [|apply group_medians_near; exact Hg].
  assert (Hn : fold_left (fun gs b => group_insert (b_chrom b) (b_log2 b) gs) sel [] <> [])
    by (apply groups_fold_nonnil; now left).
  destruct (fold_left _ sel []); [congruence|discriminate].
Qed.

Theorem center_shift_near d e skip build t t' :
  Forall2 (bin_near d e (auto_sel t build)) t t' ->
  existsb is_auto_bin t = true ->
  (skip = true -> (forall b, In b t -> is_low b = false) /\ (forall b, In b t' -> is_low b = false)) ->
  exists c c', center_shift median true skip build t = Some c /\
               center_shift median true skip build t' = Some c' /\ Qabs (c' - (c - d)) <= e.
Proof.
  intros H Hauto Hlow.
  assert (Et : (if skip then drop_low t else t) = t)
    by (destruct skip; [apply drop_low_id, Hlow; reflexivity|reflexivity]).
  assert (Et' : (if skip then drop_low t' else t') = t')
    by (destruct skip; [apply drop_low_id, Hlow; reflexivity|reflexivity]).
  pose proof (bin_near_geom _ _ _ _ _ H) as Hgeo.
  pose proof (x_label_rel _ _ _ _ Hgeo) as Hx.
  assert (Hauto' : existsb is_auto_bin t' = true) by (rewrite <- (is_auto_rel _ _ _ _ Hgeo); exact Hauto).
  unfold center_shift, center_selection, autosomes. rewrite Et, Et', Hauto, Hauto'.
  assert (Hsel : Forall2 (val_near d e) (filter (auto_sel t build) t) (filter (auto_sel t' build) t')).
  { apply filter_near; [exact H|].
    assert (G : forall l l', Forall2 (bin_rel 0 (fun _ => false)) l l' ->
                             Forall2 (fun b b' => auto_sel t build b = auto_sel t' build b') l l').
    { induction 1 as [|b b' l l' Hb _ IH]; constructor; auto. eapply auto_sel_rel; eauto. }
    apply G. exact Hgeo. }
  assert (Hne : filter (auto_sel t build) t <> []).
  { apply existsb_exists in Hauto. destruct Hauto as (b & Hb & Hab). intro E.
    assert (Hin : In b (filter (auto_sel t build) t))
      by (apply filter_In; split; [exact Hb|unfold auto_sel; rewrite Hab; reflexivity]).
    rewrite E in Hin. exact Hin. }
  assert (Hne' : filter (auto_sel t' build) t' <> []).
  { intro E. rewrite E in Hsel. inversion Hsel. congruence. }
  pose proof (center_stat_near d e _ _ Hsel Hne) as Hst.
  destruct (filter (auto_sel t build) t) eqn:E1; [congruence|].
  destruct (filter (auto_sel t' build) t') eqn:E2; [congruence|].
  eexists. eexists. split; [reflexivity|]. split; [reflexivity|].
  rewrite !qneg_spec. apply Qabs_Qle_condition in Hst. apply Qabs_Qle_condition. split; lra.
Qed.

(* the X / Y filters and the flat level depend on the positions only *)
Lemma geom_filters build t t' i d0 :
  Forall2 (bin_rel 0 (fun _ => false)) t t' -> (i < length t)%nat ->
  chr_x_filter t' build (nth i t' d0) = chr_x_filter t build (nth i t d0) /\
  chr_y_filter t' build (nth i t' d0) = chr_y_filter t build (nth i t d0) /\
  chr_y_filter t' None (nth i t' d0) = chr_y_filter t None (nth i t d0).
Proof.
  intros H Hi.
  pose proof (x_label_rel _ _ _ _ H) as Hx.
  assert (Hy : y_label t = y_label t').
  { unfold y_label. rewrite Hx. destruct H; reflexivity. }
  destruct (Forall2_nth _ _ _ i d0 d0 H Hi) as (Hc & Hs & He & _).
  unfold chr_x_filter, chr_y_filter, parx_filter, pary_filter, in_par.
  rewrite <- Hx, <- Hy, <- Hc.
  destruct build as [p|]; [|auto].
  destruct (par_x p) as [[[s1 e1] s2] e2]. destruct (par_y p) as [[[s3 e3] s4] e4].
  rewrite <- Hs, <- He. auto.
Qed.

(* a bin the centre is taken over is neither an X nor a Y bin, and its flat level is 0 *)
Lemma x_label_not_auto t : t <> [] -> is_auto_name (x_label t) = false.
Proof. destruct t as [|b t]; [congruence|]. intros _. unfold x_label. destruct (str_prefix "chr" (b_chrom b)); reflexivity. Qed.
Lemma y_label_not_auto t : t <> [] -> is_auto_name (y_label t) = false.
Proof.
  destruct t as [|b t]; [congruence|]. intros _. unfold y_label, x_label.
  destruct (str_prefix "chr" (b_chrom b)); reflexivity.
Qed.

Lemma auto_sel_not_sex t build b :
  t <> [] -> auto_sel t build b = true ->
  chr_x_filter t build b = false /\ chr_y_filter t build b = false /\ chr_y_filter t None b = false.
Proof.
  intros Hne Ha. pose proof (labels_distinct t Hne) as Hd.
  pose proof (x_label_not_auto t Hne) as Hxa. pose proof (y_label_not_auto t Hne) as Hya.
  unfold auto_sel in Ha. unfold chr_x_filter, chr_y_filter, pary_filter.
  destruct (is_auto_bin b) eqn:Eb.
  - unfold is_auto_bin in Eb.
    assert (N1 : String.eqb (b_chrom b) (x_label t) = false).
    { destruct (String.eqb_spec (b_chrom b) (x_label t)) as [E|E]; [rewrite E in Eb; congruence|reflexivity]. }
    assert (N2 : String.eqb (b_chrom b) (y_label t) = false).
    { destruct (String.eqb_spec (b_chrom b) (y_label t)) as [E|E]; [rewrite E in Eb; congruence|reflexivity]. }
    rewrite N1, N2. auto.
  - cbn [orb] in Ha. destruct build as [p|]; [|discriminate].
    rewrite Ha. unfold parx_filter in Ha. apply andb_true_iff in Ha. destruct Ha as (Hx & _).
    apply String.eqb_eq in Hx.
    assert (N2 : String.eqb (b_chrom b) (y_label t) = false).
    { destruct (String.eqb_spec (b_chrom b) (y_label t)) as [E|E]; [congruence|reflexivity]. }
    rewrite N2. cbn. rewrite andb_false_r. auto.
Qed.

Lemma auto_sel_flat hap t build b :
  t <> [] -> auto_sel t build b = true -> flat_at hap build t b = 0.
Proof.
  intros Hne Ha. destruct (auto_sel_not_sex t build b Hne Ha) as (E1 & E2 & E3).
  unfold flat_at. rewrite E1, E2, E3. destruct hap; reflexivity.
Qed.

Lemma x_bin_flat (hap : bool) t build b :
  t <> [] -> chr_x_filter t build b = true ->
  flat_at hap build t b == (if hap then -1 else 0) /\ chr_y_filter t build b = false.
Proof.
  intros Hne Hxm. pose proof (labels_distinct t Hne) as Hd.
  assert (Hx : b_chrom b = x_label t).
  { unfold chr_x_filter in Hxm. apply andb_true_iff in Hxm. destruct Hxm as (Hx & _). now apply String.eqb_eq in Hx. }
  assert (Hy : forall bld, chr_y_filter t bld b = false).
  { intros bld. unfold chr_y_filter.
    destruct (String.eqb_spec (b_chrom b) (y_label t)); [congruence|reflexivity]. }
  split; [|apply Hy]. unfold flat_at. rewrite Hxm, !Hy. destruct hap; reflexivity.
Qed.

Lemma y_bin_flat hap t build b :
  chr_y_filter t build b = true -> flat_at hap build t b == -1.
Proof.
  intros Hym. unfold flat_at. rewrite Hym. destruct hap; [rewrite orb_true_r; reflexivity|].
  unfold chr_y_filter in *. apply andb_true_iff in Hym. destruct Hym as (-> & _). reflexivity.
Qed.

(* ---- a block of files ------------------------------------------------------------------------------------------- *)
Section NoisyBlock.
  Variables (hap : bool) (build : option parb) (sexes : list (string * bool)) (skip : bool).
  Variable files : list sample.
  Hypothesis Hfiles : files <> [].
  Let bins := block_bins files.

  (* every value of the column within r of v: the reference within r of v, spread^2 <= 62 r^2 *)
  Lemma block_near i v r :
    (forall s, In s files -> Qabs (sample_value hap build sexes skip bins i s - v) <= r) ->
    Qabs (nth i (expect_flat hap build bins) 0 - v) <= r ->
    Qabs (consensus_log2 (block_column hap build sexes skip files i) - v) <= r /\
    consensus_spread_sq (block_column hap build sexes skip files i) <= spread_K_radius * (r * r).
  Proof.
    intros Hv Hfl. apply column_near; [apply block_column_length; exact Hfiles|].
    unfold block_column. cbv zeta. fold bins. intros x [<-|Hx]; [exact Hfl|].
    apply in_map_iff in Hx. destruct Hx as (s & <- & Hs). apply Hv. now apply sort_samples_In.
  Qed.

  Variable base : list bin.
  Hypothesis Hauto : existsb is_auto_bin base = true.
  Variable eps : Q.

  (* file s is the profile plus d, up to eps, on the bins the centre is taken over *)
  Definition noisy_like (s : sample) (d : Q) : Prop :=
    Forall2 (bin_near d eps (auto_sel base build)) base (s_bins s).

  Hypothesis Hnoisy : forall s, In s files -> exists d, noisy_like s d.
  Hypothesis Hlow : skip = true ->
    (forall b, In b base -> is_low b = false) /\
    (forall s, In s files -> forall b, In b (s_bins s) -> is_low b = false).

  Lemma n_bins_geom : Forall2 (bin_rel 0 (fun _ => false)) base bins.
  Proof.
    destruct (first_in_files files Hfiles) as (f & Hf & E). unfold bins. rewrite E.
    destruct (Hnoisy f Hf) as (d & Hd). eapply bin_near_geom; exact Hd.
  Qed.

  Lemma n_length_bins : length bins = length base.
  Proof. symmetry. eapply Forall2_length'. apply n_bins_geom. Qed.

  Lemma n_base_nonnil : base <> [].
  Proof. intro E. rewrite E in Hauto. discriminate. Qed.

  Lemma n_flat i d0 :
    (i < length base)%nat ->
    nth i (expect_flat hap build bins) 0 = flat_at hap build base (nth i base d0).
  Proof.
    intros Hi. rewrite (nth_expect_flat hap build bins i d0) by (rewrite n_length_bins; exact Hi).
    unfold flat_at. destruct (geom_filters build base bins i d0 n_bins_geom Hi) as (-> & -> & ->). reflexivity.
  Qed.

  (* the centring shift of a file: within eps of (the profile's shift - d) *)
  Lemma n_shift s d :
    In s files -> noisy_like s d ->
    exists c c', center_shift median true skip build base = Some c /\
                 center_shift median true skip build (s_bins s) = Some c' /\ Qabs (c' - (c - d)) <= eps.
  Proof.
    intros Hs Hl. apply center_shift_near; [exact Hl|exact Hauto|].
    intros Hsk. destruct (Hlow Hsk) as (H1 & H2). split; [exact H1|]. apply H2. exact Hs.
  Qed.

  (* what file s contributes to the column of bin i: within 2 eps of the ideal value, when its raw value at the
     bin is within eps of (tv + d) *)
  Lemma sample_near s d i d0 tv :
    In s files -> noisy_like s d -> (i < length base)%nat ->
    Qabs (b_log2 (nth i (s_bins s) d0) - (tv + d)) <= eps ->
    exists c, center_shift median true skip build base = Some c /\
      Qabs (sample_value hap build sexes skip bins i s -
            shifted_value (sample_is_xx sexes (s_id s)) (flat_at hap build base (nth i base d0))
              (chr_x_filter base build (nth i base d0)) (chr_y_filter base build (nth i base d0)) (tv + c))
      <= 2 * eps.
  Proof.
    intros Hs Hl Hi Hraw. destruct (n_shift s d Hs Hl) as (c & c' & Hc & Hc' & Hcc).
    exists c. split; [exact Hc|].
    assert (Hlen : length (s_bins s) = length bins).
    { rewrite n_length_bins. symmetry. eapply Forall2_length'. exact Hl. }
    assert (Hib : (i < length bins)%nat) by (rewrite n_length_bins; exact Hi).
    pose proof (sample_value_spec hap build sexes skip bins i s d0 Hib Hlen) as Esv.
    destruct (geom_filters build base bins i d0 n_bins_geom Hi) as (Ex & Ey & _). rewrite Ex, Ey in Esv.
    rewrite <- (nth_expect_flat hap build bins i d0 Hib) in Esv.
    rewrite (n_flat i d0 Hi) in Esv.
    apply (Qabs_le_eq_l _ _ _ _ Esv).
    apply shifted_value_near.
    assert (His : (i < length (s_bins s))%nat) by (rewrite Hlen; exact Hib).
    apply (Qabs_le_eq_l _ _ _ _ (center_all_nth _ _ _ _ _ c' i d0 Hc' His)).
    apply Qabs_Qle_condition in Hraw. apply Qabs_Qle_condition in Hcc. apply Qabs_Qle_condition. split; lra.
  Qed.

  Lemma n_shift_exists : exists c, center_shift median true skip build base = Some c.
  Proof.
    destruct (first_in_files files Hfiles) as (f & Hf & _). destruct (Hnoisy f Hf) as (d & Hd).
    destruct (n_shift f d Hf Hd) as (c & _ & Hc & _). exists c. exact Hc.
  Qed.

  (* ---- C05_bounded_noise_log2 / _spread: a bin the centre is taken over (autosomes, PAR-X) ---------------- *)
  Theorem noise_autosomal i d0 :
    (i < length base)%nat -> auto_sel base build (nth i base d0) = true ->
    exists c, center_shift median true skip build base = Some c /\
      let b := nth i base d0 in
      let fl := flat_at hap build base b in
      let v := b_log2 b + c + fl in
      fl == 0 /\
      (forall s, In s files -> Qabs (sample_value hap build sexes skip bins i s - v) <= 2 * eps) /\
      (forall r, 2 * eps <= r -> Qabs (fl - v) <= r ->
         Qabs (consensus_log2 (block_column hap build sexes skip files i) - v) <= r /\
         consensus_spread_sq (block_column hap build sexes skip files i) <= spread_K_radius * (r * r)).
  Proof.
    intros Hi Hsel. destruct n_shift_exists as (c & Hc). exists c. split; [exact Hc|].
    intros b fl v.
    assert (Hfl0 : fl = 0) by (apply auto_sel_flat; [apply n_base_nonnil|exact Hsel]).
    destruct (auto_sel_not_sex base build b n_base_nonnil Hsel) as (Ex & Ey & _).
    assert (Hv : forall s, In s files -> Qabs (sample_value hap build sexes skip bins i s - v) <= 2 * eps).
    { intros s Hs. destruct (Hnoisy s Hs) as (d & Hd).
      destruct (Forall2_nth _ _ _ i d0 d0 Hd Hi) as (_ & _ & _ & Hraw). specialize (Hraw Hsel).
      destruct (sample_near s d i d0 (b_log2 b) Hs Hd Hi Hraw) as (c2 & Hc2 & Hn).
      rewrite Hc in Hc2. injection Hc2 as <-.
      fold b in Hn. rewrite Ex, Ey in Hn. fold fl in Hn.
      unfold shifted_value in Hn. cbn [orb] in Hn.
      destruct (sample_is_xx sexes (s_id s)); exact Hn. }
    split; [rewrite Hfl0; reflexivity|]. split; [exact Hv|].
    intros r Hr Hflr. apply block_near.
    - intros s Hs. eapply Qle_trans; [apply Hv; exact Hs|exact Hr].
    - rewrite (n_flat i d0 Hi). exact Hflr.
  Qed.

  (* ---- C05_bounded_noise_sex -------------------------------------------------------------------------------- *)
  (* X within eps of the baseline for females, of one below it for males; Y within eps of one below it for males,
     anything for females *)
  Definition sexed_near (s : sample) (d : Q) : Prop :=
    Forall2 (fun b b' =>
               (chr_x_filter base build b = true ->
                Qabs (b_log2 b' - (b_log2 b + d - (if sample_is_xx sexes (s_id s) then 0 else 1))) <= eps) /\
               (chr_y_filter base build b = true -> sample_is_xx sexes (s_id s) = false ->
                Qabs (b_log2 b' - (b_log2 b + d - 1)) <= eps)) base (s_bins s).

  Hypothesis Hsexed : forall s, In s files -> exists d, noisy_like s d /\ sexed_near s d.

  Theorem noise_sex_x i d0 :
    (i < length base)%nat -> chr_x_filter base build (nth i base d0) = true ->
    exists c, center_shift median true skip build base = Some c /\
      let a := b_log2 (nth i base d0) + c in          (* the bin's baseline relative to the autosomal centre *)
      let v := a + (if hap then -1 else 0) in
      (forall s, In s files -> Qabs (sample_value hap build sexes skip bins i s - v) <= 2 * eps) /\
      (forall r, 2 * eps <= r -> Qabs a <= r ->
         Qabs (consensus_log2 (block_column hap build sexes skip files i) - v) <= r /\
         consensus_spread_sq (block_column hap build sexes skip files i) <= spread_K_radius * (r * r)).
  Proof.
    intros Hi Hxm. destruct n_shift_exists as (c & Hc). exists c. split; [exact Hc|].
    intros a v.
    destruct (x_bin_flat hap base build (nth i base d0) n_base_nonnil Hxm) as (Hfl & Hym).
    assert (Hv : forall s, In s files -> Qabs (sample_value hap build sexes skip bins i s - v) <= 2 * eps).
    { intros s Hs. destruct (Hsexed s Hs) as (d & Hd & Hsx).
      destruct (Forall2_nth _ _ _ i d0 d0 Hsx Hi) as (Hraw & _). specialize (Hraw Hxm).
      set (off := if sample_is_xx sexes (s_id s) then 0 else 1) in *.
      assert (Hraw' : Qabs (b_log2 (nth i (s_bins s) d0) - (b_log2 (nth i base d0) - off + d)) <= eps).
      { eapply Qle_trans; [|exact Hraw]. apply Qle_lteq. right. apply Qabs_wd. ring. }
      destruct (sample_near s d i d0 _ Hs Hd Hi Hraw') as (c2 & Hc2 & Hn).
      rewrite Hc in Hc2. injection Hc2 as <-.
      rewrite Hxm, Hym in Hn. eapply Qle_trans; [|exact Hn]. apply Qle_lteq. right. apply Qabs_wd.
      unfold shifted_value, off. destruct (sample_is_xx sexes (s_id s)); cbn [orb]; rewrite Hfl; unfold v, a; ring. }
    split; [exact Hv|]. intros r Hr Ha. apply block_near.
    - intros s Hs. eapply Qle_trans; [apply Hv; exact Hs|exact Hr].
    - rewrite (n_flat i d0 Hi), Hfl. eapply Qle_trans; [|exact Ha]. apply Qle_lteq. right.
      setoid_replace ((if hap then -1 else 0) - v) with (- a) by (unfold v; ring). apply Qabs_opp.
  Qed.

  (* what a Y bin's column holds: -1 (flat), -1 (females, set), and the males within 2 eps of a - 1 *)
  Lemma y_values i d0 :
    (i < length base)%nat -> chr_y_filter base build (nth i base d0) = true ->
    exists c, center_shift median true skip build base = Some c /\
      forall s, In s files ->
        if sample_is_xx sexes (s_id s) then sample_value hap build sexes skip bins i s == -1
        else Qabs (sample_value hap build sexes skip bins i s - (b_log2 (nth i base d0) + c - 1)) <= 2 * eps.
  Proof.
    intros Hi Hym. destruct n_shift_exists as (c & Hc). exists c. split; [exact Hc|].
    pose proof (y_bin_flat hap base build (nth i base d0) Hym) as Hfl.
    intros s Hs. destruct (Hsexed s Hs) as (d & Hd & Hsx).
    assert (Hlen : length (s_bins s) = length bins).
    { rewrite n_length_bins. symmetry. eapply Forall2_length'. exact Hd. }
    destruct (sample_is_xx sexes (s_id s)) eqn:Exx.
    - assert (Hib : (i < length bins)%nat) by (rewrite n_length_bins; exact Hi).
      eapply Qeq_trans; [apply (sample_value_spec hap build sexes skip bins i s d0 Hib Hlen)|].
      destruct (geom_filters build base bins i d0 n_bins_geom Hi) as (_ & Ey & _). rewrite Ey, Hym, Exx.
      reflexivity.
    - destruct (Forall2_nth _ _ _ i d0 d0 Hsx Hi) as (_ & Hraw). specialize (Hraw Hym Exx).
      assert (Hraw' : Qabs (b_log2 (nth i (s_bins s) d0) - (b_log2 (nth i base d0) - 1 + d)) <= eps).
      { eapply Qle_trans; [|exact Hraw]. apply Qle_lteq. right. apply Qabs_wd. ring. }
      destruct (sample_near s d i d0 _ Hs Hd Hi Hraw') as (c2 & Hc2 & Hn).
      rewrite Hc in Hc2. injection Hc2 as <-.
      rewrite Hym, Exx in Hn. eapply Qle_trans; [|exact Hn]. apply Qle_lteq. right. apply Qabs_wd.
      unfold shifted_value. rewrite orb_true_r, Hfl. ring.
  Qed.

  (* a block of males only: the Y bin sits one copy below its own baseline *)
  Theorem noise_sex_y_males i d0 :
    (forall s, In s files -> sample_is_xx sexes (s_id s) = false) ->
    (i < length base)%nat -> chr_y_filter base build (nth i base d0) = true ->
    exists c, center_shift median true skip build base = Some c /\
      let a := b_log2 (nth i base d0) + c in
      let v := a - 1 in
      (forall s, In s files -> Qabs (sample_value hap build sexes skip bins i s - v) <= 2 * eps) /\
      (forall r, 2 * eps <= r -> Qabs a <= r ->
         Qabs (consensus_log2 (block_column hap build sexes skip files i) - v) <= r /\
         consensus_spread_sq (block_column hap build sexes skip files i) <= spread_K_radius * (r * r)).
  Proof.
    intros Hmale Hi Hym. destruct (y_values i d0 Hi Hym) as (c & Hc & Hvals). exists c. split; [exact Hc|].
    intros a v.
    assert (Hv : forall s, In s files -> Qabs (sample_value hap build sexes skip bins i s - v) <= 2 * eps).
    { intros s Hs. specialize (Hvals s Hs). rewrite (Hmale s Hs) in Hvals. exact Hvals. }
    split; [exact Hv|]. intros r Hr Ha. apply block_near.
    - intros s Hs. eapply Qle_trans; [apply Hv; exact Hs|exact Hr].
    - rewrite (n_flat i d0 Hi), (y_bin_flat hap base build _ Hym). eapply Qle_trans; [|exact Ha].
      apply Qle_lteq. right. setoid_replace (-1 - v) with (- a) by (unfold v; ring). apply Qabs_opp.
  Qed.

  (* any male / female mix, the Y bin's baseline at the autosomal centre: within 2 eps of -1 *)
  Theorem noise_sex_y i d0 :
    0 <= eps ->
    (i < length base)%nat -> chr_y_filter base build (nth i base d0) = true ->
    exists c, center_shift median true skip build base = Some c /\
      (b_log2 (nth i base d0) + c == 0 ->
       (forall s, In s files -> Qabs (sample_value hap build sexes skip bins i s - -1) <= 2 * eps) /\
       Qabs (consensus_log2 (block_column hap build sexes skip files i) - -1) <= 2 * eps /\
       consensus_spread_sq (block_column hap build sexes skip files i) <= spread_K * (eps * eps)).
  Proof.
    intros He Hi Hym. destruct (y_values i d0 Hi Hym) as (c & Hc & Hvals). exists c. split; [exact Hc|].
    intros Ha.
    assert (Hv : forall s, In s files -> Qabs (sample_value hap build sexes skip bins i s - -1) <= 2 * eps).
    { intros s Hs. specialize (Hvals s Hs). destruct (sample_is_xx sexes (s_id s)).
      - rewrite Hvals. setoid_replace (-1 - -1) with 0 by ring. cbn. lra.
      - assert (E : b_log2 (nth i base d0) + c - 1 == -1) by (rewrite Ha; ring).
        apply (Qabs_le_eq_r _ _ _ _ (Qeq_sym _ _ E)). exact Hvals. }
    split; [exact Hv|].
    destruct (block_near i (-1) (2 * eps)) as (H1 & H2).
    - exact Hv.
    - rewrite (n_flat i d0 Hi), (y_bin_flat hap base build _ Hym). setoid_replace (-1 - -1) with 0 by ring. cbn. lra.
    - split; [exact H1|]. eapply Qle_trans; [exact H2|]. unfold spread_K_radius, spread_K. apply Qle_lteq. right. ring.
  Qed.

  (* a block of females only: every Y bin is exactly -1 with spread 0, whatever the files show there *)
  Theorem noise_sex_y_females i d0 :
    (forall s, In s files -> sample_is_xx sexes (s_id s) = true) ->
    (i < length base)%nat -> chr_y_filter base build (nth i base d0) = true ->
    consensus_log2 (block_column hap build sexes skip files i) == -1 /\
    consensus_spread_sq (block_column hap build sexes skip files i) == 0.
  Proof.
    intros Hfem Hi Hym. destruct (y_values i d0 Hi Hym) as (c & Hc & Hvals).
    apply block_agree; [exact Hfiles| |].
    - intros s Hs. specialize (Hvals s Hs). rewrite (Hfem s Hs) in Hvals. exact Hvals.
    - left. fold bins. rewrite (n_flat i d0 Hi). apply (y_bin_flat hap base build _ Hym).
  Qed.
End NoisyBlock.

(* ---- the statements of Props/C05.v ---------------------------------------------------------------------------- *)
Lemma Qmax2_ge_l a b : a <= Qmax2 a b.
Proof. unfold Qmax2. destruct (Qle_bool a b) eqn:E; [apply Qle_bool_iff in E; exact E|apply Qle_refl]. Qed.
Lemma Qmax2_ge_r a b : b <= Qmax2 a b.
Proof.
  unfold Qmax2. destruct (Qle_bool a b) eqn:E; [apply Qle_refl|].
  destruct (Qlt_le_dec b a) as [H|H]; [apply Qlt_le_weak; exact H|]. apply Qle_bool_iff in H. congruence.
Qed.

Lemma radius_sq_eq eps : spread_K_radius * ((2 * eps) * (2 * eps)) == spread_K * (eps * eps).
Proof. unfold spread_K_radius, spread_K. ring. Qed.

(* no low-coverage bin where the centring would drop it (target files; antitarget files keep them) *)
Definition no_low (skip : bool) (base : list bin) (files : list sample) : Prop :=
  skip = true ->
  (forall b, In b base -> is_low b = false) /\
  (forall s, In s files -> forall b, In b (s_bins s) -> is_low b = false).

Section Statements.
  Variables (hap : bool) (build : option parb) (sexes : list (string * bool)) (skip : bool).
  Variables (files : list sample) (base : list bin) (eps : Q).
  Hypothesis Hfiles : files <> [].
  Hypothesis Hauto : existsb is_auto_bin base = true.
  Hypothesis Hlow : no_low skip base files.

  Let col i := block_column hap build sexes skip files i.
  Let sval i s := sample_value hap build sexes skip (block_bins files) i s.

  (* 0 <= eps as soon as some value is within 2 eps of something *)
  Lemma eps_nonneg_of i v : (forall s, In s files -> Qabs (sval i s - v) <= 2 * eps) -> 0 <= eps.
  Proof.
    intros H. destruct files as [|s t]; [congruence|].
    pose proof (H s (or_introl eq_refl)) as Hs. pose proof (Qabs_nonneg (sval i s - v)). lra.
  Qed.

  (* 1. autosomal bins (and PAR-X with a build): the bins the centre is taken over *)
  Theorem bounded_noise_auto :
    (forall s, In s files -> exists d, noisy_like build base eps s d) ->
    forall i d0, (i < length base)%nat -> auto_sel base build (nth i base d0) = true ->
    exists c, center_shift median true skip build base = Some c /\
      let b := nth i base d0 in
      let fl := flat_at hap build base b in
      let v := b_log2 b + c + fl in
      let R := noise_radius eps fl v in
      fl == 0 /\
      (forall s, In s files -> Qabs (sval i s - v) <= 2 * eps) /\
      Qabs (consensus_log2 (col i) - v) <= R /\
      consensus_spread_sq (col i) <= spread_K_radius * (R * R) /\
      (b_log2 b + c == 0 ->
         Qabs (consensus_log2 (col i) - v) <= 2 * eps /\
         consensus_spread_sq (col i) <= spread_K * (eps * eps)).
  Proof.
    intros Hnoisy i d0 Hi Hsel.
    destruct (noise_autosomal hap build sexes skip files Hfiles base Hauto eps Hnoisy Hlow i d0 Hi Hsel)
      as (c & Hc & Hfl & Hv & Hr).
    exists c. split; [exact Hc|]. intros b fl v R. fold b fl v in Hfl, Hv, Hr.
    split; [exact Hfl|]. split; [exact Hv|].
    destruct (Hr R (Qmax2_ge_l _ _) (Qmax2_ge_r _ _)) as (H1 & H2).
    split; [exact H1|]. split; [exact H2|]. intros Ha.
    assert (He : 0 <= eps) by (apply (eps_nonneg_of i v); exact Hv).
    assert (Hz : Qabs (fl - v) <= 2 * eps).
    { assert (E : fl - v == 0) by (unfold v; rewrite Ha; ring). rewrite E. cbn. lra. }
    destruct (Hr (2 * eps) (Qle_refl _) Hz) as (H3 & H4). split; [exact H3|].
    rewrite <- radius_sq_eq. exact H4.
  Qed.

  Hypothesis Hsexed : forall s, In s files -> exists d, noisy_like build base eps s d /\ sexed_near build sexes base eps s d.

  Lemma sexed_noisy : forall s, In s files -> exists d, noisy_like build base eps s d.
  Proof. intros s Hs. destruct (Hsexed s Hs) as (d & H & _). exists d. exact H. Qed.

  (* 3a. X bins: -1 (male reference) / 0 (female reference) relative to the bin's baseline a *)
  Theorem bounded_noise_x :
    forall i d0, (i < length base)%nat -> chr_x_filter base build (nth i base d0) = true ->
    exists c, center_shift median true skip build base = Some c /\
      let a := b_log2 (nth i base d0) + c in
      let v := a + (if hap then -1 else 0) in
      let R := Qmax2 (2 * eps) (Qabs a) in
      (forall s, In s files -> Qabs (sval i s - v) <= 2 * eps) /\
      Qabs (consensus_log2 (col i) - v) <= R /\
      consensus_spread_sq (col i) <= spread_K_radius * (R * R) /\
      (a == 0 ->
         Qabs (consensus_log2 (col i) - (if hap then -1 else 0)) <= 2 * eps /\
         consensus_spread_sq (col i) <= spread_K * (eps * eps)).
  Proof.
    intros i d0 Hi Hxm.
    destruct (noise_sex_x hap build sexes skip files Hfiles base Hauto eps sexed_noisy Hlow Hsexed i d0 Hi Hxm)
      as (c & Hc & Hv & Hr).
    exists c. split; [exact Hc|]. intros a v R. fold a v in Hv, Hr.
    split; [exact Hv|].
    destruct (Hr R (Qmax2_ge_l _ _) (Qmax2_ge_r _ _)) as (H1 & H2).
    split; [exact H1|]. split; [exact H2|]. intros Ha.
    assert (He : 0 <= eps) by (apply (eps_nonneg_of i v); exact Hv).
    assert (Hz : Qabs a <= 2 * eps) by (rewrite Ha; cbn; lra).
    destruct (Hr (2 * eps) (Qle_refl _) Hz) as (H3 & H4). split.
    - assert (E : (if hap then -1 else 0) == v) by (unfold v; rewrite Ha; ring).
      apply (Qabs_le_eq_r _ _ _ _ E). exact H3.
    - rewrite <- radius_sq_eq. exact H4.
  Qed.

  (* 3b. Y bins of an all-male block: one copy below the bin's baseline a *)
  Theorem bounded_noise_y_males :
    (forall s, In s files -> sample_is_xx sexes (s_id s) = false) ->
    forall i d0, (i < length base)%nat -> chr_y_filter base build (nth i base d0) = true ->
    exists c, center_shift median true skip build base = Some c /\
      let a := b_log2 (nth i base d0) + c in
      let v := a - 1 in
      let R := Qmax2 (2 * eps) (Qabs a) in
      (forall s, In s files -> Qabs (sval i s - v) <= 2 * eps) /\
      Qabs (consensus_log2 (col i) - v) <= R /\
      consensus_spread_sq (col i) <= spread_K_radius * (R * R) /\
      (a == 0 ->
         Qabs (consensus_log2 (col i) - -1) <= 2 * eps /\
         consensus_spread_sq (col i) <= spread_K * (eps * eps)).
  Proof.
    intros Hmale i d0 Hi Hym.
    destruct (noise_sex_y_males hap build sexes skip files Hfiles base Hauto eps sexed_noisy Hlow Hsexed i d0 Hmale Hi Hym)
      as (c & Hc & Hv & Hr).
    exists c. split; [exact Hc|]. intros a v R. fold a v in Hv, Hr.
    split; [exact Hv|].
    destruct (Hr R (Qmax2_ge_l _ _) (Qmax2_ge_r _ _)) as (H1 & H2).
    split; [exact H1|]. split; [exact H2|]. intros Ha.
    assert (He : 0 <= eps) by (apply (eps_nonneg_of i v); exact Hv).
    assert (Hz : Qabs a <= 2 * eps) by (rewrite Ha; cbn; lra).
    destruct (Hr (2 * eps) (Qle_refl _) Hz) as (H3 & H4). split.
    - assert (E : -1 == v) by (unfold v; rewrite Ha; ring).
      apply (Qabs_le_eq_r _ _ _ _ E). exact H3.
    - rewrite <- radius_sq_eq. exact H4.
  Qed.

  (* 3c. Y bins, any male / female mix, baseline at the autosomal centre *)
  Theorem bounded_noise_y_mixed :
    0 <= eps ->
    forall i d0, (i < length base)%nat -> chr_y_filter base build (nth i base d0) = true ->
    exists c, center_shift median true skip build base = Some c /\
      (b_log2 (nth i base d0) + c == 0 ->
       (forall s, In s files -> Qabs (sval i s - -1) <= 2 * eps) /\
       Qabs (consensus_log2 (col i) - -1) <= 2 * eps /\
       consensus_spread_sq (col i) <= spread_K * (eps * eps)).
  Proof.
    intros He i d0 Hi Hym.
    exact (noise_sex_y hap build sexes skip files Hfiles base Hauto eps sexed_noisy Hlow Hsexed i d0 He Hi Hym).
  Qed.

  (* 3d. Y bins of an all-female block: exactly -1, spread 0 *)
  Theorem bounded_noise_y_females :
    (forall s, In s files -> sample_is_xx sexes (s_id s) = true) ->
    forall i d0, (i < length base)%nat -> chr_y_filter base build (nth i base d0) = true ->
    consensus_log2 (col i) == -1 /\ consensus_spread_sq (col i) == 0.
  Proof.
    intros Hfem i d0 Hi Hym.
    exact (noise_sex_y_females hap build sexes skip files Hfiles base Hauto eps sexed_noisy Hlow Hsexed i d0 Hfem Hi Hym).
  Qed.
End Statements.

(* ---- the property's tolerance 0.15 ------------------------------------------------------------------------------- *)
Lemma tolerance_radius eps : eps <= tolerance_eps -> 2 * eps <= tolerance.
Proof. unfold tolerance_eps, tolerance. intros H. lra. Qed.

(* spread^2 <= 0.15^2 needs, with the constant proved here, eps <= 1/105 *)
Lemma tolerance_spread eps : 0 <= eps -> eps <= 1 # 105 -> spread_K * (eps * eps) <= tolerance * tolerance.
Proof. unfold spread_K, tolerance. intros H0 H1. nra. Qed.

Lemma Qmax2_wd' a a' b b' : a == a' -> b == b' -> Qmax2 a b == Qmax2 a' b'.
Proof. exact (Qmax2_spec a b a' b'). Qed.

(* the spread clause alone, constants written out *)
Theorem bounded_noise_spread hap build sexes skip files base eps :
  files <> [] -> existsb is_auto_bin base = true -> no_low skip base files ->
  (forall s, In s files -> exists d, noisy_like build base eps s d) ->
  forall i d0, (i < length base)%nat -> auto_sel base build (nth i base d0) = true ->
  exists c, center_shift median true skip build base = Some c /\
    let a := b_log2 (nth i base d0) + c in
    consensus_spread_sq (block_column hap build sexes skip files i)
      <= 62 * (Qmax2 (2 * eps) (Qabs a) * Qmax2 (2 * eps) (Qabs a)) /\
    (a == 0 -> consensus_spread_sq (block_column hap build sexes skip files i) <= 248 * (eps * eps)).
Proof.
  intros Hf Ha Hl Hn i d0 Hi Hs.
  destruct (bounded_noise_auto hap build sexes skip files base eps Hf Ha Hl Hn i d0 Hi Hs) as (c & Hc & H).
  exists c. split; [exact Hc|]. cbv zeta in H. destruct H as (_ & _ & _ & Hsp & H0). intros a. split.
  - set (fl := flat_at hap build base (nth i base d0)) in *.
    assert (E : noise_radius eps fl (b_log2 (nth i base d0) + c + fl) == Qmax2 (2 * eps) (Qabs a)).
    { unfold noise_radius. apply Qmax2_wd'; [reflexivity|].
      setoid_replace (fl - (b_log2 (nth i base d0) + c + fl)) with (- a) by (unfold a; ring). apply Qabs_opp. }
    unfold spread_K_radius in Hsp. rewrite E in Hsp. exact Hsp.
  - intros Ha0. exact (proj2 (H0 Ha0)).
Qed.

Theorem bounded_noise_auto_tolerance hap build sexes skip files base eps :
  files <> [] -> existsb is_auto_bin base = true -> no_low skip base files ->
  (forall s, In s files -> exists d, noisy_like build base eps s d) ->
  eps <= 75 # 1000 ->
  forall i d0, (i < length base)%nat -> auto_sel base build (nth i base d0) = true ->
  exists c, center_shift median true skip build base = Some c /\
    (b_log2 (nth i base d0) + c == 0 ->
     Qabs (consensus_log2 (block_column hap build sexes skip files i)
           - (b_log2 (nth i base d0) + c + flat_at hap build base (nth i base d0))) <= 15 # 100).
Proof.
  intros Hf Ha Hl Hn He i d0 Hi Hs.
  destruct (bounded_noise_auto hap build sexes skip files base eps Hf Ha Hl Hn i d0 Hi Hs) as (c & Hc & H).
  exists c. split; [exact Hc|]. cbv zeta in H. destruct H as (_ & _ & _ & _ & H0). intros Ha0.
  eapply Qle_trans; [exact (proj1 (H0 Ha0))|]. lra.
Qed.

Theorem bounded_noise_x_tolerance (hap : bool) build sexes skip files base eps :
  files <> [] -> existsb is_auto_bin base = true -> no_low skip base files ->
  (forall s, In s files -> exists d, noisy_like build base eps s d /\ sexed_near build sexes base eps s d) ->
  eps <= 75 # 1000 ->
  forall i d0, (i < length base)%nat -> chr_x_filter base build (nth i base d0) = true ->
  exists c, center_shift median true skip build base = Some c /\
    (b_log2 (nth i base d0) + c == 0 ->
     Qabs (consensus_log2 (block_column hap build sexes skip files i) - (if hap then -1 else 0)) <= 15 # 100).
Proof.
  intros Hf Ha Hl Hn He i d0 Hi Hx.
  destruct (bounded_noise_x hap build sexes skip files base eps Hf Ha Hl Hn i d0 Hi Hx) as (c & Hc & H).
  exists c. split; [exact Hc|]. cbv zeta in H. destruct H as (_ & _ & _ & H0). intros Ha0.
  eapply Qle_trans; [exact (proj1 (H0 Ha0))|]. lra.
Qed.

(* ---- the hypotheses are satisfiable with eps > 0: a female and two males, eps = 1/16 ------------------------------ *)
(* profile: chr1 0, 1/4; chr2 0; chr3 -1/4; X 0; Y 0 -- per-chromosome medians 1/8, 0, -1/4, centre 0.
   depth constants 0, 1, -1/2; every value moved by at most 1/16 *)
Definition nz_bins (v1 v2 v3 v4 vx vy : Q) : list bin :=
  [mkBin "chr1" 0 100 "A" v1 (Some 1) None; mkBin "chr1" 200 300 "A" v2 (Some 1) None;
   mkBin "chr2" 0 100 "B" v3 (Some 1) None; mkBin "chr3" 0 100 "C" v4 (Some 1) None;
   mkBin "chrX" 0 100 "GX" vx (Some 1) None; mkBin "chrY" 0 100 "GY" vy (Some 1) None].
Definition nz_base : list bin := nz_bins 0 (1 # 4) 0 (-1 # 4) 0 0.
Definition nz_a : sample :=        (* female, d = 0 *)
  mkSample "a" (nz_bins (1 # 16) (3 # 16) (1 # 32) (-5 # 16) (1 # 16) (-7)) [1; 1; 1; 1; 1; 1].
Definition nz_b : sample :=        (* male, d = 1 *)
  mkSample "b" (nz_bins (15 # 16) (21 # 16) (31 # 32) (13 # 16) (1 # 16) (-1 # 16)) [1; 1; 1; 1; 1; 1].
Definition nz_c : sample :=        (* male, d = -1/2 *)
  mkSample "c" (nz_bins (-15 # 32) (-3 # 16) (-9 # 16) (-3 # 4) (-25 # 16) (-23 # 16)) [1; 1; 1; 1; 1; 1].
Definition nz_files : list sample := [nz_b; nz_a; nz_c].
Definition nz_sexes : list (string * bool) := [("a"%string, true); ("b"%string, false); ("c"%string, false)].
Definition nz_eps : Q := 1 # 16.

Ltac nz_bin :=
  split; [reflexivity|split; [reflexivity|split; [reflexivity|
    let H := fresh in intros H;
    first [apply Qle_bool_iff; vm_compute; reflexivity | vm_compute in H; discriminate H]]]].
Ltac nz_sexbin :=
  split;
    [let H := fresh in
     intros H; first [apply Qle_bool_iff; vm_compute; reflexivity | vm_compute in H; discriminate H]
    |let H := fresh in let H' := fresh in
     intros H H'; first [apply Qle_bool_iff; vm_compute; reflexivity | vm_compute in H; discriminate H
                         | vm_compute in H'; discriminate H']].

Lemma nz_hypotheses :
  nz_files <> [] /\ existsb is_auto_bin nz_base = true /\ no_low true nz_base nz_files /\ 0 < nz_eps /\
  center_shift median true true None nz_base = Some 0 /\
  (forall s, In s nz_files ->
     exists d, noisy_like None nz_base nz_eps s d /\ sexed_near None nz_sexes nz_base nz_eps s d).
Proof.
  split; [discriminate|]. split; [reflexivity|]. split.
  { intros _. split.
    - intros b [<-|[<-|[<-|[<-|[<-|[<-|[]]]]]]]; reflexivity.
    - intros s [<-|[<-|[<-|[]]]] b [<-|[<-|[<-|[<-|[<-|[<-|[]]]]]]]; reflexivity. }
  split; [reflexivity|]. split; [vm_compute; reflexivity|].
  intros s [<-|[<-|[<-|[]]]].
  - exists 1. split; [unfold noisy_like|unfold sexed_near]; repeat (constructor; [first [nz_bin|nz_sexbin]|]); constructor.
  - exists 0. split; [unfold noisy_like|unfold sexed_near]; repeat (constructor; [first [nz_bin|nz_sexbin]|]); constructor.
  - exists (-1 # 2). split; [unfold noisy_like|unfold sexed_near]; repeat (constructor; [first [nz_bin|nz_sexbin]|]); constructor.
Qed.

(* ---- the bounds are not vacuous: a second cohort whose exact reference is cheap to compute ----------------------- *)
(* (Exact rational evaluation of the location iteration explodes once it takes more than one step, so the noise
   of this cohort is arranged to make every column symmetric about its median: the iteration then stops at once.)
   Flat profile 0, eps = 1/16, males m1 (d = 1), m2 (d = -1/2), female f (d = 0); noise per chromosome
   (+n, 0, -n) with n = 1/64, 3/64, 1/16 on chr1 and 1/32, 1/32, 1/16 on chr2; X +1/64, +3/64, +1/16;
   Y of the males +1/16.  Columns, e.g. chr1 first bin: 0 (flat), 1/64, 3/64, 1/16 -> reference 1/32. *)
Definition sy_bins (a1 a2 a3 b1 b2 b3 vx vy : Q) : list bin :=
  [mkBin "chr1" 0 100 "A" a1 (Some 1) None; mkBin "chr1" 200 300 "A" a2 (Some 1) None;
   mkBin "chr1" 400 500 "A" a3 (Some 1) None;
   mkBin "chr2" 0 100 "B" b1 (Some 1) None; mkBin "chr2" 200 300 "B" b2 (Some 1) None;
   mkBin "chr2" 400 500 "B" b3 (Some 1) None;
   mkBin "chrX" 0 100 "GX" vx (Some 1) None; mkBin "chrY" 0 100 "GY" vy (Some 1) None].
Definition sy_base : list bin := sy_bins 0 0 0 0 0 0 0 0.
Definition sy_m1 : sample :=
  mkSample "m1" (sy_bins (65 # 64) 1 (63 # 64) (33 # 32) 1 (31 # 32) (1 # 64) (1 # 16)) [1; 1; 1; 1; 1; 1; 1; 1].
Definition sy_m2 : sample :=
  mkSample "m2" (sy_bins (-29 # 64) (-1 # 2) (-35 # 64) (-15 # 32) (-1 # 2) (-17 # 32) (-93 # 64) (-23 # 16))
           [1; 1; 1; 1; 1; 1; 1; 1].
Definition sy_f : sample :=
  mkSample "f" (sy_bins (1 # 16) 0 (-1 # 16) (1 # 16) 0 (-1 # 16) (1 # 16) (-7)) [1; 1; 1; 1; 1; 1; 1; 1].
Definition sy_files : list sample := [sy_m2; sy_f; sy_m1].
Definition sy_sexes : list (string * bool) := [("f"%string, true); ("m1"%string, false); ("m2"%string, false)].

Lemma sy_hypotheses :
  sy_files <> [] /\ existsb is_auto_bin sy_base = true /\ no_low true sy_base sy_files /\
  center_shift median true true None sy_base = Some 0 /\
  (forall s, In s sy_files ->
     exists d, noisy_like None sy_base nz_eps s d /\ sexed_near None sy_sexes sy_base nz_eps s d).
Proof.
  split; [discriminate|]. split; [reflexivity|]. split.
  { intros _. split.
    - intros b [<-|[<-|[<-|[<-|[<-|[<-|[<-|[<-|[]]]]]]]]]; reflexivity.
    - intros s [<-|[<-|[<-|[]]]] b [<-|[<-|[<-|[<-|[<-|[<-|[<-|[<-|[]]]]]]]]]; reflexivity. }
  split; [vm_compute; reflexivity|].
  intros s [<-|[<-|[<-|[]]]].
  - exists (-1 # 2). split; [unfold noisy_like|unfold sexed_near]; repeat (constructor; [first [nz_bin|nz_sexbin]|]); constructor.
  - exists 0. split; [unfold noisy_like|unfold sexed_near]; repeat (constructor; [first [nz_bin|nz_sexbin]|]); constructor.
  - exists 1. split; [unfold noisy_like|unfold sexed_near]; repeat (constructor; [first [nz_bin|nz_sexbin]|]); constructor.
Qed.

(* the exact pooled reference: log2 per bin (relative to the ideal level: 0 on autosomes, x on X, -1 on Y) *)
Definition sy_expected (x : Q) : list Q :=
  [1 # 32; 0; -1 # 32; 1 # 32; 0; -1 # 32; x + (1 # 32); -1 + (1 # 32)].
Definition sy_check (hapx : bool) : bool :=
  match pool hapx None sy_sexes sy_files [] with
  | ROk rows =>
      let x := if hapx then -1 else 0 in
      (* the values themselves *)
      forallb (fun p => Qeq_bool (r_log2 (fst p)) (snd p)) (combine rows (sy_expected x))
      (* within 2 eps = 1/8 of the ideal levels; spread^2 <= 248 eps^2 *)
      && forallb (fun p => Qle_bool (Qabs (r_log2 (fst p) - snd p)) (2 * nz_eps)
                           && Qle_bool (r_spread_sq (fst p)) (spread_K * (nz_eps * nz_eps)))
                 (combine rows [0; 0; 0; 0; 0; 0; x; -1])
      (* six of the eight bins are noisy: spread^2 > 0 *)
      && Nat.eqb (length (filter (fun r => negb (Qle_bool (r_spread_sq r) 0)) rows)) 6
      && Nat.eqb (length rows) 8
  | RErr _ => false
  end.

(* the constant cannot be below 400/361 = 1.108: the column -1 (flat), +1 (one sample) is within r = 1 of v = 0 *)
Lemma spread_K_radius_lower :
  Qred (consensus_log2 [-1; 1]) = 0 /\ Qred (consensus_spread_sq [-1; 1]) = 400 # 361.
Proof. vm_compute. split; reflexivity. Qed.
