(* C05, the statistical clauses as DETERMINISTIC bounded-noise statements (part 2: the cohort).

   Corrections off; any number of files, any bins; exact rational arithmetic.

     * a column of the all_logr matrix whose values (flat pseudo-sample included) all lie within r of v:
       the reference log2 lies within r of v -- ONLY the range property of the biweight location
       (C19: qmin <= location <= qmax) is used -- and spread^2 <= 997 r^2            [column_near]
     * centring: a file that is a profile plus a constant d up to eps on the bins the centre is taken
       over has a centring shift within eps of (the profile's shift - d): the median of per-chromosome
       medians moves by at most eps (median_lipschitz twice)                          [center_shift_near]
     * hence every centred, sex-shifted value lies within 2 eps of the ideal one     [sample_near]
     * autosomal bins, X bins, Y bins of a bounded-noise cohort                       [noise_autosomal,
       noise_sex_x, noise_sex_y, noise_sex_y_males, noise_sex_y_females] *)
From CNV Require Import Base.Prelude Base.Str Base.QNum Model.Chromsort Model.Center Model.Sex
  Model.Reference Spec.Biweight Spec.Reference Proofs.QNumLemmas Proofs.ChromsortLemmas
  Proofs.ReferenceFlat Proofs.ReferenceBins Proofs.ReferenceBiweight Proofs.ReferenceEstimator
  Proofs.ReferenceMajority Proofs.ReferenceCentre Proofs.ReferenceCohort Proofs.ReferenceNoise.
From CNV Require Model.Descriptives Proofs.DescriptivesBiweight.
From Coq Require Import Qabs Psatz.
Local Open Scope Q_scope.

(* ---- one column ---------------------------------------------------------------------------------------- *)
(* the ONLY fact about the location that is used: it lies between the smallest and the largest value *)
Lemma consensus_log2_range col :
  (2 <= length col)%nat -> qmin col <= consensus_log2 col <= qmax col.
Proof.
  intros Hl. unfold consensus_log2. rewrite <- (ref_biloc_spec col Hl).
  unfold ref_biloc, Descriptives.biweight_location, Descriptives.on_array.
  destruct col as [|x [|y t]]; cbn in Hl; try lia. cbn [opt0].
  apply DescriptivesBiweight.biweight_location_core_range. discriminate.
Qed.

Lemma mad_to_sd_small : 4 * (mad_to_sd * mad_to_sd) <= 997.
Proof. apply Qle_bool_iff. vm_compute. reflexivity. Qed.

Theorem column_near col v r :
  (2 <= length col)%nat -> (forall x, In x col -> Qabs (x - v) <= r) ->
  Qabs (consensus_log2 col - v) <= r /\ consensus_spread_sq col <= spread_K_radius * (r * r).
Proof.
  intros Hl Hn.
  assert (Hne : col <> []) by (destruct col; [cbn in Hl; lia|discriminate]).
  assert (Hloc : Qabs (consensus_log2 col - v) <= r).
  { destruct (consensus_log2_range col Hl) as (L1 & L2).
    assert (G1 : v - r <= qmin col).
    { apply qmin_glb; [exact Hne|]. intros x Hx. specialize (Hn x Hx). apply Qabs_Qle_condition in Hn. lra. }
    assert (G2 : qmax col <= v + r).
    { apply qmax_lub; [exact Hne|]. intros x Hx. specialize (Hn x Hx). apply Qabs_Qle_condition in Hn. lra. }
    apply Qabs_Qle_condition. split; lra. }
  split; [exact Hloc|]. unfold consensus_spread_sq, spread_K_radius.
  apply (midvar_near eps_1e3 mad_to_sd eps_pos col (consensus_log2 col) v r Hne Hn Hloc mad_to_sd_small).
Qed.

Lemma Qabs_le_eq_l x x' y r : x == x' -> Qabs (x' - y) <= r -> Qabs (x - y) <= r.
Proof. intros E H. rewrite E. exact H. Qed.
Lemma Qabs_le_eq_r x y y' r : y == y' -> Qabs (x - y') <= r -> Qabs (x - y) <= r.
Proof. intros E H. rewrite E. exact H. Qed.

(* ---- the sex shift does not stretch distances -------------------------------------------------------------- *)
Lemma shifted_value_near xx fl xm ym x y r :
  Qabs (x - y) <= r -> Qabs (shifted_value xx fl xm ym x - shifted_value xx fl xm ym y) <= r.
Proof.
  intros H. assert (Hr : 0 <= r) by (pose proof (Qabs_nonneg (x - y)); lra).
  unfold shifted_value. destruct xx; [destruct ym|destruct (xm || ym)].
  - setoid_replace (-1 - -1) with 0 by ring. exact Hr.
  - setoid_replace (x + fl - (y + fl)) with (x - y) by ring. exact H.
  - setoid_replace (x + fl + 1 - (y + fl + 1)) with (x - y) by ring. exact H.
  - setoid_replace (x + fl - (y + fl)) with (x - y) by ring. exact H.
Qed.

(* ---- centring under bounded noise ---------------------------------------------------------------------------- *)
(* bins at the same place; on the selected ones the second is the first plus d, up to e *)
Definition bin_near (d e : Q) (sel : bin -> bool) (b b' : bin) : Prop :=
  b_chrom b = b_chrom b' /\ b_start b = b_start b' /\ b_end b = b_end b' /\
  (sel b = true -> Qabs (b_log2 b' - (b_log2 b + d)) <= e).

Definition val_near (d e : Q) (b b' : bin) : Prop :=
  b_chrom b = b_chrom b' /\ Qabs (b_log2 b' - (b_log2 b + d)) <= e.

(* the positions alone *)
Lemma bin_near_geom d e sel t t' :
  Forall2 (bin_near d e sel) t t' -> Forall2 (bin_rel 0 (fun _ => false)) t t'.
Proof.
  apply Forall2_imp. intros x y (H1 & H2 & H3 & _). repeat split; auto. discriminate.
Qed.

Lemma filter_near d e t t' (P P' : bin -> bool) :
  Forall2 (bin_near d e P) t t' -> Forall2 (fun b b' => P b = P' b') t t' ->
  Forall2 (val_near d e) (filter P t) (filter P' t').
Proof.
  intros H. induction H as [|b b' t t' (Hc & _ & _ & Hv) _ IH]; intros HP; [constructor|].
  inversion HP as [|? ? ? ? Hpp HP']; subst. cbn [filter]. rewrite <- Hpp.
  destruct (P b) eqn:E; [constructor; [split; auto|]|]; auto.
Qed.

Definition grp_near (d e : Q) (g g' : string * list Q) : Prop :=
  fst g = fst g' /\ near_list d e (snd g) (snd g') /\ snd g <> [].

Lemma near_list_app d e l1 l1' l2 l2' :
  near_list d e l1 l1' -> near_list d e l2 l2' -> near_list d e (l1 ++ l2) (l1' ++ l2').
Proof. unfold near_list. induction 1; cbn; [auto|]. intros H2. constructor; auto. Qed.

Lemma group_insert_near d e k v v' gs gs' :
  Forall2 (grp_near d e) gs gs' -> Qabs (v' - (v + d)) <= e ->
  Forall2 (grp_near d e) (group_insert k v gs) (group_insert k v' gs').
Proof.
  intros H Hv. induction H as [|[k0 vs] [k0' vs'] gs gs' (Hk & He & Hn) Hrest IH]; cbn [group_insert].
  - constructor; [|constructor]. split; [reflexivity|]. split; [|discriminate].
    cbn. constructor; [exact Hv|constructor].
  - cbn in Hk. subst k0'. destruct (String.eqb k k0).
    + constructor; [|exact Hrest]. split; [reflexivity|]. split.
      * cbn [snd] in *. apply near_list_app; [exact He|]. constructor; [exact Hv|constructor].
      * cbn. intro E. apply app_eq_nil in E. destruct E; discriminate.
    + constructor; [|exact IH]. split; [reflexivity|]. split; assumption.
Qed.

Lemma groups_fold_near d e l l' acc acc' :
  Forall2 (val_near d e) l l' -> Forall2 (grp_near d e) acc acc' ->
  Forall2 (grp_near d e)
    (fold_left (fun gs b => group_insert (b_chrom b) (b_log2 b) gs) l acc)
    (fold_left (fun gs b => group_insert (b_chrom b) (b_log2 b) gs) l' acc').
Proof.
  intros H. revert acc acc'. induction H as [|b b' l l' (Hc & Hv) _ IH]; intros acc acc' Ha; [exact Ha|].
  cbn [fold_left]. apply IH. rewrite <- Hc. apply group_insert_near; assumption.
Qed.

(* the per-chromosome medians move by at most e ... *)
Lemma group_medians_near d e gs gs' :
  Forall2 (grp_near d e) gs gs' ->
  near_list d e (map median (map snd gs)) (map median (map snd gs')).
Proof.
  induction 1 as [|g g' gs gs' (_ & He & Hn) _ IH]; [constructor|]. cbn [map]. constructor; [|exact IH].
  apply median_lipschitz; assumption.
Qed.

(* ... and so does their median *)
Lemma center_stat_near d e sel sel' :
  Forall2 (val_near d e) sel sel' -> sel <> [] ->
  Qabs (center_stat median true sel' - (center_stat median true sel + d)) <= e.
Proof.
  intros H Hne. unfold center_stat, group_log2, groups_of.
  assert (Hg : Forall2 (grp_near d e)
            (fold_left (fun gs b => group_insert (b_chrom b) (b_log2 b) gs) sel [])
            (fold_left (fun gs b => group_insert (b_chrom b) (b_log2 b) gs) sel' []))
    by (apply groups_fold_near; [exact H|constructor]).
  apply median_lipschitz; [|apply group_medians_near; exact Hg].
  assert (Hn : fold_left (fun gs b => group_insert (b_chrom b) (b_log2 b) gs) sel [] <> [])
    by (apply groups_fold_nonnil; now left).
  destruct (fold_left _ sel []); [congruence|discriminate].
Qed.

Theorem center_shift_near d e skip build t t' :
  Forall2 (bin_near d e (auto_sel t build)) t t' ->
  existsb is_auto_bin t = true ->
  (skip = true -> (forall b, In b t -> is_low b = false) /\ (forall b, In b t' -> is_low b = false)) ->
  exists c c', center_shift median true skip build t = Some c /\
               center_shift median true skip build t' = Some c' /\ Qabs (c' - (c - d)) <= e.
Proof.
  intros H Hauto Hlow.
  assert (Et : (if skip then drop_low t else t) = t)
    by (destruct skip; [apply drop_low_id, Hlow; reflexivity|reflexivity]).
  assert (Et' : (if skip then drop_low t' else t') = t')
    by (destruct skip; [apply drop_low_id, Hlow; reflexivity|reflexivity]).
  pose proof (bin_near_geom _ _ _ _ _ H) as Hgeo.
  pose proof (x_label_rel _ _ _ _ Hgeo) as Hx.
  assert (Hauto' : existsb is_auto_bin t' = true) by (rewrite <- (is_auto_rel _ _ _ _ Hgeo); exact Hauto).
  unfold center_shift, center_selection, autosomes. rewrite Et, Et', Hauto, Hauto'.
  assert (Hsel : Forall2 (val_near d e) (filter (auto_sel t build) t) (filter (auto_sel t' build) t')).
  { apply filter_near; [exact H|].
    assert (G : forall l l', Forall2 (bin_rel 0 (fun _ => false)) l l' ->
                             Forall2 (fun b b' => auto_sel t build b = auto_sel t' build b') l l').
    { induction 1 as [|b b' l l' Hb _ IH]; constructor; auto. eapply auto_sel_rel; eauto. }
    apply G. exact Hgeo. }
  assert (Hne : filter (auto_sel t build) t <> []).
  { apply existsb_exists in Hauto. destruct Hauto as (b & Hb & Hab). intro E.
    assert (Hin : In b (filter (auto_sel t build) t))
      by (apply filter_In; split; [exact Hb|unfold auto_sel; rewrite Hab; reflexivity]).
    rewrite E in Hin. exact Hin. }
  assert (Hne' : filter (auto_sel t' build) t' <> []).
  { intro E. rewrite E in Hsel. inversion Hsel. congruence. }
  pose proof (center_stat_near d e _ _ Hsel Hne) as Hst.
  destruct (filter (auto_sel t build) t) eqn:E1; [congruence|].
  destruct (filter (auto_sel t' build) t') eqn:E2; [congruence|].
  eexists. eexists. split; [reflexivity|]. split; [reflexivity|].
  rewrite !qneg_spec. apply Qabs_Qle_condition in Hst. apply Qabs_Qle_condition. split; lra.
Qed.

(* the X / Y filters and the flat level depend on the positions only *)
Lemma geom_filters build t t' i d0 :
  Forall2 (bin_rel 0 (fun _ => false)) t t' -> (i < length t)%nat ->
  chr_x_filter t' build (nth i t' d0) = chr_x_filter t build (nth i t d0) /\
  chr_y_filter t' build (nth i t' d0) = chr_y_filter t build (nth i t d0) /\
  chr_y_filter t' None (nth i t' d0) = chr_y_filter t None (nth i t d0).
Proof.
  intros H Hi.
  pose proof (x_label_rel _ _ _ _ H) as Hx.
  assert (Hy : y_label t = y_label t').
  { unfold y_label. rewrite Hx. destruct H; reflexivity. }
  destruct (Forall2_nth _ _ _ i d0 d0 H Hi) as (Hc & Hs & He & _).
  unfold chr_x_filter, chr_y_filter, parx_filter, pary_filter, in_par.
  rewrite <- Hx, <- Hy, <- Hc.
  destruct build as [p|]; [|auto].
  destruct (par_x p) as [[[s1 e1] s2] e2]. destruct (par_y p) as [[[s3 e3] s4] e4].
  rewrite <- Hs, <- He. auto.
Qed.

(* a bin the centre is taken over is neither an X nor a Y bin, and its flat level is 0 *)
Lemma x_label_not_auto t : t <> [] -> is_auto_name (x_label t) = false.
Proof. destruct t as [|b t]; [congruence|]. intros _. unfold x_label. destruct (str_prefix "chr" (b_chrom b)); reflexivity. Qed.
Lemma y_label_not_auto t : t <> [] -> is_auto_name (y_label t) = false.
Proof.
  destruct t as [|b t]; [congruence|]. intros _. unfold y_label, x_label.
  destruct (str_prefix "chr" (b_chrom b)); reflexivity.
Qed.

Lemma auto_sel_not_sex t build b :
  t <> [] -> auto_sel t build b = true ->
  chr_x_filter t build b = false /\ chr_y_filter t build b = false /\ chr_y_filter t None b = false.
Proof.
  intros Hne Ha. pose proof (labels_distinct t Hne) as Hd.
  pose proof (x_label_not_auto t Hne) as Hxa. pose proof (y_label_not_auto t Hne) as Hya.
  unfold auto_sel in Ha. unfold chr_x_filter, chr_y_filter, pary_filter.
  destruct (is_auto_bin b) eqn:Eb.
  - unfold is_auto_bin in Eb.
    assert (N1 : String.eqb (b_chrom b) (x_label t) = false).
    { destruct (String.eqb_spec (b_chrom b) (x_label t)) as [E|E]; [rewrite E in Eb; congruence|reflexivity]. }
    assert (N2 : String.eqb (b_chrom b) (y_label t) = false).
    { destruct (String.eqb_spec (b_chrom b) (y_label t)) as [E|E]; [rewrite E in Eb; congruence|reflexivity]. }
    rewrite N1, N2. auto.
  - cbn [orb] in Ha. destruct build as [p|]; [|discriminate].
    rewrite Ha. unfold parx_filter in Ha. apply andb_true_iff in Ha. destruct Ha as (Hx & _).
    apply String.eqb_eq in Hx.
    assert (N2 : String.eqb (b_chrom b) (y_label t) = false).
    { destruct (String.eqb_spec (b_chrom b) (y_label t)) as [E|E]; [congruence|reflexivity]. }
    rewrite N2. cbn. rewrite andb_false_r. auto.
Qed.

Lemma auto_sel_flat hap t build b :
  t <> [] -> auto_sel t build b = true -> flat_at hap build t b = 0.
Proof.
  intros Hne Ha. destruct (auto_sel_not_sex t build b Hne Ha) as (E1 & E2 & E3).
  unfold flat_at. rewrite E1, E2, E3. destruct hap; reflexivity.
Qed.

Lemma x_bin_flat (hap : bool) t build b :
  t <> [] -> chr_x_filter t build b = true ->
  flat_at hap build t b == (if hap then -1 else 0) /\ chr_y_filter t build b = false.
Proof.
  intros Hne Hxm. pose proof (labels_distinct t Hne) as Hd.
  assert (Hx : b_chrom b = x_label t).
  { unfold chr_x_filter in Hxm. apply andb_true_iff in Hxm. destruct Hxm as (Hx & _). now apply String.eqb_eq in Hx. }
  assert (Hy : forall bld, chr_y_filter t bld b = false).
  { intros bld. unfold chr_y_filter.
    destruct (String.eqb_spec (b_chrom b) (y_label t)); [congruence|reflexivity]. }
  split; [|apply Hy]. unfold flat_at. rewrite Hxm, !Hy. destruct hap; reflexivity.
Qed.

Lemma y_bin_flat hap t build b :
  chr_y_filter t build b = true -> flat_at hap build t b == -1.
Proof.
  intros Hym. unfold flat_at. rewrite Hym. destruct hap; [rewrite orb_true_r; reflexivity|].
  unfold chr_y_filter in *. apply andb_true_iff in Hym. destruct Hym as (-> & _). reflexivity.
Qed.

(* ---- a block of files ------------------------------------------------------------------------------------------- *)
Section NoisyBlock.
  Variables (hap : bool) (build : option parb) (sexes : list (string * bool)) (skip : bool).
  Variable files : list sample.
  Hypothesis Hfiles : files <> [].
  Let bins := block_bins files.

  (* every value of the column within r of v: the reference within r of v, spread^2 <= 997 r^2 *)
  Lemma block_near i v r :
    (forall s, In s files -> Qabs (sample_value hap build sexes skip bins i s - v) <= r) ->
    Qabs (nth i (expect_flat hap build bins) 0 - v) <= r ->
    Qabs (consensus_log2 (block_column hap build sexes skip files i) - v) <= r /\
    consensus_spread_sq (block_column hap build sexes skip files i) <= spread_K_radius * (r * r).
  Proof.
    intros Hv Hfl. apply column_near; [apply block_column_length; exact Hfiles|].
    unfold block_column. cbv zeta. fold bins. intros x [<-|Hx]; [exact Hfl|].
    apply in_map_iff in Hx. destruct Hx as (s & <- & Hs). apply Hv. now apply sort_samples_In.
  Qed.

  Variable base : list bin.
  Hypothesis Hauto : existsb is_auto_bin base = true.
  Variable eps : Q.

  (* file s is the profile plus d, up to eps, on the bins the centre is taken over *)
  Definition noisy_like (s : sample) (d : Q) : Prop :=
    Forall2 (bin_near d eps (auto_sel base build)) base (s_bins s).

  Hypothesis Hnoisy : forall s, In s files -> exists d, noisy_like s d.
  Hypothesis Hlow : skip = true ->
    (forall b, In b base -> is_low b = false) /\
    (forall s, In s files -> forall b, In b (s_bins s) -> is_low b = false).

  Lemma n_bins_geom : Forall2 (bin_rel 0 (fun _ => false)) base bins.
  Proof.
    destruct (first_in_files files Hfiles) as (f & Hf & E). unfold bins. rewrite E.
    destruct (Hnoisy f Hf) as (d & Hd). eapply bin_near_geom; exact Hd.
  Qed.

  Lemma n_length_bins : length bins = length base.
  Proof. symmetry. eapply Forall2_length'. apply n_bins_geom. Qed.

  Lemma n_base_nonnil : base <> [].
  Proof. intro E. rewrite E in Hauto. discriminate. Qed.

  Lemma n_flat i d0 :
    (i < length base)%nat ->
    nth i (expect_flat hap build bins) 0 = flat_at hap build base (nth i base d0).
  Proof.
    intros Hi. rewrite (nth_expect_flat hap build bins i d0) by (rewrite n_length_bins; exact Hi).
    unfold flat_at. destruct (geom_filters build base bins i d0 n_bins_geom Hi) as (-> & -> & ->). reflexivity.
  Qed.

  (* the centring shift of a file: within eps of (the profile's shift - d) *)
  Lemma n_shift s d :
    In s files -> noisy_like s d ->
    exists c c', center_shift median true skip build base = Some c /\
                 center_shift median true skip build (s_bins s) = Some c' /\ Qabs (c' - (c - d)) <= eps.
  Proof.
    intros Hs Hl. apply center_shift_near; [exact Hl|exact Hauto|].
    intros Hsk. destruct (Hlow Hsk) as (H1 & H2). split; [exact H1|]. apply H2. exact Hs.
  Qed.

  (* what file s contributes to the column of bin i: within 2 eps of the ideal value, when its raw value at the
     bin is within eps of (tv + d) *)
  Lemma sample_near s d i d0 tv :
    In s files -> noisy_like s d -> (i < length base)%nat ->
    Qabs (b_log2 (nth i (s_bins s) d0) - (tv + d)) <= eps ->
    exists c, center_shift median true skip build base = Some c /\
      Qabs (sample_value hap build sexes skip bins i s -
            shifted_value (sample_is_xx sexes (s_id s)) (flat_at hap build base (nth i base d0))
              (chr_x_filter base build (nth i base d0)) (chr_y_filter base build (nth i base d0)) (tv + c))
      <= 2 * eps.
  Proof.
    intros Hs Hl Hi Hraw. destruct (n_shift s d Hs Hl) as (c & c' & Hc & Hc' & Hcc).
    exists c. split; [exact Hc|].
    assert (Hlen : length (s_bins s) = length bins).
    { rewrite n_length_bins. symmetry. eapply Forall2_length'. exact Hl. }
    assert (Hib : (i < length bins)%nat) by (rewrite n_length_bins; exact Hi).
    pose proof (sample_value_spec hap build sexes skip bins i s d0 Hib Hlen) as Esv.
    destruct (geom_filters build base bins i d0 n_bins_geom Hi) as (Ex & Ey & _). rewrite Ex, Ey in Esv.
    rewrite <- (nth_expect_flat hap build bins i d0 Hib) in Esv.
    rewrite (n_flat i d0 Hi) in Esv.
    apply (Qabs_le_eq_l _ _ _ _ Esv).
    apply shifted_value_near.
    assert (His : (i < length (s_bins s))%nat) by (rewrite Hlen; exact Hib).
    apply (Qabs_le_eq_l _ _ _ _ (center_all_nth _ _ _ _ _ c' i d0 Hc' His)).
    apply Qabs_Qle_condition in Hraw. apply Qabs_Qle_condition in Hcc. apply Qabs_Qle_condition. split; lra.
  Qed.

  Lemma n_shift_exists : exists c, center_shift median true skip build base = Some c.
  Proof.
    destruct (first_in_files files Hfiles) as (f & Hf & _). destruct (Hnoisy f Hf) as (d & Hd).
    destruct (n_shift f d Hf Hd) as (c & _ & Hc & _). exists c. exact Hc.
  Qed.

  (* ---- C05_bounded_noise_log2 / _spread: a bin the centre is taken over (autosomes, PAR-X) ---------------- *)
  Theorem noise_autosomal i d0 :
    (i < length base)%nat -> auto_sel base build (nth i base d0) = true ->
    exists c, center_shift median true skip build base = Some c /\
      let b := nth i base d0 in
      let fl := flat_at hap build base b in
      let v := b_log2 b + c + fl in
      fl == 0 /\
      (forall s, In s files -> Qabs (sample_value hap build sexes skip bins i s - v) <= 2 * eps) /\
      (forall r, 2 * eps <= r -> Qabs (fl - v) <= r ->
         Qabs (consensus_log2 (block_column hap build sexes skip files i) - v) <= r /\
         consensus_spread_sq (block_column hap build sexes skip files i) <= spread_K_radius * (r * r)).
  Proof.
    intros Hi Hsel. destruct n_shift_exists as (c & Hc). exists c. split; [exact Hc|].
    intros b fl v.
    assert (Hfl0 : fl = 0) by (apply auto_sel_flat; [apply n_base_nonnil|exact Hsel]).
    destruct (auto_sel_not_sex base build b n_base_nonnil Hsel) as (Ex & Ey & _).
    assert (Hv : forall s, In s files -> Qabs (sample_value hap build sexes skip bins i s - v) <= 2 * eps).
    { intros s Hs. destruct (Hnoisy s Hs) as (d & Hd).
      destruct (Forall2_nth _ _ _ i d0 d0 Hd Hi) as (_ & _ & _ & Hraw). specialize (Hraw Hsel).
      destruct (sample_near s d i d0 (b_log2 b) Hs Hd Hi Hraw) as (c2 & Hc2 & Hn).
      rewrite Hc in Hc2. injection Hc2 as <-.
      fold b in Hn. rewrite Ex, Ey in Hn. fold fl in Hn.
      unfold shifted_value in Hn. cbn [orb] in Hn.
      destruct (sample_is_xx sexes (s_id s)); exact Hn. }
    split; [rewrite Hfl0; reflexivity|]. split; [exact Hv|].
    intros r Hr Hflr. apply block_near.
    - intros s Hs. eapply Qle_trans; [apply Hv; exact Hs|exact Hr].
    - rewrite (n_flat i d0 Hi). exact Hflr.
  Qed.

  (* ---- C05_bounded_noise_sex -------------------------------------------------------------------------------- *)
  (* X within eps of the baseline for females, of one below it for males; Y within eps of one below it for males,
     anything for females *)
  Definition sexed_near (s : sample) (d : Q) : Prop :=
    Forall2 (fun b b' =>
               (chr_x_filter base build b = true ->
                Qabs (b_log2 b' - (b_log2 b + d - (if sample_is_xx sexes (s_id s) then 0 else 1))) <= eps) /\
               (chr_y_filter base build b = true -> sample_is_xx sexes (s_id s) = false ->
                Qabs (b_log2 b' - (b_log2 b + d - 1)) <= eps)) base (s_bins s).

  Hypothesis Hsexed : forall s, In s files -> exists d, noisy_like s d /\ sexed_near s d.

  Theorem noise_sex_x i d0 :
    (i < length base)%nat -> chr_x_filter base build (nth i base d0) = true ->
    exists c, center_shift median true skip build base = Some c /\
      let a := b_log2 (nth i base d0) + c in          (* the bin's baseline relative to the autosomal centre *)
      let v := a + (if hap then -1 else 0) in
      (forall s, In s files -> Qabs (sample_value hap build sexes skip bins i s - v) <= 2 * eps) /\
      (forall r, 2 * eps <= r -> Qabs a <= r ->
         Qabs (consensus_log2 (block_column hap build sexes skip files i) - v) <= r /\
         consensus_spread_sq (block_column hap build sexes skip files i) <= spread_K_radius * (r * r)).
  Proof.
    intros Hi Hxm. destruct n_shift_exists as (c & Hc). exists c. split; [exact Hc|].
    intros a v.
    destruct (x_bin_flat hap base build (nth i base d0) n_base_nonnil Hxm) as (Hfl & Hym).
    assert (Hv : forall s, In s files -> Qabs (sample_value hap build sexes skip bins i s - v) <= 2 * eps).
    { intros s Hs. destruct (Hsexed s Hs) as (d & Hd & Hsx).
      destruct (Forall2_nth _ _ _ i d0 d0 Hsx Hi) as (Hraw & _). specialize (Hraw Hxm).
      set (off := if sample_is_xx sexes (s_id s) then 0 else 1) in *.
      assert (Hraw' : Qabs (b_log2 (nth i (s_bins s) d0) - (b_log2 (nth i base d0) - off + d)) <= eps).
      { eapply Qle_trans; [|exact Hraw]. apply Qle_lteq. right. apply Qabs_wd. ring. }
      destruct (sample_near s d i d0 _ Hs Hd Hi Hraw') as (c2 & Hc2 & Hn).
      rewrite Hc in Hc2. injection Hc2 as <-.
      rewrite Hxm, Hym in Hn. eapply Qle_trans; [|exact Hn]. apply Qle_lteq. right. apply Qabs_wd.
      unfold shifted_value, off. destruct (sample_is_xx sexes (s_id s)); cbn [orb]; rewrite Hfl; unfold v, a; ring. }
    split; [exact Hv|]. intros r Hr Ha. apply block_near.
    - intros s Hs. eapply Qle_trans; [apply Hv; exact Hs|exact Hr].
    - rewrite (n_flat i d0 Hi), Hfl. eapply Qle_trans; [|exact Ha]. apply Qle_lteq. right.
      setoid_replace ((if hap then -1 else 0) - v) with (- a) by (unfold v; ring). apply Qabs_opp.
  Qed.

  (* what a Y bin's column holds: -1 (flat), -1 (females, set), and the males within 2 eps of a - 1 *)
  Lemma y_values i d0 :
    (i < length base)%nat -> chr_y_filter base build (nth i base d0) = true ->
    exists c, center_shift median true skip build base = Some c /\
      forall s, In s files ->
        if sample_is_xx sexes (s_id s) then sample_value hap build sexes skip bins i s == -1
        else Qabs (sample_value hap build sexes skip bins i s - (b_log2 (nth i base d0) + c - 1)) <= 2 * eps.
  Proof.
    intros Hi Hym. destruct n_shift_exists as (c & Hc). exists c. split; [exact Hc|].
    pose proof (y_bin_flat hap base build (nth i base d0) Hym) as Hfl.
    intros s Hs. destruct (Hsexed s Hs) as (d & Hd & Hsx).
    assert (Hlen : length (s_bins s) = length bins).
    { rewrite n_length_bins. symmetry. eapply Forall2_length'. exact Hd. }
    destruct (sample_is_xx sexes (s_id s)) eqn:Exx.
    - assert (Hib : (i < length bins)%nat) by (rewrite n_length_bins; exact Hi).
      eapply Qeq_trans; [apply (sample_value_spec hap build sexes skip bins i s d0 Hib Hlen)|].
      destruct (geom_filters build base bins i d0 n_bins_geom Hi) as (_ & Ey & _). rewrite Ey, Hym, Exx.
      reflexivity.
    - destruct (Forall2_nth _ _ _ i d0 d0 Hsx Hi) as (_ & Hraw). specialize (Hraw Hym Exx).
      assert (Hraw' : Qabs (b_log2 (nth i (s_bins s) d0) - (b_log2 (nth i base d0) - 1 + d)) <= eps).
      { eapply Qle_trans; [|exact Hraw]. apply Qle_lteq. right. apply Qabs_wd. ring. }
      destruct (sample_near s d i d0 _ Hs Hd Hi Hraw') as (c2 & Hc2 & Hn).
      rewrite Hc in Hc2. injection Hc2 as <-.
      rewrite Hym, Exx in Hn. eapply Qle_trans; [|exact Hn]. apply Qle_lteq. right. apply Qabs_wd.
      unfold shifted_value. rewrite orb_true_r, Hfl. ring.
  Qed.

  (* a block of males only: the Y bin sits one copy below its own baseline *)
  Theorem noise_sex_y_males i d0 :
    (forall s, In s files -> sample_is_xx sexes (s_id s) = false) ->
    (i < length base)%nat -> chr_y_filter base build (nth i base d0) = true ->
    exists c, center_shift median true skip build base = Some c /\
      let a := b_log2 (nth i base d0) + c in
      let v := a - 1 in
      (forall s, In s files -> Qabs (sample_value hap build sexes skip bins i s - v) <= 2 * eps) /\
      (forall r, 2 * eps <= r -> Qabs a <= r ->
         Qabs (consensus_log2 (block_column hap build sexes skip files i) - v) <= r /\
         consensus_spread_sq (block_column hap build sexes skip files i) <= spread_K_radius * (r * r)).
  Proof.
    intros Hmale Hi Hym. destruct (y_values i d0 Hi Hym) as (c & Hc & Hvals). exists c. split; [exact Hc|].
    intros a v.
    assert (Hv : forall s, In s files -> Qabs (sample_value hap build sexes skip bins i s - v) <= 2 * eps).
    { intros s Hs. specialize (Hvals s Hs). rewrite (Hmale s Hs) in Hvals. exact Hvals. }
    split; [exact Hv|]. intros r Hr Ha. apply block_near.
    - intros s Hs. eapply Qle_trans; [apply Hv; exact Hs|exact Hr].
    - rewrite (n_flat i d0 Hi), (y_bin_flat hap base build _ Hym). eapply Qle_trans; [|exact Ha].
      apply Qle_lteq. right. setoid_replace (-1 - v) with (- a) by (unfold v; ring). apply Qabs_opp.
  Qed.

  (* any male / female mix, the Y bin's baseline at the autosomal centre: within 2 eps of -1 *)
  Theorem noise_sex_y i d0 :
    0 <= eps ->
    (i < length base)%nat -> chr_y_filter base build (nth i base d0) = true ->
    exists c, center_shift median true skip build base = Some c /\
      (b_log2 (nth i base d0) + c == 0 ->
       (forall s, In s files -> Qabs (sample_value hap build sexes skip bins i s - -1) <= 2 * eps) /\
       Qabs (consensus_log2 (block_column hap build sexes skip files i) - -1) <= 2 * eps /\
       consensus_spread_sq (block_column hap build sexes skip files i) <= spread_K * (eps * eps)).
  Proof.
    intros He Hi Hym. destruct (y_values i d0 Hi Hym) as (c & Hc & Hvals). exists c. split; [exact Hc|].
    intros Ha.
    assert (Hv : forall s, In s files -> Qabs (sample_value hap build sexes skip bins i s - -1) <= 2 * eps).
    { intros s Hs. specialize (Hvals s Hs). destruct (sample_is_xx sexes (s_id s)).
      - rewrite Hvals. setoid_replace (-1 - -1) with 0 by ring. cbn. lra.
      - assert (E : b_log2 (nth i base d0) + c - 1 == -1) by (rewrite Ha; ring).
        apply (Qabs_le_eq_r _ _ _ _ (Qeq_sym _ _ E)). exact Hvals. }
    split; [exact Hv|].
    destruct (block_near i (-1) (2 * eps)) as (H1 & H2).
    - exact Hv.
    - rewrite (n_flat i d0 Hi), (y_bin_flat hap base build _ Hym). setoid_replace (-1 - -1) with 0 by ring. cbn. lra.
    - split; [exact H1|]. eapply Qle_trans; [exact H2|]. unfold spread_K_radius, spread_K. apply Qle_lteq. right. ring.
  Qed.

  (* a block of females only: every Y bin is exactly -1 with spread 0, whatever the files show there *)
  Theorem noise_sex_y_females i d0 :
    (forall s, In s files -> sample_is_xx sexes (s_id s) = true) ->
    (i < length base)%nat -> chr_y_filter base build (nth i base d0) = true ->
    consensus_log2 (block_column hap build sexes skip files i) == -1 /\
    consensus_spread_sq (block_column hap build sexes skip files i) == 0.
  Proof.
    intros Hfem Hi Hym. destruct (y_values i d0 Hi Hym) as (c & Hc & Hvals).
    apply block_agree; [exact Hfiles| |].
    - intros s Hs. specialize (Hvals s Hs). rewrite (Hfem s Hs) in Hvals. exact Hvals.
    - left. fold bins. rewrite (n_flat i d0 Hi). apply (y_bin_flat hap base build _ Hym).
  Qed.
End NoisyBlock.
