(* C07 loop tie of intersect.iter_ranges: ONE ITERATION of

       for region_idx, start_val, end_val in idx_ranges(table, starts, ends, ...):
           subtable = table.iloc[region_idx]
           if mode == "trim":
               subtable = subtable.copy()
               if start_val:
                   subtable.start = subtable.start.clip(lower=start_val)
               if end_val:
                   subtable.end = subtable.end.clip(upper=end_val)
           yield subtable

   read for ONE ROW of the selection and regenerated from the Python source on every run as
   Gen/FnRangesIter.v (fn_iter_row: the (start, end) of the row as yielded; the selection and its copy
   are opaque -- a copy has the same rows; start_val / end_val are optional integers; the stores into
   the columns of the copy are variables named `subtable.start` / `subtable.end`).  Here: what
   Model/Ranges.v iter_ranges does to a selection, `match m with QTrim => trim_rows sv ev sub | _ => sub`,
   IS the generated row function mapped over the selection -- for every mode and every start_val /
   end_val including None and 0 (`if start_val:` is a truthiness test: a bound of 0 does not clip). *)
From CNV Require Import Base.Prelude Model.Ranges.
From CNV Require Gen.FnRangesIter.

Local Open Scope Z_scope.

(* the mode string by_ranges / in_range pass on *)
Definition qmode_name (m : qmode) : string :=
  match m with QInner => "inner"%string | QOuter => "outer"%string | QTrim => "trim"%string end.

Lemma source_iter_elem (mode : string) (sv ev : option Z) (d1 d2 a b : Z) :
  FnRangesIter.fn_iter_row mode sv ev d1 d2 a b =
  if String.eqb mode "trim" then
    [(match sv with Some v => if negb (v =? 0) then Z.max a v else a | None => a end,
      match ev with Some v => if negb (v =? 0) then Z.min b v else b | None => b end)]
  else [(a, b)].
Proof. unfold FnRangesIter.fn_iter_row. destruct (String.eqb mode "trim"); reflexivity. Qed.

(* a row of the selection as the generated iteration yields it (the other fields are the row's) *)
Definition src_iter_row (m : qmode) (sv ev : option Z) (d1 d2 : Z) (r : row) : row :=
  match FnRangesIter.fn_iter_row (qmode_name m) sv ev d1 d2 (r_lo r) (r_hi r) with
  | [(a, b)] => mkRow (r_id r) a b
  | _ => r
  end.

Lemma trim_rows_map (sv ev : option Z) (rows : list row) :
  trim_rows sv ev rows =
  map (fun r => mkRow (r_id r)
                  (match sv with Some v => if negb (v =? 0) then Z.max (r_lo r) v else r_lo r | None => r_lo r end)
                  (match ev with Some v => if negb (v =? 0) then Z.min (r_hi r) v else r_hi r | None => r_hi r end))
      rows.
Proof.
  assert (Hid : forall l : list row, l = map (fun r => mkRow (r_id r) (r_lo r) (r_hi r)) l).
  { induction l as [|[i a b] t IH]; [reflexivity|]. cbn [map r_id r_lo r_hi]. f_equal. exact IH. }
  unfold trim_rows, truthyZ.
  destruct sv as [v|]; [destruct (negb (v =? 0))|]; (destruct ev as [w|]; [destruct (negb (w =? 0))|]);
    rewrite ?map_map; unfold clip_lo, clip_hi; cbn [r_id r_lo r_hi]; try reflexivity; apply Hid.
Qed.

Theorem source_iter_ranges (m : qmode) (sv ev : option Z) (d1 d2 : Z) (sub : list row) :
  (match m with QTrim => trim_rows sv ev sub | _ => sub end) = map (src_iter_row m sv ev d1 d2) sub.
Proof.
  assert (Hid : forall l : list row, l = map (fun r => mkRow (r_id r) (r_lo r) (r_hi r)) l).
  { induction l as [|[i a b] t IH]; [reflexivity|]. cbn [map r_id r_lo r_hi]. f_equal. exact IH. }
  unfold src_iter_row.
  destruct m; cbn [qmode_name].
  - rewrite (Hid sub) at 1. apply map_ext. intros r. rewrite source_iter_elem. reflexivity.
  - rewrite (Hid sub) at 1. apply map_ext. intros r. rewrite source_iter_elem. reflexivity.
  - rewrite trim_rows_map. apply map_ext. intros r. rewrite source_iter_elem. reflexivity.
Qed.

(* the model's iter_ranges, every selection read through the generated iteration *)
Theorem source_iter_ranges_all (t : list row) (starts ends : option (list Z)) (m : qmode) (d1 d2 : Z) :
  iter_ranges t starts ends m =
  map (fun '(s, sv, ev) => map (src_iter_row m sv ev d1 d2) (apply_sel s t))
      (idx_ranges t starts ends (imode_of m)).
Proof.
  unfold iter_ranges. apply map_ext. intros [[s sv] ev]. apply source_iter_ranges.
Qed.
