(* Shared by the C15 ties of compare_sex_chromosomes' top-level pieces (Proofs/FnCnaryYFactor.v, FnCnaryRatios.v): what the
   statistics record of a successful Model/Sex.v compare_sex is made of. *)
From CNV Require Import Base.Prelude Base.Str Base.QNum Gen.CenterDefaults Model.Center Model.Sex.
Local Open Scope Q_scope.

Definition mean0 (o : option Q) : Q := match o with Some m => m | None => 0 end.

Lemma compare_sex_inv gstat hap build t d st :
  compare_sex gstat hap build t = Some (d, st) ->
  let chrx := filter (chr_x_filter t build) t in
  let chry := filter (chr_y_filter t build) t in
  let auto := autosomes t build in
  let use := has_weight t in
  let auto_l := map b_log2 auto in
  let auto_w := opt_weights use auto in
  let x_lr := male_lr gstat auto_l auto_w (map b_log2 chrx) (opt_weights use chrx) (fst (x_shifts hap)) (snd (x_shifts hap)) in
  let y_lr := match chry with
              | [] => None
              | _ => Some (male_lr gstat auto_l auto_w (map b_log2 chry) (opt_weights use chry) y_shift_female y_shift_male)
              end in
  let am := mean0 (segment_mean use auto) in
  st = mkStats (score_of x_lr y_lr) x_lr y_lr (qsub (mean0 (segment_mean use chrx)) am)
               (match segment_mean use chry with Some m => Some (qsub m am) | None => None end).
Proof.
  intros H. unfold compare_sex in H. destruct t as [|b0 t0] eqn:Et; [discriminate|]. rewrite <- Et in *.
  destruct (filter (chr_x_filter t build) t) as [|x0 xs] eqn:Ex; [discriminate|]. rewrite <- Ex in *.
  destruct (x_shifts hap) as [fx mx]. injection H as _ <-. reflexivity.
Qed.
