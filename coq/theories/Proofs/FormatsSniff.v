(* C08_sniff: the first line a writer produces is classified as that writer's
   format (bed3/bed4 -> "bed", interval, text, tab header), for chromosome names
   of word characters (the alphabet the patterns accept). *)
From CNV Require Import Base.Prelude Base.Str Model.Decimal Model.Chromsort Model.Sniff Model.Formats.
From CNV Require Import Proofs.ChromsortLemmas Proofs.FormatsLemmas Proofs.FormatsText.
From CNV Require Import Gen.Formats.

(* ---- character facts ---- *)

Lemma word_not_space x : is_word x = true -> is_space x = false.
Proof. destruct x as [[] [] [] [] [] [] [] []]; vm_compute; congruence. Qed.

Lemma digit_is_word x : is_digit x = true -> is_word x = true.
Proof. destruct x as [[] [] [] [] [] [] [] []]; vm_compute; congruence. Qed.

Lemma forallb_impl {A} (p q : A -> bool) l :
  (forall x, p x = true -> q x = true) -> forallb p l = true -> forallb q l = true.
Proof.
  intros H. induction l as [|x t IH]; cbn; auto. intros Hl.
  apply andb_true_iff in Hl. destruct Hl as [Hx Ht]. now rewrite (H x Hx), IH.
Qed.

Lemma all_in_chars p s : all_in p s = true -> exists x t, chars s = x :: t /\ p x = true /\ forallb p t = true.
Proof.
  unfold all_in. destruct (chars s) as [|x t]; [discriminate|]. cbn. intros H.
  apply andb_true_iff in H. destruct H as [Hx Ht]. eauto.
Qed.

Lemma all_in_impl (p q : ascii -> bool) s :
  (forall x, p x = true -> q x = true) -> all_in p s = true -> all_in q s = true.
Proof.
  intros H. unfold all_in. destruct (chars s) as [|x t]; auto. apply forallb_impl, H.
Qed.

Lemma all_in_digit_print z : 0 <= z -> all_in is_digit (print_Z z) = true.
Proof.
  intros Hz. unfold all_in. pose proof (print_nonempty z) as Hn. pose proof (print_digits z Hz) as Hd.
  destruct (chars (print_Z z)); [congruence| exact Hd].
Qed.

Lemma starts_digit_print z : 0 <= z -> starts_digit (print_Z z) = true.
Proof.
  intros Hz. unfold starts_digit. pose proof (print_nonempty z) as Hn. pose proof (print_digits z Hz) as Hd.
  destruct (chars (print_Z z)) as [|y t]; [congruence|]. cbn in Hd. apply andb_true_iff in Hd. tauto.
Qed.

Lemma print_not_word_literal z (lit : string) :
  0 <= z -> forallb is_digit (chars lit) = false -> String.eqb (print_Z z) lit = false.
Proof.
  intros Hz Hl. destruct (String.eqb_spec (print_Z z) lit) as [E|]; auto.
  rewrite <- E, print_digits in Hl by assumption. discriminate.
Qed.

(* a prefix whose first character is not a word character never matches a word-initial field *)
Lemma prefix_nonword (a : ascii) (p' s : string) x t :
  chars s = x :: t -> is_word x = true -> is_word a = false -> str_prefix (String a p') s = false.
Proof.
  intros Es Hx Ha. unfold str_prefix. rewrite Es. cbn [chars list_ascii_of_string prefixb].
  destruct (Ascii.eqb_spec a x) as [->|]; [congruence| reflexivity].
Qed.

Lemma eqb_nonword (a : ascii) (p' s : string) x t :
  chars s = x :: t -> is_word x = true -> is_word a = false -> String.eqb s (String a p') = false.
Proof.
  intros Es Hx Ha. destruct s as [|y s']; [reflexivity|]. cbn in Es. injection Es as -> _.
  cbn. destruct (Ascii.eqb_spec x a) as [->|]; [congruence| reflexivity].
Qed.

(* ---- the decision for a data line whose first field starts with a word character ---- *)

Lemma sniff_line_word f x t :
  chars (fld 0 f) = x :: t -> is_word x = true ->
  f <> [] ->
  str_prefix "track" (fld 0 f) = false -> str_prefix "browser " (fld 0 f) = false ->
  m_gff f = false ->
  sniff_line None f =
    if m_text f then Fmt "text" else if m_tab f then Fmt "tab"
    else if m_interval f then Fmt "interval" else if m_refflat f then Fmt "refflat"
    else if m_bed f then Fmt "bed" else Unrecognized.
Proof.
  intros E Hx Hne Ht Hb Hg. unfold sniff_line.
  assert (Hbl : blank_line f = false).
  { destruct f as [|f0 rest]; [congruence|]. cbn [fld nth] in E. unfold blank_line. cbn [forallb].
    rewrite E. cbn [forallb]. now rewrite (word_not_space x Hx). }
  rewrite Hbl, Ht, Hb, Hg. cbn [orb].
  rewrite (prefix_nonword "#" "#gff-version" _ x t E Hx eq_refl).
  rewrite (prefix_nonword "#" "#fileformat=VCF" _ x t E Hx eq_refl).
  rewrite (eqb_nonword "#" "CHROM" _ x t E Hx eq_refl).
  rewrite (prefix_nonword "#" "" _ x t E Hx eq_refl).
  rewrite (prefix_nonword "@" "" _ x t E Hx eq_refl).
  cbn [orb andb]. reflexivity.
Qed.

Lemma m_text_word_field f :
  all_in is_word (fld 0 f) = true -> m_text f = false.
Proof.
  intros H. unfold m_text. apply all_in_chars in H. destruct H as (x & t & E & Hx & Ht).
  rewrite E, (span_all is_word (x :: t)); [reflexivity|]. cbn. now rewrite Hx, Ht.
Qed.

Definition sniff_name_ok (c : string) : bool := all_in is_word c && bed_name_ok c.

Lemma name_ok_parts c :
  sniff_name_ok c = true ->
  all_in is_word c = true /\ str_prefix "track" c = false /\ str_prefix "browser " c = false.
Proof.
  unfold sniff_name_ok, bed_name_ok. intros H. apply andb_true_iff in H. destruct H as [H1 H2].
  apply andb_true_iff in H2. destruct H2 as [H2 H3]. now rewrite negb_true_iff in H2, H3.
Qed.

(* BED lines: [c; start; end] ++ rest with at most one more field *)
Lemma sniff_bed_fields c s e (rest : list string) :
  sniff_name_ok c = true -> 0 <= s -> 0 <= e -> (length rest <= 1)%nat ->
  sniff_line None (c :: print_Z s :: print_Z e :: rest) = Fmt "bed".
Proof.
  intros Hc Hs He Hl. apply name_ok_parts in Hc. destruct Hc as (Hw & Ht & Hb).
  destruct (all_in_chars _ _ Hw) as (x & t & E & Hx & _).
  rewrite (sniff_line_word _ x t); auto; try discriminate.
  - rewrite m_text_word_field by exact Hw.
    assert (Htab : m_tab (c :: print_Z s :: print_Z e :: rest) = false).
    { unfold m_tab. rewrite (print_not_word_literal s "start" Hs eq_refl).
      now rewrite andb_false_r. }
    rewrite Htab.
    assert (Hbed : m_bed (c :: print_Z s :: print_Z e :: rest) = true).
    { unfold m_bed. rewrite (all_in_impl is_word is_nonspace c), all_in_digit_print, starts_digit_print; auto.
      intros y Hy. unfold is_nonspace. now rewrite word_not_space. }
    rewrite Hbed.
    destruct rest as [|g [|g' rest']]; [reflexivity | reflexivity | cbn in Hl; lia].
  - destruct rest as [|g [|g' rest']]; [reflexivity | reflexivity | cbn in Hl; lia].
Qed.

Lemma sniff_bed3 (r : row) :
  let '(c, s, e) := fst r in
  sniff_name_ok c = true -> 0 <= s -> 0 <= e -> sniff_line None (bed3_line r) = Fmt "bed".
Proof.
  destruct r as [[[c s] e] ex]. cbn [fst]. intros Hc Hs He. unfold bed3_line, coord_fields. cbn [fst].
  replace (s + off_write_bed3) with s by (unfold off_write_bed3; lia).
  apply sniff_bed_fields; auto.
Qed.

Lemma sniff_bed4 (r : row) :
  let '(c, s, e) := fst r in
  sniff_name_ok c = true -> 0 <= s -> 0 <= e -> sniff_line None (bed4_line r) = Fmt "bed".
Proof.
  destruct r as [[[c s] e] ex]. cbn [fst]. intros Hc Hs He. unfold bed4_line, coord_fields. cbn [fst app].
  replace (s + off_write_bed4) with s by (unfold off_write_bed4; lia).
  apply sniff_bed_fields; auto.
Qed.

Lemma sniff_interval (r : row) :
  let '(c, s, e) := fst r in
  sniff_name_ok c = true -> 0 <= s -> 0 <= e ->
  all_in is_nonspace (interval_gene r) = true -> one_of ".+-" (interval_strand r) = true ->
  sniff_line None (interval_line r) = Fmt "interval".
Proof.
  destruct r as [[[c s] e] ex]. cbn [fst]. intros Hc Hs He Hg Hst.
  unfold interval_line. cbn [fst snd].
  unfold interval_gene, interval_strand in Hg, Hst. cbn [snd] in Hg, Hst.
  apply name_ok_parts in Hc. destruct Hc as (Hw & Ht & Hb).
  destruct (all_in_chars _ _ Hw) as (x & t & E & Hx & _).
  assert (Hs1 : 0 <= s + off_write_interval) by (unfold off_write_interval; lia).
  rewrite (sniff_line_word _ x t); auto; try discriminate.
  rewrite m_text_word_field by exact Hw.
  unfold m_tab. rewrite (print_not_word_literal _ "start" Hs1 eq_refl), andb_false_r.
  unfold m_interval. rewrite Hw, !all_in_digit_print, Hst, Hg by assumption. reflexivity.
Qed.

Lemma prefixb_app_stop (p l1 : list ascii) a r :
  (forall y, In y p -> y <> a) -> prefixb p l1 = false -> prefixb p (l1 ++ a :: r) = false.
Proof.
  revert l1. induction p as [|y p' IH]; intros l1 Hp H; [discriminate|].
  destruct l1 as [|x l1']; cbn [app prefixb] in *.
  - destruct (Ascii.eqb_spec y a) as [->|]; [|reflexivity].
    exfalso. apply (Hp a); [now left | reflexivity].
  - destruct (Ascii.eqb y x); [|reflexivity]. cbn [andb] in *.
    apply IH; auto. intros z Hz. apply Hp. now right.
Qed.

Lemma sniff_text (r : row) :
  let '(c, s, e) := fst r in
  sniff_name_ok c = true -> 0 <= s -> 0 <= e -> sniff_line None (text_line r) = Fmt "text".
Proof.
  destruct r as [[[c s] e] ex]. cbn [fst]. intros Hc Hs He. unfold text_line. cbn [fst].
  apply name_ok_parts in Hc. destruct Hc as (Hw & Ht & Hb).
  destruct (all_in_chars _ _ Hw) as (x & t & E & Hx & Htl).
  set (n := s + off_write_text + off_to_label).
  assert (Hn : 0 <= n) by (unfold n, off_write_text, off_to_label; lia).
  assert (EL : chars (to_label (c, s + off_write_text, e))
               = (x :: t) ++ ":"%char :: chars (print_Z n) ++ "-"%char :: chars (print_Z e)).
  { rewrite to_label_chars, chars_unchars, E. reflexivity. }
  assert (Pfx : forall p : string, (forall y, In y (chars p) -> y <> ":"%char) ->
                  str_prefix p c = false -> str_prefix p (to_label (c, s + off_write_text, e)) = false).
  { intros p Hp H. unfold str_prefix in *. rewrite EL, <- E. now apply prefixb_app_stop. }
  rewrite (sniff_line_word _ x (t ++ ":"%char :: chars (print_Z n) ++ "-"%char :: chars (print_Z e)));
    cbn [fld nth]; auto; try discriminate.
  - assert (Hm : m_text [to_label (c, s + off_write_text, e)] = true).
    { unfold m_text. cbn [fld nth]. rewrite EL.
      rewrite span_app; [| cbn [forallb]; now rewrite Hx, Htl | reflexivity].
      cbn [Ascii.eqb Bool.eqb andb].
      rewrite span_app; [reflexivity | now apply print_digits | reflexivity]. }
    now rewrite Hm.
  - apply Pfx; auto. intros y Hy. cbn in Hy. intuition (subst; discriminate).
  - apply Pfx; auto. intros y Hy. cbn in Hy. intuition (subst; discriminate).
Qed.

(* the header line of a tab file, unless its extra columns make it look like GFF
   (which needs a first extra column name made of digits only) *)
Lemma sniff_tab_header (h : list string) :
  all_in is_digit (fld 0 h) = false ->
  sniff_line None (required_cols ++ h) = Fmt "tab".
Proof.
  intros Hh. cbn [required_cols app].
  rewrite (sniff_line_word _ "c"%char (chars "hromosome")); try reflexivity; try discriminate.
  unfold m_gff. destruct h as [|d [|a1 [|a2 [|a3 [|a4 [|a5 rest]]]]]]; try reflexivity.
  cbn [fld nth] in Hh. rewrite Hh. reflexivity.
Qed.
