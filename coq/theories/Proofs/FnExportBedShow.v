(* C20 source tie of export_bed's dispatch on `show`:

       if show == "ploidy":
           out = out[out["ncopies"] != ploidy]
       elif show == "variant":
           exp_copies = call.absolute_expect(segments, ploidy, diploid_parx_genome, is_sample_female)
           out = out[out["ncopies"] != exp_copies]

   is regenerated from the Python source on every run as Gen/FnExportBedShow.v (fn_bed_keep: whether a row stays in
   `out`, as a function of show, the row's ncopies, ploidy and the row's expected copies).  Here: per row it is the
   mask Model/Export.v export_bed selects by -- and the rows the model's dispatch keeps are exactly those whose
   generated bit is on. *)
From CNV Require Import Base.Prelude Base.Str Gen.ExportDefaults Gen.FnExportBedShow Model.Call Model.Export.

Lemma source_bed_show (shw : string) (n k x : Z) :
  fn_bed_keep shw n k x
  = match show_of shw with
    | ShowPloidy => negb (n =? k)
    | ShowVariant => negb (n =? x)
    | ShowOther => true
    end.
Proof.
  unfold fn_bed_keep, show_of, show_ploidy, show_variant.
  destruct (String.eqb shw "ploidy"); [reflexivity|].
  destruct (String.eqb shw "variant"); reflexivity.
Qed.

(* the model's dispatch, row by row: the selection masks are the generated bits *)
Lemma source_bed_show_ploidy_mask (shw : string) (k : Z) (nc : list Z) :
  show_of shw = ShowPloidy ->
  map (fun n => negb (n =? k)) nc = map (fun n => fn_bed_keep shw n k 0) nc.
Proof.
  intro H. apply map_ext. intro n. rewrite source_bed_show, H. reflexivity.
Qed.

Lemma source_bed_show_other (shw : string) (n k x : Z) :
  show_of shw = ShowOther -> fn_bed_keep shw n k x = true.
Proof. intro H. rewrite source_bed_show, H. reflexivity. Qed.

Lemma source_bed_show_variant (shw : string) (n k x : Z) :
  show_of shw = ShowVariant -> fn_bed_keep shw n k x = negb (n =? x).
Proof. intro H. rewrite source_bed_show, H. reflexivity. Qed.
