(* C14 loop tie of do_call's second filter loop (cnvlib/call.py), ONE ITERATION of

       for filt in filters:
           if not outarr.data.index.is_unique:                  (opaque range: an in-place relabelling of the rows;
               logging.warning("Resetting index")                the model's tables carry no index)
               outarr.data = outarr.data.reset_index(drop=True)
           logging.warning("Applying filter '%s'", filt)
           outarr = getattr(segfilters, filt)(outarr)

   regenerated from the Python source on every run as Gen/FnCallPostFilter.v (fn_post_filter_step: the carried table after
   the iteration).  As in Proofs/FnCallPreFilter.v the opaque table is instantiated with the trace of filter names applied
   so far and read back by [table_of].  Model/Segfilters.v apply_seq IS the generated step folded over the remaining
   filters, and call_with_filters IS the two generated loops around the calling step. *)
From CNV Require Import Base.Prelude Base.Str Gen.SegfilterDefaults Model.Segfilters.
From CNV Require Import Gen.FnCallPreFilter Gen.FnCallPostFilter Proofs.FnCallPreFilter.

Local Open Scope Z_scope.

Definition py_post_iter (tr : list string) (nm : string) : list string :=
  fn_post_filter_step nm tr (fun tr => tr ++ [nm]).

Definition py_post_loop (names : list string) (tr : list string) : list string :=
  fold_left py_post_iter names tr.

(* ONE iteration: the table after it is the named filter applied to the table before it *)
Lemma source_post_step f t tr :
  table_of t (py_post_iter tr (name_of f)) = apply_filter f (table_of t tr).
Proof. unfold py_post_iter, fn_post_filter_step. apply table_of_snoc. Qed.

Lemma apply_seq_fold fs : forall t tr,
  apply_seq fs (table_of t tr) = table_of t (py_post_loop (map name_of fs) tr).
Proof.
  unfold apply_seq, py_post_loop.
  induction fs as [|f fs IH]; intros t tr; [reflexivity|].
  cbn [map fold_left]. rewrite <- source_post_step. apply IH.
Qed.

(* the loop: apply_seq = the generated step folded over the filters' names *)
Theorem source_apply_seq fs t :
  apply_seq fs t = table_of t (py_post_loop (map name_of fs) []).
Proof. exact (apply_seq_fold fs t []). Qed.

(* do_call's filter handling as a whole: the first generated loop, the calling step, the second generated loop on
   the list the first one left *)
Theorem source_call_with_filters (call : list seg -> list seg) fs t :
  call_with_filters call fs t =
  let L := py_pre_loop (map name_of fs) in
  table_of (call (table_of t (fst L))) (py_post_loop (snd L) []).
Proof.
  unfold call_with_filters. pose proof (source_pre_steps t fs) as H. cbv zeta in H |- *.
  destruct (pre_steps pre_filters t fs) as [t1 rest]. cbn [fst snd] in H. destruct H as [H1 H2].
  rewrite source_apply_seq, H1, H2. reflexivity.
Qed.
