(* VCF record ends and the Picard per-target table (extension). *)
From CNV Require Import Base.Prelude Base.Str Model.Decimal Model.Chromsort Model.Sniff Model.Formats.
From CNV Require Import Proofs.ChromsortLemmas Proofs.FormatsLemmas Proofs.FormatsText Proofs.FormatsLib Proofs.FormatsGff Proofs.FormatsSniff.
From CNV Require Import Gen.Formats.

(* ------------------------------------------------------------------------ *)
(* vcfsimple: END= in the INFO column, else the allele-length rule            *)

Lemma after_first_none p cs : infixb p cs = false -> after_first p cs = None.
Proof.
  induction cs as [|c cs IH]; cbn [infixb after_first]; intros H; apply orb_false_iff in H; destruct H as [H1 H2].
  - now rewrite strip_prefix_prefixb.
  - rewrite strip_prefix_prefixb by assumption. now apply IH.
Qed.

Lemma after_first_leftmost p pre : forall rest,
  (forall i, (i < length pre)%nat -> prefixb p (skipn i (pre ++ p ++ rest)) = false) ->
  after_first p (pre ++ p ++ rest) = Some rest.
Proof.
  induction pre as [|a pre IH]; intros rest H.
  - cbn [app]. destruct (p ++ rest) eqn:E; cbn [after_first]; rewrite <- E, strip_prefix_app; reflexivity.
  - cbn [app after_first]. pose proof (H 0%nat ltac:(cbn; lia)) as H0. cbn [skipn app] in H0.
    rewrite strip_prefix_prefixb by assumption. apply IH. intros i Hi. apply (H (S i)). cbn. lia.
Qed.

Lemma take_until_app v c rest : forallb (fun x => negb (Ascii.eqb x c)) v = true ->
  take_until c (v ++ c :: rest) = v /\ take_until c v = v.
Proof.
  induction v as [|x v IH]; cbn [forallb app take_until]; intros H.
  - now rewrite Ascii.eqb_refl.
  - apply andb_true_iff in H. destruct H as [Hx Hv]. apply negb_true_iff in Hx. rewrite Hx.
    destruct (IH Hv) as [-> ->]. auto.
Qed.

Lemma print_no_semicolon z : forallb (fun x => negb (Ascii.eqb x semicolon)) (chars (print_Z z)) = true.
Proof.
  assert (D : forall p, forallb (fun x => negb (Ascii.eqb x semicolon)) (chars (print_Z (Z.pos p))) = true).
  { intros p. pose proof (print_digits (Z.pos p) ltac:(lia)) as H.
    eapply forallb_impl; [|exact H]. intros x Hx.
    destruct (Ascii.eqb_spec x semicolon) as [->|]; [discriminate|reflexivity]. }
  destruct z as [|p|p]; [reflexivity | apply D |]. rewrite print_neg. cbn [chars list_ascii_of_string forallb].
  exact (D p).
Qed.

(* no END= anywhere: the sentinel -1, hence the allele-length rule *)
Lemma vcf_simple_end_no_END start ref alt info :
  str_infix "END=" info = false ->
  vcf_simple_end start ref alt info = Some (start + Z.max 0 (slen alt - slen ref)).
Proof.
  intros H. unfold vcf_simple_end, vcf_end_from_info. now rewrite after_first_none.
Qed.

(* the first END=n (n <> -1), closed by ';' or the end of the column, is the record's end *)
Lemma vcf_simple_end_END start ref alt pre n rest :
  (forall i, (i < length (chars pre))%nat ->
     prefixb (chars "END=") (skipn i (chars pre ++ chars "END=" ++ chars (print_Z n) ++ rest)) = false) ->
  gff_term rest = true -> n <> -1 ->
  vcf_simple_end start ref alt (unchars (chars pre ++ chars "END=" ++ chars (print_Z n) ++ rest)) = Some n.
Proof.
  intros Hpre Ht Hn. unfold vcf_simple_end, vcf_end_from_info. rewrite chars_unchars.
  change (chars vcf_end_key) with (chars "END=").
  rewrite after_first_leftmost by assumption.
  assert (E : take_until semicolon (chars (print_Z n) ++ rest) = chars (print_Z n)).
  { destruct rest as [|d r].
    - rewrite app_nil_r. apply (take_until_app _ semicolon []), print_no_semicolon.
    - cbn in Ht. apply Ascii.eqb_eq in Ht. subst d. apply take_until_app, print_no_semicolon. }
  rewrite E, unchars_chars, parse_print.
  destruct (Z.eqb_spec n vcf_end_missing) as [->|]; [unfold vcf_end_missing in Hn; congruence | reflexivity].
Qed.

(* a substitution / SNV (REF and ALT of the same length, no END=) gets an EMPTY interval
   from the vcf-simple and vcf-sites readers: end = start *)
Lemma vcf_simple_snv_empty start ref alt info :
  str_infix "END=" info = false -> slen alt = slen ref ->
  vcf_simple_end start ref alt info = Some start.
Proof. intros H E. rewrite vcf_simple_end_no_END by assumption. f_equal. lia. Qed.

Lemma vcf_simple_end_examples :
  vcf_simple_end 99 "A" "G" "." = Some 99 /\
  vcf_simple_end 199 "ACG" "A" "." = Some 199 /\
  vcf_simple_end 299 "A" "ACG,AT" "." = Some 304 /\
  vcf_simple_end 399 "A" "<DEL>" "SVTYPE=DEL;END=500;CIEND=-5,5" = Some 500 /\
  vcf_simple_end 399 "A" "<DEL>" "CIEND=-5,5;END=500" = None /\
  vcf_simple_end 399 "A" "G" "END=-1" = Some 399.
Proof. repeat split; reflexivity. Qed.

Lemma conv_vcf_simple_row off c p id ref alt q f info rest e :
  vcf_simple_end (p + off) ref alt info = Some e ->
  read_vcf_simple_row off (c :: print_Z p :: id :: ref :: alt :: q :: f :: info :: rest)
  = Some ((c, p + off, e), [ref; alt]).
Proof. intros H. unfold read_vcf_simple_row. now rewrite parse_print, H. Qed.

Lemma read_vcf_simple_rows_sorted off ls t : read_vcf_simple_rows off ls = Some t -> rows_sorted t.
Proof. unfold read_vcf_simple_rows. destruct (all_some _); cbn; intros [= <-]. apply sort_rows_sorted. Qed.

(* ------------------------------------------------------------------------ *)
(* vcfio: _get_end                                                            *)

Lemma vcfio_get_end_spec posn alt e :
  vcfio_get_end (Some e) posn alt = e /\ vcfio_get_end None posn alt = posn + slen alt.
Proof. split; reflexivity. Qed.

Lemma split_on_plain c v : forall cur,
  forallb (fun x => negb (Ascii.eqb x c)) v = true -> split_on c cur v = [rev cur ++ v].
Proof.
  induction v as [|x v IH]; intros cur H; cbn [split_on].
  - now rewrite app_nil_r.
  - cbn in H. apply andb_true_iff in H. destruct H as [Hx Hv]. apply negb_true_iff in Hx. rewrite Hx.
    rewrite IH by assumption. cbn [rev]. now rewrite <- app_assoc.
Qed.

(* one ALT allele, END not offered by pysam: [POS-1, POS-1+len(ALT)); a substitution of one
   base is [POS-1, POS) *)
Lemma conv_vcfio_line c p id ref alt rest :
  forallb (fun x => negb (Ascii.eqb x ","%char)) (chars alt) = true ->
  alt <> "."%string -> alt <> "<NON_REF>"%string ->
  read_vcfio_line None (c :: print_Z p :: id :: ref :: alt :: rest)
  = Some [((c, p + -1, p + -1 + slen alt), [ref; alt])].
Proof.
  intros Hc Hd Hn. unfold read_vcfio_line. rewrite parse_print.
  destruct (String.eqb_spec alt "."); [congruence|].
  rewrite split_on_plain by assumption. cbn [rev app map filter]. rewrite unchars_chars.
  change vcf_nonref with "<NON_REF>"%string.
  destruct (String.eqb_spec alt "<NON_REF>"); [congruence|]. cbn [negb map].
  unfold off_read_vcfio_after_pysam, vcfio_get_end.
  replace (p - 1 + 0) with (p + -1) by lia. reflexivity.
Qed.

Lemma vcfio_examples :
  read_vcfio_line None ["chr1"; "100"; "."; "A"; "G"]%string = Some [(("chr1", 99, 100), ["A"; "G"])]%string /\
  read_vcfio_line None ["chr1"; "300"; "."; "A"; "ACG,AT"]%string
  = Some [(("chr1", 299, 302), ["A"; "ACG"]); (("chr1", 299, 301), ["A"; "AT"])]%string /\
  read_vcfio_line None ["chr1"; "600"; "."; "A"; "."]%string = Some [] /\
  read_vcfio_line None ["chr1"; "800"; "."; "AC"; "A,<NON_REF>"]%string = Some [(("chr1", 799, 800), ["AC"; "A"])]%string /\
  read_vcfio_line (Some 500) ["chr1"; "400"; "."; "A"; "<DEL>"]%string = Some [(("chr1", 399, 500), ["A"; "<DEL>"])]%string.
Proof. repeat split; reflexivity. Qed.

Lemma read_vcfio_sorted ls t : read_vcfio ls = Some t -> rows_sorted t.
Proof. unfold read_vcfio. destruct (all_some _); cbn; intros [= <-]. apply sort_rows_sorted. Qed.

(* ------------------------------------------------------------------------ *)
(* Picard per-target table                                                    *)

Lemma conv_picardhs_full c s e len name gc cov norm :
  read_picardhs_full_line [c; print_Z s; print_Z e; len; name; gc; cov; norm]
  = Some ((c, s + -1, e), [name; gc; cov; norm]).
Proof. unfold read_picardhs_full_line. now rewrite !parse_print. Qed.

Lemma read_picardhs_full_sorted ls t : read_picardhs_full ls = Some t -> rows_sorted t.
Proof.
  unfold read_picardhs_full. destruct ls as [|h body]; [intros [= <-]; constructor|].
  destruct (all_some _); cbn; intros [= <-]. apply sort_rows_sorted.
Qed.

(* write_picard_hs -> read_picard_hs on the coordinate, length and name columns: the
   regions and names come back, and the length column is end - start *)
Theorem roundtrip_picardhs (hdr : line) (t : list row) :
  read_picardhs (hdr :: write_picardhs_coords t)
  = Some (sort_rows (map (fun r => (fst r, [nth 0 (snd r) EmptyString])) t)) /\
  Forall2 (fun r f => nth 3 f EmptyString = print_Z (snd (fst r) - snd (fst (fst r)))) t (write_picardhs_coords t).
Proof.
  split.
  - unfold read_picardhs, write_picardhs_coords.
    rewrite (all_some_map_map _ read_picardhs_line (fun r : row => (fst r, [nth 0 (snd r) EmptyString]))); [reflexivity|].
    intros [[[c s] e] ex] _. cbn [fst snd]. unfold read_picardhs_line. rewrite !parse_print.
    unfold off_write_picardhs, off_read_picardhs. replace (s + 1 + -1) with s by lia. reflexivity.
  - unfold write_picardhs_coords. induction t as [|[[[c s] e] ex] t IH]; cbn [map]; constructor; auto.
Qed.
