(* C20 proofs, SEG export: rows per sample under its id, 1-based starts; enumerated
   chromosome ids; the text form is the SEG writer of the format model (C08). *)
From CNV Require Import Base.Prelude Base.Str Model.Decimal Gen.ExportDefaults.
From CNV Require Import Model.Export Spec.Export Proofs.ExportLib.
From CNV Require Model.Formats Gen.Formats.

Local Open Scope Z_scope.

Lemma format_seg_spec (enumerate : bool) (first_names : list string) sid rows :
  format_seg (if enumerate then Formats.chrom_ids_aux (Formats.distinct_names [] first_names) seg_first_id else [])
             sid rows
  = map (fun s => (sid, sp_chrom_text enumerate first_names (s_chrom s), s_lo s + 1, s_hi s, s_probes s, s_v s)) rows.
Proof.
  unfold format_seg. apply map_ext. intro s. change seg_start_off with 1.
  unfold sp_chrom_text. destruct enumerate.
  - rewrite distinct_names_nil. change seg_first_id with 1.
    rewrite (lookup_chrom_ids (s_chrom s) (uniq first_names) 1 (uniq_NoDup first_names)). reflexivity.
  - reflexivity.
Qed.

Definition enumerates (arg : chrom_ids_arg) : bool :=
  match arg with IdsFalse => false | _ => true end.

Lemma write_seg_spec arg samples :
  samples <> [] -> write_seg arg samples = Some (sp_seg_rows (enumerates arg) samples).
Proof.
  destruct samples as [|[sid0 first] rest]; [congruence|]. intros _.
  unfold write_seg, sp_seg_rows. f_equal. f_equal. apply map_ext. intros [sid rows]. cbn [fst snd].
  unfold chrom_ids_of.
  rewrite <- (format_seg_spec (enumerates arg) (map s_chrom first) sid rows).
  destruct arg; reflexivity.
Qed.

(* export_seg: default and explicit False keep the names; None / True enumerate *)
Lemma export_seg_default samples :
  samples <> [] -> export_seg None samples = Some (sp_seg_rows false samples).
Proof. intro H. unfold export_seg. change seg_chrom_ids_default with false. now rewrite write_seg_spec. Qed.

Lemma export_seg_arg arg samples :
  samples <> [] -> export_seg (Some arg) samples = Some (sp_seg_rows (enumerates arg) samples).
Proof. intro H. unfold export_seg. now apply write_seg_spec. Qed.

Lemma export_seg_empty arg : export_seg arg [] = None.
Proof. reflexivity. Qed.

(* ---------------------------------------------------------------- text form = C08's writer *)

Definition seg_extras (s : seg) : list string :=
  match s_probes s with Some p => [print_Z p] | None => [] end.

(* a table row of the format model: region + printed extra fields (mean printed by `show`) *)
Definition to_format_row (show : Q -> string) (s : seg) : Formats.row :=
  ((s_chrom s, s_lo s, s_hi s), seg_extras s ++ [show (s_v s)]).

Definition seg_out_line (show : Q -> string) (r : seg_out) : Formats.line :=
  let '(sid, ch, lo, hi, p, m) := r in
  sid :: ch :: print_Z lo :: print_Z hi :: (match p with Some p => [print_Z p] | None => [] end) ++ [show m].

Lemma seg_text_is_formats_writer show sid rows :
  map (seg_out_line show) (format_seg [] sid rows) = Formats.write_seg_rows sid (map (to_format_row show) rows).
Proof.
  unfold format_seg, Formats.write_seg_rows. rewrite !map_map. apply map_ext. intro s.
  cbn [seg_out_line to_format_row Formats.seg_line fst snd Formats.lookup].
  change seg_start_off with Gen.Formats.off_write_seg. reflexivity.
Qed.
