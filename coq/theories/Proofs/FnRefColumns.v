(* C05 function-body tie of load_sample_block's gc / rmask decision (cnvlib/reference.py), translated on every run
   (Gen/FnRefColumns.v), per bin:

       if fa_fname and (fix_rmask or fix_gc):
           gc, rmask = get_fasta_stats(cnarr1, fa_fname)
           if fix_gc: ref_columns["gc"] = gc
           if fix_rmask: ref_columns["rmask"] = rmask
       elif "gc" in cnarr1 and fix_gc:
           gc = cnarr1["gc"];  ref_columns["gc"] = gc

   Model/Reference.v's block_gc / block_rmask ARE this statement on every bin: the cell of the block's gc (rmask) column
   at bin i -- None when the block has no such column -- is the first (second) result of the generated function, given
   the FASTA statistics of that bin and the gc value stored in the block's first file. *)
From CNV Require Import Base.Prelude Base.Str Base.QNum Gen.RefDefaults Model.Center Model.Sex Model.Reference Gen.FnRefColumns.
Local Open Scope Q_scope.

(* the cell of an optional column *)
Definition cell (c : option (list Q)) (i : nat) : option Q :=
  match c with Some l => Some (nth i l 0) | None => None end.

(* get_fasta_stats at bin i (not called without a FASTA) *)
Definition stat_at (fa : option (string -> list ascii)) (bins : list bin) (i : nat) : Q * Q :=
  match fa with Some seq_of => nth i (fa_stats seq_of bins) (0, 0) | None => (0, 0) end.

(* fa_fname: a non-empty name when a FASTA is given, else nothing (None and "" are both false) *)
Definition fa_name (fa : option (string -> list ascii)) (name : string) : string :=
  match fa with Some _ => name | None => ""%string end.

Definition stored_at (gc_first : option (list Q)) (i : nat) : Q :=
  match gc_first with Some l => nth i l 0 | None => 0 end.

Theorem fn_ref_columns_eq fa name fix_gc fix_rmask gc_first bins i :
  name <> ""%string ->
  let r := fn_ref_columns (fa_name fa name) fix_rmask fix_gc (fst (stat_at fa bins i)) (snd (stat_at fa bins i))
                          (is_some_col gc_first) (stored_at gc_first i) in
  cell (block_gc fa fix_gc fix_rmask gc_first bins) i = fst r /\
  cell (block_rmask fa fix_gc fix_rmask bins) i = snd r.
Proof.
  intros Hn. cbv zeta. unfold fn_ref_columns, block_gc, block_rmask, fa_name, stat_at, stored_at, is_some_col.
  destruct fa as [seq_of|].
  - assert (E : String.eqb name "" = false) by (apply String.eqb_neq; exact Hn). rewrite E. cbn [negb andb].
    destruct fix_rmask, fix_gc; cbn [orb andb fst snd cell];
      try (split; reflexivity);
      try (rewrite <- (map_nth fst (fa_stats seq_of bins) (0, 0) i));
      try (rewrite <- (map_nth snd (fa_stats seq_of bins) (0, 0) i));
      cbn [fst snd]; try (split; reflexivity).
    destruct gc_first; split; reflexivity.
  - cbn [String.eqb negb andb]. destruct fix_gc, gc_first; cbn [andb fst snd cell]; split; reflexivity.
Qed.
