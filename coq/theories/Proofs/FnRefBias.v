(* C05 function-body tie of bias_correct_logr's dispatch (cnvlib/reference.py), translated on every run
   (Gen/FnRefBias.v), tables being opaque ids (the table on entry -- centred and sex-shifted in place by the two
   statements before, checked with `ast` in the fnspec --, what each fix.center_by_window call returns at its site):

       if (cnarr["log2"] > params.NULL_LOG2_COVERAGE - params.MIN_REF_COVERAGE).sum() <= len(cnarr) // 2: <warning>
       else:
           if "gc" in ref_columns and fix_gc: cnarr = fix.center_by_window(cnarr, 0.1, ref_columns["gc"])
           if "rmask" in ref_columns and fix_rmask: cnarr = fix.center_by_window(cnarr, 0.1, ref_columns["rmask"])
           if fix_edge: cnarr = fix.center_by_window(cnarr, 0.1, ref_edge_bias)
       return cnarr["log2"]

   Model/Reference.v's sample_logr is "bias_correct_logr with the three corrections off": with the three flags false
   the table whose log2 is returned IS the centred, sex-shifted table itself (so sample_logr = shift_one over center_all
   is the whole function); the same holds, whatever the flags, for a sample most of whose bins have no coverage. *)
From CNV Require Import Base.Prelude Gen.FnRefBias.
Local Open Scope Z_scope.

Theorem fn_bias_table_off id n_cov n_rows has_gc has_rmask by_gc by_rmask by_edge :
  fn_bias_table id n_cov n_rows has_gc has_rmask false false false by_gc by_rmask by_edge = id.
Proof.
  unfold fn_bias_table. destruct (n_cov <=? n_rows / 2), has_gc, has_rmask; reflexivity.
Qed.

Theorem fn_bias_table_mostly_low id n_cov n_rows has_gc has_rmask fg fr fe by_gc by_rmask by_edge :
  n_cov <= n_rows / 2 ->
  fn_bias_table id n_cov n_rows has_gc has_rmask fg fr fe by_gc by_rmask by_edge = id.
Proof. intros H. unfold fn_bias_table. apply Z.leb_le in H. rewrite H. reflexivity. Qed.

(* otherwise the corrections run in the order gc, rmask, edge, each on the table the previous one returned: the last one
   that applies gives the table *)
Theorem fn_bias_table_corrections id n_cov n_rows has_gc has_rmask fg fr fe by_gc by_rmask by_edge :
  n_rows / 2 < n_cov ->
  fn_bias_table id n_cov n_rows has_gc has_rmask fg fr fe by_gc by_rmask by_edge =
  if fe then by_edge else if has_rmask && fr then by_rmask else if has_gc && fg then by_gc else id.
Proof.
  intros H. unfold fn_bias_table. apply Z.leb_gt in H. rewrite H.
  destruct fe, (has_rmask && fr), (has_gc && fg); reflexivity.
Qed.
