(* C06 loop tie of subtract._subtraction: ONE ITERATION of

       for keeper, rows_to_exclude in by_ranges(other, table, "outer", True):
           if len(rows_to_exclude):
               ex_starts = rows_to_exclude.start.values
               ex_ends = np.maximum.accumulate(rows_to_exclude.end.values)
               keep_left = keeper.start < ex_starts[0]
               keep_right = keeper.end > ex_ends[-1]
               if keep_left and keep_right: starts = np.r_[keeper.start, ex_ends]; ends = np.r_[ex_starts, keeper.end]
               elif keep_left:              starts = np.r_[keeper.start, ex_ends[:-1]]; ends = ex_starts
               elif keep_right:             starts = ex_ends; ends = np.r_[ex_starts[1:], keeper.end]
               elif len(rows_to_exclude) > 1: starts = ex_ends[:-1]; ends = ex_starts[1:]
               else: continue
               for start, end in zip(starts, ends):
                   if end > start: yield keeper._replace(start=start, end=end)
           else:
               yield keeper

   is regenerated from the Python source on every run as Gen/FnIvSubtract.v (fn_subtract_step: the
   (start, end) of every row the iteration yields, in order; inputs: the keeper's coordinates, the number
   of excluded rows, their starts and the running maximum of their ends).  The rows yielded are
   `keeper._replace(start=.., end=..)`: every other field is the keeper's.  Here: the generated iteration,
   given the excluded rows `ex` the way the code reads them (len, .start.values,
   np.maximum.accumulate(.end.values)), with the keeper's payload attached, IS Model/Intervals.v
   subtract_row k ex; and subtract is that, keeper by keeper. *)
From CNV Require Import Base.Prelude Model.IvRow Model.Intervals.
From CNV Require Gen.FnIvSubtract.

Local Open Scope Z_scope.

Section SubtractTie.
Context {A B : Type}.
Notation rowA := (@row A).
Notation rowB := (@row B).

(* the yielded namedtuples: the fields other than start / end are those of `keeper` *)
Definition with_keeper (p : A) (l : list (Z * Z)) : list rowA := map (fun se => (fst se, snd se, p)) l.

(* the inner loop `for start, end in zip(starts, ends): if end > start: yield ...` as generated *)
Definition src_pieces (starts ends : list Z) : list (Z * Z) :=
  flat_map (fun '(s, e) => if s <? e then [(s, e)] else []) (combine starts ends).

Lemma source_subtract_pieces (p : A) (starts ends : list Z) :
  with_keeper p (src_pieces starts ends) = zip_pieces p starts ends.
Proof.
  unfold src_pieces, zip_pieces, with_keeper.
  induction (combine starts ends) as [|[s e] t IH]; [reflexivity|].
  cbn [flat_map filter fst snd]. destruct (s <? e); cbn [app map fst snd]; rewrite IH; reflexivity.
Qed.

(* the generated iteration, spelled out *)
Lemma source_subtract_step (ks ke n : Z) (ex_starts ex_ends : list Z) :
  FnIvSubtract.fn_subtract_step ks ke n ex_starts ex_ends =
  if negb (n =? 0) then
    let keep_left := ks <? hd 0 ex_starts in
    let keep_right := last ex_ends 0 <? ke in
    if keep_left && keep_right then src_pieces (ks :: ex_ends) (ex_starts ++ [ke])
    else if keep_left then src_pieces (ks :: removelast ex_ends) ex_starts
    else if keep_right then src_pieces ex_ends (tl ex_starts ++ [ke])
    else if 1 <? n then src_pieces (removelast ex_ends) (tl ex_starts)
    else []
  else [(ks, ke)].
Proof. reflexivity. Qed.

Theorem source_subtract_row (k : rowA) (ex : list rowB) :
  with_keeper (pay k)
    (FnIvSubtract.fn_subtract_step (lo k) (hi k) (Z.of_nat (length ex)) (map lo ex) (cummax (map hi ex)))
  = subtract_row k ex.
Proof.
  rewrite source_subtract_step. destruct ex as [|x t].
  - destruct k as [[s e] p]. reflexivity.
  - replace (negb (Z.of_nat (length (x :: t)) =? 0)) with true by (cbn [length]; lia).
    unfold subtract_row. cbv zeta.
    destruct (lo k <? hd 0 (map lo (x :: t))); destruct (last (cummax (map hi (x :: t))) 0 <? hi k);
      cbn [andb]; try apply source_subtract_pieces.
    destruct (1 <? Z.of_nat (length (x :: t))); [apply source_subtract_pieces | reflexivity].
Qed.

(* the whole generator: by_ranges(other, table, "outer", True) hands every keeper the rows of `other`
   overlapping it (property C07); each iteration yields the generated pieces *)
Theorem source_subtract (a : list rowA) (b : list rowB) :
  subtract a b =
  flat_map (fun k =>
              let ex := filter (overlaps (lo k) (hi k)) b in
              with_keeper (pay k)
                (FnIvSubtract.fn_subtract_step (lo k) (hi k) (Z.of_nat (length ex)) (map lo ex) (cummax (map hi ex))))
           a.
Proof.
  unfold subtract. apply flat_map_ext. intros k. cbv zeta. symmetry. apply source_subtract_row.
Qed.

End SubtractTie.

Example source_subtract_ex :
  with_keeper tt (FnIvSubtract.fn_subtract_step 10 100 3 [5; 30; 35] [20; 50; 50])
  = [(20, 30, tt); (50, 100, tt)].
Proof. reflexivity. Qed.
