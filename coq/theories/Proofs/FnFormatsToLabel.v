(* C08 source tie of rangelabel.to_label, the WHOLE function:

       return f"{row.chromosome}:{row.start + 1}-{row.end}"

   is regenerated from the Python source on every run as Gen/FnFormatsToLabel.v (fn_to_label: the label as a function of
   the row's chromosome, start and end).  Here: it IS the model's to_label (Model/Formats.v), hence the single field of
   every line the model's write_text writes (textcoord.write_text is dframe.apply(to_label, axis=1)). *)
From CNV Require Import Base.Prelude Base.Str Model.Decimal Gen.Formats Gen.FnFormatsToLabel Model.Formats.

Lemma source_to_label (c : string) (s e : Z) : fn_to_label c s e = to_label (c, s, e).
Proof. reflexivity. Qed.

Lemma source_text_line (r : row) :
  text_line r = let '(c, s, e) := fst r in [fn_to_label c s e].
Proof.
  unfold text_line. destruct r as [[[c s] e] x]. cbn [fst].
  rewrite source_to_label. unfold to_label. change off_write_text with 0. rewrite Z.add_0_r. reflexivity.
Qed.

Lemma source_write_text (t : list row) :
  write_text t = map (fun r => let '(c, s, e) := fst r in [fn_to_label c s e]) t.
Proof. unfold write_text. apply map_ext. intro r. apply source_text_line. Qed.
