(* C14, part 6: where the contiguity precondition comes from and what happens
   without it; the filters never add rows, drop the segmetrics columns, keep
   chromosomes contiguous; applying the cn filter twice is applying it once
   (ampdel: refuted). *)
From Coq Require Import QArith.Qabs.
From CNV Require Import Base.Prelude Base.Str Gen.SegfilterDefaults Model.Segfilters Spec.Segfilters.
From CNV Require Model.Chromsort Proofs.ChromsortLemmas Base.QNum Proofs.QNumLemmas.
From CNV Require Import Proofs.SegfiltersRuns Proofs.SegfiltersKeys Proofs.SegfiltersConserve Proofs.SegfiltersLib.
From Coq Require Import Lqa.

(* --------------------------------------- sorted as GenomicArray.sort => contiguous *)

Lemma region_leb_ckey a b :
  Chromsort.region_leb seg_region a b = true ->
  Chromsort.ckey_leb (Chromsort.chrom_key (chrom a)) (Chromsort.chrom_key (chrom b)) = true.
Proof.
  unfold Chromsort.region_leb, seg_region, Chromsort.rkey_of. intros H.
  apply ChromsortLemmas.rkey_leb_spec in H. destruct H as [H|[H _]].
  - apply ChromsortLemmas.ckey_ltb_leb. exact H.
  - rewrite H. apply ChromsortLemmas.ckey_leb_refl.
Qed.

Theorem sorted_contig (t : list seg) :
  genome_sorted t -> names_separable t -> Contig (map chrom t).
Proof.
  induction t as [|s t IH]; intros S N; [constructor|].
  inversion S as [|? ? St Hs]; subst. cbn [map]. constructor.
  - apply IH; [exact St|]. intros a b Ha Hb. apply N; right; assumption.
  - destruct t as [|s1 t']; [right; cbn; tauto|].
    destruct (String.eqb (chrom s) (chrom s1)) eqn:E.
    + apply String.eqb_eq in E. left. cbn. rewrite E. reflexivity.
    + right. intros I. apply in_map_iff in I as (s2 & E2 & I2).
      assert (Ne : chrom s <> chrom s1) by (intros C; rewrite C, String.eqb_refl in E; discriminate).
      destruct I2 as [->|I2]; [congruence|].
      rewrite Forall_forall in Hs.
      pose proof (region_leb_ckey s s1 (Hs s1 (or_introl eq_refl))) as L1.
      inversion St as [|? ? _ Hs1]; subst. rewrite Forall_forall in Hs1.
      pose proof (region_leb_ckey s1 s2 (Hs1 s2 I2)) as L2.
      rewrite E2 in L2.
      apply Ne. apply N; [left; reflexivity|right; left; reflexivity|].
      apply ChromsortLemmas.ckey_leb_antisym; assumption.
Qed.

(* what GenomicArray.sort returns is sorted; a table it leaves unchanged is sorted *)
Theorem sort_gives_contig (t : list seg) :
  names_separable t -> Contig (map chrom (Chromsort.sort_regions seg_region t)).
Proof.
  intros N. apply sorted_contig.
  - apply (ChromsortLemmas.sort_regions_sorted seg_region t).
  - intros a b Ha Hb. apply N; apply (ChromsortLemmas.sort_regions_In seg_region); assumption.
Qed.

(* ------------------------------------------------ without contiguity: a witness *)

Definition plain_row (c : string) (a b : Z) (g : string) (l2 : Q) (p : Z) (n : Q) : seg :=
  mkSeg c a b g l2 p 1 None None n None None None None None None.

Definition interleaved_witness : list seg :=
  [ plain_row "chr1" 0 50 "a" 0 1 2; plain_row "chr2" 0 60 "b" 1 2 3; plain_row "chr1" 100 150 "c" 2 4 2 ].

(* rows of different chromosomes and different copy number end up in one output row *)
Theorem interleaved_merges :
  exists t a b o,
    ~ Contig (map chrom t) /\ In a t /\ In b t /\ chrom a <> chrom b /\ ~ (cn a == cn b)%Q /\
    In o (apply_filter Fcn t) /\
    chrom o = chrom a /\ lo o = lo a /\ hi o = hi b /\ probes o = probes a + probes b.
Proof.
  exists interleaved_witness.
  exists (plain_row "chr2" 0 60 "b" 1 2 3), (plain_row "chr1" 100 150 "c" 2 4 2).
  eexists. split; [|split; [|split; [|split; [|split; [|split]]]]].
  - intros C. inversion C as [|? ? _ H]; subst. destruct H as [H|H]; [discriminate|].
    apply H. cbn. right. left. reflexivity.
  - right. left. reflexivity.
  - right. right. left. reflexivity.
  - cbn. discriminate.
  - cbn. intros H. discriminate H.
  - vm_compute. right. left. reflexivity.
  - vm_compute. repeat split; reflexivity.
Qed.

(* ------------------------------------------------------ the row count never grows *)

Lemma length_remove_group {A} k (gs : list (key * list A)) : (length (remove_group k gs) <= length gs)%nat.
Proof.
  induction gs as [|[k' g] gs IH]; cbn [remove_group length]; [lia|].
  destruct (key_eqb k k'); cbn [length]; lia.
Qed.

Lemma length_group_by_key {A} (l : list (key * A)) : (length (group_by_key l) <= length l)%nat.
Proof.
  induction l as [|[k a] t IH]; cbn [group_by_key length]; [lia|].
  pose proof (length_remove_group k (group_by_key t)). lia.
Qed.

Lemma length_squash_by_groups levels t : (length (squash_by_groups levels t) <= length t)%nat.
Proof.
  unfold squash_by_groups. rewrite map_length.
  eapply Nat.le_trans; [apply length_group_by_key|]. rewrite combine_length. lia.
Qed.

Lemma length_filter_le {A} (p : A -> bool) l : (length (filter p l) <= length l)%nat.
Proof. induction l as [|x t IH]; cbn [filter length]; [lia|]. destruct (p x); cbn [length]; lia. Qed.

Theorem filter_rows_le (f : filt) (t : list seg) : (length (apply_filter f t) <= length t)%nat.
Proof.
  assert (H : (length (squashed f t) <= length t)%nat) by apply length_squash_by_groups.
  destruct f; cbn [apply_filter]; try exact H.
  eapply Nat.le_trans; [apply length_filter_le|exact H].
Qed.

Lemma apply_seq_rows_le fs : forall t, (length (apply_seq fs t) <= length t)%nat.
Proof.
  unfold apply_seq. induction fs as [|f fs IH]; intros t; cbn [fold_left]; [lia|].
  eapply Nat.le_trans; [apply IH|apply filter_rows_le].
Qed.

(* ------------------------------------------------ the segmetrics columns are consumed *)

Lemma squash_region_drops r : ci_lo (squash_region r) = None /\ ci_hi (squash_region r) = None /\ sem (squash_region r) = None.
Proof. destruct r; repeat split. Qed.

Theorem filter_consumes (f : filt) (t : list seg) (s : seg) :
  In s (apply_filter f t) -> ci_lo s = None /\ ci_hi s = None /\ sem s = None.
Proof.
  intros H.
  assert (I : In s (squashed f t)).
  { destruct f; cbn [apply_filter] in H; try exact H. apply filter_In in H. tauto. }
  unfold squashed, squash_by_groups in I. apply in_map_iff in I as (kg & <- & _).
  apply squash_region_drops.
Qed.

(* the level every output row gets from ci / sem afterwards is 0: those two
   filters cannot act a second time (the code refuses: the columns are gone) *)
Corollary filter_consumes_levels (f : filt) (t : list seg) (s : seg) :
  In s (apply_filter f t) -> spec_level Fci s = 0%Q /\ spec_level Fsem s = 0%Q.
Proof.
  intros H. destruct (filter_consumes f t s H) as (A & B & C).
  cbn [spec_level]. rewrite A, B, C. split; reflexivity.
Qed.

(* -------------------------------------------- chromosomes stay contiguous *)

Lemma chrom_squash r : r <> [] -> chrom (squash_region r) = hd EmptyString (map chrom r).
Proof. destruct r as [|s0 r']; [intros H; contradiction H; reflexivity|]. reflexivity. Qed.

Lemma chroms_of_runs (rs : list (list seg)) :
  Forall (fun r => r <> []) rs ->
  Subseq (map chrom (map squash_region rs)) (map chrom (concat rs)).
Proof.
  intros NE. rewrite concat_map.
  replace (map chrom (map squash_region rs)) with (map (fun r => hd EmptyString r) (map (map chrom) rs)).
  - apply subseq_heads. rewrite Forall_map. eapply Forall_impl; [|exact NE].
    intros r Hr E. apply Hr. destruct r; [reflexivity|discriminate].
  - rewrite !map_map. apply map_ext_in. intros r Hr. symmetry. apply chrom_squash.
    rewrite Forall_forall in NE. apply NE, Hr.
Qed.

Theorem filter_keeps_contig (f : filt) (t : list seg) :
  Contig (map chrom t) -> Contig (map chrom (apply_filter f t)).
Proof.
  intros C.
  assert (S : Subseq (map chrom (squashed f t)) (map chrom t)).
  { rewrite (squashed_runs f t C). destruct (level_runs_max f t) as (Ec & NE & _ & _).
    rewrite <- Ec at 2. apply chroms_of_runs. exact NE. }
  apply (subseq_contig _ (map chrom t)); [|exact C].
  destruct f; cbn [apply_filter]; try exact S.
  eapply subseq_trans; [|exact S]. apply subseq_map. apply subseq_filter.
Qed.

(* ------------------------------------------------------------ idempotence of cn *)

Lemma runs_by_singletons {A} (same : A -> A -> bool) (l : list A) :
  AdjForall (fun a b => same a b = false) l -> runs_by same l = map (fun x => [x]) l.
Proof.
  induction 1 as [|a|a b t Hab Ht IH]; [reflexivity|reflexivity|].
  cbn [runs_by map] in *. rewrite IH. cbn [cons_run]. rewrite Hab. reflexivity.
Qed.

Lemma adj_of_splits {A} (R : A -> A -> Prop) (l : list A) :
  (forall pre x y post, l = pre ++ x :: y :: post -> R x y) -> AdjForall R l.
Proof.
  induction l as [|a [|b t] IH]; intros H; constructor.
  - apply (H [] a b t). reflexivity.
  - apply IH. intros pre x y post E. apply (H (a :: pre) x y post). rewrite E. reflexivity.
Qed.

Lemma adj_map {A B} (g : A -> B) (R : B -> B -> Prop) (l : list A) :
  AdjForall (fun x y => R (g x) (g y)) l -> AdjForall R (map g l).
Proof. induction 1; cbn [map]; constructor; assumption. Qed.

Lemma last_opt_in {A} (l : list A) x : last_opt l = Some x -> In x l.
Proof.
  induction l as [|a t IH]; [discriminate|]. destruct t as [|b t'].
  - cbn. intros E. injection E as ->. left. reflexivity.
  - intros E. right. apply IH. exact E.
Qed.

Lemma hd_opt_in {A} (l : list A) x : hd_opt l = Some x -> In x l.
Proof. destruct l; cbn; [discriminate|]. intros E. injection E as ->. left. reflexivity. Qed.

Lemma nonempty_last {A} (l : list A) : l <> [] -> exists x, last_opt l = Some x.
Proof.
  induction l as [|a t IH]; [intros H; contradiction H; reflexivity|]. intros _.
  destruct t as [|b t']; [exists a; reflexivity|]. destruct IH as (x & E); [discriminate|]. exists x. exact E.
Qed.

Definition cn2_normal (x : seg) : Prop :=
  cn2 x = match cn1 x with Some c1 => Some (Qred (cn x - c1)) | None => None end.

Lemma squash_cn2_normal r : r <> [] -> cn2_normal (squash_region r).
Proof. destruct r; [intros H; contradiction H; reflexivity|]. reflexivity. Qed.

Lemma oq_eqb_iff a b : oq_eqb a b = true <-> oq_equiv a b.
Proof.
  destruct a, b; cbn.
  - apply Qeq_bool_iff.
  - split; [discriminate|contradiction].
  - split; [discriminate|contradiction].
  - split; intros _; [exact I|reflexivity].
Qed.

(* two neighbouring runs of the cn filter give rows that differ *)
Lemma cn_outputs_differ (t : list seg) r1 r2 x y :
  alleles_consistent t ->
  In r1 (level_runs Fcn t) -> In r2 (level_runs Fcn t) ->
  last_opt r1 = Some x -> hd_opt r2 = Some y -> same_full Fcn x y = false ->
  same_full Fcn (squash_region r1) (squash_region r2) = false.
Proof.
  intros AC H1 H2 Lx Hy NS.
  destruct (level_runs_max Fcn t) as (Ec & NE & Alike & _).
  rewrite Forall_forall in NE, Alike.
  pose proof (last_opt_in _ _ Lx) as Ix. pose proof (hd_opt_in _ _ Hy) as Iy.
  destruct (cn_common t r1 x H1 Ix) as (C1 & D1). destruct (cn_common t r2 y H2 Iy) as (C2 & D2).
  assert (K1 : chrom (squash_region r1) = chrom x).
  { destruct r1 as [|s0 r']; [contradiction|]. cbn [squash_region chrom].
    apply (same_full_chrom Fcn). apply (Alike _ H1); [left; reflexivity|exact Ix]. }
  assert (K2 : chrom (squash_region r2) = chrom y).
  { destruct r2 as [|s0 r']; [contradiction|]. cbn [squash_region chrom].
    apply (same_full_chrom Fcn). apply (Alike _ H2); [left; reflexivity|exact Iy]. }
  pose proof (squash_cn2_normal r1 (NE _ H1)) as N1. pose proof (squash_cn2_normal r2 (NE _ H2)) as N2.
  destruct (same_full Fcn (squash_region r1) (squash_region r2)) eqn:S; [|reflexivity].
  exfalso. unfold same_full, same_plain in S. cbn [spec_level] in S.
  rewrite !andb_true_iff in S. destruct S as (((Sc & Sn) & S1) & S2).
  apply String.eqb_eq in Sc. apply Qeq_bool_iff in Sn.
  assert (X1 : oq_eqb (cn1 x) (cn1 y) = true).
  { apply oq_eqb_trans with (cn1 (squash_region r1)); [apply oq_eqb_sym, D1|].
    apply oq_eqb_trans with (cn1 (squash_region r2)); [exact S1|exact D2]. }
  assert (Xn : (cn x == cn y)%Q) by (rewrite <- C1, <- C2; exact Sn).
  (* the members' cn2 follow from cn and cn1 *)
  assert (In x t) as Tx by (rewrite <- Ec; apply in_concat; exists r1; split; assumption).
  assert (In y t) as Ty by (rewrite <- Ec; apply in_concat; exists r2; split; assumption).
  unfold alleles_consistent in AC. rewrite Forall_forall in AC.
  pose proof (AC x Tx) as Ax. pose proof (AC y Ty) as Ay. cbv beta in Ax, Ay.
  assert (X2 : oq_eqb (cn2 x) (cn2 y) = true).
  { destruct (cn1 x) as [a|], (cn1 y) as [b|]; cbn in X1; try discriminate.
    - destruct (cn2 x) as [a2|], (cn2 y) as [b2|]; try contradiction.
      cbn. apply Qeq_bool_iff. apply Qeq_bool_iff in X1. rewrite Ax, Ay, Xn, X1. reflexivity.
    - destruct (cn2 x), (cn2 y); try contradiction. reflexivity. }
  unfold same_full, same_plain in NS. cbn [spec_level] in NS.
  assert (Ec' : String.eqb (chrom x) (chrom y) = true) by (apply String.eqb_eq; congruence).
  assert (En' : Qeq_bool (cn x) (cn y) = true) by (apply Qeq_bool_iff; exact Xn).
  rewrite Ec', En', X1, X2 in NS. discriminate.
Qed.

Lemma median_single c : median [c] = c.
Proof. reflexivity. Qed.

(* squashing a single normal row gives the row back, up to == *)
Lemma squash_single x :
  cn2_normal x -> ci_lo x = None -> ci_hi x = None -> sem x = None ->
  seg_eqv (squash_region [x]) x.
Proof.
  intros N A B C. unfold seg_eqv.
  cbn [squash_region chrom lo hi gene log2 probes weight depth baf cn cn1 cn2 pbt ci_lo ci_hi sem map last].
  assert (Wt : (sumQ [weight x] == weight x)%Q) by (cbn [sumQ]; rewrite Qred_correct; ring).
  assert (Opt : forall o : option Q, oq_equiv (wmean_opt [weight x] [o]) o).
  { intros o. unfold wmean_opt. destruct (Qltb region_weight_min (sumQ [weight x])) eqn:W.
    - destruct o as [d|]; cbn [all_some oq_equiv]; [|exact I].
      unfold wmean. rewrite W, Qred_correct. cbn [dotQ sumQ]. rewrite !Qred_correct.
      apply Qltb_lt in W. change region_weight_min with 0%Q in W. rewrite Wt in W.
      field. intros Z. rewrite Z in W. apply (Qlt_irrefl 0). exact W.
    - destruct o as [d|]; cbn [filter_some oq_equiv]; [|exact I].
      rewrite Qred_correct. cbn [sumQ]. rewrite Qred_correct. unfold Qlen. cbn. field. }
  split; [reflexivity|]. split; [reflexivity|]. split; [reflexivity|].
  split. { unfold join_genes. cbn [uniq_str filter String.concat]. reflexivity. }
  split.
  { unfold wmean. destruct (Qltb region_weight_min (sumQ [weight x])) eqn:W.
    + rewrite Qred_correct. cbn [dotQ sumQ]. rewrite !Qred_correct.
      apply Qltb_lt in W. change region_weight_min with 0%Q in W. rewrite Wt in W.
      field. intros Z. rewrite Z in W. apply (Qlt_irrefl 0). exact W.
    + rewrite Qred_correct. cbn [sumQ]. rewrite Qred_correct. unfold Qlen. cbn. field. }
  split. { cbn [sumZ]. lia. }
  split. { exact Wt. }
  split. { apply Opt. }
  split. { apply Opt. }
  assert (E0 : (if Qltb region_weight_min (sumQ [weight x]) then wmedian [cn x] [weight x] else median [cn x]) = cn x).
  { destruct (Qltb _ _); [reflexivity|apply median_single]. }
  assert (E1 : (if Qltb region_weight_min (sumQ [weight x]) then wmedian_opt [cn1 x] [weight x] else median_opt [cn1 x]) = cn1 x).
  { destruct (Qltb _ _).
    - unfold wmedian_opt. destruct (cn1 x); reflexivity.
    - unfold median_opt. destruct (cn1 x); cbn [all_some]; [rewrite median_single|]; reflexivity. }
  rewrite E0, E1.
  split. { reflexivity. }
  split. { destruct (cn1 x); cbn; [reflexivity|exact I]. }
  split. { rewrite N. destruct (cn1 x); cbn; [reflexivity|exact I]. }
  split. { destruct (pbt x); cbn; [reflexivity|exact I]. }
  rewrite A, B, C. repeat split.
Qed.

Theorem cn_idempotent (t : list seg) :
  Contig (map chrom t) -> alleles_consistent t ->
  table_eqv (apply_filter Fcn (apply_filter Fcn t)) (apply_filter Fcn t).
Proof.
  intros C AC.
  pose proof (filter_keeps_contig Fcn t C) as C1.
  cbn [apply_filter] in *. rewrite (squashed_runs Fcn _ C1).
  rewrite (squashed_runs Fcn t C) at 1.
  destruct (level_runs_max Fcn t) as (Ec & NE & Alike & Max).
  (* neighbouring output rows are not alike, so the second pass cuts into singletons *)
  assert (Adj : AdjForall (fun a b => same_full Fcn a b = false) (map squash_region (level_runs Fcn t))).
  { apply adj_map. apply adj_of_splits. intros pre r1 r2 post E.
    assert (I1 : In r1 (level_runs Fcn t)) by (rewrite E; apply in_or_app; right; left; reflexivity).
    assert (I2 : In r2 (level_runs Fcn t)) by (rewrite E; apply in_or_app; right; right; left; reflexivity).
    rewrite Forall_forall in NE.
    destruct (nonempty_last r1 (NE _ I1)) as (x & Lx).
    destruct r2 as [|y r2'] eqn:E2; [exfalso; apply (NE _ I2); reflexivity|]. rewrite <- E2 in *.
    assert (Hy : hd_opt r2 = Some y) by (rewrite E2; reflexivity).
    apply (cn_outputs_differ t r1 r2 x y AC I1 I2 Lx Hy).
    apply (Max pre r1 r2 post x y E Lx Hy). }
  unfold level_runs at 1. rewrite (runs_by_singletons _ _ Adj).
  rewrite (squashed_runs Fcn t C). rewrite map_map.
  unfold table_eqv. rewrite Forall_forall in NE.
  assert (G : forall rs, (forall r, In r rs -> r <> []) ->
              Forall2 seg_eqv (map (fun x => squash_region [x]) (map squash_region rs)) (map squash_region rs)).
  { induction rs as [|r rs IH]; intros H; cbn [map]; constructor.
    - apply squash_single; [apply squash_cn2_normal, H; left; reflexivity| | |];
        apply (squash_region_drops r).
    - apply IH. intros r' Hr'. apply H. right. exact Hr'. }
  apply G. exact NE.
Qed.

(* ... but not when cn2 is not cn - cn1: two rows that differ only in cn2 are
   kept apart by the first pass, which rewrites cn2, and merged by the second *)
Definition cn2_witness : list seg :=
  [ mkSeg "chr1" 0 10 "a" 0 1 1 None None 2 (Some 1%Q) (Some 1%Q) None None None None;
    mkSeg "chr1" 10 20 "b" 0 1 1 None None 2 (Some 1%Q) (Some 0%Q) None None None None ].

Theorem cn_idempotent_inconsistent_refuted :
  exists t, Contig (map chrom t) /\ ~ alleles_consistent t /\
    length (apply_filter Fcn t) = 2%nat /\ length (apply_filter Fcn (apply_filter Fcn t)) = 1%nat.
Proof.
  exists cn2_witness. split; [|split; [|split]].
  - cbn. repeat (constructor; [|first [left; reflexivity|right; cbn; tauto]]). constructor.
  - intros AC. unfold alleles_consistent in AC. inversion AC as [|? ? _ AC']; subst.
    inversion AC' as [|? ? H _]; subst. cbn in H. discriminate H.
  - vm_compute. reflexivity.
  - vm_compute. reflexivity.
Qed.

(* ampdel is not idempotent: dropping the neutral run between two amplified runs
   makes them neighbours, and a second pass merges them *)
Definition ampdel_twice_witness : list seg :=
  [ plain_row "chr1" 0 10 "a" 2 1 5; plain_row "chr1" 10 20 "b" 0 1 2; plain_row "chr1" 20 30 "c" 2 1 6 ].

Theorem ampdel_idempotent_refuted :
  exists t, Contig (map chrom t) /\ alleles_consistent t /\
    length (apply_filter Fampdel t) = 2%nat /\
    length (apply_filter Fampdel (apply_filter Fampdel t)) = 1%nat.
Proof.
  exists ampdel_twice_witness. split; [|split; [|split]].
  - cbn. repeat (constructor; [|first [left; reflexivity|right; cbn; tauto]]). constructor.
  - repeat constructor.
  - vm_compute. reflexivity.
  - vm_compute. reflexivity.
Qed.
