(* C11: the HaarConv running-sum recurrence equals the mirrored window-sum closed
   form (unweighted and weighted); lengths; constant signals. *)
From Coq Require Import QArith.Qabs.
From CNV Require Import Base.Prelude Model.Haar Spec.Haar.
From Coq Require Import Lqa.

Local Open Scope Q_scope.

(* ---------- window sums ---------- *)

Lemma wsum_ext f g a len :
  (forall j, (a <= j < a + Z.of_nat len)%Z -> f j == g j) -> wsum f a len == wsum g a len.
Proof.
  revert a; induction len as [|m IH]; intros a H; cbn [wsum]; [reflexivity|].
  rewrite (H a) by lia. rewrite (IH (a + 1)%Z); [reflexivity|].
  intros j Hj; apply H; lia.
Qed.

Lemma wsum_snoc f a m : wsum f a (S m) == wsum f a m + f (a + Z.of_nat m)%Z.
Proof.
  revert a; induction m as [|m IH]; intros a.
  - cbn. rewrite Z.add_0_r. ring.
  - change (wsum f a (S (S m))) with (f a + wsum f (a + 1)%Z (S m)).
    rewrite IH. cbn [wsum].
    replace (a + 1 + Z.of_nat m)%Z with (a + Z.of_nat (S m))%Z by lia. ring.
Qed.

Lemma wsum_slide f a len :
  wsum f (a + 1)%Z len == wsum f a len + f (a + Z.of_nat len)%Z - f a.
Proof.
  destruct len as [|m].
  - cbn. rewrite Z.add_0_r. ring.
  - rewrite wsum_snoc. cbn [wsum].
    replace (a + 1 + Z.of_nat m)%Z with (a + Z.of_nat (S m))%Z by lia. ring.
Qed.

Lemma wsum_slide' f a b len :
  b = (a + 1)%Z -> wsum f b len == wsum f a len + f (a + Z.of_nat len)%Z - f a.
Proof. intros ->. apply wsum_slide. Qed.

Lemma wsum_reflect f h :
  wsum (fun j => f (- j - 1)%Z) (- Z.of_nat h)%Z h == wsum f 0%Z h.
Proof.
  induction h as [|h IH]; [reflexivity|].
  rewrite (wsum_snoc f). cbn [wsum].
  replace (- Z.of_nat (S h) + 1)%Z with (- Z.of_nat h)%Z by lia. rewrite IH.
  replace (- - Z.of_nat (S h) - 1)%Z with (0 + Z.of_nat h)%Z by lia. ring.
Qed.

Lemma wsum_shift f a m : wsum f (a + 1)%Z m == wsum (fun j => f (j + 1)%Z) a m.
Proof.
  revert a; induction m as [|m IH]; intros a; cbn [wsum]; [reflexivity|].
  rewrite IH. reflexivity.
Qed.

Lemma wsum_const f a len c :
  (forall j, (a <= j < a + Z.of_nat len)%Z -> f j == c) ->
  wsum f a len == inject_Z (Z.of_nat len) * c.
Proof.
  revert a; induction len as [|m IH]; intros a H.
  - cbn. ring.
  - cbn [wsum]. rewrite (H a) by lia. rewrite (IH (a + 1)%Z) by (intros j Hj; apply H; lia).
    rewrite Nat2Z.inj_succ. unfold Z.succ. rewrite inject_Z_plus. ring.
Qed.

Lemma wsum_scale f a len c : wsum (fun j => c * f j) a len == c * wsum f a len.
Proof.
  revert a; induction len as [|m IH]; intros a; cbn [wsum]; [ring|].
  rewrite IH. ring.
Qed.

Lemma wsum_nonneg f a len :
  (forall j, (a <= j < a + Z.of_nat len)%Z -> 0 <= f j) -> 0 <= wsum f a len.
Proof.
  revert a; induction len as [|m IH]; intros a H; cbn [wsum]; [lra|].
  assert (0 <= f a) by (apply H; lia).
  assert (0 <= wsum f (a + 1)%Z m) by (apply IH; intros j Hj; apply H; lia).
  lra.
Qed.

Lemma wsum_pos f a len :
  (0 < len)%nat -> (forall j, (a <= j < a + Z.of_nat len)%Z -> 0 < f j) -> 0 < wsum f a len.
Proof.
  intros Hl H. destruct len as [|m]; [lia|]. cbn [wsum].
  assert (0 < f a) by (apply H; lia).
  assert (0 <= wsum f (a + 1)%Z m).
  { apply wsum_nonneg. intros j Hj. apply Qlt_le_weak, H. lia. }
  lra.
Qed.

(* ---------- lists ---------- *)

Lemma qsum_firstn_wsum l m :
  (m <= length l)%nat -> qsum (firstn m l) == wsum (fun j => nth (Z.to_nat j) l 0) 0%Z m.
Proof.
  revert m; induction l as [|x t IH]; intros m Hm.
  - destruct m; [reflexivity|cbn in Hm; lia].
  - destruct m as [|m]; [reflexivity|].
    cbn [firstn qsum wsum]. rewrite Qred_correct. rewrite (IH m) by (cbn in Hm; lia).
    change (Z.to_nat 0) with 0%nat. cbn [nth].
    rewrite (wsum_shift (fun j => nth (Z.to_nat j) (x :: t) 0) 0%Z m).
    apply Qplus_comp; [reflexivity|].
    apply wsum_ext. intros j Hj.
    replace (Z.to_nat (j + 1)) with (S (Z.to_nat j)) by lia. reflexivity.
Qed.

Lemma nth_map_default {A B} (f : A -> B) l i d d' :
  (i < length l)%nat -> nth i (map f l) d' = f (nth i l d).
Proof.
  revert i; induction l as [|x t IH]; intros i Hi; [cbn in Hi; lia|].
  destruct i; cbn [map nth]; [reflexivity|]. apply IH. cbn in Hi. lia.
Qed.

Lemma nth_qmul2 a b j : nth j (qmul2 a b) 0 == nth j a 0 * nth j b 0.
Proof.
  revert b j; induction a as [|x ta IH]; intros b j.
  - destruct j; cbn; ring.
  - destruct b as [|y tb].
    + destruct j; cbn; ring.
    + destruct j as [|j]; cbn [qmul2 nth]; [apply Qred_correct|apply IH].
Qed.

Lemma qmul2_length a b : length a = length b -> length (qmul2 a b) = length a.
Proof.
  revert b; induction a as [|x ta IH]; intros [|y tb] H; cbn in *; try lia.
  f_equal. apply IH. lia.
Qed.

Lemma mirror_id n j : (0 <= j < n)%Z -> mirror n j = j.
Proof. intros H. unfold mirror. destruct (j <? 0)%Z eqn:E1; [lia|]. destruct (n <=? j)%Z eqn:E2; lia. Qed.

Lemma mirror_neg n j : (j < 0)%Z -> mirror n j = (- j - 1)%Z.
Proof. intros H. unfold mirror. destruct (j <? 0)%Z eqn:E1; lia. Qed.

Lemma mirror_hi_eq n i : (0 <= i)%Z -> mirror_hi n i = mirror n i.
Proof.
  intros H. unfold mirror_hi, mirror. destruct (i <? 0)%Z eqn:E1; [lia|].
  destruct (n <=? i)%Z; lia.
Qed.

Lemma mirror_lo_eq n i : (i < n)%Z -> mirror_lo i = mirror n i.
Proof.
  intros H. unfold mirror_lo, mirror. destruct (i <? 0)%Z eqn:E1; [reflexivity|].
  destruct (n <=? i)%Z eqn:E2; lia.
Qed.

Lemma mirror_range n h k j :
  (1 <= h <= n)%Z -> (0 <= k < n)%Z -> (k - h <= j < k + h)%Z -> (0 <= mirror n j < n)%Z.
Proof.
  intros Hh Hk Hj. unfold mirror. destruct (j <? 0)%Z eqn:E1; [lia|]. destruct (n <=? j)%Z eqn:E2; lia.
Qed.

Lemma padded_in l j : (0 <= j < Z.of_nat (length l))%Z -> padded l j = qnth l j.
Proof. intros H. unfold padded, qnth. rewrite mirror_id by exact H. reflexivity. Qed.

(* ---------- the recurrence step, as pure window algebra ---------- *)

Lemma window_step g (h : nat) k :
  wsum g k h - wsum g (k - Z.of_nat h)%Z h ==
  (wsum g (k - 1)%Z h - wsum g (k - 1 - Z.of_nat h)%Z h)
  + g (k + Z.of_nat h - 1)%Z + g (k - Z.of_nat h - 1)%Z - 2 * g (k - 1)%Z.
Proof.
  replace k with (k - 1 + 1)%Z at 1 by lia.
  replace (k - Z.of_nat h)%Z with (k - 1 - Z.of_nat h + 1)%Z at 1 by lia.
  rewrite !wsum_slide.
  replace (k - 1 + Z.of_nat h)%Z with (k + Z.of_nat h - 1)%Z by lia.
  replace (k - 1 - Z.of_nat h + Z.of_nat h)%Z with (k - 1)%Z by lia.
  replace (k - 1 - Z.of_nat h)%Z with (k - Z.of_nat h - 1)%Z by lia.
  ring.
Qed.

Lemma window_zero g (h : nat) (f : Z -> Q) :
  (forall j, (0 <= j < Z.of_nat h)%Z -> g j == f j) ->
  (forall j, (- Z.of_nat h <= j < 0)%Z -> g j == f (- j - 1)%Z) ->
  wsum g 0%Z h - wsum g (0 - Z.of_nat h)%Z h == 0.
Proof.
  intros H1 H2.
  rewrite (wsum_ext g f 0%Z h) by (intros j Hj; apply H1; lia).
  rewrite (wsum_ext g (fun j => f (- j - 1)%Z) (0 - Z.of_nat h)%Z h) by (intros j Hj; apply H2; lia).
  replace (0 - Z.of_nat h)%Z with (- Z.of_nat h)%Z by lia.
  rewrite wsum_reflect. ring.
Qed.

(* ---------- unweighted ---------- *)

Lemma conv_u_loop_length sg n h rest k prev : length (conv_u_loop sg n h rest k prev) = length rest.
Proof. revert k prev; induction rest as [|x t IH]; intros k prev; cbn; [reflexivity|]. f_equal. apply IH. Qed.

Lemma conv_u_loop_spec sg h :
  let n := Z.of_nat (length sg) in
  (0 <= h)%Z ->
  forall rest k prev, (1 <= k)%Z -> (k + Z.of_nat (length rest) <= n)%Z ->
    prev == haar_window sg h (k - 1) ->
    forall i, (i < length rest)%nat ->
      nth i (conv_u_loop sg n h rest k prev) 0 == haar_window sg h (k + Z.of_nat i).
Proof.
  intros n Hh rest. induction rest as [|x t IH]; intros k prev Hk Hn Hprev i Hi; [cbn in Hi; lia|].
  cbn [conv_u_loop].
  set (cur := Qred _).
  assert (Hcur : cur == haar_window sg h k).
  { unfold cur. rewrite Qred_correct, Hprev. unfold haar_window.
    pose proof (window_step (padded sg) (Z.to_nat h) k) as W.
    rewrite !Z2Nat.id in W by lia. rewrite W.
    cbn [length] in Hn.
    assert (E1 : padded sg (k + h - 1) = qnth sg (mirror_hi n (k + h - 1))).
    { unfold padded, qnth. fold n. rewrite (mirror_hi_eq n) by lia. reflexivity. }
    assert (E2 : padded sg (k - h - 1) = qnth sg (mirror_lo (k - h - 1))).
    { unfold padded, qnth. fold n. rewrite (mirror_lo_eq n) by lia. reflexivity. }
    assert (E3 : padded sg (k - 1) = qnth sg (k - 1)).
    { apply padded_in. fold n. lia. }
    rewrite E1, E2, E3. ring. }
  destruct i as [|i]; cbn [nth].
  - rewrite Z.add_0_r. exact Hcur.
  - cbn [length] in Hn, Hi.
    rewrite (IH (k + 1)%Z cur) by (try lia; replace (k + 1 - 1)%Z with k by lia; exact Hcur).
    replace (k + 1 + Z.of_nat i)%Z with (k + Z.of_nat (S i))%Z by lia. reflexivity.
Qed.

Lemma haar_window_0 sg h :
  (0 <= h <= Z.of_nat (length sg))%Z -> haar_window sg h 0 == 0.
Proof.
  intros Hh. unfold haar_window.
  pose proof (window_zero (padded sg) (Z.to_nat h) (fun j => nth (Z.to_nat j) sg 0)) as W.
  rewrite Z2Nat.id in W by lia. apply W.
  - intros j Hj. unfold padded. rewrite mirror_id by lia. reflexivity.
  - intros j Hj. unfold padded. rewrite mirror_neg by lia. reflexivity.
Qed.

Lemma conv_w_loop_length sg wt n h scale rest k a b c d :
  length (conv_w_loop sg wt n h scale rest k a b c d) = length rest.
Proof.
  revert k a b c d; induction rest as [|x t IH]; intros k a b c d; cbn [conv_w_loop length]; [reflexivity|].
  f_equal. apply IH.
Qed.

Lemma haar_conv_length sg wt h scale : length (haar_conv sg wt h scale) = length sg.
Proof.
  unfold haar_conv. destruct (Zlength_nat sg <? h)%Z; [apply map_length|].
  destruct sg as [|x rest]; [reflexivity|]. destruct wt as [w|]; cbn [length]; f_equal.
  - apply conv_w_loop_length.
  - rewrite map_length. apply conv_u_loop_length.
Qed.

Lemma haar_conv_u_closed sg h scale k :
  (1 <= h <= Z.of_nat (length sg))%Z -> (0 <= k < Z.of_nat (length sg))%Z ->
  qnth (haar_conv sg None h scale) k == haar_window sg h k / scale.
Proof.
  intros Hh Hk. unfold haar_conv, Zlength_nat.
  destruct (Z.of_nat (length sg) <? h)%Z eqn:E; [lia|].
  destruct sg as [|x rest]; [cbn in Hk; lia|].
  unfold qnth. destruct (Z.to_nat k) as [|i] eqn:Ek.
  - assert (k = 0%Z) by lia. subst k. cbn [nth]. rewrite haar_window_0 by lia.
    unfold Qdiv. ring.
  - cbn [nth].
    set (L := conv_u_loop _ _ _ _ _ _).
    assert (HL : length L = length rest) by apply conv_u_loop_length.
    cbn [length] in Hk.
    rewrite (nth_map_default (fun y => Qred (y / scale)) L i 0 0) by lia.
    rewrite Qred_correct.
    unfold L. rewrite (conv_u_loop_spec (x :: rest) h) ; try lia.
    + replace (1 + Z.of_nat i)%Z with k by lia. reflexivity.
    + cbn [length]. lia.
    + replace (1 - 1)%Z with 0%Z by lia. rewrite haar_window_0 by lia. reflexivity.
Qed.

(* ---------- weighted ---------- *)

Definition Hs sg w h k := wsum (padded_prod sg w) k (Z.to_nat h).
Definition Hw (w : list Q) h k := wsum (padded w) k (Z.to_nat h).

Lemma conv_w_loop_spec sg w h scale :
  let n := Z.of_nat (length sg) in
  length w = length sg -> (0 <= h)%Z ->
  forall rest k lowNN highNN lowW highW,
    (1 <= k)%Z -> (k + Z.of_nat (length rest) <= n)%Z ->
    lowNN == - Hs sg w h (k - 1 - h) -> highNN == Hs sg w h (k - 1) ->
    lowW == Hw w h (k - 1 - h) -> highW == Hw w h (k - 1) ->
    forall i, (i < length rest)%nat ->
      nth i (conv_w_loop sg w n h scale rest k lowNN highNN lowW highW) 0
      == scale * haar_window_w sg w h (k + Z.of_nat i).
Proof.
  intros n Hlen Hh rest.
  induction rest as [|x t IH]; intros k lowNN highNN lowW highW Hk Hn H1 H2 H3 H4 i Hi; [cbn in Hi; lia|].
  cbn [conv_w_loop]. cbn [length] in Hn, Hi.
  set (lowNN' := Qred (lowNN + _)). set (highNN' := Qred (highNN + _)).
  set (lowW' := Qred (lowW + _)). set (highW' := Qred (highW + _)).
  assert (Ehi : forall l, length l = length sg ->
            qnth l (mirror_hi n (k + h - 1)) = padded l (k - 1 + Z.of_nat (Z.to_nat h))).
  { intros l Hl. unfold qnth, padded. rewrite Hl. fold n. rewrite (mirror_hi_eq n) by lia.
    rewrite Z2Nat.id by lia. do 3 f_equal. lia. }
  assert (Elo : forall l, length l = length sg -> qnth l (mirror_lo (k - h - 1)) = padded l (k - 1 - h)).
  { intros l Hl. unfold qnth, padded. rewrite Hl. fold n. rewrite (mirror_lo_eq n) by lia.
    do 3 f_equal. lia. }
  assert (Emid : forall l, length l = length sg -> qnth l (k - 1) = padded l (k - 1)).
  { intros l Hl. symmetry. apply padded_in. rewrite Hl. fold n. lia. }
  assert (A1 : lowNN' == - Hs sg w h (k - h)).
  { unfold lowNN'. rewrite Qred_correct, H1. unfold Hs.
    rewrite (Elo sg eq_refl), (Elo w Hlen), (Emid sg eq_refl), (Emid w Hlen).
    rewrite (wsum_slide' _ (k - 1 - h)%Z (k - h)%Z) by lia.
    rewrite Z2Nat.id by lia. replace (k - 1 - h + h)%Z with (k - 1)%Z by lia.
    unfold padded_prod. ring. }
  assert (A2 : highNN' == Hs sg w h k).
  { unfold highNN'. rewrite Qred_correct, H2. unfold Hs.
    rewrite (Ehi sg eq_refl), (Ehi w Hlen), (Emid sg eq_refl), (Emid w Hlen).
    rewrite (wsum_slide' _ (k - 1)%Z k) by lia.
    unfold padded_prod. ring. }
  assert (A3 : lowW' == Hw w h (k - h)).
  { unfold lowW'. rewrite Qred_correct, H3. unfold Hw.
    rewrite (Elo w Hlen), (Emid w Hlen).
    rewrite (wsum_slide' _ (k - 1 - h)%Z (k - h)%Z) by lia.
    rewrite Z2Nat.id by lia. replace (k - 1 - h + h)%Z with (k - 1)%Z by lia. ring. }
  assert (A4 : highW' == Hw w h k).
  { unfold highW'. rewrite Qred_correct, H4. unfold Hw.
    rewrite (Ehi w Hlen), (Emid w Hlen).
    rewrite (wsum_slide' _ (k - 1)%Z k) by lia. ring. }
  destruct i as [|i]; cbn [nth].
  - rewrite Qred_correct, A1, A2, A3, A4. rewrite Z.add_0_r.
    unfold haar_window_w, Hs, Hw, Qdiv. ring.
  - rewrite (IH (k + 1)%Z lowNN' highNN' lowW' highW'); try lia.
    + replace (k + 1 + Z.of_nat i)%Z with (k + Z.of_nat (S i))%Z by lia. reflexivity.
    + replace (k + 1 - 1 - h)%Z with (k - h)%Z by lia. exact A1.
    + replace (k + 1 - 1)%Z with k by lia. exact A2.
    + replace (k + 1 - 1 - h)%Z with (k - h)%Z by lia. exact A3.
    + replace (k + 1 - 1)%Z with k by lia. exact A4.
Qed.

Lemma wsum_reflect_padded l h :
  (0 <= h <= Z.of_nat (length l))%Z ->
  wsum (padded l) (0 - h)%Z (Z.to_nat h) == wsum (padded l) 0%Z (Z.to_nat h).
Proof.
  intros Hh.
  pose proof (window_zero (padded l) (Z.to_nat h) (fun j => nth (Z.to_nat j) l 0)) as W.
  rewrite Z2Nat.id in W by lia.
  assert (X : wsum (padded l) 0%Z (Z.to_nat h) - wsum (padded l) (0 - h)%Z (Z.to_nat h) == 0).
  { apply W.
    - intros j Hj. unfold padded. rewrite mirror_id by lia. reflexivity.
    - intros j Hj. unfold padded. rewrite mirror_neg by lia. reflexivity. }
  lra.
Qed.

Lemma wsum_reflect_prod l w h :
  length w = length l -> (0 <= h <= Z.of_nat (length l))%Z ->
  wsum (padded_prod l w) (0 - h)%Z (Z.to_nat h) == wsum (padded_prod l w) 0%Z (Z.to_nat h).
Proof.
  intros Hl Hh.
  pose proof (window_zero (padded_prod l w) (Z.to_nat h)
                (fun j => nth (Z.to_nat j) l 0 * nth (Z.to_nat j) w 0)) as W.
  rewrite Z2Nat.id in W by lia.
  assert (X : wsum (padded_prod l w) 0%Z (Z.to_nat h) - wsum (padded_prod l w) (0 - h)%Z (Z.to_nat h) == 0).
  { apply W.
    - intros j Hj. unfold padded_prod, padded. rewrite Hl. rewrite mirror_id by lia. reflexivity.
    - intros j Hj. unfold padded_prod, padded. rewrite Hl. rewrite mirror_neg by lia. reflexivity. }
  lra.
Qed.

Lemma haar_conv_w_closed sg w h scale k :
  length w = length sg ->
  (1 <= h <= Z.of_nat (length sg))%Z -> (1 <= k < Z.of_nat (length sg))%Z ->
  qnth (haar_conv sg (Some w) h scale) k == scale * haar_window_w sg w h k.
Proof.
  intros Hlen Hh Hk. unfold haar_conv, Zlength_nat.
  destruct (Z.of_nat (length sg) <? h)%Z eqn:E; [lia|].
  destruct sg as [|x rest] eqn:Esg; [cbn in Hk; lia|]. rewrite <- Esg in *.
  assert (Hrest : length sg = S (length rest)) by (rewrite Esg; reflexivity).
  unfold qnth. destruct (Z.to_nat k) as [|i] eqn:Ek; [lia|]. cbn [nth].
  assert (Hn : qsum (firstn (Z.to_nat h) (qmul2 w sg)) == Hs sg w h 0).
  { rewrite qsum_firstn_wsum by (rewrite qmul2_length by exact Hlen; lia).
    unfold Hs. apply wsum_ext. intros j Hj. rewrite nth_qmul2.
    unfold padded_prod, padded. rewrite Hlen. rewrite mirror_id by lia. ring. }
  assert (Hwt : qsum (firstn (Z.to_nat h) w) == Hw w h 0).
  { rewrite qsum_firstn_wsum by lia.
    unfold Hw. apply wsum_ext. intros j Hj. unfold padded. rewrite mirror_id by lia. reflexivity. }
  rewrite (conv_w_loop_spec sg w h scale Hlen); try lia.
  - replace (1 + Z.of_nat i)%Z with k by lia. reflexivity.
  - rewrite Qred_correct, Hn. unfold Hs. replace (1 - 1 - h)%Z with (0 - h)%Z by lia.
    rewrite wsum_reflect_prod by (try exact Hlen; lia). reflexivity.
  - replace (1 - 1)%Z with 0%Z by lia. exact Hn.
  - rewrite Hwt. unfold Hw. replace (1 - 1 - h)%Z with (0 - h)%Z by lia.
    rewrite wsum_reflect_padded by lia. reflexivity.
  - replace (1 - 1)%Z with 0%Z by lia. exact Hwt.
Qed.

Lemma haar_conv_0 sg wt h scale : qnth (haar_conv sg wt h scale) 0 == 0.
Proof.
  unfold haar_conv. destruct (Zlength_nat sg <? h)%Z.
  - destruct sg; reflexivity.
  - destruct sg; [reflexivity|]. destruct wt; reflexivity.
Qed.

Lemma haar_conv_short sg wt h scale :
  (Z.of_nat (length sg) < h)%Z -> Forall (fun x => x == 0) (haar_conv sg wt h scale).
Proof.
  intros H. unfold haar_conv, Zlength_nat. destruct (Z.of_nat (length sg) <? h)%Z eqn:E; [|lia].
  apply Forall_forall. intros y Hy. apply in_map_iff in Hy. destruct Hy as [_ [<- _]]. reflexivity.
Qed.
