(* C03 proofs, part 3: the aggregated fields of a segment (gene list, summed
   weight, weight-averaged depth) and the two log2 summaries equal their
   textbook formulas (exact rationals, == on Q). *)
From CNV Require Import Base.Prelude Base.Str Model.Segment Spec.Segments.

(* ---- rational helpers ---------------------------------------------------- *)

Lemma Qltb_true a b : Qltb a b = true <-> (a < b)%Q.
Proof.
  unfold Qltb. rewrite Qlt_alt. destruct (a ?= b)%Q; split; intros H; try reflexivity; try discriminate; congruence.
Qed.

Lemma Qltb_false a b : Qltb a b = false <-> ~ (a < b)%Q.
Proof.
  rewrite <- Qltb_true. destruct (Qltb a b); split; intros H; try reflexivity; try discriminate; try congruence.
Qed.

Lemma qsum_cons x t : qsum (x :: t) = Qred (x + qsum t).
Proof. reflexivity. Qed.

Lemma Qsum_cons x t : Qsum (x :: t) = (x + Qsum t)%Q.
Proof. reflexivity. Qed.

Lemma qsum_spec l : (qsum l == Qsum l)%Q.
Proof.
  induction l as [|x t IH]; [reflexivity|]. rewrite qsum_cons, Qsum_cons, Qred_correct, IH. reflexivity.
Qed.

Lemma qdot_spec {A} (f g : A -> Q) (l : list A) :
  (qdot (map f l) (map g l) == Qsum (map (fun b => f b * g b) l))%Q.
Proof.
  induction l as [|x t IH]; [reflexivity|]. cbn [map qdot]. rewrite Qsum_cons, Qred_correct, IH. reflexivity.
Qed.

Lemma wt0_weight_of b : wt0 b = weight_of b.
Proof. reflexivity. Qed.

(* ---- weight and depth ---------------------------------------------------- *)

Lemma sum_weights_spec l :
  match sum_weights l with
  | Some W => Forall (fun b => b_weight b <> None) l /\ (W == Qsum (map weight_of l))%Q
  | None => Exists (fun b => b_weight b = None) l
  end.
Proof.
  induction l as [|b t IH]; cbn [sum_weights].
  - split; [constructor|reflexivity].
  - cbn [map]. rewrite Qsum_cons. destruct (b_weight b) as [w|] eqn:Ew.
    + destruct (sum_weights t) as [s|].
      * destruct IH as (IH1 & IH2). split.
        -- constructor; [congruence|exact IH1].
        -- rewrite Qred_correct. unfold weight_of at 1. rewrite Ew. rewrite IH2. reflexivity.
      * apply Exists_cons_tl. exact IH.
    + apply Exists_cons_hd. exact Ew.
Qed.

Lemma agg_spec (sp : list bin) :
  match sum_weights sp with
  | Some W =>
      Forall (fun b => b_weight b <> None) sp /\
      (W == Qsum (map weight_of sp))%Q /\
      ((0 < W)%Q -> (agg_depth sp == Qsum (map (fun b => b_depth b * weight_of b) sp) / W)%Q) /\
      (~ (0 < W)%Q -> (agg_depth sp == 0)%Q)
  | None => Exists (fun b => b_weight b = None) sp /\ (agg_depth sp == 0)%Q
  end.
Proof.
  pose proof (sum_weights_spec sp) as H. unfold agg_depth.
  destruct (sum_weights sp) as [W|].
  - destruct H as (H1 & H2). split; [exact H1|]. split; [exact H2|].
    destruct (Qltb 0 W) eqn:EW.
    + apply Qltb_true in EW. split; [|tauto]. intros _.
      rewrite Qred_correct. rewrite (qdot_spec b_depth wt0 sp). reflexivity.
    + apply Qltb_false in EW. split; [tauto|]. intros _. reflexivity.
  - split; [exact H|reflexivity].
Qed.

(* ---- gene list ------------------------------------------------------------ *)

Lemma mem_string_cons s x l : mem_string s (x :: l) = String.eqb s x || mem_string s l.
Proof. reflexivity. Qed.

Lemma filter_filter {A} (p q : A -> bool) l : filter p (filter q l) = filter (fun x => q x && p x) l.
Proof.
  induction l as [|x t IH]; cbn; [reflexivity|]. destruct (q x); cbn; [destruct (p x)|]; rewrite IH; reflexivity.
Qed.

Lemma filter_ext' {A} (p q : A -> bool) l : (forall x, p x = q x) -> filter p l = filter q l.
Proof. intros H. induction l as [|x t IH]; cbn; [reflexivity|]. rewrite H, IH. reflexivity. Qed.

Lemma uniq_distinct seen l :
  uniq seen l = filter (fun y => negb (mem_string y seen)) (distinct_in_order l).
Proof.
  revert seen; induction l as [|x t IH]; intros seen; cbn [uniq distinct_in_order filter]; [reflexivity|].
  destruct (mem_string x seen) eqn:Ex; cbn [negb].
  - rewrite IH. rewrite filter_filter. apply filter_ext'. intros y.
    destruct (String.eqb y x) eqn:Eyx; cbn; [|reflexivity].
    apply String.eqb_eq in Eyx. subst y. rewrite Ex. reflexivity.
  - f_equal. rewrite IH. rewrite filter_filter. apply filter_ext'. intros y.
    rewrite mem_string_cons. destruct (String.eqb y x); cbn; reflexivity.
Qed.

Lemma filter_distinct (p : string -> bool) l :
  filter p (distinct_in_order l) = distinct_in_order (filter p l).
Proof.
  induction l as [|x t IH]; cbn [distinct_in_order filter]; [reflexivity|].
  destruct (p x) eqn:Ex.
  - cbn [distinct_in_order]. f_equal. rewrite <- IH. rewrite !filter_filter. apply filter_ext'.
    intros y. apply andb_comm.
  - rewrite <- IH. rewrite filter_filter. apply filter_ext'. intros y.
    destruct (String.eqb y x) eqn:Eyx; cbn; [|reflexivity].
    apply String.eqb_eq in Eyx. subst y. symmetry. exact Ex.
Qed.

Lemma filter_true {A} (l : list A) : filter (fun _ => true) l = l.
Proof. induction l as [|x t IH]; cbn; [reflexivity|]. rewrite IH. reflexivity. Qed.

(* the names the code ignores are the ones the property calls not meaningful *)
Lemma ignored_names_literal :
  ignored_names = ["-"; "."; "CGH"; "Antitarget"; "Background"]%string.
Proof. reflexivity. Qed.

Lemma gene_field_spec names : gene_field names = gene_list names.
Proof.
  unfold gene_field, gene_list. rewrite uniq_distinct. cbn [mem_string negb].
  rewrite filter_true. rewrite filter_distinct.
  unfold meaningful. rewrite ignored_names_literal. reflexivity.
Qed.

(* ---- log2 ---------------------------------------------------------------- *)

Lemma plain_mean_spec {A} (f : A -> Q) (g : list A) :
  (plain_mean (map f g) == Qsum (map f g) / inject_Z (Z.of_nat (length g)))%Q.
Proof.
  unfold plain_mean. rewrite Qred_correct, qsum_spec, map_length. reflexivity.
Qed.

Lemma wavg_spec (g : list bin) :
  (wavg (map b_log2 g) (map wt0 g) ==
   Qsum (map (fun b => b_log2 b * weight_of b) g) / Qsum (map weight_of g))%Q.
Proof.
  unfold wavg. rewrite Qred_correct. rewrite (qdot_spec b_log2 wt0 g). rewrite qsum_spec. reflexivity.
Qed.

Lemma nonneg_sum_pos (ws : list Q) :
  Forall (fun w => (0 <= w)%Q) ws ->
  existsb (fun w => negb (Qeq_bool w 0)) ws = true -> (0 < Qsum ws)%Q.
Proof.
  induction 1 as [|w t Hw Ht IH]; cbn; [discriminate|].
  assert (Hs : (0 <= Qsum t)%Q).
  { clear IH. induction Ht as [|x t' Hx _ IH']; cbn; [apply Qle_refl|].
    replace 0%Q with (0 + 0)%Q by reflexivity. apply Qplus_le_compat; assumption. }
  destruct (Qeq_bool w 0) eqn:Ew; cbn.
  - intros He. specialize (IH He). apply Qeq_bool_eq in Ew. rewrite Ew. rewrite Qplus_0_l. exact IH.
  - intros _. apply Qeq_bool_neq in Ew.
    assert (0 < w)%Q by (apply Qle_lt_or_eq in Hw; destruct Hw as [Hw|Hw]; [exact Hw|exfalso; apply Ew; symmetry; exact Hw]).
    replace 0%Q with (0 + 0)%Q by reflexivity. apply Qplus_lt_le_compat; assumption.
Qed.

Lemma allzero_sum (ws : list Q) :
  existsb (fun w => negb (Qeq_bool w 0)) ws = false -> (Qsum ws == 0)%Q.
Proof.
  induction ws as [|w t IH]; cbn; [reflexivity|].
  destruct (Qeq_bool w 0) eqn:Ew; cbn; [|discriminate].
  intros He. apply Qeq_bool_eq in Ew. rewrite Ew, (IH He). reflexivity.
Qed.

Definition log2_formula (g : list bin) (v : Q) : Prop :=
  let W := Qsum (map weight_of g) in
  ((0 < W)%Q -> (v == Qsum (map (fun b => b_log2 b * weight_of b) g) / W)%Q) /\
  ((W == 0)%Q -> (v == Qsum (map b_log2 g) / inject_Z (Z.of_nat (length g)))%Q).

Lemma mean_squash_spec g : log2_formula g (mean_squash g).
Proof.
  unfold log2_formula, mean_squash. destruct (Qltb 0 (qsum (map wt0 g))) eqn:E.
  - apply Qltb_true in E. rewrite qsum_spec in E. split.
    + intros _. apply wavg_spec.
    + intros H0. change (map wt0 g) with (map weight_of g) in E. rewrite H0 in E. discriminate.
  - apply Qltb_false in E. rewrite qsum_spec in E. split.
    + intros H. exfalso. apply E. exact H.
    + intros _. apply plain_mean_spec.
Qed.

Lemma mean_none_spec g :
  Forall (fun b => (0 <= weight_of b)%Q) g -> log2_formula g (mean_none g).
Proof.
  intros Hg. unfold log2_formula, mean_none.
  destruct (existsb (fun w => negb (Qeq_bool w 0)) (map wt0 g)) eqn:E.
  - assert (Hpos : (0 < Qsum (map weight_of g))%Q).
    { apply nonneg_sum_pos; [|exact E]. apply Forall_map. exact Hg. }
    split.
    + intros _. apply wavg_spec.
    + intros H0. rewrite H0 in Hpos. discriminate.
  - apply allzero_sum in E. change (map wt0 g) with (map weight_of g) in E. split.
    + intros H. rewrite E in H. discriminate.
    + intros _. apply plain_mean_spec.
Qed.
