(* C01 / C02: do_call's row, composed from the generated pieces.  Model/Baf.v do_call_row -- the function the
   C01_do_call_* / C02_do_call_* theorems speak about -- on a row with a finite log2, for the two calling methods, IS

       fn_dispatch  (Gen/FnCallDispatch.v: `if purity and purity < 1.0: ... elif method == "clonal": ...
                     if method == "threshold": ...`)
   followed by
       fn_finish    (Gen/FnCallFinish.v:   `if method != "none": outarr["cn"] = ...; if "baf" in outarr: ...`)

   both regenerated from the Python source on every run, with the results of the called functions (opaque inputs of
   fn_dispatch, keyed by the source text of the calls) supplied by the model: call_row_purity / call_row_pure / thr_cn /
   rescale_baf, each tied to its own Python function by a module of its own (FnCallClonalRow, FnCallPureRow,
   FnCallScan + FnCallScanRow, FnCallBaf), absolute_threshold running on the (log2, 2^log2) the table holds AFTER the
   purity step (dc_seen). *)
From CNV Require Import Base.Prelude Base.Str Gen.CallDefaults Gen.FnCallDispatch Gen.FnCallFinish
  Model.Call Model.Threshold Model.Baf.
From CNV Require Proofs.Call Proofs.CallDoCall Proofs.FnCallDispatch Proofs.FnCallFinish Proofs.FnCallGuards.
Local Open Scope Z_scope.

Import Proofs.FnCallGuards.

Lemma source_do_call_row m k purity hapx female build ts variants with_baf first row v toks :
  m <> MNone -> d_log2 row = Some v ->
  let cl := row_class build first (d_chrom row) (d_lo row) (d_hi row) in
  let pp := match use_purity purity with Some p => p | None => 1%Q end in
  let op := call_row_purity k pp hapx female cl (d_e row) in
  let '(v1, e1) := CallDoCall.dc_seen purity row in
  let '(a, l', b') :=
     fn_dispatch purity (method_name m) variants (d_log2 row) (d_baf row)
       (Call.abs_of op)                                                    (* absolute_clonal(...).clip(lower=0) *)
       (Some (d_v2 row))                                                   (* log2_ratios(...) *)
       (rescale_baf pp (d_baf row))                                        (* rescale_baf(purity, outarr["baf"]) *)
       (Call.abs_of (call_row_pure k hapx (d_chrom row) (d_e row)))        (* absolute_pure(...) *)
       (inject_Z (thr_cn v1 e1 ts k (ref_pure (d_chrom row) k hapx)))      (* absolute_threshold(outarr, ...) *)
       toks in
  let has_baf := with_baf || variants in
  let '(cn, c1, c2) := fn_finish (method_name m) a has_baf b' in
  do_call_row m k purity hapx female build ts variants with_baf first row
  = Some (mk_dc_out (match use_purity purity with Some _ => Call.ratio_of op | None => None end)
                    l' (Some a) (Some cn) (if has_baf then b' else None) (if has_baf then Some (c1, c2) else None)).
Proof.
  intros Hm Hv. cbv zeta.
  unfold CallDoCall.dc_seen, do_call_row, dc_purity_step, dc_baf. rewrite Hv.
  destruct (use_purity purity) as [p|] eqn:U; destruct m; try contradiction; cbv iota beta;
    rewrite FnCallDispatch.source_dispatch, U; cbn [method_name String.eqb Ascii.eqb Bool.eqb]; cbv zeta.
  - pose proof (FnCallFinish.source_finish "threshold" (snd (call_row_purity k p hapx female
                   (row_class build first (d_chrom row) (d_lo row) (d_hi row)) (d_e row))) (Some (d_v2 row))
                  (inject_Z (thr_cn (Some (d_v2 row)) (d_e2 row) ts k (ref_pure (d_chrom row) k hapx)))
                  (with_baf || variants) (if variants then rescale_baf p (d_baf row) else d_baf row) eq_refl) as S.
    destruct (fn_finish "threshold" _ _ _) as [[cn c1] c2]. rewrite S. reflexivity.
  - pose proof (FnCallFinish.source_finish "clonal" (snd (call_row_purity k p hapx female
                   (row_class build first (d_chrom row) (d_lo row) (d_hi row)) (d_e row))) (Some (d_v2 row))
                  (Call.abs_of (call_row_purity k p hapx female
                   (row_class build first (d_chrom row) (d_lo row) (d_hi row)) (d_e row)))
                  (with_baf || variants) (if variants then rescale_baf p (d_baf row) else d_baf row) eq_refl) as S.
    destruct (fn_finish "clonal" _ _ _) as [[cn c1] c2]. unfold Call.abs_of in S. rewrite S. reflexivity.
  - pose proof (FnCallFinish.source_finish "threshold" None (Some v)
                  (inject_Z (thr_cn (Some v) (d_e row) ts k (ref_pure (d_chrom row) k hapx)))
                  (with_baf || variants) (d_baf row) eq_refl) as S.
    destruct (fn_finish "threshold" _ _ _) as [[cn c1] c2]. rewrite S. reflexivity.
  - pose proof (FnCallFinish.source_finish "clonal" None (Some v)
                  (Call.abs_of (call_row_pure k hapx (d_chrom row) (d_e row)))
                  (with_baf || variants) (d_baf row) eq_refl) as S.
    destruct (fn_finish "clonal" _ _ _) as [[cn c1] c2]. unfold Call.abs_of in S. rewrite S. reflexivity.
Qed.
