(* C08 source tie of read_bed's track2track loop: ONE ITERATION of

       for line in handle:
           if line.startswith("track"): break
           yield line

   is regenerated from the Python source on every run (Gen/FnFormatsTrack.v fn_track_step).  Here: the
   step iterated over the raw lines -- each paired with its field list, on which the model tests the
   "track" prefix -- yields exactly as many raw lines, from the start, as Model/Formats.v until_track
   keeps: reading stops at the first track line and nothing after it is looked at. *)
From CNV Require Import Base.Prelude Base.Str Gen.FnFormatsTrack Model.Formats.

Fixpoint gen_until (l : list (string * line)) : list string :=
  match l with
  | [] => []
  | (raw, f) :: t =>
      let '(ys, brk) := fn_track_step raw (line_starts "track" f) in
      (ys ++ if brk then [] else gen_until t)%list
  end.

Lemma source_track_step raw is_track :
  fn_track_step raw is_track = if is_track then ([], true) else ([raw], false).
Proof. unfold fn_track_step. destruct is_track; reflexivity. Qed.

Lemma source_track_loop (l : list (string * line)) :
  gen_until l = firstn (length (until_track (map snd l))) (map fst l)
  /\ until_track (map snd l) = firstn (length (until_track (map snd l))) (map snd l).
Proof.
  induction l as [|[raw f] t [IH1 IH2]]; [split; reflexivity|].
  cbn [gen_until map fst snd until_track]. rewrite source_track_step.
  destruct (line_starts "track" f); [split; reflexivity|].
  cbn [app length firstn]. split; f_equal; assumption.
Qed.
