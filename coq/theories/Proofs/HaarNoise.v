(* C11: deterministic bounded-noise theorems about the Haar segmenter model.
   signal = clean + noise, |noise_i| <= eps in every bin (exact rationals):
   - the convolution moves by at most 2 h eps / scale (unweighted), 2 eps scale (weighted, positive
     weights), mirrored edges included;
   - a step of height D > 4 eps: at every half-width h with h bins on both sides the noisy
     convolution is still strictly increasing up to t and strictly decreasing after it inside the
     tent's support, bounded by the noise term outside, so the strict global maximum of |conv| is
     exactly at t, FindLocalPeaks returns t and otherwise only peaks at distance >= h whose values
     are at most the noise bound;
   - a flat profile: every value is within the noise bound. *)
From Coq Require Import QArith.Qabs.
From CNV Require Import Base.Prelude Model.Haar Spec.Haar Spec.HaarNoise Proofs.HaarConv Proofs.HaarFlat
  Proofs.HaarUnify Proofs.HaarPeaks Proofs.HaarStepLib Proofs.HaarMeans Proofs.HaarStep Proofs.HaarStepW.
From Coq Require Import Lqa.

Local Open Scope Q_scope.

(* ---------- absolute values as two-sided bounds ---------- *)

Lemma abs_le_iff x y : Qabs x <= y <-> - y <= x /\ x <= y.
Proof. apply Qabs_Qle_condition. Qed.

Lemma abs_lt_iff x y : Qabs x < y <-> - y < x /\ x < y.
Proof. apply Qabs_Qlt_condition. Qed.

Lemma div_le_pos x y s : 0 < s -> x <= y -> x / s <= y / s.
Proof.
  intros Hs H. unfold Qdiv. apply Qmult_le_compat_r; [exact H|].
  apply Qlt_le_weak, Qinv_lt_0_compat, Hs.
Qed.

Lemma div_lt_pos x y s : 0 < s -> x < y -> x / s < y / s.
Proof.
  intros Hs H. unfold Qdiv. apply Qmult_lt_compat_r; [apply Qinv_lt_0_compat, Hs|exact H].
Qed.

Lemma div_opp x s : - (x / s) == (- x) / s.
Proof. unfold Qdiv. ring. Qed.

(* ---------- window sums of bounded functions ---------- *)

Lemma wsum_minus f g a len : wsum (fun j => f j - g j) a len == wsum f a len - wsum g a len.
Proof.
  revert a; induction len as [|m IH]; intros a; cbn [wsum]; [ring|]. rewrite IH. ring.
Qed.

Lemma wsum_bounds f a len eps :
  (forall j, (a <= j < a + Z.of_nat len)%Z -> - eps <= f j /\ f j <= eps) ->
  - (inject_Z (Z.of_nat len) * eps) <= wsum f a len /\ wsum f a len <= inject_Z (Z.of_nat len) * eps.
Proof.
  revert a; induction len as [|m IH]; intros a H.
  - cbn [wsum]. change (inject_Z (Z.of_nat 0)) with 0. lra.
  - cbn [wsum]. destruct (H a ltac:(lia)) as [A1 A2].
    destruct (IH (a + 1)%Z) as [B1 B2]; [intros j Hj; apply H; lia|].
    rewrite Nat2Z.inj_succ. unfold Z.succ. rewrite inject_Z_plus. change (inject_Z 1) with 1. lra.
Qed.

(* ---------- the padded noise ---------- *)

Lemma mirror_in n j : (- n <= j < 2 * n)%Z -> (0 <= mirror n j < n)%Z.
Proof.
  intros H. unfold mirror. destruct (j <? 0)%Z eqn:E1; [lia|]. destruct (n <=? j)%Z eqn:E2; lia.
Qed.

Lemma padded_noise eps c sg j :
  noise_within eps c sg -> (- Z.of_nat (length c) <= j < 2 * Z.of_nat (length c))%Z ->
  - eps <= padded sg j - padded c j /\ padded sg j - padded c j <= eps.
Proof.
  intros [Hl Hb] Hj. unfold padded. rewrite Hl.
  pose proof (mirror_in _ j Hj) as Hm.
  specialize (Hb (mirror (Z.of_nat (length c)) j) Hm). unfold at_ in Hb.
  apply abs_le_iff in Hb. exact Hb.
Qed.

Lemma noise_eps_nonneg eps c sg : noise_within eps c sg -> c <> [] -> 0 <= eps.
Proof.
  intros [_ Hb] Hne. specialize (Hb 0%Z). destruct c; [congruence|].
  specialize (Hb ltac:(cbn [length]; lia)). pose proof (Qabs_nonneg (at_ sg 0 - at_ (q :: c) 0)). lra.
Qed.

(* the noise part of the Haar window *)
Definition dwin (sg c : list Q) (h k : Z) : Q :=
  wsum (fun j => padded sg j - padded c j) k (Z.to_nat h)
  - wsum (fun j => padded sg j - padded c j) (k - h)%Z (Z.to_nat h).

Lemma window_split sg c h k : haar_window sg h k == haar_window c h k + dwin sg c h k.
Proof. unfold haar_window, dwin. rewrite !wsum_minus. ring. Qed.

Lemma dwin_bounds eps c sg h k :
  noise_within eps c sg -> (1 <= h <= Z.of_nat (length c))%Z -> (0 <= k <= Z.of_nat (length c))%Z ->
  - (2 * inject_Z h * eps) <= dwin sg c h k /\ dwin sg c h k <= 2 * inject_Z h * eps.
Proof.
  intros Hn Hh Hk. unfold dwin.
  destruct (wsum_bounds (fun j => padded sg j - padded c j) k (Z.to_nat h) eps) as [A1 A2].
  { intros j Hj. apply (padded_noise eps c sg j Hn). lia. }
  destruct (wsum_bounds (fun j => padded sg j - padded c j) (k - h)%Z (Z.to_nat h) eps) as [B1 B2].
  { intros j Hj. apply (padded_noise eps c sg j Hn). lia. }
  rewrite Z2Nat.id in A1, A2, B1, B2 by lia. lra.
Qed.

(* one step of the noise window: four noise terms *)
Lemma dwin_step eps c sg h k :
  noise_within eps c sg -> (1 <= h <= Z.of_nat (length c))%Z -> (0 <= k < Z.of_nat (length c))%Z ->
  - (4 * eps) <= dwin sg c h (k + 1) - dwin sg c h k /\ dwin sg c h (k + 1) - dwin sg c h k <= 4 * eps.
Proof.
  intros Hn Hh Hk. unfold dwin.
  pose proof (window_step (fun j => padded sg j - padded c j) (Z.to_nat h) (k + 1)%Z) as W.
  rewrite !Z2Nat.id in W by lia.
  replace (k + 1 - 1)%Z with k in W by lia.
  replace (k + 1 - h - 1)%Z with (k - h)%Z in W by lia.
  replace (k + 1 + h - 1)%Z with (k + h)%Z in W by lia.
  rewrite W.
  destruct (padded_noise eps c sg (k + h)%Z Hn ltac:(lia)) as [A1 A2].
  destruct (padded_noise eps c sg (k - h)%Z Hn ltac:(lia)) as [B1 B2].
  destruct (padded_noise eps c sg k Hn ltac:(lia)) as [C1 C2].
  lra.
Qed.

(* ---------- 1. the convolution moves by at most the noise bound ---------- *)

Lemma noise_conv_bound_u eps c sg h scale k :
  noise_within eps c sg -> 0 < scale ->
  (1 <= h <= Z.of_nat (length c))%Z -> (0 <= k < Z.of_nat (length c))%Z ->
  Qabs (qnth (haar_conv sg None h scale) k - qnth (haar_conv c None h scale) k) <= noise_bound_u h eps scale.
Proof.
  intros Hn Hs Hh Hk. pose proof Hn as [Hl _].
  rewrite (haar_conv_u_closed sg) by (rewrite Hl; lia).
  rewrite (haar_conv_u_closed c) by lia.
  rewrite window_split.
  destruct (dwin_bounds eps c sg h k Hn Hh ltac:(lia)) as [D1 D2].
  assert (E : (haar_window c h k + dwin sg c h k) / scale - haar_window c h k / scale == dwin sg c h k / scale).
  { unfold Qdiv. ring. }
  rewrite E. unfold noise_bound_u. apply abs_le_iff. split.
  - rewrite div_opp. apply div_le_pos; [exact Hs|lra].
  - apply div_le_pos; [exact Hs|lra].
Qed.

(* ---------- FindLocalPeaks on an arbitrary sequence ---------- *)

(* what the code can report at a position: a strict signed extremum, or the start of a plateau
   of the right sign (value equal to the next one, previous one strictly on the inner side) *)
Definition candT (p c n : Q) : Prop :=
  peakT p c n \/ (0 < c /\ p < c /\ c == n) \/ (c < 0 /\ c < p /\ c == n).

Lemma flp_step_cand k p c n st out st' :
  flp_step k p c n st = (out, st') ->
  (forall x, In x out -> (x = k /\ candT p c n) \/ fst st = Some x \/ snd st = Some x) /\
  (forall s, fst st' = Some s -> (s = k /\ candT p c n) \/ fst st = Some s) /\
  (forall s, snd st' = Some s -> (s = k /\ candT p c n) \/ snd st = Some s).
Proof.
  intros H. unfold flp_step in H. destruct st as [maxS minS].
  destruct maxS as [s1|], minS as [s2|]; walk H; bools;
    injection H as <- <-; cbn [fst snd In];
    (split; [|split]); intros x Hx;
    try contradiction;
    try (destruct Hx as [<-|[]]);
    try (injection Hx as <-);
    try discriminate;
    first [ right; left; reflexivity
          | right; right; reflexivity
          | right; reflexivity
          | left; split; [reflexivity|unfold candT, peakT; lra] ].
Qed.

Lemma flp_loop_cand : forall l k0 st (G : Z -> Prop),
  (forall s, fst st = Some s -> G s) -> (forall s, snd st = Some s -> G s) ->
  (forall i, (i + 2 < length l)%nat -> tripleP candT l i -> G (k0 + Z.of_nat i)%Z) ->
  forall x, In x (flp_loop l k0 st) -> G x.
Proof.
  induction l as [|p t IH]; intros k0 st G H1 H2 H3 x Hx; [destruct Hx|].
  destruct t as [|c t']; [destruct Hx|]. destruct t' as [|n t'']; [destruct Hx|].
  rewrite flp_loop_eq in Hx. destruct (flp_step k0 p c n st) as [out st'] eqn:ES.
  destruct (flp_step_cand k0 p c n st out st' ES) as [S1 [S2 S3]].
  assert (G0 : candT p c n -> G k0).
  { intros Hc. specialize (H3 0%nat ltac:(cbn [length]; lia)). rewrite Z.add_0_r in H3. apply H3. exact Hc. }
  apply in_app_or in Hx. destruct Hx as [Hx|Hx].
  - destruct (S1 x Hx) as [[-> Hc]|[E|E]]; [apply G0, Hc|apply H1, E|apply H2, E].
  - apply (IH (k0 + 1)%Z st' G); [| | |exact Hx].
    + intros s Hs. destruct (S2 s Hs) as [[-> Hc]|E]; [apply G0, Hc|apply H1, E].
    + intros s Hs. destruct (S3 s Hs) as [[-> Hc]|E]; [apply G0, Hc|apply H2, E].
    + intros i Hi Hc. replace (k0 + 1 + Z.of_nat i)%Z with (k0 + Z.of_nat (S i))%Z by lia.
      apply H3; [cbn [length] in *; lia|exact Hc].
Qed.

Lemma flp_peak_in : forall l k0 st i,
  (i + 2 < length l)%nat -> tripleP peakT l i -> In (k0 + Z.of_nat i)%Z (flp_loop l k0 st).
Proof.
  induction l as [|p t IH]; intros k0 st i Hi Hp; [cbn in Hi; lia|].
  destruct t as [|c t']; [cbn in Hi; lia|]. destruct t' as [|n t'']; [cbn in Hi; lia|].
  rewrite flp_loop_eq. destruct i as [|i].
  - unfold tripleP in Hp. cbn [nth] in Hp. rewrite (flp_step_peak k0 p c n st Hp).
    cbn [app]. left. lia.
  - destruct (flp_step k0 p c n st) as [out st']. apply in_or_app. right.
    replace (k0 + Z.of_nat (S i))%Z with (k0 + 1 + Z.of_nat i)%Z by lia.
    apply IH; [cbn [length] in *; lia|exact Hp].
Qed.

Lemma peaks_cand l x :
  In x (find_local_peaks l) ->
  (1 <= x <= Z.of_nat (length l) - 2)%Z /\ candT (qnth l (x - 1)) (qnth l x) (qnth l (x + 1)).
Proof.
  unfold find_local_peaks.
  apply (flp_loop_cand l 1%Z (None, None)
           (fun x => (1 <= x <= Z.of_nat (length l) - 2)%Z /\ candT (qnth l (x - 1)) (qnth l x) (qnth l (x + 1)))).
  - intros s Hs. discriminate.
  - intros s Hs. discriminate.
  - intros i Hi Hc. split; [lia|]. unfold tripleP in Hc. unfold qnth.
    replace (Z.to_nat (1 + Z.of_nat i - 1)) with i by lia.
    replace (Z.to_nat (1 + Z.of_nat i)) with (S i) by lia.
    replace (Z.to_nat (1 + Z.of_nat i + 1)) with (S (S i)) by lia. exact Hc.
Qed.

Lemma peaks_has_peak l x :
  (1 <= x <= Z.of_nat (length l) - 2)%Z -> peakT (qnth l (x - 1)) (qnth l x) (qnth l (x + 1)) ->
  In x (find_local_peaks l).
Proof.
  intros Hx Hp. unfold find_local_peaks.
  replace x with (1 + Z.of_nat (Z.to_nat (x - 1)))%Z at 1 by lia.
  apply flp_peak_in; [lia|]. unfold tripleP. unfold qnth in Hp.
  replace (Z.to_nat x) with (S (Z.to_nat (x - 1))) in Hp by lia.
  replace (Z.to_nat (x + 1)) with (S (S (Z.to_nat (x - 1)))) in Hp by lia. exact Hp.
Qed.

(* ---------- a sequence that rises to t, falls after it, and is small outside ---------- *)

Definition sgnQ (neg : bool) : Q := if neg then - (1) else 1.

Section Unimodal.
Variables (G : Z -> Q) (B dl : Q) (t h n : Z).
Hypothesis Hh : (1 <= h <= t)%Z.
Hypothesis Hn : (t + h <= n)%Z.
Hypothesis Hd : 0 < dl.
Hypothesis HU : forall k, (t - h <= k < t)%Z -> G k + dl <= G (k + 1)%Z.
Hypothesis HV : forall k, (t <= k < t + h)%Z -> (k + 1 < n)%Z -> G (k + 1)%Z + dl <= G k.
Hypothesis HL : forall k, (0 <= k < n)%Z -> - B <= G k.
Hypothesis HO : forall k, (0 <= k < n)%Z -> (h <= Z.abs (k - t))%Z -> G k <= B.
Hypothesis HT : B < G t.

Lemma up_chain : forall (m : nat) i, (t - h <= i)%Z -> (i + Z.of_nat m <= t)%Z ->
  G i + inject_Z (Z.of_nat m) * dl <= G (i + Z.of_nat m)%Z.
Proof.
  induction m as [|m IH]; intros i H1 H2.
  - change (inject_Z (Z.of_nat 0)) with 0. rewrite Z.add_0_r. lra.
  - specialize (IH i H1 ltac:(lia)).
    pose proof (HU (i + Z.of_nat m)%Z ltac:(lia)) as St.
    replace (i + Z.of_nat (Datatypes.S m))%Z with (i + Z.of_nat m + 1)%Z by lia.
    replace (Z.of_nat (Datatypes.S m)) with (Z.of_nat m + 1)%Z by lia.
    rewrite inject_Z_plus. change (inject_Z 1) with 1. lra.
Qed.

Lemma down_chain : forall (m : nat) i, (t <= i)%Z -> (i + Z.of_nat m <= t + h)%Z -> (i + Z.of_nat m < n)%Z ->
  G (i + Z.of_nat m)%Z + inject_Z (Z.of_nat m) * dl <= G i.
Proof.
  induction m as [|m IH]; intros i H1 H2 H3.
  - change (inject_Z (Z.of_nat 0)) with 0. rewrite Z.add_0_r. lra.
  - specialize (IH i H1 ltac:(lia) ltac:(lia)).
    pose proof (HV (i + Z.of_nat m)%Z ltac:(lia) ltac:(lia)) as St.
    replace (i + Z.of_nat (Datatypes.S m))%Z with (i + Z.of_nat m + 1)%Z by lia.
    replace (Z.of_nat (Datatypes.S m)) with (Z.of_nat m + 1)%Z by lia.
    rewrite inject_Z_plus. change (inject_Z 1) with 1. lra.
Qed.

(* inside the support the value has dropped by at least dl per bin of distance *)
Lemma uni_drop k : (0 <= k < n)%Z -> (Z.abs (k - t) <= h)%Z -> G k + inject_Z (Z.abs (k - t)) * dl <= G t.
Proof.
  intros Hk Ha. destruct (Z_le_gt_dec k t) as [L|L].
  - pose proof (up_chain (Z.to_nat (t - k)) k ltac:(lia) ltac:(lia)) as C.
    rewrite Z2Nat.id in C by lia. replace (k + (t - k))%Z with t in C by lia.
    replace (Z.abs (k - t)) with (t - k)%Z by lia. exact C.
  - pose proof (down_chain (Z.to_nat (k - t)) t ltac:(lia) ltac:(lia) ltac:(lia)) as C.
    rewrite Z2Nat.id in C by lia. replace (t + (k - t))%Z with k in C by lia.
    replace (Z.abs (k - t)) with (k - t)%Z by lia. exact C.
Qed.

Lemma uni_top_pos : 0 < G t.
Proof. pose proof (HL t ltac:(lia)). lra. Qed.

(* the strict global maximum of |G| is at t *)
Lemma uni_max k : (0 <= k < n)%Z -> k <> t -> - G t < G k /\ G k < G t.
Proof.
  intros Hk Hne. pose proof (HL k Hk) as L. pose proof uni_top_pos as P. split; [lra|].
  destruct (Z_le_gt_dec h (Z.abs (k - t))) as [Far|Near].
  - pose proof (HO k Hk Far). lra.
  - pose proof (uni_drop k Hk ltac:(lia)) as Dp.
    assert (1 <= inject_Z (Z.abs (k - t))).
    { change 1 with (inject_Z 1). rewrite <- Zle_Qle. lia. }
    nra.
Qed.

Lemma uni_through_up x : (t - h < x < t)%Z -> G (x - 1)%Z < G x /\ G x < G (x + 1)%Z.
Proof.
  intros Hx. pose proof (HU (x - 1)%Z ltac:(lia)) as S1. pose proof (HU x ltac:(lia)) as S2.
  replace (x - 1 + 1)%Z with x in S1 by lia. lra.
Qed.

Lemma uni_through_down x : (t < x < t + h)%Z -> (x + 1 < n)%Z -> G (x + 1)%Z < G x /\ G x < G (x - 1)%Z.
Proof.
  intros Hx Hx2. pose proof (HV (x - 1)%Z ltac:(lia) ltac:(lia)) as S1. pose proof (HV x ltac:(lia) Hx2) as S2.
  replace (x - 1 + 1)%Z with x in S1 by lia. lra.
Qed.

Lemma uni_top : (t + 1 < n)%Z -> 0 < G t /\ G (t - 1)%Z < G t /\ G (t + 1)%Z < G t.
Proof.
  intros Ht. split; [apply uni_top_pos|].
  pose proof (HU (t - 1)%Z ltac:(lia)) as S1. replace (t - 1 + 1)%Z with t in S1 by lia.
  pose proof (HV t ltac:(lia) Ht) as S2. lra.
Qed.

(* a list carrying G, or - G: FindLocalPeaks reports t, and nothing else within h of t *)
Lemma unimodal_peaks (l : list Q) (neg : bool) :
  Z.of_nat (length l) = n -> (t + 2 <= n)%Z ->
  (forall k, (0 <= k < n)%Z -> qnth l k == sgnQ neg * G k) ->
  In t (find_local_peaks l) /\
  (forall x, In x (find_local_peaks l) -> x <> t -> (h <= Z.abs (x - t))%Z).
Proof.
  intros Hl Ht HG. split.
  - apply peaks_has_peak; [lia|].
    destruct (uni_top ltac:(lia)) as [T0 [T1 T2]].
    pose proof (HG (t - 1)%Z ltac:(lia)) as E1. pose proof (HG t ltac:(lia)) as E2.
    pose proof (HG (t + 1)%Z ltac:(lia)) as E3.
    unfold peakT, sgnQ in *. destruct neg; [right|left]; lra.
  - intros x Hx Hne. destruct (peaks_cand l x Hx) as [Hr Hc].
    destruct (Z_le_gt_dec h (Z.abs (x - t))) as [Far|Near]; [exact Far|exfalso].
    pose proof (HG (x - 1)%Z ltac:(lia)) as E1. pose proof (HG x ltac:(lia)) as E2.
    pose proof (HG (x + 1)%Z ltac:(lia)) as E3.
    destruct (Z_le_gt_dec x t) as [L|L].
    + destruct (uni_through_up x ltac:(lia)) as [M1 M2].
      unfold candT, peakT, sgnQ in *. destruct neg; lra.
    + destruct (uni_through_down x ltac:(lia) ltac:(lia)) as [M1 M2].
      unfold candT, peakT, sgnQ in *. destruct neg; lra.
Qed.

End Unimodal.

(* ---------- 2./3. a step with bounded noise at one half-width (unweighted) ---------- *)

Lemma abs_sgn neg x : Qabs (sgnQ neg * x) == Qabs x.
Proof.
  destruct neg; unfold sgnQ.
  - assert (E : - (1) * x == - x) by ring. rewrite E. apply Qabs_opp.
  - assert (E : 1 * x == x) by ring. rewrite E. reflexivity.
Qed.

Lemma sgn_sq neg x : sgnQ neg * (sgnQ neg * x) == x.
Proof. destruct neg; unfold sgnQ; ring. Qed.

Lemma tent_up h t k : (t - h <= k < t)%Z -> tentQ h t (k + 1) == tentQ h t k + 1.
Proof.
  intros H. unfold tentQ. replace (tent h t (k + 1)) with (tent h t k + 1)%Z by (unfold tent; lia).
  rewrite inject_Z_plus. reflexivity.
Qed.

Lemma tent_down h t k : (t <= k < t + h)%Z -> tentQ h t (k + 1) == tentQ h t k - 1.
Proof.
  intros H. unfold tentQ. replace (tent h t k) with (tent h t (k + 1) + 1)%Z by (unfold tent; lia).
  rewrite inject_Z_plus. change (inject_Z 1) with 1. ring.
Qed.

Lemma tent_top h t : (0 <= h)%Z -> tentQ h t t == inject_Z h.
Proof. intros H. unfold tentQ. replace (tent h t t) with h by (unfold tent; lia). reflexivity. Qed.

Lemma tent_nonneg h t k : 0 <= tentQ h t k.
Proof. unfold tentQ. change 0 with (inject_Z 0). rewrite <- Zle_Qle. unfold tent. lia. Qed.

Section NoisyStep.
Variables (a b : Q) (t n : nat) (sg : list Q) (eps : Q) (h : Z) (scale : Q) (neg : bool) (D : Q).
Let stp := step_signal a b t n.
Let T := Z.of_nat t.
Let N := Z.of_nat n.
Hypothesis Hnz : noise_within eps stp sg.
Hypothesis Hh : (1 <= h <= T)%Z.
Hypothesis Hn : (T + h <= N)%Z.
Hypothesis Hs : 0 < scale.
Hypothesis HD : D == sgnQ neg * (b - a).
Hypothesis Hgap : 4 * eps < D.

Let conv := haar_conv sg None h scale.
Let G (k : Z) : Q := sgnQ neg * (haar_window sg h k / scale).
Let B := noise_bound_u h eps scale.
Let P := peak_floor_u h D eps scale.
Let dl := drop_per_bin_u D eps scale.

Lemma ns_len : length stp = n.
Proof. apply step_signal_length. unfold T, N in *. lia. Qed.

Lemma ns_eps : 0 <= eps.
Proof.
  apply (noise_eps_nonneg eps stp sg Hnz). intros C. pose proof ns_len as L. rewrite C in L.
  cbn in L. unfold T, N in *. lia.
Qed.

Lemma ns_conv_G k : (0 <= k < N)%Z -> qnth conv k == sgnQ neg * G k.
Proof.
  intros Hk. unfold conv, G. destruct Hnz as [Hl _]. rewrite ns_len in Hl.
  rewrite haar_conv_u_closed by (rewrite Hl; unfold T, N in *; lia).
  rewrite sgn_sq. reflexivity.
Qed.

Lemma ns_G_form k : (0 <= k < N)%Z ->
  G k == (D * tentQ h T k + sgnQ neg * dwin sg stp h k) / scale.
Proof.
  intros Hk. unfold G. rewrite (window_split sg stp h k). unfold stp.
  rewrite step_window by (unfold T, N in *; lia). fold T. rewrite HD.
  unfold Qdiv. ring.
Qed.

Lemma ns_dw k : (0 <= k < N)%Z ->
  - (2 * inject_Z h * eps) <= sgnQ neg * dwin sg stp h k /\ sgnQ neg * dwin sg stp h k <= 2 * inject_Z h * eps.
Proof.
  intros Hk. destruct (dwin_bounds eps stp sg h k Hnz) as [A1 A2]; try (rewrite ns_len; unfold T, N in *; lia).
  destruct neg; unfold sgnQ; lra.
Qed.

Lemma ns_dw_step k : (0 <= k)%Z -> (k + 1 < N)%Z ->
  - (4 * eps) <= sgnQ neg * dwin sg stp h (k + 1) - sgnQ neg * dwin sg stp h k /\
  sgnQ neg * dwin sg stp h (k + 1) - sgnQ neg * dwin sg stp h k <= 4 * eps.
Proof.
  intros Hk Hk1. destruct (dwin_step eps stp sg h k Hnz) as [A1 A2]; try (rewrite ns_len; unfold T, N in *; lia).
  destruct neg; unfold sgnQ; lra.
Qed.

Lemma ns_h_pos : 0 < inject_Z h.
Proof. apply inject_Z_pos. lia. Qed.

Lemma ns_HU k : (T - h <= k < T)%Z -> G k + dl <= G (k + 1)%Z.
Proof.
  intros Hk. rewrite !ns_G_form by lia. rewrite tent_up by lia.
  destruct (ns_dw_step k ltac:(lia) ltac:(lia)) as [A1 A2].
  unfold dl, drop_per_bin_u.
  assert (E : (D * tentQ h T k + sgnQ neg * dwin sg stp h k) / scale + (D - 4 * eps) / scale
              == (D * tentQ h T k + sgnQ neg * dwin sg stp h k + (D - 4 * eps)) / scale).
  { unfold Qdiv. ring. }
  rewrite E. apply div_le_pos; [exact Hs|]. lra.
Qed.

Lemma ns_HV k : (T <= k < T + h)%Z -> (k + 1 < N)%Z -> G (k + 1)%Z + dl <= G k.
Proof.
  intros Hk Hk1. rewrite !ns_G_form by lia. rewrite tent_down by lia.
  destruct (ns_dw_step k ltac:(lia) ltac:(lia)) as [A1 A2].
  unfold dl, drop_per_bin_u.
  assert (E : (D * (tentQ h T k - 1) + sgnQ neg * dwin sg stp h (k + 1)) / scale + (D - 4 * eps) / scale
              == (D * (tentQ h T k - 1) + sgnQ neg * dwin sg stp h (k + 1) + (D - 4 * eps)) / scale).
  { unfold Qdiv. ring. }
  rewrite E. apply div_le_pos; [exact Hs|]. lra.
Qed.

Lemma ns_HL k : (0 <= k < N)%Z -> - B <= G k.
Proof.
  intros Hk. rewrite ns_G_form by lia. unfold B, noise_bound_u. rewrite div_opp.
  apply div_le_pos; [exact Hs|]. destruct (ns_dw k Hk) as [A1 A2].
  pose proof (tent_nonneg h T k). pose proof ns_eps. nra.
Qed.

Lemma ns_HO k : (0 <= k < N)%Z -> (h <= Z.abs (k - T))%Z -> G k <= B.
Proof.
  intros Hk Hf. rewrite ns_G_form by lia. rewrite tent_zero by exact Hf. unfold B, noise_bound_u.
  apply div_le_pos; [exact Hs|]. destruct (ns_dw k Hk) as [A1 A2]. lra.
Qed.

Lemma ns_top : P <= G T.
Proof.
  rewrite ns_G_form by lia. rewrite tent_top by lia. unfold P, peak_floor_u.
  apply div_le_pos; [exact Hs|]. destruct (ns_dw T ltac:(lia)) as [A1 A2]. lra.
Qed.

Lemma ns_gap : B < P.
Proof.
  unfold B, P, noise_bound_u, peak_floor_u. apply div_lt_pos; [exact Hs|].
  pose proof ns_h_pos. nra.
Qed.

Lemma ns_HT : B < G T.
Proof. pose proof ns_top. pose proof ns_gap. lra. Qed.

Lemma ns_dl_pos : 0 < dl.
Proof.
  unfold dl, drop_per_bin_u. assert (E : 0 == 0 / scale) by (unfold Qdiv; ring). rewrite E.
  apply div_lt_pos; [exact Hs|lra].
Qed.

Lemma ns_B_hdl : B + inject_Z h * dl == P.
Proof. unfold B, P, dl, noise_bound_u, peak_floor_u, drop_per_bin_u. unfold Qdiv. ring. Qed.

Lemma ns_abs k : (0 <= k < N)%Z -> Qabs (qnth conv k) == Qabs (G k).
Proof. intros Hk. rewrite ns_conv_G by exact Hk. apply abs_sgn. Qed.

Lemma ns_abs_top : Qabs (qnth conv T) == G T.
Proof.
  rewrite ns_abs by lia. apply Qabs_pos.
  pose proof (uni_top_pos G B dl T h N ltac:(lia) ltac:(lia) ns_HU ns_HV ns_HL ns_HO ns_HT). lra.
Qed.

(* the value at the step position is at least the peak floor, above the noise bound *)
Lemma ns_floor : B < P /\ P <= Qabs (qnth conv T).
Proof. split; [apply ns_gap|]. rewrite ns_abs_top. apply ns_top. Qed.

(* outside the tent's support only the noise term is left *)
Lemma ns_outside k : (0 <= k < N)%Z -> (h <= Z.abs (k - T))%Z -> Qabs (qnth conv k) <= B.
Proof.
  intros Hk Hf. rewrite ns_abs by exact Hk. apply abs_le_iff. split; [apply ns_HL, Hk|apply ns_HO; assumption].
Qed.

(* inside it, |conv| has dropped by at least (D - 4 eps) / scale per bin of distance from t *)
Lemma ns_drop k : (0 <= k < N)%Z -> (Z.abs (k - T) <= h)%Z ->
  Qabs (qnth conv k) + inject_Z (Z.abs (k - T)) * dl <= Qabs (qnth conv T).
Proof.
  intros Hk Hc. rewrite ns_abs by exact Hk. rewrite ns_abs_top.
  pose proof (uni_drop G B dl T h N ns_HU ns_HV ns_HL ns_HO k Hk Hc) as Dp.
  apply Qabs_case; intros Sg; [exact Dp|].
  pose proof (ns_HL k Hk) as L. pose proof ns_top as Tp. pose proof ns_B_hdl as E. pose proof ns_dl_pos as Dl.
  assert (M : inject_Z (Z.abs (k - T)) <= inject_Z h) by (rewrite <- Zle_Qle; exact Hc).
  assert (M2 : inject_Z (Z.abs (k - T)) * dl <= inject_Z h * dl).
  { apply Qmult_le_compat_r; [exact M|lra]. }
  lra.
Qed.

(* hence the strict global maximum of |conv| is exactly at t *)
Lemma ns_max k : (0 <= k < N)%Z -> k <> T -> Qabs (qnth conv k) < Qabs (qnth conv T).
Proof.
  intros Hk Hne. rewrite ns_abs by exact Hk. rewrite ns_abs_top.
  destruct (uni_max G B dl T h N ltac:(lia) ltac:(lia) ns_dl_pos ns_HU ns_HV ns_HL ns_HO ns_HT k Hk Hne) as [M1 M2].
  apply abs_lt_iff. split; lra.
Qed.

(* FindLocalPeaks: t is reported; every other reported peak lies at distance >= h and is noise-sized *)
Lemma ns_peaks : (T + 2 <= N)%Z ->
  In T (find_local_peaks conv) /\
  (forall x, In x (find_local_peaks conv) -> x <> T ->
     (h <= Z.abs (x - T))%Z /\ Qabs (qnth conv x) <= B).
Proof.
  intros Ht.
  assert (Hlen : Z.of_nat (length conv) = N).
  { unfold conv. rewrite haar_conv_length. destruct Hnz as [Hl _]. rewrite Hl, ns_len. reflexivity. }
  destruct (unimodal_peaks G B dl T h N ltac:(lia) ltac:(lia) ns_dl_pos ns_HU ns_HV ns_HL ns_HO ns_HT conv neg Hlen Ht
              ns_conv_G) as [U1 U2].
  split; [exact U1|]. intros x Hx Hne. pose proof (U2 x Hx Hne) as Hf. split; [exact Hf|].
  destruct (peaks_sorted conv) as [_ R]. specialize (R x Hx).
  apply ns_outside; lia.
Qed.

(* every threshold in the gap keeps exactly the peak at t *)
Lemma ns_keep tau : (T + 2 <= N)%Z -> B < tau -> tau <= Qabs (qnth conv T) ->
  keep_ge conv tau (find_local_peaks conv) = [T].
Proof.
  intros Ht H1 H2. destruct (ns_peaks Ht) as [U1 U2]. destruct (peaks_sorted conv) as [Sp _].
  apply ssorted_ext; [apply ssorted_filter, Sp|repeat constructor|].
  intros x. unfold keep_ge. rewrite filter_In. split.
  - intros [Hx Hk]. destruct (Z.eq_dec x T) as [->|Hne]; [left; reflexivity|exfalso].
    destruct (U2 x Hx Hne) as [_ Hb]. apply Qle_bool_iff in Hk. unfold at_ in Hk. unfold qnth in Hb. lra.
  - intros [<-|[]]. split; [exact U1|]. apply Qle_bool_iff. exact H2.
Qed.

(* a threshold above the noise bound keeps nothing but (possibly) t *)
Lemma ns_keep_sub tau : (T + 2 <= N)%Z -> B < tau ->
  keep_ge conv tau (find_local_peaks conv) = [T] \/ keep_ge conv tau (find_local_peaks conv) = [].
Proof.
  intros Ht H1. destruct (Qlt_le_dec (Qabs (qnth conv T)) tau) as [L|L]; [right|left; apply ns_keep; assumption].
  destruct (ns_peaks Ht) as [U1 U2]. destruct (peaks_sorted conv) as [Sp _].
  apply ssorted_ext; [apply ssorted_filter, Sp|constructor|].
  intros x. unfold keep_ge. rewrite filter_In. split; [|intros []].
  intros [Hx Hk]. apply Qle_bool_iff in Hk. unfold at_ in Hk.
  destruct (Z.eq_dec x T) as [->|Hne]; [unfold qnth in L; lra|].
  destruct (U2 x Hx Hne) as [_ Hb]. unfold qnth in Hb. lra.
Qed.

Lemma ns_conv_all :
  B < P /\ P <= Qabs (qnth conv T) /\
  (forall k, (0 <= k < N)%Z -> (h <= Z.abs (k - T))%Z -> Qabs (qnth conv k) <= B) /\
  (forall k, (0 <= k < N)%Z -> (Z.abs (k - T) <= h)%Z ->
     Qabs (qnth conv k) + inject_Z (Z.abs (k - T)) * dl <= Qabs (qnth conv T)) /\
  (forall k, (0 <= k < N)%Z -> k <> T -> Qabs (qnth conv k) < Qabs (qnth conv T)).
Proof.
  destruct ns_floor as [F1 F2].
  split; [exact F1|]. split; [exact F2|]. split; [exact ns_outside|]. split; [exact ns_drop|exact ns_max].
Qed.

Lemma ns_all : (T + 2 <= N)%Z ->
  B < P /\ P <= Qabs (qnth conv T) /\
  (forall k, (0 <= k < N)%Z -> (h <= Z.abs (k - T))%Z -> Qabs (qnth conv k) <= B) /\
  (forall k, (0 <= k < N)%Z -> (Z.abs (k - T) <= h)%Z ->
     Qabs (qnth conv k) + inject_Z (Z.abs (k - T)) * dl <= Qabs (qnth conv T)) /\
  (forall k, (0 <= k < N)%Z -> k <> T -> Qabs (qnth conv k) < Qabs (qnth conv T)) /\
  In T (find_local_peaks conv) /\
  (forall x, In x (find_local_peaks conv) -> x <> T -> (h <= Z.abs (x - T))%Z /\ Qabs (qnth conv x) <= B) /\
  (forall tau, B < tau -> tau <= Qabs (qnth conv T) -> keep_ge conv tau (find_local_peaks conv) = [T]) /\
  (forall tau, B < tau ->
     keep_ge conv tau (find_local_peaks conv) = [T] \/ keep_ge conv tau (find_local_peaks conv) = []).
Proof.
  intros Ht. destruct ns_floor as [F1 F2]. destruct (ns_peaks Ht) as [P1 P2].
  split; [exact F1|]. split; [exact F2|]. split; [exact ns_outside|]. split; [exact ns_drop|].
  split; [exact ns_max|]. split; [exact P1|]. split; [exact P2|].
  split; [intros tau; apply ns_keep, Ht|intros tau; apply ns_keep_sub, Ht].
Qed.

End NoisyStep.

(* the same without the orientation parameter: D = |b - a| *)
Lemma noisy_step_level a b t n sg eps h scale :
  noise_within eps (step_signal a b t n) sg -> 0 < scale ->
  (1 <= h <= Z.of_nat t)%Z -> (Z.of_nat t + h <= Z.of_nat n)%Z -> (Z.of_nat t + 2 <= Z.of_nat n)%Z ->
  4 * eps < Qabs (b - a) ->
  let T := Z.of_nat t in
  let N := Z.of_nat n in
  let conv := haar_conv sg None h scale in
  let B := noise_bound_u h eps scale in
  let P := peak_floor_u h (Qabs (b - a)) eps scale in
  let dl := drop_per_bin_u (Qabs (b - a)) eps scale in
  B < P /\ P <= Qabs (qnth conv T) /\
  (forall k, (0 <= k < N)%Z -> (h <= Z.abs (k - T))%Z -> Qabs (qnth conv k) <= B) /\
  (forall k, (0 <= k < N)%Z -> (Z.abs (k - T) <= h)%Z ->
     Qabs (qnth conv k) + inject_Z (Z.abs (k - T)) * dl <= Qabs (qnth conv T)) /\
  (forall k, (0 <= k < N)%Z -> k <> T -> Qabs (qnth conv k) < Qabs (qnth conv T)) /\
  In T (find_local_peaks conv) /\
  (forall x, In x (find_local_peaks conv) -> x <> T -> (h <= Z.abs (x - T))%Z /\ Qabs (qnth conv x) <= B) /\
  (forall tau, B < tau -> tau <= Qabs (qnth conv T) -> keep_ge conv tau (find_local_peaks conv) = [T]) /\
  (forall tau, B < tau ->
     keep_ge conv tau (find_local_peaks conv) = [T] \/ keep_ge conv tau (find_local_peaks conv) = []).
Proof.
  intros Hnz Hs Hh Hn Ht Hgap T N conv B P dl.
  destruct (Qlt_le_dec a b) as [L|L].
  - apply (ns_all a b t n sg eps h scale false (Qabs (b - a))); try assumption.
    rewrite Qabs_pos by lra. unfold sgnQ. ring.
  - apply (ns_all a b t n sg eps h scale true (Qabs (b - a))); try assumption.
    rewrite Qabs_neg by lra. unfold sgnQ. ring.
Qed.

(* ---------- means of noisy segments ---------- *)

Lemma range_mean_within d s e c eps :
  (s < e)%Z -> (forall j, (s <= j < e)%Z -> Qabs (at_ d j - c) <= eps) ->
  Qabs (range_mean d s e - c) <= eps.
Proof.
  intros Hse Hb. unfold range_mean.
  destruct (wsum_bounds (fun j => at_ d j - c) s (Z.to_nat (e - s)) eps) as [A1 A2].
  { intros j Hj. apply abs_le_iff, Hb. lia. }
  rewrite wsum_minus in A1, A2.
  rewrite (wsum_const (fun _ => c) s (Z.to_nat (e - s)) c) in A1, A2 by (intros; reflexivity).
  rewrite Z2Nat.id in A1, A2 by lia.
  assert (Hp : 0 < inject_Z (e - s)) by (apply inject_Z_pos; lia).
  assert (E : wsum (at_ d) s (Z.to_nat (e - s)) / inject_Z (e - s) - c
              == (wsum (at_ d) s (Z.to_nat (e - s)) - inject_Z (e - s) * c) / inject_Z (e - s)).
  { field. lra. }
  rewrite E. apply abs_le_iff. split.
  - apply Qle_shift_div_l; [exact Hp|]. lra.
  - apply Qle_shift_div_r; [exact Hp|]. lra.
Qed.

(* ---------- the level loop when every level keeps [t] or nothing ---------- *)

Lemma fold_single_or_none T (addon : Z -> list Z) (wfun : Z -> Z) :
  (0 <= T)%Z ->
  forall ls bps,
  (forall l, In l ls -> (0 <= wfun l)%Z /\ (addon l = [T] \/ addon l = [])) ->
  (bps = [T] \/ bps = []) ->
  ((bps = [T] \/ exists l, In l ls /\ addon l = [T]) ->
   fold_left (fun bps l => unify_levels bps (addon l) (wfun l)) ls bps = [T]) /\
  (bps = [] -> (forall l, In l ls -> addon l = []) ->
   fold_left (fun bps l => unify_levels bps (addon l) (wfun l)) ls bps = []).
Proof.
  intros HT. induction ls as [|l ls IH]; intros bps Hls Hb.
  - cbn [fold_left]. split.
    + intros [E|[l [[] _]]]. exact E.
    + intros E _. exact E.
  - cbn [fold_left]. destruct (Hls l (or_introl eq_refl)) as [Hw Ha].
    assert (Hls' : forall l', In l' ls -> (0 <= wfun l')%Z /\ (addon l' = [T] \/ addon l' = [])).
    { intros l' Hl'. apply Hls. right. exact Hl'. }
    assert (Hnext : (bps = [T] \/ addon l = [T] -> unify_levels bps (addon l) (wfun l) = [T]) /\
                    (bps = [] -> addon l = [] -> unify_levels bps (addon l) (wfun l) = [])).
    { split.
      - intros Hc. destruct Hb as [->| ->], Ha as [Ea|Ea]; rewrite Ea.
        + apply unify_same, Hw.
        + reflexivity.
        + apply unify_first, HT.
        + destruct Hc as [C|C]; [discriminate|congruence].
      - intros -> Ea. rewrite Ea. reflexivity. }
    destruct Hnext as [N1 N2].
    assert (Hb' : unify_levels bps (addon l) (wfun l) = [T] \/ unify_levels bps (addon l) (wfun l) = []).
    { destruct Hb as [Eb|Eb]; [left; apply N1; left; exact Eb|].
      destruct Ha as [Ea|Ea]; [left; apply N1; right; exact Ea|right; apply N2; assumption]. }
    destruct (IH _ Hls' Hb') as [I1 I2]. split.
    + intros [Eb|[l' [[<-|Hl'] Ea]]].
      * apply I1. left. apply N1. left. exact Eb.
      * apply I1. left. apply N1. right. exact Ea.
      * apply I1. right. exists l'. split; assumption.
    + intros Eb Hall. apply I2.
      * apply N2; [exact Eb|apply Hall; left; reflexivity].
      * intros l' Hl'. apply Hall. right. exact Hl'.
Qed.

Section NoisePipeline.
Variable scale_u scale_w : Z -> Q.
Variable pvals : Z -> list Q.
Variable absorb : Z -> bool.

(* the FDR threshold haarSeg computes at a level: FDRThres(convRes[peakLoc], q, sigma) *)
Definition level_thres (sg : list Q) (wt : option (list Q)) (q : Q) (level : Z) : Q :=
  let conv := conv_level scale_u scale_w sg wt (2 ^ level) in
  fdr_thres (map (qnth conv) (find_local_peaks conv)) q (pvals level) (absorb level).

Lemma level_addon_keep sg wt q level :
  level_addon scale_u scale_w pvals absorb sg wt q level =
  keep_ge (conv_level scale_u scale_w sg wt (2 ^ level)) (level_thres sg wt q level)
          (find_local_peaks (conv_level scale_u scale_w sg wt (2 ^ level))).
Proof. reflexivity. Qed.

Hypothesis scale_u_pos : forall h, 0 < scale_u h.

(* one level of haarSeg on a noisy step: the add-on peaks are [t] or nothing when the level's
   threshold exceeds the noise bound, and [t] when it also does not exceed |conv t| *)
Lemma noisy_step_addon a b t n sg eps q level :
  noise_within eps (step_signal a b t n) sg -> (32 <= t)%nat -> (t + 32 <= n)%nat ->
  4 * eps < Qabs (b - a) -> (1 <= level <= 5)%Z ->
  ((2 <= length (level_peaks scale_u scale_w sg None level))%nat ->
   noise_bound_u (2 ^ level) eps (scale_u (2 ^ level)) < level_thres sg None q level) ->
  (level_addon scale_u scale_w pvals absorb sg None q level = [Z.of_nat t] \/
   level_addon scale_u scale_w pvals absorb sg None q level = []) /\
  (level_thres sg None q level <= Qabs (qnth (conv_level scale_u scale_w sg None (2 ^ level)) (Z.of_nat t)) ->
   level_addon scale_u scale_w pvals absorb sg None q level = [Z.of_nat t]).
Proof.
  intros Hnz Ht Hn Hgap Hl Hthr. pose proof (pow2_le32 level Hl) as P2.
  destruct (noisy_step_level a b t n sg eps (2 ^ level) (scale_u (2 ^ level)) Hnz (scale_u_pos _)
              ltac:(lia) ltac:(lia) ltac:(lia) Hgap) as [_ [_ [_ [_ [_ [Kin [_ [K1 K2]]]]]]]].
  destruct (le_lt_dec 2 (length (level_peaks scale_u scale_w sg None level))) as [M|M].
  - specialize (Hthr M). rewrite level_addon_keep. split.
    + apply K2. exact Hthr.
    + intros Hle. apply K1; [exact Hthr|exact Hle].
  - assert (E : level_addon scale_u scale_w pvals absorb sg None q level = [Z.of_nat t]).
    { unfold level_addon. unfold level_peaks in M. unfold conv_level in *. cbv zeta in Kin.
      remember (find_local_peaks (haar_conv sg None (2 ^ level) (scale_u (2 ^ level)))) as pk eqn:Ep.
      destruct pk as [|x [|y r]].
      - destruct Kin.
      - destruct Kin as [->|[]]. cbn [map]. rewrite fdr_thres_single. cbn [filter].
        rewrite Qle_bool_0_abs. reflexivity.
      - cbn [length] in M. lia. }
    rewrite E. split; [left; reflexivity|intros _; reflexivity].
Qed.

Lemma noisy_step_seg a b t n sg eps q :
  noise_within eps (step_signal a b t n) sg -> (32 <= t)%nat -> (t + 32 <= n)%nat ->
  4 * eps < Qabs (b - a) ->
  (forall l, (1 <= l <= 5)%Z -> (2 <= length (level_peaks scale_u scale_w sg None l))%nat ->
     noise_bound_u (2 ^ l) eps (scale_u (2 ^ l)) < level_thres sg None q l) ->
  (exists l, (1 <= l <= 5)%Z /\
     level_thres sg None q l <= Qabs (qnth (conv_level scale_u scale_w sg None (2 ^ l)) (Z.of_nat t))) ->
  let r := haar_seg scale_u scale_w pvals absorb sg None q in
  let T := Z.of_nat t in
  let N := Z.of_nat n in
  hr_breaks r = [T] /\ hr_start r = [0; T]%Z /\ hr_end r = [T - 1; N - 1]%Z /\ hr_size r = [T; N - T]%Z /\
  exists m1 m2, hr_mean r = [m1; m2] /\ Qabs (m1 - a) <= eps /\ Qabs (m2 - b) <= eps.
Proof.
  intros Hnz Ht Hn Hgap Hthr [l0 [Hl0 Hkeep]] r T N.
  assert (Hstp : length (step_signal a b t n) = n) by (apply step_signal_length; lia).
  assert (Hlen : length sg = n) by (destruct Hnz as [Hl _]; rewrite Hl; exact Hstp).
  assert (Hb : haar_breakpoints_over scale_u scale_w pvals absorb haar_levels sg None q = [T]).
  { unfold haar_breakpoints_over.
    destruct (fold_single_or_none T (fun l => level_addon scale_u scale_w pvals absorb sg None q l)
                (fun l => (2 ^ (l - 1))%Z) ltac:(unfold T; lia) haar_levels []) as [F1 _].
    - intros l Hl. apply haar_levels_range in Hl. split; [apply Z.pow_nonneg; lia|].
      apply (noisy_step_addon a b t n sg eps q l); try assumption. apply Hthr, Hl.
    - right. reflexivity.
    - apply F1. right. exists l0. split.
      + rewrite haar_levels_eq. cbn [In]. lia.
      + apply (noisy_step_addon a b t n sg eps q l0); try assumption. apply Hthr, Hl0. }
  unfold r, haar_seg. rewrite Hb. unfold haar_result_of.
  cbn [hr_breaks hr_start hr_end hr_size hr_mean app map combine fst snd].
  unfold Zlength_nat. rewrite Hlen. fold N. rewrite Z.sub_0_r.
  repeat (split; [reflexivity|]).
  eexists. eexists. split; [reflexivity|].
  assert (Hne : sg <> []) by (intros C; rewrite C in Hlen; cbn in Hlen; lia).
  assert (Hbi : breaks_in (Zlength_nat sg) [T]).
  { unfold Zlength_nat. rewrite Hlen. split; [repeat constructor|]. intros x [<-|[]]. unfold T. lia. }
  assert (Hat : forall j, (0 <= j < N)%Z ->
            Qabs (at_ sg j - (if (Z.to_nat j <? t)%nat then a else b)) <= eps).
  { intros j Hj. destruct Hnz as [_ Hbd]. specialize (Hbd j). rewrite Hstp in Hbd. specialize (Hbd Hj).
    unfold at_ in Hbd at 2. rewrite nth_step in Hbd by (unfold N in Hj; lia). exact Hbd. }
  split.
  - rewrite (segment_by_peaks_nth sg [T] None 0 T 0 Hne Hbi); [|left; reflexivity|unfold T; lia].
    pose proof (seg_mean_spec sg None 0 T ltac:(unfold T; lia) ltac:(rewrite Hlen; unfold T; lia) I) as Sm.
    cbn [is_segment_mean] in Sm. rewrite Sm.
    apply range_mean_within; [unfold T; lia|]. intros j Hj.
    pose proof (Hat j ltac:(unfold T, N in *; lia)) as A.
    replace (Z.to_nat j <? t)%nat with true in A by (symmetry; apply Nat.ltb_lt; unfold T in Hj; lia).
    exact A.
  - rewrite (segment_by_peaks_nth sg [T] None T N T Hne Hbi);
      [|unfold Zlength_nat; rewrite Hlen; right; left; reflexivity|unfold T, N; lia].
    pose proof (seg_mean_spec sg None T N ltac:(unfold T, N; lia) ltac:(rewrite Hlen; unfold N; lia) I) as Sm.
    cbn [is_segment_mean] in Sm. rewrite Sm.
    apply range_mean_within; [unfold T, N; lia|]. intros j Hj.
    pose proof (Hat j ltac:(unfold T, N in *; lia)) as A.
    replace (Z.to_nat j <? t)%nat with false in A by (symmetry; apply Nat.ltb_ge; unfold T in Hj; lia).
    exact A.
Qed.

End NoisePipeline.

(* ---------- weighted: the convolution moves by at most 2 eps scale ---------- *)

Lemma wmean_bounds (dd pw : Z -> Q) a len eps :
  (0 < len)%nat ->
  (forall j, (a <= j < a + Z.of_nat len)%Z -> 0 < pw j /\ - eps <= dd j /\ dd j <= eps) ->
  - eps <= wsum (fun j => dd j * pw j) a len / wsum pw a len /\
  wsum (fun j => dd j * pw j) a len / wsum pw a len <= eps.
Proof.
  intros Hl H.
  assert (Wp : 0 < wsum pw a len) by (apply wsum_pos; [exact Hl|intros j Hj; apply H, Hj]).
  assert (U : 0 <= wsum (fun j => eps * pw j - dd j * pw j) a len).
  { apply wsum_nonneg. intros j Hj. destruct (H j Hj) as [P [L1 L2]]. nra. }
  assert (L : 0 <= wsum (fun j => eps * pw j - (- dd j) * pw j) a len).
  { apply wsum_nonneg. intros j Hj. destruct (H j Hj) as [P [L1 L2]]. nra. }
  rewrite wsum_minus, wsum_scale in U.
  rewrite wsum_minus, wsum_scale in L.
  assert (E : wsum (fun j => - dd j * pw j) a len == - wsum (fun j => dd j * pw j) a len).
  { rewrite (wsum_ext (fun j => - dd j * pw j) (fun j => (- (1)) * (dd j * pw j)) a len) by (intros; ring).
    rewrite wsum_scale. ring. }
  rewrite E in L. split.
  - apply Qle_shift_div_l; [exact Wp|]. lra.
  - apply Qle_shift_div_r; [exact Wp|]. lra.
Qed.

Lemma noise_conv_bound_w eps c sg w h scale k :
  noise_within eps c sg -> length w = length c -> all_pos w -> 0 < scale ->
  (1 <= h <= Z.of_nat (length c))%Z -> (1 <= k < Z.of_nat (length c))%Z ->
  Qabs (qnth (haar_conv sg (Some w) h scale) k - qnth (haar_conv c (Some w) h scale) k) <= noise_bound_w eps scale.
Proof.
  intros Hn Hlw Hp Hs Hh Hk. pose proof Hn as [Hl _].
  rewrite (haar_conv_w_closed sg) by (rewrite ?Hl; try exact Hlw; lia).
  rewrite (haar_conv_w_closed c) by (try exact Hlw; lia).
  set (dd := fun j => padded sg j - padded c j).
  assert (Hhw : (1 <= h <= Z.of_nat (length w))%Z) by (rewrite Hlw; exact Hh).
  assert (Hkw : (0 <= k < Z.of_nat (length w))%Z) by (rewrite Hlw; lia).
  assert (R : forall s, (k - h <= s)%Z -> (s + h <= k + h)%Z ->
            - eps <= wsum (fun j => dd j * padded w j) s (Z.to_nat h) / wsum (padded w) s (Z.to_nat h) /\
            wsum (fun j => dd j * padded w j) s (Z.to_nat h) / wsum (padded w) s (Z.to_nat h) <= eps).
  { intros s S1 S2. apply wmean_bounds; [lia|]. intros j Hj. split.
    - apply (padded_Forall (fun x => 0 < x) w h k j Hp Hhw Hkw). lia.
    - apply (padded_noise eps c sg j Hn). lia. }
  assert (Wp : forall s, (k - h <= s)%Z -> (s + h <= k + h)%Z -> 0 < wsum (padded w) s (Z.to_nat h)).
  { intros s S1 S2. apply wsum_pos; [lia|]. intros j Hj.
    apply (padded_Forall (fun x => 0 < x) w h k j Hp Hhw Hkw). lia. }
  assert (Sp : forall s, wsum (padded_prod sg w) s (Z.to_nat h)
                         == wsum (padded_prod c w) s (Z.to_nat h) + wsum (fun j => dd j * padded w j) s (Z.to_nat h)).
  { intros s. rewrite <- wsum_plus. apply wsum_ext. intros j Hj. unfold padded_prod, dd. ring. }
  destruct (R k ltac:(lia) ltac:(lia)) as [A1 A2]. destruct (R (k - h)%Z ltac:(lia) ltac:(lia)) as [B1 B2].
  pose proof (Wp k ltac:(lia) ltac:(lia)) as W1. pose proof (Wp (k - h)%Z ltac:(lia) ltac:(lia)) as W2.
  assert (E : scale * haar_window_w sg w h k - scale * haar_window_w c w h k ==
              scale * (wsum (fun j => dd j * padded w j) k (Z.to_nat h) / wsum (padded w) k (Z.to_nat h)
                       - wsum (fun j => dd j * padded w j) (k - h)%Z (Z.to_nat h) / wsum (padded w) (k - h)%Z (Z.to_nat h))).
  { unfold haar_window_w. rewrite (Sp k), (Sp (k - h)%Z). field. split; lra. }
  rewrite E. unfold noise_bound_w. apply abs_le_iff. split; nra.
Qed.

(* ---------- flat profiles ---------- *)

Lemma flat_noise_within eps c sg : flat_within eps c sg -> noise_within eps (repeat c (length sg)) sg.
Proof.
  intros H. split; [rewrite repeat_length; reflexivity|]. rewrite repeat_length. intros i Hi.
  unfold at_ at 2. rewrite nth_repeat_lt by lia. apply H, Hi.
Qed.

Lemma Forall0_qnth (l : list Q) k : Forall (fun x => x == 0) l -> qnth l k == 0.
Proof.
  intros H. unfold qnth. destruct (Nat.lt_ge_cases (Z.to_nat k) (length l)) as [L|L].
  - apply (nth_Forall (fun x => x == 0) l _ H L).
  - rewrite nth_overflow by exact L. reflexivity.
Qed.

Lemma noisy_flat_conv_u eps c sg h scale k :
  flat_within eps c sg -> 0 <= eps -> 0 < scale -> (1 <= h)%Z -> (0 <= k < Z.of_nat (length sg))%Z ->
  Qabs (qnth (haar_conv sg None h scale) k) <= noise_bound_u h eps scale.
Proof.
  intros Hf He Hs Hh Hk.
  assert (B0 : 0 <= noise_bound_u h eps scale).
  { unfold noise_bound_u. assert (E : 0 == 0 / scale) by (unfold Qdiv; ring). rewrite E.
    apply div_le_pos; [exact Hs|]. assert (0 < inject_Z h) by (apply inject_Z_pos; lia). nra. }
  destruct (Z_lt_le_dec (Z.of_nat (length sg)) h) as [Sh|Sh].
  - rewrite (Forall0_qnth _ k (haar_conv_short sg None h scale Sh)). exact B0.
  - pose proof (noise_conv_bound_u eps (repeat c (length sg)) sg h scale k (flat_noise_within eps c sg Hf) Hs) as Nb.
    rewrite repeat_length in Nb. specialize (Nb ltac:(lia) Hk).
    assert (Z0 : qnth (haar_conv (repeat c (length sg)) None h scale) k == 0).
    { apply Forall0_qnth. apply (flat_conv_zero c); [apply all_eq_repeat|exact I|exact Hh]. }
    rewrite Z0 in Nb. assert (E : qnth (haar_conv sg None h scale) k - 0 == qnth (haar_conv sg None h scale) k) by ring.
    rewrite E in Nb. exact Nb.
Qed.

Lemma noisy_flat_conv_w eps c sg w h scale k :
  flat_within eps c sg -> length w = length sg -> all_pos w ->
  0 <= eps -> 0 < scale -> (1 <= h)%Z -> (0 <= k < Z.of_nat (length sg))%Z ->
  Qabs (qnth (haar_conv sg (Some w) h scale) k) <= noise_bound_w eps scale.
Proof.
  intros Hf Hlw Hp He Hs Hh Hk.
  assert (B0 : 0 <= noise_bound_w eps scale) by (unfold noise_bound_w; nra).
  destruct (Z_lt_le_dec (Z.of_nat (length sg)) h) as [Sh|Sh].
  - rewrite (Forall0_qnth _ k (haar_conv_short sg (Some w) h scale Sh)). exact B0.
  - destruct (Z.eq_dec k 0) as [->|K0]; [rewrite haar_conv_0; exact B0|].
    pose proof (noise_conv_bound_w eps (repeat c (length sg)) sg w h scale k (flat_noise_within eps c sg Hf)) as Nb.
    rewrite repeat_length in Nb. specialize (Nb Hlw Hp Hs ltac:(lia) ltac:(lia)).
    assert (Z0 : qnth (haar_conv (repeat c (length sg)) (Some w) h scale) k == 0).
    { apply Forall0_qnth. apply (flat_conv_zero c); [apply all_eq_repeat| |exact Hh].
      split; [rewrite repeat_length; exact Hlw|exact Hp]. }
    rewrite Z0 in Nb.
    assert (E : qnth (haar_conv sg (Some w) h scale) k - 0 == qnth (haar_conv sg (Some w) h scale) k) by ring.
    rewrite E in Nb. exact Nb.
Qed.

Lemma keep_ge_none conv tau peaks :
  (forall x, In x peaks -> Qabs (qnth conv x) < tau) -> keep_ge conv tau peaks = [].
Proof.
  intros H. unfold keep_ge. induction peaks as [|x t IH]; [reflexivity|]. cbn [filter].
  assert (F : Qle_bool tau (Qabs (at_ conv x)) = false).
  { destruct (Qle_bool tau (Qabs (at_ conv x))) eqn:E; [|reflexivity].
    apply Qle_bool_iff in E. specialize (H x (or_introl eq_refl)). unfold qnth in H. unfold at_ in E. lra. }
  rewrite F. apply IH. intros y Hy. apply H. right. exact Hy.
Qed.

Lemma range_wmean_within d w s e c eps :
  (s < e)%Z -> (forall j, (s <= j < e)%Z -> 0 < at_ w j /\ Qabs (at_ d j - c) <= eps) ->
  Qabs (range_wmean d w s e - c) <= eps.
Proof.
  intros Hse Hb. unfold range_wmean, range_weight.
  destruct (wmean_bounds (fun j => at_ d j - c) (at_ w) s (Z.to_nat (e - s)) eps) as [A1 A2]; [lia| |].
  { intros j Hj. destruct (Hb j ltac:(lia)) as [P Ab]. split; [exact P|]. apply abs_le_iff, Ab. }
  assert (Wp : 0 < wsum (at_ w) s (Z.to_nat (e - s))).
  { apply wsum_pos; [lia|]. intros j Hj. apply (Hb j). lia. }
  assert (Sp : wsum (fun j => (at_ d j - c) * at_ w j) s (Z.to_nat (e - s))
               == wsum (fun j => at_ d j * at_ w j) s (Z.to_nat (e - s)) - c * wsum (at_ w) s (Z.to_nat (e - s))).
  { rewrite <- wsum_scale, <- wsum_minus. apply wsum_ext. intros j Hj. ring. }
  rewrite Sp in A1, A2.
  assert (E : wsum (fun j => at_ d j * at_ w j) s (Z.to_nat (e - s)) / wsum (at_ w) s (Z.to_nat (e - s)) - c
              == (wsum (fun j => at_ d j * at_ w j) s (Z.to_nat (e - s)) - c * wsum (at_ w) s (Z.to_nat (e - s)))
                 / wsum (at_ w) s (Z.to_nat (e - s))).
  { field. lra. }
  rewrite E. apply abs_le_iff. split; assumption.
Qed.

Section NoiseFlat.
Variable scale_u scale_w : Z -> Q.
Variable pvals : Z -> list Q.
Variable absorb : Z -> bool.
Hypothesis scale_u_pos : forall h, 0 < scale_u h.
Hypothesis scale_w_pos : forall h, 0 < scale_w h.

(* how far noise of magnitude eps can move a convolution value at a level *)
Definition level_noise_bound (wt : option (list Q)) (eps : Q) (h : Z) : Q :=
  match wt with
  | None => noise_bound_u h eps (scale_u h)
  | Some _ => noise_bound_w eps (scale_w h)
  end.

Lemma noisy_flat_level eps c sg wt h k :
  flat_within eps c sg -> weights_ok sg wt -> 0 <= eps -> (1 <= h)%Z -> (0 <= k < Z.of_nat (length sg))%Z ->
  Qabs (qnth (conv_level scale_u scale_w sg wt h) k) <= level_noise_bound wt eps h.
Proof.
  intros Hf Hw He Hh Hk. unfold conv_level, level_noise_bound. destruct wt as [w|].
  - destruct Hw as [Hlw Hp]. apply (noisy_flat_conv_w eps c); try assumption. apply scale_w_pos.
  - apply (noisy_flat_conv_u eps c); try assumption. apply scale_u_pos.
Qed.

Lemma noisy_flat_addon eps c sg wt q level :
  flat_within eps c sg -> weights_ok sg wt -> 0 <= eps -> (0 <= level)%Z ->
  (level_peaks scale_u scale_w sg wt level <> [] ->
   level_noise_bound wt eps (2 ^ level) < level_thres scale_u scale_w pvals absorb sg wt q level) ->
  level_addon scale_u scale_w pvals absorb sg wt q level = [].
Proof.
  intros Hf Hw He Hl Hthr.
  destruct (level_peaks scale_u scale_w sg wt level) as [|x0 r0] eqn:Ep.
  { unfold level_addon. unfold level_peaks in Ep. rewrite Ep. reflexivity. }
  specialize (Hthr ltac:(discriminate)). rewrite level_addon_keep. apply keep_ge_none. intros x Hx.
  destruct (peaks_sorted (conv_level scale_u scale_w sg wt (2 ^ level))) as [_ R]. specialize (R x Hx).
  unfold conv_level in R at 1. rewrite haar_conv_length in R.
  pose proof (noisy_flat_level eps c sg wt (2 ^ level) x Hf Hw He ltac:(pose proof (Z.pow_pos_nonneg 2 level ltac:(lia) Hl); lia) ltac:(lia)). lra.
Qed.

Lemma noisy_flat_seg eps c sg wt q :
  flat_within eps c sg -> weights_ok sg wt -> sg <> [] ->
  (forall l, (1 <= l <= 5)%Z -> level_peaks scale_u scale_w sg wt l <> [] ->
     level_noise_bound wt eps (2 ^ l) < level_thres scale_u scale_w pvals absorb sg wt q l) ->
  let n := Zlength_nat sg in
  let r := haar_seg scale_u scale_w pvals absorb sg wt q in
  hr_breaks r = [] /\ hr_start r = [0%Z] /\ hr_end r = [(n - 1)%Z] /\ hr_size r = [n] /\
  exists m, hr_mean r = [m] /\ Qabs (m - c) <= eps.
Proof.
  intros Hf Hw Hne Hthr n r.
  assert (Hn : (0 < n)%Z) by (apply Zlength_pos, Hne).
  assert (He : 0 <= eps).
  { specialize (Hf 0%Z ltac:(unfold n, Zlength_nat in Hn; lia)).
    pose proof (Qabs_nonneg (at_ sg 0 - c)). lra. }
  assert (Hb : haar_breakpoints_over scale_u scale_w pvals absorb haar_levels sg wt q = []).
  { unfold haar_breakpoints_over.
    destruct (fold_single_or_none 0%Z (fun l => level_addon scale_u scale_w pvals absorb sg wt q l)
                (fun l => (2 ^ (l - 1))%Z) ltac:(lia) haar_levels []) as [_ F2].
    - intros l Hl. apply haar_levels_range in Hl. split; [apply Z.pow_nonneg; lia|]. right.
      apply (noisy_flat_addon eps c); try assumption; [lia|apply Hthr, Hl].
    - right. reflexivity.
    - apply F2; [reflexivity|]. intros l Hl. apply haar_levels_range in Hl.
      apply (noisy_flat_addon eps c); try assumption; [lia|apply Hthr, Hl]. }
  unfold r, haar_seg. rewrite Hb. unfold haar_result_of.
  cbn [hr_breaks hr_start hr_end hr_size hr_mean app map combine fst snd]. fold n. rewrite Z.sub_0_r.
  repeat (split; [reflexivity|]).
  eexists. split; [reflexivity|].
  assert (Hbi : breaks_in (Zlength_nat sg) []) by (split; [constructor|intros x []]).
  rewrite (segment_by_peaks_nth sg [] wt 0 n 0 Hne Hbi); [|left; reflexivity|lia].
  assert (Hwl : wt_len_ok sg wt) by (destruct wt as [w|]; [destruct Hw as [Hlw _]; exact Hlw|exact I]).
  pose proof (seg_mean_spec sg wt 0 n ltac:(lia) ltac:(unfold n, Zlength_nat; lia) Hwl) as Sm.
  destruct wt as [w|]; cbn [is_segment_mean] in Sm.
  - destruct Hw as [Hlw Hp].
    assert (Hwp : forall j, (0 <= j < n)%Z -> 0 < at_ w j).
    { intros j Hj. unfold at_. apply (nth_Forall (fun x => 0 < x) w _ Hp). rewrite Hlw. unfold n, Zlength_nat in Hj. lia. }
    assert (Rw : 0 < range_weight w 0 n).
    { unfold range_weight. apply wsum_pos; [lia|]. intros j Hj. apply Hwp. lia. }
    destruct Sm as [Sm _]. rewrite (Sm Rw).
    apply range_wmean_within; [lia|]. intros j Hj. split; [apply Hwp, Hj|].
    apply Hf. unfold n, Zlength_nat in Hj. lia.
  - rewrite Sm. apply range_mean_within; [lia|]. intros j Hj. apply Hf. unfold n, Zlength_nat in Hj. lia.
Qed.

End NoiseFlat.

(* ---------- a step with bounded noise, arbitrary positive weights (absolute bounds) ---------- *)

Lemma noisy_step_level_w a b t n w sg eps h scale :
  noise_within eps (step_signal a b t n) sg -> length w = n -> all_pos w -> 0 < scale ->
  (1 <= h <= Z.of_nat t)%Z -> (Z.of_nat t + h <= Z.of_nat n)%Z ->
  let T := Z.of_nat t in
  let N := Z.of_nat n in
  let conv := haar_conv sg (Some w) h scale in
  let B := noise_bound_w eps scale in
  let P := peak_floor_w (Qabs (b - a)) eps scale in
  (forall k, (0 <= k < N)%Z -> Qabs (qnth conv k - scale * (b - a) * weighted_tent w T h k) <= B) /\
  P <= Qabs (qnth conv T) /\
  (forall k, (0 <= k < N)%Z -> (h <= Z.abs (k - T))%Z -> Qabs (qnth conv k) <= B) /\
  (4 * eps < Qabs (b - a) -> B < P /\
     forall k, (0 <= k < N)%Z -> (h <= Z.abs (k - T))%Z -> Qabs (qnth conv k) < Qabs (qnth conv T)).
Proof.
  intros Hnz Hlw Hp Hs Hh Hn T N conv B P. subst T N.
  assert (Hstp : length (step_signal a b t n) = n) by (apply step_signal_length; lia).
  assert (He : 0 <= eps).
  { apply (noise_eps_nonneg eps _ sg Hnz). intros C. rewrite C in Hstp. cbn in Hstp. lia. }
  assert (B0 : 0 <= B) by (unfold B, noise_bound_w; nra).
  assert (H1 : forall k, (0 <= k < Z.of_nat n)%Z -> Qabs (qnth conv k - scale * (b - a) * weighted_tent w (Z.of_nat t) h k) <= B).
  { intros k Hk. destruct (Z.eq_dec k 0) as [->|K0].
    - unfold conv. rewrite haar_conv_0.
      rewrite (wt_zero_left w t n h Hlw Hh 0%Z) by lia.
      assert (E : 0 - scale * (b - a) * 0 == 0) by ring. rewrite E. exact B0.
    - pose proof (noise_conv_bound_w eps (step_signal a b t n) sg w h scale k Hnz) as Nb.
      rewrite Hstp in Nb. specialize (Nb Hlw Hp Hs ltac:(lia) ltac:(lia)).
      rewrite (step_conv_w w t n h Hlw Hp Hh Hn a b scale k Hk) in Nb. exact Nb. }
  assert (Hout : forall k, (0 <= k < Z.of_nat n)%Z -> (h <= Z.abs (k - Z.of_nat t))%Z -> Qabs (qnth conv k) <= B).
  { intros k Hk Hf. pose proof (H1 k Hk) as A.
    assert (Z0 : weighted_tent w (Z.of_nat t) h k == 0).
    { destruct (Z_le_gt_dec k (Z.of_nat t)) as [L|L].
      - apply (wt_zero_left w t n h Hlw Hh k); lia.
      - apply (wt_zero_right w t n h Hlw Hp Hh Hn k); lia. }
    rewrite Z0 in A.
    assert (E : qnth conv k - scale * (b - a) * 0 == qnth conv k) by ring. rewrite E in A. exact A. }
  assert (Htop : P <= Qabs (qnth conv (Z.of_nat t))).
  { pose proof (H1 (Z.of_nat t) ltac:(lia)) as A.
    rewrite (wt_top w t n h Hlw Hp Hh Hn) in A.
    pose proof (Qabs_triangle_reverse (scale * (b - a) * 1) (qnth conv (Z.of_nat t))) as Tr.
    rewrite (Qabs_Qminus (scale * (b - a) * 1) (qnth conv (Z.of_nat t))) in Tr.
    assert (Es : Qabs (scale * (b - a) * 1) == scale * Qabs (b - a)).
    { assert (E : scale * (b - a) * 1 == scale * (b - a)) by ring. rewrite E, Qabs_Qmult.
      rewrite (Qabs_pos scale) by lra. reflexivity. }
    rewrite Es in Tr. unfold P, peak_floor_w. unfold B, noise_bound_w in A. lra. }
  split; [exact H1|]. split; [exact Htop|]. split; [exact Hout|].
  intros Hgap.
  assert (Gp : B < P) by (unfold B, P, noise_bound_w, peak_floor_w; nra).
  split; [exact Gp|]. intros k Hk Hf. pose proof (Hout k Hk Hf). lra.
Qed.

(* ---------- statements exported to Props/C11.v ---------- *)

(* 2. the convolution of a noisy step at one half-width *)
Lemma noisy_step_conv a b t n sg eps h scale :
  noise_within eps (step_signal a b t n) sg -> 0 < scale ->
  (1 <= h <= Z.of_nat t)%Z -> (Z.of_nat t + h <= Z.of_nat n)%Z ->
  4 * eps < Qabs (b - a) ->
  let T := Z.of_nat t in
  let N := Z.of_nat n in
  let conv := haar_conv sg None h scale in
  let B := noise_bound_u h eps scale in
  let P := peak_floor_u h (Qabs (b - a)) eps scale in
  let dl := drop_per_bin_u (Qabs (b - a)) eps scale in
  (forall k, (0 <= k < N)%Z -> Qabs (qnth conv k - (b - a) / scale * tentQ h T k) <= B) /\
  B < P /\ P <= Qabs (qnth conv T) /\
  (forall k, (0 <= k < N)%Z -> (h <= Z.abs (k - T))%Z -> Qabs (qnth conv k) <= B) /\
  (forall k, (0 <= k < N)%Z -> (Z.abs (k - T) <= h)%Z ->
     Qabs (qnth conv k) + inject_Z (Z.abs (k - T)) * dl <= Qabs (qnth conv T)) /\
  (forall k, (0 <= k < N)%Z -> k <> T -> Qabs (qnth conv k) < Qabs (qnth conv T)).
Proof.
  intros Hnz Hs Hh Hn Hgap T N conv B P dl.
  assert (Hstp : length (step_signal a b t n) = n) by (apply step_signal_length; lia).
  split.
  { intros k Hk.
    pose proof (noise_conv_bound_u eps (step_signal a b t n) sg h scale k Hnz Hs) as Nb.
    rewrite Hstp in Nb. specialize (Nb ltac:(lia) Hk).
    rewrite (step_conv a b t n None h scale k I Hh Hn Hk) in Nb. cbn [step_amp] in Nb. exact Nb. }
  destruct (Qlt_le_dec a b) as [L|L].
  - apply (ns_conv_all a b t n sg eps h scale false (Qabs (b - a))); try assumption.
    rewrite Qabs_pos by lra. unfold sgnQ. ring.
  - apply (ns_conv_all a b t n sg eps h scale true (Qabs (b - a))); try assumption.
    rewrite Qabs_neg by lra. unfold sgnQ. ring.
Qed.

(* the weaker "within d" form: if d bins of the clean tent's slope outweigh the noise at both
   ends, 4 h eps < d D with 1 <= d <= h, every position at distance >= d is strictly smaller --
   a consequence of the above, since then 4 eps < D already *)
Lemma noisy_step_conv_d a b t n sg eps h scale d :
  noise_within eps (step_signal a b t n) sg -> 0 < scale ->
  (1 <= h <= Z.of_nat t)%Z -> (Z.of_nat t + h <= Z.of_nat n)%Z ->
  (1 <= d <= h)%Z -> 4 * inject_Z h * eps < inject_Z d * Qabs (b - a) ->
  forall k, (0 <= k < Z.of_nat n)%Z -> (d <= Z.abs (k - Z.of_nat t))%Z ->
    Qabs (qnth (haar_conv sg None h scale) k) < Qabs (qnth (haar_conv sg None h scale) (Z.of_nat t)).
Proof.
  intros Hnz Hs Hh Hn Hd Hgap k Hk Hf.
  assert (Hstp : length (step_signal a b t n) = n) by (apply step_signal_length; lia).
  assert (He : 0 <= eps).
  { apply (noise_eps_nonneg eps _ sg Hnz). intros C. rewrite C in Hstp. cbn in Hstp. lia. }
  assert (G4 : 4 * eps < Qabs (b - a)).
  { pose proof (Qabs_nonneg (b - a)) as A0.
    assert (D1 : inject_Z d <= inject_Z h) by (rewrite <- Zle_Qle; lia).
    assert (H0 : 0 < inject_Z h) by (apply inject_Z_pos; lia).
    nra. }
  destruct (noisy_step_conv a b t n sg eps h scale Hnz Hs Hh Hn G4) as [_ [_ [_ [_ [_ M]]]]].
  apply M; [exact Hk|lia].
Qed.

(* 3. the local peaks of a noisy step at one half-width, and thresholds in the gap *)
Lemma noisy_step_peaks a b t n sg eps h scale :
  noise_within eps (step_signal a b t n) sg -> 0 < scale ->
  (1 <= h <= Z.of_nat t)%Z -> (Z.of_nat t + h <= Z.of_nat n)%Z -> (Z.of_nat t + 2 <= Z.of_nat n)%Z ->
  4 * eps < Qabs (b - a) ->
  let T := Z.of_nat t in
  let conv := haar_conv sg None h scale in
  let peaks := find_local_peaks conv in
  let B := noise_bound_u h eps scale in
  let P := peak_floor_u h (Qabs (b - a)) eps scale in
  In T peaks /\
  (forall x, In x peaks -> x <> T -> (h <= Z.abs (x - T))%Z /\ Qabs (qnth conv x) <= B) /\
  B < P /\ P <= Qabs (qnth conv T) /\
  (forall tau, B < tau -> tau <= P -> keep_ge conv tau peaks = [T]) /\
  (forall tau, B < tau -> tau <= Qabs (qnth conv T) -> keep_ge conv tau peaks = [T]) /\
  (forall tau, B < tau -> keep_ge conv tau peaks = [T] \/ keep_ge conv tau peaks = []).
Proof.
  intros Hnz Hs Hh Hn Ht Hgap T conv peaks B P.
  destruct (noisy_step_level a b t n sg eps h scale Hnz Hs Hh Hn Ht Hgap)
    as [G1 [G2 [_ [_ [_ [Kin [Kout [K1 K2]]]]]]]].
  split; [exact Kin|]. split; [exact Kout|]. split; [exact G1|]. split; [exact G2|].
  split; [|split; [exact K1|exact K2]].
  intros tau T1 T2. apply K1; [exact T1|]. eapply Qle_trans; [exact T2|exact G2].
Qed.

(* flat profile with bounded noise: everything in one statement *)
Lemma noisy_flat_all (scale_u scale_w : Z -> Q) (pvals : Z -> list Q) (absorb : Z -> bool) :
  (forall h, 0 < scale_u h) -> (forall h, 0 < scale_w h) ->
  forall (eps c : Q) (sg : list Q) (wt : option (list Q)) (q : Q),
  flat_within eps c sg -> weights_ok sg wt -> sg <> [] ->
  let n := Zlength_nat sg in
  let r := haar_seg scale_u scale_w pvals absorb sg wt q in
  (forall h k, (1 <= h)%Z -> (0 <= k < n)%Z ->
     Qabs (qnth (conv_level scale_u scale_w sg wt h) k) <= level_noise_bound scale_u scale_w wt eps h) /\
  (forall level tau, (0 <= level)%Z -> level_noise_bound scale_u scale_w wt eps (2 ^ level) < tau ->
     keep_ge (conv_level scale_u scale_w sg wt (2 ^ level)) tau (level_peaks scale_u scale_w sg wt level) = []) /\
  ((forall l, (1 <= l <= 5)%Z -> level_peaks scale_u scale_w sg wt l <> [] ->
      level_noise_bound scale_u scale_w wt eps (2 ^ l) < level_thres scale_u scale_w pvals absorb sg wt q l) ->
   hr_breaks r = [] /\ hr_start r = [0%Z] /\ hr_end r = [(n - 1)%Z] /\ hr_size r = [n] /\
   exists m, hr_mean r = [m] /\ Qabs (m - c) <= eps).
Proof.
  intros Pu Pw eps c sg wt q Hf Hw Hne n r.
  assert (Hn : (0 < n)%Z) by (apply Zlength_pos, Hne).
  assert (He : 0 <= eps).
  { specialize (Hf 0%Z ltac:(unfold n, Zlength_nat in Hn; lia)).
    pose proof (Qabs_nonneg (at_ sg 0 - c)). lra. }
  split; [|split].
  - intros h k Hh Hk. apply (noisy_flat_level scale_u scale_w Pu Pw eps c); assumption.
  - intros level tau Hl Ht. apply keep_ge_none. intros x Hx.
    destruct (peaks_sorted (conv_level scale_u scale_w sg wt (2 ^ level))) as [_ R].
    unfold level_peaks in Hx. specialize (R x Hx).
    unfold conv_level in R at 1. rewrite haar_conv_length in R.
    pose proof (noisy_flat_level scale_u scale_w Pu Pw eps c sg wt (2 ^ level) x Hf Hw He
                  ltac:(pose proof (Z.pow_pos_nonneg 2 level ltac:(lia) Hl); lia) ltac:(lia)). lra.
  - intros Hthr. apply (noisy_flat_seg scale_u scale_w pvals absorb Pu Pw eps c); assumption.
Qed.

(* the property's numbers: steps between 0 and -1, +0.585 or +1 (height at least 0.585), at least
   100 bins on each side; every noise vector with |e_i| <= 0.146 (4 * 0.146 < 0.585) *)
Lemma noisy_step_property_numbers (scale_u scale_w : Z -> Q) :
  (forall h, 0 < scale_u h) ->
  forall (a b : Q) (t n : nat) (sg : list Q) (eps : Q) (level : Z),
  noise_within eps (step_signal a b t n) sg -> (100 <= t)%nat -> (t + 100 <= n)%nat ->
  585 # 1000 <= Qabs (b - a) -> eps <= 146 # 1000 -> (1 <= level <= 5)%Z ->
  let T := Z.of_nat t in
  let conv := conv_level scale_u scale_w sg None (2 ^ level) in
  (forall k, (0 <= k < Z.of_nat n)%Z -> k <> T -> Qabs (qnth conv k) < Qabs (qnth conv T)) /\
  (forall k, (0 <= k < Z.of_nat n)%Z -> Qabs (qnth conv T) <= Qabs (qnth conv k) -> (Z.abs (k - T) <= 5)%Z) /\
  In T (level_peaks scale_u scale_w sg None level) /\
  (forall x, In x (level_peaks scale_u scale_w sg None level) -> x <> T ->
     (2 ^ level <= Z.abs (x - T))%Z /\
     Qabs (qnth conv x) <= noise_bound_u (2 ^ level) eps (scale_u (2 ^ level)%Z) /\
     Qabs (qnth conv x) < Qabs (qnth conv T)).
Proof.
  intros Pu a b t n sg eps level Hnz Ht Hn HD He Hl T conv.
  pose proof (pow2_le32 level Hl) as P2.
  assert (Hgap : 4 * eps < Qabs (b - a)) by lra.
  destruct (noisy_step_level a b t n sg eps (2 ^ level) (scale_u (2 ^ level)%Z) Hnz (Pu _)
              ltac:(lia) ltac:(lia) ltac:(lia) Hgap) as [_ [_ [_ [_ [M [Kin [Kout _]]]]]]].
  assert (Hlenc : length (haar_conv sg None (2 ^ level) (scale_u (2 ^ level)%Z)) = n).
  { rewrite haar_conv_length. destruct Hnz as [Hl' _]. rewrite Hl'. apply step_signal_length. lia. }
  subst T conv. unfold level_peaks, conv_level. cbv zeta in M, Kin, Kout.
  split; [exact M|]. split; [|split; [exact Kin|]].
  - intros k Hk Hge. destruct (Z.eq_dec k (Z.of_nat t)) as [->|Hne]; [lia|].
    specialize (M k Hk Hne). lra.
  - intros x Hx Hne. destruct (Kout x Hx Hne) as [K1 K2]. split; [exact K1|]. split; [exact K2|].
    apply M; [|exact Hne].
    destruct (peaks_sorted (haar_conv sg None (2 ^ level) (scale_u (2 ^ level)%Z))) as [_ R].
    specialize (R x Hx). rewrite Hlenc in R. lia.
Qed.

(* a decidable check of noise_within, for examples *)
Lemma noise_within_check eps c sg :
  length sg = length c ->
  forallb (fun p => Qle_bool (Qabs (fst p - snd p)) eps) (combine sg c) = true ->
  noise_within eps c sg.
Proof.
  intros Hl Hb. split; [exact Hl|]. intros i Hi. unfold at_.
  assert (G : forall (s cl : list Q) (j : nat), length s = length cl ->
            forallb (fun p => Qle_bool (Qabs (fst p - snd p)) eps) (combine s cl) = true ->
            (j < length cl)%nat -> Qabs (nth j s 0 - nth j cl 0) <= eps).
  { induction s as [|x s IH]; intros [|y cl] j H1 H2 H3; cbn [length] in *; try lia.
    cbn [combine forallb fst snd] in H2. apply andb_true_iff in H2. destruct H2 as [A B].
    destruct j as [|j]; cbn [nth].
    - apply Qle_bool_iff, A.
    - apply IH; [lia|exact B|lia]. }
  apply G; [exact Hl|exact Hb|lia].
Qed.

(* ---------- the FDR threshold when no p-value passes (the code's regime for every step of height <= 1) ---------- *)

Lemma insert_desc_hd x l :
  hd 0 (insert_desc x l) = match l with [] => x | y :: _ => if Qle_bool y x then x else y end.
Proof. destruct l as [|y r]; cbn [insert_desc hd]; [reflexivity|]. destruct (Qle_bool y x); reflexivity. Qed.

Lemma insert_desc_nonempty x l : insert_desc x l <> [].
Proof. destruct l as [|y r]; cbn [insert_desc]; [discriminate|]. destruct (Qle_bool y x); discriminate. Qed.

(* the head of the descending sort is a maximal member *)
Lemma sort_desc_hd l : l <> [] ->
  (forall y, In y l -> y <= hd 0 (sort_desc l)) /\ In (hd 0 (sort_desc l)) l.
Proof.
  induction l as [|a t IH]; intros Hne; [congruence|].
  change (sort_desc (a :: t)) with (insert_desc a (sort_desc t)). rewrite insert_desc_hd.
  destruct t as [|b t'].
  - cbn [sort_desc fold_right]. split; [intros y [<-|[]]; apply Qle_refl|left; reflexivity].
  - destruct (IH ltac:(discriminate)) as [I1 I2].
    destruct (sort_desc (b :: t')) as [|y r] eqn:Es.
    { exfalso. change (sort_desc (b :: t')) with (insert_desc b (sort_desc t')) in Es.
      exact (insert_desc_nonempty _ _ Es). }
    cbn [hd] in I1, I2. destruct (Qle_bool y a) eqn:E.
    + apply Qle_bool_iff in E. split; [|left; reflexivity].
      intros z [<-|Hz]; [apply Qle_refl|]. specialize (I1 z Hz). lra.
    + split; [|right; exact I2].
      assert (a <= y).
      { destruct (Qlt_le_dec y a) as [L|L]; [|exact L]. exfalso.
        assert (Qle_bool y a = true) by (apply Qle_bool_iff; lra). congruence. }
      intros z [<-|Hz]; [assumption|apply I1, Hz].
Qed.

Lemma fdr_eps_pos : 0 < Gen.HaarDefaults.haar_fdr_eps.
Proof. reflexivity. Qed.

Lemma fdr_fallback_thres x q pv ab :
  (2 <= length x)%nat ->
  fdr_scan (sort_desc (map Qabs x)) pv 0 (Zlength_nat x) q None = None ->
  let mx := hd 0 (sort_desc (map Qabs x)) in
  (forall v, In v x -> Qabs v <= mx) /\ In mx (map Qabs x) /\
  fdr_thres x q pv ab = (if ab then mx else Qred (mx + Gen.HaarDefaults.haar_fdr_eps)).
Proof.
  intros Hl Hs mx.
  assert (Hne : map Qabs x <> []) by (destruct x; [cbn in Hl; lia|discriminate]).
  destruct (sort_desc_hd (map Qabs x) Hne) as [S1 S2].
  split; [intros v Hv; apply S1, in_map, Hv|]. split; [exact S2|].
  unfold fdr_thres. unfold Zlength_nat in *.
  destruct (Z.of_nat (length x) <? 2)%Z eqn:E; [lia|]. rewrite Hs. reflexivity.
Qed.

Section NoiseFallback.
Variable scale_u scale_w : Z -> Q.
Variable pvals : Z -> list Q.
Variable absorb : Z -> bool.

(* "No passing p-values" at a level: FDRThres takes its fallback branch *)
Definition level_no_pass (sg : list Q) (wt : option (list Q)) (q : Q) (level : Z) : Prop :=
  let conv := conv_level scale_u scale_w sg wt (2 ^ level) in
  let vals := map (qnth conv) (find_local_peaks conv) in
  fdr_scan (sort_desc (map Qabs vals)) (pvals level) 0 (Zlength_nat vals) q None = None.

(* ANY signal: a level with two or more peaks, no passing p-value and an unabsorbed 1e-16 keeps nothing *)
Lemma fallback_addon_none sg wt q level :
  (2 <= length (level_peaks scale_u scale_w sg wt level))%nat ->
  level_no_pass sg wt q level -> absorb level = false ->
  level_addon scale_u scale_w pvals absorb sg wt q level = [].
Proof.
  intros Hm Hnp Hab. rewrite level_addon_keep. apply keep_ge_none. intros x Hx.
  unfold level_thres. cbv zeta. unfold level_no_pass in Hnp. cbv zeta in Hnp. unfold level_peaks in Hm.
  set (conv := conv_level scale_u scale_w sg wt (2 ^ level)) in *.
  destruct (fdr_fallback_thres (map (qnth conv) (find_local_peaks conv)) q (pvals level) (absorb level))
    as [F1 [_ F3]]; [rewrite map_length; exact Hm|exact Hnp|].
  rewrite F3, Hab, Qred_correct.
  specialize (F1 (qnth conv x) (in_map _ _ _ Hx)). pose proof fdr_eps_pos. lra.
Qed.

(* no breakpoints at all, for ANY signal, when every level is of that kind or has no peak *)
Lemma fallback_no_breaks sg wt q :
  (forall l, (1 <= l <= 5)%Z -> level_peaks scale_u scale_w sg wt l <> [] ->
     (2 <= length (level_peaks scale_u scale_w sg wt l))%nat /\ level_no_pass sg wt q l /\ absorb l = false) ->
  haar_breakpoints_over scale_u scale_w pvals absorb haar_levels sg wt q = [].
Proof.
  intros H. unfold haar_breakpoints_over.
  assert (A : forall l, In l haar_levels -> level_addon scale_u scale_w pvals absorb sg wt q l = []).
  { intros l Hl. apply haar_levels_range in Hl.
    destruct (level_peaks scale_u scale_w sg wt l) as [|x0 r0] eqn:Ep.
    - unfold level_addon. unfold level_peaks in Ep. rewrite Ep. reflexivity.
    - destruct (H l Hl) as [H1 [H2 H3]]; [rewrite Ep; discriminate|].
      apply fallback_addon_none; [rewrite Ep in H1; rewrite Ep; exact H1|exact H2|exact H3]. }
  destruct (fold_single_or_none 0%Z (fun l => level_addon scale_u scale_w pvals absorb sg wt q l)
              (fun l => (2 ^ (l - 1))%Z) ltac:(lia) haar_levels []) as [_ F2].
  - intros l Hl. split; [apply haar_levels_range in Hl; apply Z.pow_nonneg; lia|right; apply A, Hl].
  - right. reflexivity.
  - apply F2; [reflexivity|exact A].
Qed.

Hypothesis scale_u_pos : forall h, 0 < scale_u h.

(* the noisy step at one level in the fallback regime: [t] when the 1e-16 is absorbed (or t is the only
   peak), nothing otherwise -- no assumption on the size of the threshold *)
Lemma noisy_step_addon_fallback a b t n sg eps q level :
  noise_within eps (step_signal a b t n) sg -> (32 <= t)%nat -> (t + 32 <= n)%nat ->
  4 * eps < Qabs (b - a) -> (1 <= level <= 5)%Z ->
  ((2 <= length (level_peaks scale_u scale_w sg None level))%nat -> level_no_pass sg None q level) ->
  level_addon scale_u scale_w pvals absorb sg None q level =
  (if (length (level_peaks scale_u scale_w sg None level) <? 2)%nat || absorb level then [Z.of_nat t] else []).
Proof.
  intros Hnz Ht Hn Hgap Hl Hnp. pose proof (pow2_le32 level Hl) as P2.
  destruct (noisy_step_level a b t n sg eps (2 ^ level) (scale_u (2 ^ level)) Hnz (scale_u_pos _)
              ltac:(lia) ltac:(lia) ltac:(lia) Hgap) as [G1 [G2 [_ [_ [M [Kin [Kout [K1 _]]]]]]]].
  destruct (Nat.ltb_spec (length (level_peaks scale_u scale_w sg None level)) 2) as [Lt|Ge]; cbn [orb].
  - (* t is the only peak: threshold 0 *)
    apply (noisy_step_addon scale_u scale_w pvals absorb scale_u_pos a b t n sg eps q level); try assumption.
    + intros C. lia.
    + assert (E : level_thres scale_u scale_w pvals absorb sg None q level = 0).
      { unfold level_thres. cbv zeta. unfold level_peaks in Lt.
        destruct (find_local_peaks (conv_level scale_u scale_w sg None (2 ^ level))) as [|x [|y r]];
          [reflexivity|reflexivity|cbn [length] in Lt; lia]. }
      rewrite E. apply Qabs_nonneg.
  - specialize (Hnp Ge). unfold level_no_pass in Hnp. cbv zeta in Hnp. unfold level_peaks in Ge.
    unfold conv_level in *. cbv zeta in G2, M, Kin, Kout, K1.
    set (conv := haar_conv sg None (2 ^ level) (scale_u (2 ^ level))) in *.
    destruct (fdr_fallback_thres (map (qnth conv) (find_local_peaks conv)) q (pvals level) (absorb level))
      as [F1 [F2 F3]]; [rewrite map_length; exact Ge|exact Hnp|].
    (* the largest |peak value| is the one at t *)
    assert (Hmx : hd 0 (sort_desc (map Qabs (map (qnth conv) (find_local_peaks conv)))) == Qabs (qnth conv (Z.of_nat t))).
    { apply in_map_iff in F2. destruct F2 as [v [Ev Hv]]. apply in_map_iff in Hv. destruct Hv as [x0 [Ex Hx0]].
      pose proof (F1 (qnth conv (Z.of_nat t)) (in_map _ _ _ Kin)) as Le.
      destruct (Z.eq_dec x0 (Z.of_nat t)) as [->|Hne]; [rewrite <- Ev, <- Ex; reflexivity|exfalso].
      destruct (peaks_sorted conv) as [_ R]. specialize (R x0 Hx0).
      assert (Hlenc : length conv = n).
      { unfold conv. rewrite haar_conv_length. destruct Hnz as [Hl' _]. rewrite Hl'. apply step_signal_length. lia. }
      rewrite Hlenc in R. specialize (M x0 ltac:(lia) Hne). rewrite <- Ev, <- Ex in Le. lra. }
    rewrite level_addon_keep. unfold level_thres, conv_level. cbv zeta. fold conv. rewrite F3.
    destruct (absorb level).
    + apply K1.
      * rewrite Hmx. eapply Qlt_le_trans; [exact G1|exact G2].
      * rewrite Hmx. apply Qle_refl.
    + apply keep_ge_none. intros x Hx. rewrite Qred_correct.
      pose proof (F1 (qnth conv x) (in_map _ _ _ Hx)). pose proof fdr_eps_pos. lra.
Qed.

End NoiseFallback.

(* ---------- the result tables, given the breakpoints ---------- *)

Lemma noisy_step_result a b t n sg eps :
  noise_within eps (step_signal a b t n) sg -> (1 <= t)%nat -> (t + 1 <= n)%nat ->
  let r := haar_result_of sg None [Z.of_nat t] in
  let T := Z.of_nat t in
  let N := Z.of_nat n in
  hr_breaks r = [T] /\ hr_start r = [0; T]%Z /\ hr_end r = [T - 1; N - 1]%Z /\ hr_size r = [T; N - T]%Z /\
  exists m1 m2, hr_mean r = [m1; m2] /\ Qabs (m1 - a) <= eps /\ Qabs (m2 - b) <= eps.
Proof.
  intros Hnz Ht Hn r T N.
  assert (Hstp : length (step_signal a b t n) = n) by (apply step_signal_length; lia).
  assert (Hlen : length sg = n) by (destruct Hnz as [Hl _]; rewrite Hl; exact Hstp).
  unfold r, haar_result_of.
  cbn [hr_breaks hr_start hr_end hr_size hr_mean app map combine fst snd].
  unfold Zlength_nat. rewrite Hlen. fold N. fold T. rewrite Z.sub_0_r.
  repeat (split; [reflexivity|]).
  eexists. eexists. split; [reflexivity|].
  assert (Hne : sg <> []) by (intros C; rewrite C in Hlen; cbn in Hlen; lia).
  assert (Hbi : breaks_in (Zlength_nat sg) [T]).
  { unfold Zlength_nat. rewrite Hlen. split; [repeat constructor|]. intros x [<-|[]]. unfold T. lia. }
  assert (Hat : forall j, (0 <= j < N)%Z ->
            Qabs (at_ sg j - (if (Z.to_nat j <? t)%nat then a else b)) <= eps).
  { intros j Hj. destruct Hnz as [_ Hbd]. specialize (Hbd j). rewrite Hstp in Hbd. specialize (Hbd Hj).
    unfold at_ in Hbd at 2. rewrite nth_step in Hbd by (unfold N in Hj; lia). exact Hbd. }
  split.
  - rewrite (segment_by_peaks_nth sg [T] None 0 T 0 Hne Hbi); [|left; reflexivity|unfold T; lia].
    pose proof (seg_mean_spec sg None 0 T ltac:(unfold T; lia) ltac:(rewrite Hlen; unfold T; lia) I) as Sm.
    cbn [is_segment_mean] in Sm. rewrite Sm.
    apply range_mean_within; [unfold T; lia|]. intros j Hj.
    pose proof (Hat j ltac:(unfold T, N in *; lia)) as A.
    replace (Z.to_nat j <? t)%nat with true in A by (symmetry; apply Nat.ltb_lt; unfold T in Hj; lia).
    exact A.
  - rewrite (segment_by_peaks_nth sg [T] None T N T Hne Hbi);
      [|unfold Zlength_nat; rewrite Hlen; right; left; reflexivity|unfold T, N; lia].
    pose proof (seg_mean_spec sg None T N ltac:(unfold T, N; lia) ltac:(rewrite Hlen; unfold N; lia) I) as Sm.
    cbn [is_segment_mean] in Sm. rewrite Sm.
    apply range_mean_within; [unfold T, N; lia|]. intros j Hj.
    pose proof (Hat j ltac:(unfold T, N in *; lia)) as A.
    replace (Z.to_nat j <? t)%nat with false in A by (symmetry; apply Nat.ltb_ge; unfold T in Hj; lia).
    exact A.
Qed.

Lemma noisy_flat_result eps c sg wt :
  flat_within eps c sg -> weights_ok sg wt -> sg <> [] ->
  let n := Zlength_nat sg in
  let r := haar_result_of sg wt [] in
  hr_breaks r = [] /\ hr_start r = [0%Z] /\ hr_end r = [(n - 1)%Z] /\ hr_size r = [n] /\
  exists m, hr_mean r = [m] /\ Qabs (m - c) <= eps.
Proof.
  intros Hf Hw Hne n r.
  assert (Hn : (0 < n)%Z) by (apply Zlength_pos, Hne).
  unfold r, haar_result_of.
  cbn [hr_breaks hr_start hr_end hr_size hr_mean app map combine fst snd]. fold n. rewrite Z.sub_0_r.
  repeat (split; [reflexivity|]).
  eexists. split; [reflexivity|].
  assert (Hbi : breaks_in (Zlength_nat sg) []) by (split; [constructor|intros x []]).
  rewrite (segment_by_peaks_nth sg [] wt 0 n 0 Hne Hbi); [|left; reflexivity|lia].
  assert (Hwl : wt_len_ok sg wt) by (destruct wt as [w|]; [destruct Hw as [Hlw _]; exact Hlw|exact I]).
  pose proof (seg_mean_spec sg wt 0 n ltac:(lia) ltac:(unfold n, Zlength_nat; lia) Hwl) as Sm.
  destruct wt as [w|]; cbn [is_segment_mean] in Sm.
  - destruct Hw as [Hlw Hp].
    assert (Hwp : forall j, (0 <= j < n)%Z -> 0 < at_ w j).
    { intros j Hj. unfold at_. apply (nth_Forall (fun x => 0 < x) w _ Hp). rewrite Hlw. unfold n, Zlength_nat in Hj. lia. }
    assert (Rw : 0 < range_weight w 0 n).
    { unfold range_weight. apply wsum_pos; [lia|]. intros j Hj. apply Hwp. lia. }
    destruct Sm as [Sm _]. rewrite (Sm Rw).
    apply range_wmean_within; [lia|]. intros j Hj. split; [apply Hwp, Hj|].
    apply Hf. unfold n, Zlength_nat in Hj. lia.
  - rewrite Sm. apply range_mean_within; [lia|]. intros j Hj. apply Hf. unfold n, Zlength_nat in Hj. lia.
Qed.

Section NoiseFallbackSeg.
Variable scale_u scale_w : Z -> Q.
Variable pvals : Z -> list Q.
Variable absorb : Z -> bool.

(* haarSeg on ANY signal: if at every level that has a peak there are at least two, no p-value passes and the 1e-16 is
   not absorbed, nothing is reported; for a flat profile with noise within eps the one segment's mean is within eps *)
Lemma noisy_flat_seg_fallback eps c sg wt q :
  flat_within eps c sg -> weights_ok sg wt -> sg <> [] ->
  (forall l, (1 <= l <= 5)%Z -> level_peaks scale_u scale_w sg wt l <> [] ->
     (2 <= length (level_peaks scale_u scale_w sg wt l))%nat /\
     level_no_pass scale_u scale_w pvals sg wt q l /\ absorb l = false) ->
  let n := Zlength_nat sg in
  let r := haar_seg scale_u scale_w pvals absorb sg wt q in
  hr_breaks r = [] /\ hr_start r = [0%Z] /\ hr_end r = [(n - 1)%Z] /\ hr_size r = [n] /\
  exists m, hr_mean r = [m] /\ Qabs (m - c) <= eps.
Proof.
  intros Hf Hw Hne H n r. unfold r, haar_seg.
  rewrite (fallback_no_breaks scale_u scale_w pvals absorb sg wt q H).
  apply noisy_flat_result; assumption.
Qed.

Hypothesis scale_u_pos : forall h, 0 < scale_u h.

(* haarSeg on a noisy step when FDRThres takes its fallback at every level with two or more peaks (the code's
   regime for every step of height <= 1): exactly [t] iff at some level the 1e-16 is absorbed (|conv t| >= 1 in
   binary64) or t is the only peak; otherwise nothing -- whatever the noise within eps < D / 4 *)
Lemma noisy_step_seg_fallback a b t n sg eps q :
  noise_within eps (step_signal a b t n) sg -> (32 <= t)%nat -> (t + 32 <= n)%nat ->
  4 * eps < Qabs (b - a) ->
  (forall l, (1 <= l <= 5)%Z -> (2 <= length (level_peaks scale_u scale_w sg None l))%nat ->
     level_no_pass scale_u scale_w pvals sg None q l) ->
  let r := haar_seg scale_u scale_w pvals absorb sg None q in
  let T := Z.of_nat t in
  let N := Z.of_nat n in
  ((exists l, (1 <= l <= 5)%Z /\
      ((length (level_peaks scale_u scale_w sg None l) < 2)%nat \/ absorb l = true)) ->
   hr_breaks r = [T] /\ hr_start r = [0; T]%Z /\ hr_end r = [T - 1; N - 1]%Z /\ hr_size r = [T; N - T]%Z /\
   exists m1 m2, hr_mean r = [m1; m2] /\ Qabs (m1 - a) <= eps /\ Qabs (m2 - b) <= eps) /\
  ((forall l, (1 <= l <= 5)%Z ->
      (2 <= length (level_peaks scale_u scale_w sg None l))%nat /\ absorb l = false) ->
   hr_breaks r = []).
Proof.
  intros Hnz Ht Hn Hgap Hnp r T N.
  assert (A : forall l, (1 <= l <= 5)%Z ->
            level_addon scale_u scale_w pvals absorb sg None q l =
            (if (length (level_peaks scale_u scale_w sg None l) <? 2)%nat || absorb l then [T] else [])).
  { intros l Hl. apply (noisy_step_addon_fallback scale_u scale_w pvals absorb scale_u_pos a b t n sg eps q l);
      try assumption. apply Hnp, Hl. }
  destruct (fold_single_or_none T (fun l => level_addon scale_u scale_w pvals absorb sg None q l)
              (fun l => (2 ^ (l - 1))%Z) ltac:(unfold T; lia) haar_levels []) as [F1 F2].
  { intros l Hl. apply haar_levels_range in Hl. split; [apply Z.pow_nonneg; lia|].
    rewrite (A l Hl). destruct ((length (level_peaks scale_u scale_w sg None l) <? 2)%nat || absorb l);
      [left|right]; reflexivity. }
  { right. reflexivity. }
  split.
  - intros [l0 [Hl0 Hc]].
    assert (Hb : haar_breakpoints_over scale_u scale_w pvals absorb haar_levels sg None q = [T]).
    { unfold haar_breakpoints_over. apply F1. right. exists l0. split.
      - rewrite haar_levels_eq. cbn [In]. lia.
      - rewrite (A l0 Hl0).
        assert (E : (length (level_peaks scale_u scale_w sg None l0) <? 2)%nat || absorb l0 = true).
        { destruct Hc as [C|C]; [apply Nat.ltb_lt in C; rewrite C; reflexivity|rewrite C; apply orb_true_r]. }
        rewrite E. reflexivity. }
    unfold r, haar_seg. rewrite Hb. apply (noisy_step_result a b t n sg eps Hnz); lia.
  - intros Hall. unfold r, haar_seg.
    assert (Hb : haar_breakpoints_over scale_u scale_w pvals absorb haar_levels sg None q = []).
    { unfold haar_breakpoints_over. apply F2; [reflexivity|]. intros l Hl. apply haar_levels_range in Hl.
      rewrite (A l Hl). destruct (Hall l Hl) as [H1 H2].
      assert (E : (length (level_peaks scale_u scale_w sg None l) <? 2)%nat = false) by (apply Nat.ltb_ge; exact H1).
      rewrite E, H2. reflexivity. }
    rewrite Hb. reflexivity.
Qed.

End NoiseFallbackSeg.
