(* C14 source tie of the four filter functions of cnvlib/segfilters.py as WHOLE functions (ampdel: up to its squash),
   read per row and regenerated from the Python source on every run as Gen/FnSegHandOver.v:

       cn:      return squash_by_groups(segarr, segarr["cn"])
       ci:      levels = np.zeros(len(segarr)); levels[ci_lo > 0] = 1; levels[ci_hi < 0] = -1
                return squash_by_groups(segarr, pd.Series(levels, index=segarr.data.index))
       sem:     margin = segarr["sem"] * zscore; levels = ...; return squash_by_groups(segarr, pd.Series(levels, ...))
       ampdel:  levels = ...; cnarr = squash_by_groups(segarr, pd.Series(levels, ...))

   `squash_by_groups` and `pd.Series` are function-typed inputs: WHATEVER they do, what they receive for a row is the
   level Model/Segfilters.v assigns to it (ci_lo / ci_hi / sem are optional numbers: a comparison with a missing cell is
   False, exactly as the model has it, so there is no side condition).  With the projections on the level put in for
   them, the model's `squashed` is squash_by_groups on the generated per-row levels. *)
From CNV Require Import Base.Prelude Base.Str Gen.SegfilterDefaults Gen.FnSegHandOver Model.Segfilters.

Local Open Scope Z_scope.

Section HandOver.
Variable squash : Z -> Q -> Q.        (* squash_by_groups(table, levels), per row *)
Variable series : Q -> Z -> Q.        (* pd.Series(levels, index=...), per row *)
Variable tbl idx : Z.

Lemma hand_cn s : fn_cn_whole squash tbl (cn s) = squash tbl (level Fcn s).
Proof. reflexivity. Qed.

Lemma hand_ci s : fn_ci_whole squash series tbl idx 0 (ci_lo s) (ci_hi s) = squash tbl (series (level Fci s) idx).
Proof. reflexivity. Qed.

Lemma hand_sem s : fn_sem_whole squash series tbl idx 0 sem_zscore (sem s) (log2 s) = squash tbl (series (level Fsem s) idx).
Proof.
  unfold fn_sem_whole. cbn [level]. cbv zeta. do 2 f_equal. destruct (sem s) as [e|]; reflexivity.
Qed.

Lemma hand_ampdel s : fn_ampdel_whole squash series tbl idx 0 (cn s) = squash tbl (series (level Fampdel s) idx).
Proof.
  unfold fn_ampdel_whole. cbn [level]. cbv zeta.
  change ampdel_amp_cn with (inject_Z 5). change ampdel_del_cn with (inject_Z 0).
  destruct (Qle_bool (inject_Z 5) (cn s)); [reflexivity|].
  destruct (Qeq_bool (cn s) (inject_Z 0)); reflexivity.
Qed.
End HandOver.

Theorem source_hand_over (squash : Z -> Q -> Q) (series : Q -> Z -> Q) (tbl idx : Z) (s : seg) :
  fn_cn_whole squash tbl (cn s) = squash tbl (level Fcn s) /\
  fn_ci_whole squash series tbl idx 0 (ci_lo s) (ci_hi s) = squash tbl (series (level Fci s) idx) /\
  fn_sem_whole squash series tbl idx 0 sem_zscore (sem s) (log2 s) = squash tbl (series (level Fsem s) idx) /\
  fn_ampdel_whole squash series tbl idx 0 (cn s) = squash tbl (series (level Fampdel s) idx).
Proof.
  split; [apply hand_cn|]. split; [apply hand_ci|]. split; [apply hand_sem|apply hand_ampdel].
Qed.

(* the level a filter hands to squash_by_groups, through the generated functions *)
Definition src_level (f : filt) (s : seg) : Q :=
  let sq := fun (_ : Z) (lv : Q) => lv in
  let ser := fun (lv : Q) (_ : Z) => lv in
  match f with
  | Fcn => fn_cn_whole sq 0 (cn s)
  | Fci => fn_ci_whole sq ser 0 0 0 (ci_lo s) (ci_hi s)
  | Fsem => fn_sem_whole sq ser 0 0 0 sem_zscore (sem s) (log2 s)
  | Fampdel => fn_ampdel_whole sq ser 0 0 0 (cn s)
  end.

Theorem source_level f s : level f s = src_level f s.
Proof.
  unfold src_level. cbv zeta.
  destruct f; [rewrite hand_ci|rewrite hand_sem|rewrite hand_cn|rewrite hand_ampdel]; reflexivity.
Qed.

(* the model's squashing step of a filter = squash_by_groups on the generated per-row levels *)
Theorem source_squashed f t :
  squashed f t = squash_by_groups (map (fun s => Some (src_level f s)) t) t.
Proof.
  unfold squashed. f_equal. apply map_ext. intro s. rewrite source_level. reflexivity.
Qed.
