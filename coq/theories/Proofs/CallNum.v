(* Numeric lemmas shared by the C01 / C02 proofs: qmax, numpy rounding (round_he),
   Qfloor / Qceiling facts, injections. *)
From Coq Require Import Qround Qabs.
From CNV Require Import Base.Prelude Model.Call.
From Coq Require Import Lqa.   (* after Prelude: `lra` must be the one over Q *)

Local Open Scope Q_scope.

Lemma inject_Z_add a b : inject_Z (a + b) == inject_Z a + inject_Z b.
Proof. rewrite inject_Z_plus. reflexivity. Qed.

Lemma inject_Z_le a b : (a <= b)%Z <-> inject_Z a <= inject_Z b.
Proof. rewrite Zle_Qle. tauto. Qed.

Lemma inject_Z_lt a b : (a < b)%Z <-> inject_Z a < inject_Z b.
Proof. rewrite Zlt_Qlt. tauto. Qed.

(* ---------------------------------------------------------------- qmax *)

Lemma qmax_cases a b : (a <= b /\ qmax a b = b) \/ (b < a /\ qmax a b = a).
Proof.
  unfold qmax. destruct (Qle_bool a b) eqn:E.
  - left. split; [apply Qle_bool_iff; exact E | reflexivity].
  - right. split; [|reflexivity].
    apply Qnot_le_lt. intro H. apply Qle_bool_iff in H. congruence.
Qed.

Lemma qmax_ge_r a b : b <= qmax a b.
Proof. destruct (qmax_cases a b) as [[H ->]|[H ->]]; [apply Qle_refl | apply Qlt_le_weak; exact H]. Qed.

Lemma qmax_ge_l a b : a <= qmax a b.
Proof. destruct (qmax_cases a b) as [[H ->]|[H ->]]; [exact H | apply Qle_refl]. Qed.

Lemma qmax_l a b : b <= a -> qmax a b == a.
Proof.
  intro H. destruct (qmax_cases a b) as [[H1 ->]|[H1 ->]]; [|reflexivity].
  apply Qle_antisym; assumption.
Qed.

Lemma qmax_r a b : a <= b -> qmax a b == b.
Proof.
  intro H. destruct (qmax_cases a b) as [[H1 ->]|[H1 ->]]; [reflexivity|].
  exfalso. apply (Qlt_irrefl a). eapply Qle_lt_trans; eassumption.
Qed.

Lemma qmax_comp a a' b b' : a == a' -> b == b' -> qmax a b == qmax a' b'.
Proof.
  intros Ha Hb.
  destruct (qmax_cases a b) as [[H1 E1]|[H1 E1]]; destruct (qmax_cases a' b') as [[H2 E2]|[H2 E2]];
    rewrite E1, E2; apply Qle_antisym; lra.
Qed.

(* ---------------------------------------------------------------- floor *)

Lemma Qfloor_bounds q : inject_Z (Qfloor q) <= q /\ q < inject_Z (Qfloor q) + 1.
Proof.
  split; [apply Qfloor_le|].
  pose proof (Qlt_floor q) as H. rewrite inject_Z_plus in H. exact H.
Qed.

Lemma Qfloor_unique q (z : Z) : inject_Z z <= q -> q < inject_Z z + 1 -> Qfloor q = z.
Proof.
  intros H1 H2. destruct (Qfloor_bounds q) as [F1 F2].
  assert (A : (z < Qfloor q + 1)%Z).
  { apply inject_Z_lt. rewrite inject_Z_plus. eapply Qle_lt_trans; [exact H1 | exact F2]. }
  assert (B : (Qfloor q < z + 1)%Z).
  { apply inject_Z_lt. rewrite inject_Z_plus. eapply Qle_lt_trans; [exact F1 | exact H2]. }
  lia.
Qed.

Lemma Qceiling_bounds q : q <= inject_Z (Qceiling q) /\ inject_Z (Qceiling q) < q + 1.
Proof.
  split; [apply Qle_ceiling|].
  pose proof (Qceiling_lt q) as H. unfold Z.sub in H. rewrite inject_Z_plus in H.
  change (inject_Z (- (1))) with (- (1)) in H. lra.
Qed.

Lemma Qceiling_unique q (z : Z) : q <= inject_Z z -> inject_Z z < q + 1 -> Qceiling q = z.
Proof.
  intros H1 H2. destruct (Qceiling_bounds q) as [C1 C2].
  assert (A : (z < Qceiling q + 1)%Z).
  { apply inject_Z_lt. rewrite inject_Z_plus. change (inject_Z 1) with 1. lra. }
  assert (B : (Qceiling q < z + 1)%Z).
  { apply inject_Z_lt. rewrite inject_Z_plus. change (inject_Z 1) with 1. lra. }
  lia.
Qed.

Lemma Qceiling_mono a b : a <= b -> (Qceiling a <= Qceiling b)%Z.
Proof. apply Qceiling_resp_le. Qed.

(* ---------------------------------------------------------------- round half to even *)

Lemma round_he_cases q :
  let f := Qfloor q in
  (q - inject_Z f < 1 # 2 /\ round_he q = f) \/
  (1 # 2 < q - inject_Z f /\ round_he q = (f + 1)%Z) \/
  (q - inject_Z f == 1 # 2 /\ (round_he q = f \/ round_he q = (f + 1)%Z)).
Proof.
  cbv zeta. unfold round_he.
  destruct (q - inject_Z (Qfloor q) ?= 1 # 2) eqn:E.
  - right; right. split; [apply Qeq_alt; exact E|]. destruct (Z.even (Qfloor q)); auto.
  - left. split; [apply Qlt_alt; exact E | reflexivity].
  - right; left. split; [apply Qgt_alt; exact E | reflexivity].
Qed.

(* numpy round returns a nearest integer *)
Lemma round_he_nearest q : Qabs (inject_Z (round_he q) - q) <= 1 # 2.
Proof.
  destruct (Qfloor_bounds q) as [F1 F2].
  apply Qabs_Qle_condition.
  destruct (round_he_cases q) as [[H ->]|[[H ->]|[H [-> | ->]]]];
    rewrite ?inject_Z_plus; change (inject_Z 1) with 1; split; lra.
Qed.

Lemma round_he_comp q q' : q == q' -> round_he q = round_he q'.
Proof.
  intro H. unfold round_he.
  rewrite (Qfloor_comp q q' H).
  assert (E : (q - inject_Z (Qfloor q') ?= 1 # 2) = (q' - inject_Z (Qfloor q') ?= 1 # 2)).
  { apply Qcompare_comp; [rewrite H; reflexivity | reflexivity]. }
  rewrite E. reflexivity.
Qed.

Lemma round_he_Z (n : Z) : round_he (inject_Z n) = n.
Proof.
  unfold round_he. rewrite Qfloor_Z.
  assert (E : (inject_Z n - inject_Z n ?= 1 # 2) = Lt).
  { apply (proj1 (Qlt_alt _ _)). lra. }
  rewrite E. reflexivity.
Qed.

Lemma round_he_eqZ q (n : Z) : q == inject_Z n -> round_he q = n.
Proof. intro H. rewrite (round_he_comp _ _ H). apply round_he_Z. Qed.

Lemma round_he_nonneg q : 0 <= q -> (0 <= round_he q)%Z.
Proof.
  intro H.
  assert (F : (0 <= Qfloor q)%Z).
  { change 0%Z with (Qfloor 0). apply Qfloor_resp_le. exact H. }
  destruct (round_he_cases q) as [[_ ->]|[[_ ->]|[_ [-> | ->]]]]; lia.
Qed.

Lemma round_he_mono a b : a <= b -> (round_he a <= round_he b)%Z.
Proof.
  intro H.
  destruct (Z_le_gt_dec (round_he a) (round_he b)) as [L|G]; [exact L|exfalso].
  (* round_he a >= round_he b + 1 while a <= b: both within 1/2, so a = b - ... tie; the
     tie rule makes equal inputs round equally and distinct ties are >= 1 apart *)
  pose proof (round_he_nearest a) as Na. pose proof (round_he_nearest b) as Nb.
  apply Qabs_Qle_condition in Na. apply Qabs_Qle_condition in Nb.
  assert (G' : inject_Z (round_he b) + 1 <= inject_Z (round_he a)).
  { change 1 with (inject_Z 1). rewrite <- inject_Z_plus. apply (proj1 (inject_Z_le _ _)). lia. }
  assert (Eab : a == b) by (apply Qle_antisym; lra).
  rewrite (round_he_comp _ _ Eab) in G. lia.
Qed.
