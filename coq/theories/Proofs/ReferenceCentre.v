(* Median centring (Center.center_all with the median, per chromosome) removes a per-sample
   constant: if a sample equals a profile plus d on the bins the centre is taken over (autosomes
   and, with a PAR build, PAR-X), its centring shift is the profile's shift minus d.  The other
   bins (X, Y, ...) may differ arbitrarily.  Used by C05_depth_only and C05_sex_levels. *)
From CNV Require Import Base.Prelude Base.Str Base.QNum Model.Center Proofs.QNumLemmas.
Local Open Scope Q_scope.

(* bins at the same place; on the selected ones the second is the first plus d *)
Definition bin_rel (d : Q) (sel : bin -> bool) (b b' : bin) : Prop :=
  b_chrom b = b_chrom b' /\ b_start b = b_start b' /\ b_end b = b_end b' /\
  (sel b = true -> b_log2 b' == b_log2 b + d).

Definition val_rel (d : Q) (b b' : bin) : Prop :=
  b_chrom b = b_chrom b' /\ b_log2 b' == b_log2 b + d.

Lemma x_label_rel d sel t t' : Forall2 (bin_rel d sel) t t' -> x_label t = x_label t'.
Proof. intros H. destruct H as [|b b' t t' (Hc & _) _]; [reflexivity|]. unfold x_label. now rewrite Hc. Qed.

Lemma auto_sel_rel d sel t t' build b b' :
  x_label t = x_label t' -> bin_rel d sel b b' -> auto_sel t build b = auto_sel t' build b'.
Proof.
  intros Hx (Hc & Hs & He & _). unfold auto_sel, is_auto_bin, parx_filter, in_par.
  rewrite Hc, Hx. destruct build as [p|]; [|reflexivity].
  destruct (par_x p) as [[[s1 e1] s2] e2]. now rewrite Hs, He.
Qed.

Lemma is_auto_rel d sel t t' :
  Forall2 (bin_rel d sel) t t' -> existsb is_auto_bin t = existsb is_auto_bin t'.
Proof.
  induction 1 as [|b b' t t' (Hc & _) _ IH]; [reflexivity|]. cbn [existsb]. unfold is_auto_bin at 1 3.
  now rewrite Hc, IH.
Qed.

Lemma filter_rel d t t' (P P' : bin -> bool) :
  Forall2 (bin_rel d P) t t' -> Forall2 (fun b b' => P b = P' b') t t' ->
  Forall2 (val_rel d) (filter P t) (filter P' t').
Proof.
  intros H. induction H as [|b b' t t' (Hc & _ & _ & Hv) _ IH]; intros HP; [constructor|].
  inversion HP as [|? ? ? ? Hpp HP']; subst. cbn [filter]. rewrite <- Hpp.
  destruct (P b) eqn:E; [constructor; [split; auto|]|]; auto.
Qed.

Lemma drop_low_id t : (forall b, In b t -> is_low b = false) -> drop_low t = t.
Proof.
  intros H. unfold drop_low. induction t as [|b t IH]; [reflexivity|]. cbn [filter].
  rewrite (H b (or_introl eq_refl)). cbn. f_equal. apply IH. intros b' Hb'. apply H. now right.
Qed.

(* ---- groups ---------------------------------------------------------------------------------------- *)
Definition grp_rel (d : Q) (g g' : string * list Q) : Prop :=
  fst g = fst g' /\ eqQ (map (fun x => x + d) (snd g)) (snd g') /\ snd g <> [].

Lemma group_insert_rel d k v v' gs gs' :
  Forall2 (grp_rel d) gs gs' -> v' == v + d ->
  Forall2 (grp_rel d) (group_insert k v gs) (group_insert k v' gs').
Proof.
  intros H Hv. induction H as [|[k0 vs] [k0' vs'] gs gs' (Hk & He & Hn) Hrest IH]; cbn [group_insert].
  - constructor; [|constructor]. split; [reflexivity|]. split; [|discriminate].
    cbn. constructor; [symmetry; exact Hv|constructor].
  - cbn in Hk. subst k0'. destruct (String.eqb k k0).
    + constructor; [|exact Hrest]. split; [reflexivity|]. split.
      * cbn [snd] in *. rewrite map_app. apply eqQ_app; [exact He|]. cbn [map]. constructor; [symmetry; exact Hv|constructor].
      * cbn. intro E. apply app_eq_nil in E. destruct E; discriminate.
    + constructor; [|exact IH]. split; [reflexivity|]. split; assumption.
Qed.

Lemma groups_fold_rel d l l' acc acc' :
  Forall2 (val_rel d) l l' -> Forall2 (grp_rel d) acc acc' ->
  Forall2 (grp_rel d)
    (fold_left (fun gs b => group_insert (b_chrom b) (b_log2 b) gs) l acc)
    (fold_left (fun gs b => group_insert (b_chrom b) (b_log2 b) gs) l' acc').
Proof.
  intros H. revert acc acc'. induction H as [|b b' l l' (Hc & Hv) _ IH]; intros acc acc' Ha; [exact Ha|].
  cbn [fold_left]. apply IH. rewrite <- Hc. apply group_insert_rel; assumption.
Qed.

Lemma group_insert_nonnil k v gs : group_insert k v gs <> [].
Proof. destruct gs as [|[k0 vs] gs]; cbn; [discriminate|]. destruct (String.eqb k k0); discriminate. Qed.

Lemma groups_fold_nonnil l acc :
  (l <> [] \/ acc <> []) -> fold_left (fun gs b => group_insert (b_chrom b) (b_log2 b) gs) l acc <> [].
Proof.
  revert acc. induction l as [|b l IH]; intros acc H; cbn [fold_left].
  - destruct H; congruence.
  - apply IH. right. apply group_insert_nonnil.
Qed.

(* medians of related groups *)
Lemma group_medians_rel d gs gs' :
  Forall2 (grp_rel d) gs gs' ->
  eqQ (map (fun x => x + d) (map median (map snd gs))) (map median (map snd gs')).
Proof.
  induction 1 as [|g g' gs gs' (_ & He & Hn) _ IH]; [constructor|]. cbn [map]. constructor; [|exact IH].
  rewrite <- (median_eqQ _ _ He). symmetry. apply median_shift. exact Hn.
Qed.

Lemma center_stat_rel d sel sel' :
  Forall2 (val_rel d) sel sel' -> sel <> [] ->
  center_stat median true sel' == center_stat median true sel + d.
Proof.
  intros H Hne. unfold center_stat, group_log2, groups_of.
  assert (Hg : Forall2 (grp_rel d)
            (fold_left (fun gs b => group_insert (b_chrom b) (b_log2 b) gs) sel [])
            (fold_left (fun gs b => group_insert (b_chrom b) (b_log2 b) gs) sel' []))
    by (apply groups_fold_rel; [exact H|constructor]).
  rewrite <- (median_eqQ _ _ (group_medians_rel d _ _ Hg)).
  apply median_shift.
  assert (Hn : fold_left (fun gs b => group_insert (b_chrom b) (b_log2 b) gs) sel [] <> [])
    by (apply groups_fold_nonnil; now left).
  destruct (fold_left _ sel []); [congruence|discriminate].
Qed.

(* ---- the centring shift --------------------------------------------------------------------------------- *)
Theorem center_shift_rel d skip build t t' :
  Forall2 (bin_rel d (auto_sel t build)) t t' ->
  existsb is_auto_bin t = true ->
  (skip = true -> (forall b, In b t -> is_low b = false) /\ (forall b, In b t' -> is_low b = false)) ->
  exists c c', center_shift median true skip build t = Some c /\
               center_shift median true skip build t' = Some c' /\ c' == c - d.
Proof.
  intros H Hauto Hlow.
  assert (Et : (if skip then drop_low t else t) = t)
    by (destruct skip; [apply drop_low_id, Hlow; reflexivity|reflexivity]).
  assert (Et' : (if skip then drop_low t' else t') = t')
    by (destruct skip; [apply drop_low_id, Hlow; reflexivity|reflexivity]).
  pose proof (x_label_rel _ _ _ _ H) as Hx.
  assert (Hauto' : existsb is_auto_bin t' = true) by (rewrite <- (is_auto_rel _ _ _ _ H); exact Hauto).
  unfold center_shift, center_selection, autosomes. rewrite Et, Et', Hauto, Hauto'.
  assert (Hsel : Forall2 (val_rel d) (filter (auto_sel t build) t) (filter (auto_sel t' build) t')).
  { apply filter_rel; [exact H|].
    assert (G : forall l l', Forall2 (bin_rel d (auto_sel t build)) l l' ->
                             Forall2 (fun b b' => auto_sel t build b = auto_sel t' build b') l l').
    { induction 1 as [|b b' l l' Hb _ IH]; constructor; auto. eapply auto_sel_rel; eauto. }
    apply G. exact H. }
  assert (Hne : filter (auto_sel t build) t <> []).
  { apply existsb_exists in Hauto. destruct Hauto as (b & Hb & Hab). intro E.
    assert (Hin : In b (filter (auto_sel t build) t))
      by (apply filter_In; split; [exact Hb|unfold auto_sel; rewrite Hab; reflexivity]).
    rewrite E in Hin. exact Hin. }
  assert (Hne' : filter (auto_sel t' build) t' <> []).
  { intro E. rewrite E in Hsel. inversion Hsel. congruence. }
  pose proof (center_stat_rel d _ _ Hsel Hne) as Hst.
  destruct (filter (auto_sel t build) t) eqn:E1; [congruence|].
  destruct (filter (auto_sel t' build) t') eqn:E2; [congruence|].
  eexists. eexists. split; [reflexivity|]. split; [reflexivity|].
  rewrite !qneg_spec, Hst. ring.
Qed.

(* the centred value of one bin *)
Lemma center_all_nth est by_chrom skip build t c i d0 :
  center_shift est by_chrom skip build t = Some c -> (i < length t)%nat ->
  b_log2 (nth i (center_all est by_chrom skip build t) d0) == b_log2 (nth i t d0) + c.
Proof.
  intros Hc Hi. unfold center_all. rewrite Hc.
  rewrite (nth_indep _ d0 (add_log2 c d0)) by (rewrite map_length; exact Hi).
  rewrite map_nth. cbn. apply qadd_spec.
Qed.
