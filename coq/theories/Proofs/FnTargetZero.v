(* C12 source tie of do_target's zero-width filter,

       tgt_arr = bait_arr.copy()
       # Drop zero-width regions
       tgt_arr = tgt_arr[tgt_arr.start != tgt_arr.end]

   the row mask read per row and regenerated from the Python source on every run as Gen/FnTargetZero.v
   (fn_keep_target; the copy is an opaque input: it has the same rows).  Here: Model/Target.v
   drop_zero_width -- the first step of do_target -- IS the filter by the generated test. *)
From CNV Require Import Base.Prelude Model.IvRow Model.Target.
From CNV Require Gen.FnTargetZero.

Local Open Scope Z_scope.

Lemma source_keep_target (d s e : Z) : FnTargetZero.fn_keep_target d s e = negb (s =? e).
Proof. reflexivity. Qed.

Theorem source_drop_zero (d : Z) (t : list grow) :
  drop_zero_width t = filter (fun r => FnTargetZero.fn_keep_target d (lo r) (hi r)) t.
Proof. reflexivity. Qed.

Theorem source_do_target (d : Z) (split : bool) (avg : Q) (cut : Z -> Z -> Z -> Z) (baits : list grow) :
  do_target split avg cut baits =
  let t := filter (fun r => FnTargetZero.fn_keep_target d (lo r) (hi r)) baits in
  if split then gsubdivide avg Gen.BinsDefaults.target_min_size cut t else t.
Proof. reflexivity. Qed.
