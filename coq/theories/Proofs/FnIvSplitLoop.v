(* C06 loop tie of subdivide._split_targets: the bins of ONE region,

       bin_size = span / nbins
       bin_start = row.start
       for i in range(1, nbins):
           bin_end = row.start + int(i * bin_size)
           yield row._replace(start=bin_start, end=bin_end)
           bin_start = bin_end
       yield row._replace(start=bin_start)

   regenerated from the Python source on every run as Gen/FnIvSplitLoop.v (fn_split_init: the two
   assignments before the loop; fn_split_step: ONE ITERATION, the carried bin_start and the (start, end)
   of the row it yields; fn_split_last: the (start, end) of the closing yield).  Rows are read on their
   coordinates; by the meaning of namedtuple._replace every other field is that of `row`, the model's
   payload.  Here: running the loop -- the step for i = 1 .. nbins - 1, the yields concatenated, the
   closing yield -- IS Model/Intervals.v bins_from with the cut-point oracle read exactly
   (cut i = int(i * bin_size), Python's int() truncating toward zero), and the whole region
   (C06_source_split_row's rule around it) IS split_row.  The exact cut points satisfy the arithmetic
   contract `cut_contract` under which C06_subdivide is proved. *)
From CNV Require Import Base.Prelude Base.QNum Model.IvRow Model.Intervals Spec.Cover.
From CNV Require Import Proofs.QNumLemmas Proofs.FnIntervals.
From Coq Require Import Qround.
From CNV Require Gen.FnIntervals Gen.FnIvSplitLoop.

Local Open Scope Z_scope.

(* Python int() of an exact rational: truncation toward zero (as the translator emits it) *)
Definition int_trunc (q : Q) : Z := if Qle_bool 0 q then floorQ q else ceilQ q.

(* int(i * bin_size) *)
Definition cut_exact (bin_size : Q) (i : Z) : Z := int_trunc (Qmult (inject_Z i) bin_size).

Lemma source_split_init (span n s : Z) :
  FnIvSplitLoop.fn_split_init span n s = (Qdiv (inject_Z span) (inject_Z n), s).
Proof. reflexivity. Qed.

Lemma source_split_step (s e : Z) (bsz : Q) (i bs : Z) :
  FnIvSplitLoop.fn_split_step s e bsz i bs = (s + cut_exact bsz i, [(bs, s + cut_exact bsz i)]).
Proof. reflexivity. Qed.

Lemma source_split_last (s e bs : Z) : FnIvSplitLoop.fn_split_last s e bs = [(bs, e)].
Proof. reflexivity. Qed.

Lemma source_split_parts (s e : Z) (bsz : Q) (i bs span n : Z) :
  FnIvSplitLoop.fn_split_init span n s = (Qdiv (inject_Z span) (inject_Z n), s) /\
  FnIvSplitLoop.fn_split_step s e bsz i bs = (s + cut_exact bsz i, [(bs, s + cut_exact bsz i)]) /\
  FnIvSplitLoop.fn_split_last s e bs = [(bs, e)].
Proof. repeat split. Qed.

(* Python's generator: `for i in range(i0, i0 + k)` over the generated step, then the closing yield *)
Fixpoint src_bins (s e : Z) (bsz : Q) (bin_start i : Z) (k : nat) : list (Z * Z) :=
  match k with
  | O => FnIvSplitLoop.fn_split_last s e bin_start
  | S k' =>
      let '(bin_start', ys) := FnIvSplitLoop.fn_split_step s e bsz i bin_start in
      ys ++ src_bins s e bsz bin_start' (i + 1) k'
  end.

(* the yielded namedtuples: the fields other than start / end are those of `row` *)
Definition with_pay {A} (p : A) (l : list (Z * Z)) : list (@row A) := map (fun se => (fst se, snd se, p)) l.

Theorem source_split_loop {A} (s e : Z) (bsz : Q) (p : A) (k : nat) : forall bin_start i,
  with_pay p (src_bins s e bsz bin_start i k) = bins_from (cut_exact bsz) s bin_start i k e p.
Proof.
  induction k as [|k IH]; intros bs i; cbn [src_bins bins_from].
  - rewrite source_split_last. reflexivity.
  - rewrite source_split_step. cbn [app with_pay map fst snd]. f_equal. apply IH.
Qed.

(* the whole region: the generated rule (guard, bin count, single-bin test; Gen/FnIntervals.v), then the
   generated loop for i in range(1, nbins) *)
Definition src_split_row {A} (avg mn : Z) (r : @row A) : list (@row A) :=
  let '(ok, n, single) := FnIntervals.fn_split_rule (lo r) (hi r) (inject_Z avg) mn in
  if ok then
    if single then [r]
    else let '(bsz, bs0) := FnIvSplitLoop.fn_split_init (hi r - lo r) n (lo r) in
         with_pay (pay r) (src_bins (lo r) (hi r) bsz bs0 1 (Z.to_nat (n - 1)))
  else [].

(* the cut-point oracle of Model/Intervals.v split_row, read exactly *)
Definition cut_of_source (span n i : Z) : Z := cut_exact (Qdiv (inject_Z span) (inject_Z n)) i.

Theorem source_split_row {A} (avg mn : Z) (r : @row A) : 0 < avg ->
  src_split_row avg mn r = split_row avg mn cut_of_source r.
Proof.
  intros Ha. unfold src_split_row.
  pose proof (split_row_source avg mn cut_of_source r Ha) as H.
  destruct (FnIntervals.fn_split_rule (lo r) (hi r) (inject_Z avg) mn) as [[ok n] single].
  rewrite H. destruct ok; [|reflexivity]. destruct single; [reflexivity|].
  rewrite source_split_init. apply source_split_loop.
Qed.

(* ---- the exact cut points meet the contract of C06_subdivide ----------------------------------- *)
Lemma int_trunc_nonneg_frac (a : Z) (p : positive) : 0 <= a -> int_trunc (a # p) = a / Zpos p.
Proof.
  intros Ha. unfold int_trunc.
  assert (E : Qle_bool 0 (a # p) = true).
  { apply Qle_bool_iff. unfold Qle. cbn [Qnum Qden]. lia. }
  rewrite E. reflexivity.
Qed.

Lemma int_trunc_comp (x y : Q) : x == y -> int_trunc x = int_trunc y.
Proof.
  intros E. unfold int_trunc, floorQ, ceilQ.
  assert (Eb : Qle_bool 0 x = Qle_bool 0 y).
  { destruct (Qle_bool 0 x) eqn:Hx; destruct (Qle_bool 0 y) eqn:Hy; try reflexivity.
    - apply Qle_bool_iff in Hx. rewrite E in Hx. apply Qle_bool_iff in Hx. congruence.
    - apply Qle_bool_iff in Hy. rewrite <- E in Hy. apply Qle_bool_iff in Hy. congruence. }
  rewrite Eb. destruct (Qle_bool 0 y).
  - apply Qfloor_comp; exact E.
  - apply Qceiling_comp; exact E.
Qed.

Lemma cut_of_source_div (span n i : Z) : 0 <= span -> 0 < n -> 0 <= i ->
  cut_of_source span n i = (i * span) / n.
Proof.
  intros Hs Hn Hi. unfold cut_of_source, cut_exact.
  destruct n as [|np|np]; try lia.
  rewrite (int_trunc_comp _ ((i * span) # np)).
  - apply int_trunc_nonneg_frac. nia.
  - unfold Qeq, Qmult, Qdiv, Qinv, inject_Z. cbn. lia.
Qed.

Theorem source_cut_contract (span n : Z) : 0 <= span -> 0 < n -> cut_contract span n (cut_of_source span n).
Proof.
  intros Hs Hn i Hi. rewrite cut_of_source_div by lia.
  pose proof (Z.div_mod (i * span) n ltac:(lia)) as Hdm.
  pose proof (Z.mod_pos_bound (i * span) n Hn) as Hm.
  nia.
Qed.

Example source_split_row_ex :
  src_split_row 100 0 ((1000, 1250, tt) : @row unit)
  = [(1000, 1125, tt); (1125, 1250, tt)].
Proof. reflexivity. Qed.
