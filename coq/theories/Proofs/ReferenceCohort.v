(* C05_depth_only and C05_sex_levels, per block (target files or antitarget files) and bin:
   when every sample's centred, sex-shifted value at a bin is the same v, the consensus is v with
   spread 0; for cohorts that differ only in depth, and for noise-free cohorts of any sex mix,
   the values are computed. *)
From CNV Require Import Base.Prelude Base.Str Base.QNum Model.Chromsort Model.Center Model.Sex
  Model.Reference Spec.Biweight Spec.Reference Proofs.QNumLemmas Proofs.ChromsortLemmas
  Proofs.ReferenceFlat Proofs.ReferenceBins Proofs.ReferenceBiweight Proofs.ReferenceEstimator
  Proofs.ReferenceMajority Proofs.ReferenceCentre.
From Coq Require Import Qabs.
Local Open Scope Q_scope.

Lemma Forall2_nth {A B} (R : A -> B -> Prop) l l' i d d' :
  Forall2 R l l' -> (i < length l)%nat -> R (nth i l d) (nth i l' d').
Proof.
  intros H. revert i. induction H as [|x y l l' Hxy _ IH]; intros i Hi; cbn in Hi; [lia|].
  destruct i; cbn; [exact Hxy|]. apply IH. lia.
Qed.

Lemma Forall2_imp {A B} (R R' : A -> B -> Prop) l l' :
  (forall x y, R x y -> R' x y) -> Forall2 R l l' -> Forall2 R' l l'.
Proof. intros H. induction 1; constructor; auto. Qed.

Lemma Forall2_length' {A B} (R : A -> B -> Prop) l l' : Forall2 R l l' -> length l = length l'.
Proof. induction 1; cbn; congruence. Qed.

Lemma shifted_value_proper xx fl xm ym v v' :
  v == v' -> shifted_value xx fl xm ym v == shifted_value xx fl xm ym v'.
Proof. intros E. unfold shifted_value. destruct xx; [destruct ym|destruct (xm || ym)]; rewrite ?E; reflexivity. Qed.

Lemma eps_pos : 0 < eps_1e3. Proof. reflexivity. Qed.

(* ---- agreement => consensus ------------------------------------------------------------------------ *)
Section Block.
  Variables (hap : bool) (build : option parb) (sexes : list (string * bool)) (skip : bool).
  Variable files : list sample.
  Hypothesis Hfiles : files <> [].
  Let bins := block_bins files.

  Lemma block_agree i v :
    (forall s, In s files -> sample_value hap build sexes skip bins i s == v) ->
    let fl := nth i (expect_flat hap build bins) 0 in
    (fl == v \/ (eps_1e3 <= Qabs (fl - v) /\ (2 <= length files)%nat)) ->
    consensus_log2 (block_column hap build sexes skip files i) == v /\
    consensus_spread_sq (block_column hap build sexes skip files i) == 0.
  Proof.
    intros Hv fl Hmaj. unfold block_column. cbv zeta. fold bins. fold fl.
    set (vs := map (sample_value hap build sexes skip bins i) (sort_samples files)).
    assert (Hvs : forall x, In x vs -> x == v).
    { intros x Hx. apply in_map_iff in Hx. destruct Hx as (s & <- & Hs). apply Hv. now apply sort_samples_In. }
    assert (Hlen : length vs = length files).
    { unfold vs. rewrite map_length. symmetry. apply Permutation_length, sort_samples_perm. }
    assert (Hmaj' : (fl == v /\ vs <> []) \/ (eps_1e3 <= Qabs (fl - v) /\ (2 <= length vs)%nat)).
    { destruct Hmaj as [E|(E & Hk)]; [left|right]; split; auto; try lia.
      intro E0. rewrite E0 in Hlen. destruct files; [congruence|discriminate]. }
    assert (Hloc : consensus_log2 (fl :: vs) == v).
    { unfold consensus_log2. apply (agree_location 6 eps_1e3 eps_pos fl v vs Hvs Hmaj' 4). }
    split; [exact Hloc|].
    unfold consensus_spread_sq.
    apply (agree_midvar 9 eps_1e3 eps_pos fl v vs Hvs Hmaj'). exact Hloc.
  Qed.

  (* ---- a common profile --------------------------------------------------------------------------------- *)
  (* base: the cohort's profile (same bins; log2 = the baseline a_i) *)
  Variable base : list bin.
  Hypothesis Hauto : existsb is_auto_bin base = true.

  (* sample s equals the profile plus d on the bins the centre is taken over *)
  Definition centred_like (s : sample) (d : Q) : Prop :=
    Forall2 (bin_rel d (auto_sel base build)) base (s_bins s).

  Hypothesis Hlike : forall s, In s files -> exists d, centred_like s d.
  Hypothesis Hlow : skip = true ->
    (forall b, In b base -> is_low b = false) /\
    (forall s, In s files -> forall b, In b (s_bins s) -> is_low b = false).

  Lemma first_in_files : exists f, In f files /\ bins = s_bins f.
  Proof.
    unfold bins, block_bins, first_file.
    destruct (sort_samples files) as [|f rest] eqn:E.
    - exfalso. apply Hfiles. apply Permutation_nil. rewrite <- E. apply Permutation_sym, sort_samples_perm.
    - exists f. split; [|reflexivity]. apply sort_samples_In. rewrite E. now left.
  Qed.

  Lemma bins_rel : exists d, Forall2 (bin_rel d (auto_sel base build)) base bins.
  Proof. destruct first_in_files as (f & Hf & ->). apply Hlike. exact Hf. Qed.

  Lemma length_bins : length bins = length base.
  Proof. destruct bins_rel as (d & H). symmetry. eapply Forall2_length'; eauto. Qed.

  (* the X / Y filters of the first file are those of the profile, bin by bin *)
  Lemma filters_rel i d0 :
    (i < length base)%nat ->
    chr_x_filter bins build (nth i bins d0) = chr_x_filter base build (nth i base d0) /\
    chr_y_filter bins build (nth i bins d0) = chr_y_filter base build (nth i base d0) /\
    chr_y_filter bins None (nth i bins d0) = chr_y_filter base None (nth i base d0).
  Proof.
    intros Hi. destruct bins_rel as (d & H).
    pose proof (x_label_rel _ _ _ _ H) as Hx.
    assert (Hy : y_label base = y_label bins).
    { unfold y_label. rewrite Hx. destruct H; reflexivity. }
    destruct (Forall2_nth _ _ _ i d0 d0 H Hi) as (Hc & Hs & He & _).
    unfold chr_x_filter, chr_y_filter, parx_filter, pary_filter, in_par.
    rewrite <- Hx, <- Hy, <- Hc.
    destruct build as [p|]; [|auto].
    destruct (par_x p) as [[[s1 e1] s2] e2]. destruct (par_y p) as [[[s3 e3] s4] e4].
    rewrite <- Hs, <- He. auto.
  Qed.

  Lemma flat_rel i d0 :
    (i < length base)%nat ->
    nth i (expect_flat hap build bins) 0 = flat_at hap build base (nth i base d0).
  Proof.
    intros Hi. rewrite (nth_expect_flat hap build bins i d0) by (rewrite length_bins; exact Hi).
    unfold flat_at. destruct (filters_rel i d0 Hi) as (-> & -> & ->). reflexivity.
  Qed.

  (* the centred value of a sample at bin i: its raw value plus the profile's shift minus d *)
  Lemma centred_value s d i d0 :
    In s files -> centred_like s d -> (i < length base)%nat ->
    exists c, center_shift median true skip build base = Some c /\
      b_log2 (nth i (center_all median true skip build (s_bins s)) d0)
      == b_log2 (nth i (s_bins s) d0) + (c - d).
  Proof.
    intros Hs Hl Hi.
    destruct (center_shift_rel d skip build base (s_bins s) Hl Hauto) as (c & c' & Hc & Hc' & E).
    { intros Hsk. destruct (Hlow Hsk) as (H1 & H2). split; [exact H1|]. apply H2. exact Hs. }
    exists c. split; [exact Hc|].
    rewrite (center_all_nth _ _ _ _ _ c' i d0 Hc') by (rewrite <- (Forall2_length' _ _ _ Hl); exact Hi).
    rewrite E. reflexivity.
  Qed.

  (* ---- C05_depth_only: samples that are the profile plus a constant everywhere, same sex label ---------- *)
  Theorem depth_only_bin xx i d0 :
    (forall s, In s files -> sample_is_xx sexes (s_id s) = xx) ->
    (forall s, In s files -> exists d, Forall2 (bin_rel d (fun _ => true)) base (s_bins s)) ->
    (i < length base)%nat ->
    exists c, center_shift median true skip build base = Some c /\
    let b := nth i base d0 in
    let fl := flat_at hap build base b in
    let v := shifted_value xx fl (chr_x_filter base build b) (chr_y_filter base build b) (b_log2 b + c) in
    ((fl == v \/ (eps_1e3 <= Qabs (fl - v) /\ (2 <= length files)%nat)) ->
     consensus_log2 (block_column hap build sexes skip files i) == v /\
     consensus_spread_sq (block_column hap build sexes skip files i) == 0).
  Proof.
    intros Hxx Hall Hi.
    destruct first_in_files as (f0 & Hf0 & _). destruct (Hlike f0 Hf0) as (d00 & Hl0).
    destruct (centred_value f0 d00 i d0 Hf0 Hl0 Hi) as (c & Hc & _).
    exists c. split; [exact Hc|]. intros b fl v Hmaj.
    assert (Hv : forall s, In s files -> sample_value hap build sexes skip bins i s == v).
    { intros s Hs. destruct (Hall s Hs) as (d & Hd).
      assert (Hl : centred_like s d).
      { unfold centred_like. eapply Forall2_imp; [|exact Hd]. intros x y (H1 & H2 & H3 & H4).
        repeat split; auto. }
      eapply Qeq_trans;
        [apply (sample_value_spec hap build sexes skip bins i s d0);
         [rewrite length_bins; exact Hi | rewrite length_bins; symmetry; eapply Forall2_length'; eauto]|].
      rewrite (Hxx s Hs). destruct (filters_rel i d0 Hi) as (Ex & Ey & _). rewrite Ex, Ey.
      rewrite <- (nth_expect_flat hap build bins i d0) by (rewrite length_bins; exact Hi).
      rewrite (flat_rel i d0 Hi). fold b. fold fl.
      apply shifted_value_proper.
      destruct (centred_value s d i d0 Hs Hl Hi) as (c2 & Hc2 & E). rewrite Hc in Hc2. injection Hc2 as <-.
      rewrite E. destruct (Forall2_nth _ _ _ i d0 d0 Hd Hi) as (_ & _ & _ & Hraw).
      rewrite (Hraw eq_refl). fold b. ring. }
    apply block_agree; [exact Hv|]. rewrite (flat_rel i d0 Hi). exact Hmaj.
  Qed.

  (* ---- C05_sex_levels: a noise-free cohort of any sex mix ------------------------------------------------ *)
  (* X at the baseline for females, one below for males; Y one below for males, anything for females *)
  Definition sexed_like (s : sample) (d : Q) : Prop :=
    Forall2 (fun b b' =>
               (chr_x_filter base build b = true ->
                b_log2 b' == b_log2 b + d - (if sample_is_xx sexes (s_id s) then 0 else 1)) /\
               (chr_y_filter base build b = true -> sample_is_xx sexes (s_id s) = false ->
                b_log2 b' == b_log2 b + d - 1)) base (s_bins s).

  Hypothesis Hsexed : forall s, In s files -> exists d, centred_like s d /\ sexed_like s d.

  Theorem sex_levels_x i d0 :
    (i < length base)%nat -> chr_x_filter base build (nth i base d0) = true ->
    exists c, center_shift median true skip build base = Some c /\
    let a := b_log2 (nth i base d0) + c in            (* the bin's baseline relative to the autosomal centre *)
    let v := a + (if hap then -1 else 0) in
    ((a == 0 \/ (eps_1e3 <= Qabs a /\ (2 <= length files)%nat)) ->
     consensus_log2 (block_column hap build sexes skip files i) == v /\
     consensus_spread_sq (block_column hap build sexes skip files i) == 0).
  Proof.
    intros Hi Hxm.
    destruct first_in_files as (f0 & Hf0 & _). destruct (Hlike f0 Hf0) as (d00 & Hl0).
    destruct (centred_value f0 d00 i d0 Hf0 Hl0 Hi) as (c & Hc & _).
    exists c. split; [exact Hc|]. intros a v Hmaj.
    (* the flat level of an X bin *)
    assert (Hfl : flat_at hap build base (nth i base d0) == (if hap then -1 else 0)).
    { unfold flat_at. rewrite Hxm. destruct hap; [reflexivity|].
      unfold chr_x_filter, chr_y_filter in *. apply andb_true_iff in Hxm. destruct Hxm as (Hx & _).
      apply String.eqb_eq in Hx.
      assert (Hne : base <> []) by (intro E; rewrite E in Hi; cbn in Hi; lia).
      pose proof (labels_distinct base Hne) as Hd.
      destruct (String.eqb_spec (b_chrom (nth i base d0)) (y_label base)); [congruence|reflexivity]. }
    assert (Hym : chr_y_filter base build (nth i base d0) = false).
    { unfold chr_x_filter, chr_y_filter in *. apply andb_true_iff in Hxm. destruct Hxm as (Hx & _).
      apply String.eqb_eq in Hx.
      assert (Hne : base <> []) by (intro E; rewrite E in Hi; cbn in Hi; lia).
      pose proof (labels_distinct base Hne) as Hd.
      destruct (String.eqb_spec (b_chrom (nth i base d0)) (y_label base)); [congruence|reflexivity]. }
    assert (Hv : forall s, In s files -> sample_value hap build sexes skip bins i s == v).
    { intros s Hs. destruct (Hsexed s Hs) as (d & Hl & Hsx).
      eapply Qeq_trans;
        [apply (sample_value_spec hap build sexes skip bins i s d0);
         [rewrite length_bins; exact Hi | rewrite length_bins; symmetry; eapply Forall2_length'; eauto]|].
      destruct (filters_rel i d0 Hi) as (Ex & Ey & _). rewrite Ex, Ey, Hxm, Hym.
      rewrite <- (nth_expect_flat hap build bins i d0) by (rewrite length_bins; exact Hi).
      rewrite (flat_rel i d0 Hi).
      destruct (centred_value s d i d0 Hs Hl Hi) as (c2 & Hc2 & E). rewrite Hc in Hc2. injection Hc2 as <-.
      destruct (Forall2_nth _ _ _ i d0 d0 Hsx Hi) as (Hraw & _). specialize (Hraw Hxm).
      unfold shifted_value. destruct (sample_is_xx sexes (s_id s)); cbn [orb];
        rewrite E, Hraw, Hfl; unfold v, a; ring. }
    apply block_agree; [exact Hv|]. rewrite (flat_rel i d0 Hi).
    destruct Hmaj as [E|(E & Hk)]; [left|right; split; [|exact Hk]].
    - rewrite Hfl. unfold v. rewrite E. ring.
    - setoid_replace (flat_at hap build base (nth i base d0) - v) with (- a) by (rewrite Hfl; unfold v; ring).
      rewrite Qabs_opp. exact E.
  Qed.

  Theorem sex_levels_y i d0 :
    (i < length base)%nat -> chr_y_filter base build (nth i base d0) = true ->
    exists c, center_shift median true skip build base = Some c /\
    (b_log2 (nth i base d0) + c == 0 ->             (* the bin's baseline is the autosomal centre *)
     consensus_log2 (block_column hap build sexes skip files i) == -1 /\
     consensus_spread_sq (block_column hap build sexes skip files i) == 0).
  Proof.
    intros Hi Hym.
    destruct first_in_files as (f0 & Hf0 & _). destruct (Hlike f0 Hf0) as (d00 & Hl0).
    destruct (centred_value f0 d00 i d0 Hf0 Hl0 Hi) as (c & Hc & _).
    exists c. split; [exact Hc|]. intros Ha.
    assert (Hfl : flat_at hap build base (nth i base d0) == -1).
    { unfold flat_at. rewrite Hym. destruct hap; [rewrite orb_true_r; reflexivity|].
      unfold chr_y_filter in *. apply andb_true_iff in Hym. destruct Hym as (-> & _). reflexivity. }
    assert (Hv : forall s, In s files -> sample_value hap build sexes skip bins i s == -1).
    { intros s Hs. destruct (Hsexed s Hs) as (d & Hl & Hsx).
      eapply Qeq_trans;
        [apply (sample_value_spec hap build sexes skip bins i s d0);
         [rewrite length_bins; exact Hi | rewrite length_bins; symmetry; eapply Forall2_length'; eauto]|].
      destruct (filters_rel i d0 Hi) as (Ex & Ey & _). rewrite Ex, Ey, Hym.
      rewrite <- (nth_expect_flat hap build bins i d0) by (rewrite length_bins; exact Hi).
      rewrite (flat_rel i d0 Hi).
      unfold shifted_value. destruct (sample_is_xx sexes (s_id s)) eqn:Exx; [reflexivity|].
      rewrite orb_true_r.
      destruct (centred_value s d i d0 Hs Hl Hi) as (c2 & Hc2 & E). rewrite Hc in Hc2. injection Hc2 as <-.
      destruct (Forall2_nth _ _ _ i d0 d0 Hsx Hi) as (_ & Hraw). specialize (Hraw Hym Exx).
      rewrite E, Hraw, Hfl.
      setoid_replace (b_log2 (nth i base d0) + d - 1 + (c - d) + -1 + 1)
        with (b_log2 (nth i base d0) + c - 1) by ring.
      rewrite Ha. reflexivity. }
    apply block_agree; [exact Hv|]. left. rewrite (flat_rel i d0 Hi). exact Hfl.
  Qed.

  (* beyond baseline = autosomal centre, (1): a block of males only keeps the Y bin's own baseline a, one copy
     below it -- a - 1 -- exactly as an X bin does under a male reference *)
  Theorem sex_levels_y_males i d0 :
    (forall s, In s files -> sample_is_xx sexes (s_id s) = false) ->
    (i < length base)%nat -> chr_y_filter base build (nth i base d0) = true ->
    exists c, center_shift median true skip build base = Some c /\
    let a := b_log2 (nth i base d0) + c in
    ((a == 0 \/ (eps_1e3 <= Qabs a /\ (2 <= length files)%nat)) ->
     consensus_log2 (block_column hap build sexes skip files i) == a - 1 /\
     consensus_spread_sq (block_column hap build sexes skip files i) == 0).
  Proof.
    intros Hmale Hi Hym.
    destruct first_in_files as (f0 & Hf0 & _). destruct (Hlike f0 Hf0) as (d00 & Hl0).
    destruct (centred_value f0 d00 i d0 Hf0 Hl0 Hi) as (c & Hc & _).
    exists c. split; [exact Hc|]. intros a Hmaj.
    assert (Hfl : flat_at hap build base (nth i base d0) == -1).
    { unfold flat_at. rewrite Hym. destruct hap; [rewrite orb_true_r; reflexivity|].
      unfold chr_y_filter in *. apply andb_true_iff in Hym. destruct Hym as (-> & _). reflexivity. }
    assert (Hv : forall s, In s files -> sample_value hap build sexes skip bins i s == a - 1).
    { intros s Hs. destruct (Hsexed s Hs) as (d & Hl & Hsx).
      eapply Qeq_trans;
        [apply (sample_value_spec hap build sexes skip bins i s d0);
         [rewrite length_bins; exact Hi | rewrite length_bins; symmetry; eapply Forall2_length'; eauto]|].
      destruct (filters_rel i d0 Hi) as (Ex & Ey & _). rewrite Ex, Ey, Hym.
      rewrite <- (nth_expect_flat hap build bins i d0) by (rewrite length_bins; exact Hi).
      rewrite (flat_rel i d0 Hi).
      unfold shifted_value. rewrite (Hmale s Hs), orb_true_r.
      destruct (centred_value s d i d0 Hs Hl Hi) as (c2 & Hc2 & E). rewrite Hc in Hc2. injection Hc2 as <-.
      destruct (Forall2_nth _ _ _ i d0 d0 Hsx Hi) as (_ & Hraw). specialize (Hraw Hym (Hmale s Hs)).
      rewrite E, Hraw, Hfl. unfold a. ring. }
    apply block_agree; [exact Hv|]. rewrite (flat_rel i d0 Hi).
    destruct Hmaj as [E|(E & Hk)]; [left|right; split; [|exact Hk]].
    - rewrite Hfl, E. ring.
    - setoid_replace (flat_at hap build base (nth i base d0) - (a - 1)) with (- a) by (rewrite Hfl; ring).
      rewrite Qabs_opp. exact E.
  Qed.

  (* (2): a block of females only puts every Y bin at -1, whatever its baseline and whatever the files show there *)
  Theorem sex_levels_y_females i d0 :
    (forall s, In s files -> sample_is_xx sexes (s_id s) = true) ->
    (i < length base)%nat -> chr_y_filter base build (nth i base d0) = true ->
    consensus_log2 (block_column hap build sexes skip files i) == -1 /\
    consensus_spread_sq (block_column hap build sexes skip files i) == 0.
  Proof.
    intros Hfem Hi Hym.
    assert (Hfl : flat_at hap build base (nth i base d0) == -1).
    { unfold flat_at. rewrite Hym. destruct hap; [rewrite orb_true_r; reflexivity|].
      unfold chr_y_filter in *. apply andb_true_iff in Hym. destruct Hym as (-> & _). reflexivity. }
    assert (Hv : forall s, In s files -> sample_value hap build sexes skip bins i s == -1).
    { intros s Hs. destruct (Hlike s Hs) as (d & Hl).
      eapply Qeq_trans;
        [apply (sample_value_spec hap build sexes skip bins i s d0);
         [rewrite length_bins; exact Hi | rewrite length_bins; symmetry; eapply Forall2_length'; eauto]|].
      destruct (filters_rel i d0 Hi) as (Ex & Ey & _). rewrite Ex, Ey, Hym.
      unfold shifted_value. rewrite (Hfem s Hs). reflexivity. }
    apply block_agree; [exact Hv|]. left. rewrite (flat_rel i d0 Hi). exact Hfl.
  Qed.
End Block.

(* (3) sharp: with both sexes in the block and a Y baseline off the autosomal centre the column is not constant.
   Two males and one female, the Y bin's baseline 1/2 above the autosomes: the column is -1 (flat), -1 (female),
   -1/2, -1/2 (males); its biweight location is the midpoint -3/4 -- neither -1 nor the males' 1/2 - 1 -- and its
   spread is not 0.  Every other hypothesis of sex_levels_y holds. *)
Definition ymix_bins (x y : Q) : list bin :=
  [mkBin "chr1" 0 100 "A" 0 (Some 1) None; mkBin "chr2" 0 100 "B" 0 (Some 1) None;
   mkBin "chrX" 0 100 "C" x (Some 1) None; mkBin "chrY" 0 100 "D" y (Some 1) None].
Definition ymix_base : list bin := ymix_bins 0 (1 # 2).
Definition ymix_files : list sample :=
  [mkSample "m1" (ymix_bins (-1 # 1) (-1 # 2)) [1; 1; 1; 1]; mkSample "m2" (ymix_bins (-1 # 1) (-1 # 2)) [1; 1; 1; 1];
   mkSample "f1" (ymix_bins 0 (-5 # 1)) [1; 1; 1; 1]].
Definition ymix_sexes : list (string * bool) := [("m1"%string, false); ("m2"%string, false); ("f1"%string, true)].

Lemma ymix_hypotheses :
  ymix_files <> [] /\ existsb is_auto_bin ymix_base = true /\
  (forall s, In s ymix_files -> forall b, In b (s_bins s) -> is_low b = false) /\
  (forall b, In b ymix_base -> is_low b = false) /\
  (forall s, In s ymix_files -> centred_like None ymix_base s 0 /\ sexed_like None ymix_sexes ymix_base s 0) /\
  chr_y_filter ymix_base None (nth 3 ymix_base (mkBin "" 0 0 "" 0 None None)) = true /\
  center_shift median true true None ymix_base = Some 0.
Proof.
  split; [discriminate|]. split; [reflexivity|]. split.
  { intros s [<-|[<-|[<-|[]]]] b [<-|[<-|[<-|[<-|[]]]]]; reflexivity. }
  split.
  { intros b [<-|[<-|[<-|[<-|[]]]]]; reflexivity. }
  split.
  { intros s [<-|[<-|[<-|[]]]]; (split; [unfold centred_like|unfold sexed_like]);
      repeat constructor; cbn; try reflexivity; try discriminate; intros; try discriminate; reflexivity. }
  split; [reflexivity|]. vm_compute. reflexivity.
Qed.

Theorem sex_levels_y_mixed_refuted :
  consensus_log2 (block_column false None ymix_sexes true ymix_files 3) == -3 # 4 /\
  ~ consensus_log2 (block_column false None ymix_sexes true ymix_files 3) == -1 /\
  ~ consensus_spread_sq (block_column false None ymix_sexes true ymix_files 3) == 0.
Proof.
  split; [vm_compute; reflexivity|].
  split; intros H; vm_compute in H; discriminate.
Qed.
