(* C08_rewrite: writing the table that was read back gives the lines of writing
   the sorted input, for every writer format. *)
From CNV Require Import Base.Prelude Base.Str Model.Decimal Model.Chromsort Model.Sniff Model.Formats.
From CNV Require Import Proofs.ChromsortLemmas Proofs.FormatsLemmas Proofs.FormatsText.
From CNV Require Import Gen.Formats.

Lemma sort_rows_map (f : row -> row) (t : list row) :
  (forall r, fst (f r) = fst r) -> sort_rows (map f t) = map f (sort_rows t).
Proof.
  intros H. unfold sort_rows. symmetry. apply sort_regions_map.
  intros r. unfold row_region. apply H.
Qed.

Lemma write_after_norm (w : row -> line) (f : row -> row) (t : list row) :
  (forall r, fst (f r) = fst r) -> (forall r, w (f r) = w r) ->
  map w (sort_rows (map f t)) = map w (sort_rows t).
Proof.
  intros H1 H2. rewrite sort_rows_map by assumption. rewrite map_map.
  apply map_ext. intros r. apply H2.
Qed.

Lemma rewrite_tab h t :
  Forall (fun r => length (snd r) = length h) t ->
  option_map (fun ht => write_tab (fst ht) (snd ht)) (read_tab (write_tab h t))
  = Some (write_tab h (sort_rows t)).
Proof. intros H. now rewrite roundtrip_tab. Qed.

Lemma rewrite_bed3 t :
  Forall (fun r => bed_name_ok (fst (fst (fst r))) = true) t ->
  option_map write_bed3 (read_bed3 (write_bed3 t)) = Some (write_bed3 (sort_rows t)).
Proof.
  intros H. rewrite roundtrip_bed3 by assumption. cbn [option_map]. f_equal.
  unfold write_bed3. apply write_after_norm; intros [[[c s] e] ex]; reflexivity.
Qed.

Lemma rewrite_bed4 t :
  Forall (fun r => bed_name_ok (fst (fst (fst r))) = true) t ->
  Forall (fun r => bed_gene_ok r = true) t ->
  option_map write_bed4 (read_bed4 (write_bed4 t)) = Some (write_bed4 (sort_rows t)).
Proof.
  intros H HG. rewrite roundtrip_bed4 by assumption. cbn [option_map]. f_equal.
  unfold write_bed4. apply write_after_norm; intros [[[c s] e] ex]; reflexivity.
Qed.

Lemma rewrite_interval t :
  Forall (fun r => interval_row_ok r = true) t ->
  option_map write_interval (read_interval (write_interval t)) = Some (write_interval (sort_rows t)).
Proof.
  intros H. rewrite roundtrip_interval by assumption. cbn [option_map]. f_equal.
  unfold write_interval. apply write_after_norm; intros [[[c s] e] ex]; reflexivity.
Qed.

Lemma rewrite_text t :
  Forall (fun r => text_row_ok r = true) t ->
  option_map write_text (read_text (write_text t)) = Some (write_text (sort_rows t)).
Proof.
  intros H. rewrite roundtrip_text by assumption. cbn [option_map]. f_equal.
  unfold write_text. apply write_after_norm; intros [[[c s] e] ex]; reflexivity.
Qed.

(* a table that is already sorted is written, read and written again unchanged *)
Lemma sort_rows_sorted_id t :
  Sorted (fun a b => region_leb row_region a b = true) t -> sort_rows t = t.
Proof. apply sort_regions_sorted_id. Qed.
