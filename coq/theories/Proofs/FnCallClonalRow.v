(* C01 source tie of the purity-adjusted per-row computation, as spread over three functions of cnvlib/call.py:

       absolute_dataframe:  df["absolute"] = df.apply(lambda row: _log2_ratio_to_absolute(row["log2"], row["reference"],
                                                                                          row["expect"], purity), axis=1)
       absolute_clonal:     return df["absolute"]
       do_call:             absolutes = absolute_clonal(...).clip(lower=0)

   each regenerated from the Python source on every run (Gen/FnCallClonalRow.v: fn_dataframe_row -- the function
   df.apply calls per row --, fn_dataframe_whole -- the same from the call of
   get_as_dframe_and_set_reference_and_expect_copies on, the callee's table read through its columns --,
   fn_absolute_clonal -- WHOLE: the call of absolute_dataframe and the column handed back --, fn_clonal_clip;
   _log2_ratio_to_absolute and its callee are translated in the same module).  Here: the chain, with the (reference,
   expect) columns of the row's class (Model/Call.v ref_expect, tied to the callee's column code by
   C01_source_ref_expect / C01_source_row_copies) in place of the callee's table, IS the `absolutes` of
   Model/Call.v call_row_purity -- the row function C01_cn_exact / C01_rescaled_log2 / C01_nonneg speak about through
   call_row --, its cn the half-to-even rounding of it and its rewritten ratio `rescaled` of it. *)
From CNV Require Import Base.Prelude Base.Str Gen.CallDefaults Gen.FnCall Gen.FnCallClonalRow Model.Call.
From CNV Require Proofs.CallNum Proofs.Call Proofs.FnCall.
From Coq Require Import Lqa.
Local Open Scope Z_scope.

(* the columns of get_as_dframe_and_set_reference_and_expect_copies' table on a row of class c whose log2 is v, as
   functions of the call's arguments (table id, ploidy, is_haploid_x_reference, build id, is_sample_female) *)
Definition col_log2 (v : Q) : Z -> Z -> bool -> Z -> bool -> Q := fun _ _ _ _ _ => v.
Definition col_reference (c : cls) : Z -> Z -> bool -> Z -> bool -> Z := fun _ k hapx _ female => fst (ref_expect k hapx female c).
Definition col_expect (c : cls) : Z -> Z -> bool -> Z -> bool -> Z := fun _ k hapx _ female => snd (ref_expect k hapx female c).

(* the chain do_call -> absolute_clonal -> absolute_dataframe -> (callee's columns) as written, arguments passed on as the
   three functions pass them *)
Definition gen_clonal_abs (exp2 : Q -> Q) (cn k : Z) (purity : option Q) (hapx : bool) (b : Z) (female : bool) (c : cls) (v : Q) : Q :=
  fn_clonal_clip
    (fn_absolute_clonal cn k purity hapx b female
       (fun cn' k' purity' hapx' b' female' =>
          fn_dataframe_whole exp2 cn' k' purity' hapx' b' female' (col_log2 v) (col_reference c) (col_expect c))).

(* the whole-function reading and the row function agree *)
Lemma dataframe_whole_row (exp2 : Q -> Q) cn k purity hapx b female c v :
  fn_dataframe_whole exp2 cn k purity hapx b female (col_log2 v) (col_reference c) (col_expect c)
  = fn_dataframe_row exp2 purity v (fst (ref_expect k hapx female c)) (snd (ref_expect k hapx female c)).
Proof. reflexivity. Qed.

Lemma dataframe_row_eq (exp2 : Q -> Q) purity p v r x :
  use_purity purity = Some p ->
  (fn_dataframe_row exp2 purity v r x == abs_clonal (exp2 v) r x p)%Q.
Proof.
  intro U. unfold use_purity in U. destruct purity as [q|]; [|discriminate].
  unfold fn_dataframe_row, fn_clonalrow_abs. cbv zeta.
  change purity_limit with (inject_Z 1) in U.
  destruct (negb (Qeq_bool q 0) && negb (Qle_bool (inject_Z 1) q)); [|discriminate].
  injection U as ->. unfold abs_clonal. rewrite Qred_correct. change (inject_Z 1) with 1%Q. reflexivity.
Qed.

Lemma rescaled_comp a a' k sh : (a == a')%Q -> rescaled a k sh = rescaled a' k sh.
Proof.
  intro E. unfold rescaled. cbv zeta. apply Qred_complete.
  assert (M : (qmax (a / inject_Z k) min_abs_val == qmax (a' / inject_Z k) min_abs_val)%Q).
  { apply CallNum.qmax_comp; [rewrite E; reflexivity | reflexivity]. }
  destruct sh; rewrite M; reflexivity.
Qed.

Lemma source_clonal_row (exp2 : Q -> Q) cn b k purity p hapx female c v :
  use_purity purity = Some p ->
  let a := gen_clonal_abs exp2 cn k purity hapx b female c v in
  let o := call_row_purity k p hapx female c (exp2 v) in
  (Call.abs_of o == a)%Q /\ Call.cn_of o = round_he a /\
  Call.ratio_of o = Some (rescaled a k (shifted hapx c)).
Proof.
  intro U. cbv zeta. unfold call_row_purity.
  change (gen_clonal_abs exp2 cn k purity hapx b female c v)
    with (fn_clonal_clip (fn_dataframe_row exp2 purity v (fst (ref_expect k hapx female c)) (snd (ref_expect k hapx female c)))).
  destruct (ref_expect k hapx female c) as [r x]. cbn [fst snd].
  unfold Call.abs_of, Call.cn_of, Call.ratio_of. cbn [fst snd].
  assert (A : (qmax (abs_clonal (exp2 v) r x p) clip_lower == fn_clonal_clip (fn_dataframe_row exp2 purity v r x))%Q).
  { unfold fn_clonal_clip. cbv zeta.
    rewrite (FnCall.gen_max_qmax (fn_dataframe_row exp2 purity v r x) (inject_Z 0)).
    apply CallNum.qmax_comp; [symmetry; apply dataframe_row_eq; exact U | reflexivity]. }
  split; [exact A|]. split.
  - apply CallNum.round_he_comp. exact A.
  - f_equal. apply rescaled_comp. exact A.
Qed.

(* and call_row with a usable purity is that row, on the class the masks of cnary.py give the row *)
Lemma source_clonal_call_row (exp2 : Q -> Q) cn b k purity p hapx female build first chrom lo hi v :
  use_purity purity = Some p ->
  let cl := row_class build first chrom lo hi in
  let a := gen_clonal_abs exp2 cn k purity hapx b female cl v in
  let o := call_row k purity hapx female build first (chrom, lo, hi, exp2 v) in
  (Call.abs_of o == a)%Q /\ Call.cn_of o = round_he a /\ Call.ratio_of o = Some (rescaled a k (shifted hapx cl)).
Proof.
  intro U. cbv zeta. unfold call_row. rewrite U.
  exact (source_clonal_row exp2 cn b k purity p hapx female (row_class build first chrom lo hi) v U).
Qed.

(* as written: which argument each of the two functions passes where *)
Lemma source_clonal_calls (exp2 : Q -> Q) cn k purity hapx b female
      (A : Z -> Z -> option Q -> bool -> Z -> bool -> Q) (L : Z -> Z -> bool -> Z -> bool -> Q) (R E : Z -> Z -> bool -> Z -> bool -> Z) :
  fn_absolute_clonal cn k purity hapx b female A = A cn k purity hapx b female /\
  fn_dataframe_whole exp2 cn k purity hapx b female L R E
  = fn_dataframe_row exp2 purity (L cn k hapx b female) (R cn k hapx b female) (E cn k hapx b female).
Proof. split; reflexivity. Qed.

(* without a usable purity the row function handed to df.apply is the pure formula (C01_source_abs_pure's reading) *)
Lemma dataframe_row_pure (exp2 : Q -> Q) purity v r x :
  use_purity purity = None -> (fn_dataframe_row exp2 purity v r x == abs_pure (exp2 v) r)%Q.
Proof.
  intro U. unfold use_purity in U. unfold fn_dataframe_row, fn_clonalrow_abs. cbv zeta.
  change purity_limit with (inject_Z 1) in U.
  destruct purity as [q|]; [|exact (FnCall.fn_abs_pure_eq exp2 v r)].
  destruct (negb (Qeq_bool q 0) && negb (Qle_bool (inject_Z 1) q)); [discriminate|].
  exact (FnCall.fn_abs_pure_eq exp2 v r).
Qed.

Lemma dataframe_row_both (exp2 : Q -> Q) purity v r x :
  (forall p, use_purity purity = Some p -> (fn_dataframe_row exp2 purity v r x == abs_clonal (exp2 v) r x p)%Q) /\
  (use_purity purity = None -> (fn_dataframe_row exp2 purity v r x == abs_pure (exp2 v) r)%Q).
Proof.
  split.
  - intros p U. exact (dataframe_row_eq exp2 purity p v r x U).
  - exact (dataframe_row_pure exp2 purity v r x).
Qed.
