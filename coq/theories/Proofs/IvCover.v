(* Basic facts about the cover of an interval table (Spec/Cover.v). *)
From CNV Require Import Base.Prelude Model.IvRow Spec.Cover.

Section CoverFacts.
Context {A : Type}.
Notation row := (@row A).
Implicit Types (t : list row) (r : row) (x : Z).

Lemma covers_b_spec t x : covers_b t x = true <-> covers t x.
Proof.
  unfold covers_b, covers. rewrite existsb_exists.
  split; intros [r [Hin H]]; exists r; split; auto; lia.
Qed.

Lemma covers_b_false t x : covers_b t x = false <-> ~ covers t x.
Proof.
  rewrite <- covers_b_spec. destruct (covers_b t x); intuition congruence.
Qed.

Lemma covers_nil x : ~ covers (@nil row) x.
Proof. intros [r [[] _]]. Qed.

Lemma covers_cons r t x : covers (r :: t) x <-> (lo r <= x < hi r) \/ covers t x.
Proof.
  unfold covers; split.
  - intros [r' [[->|Hin] H]]; [left; auto | right; eauto].
  - intros [H | [r' [Hin H]]]; [exists r | exists r']; simpl; auto.
Qed.

Lemma covers_app t1 t2 x : covers (t1 ++ t2) x <-> covers t1 x \/ covers t2 x.
Proof.
  unfold covers; split.
  - intros [r [Hin H]]. apply in_app_or in Hin as [Hin|Hin]; [left|right]; eauto.
  - intros [[r [Hin H]] | [r [Hin H]]]; exists r; split; auto; apply in_or_app; auto.
Qed.

Lemma covers_single r x : covers [r] x <-> lo r <= x < hi r.
Proof. rewrite covers_cons. split; [intros [H|H]; auto; destruct (covers_nil _ H) | auto]. Qed.

Lemma covers_incl t1 t2 x : incl t1 t2 -> covers t1 x -> covers t2 x.
Proof. intros Hi [r [Hin H]]; exists r; auto. Qed.

Lemma covers_perm t1 t2 x : Permutation t1 t2 -> (covers t1 x <-> covers t2 x).
Proof.
  intros P; split; apply covers_incl; intros r Hr;
    [eapply Permutation_in | eapply Permutation_in; [apply Permutation_sym|]]; eauto.
Qed.

Lemma covers_flat_map {C} (f : C -> list row) (l : list C) x :
  covers (flat_map f l) x <-> exists c, In c l /\ covers (f c) x.
Proof.
  induction l as [|c l IH]; simpl.
  - split; [intros H; destruct (covers_nil _ H) | intros [c [[] _]]].
  - rewrite covers_app, IH. split.
    + intros [H | [c' [Hin H]]]; [exists c | exists c']; auto.
    + intros [c' [[->|Hin] H]]; [left | right; exists c']; auto.
Qed.

Lemma covers_filter (f : row -> bool) t x : covers (filter f t) x -> covers t x.
Proof. intros [r [Hin H]]. apply filter_In in Hin as [Hin _]. exists r; auto. Qed.

(* ---- chain ------------------------------------------------------------ *)

Lemma chain_tail (P : row -> row -> Prop) r t : chain P (r :: t) -> chain P t.
Proof. simpl; tauto. Qed.

Lemma chain_cons (P : row -> row -> Prop) a b t :
  chain P (a :: b :: t) <-> P a b /\ chain P (b :: t).
Proof. simpl; tauto. Qed.

Lemma chain_single (P : row -> row -> Prop) a : chain P [a].
Proof. simpl; auto. Qed.

Lemma chain_impl (P Q : row -> row -> Prop) t :
  (forall a b, P a b -> Q a b) -> chain P t -> chain Q t.
Proof.
  intros H; induction t as [|a t IH]; simpl; auto.
  intros [Hab Ht]; split; auto. destruct t; auto.
Qed.

(* chain with a side condition available on the members *)
Lemma chain_impl_in (P Q : row -> row -> Prop) t :
  (forall a b, In a t -> In b t -> P a b -> Q a b) -> chain P t -> chain Q t.
Proof.
  induction t as [|a t IH]; simpl; auto.
  intros H [Hab Ht]; split.
  - destruct t as [|b t]; auto. apply H; simpl; auto.
  - apply IH; auto.
Qed.

Lemma chain_app (P : row -> row -> Prop) t1 t2 :
  chain P t1 -> chain P t2 ->
  (forall a b, last_opt t1 = Some a -> hd_opt t2 = Some b -> P a b) ->
  chain P (t1 ++ t2).
Proof.
  induction t1 as [|a t1 IH]; intros H1 H2 H; auto.
  destruct H1 as [Hab H1].
  change ((a :: t1) ++ t2) with (a :: (t1 ++ t2)). simpl. split.
  - destruct t1 as [|b t1]; simpl.
    + destruct t2 as [|b t2]; [exact I | apply H; reflexivity].
    + exact Hab.
  - apply IH; auto. intros x y Hx Hy. apply H; auto.
    destruct t1; [discriminate | exact Hx].
Qed.

(* a relation that holds between consecutive rows and is transitive along the
   chain holds between the head and every later row *)
Lemma chain_head_all (P : row -> row -> Prop) a t :
  (forall u v w : row, P u v -> P v w -> P u w) ->
  chain P (a :: t) -> Forall (P a) t.
Proof.
  intros Htr. revert a. induction t as [|b t IH]; intros a H; constructor.
  - destruct H as [H _]; exact H.
  - destruct H as [Hab H]. specialize (IH b H).
    rewrite Forall_forall in *. intros z Hz. eapply Htr; eauto.
Qed.

Lemma valid_cons r t : valid (r :: t) <-> lo r < hi r /\ valid t.
Proof. unfold valid; split; [intros H; inversion H; auto | intros [? ?]; constructor; auto]. Qed.

Lemma valid_app t1 t2 : valid (t1 ++ t2) <-> valid t1 /\ valid t2.
Proof. unfold valid. apply Forall_app. Qed.

Lemma valid_filter (f : row -> bool) t : valid t -> valid (filter f t).
Proof.
  unfold valid; rewrite !Forall_forall; intros H r Hr.
  apply filter_In in Hr as [Hr _]; auto.
Qed.

Lemma valid_perm t1 t2 : Permutation t1 t2 -> valid t1 -> valid t2.
Proof. unfold valid; intros P H; eapply Permutation_Forall; eauto. Qed.

Lemma valid_in t r : valid t -> In r t -> lo r < hi r.
Proof. unfold valid; rewrite Forall_forall; auto. Qed.

End CoverFacts.
