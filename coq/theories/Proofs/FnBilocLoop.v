(* C19 source tie of biweight_location's iteration loop: ONE ITERATION of

       for _i in range(max_iter):
           result = biloc_iter(a, initial)
           if abs(result - initial) <= epsilon: break
           initial = result

   is regenerated from the Python source on every run (Gen/FnBilocLoop.v fn_biloc_step: initial and
   result after the iteration, and whether the loop was left).  Here: the step iterated `fuel` times
   from (i0, last), stopping at the first break, IS Model/Descriptives.v biloc_loop. *)
From Coq Require Import Qabs.
From CNV Require Import Base.Prelude Base.QNum Gen.FnBilocLoop Model.Descriptives.

Local Open Scope Q_scope.

Lemma Qle_bool_abs_red (x e : Q) : Qle_bool (Qabs (Qred x)) e = Qle_bool (Qabs x) e.
Proof.
  destruct (Qle_bool (Qabs x) e) eqn:E.
  - apply Qle_bool_iff. apply Qle_bool_iff in E. rewrite Qred_correct. exact E.
  - apply Bool.not_true_is_false. intro H. apply Qle_bool_iff in H. rewrite Qred_correct in H.
    apply Qle_bool_iff in H. congruence.
Qed.

(* Python's `for _ in range(n): <step> [break]`, returning `result` *)
Fixpoint for_range (fuel : nat) (step : Q -> Q -> Q * Q * bool) (initial result : Q) : Q :=
  match fuel with
  | O => result
  | S k => let '(i, r, brk) := step initial result in if brk then r else for_range k step i r
  end.

Lemma source_biloc_step c eps a initial last :
  fn_biloc_step initial last eps (biloc_iter c eps a initial)
  = let r := biloc_iter c eps a initial in
    if qle_b (qabs (qsub r initial)) eps then (initial, r, true) else (r, r, false).
Proof.
  unfold fn_biloc_step, qle_b, qabs, qsub. cbn zeta.
  rewrite Qle_bool_abs_red. unfold Qminus. reflexivity.
Qed.

Lemma source_biloc_loop fuel c eps a : forall initial last,
  for_range fuel (fun i r => fn_biloc_step i r eps (biloc_iter c eps a i)) initial last
  = biloc_loop fuel c eps a initial last.
Proof.
  induction fuel as [|k IH]; intros initial last; [reflexivity|].
  cbn [for_range biloc_loop]. rewrite source_biloc_step. cbn zeta.
  destruct (qle_b (qabs (qsub (biloc_iter c eps a initial) initial)) eps); [reflexivity|apply IH].
Qed.
