(* C16 loop tie of gene_metrics_by_segment:

       for segment, subprobes in cnarr.by_ranges(segments):
           if abs(segment.log2) >= threshold:
               for row in group_by_genes(subprobes, skip_low):
                   row["log2"] = segment.log2
                   if hasattr(segment, "weight"):
                       row["segment_weight"] = segment.weight
                   if hasattr(segment, "probes"):
                       row["segment_probes"] = segment.probes
                   for colname in extra_cols:
                       row[colname] = getattr(segment, colname)
                   yield row

   Gen/FnGenesBySegment.v, regenerated from the Python source on every run, holds
     fn_by_segment_step : ONE ITERATION of the outer loop -- the rows it yields, the inner loop being
                          an opaque range whose yields are a parameter (the threshold is tested on the
                          SEGMENT's log2, a float that may be NaN: abs(NaN) >= t is False);
     fn_by_segment_row  : the three stores of the inner loop's body into the row (log2, segment_weight,
                          segment_probes) as functions of the segment's fields and of whether it has them.
   Here: the stores are the model's with_segment / with_segment_x, and running the outer generator
   over by_ranges' (segment, bins) pairs with the inner rows so overridden IS Model/Genes.v
   gene_metrics_by_segment. *)
From Coq Require Import Qabs.
From CNV Require Import Base.Prelude Base.Str Gen.FnGenesBySegment Model.Genes Model.Reports.

Local Open Scope Z_scope.

(* the row after the three stores of the inner body (every other field untouched) *)
Definition py_override (hw hp : bool) (s : bin) (r : grow) : grow :=
  let '(l2, sw, sp) :=
    fn_by_segment_row (Some (b_log2 s)) hw (Some (b_weight s)) hp (Some (b_probes s)) (r_segw r) (r_segp r) in
  mkGrow (r_gene r) (r_chr r) (r_start r) (r_end r) l2 (r_depth r) (r_weight r) (r_probes r) sw sp.

(* a row fresh from group_by_genes carries no segment columns *)
Lemma group_rows_fresh skip_low rows r :
  In r (group_by_genes skip_low rows) -> r_segw r = None /\ r_segp r = None.
Proof.
  unfold group_by_genes. rewrite in_flat_map. intros [gr [_ H]].
  unfold group_rows_of in H. destruct (mem_string (fst gr) group_ignore); [destruct H|].
  unfold group_row in H. destruct (snd gr) as [|b0 t]; [destruct H|].
  destruct H as [<- | []]. split; reflexivity.
Qed.

Lemma source_by_segment_row_x hw hp s r :
  r_segw r = None -> r_segp r = None -> py_override hw hp s r = with_segment_x hw hp s r.
Proof.
  intros Hw Hp. unfold py_override, fn_by_segment_row, with_segment_x. rewrite Hw, Hp.
  destruct hw, hp; reflexivity.
Qed.

Lemma source_by_segment_row s r : py_override true true s r = with_segment s r.
Proof. reflexivity. Qed.

(* one iteration of the outer loop: the inner loop's rows pass through exactly when the segment's own
   |log2| reaches the threshold *)
Lemma source_by_segment_step threshold s (inner : list Z) :
  fn_by_segment_step (Some (b_log2 s)) threshold inner
  = if Qle_bool threshold (Qabs (b_log2 s)) then inner else [].
Proof. unfold fn_by_segment_step. destruct (Qle_bool threshold (Qabs (b_log2 s))); reflexivity. Qed.

Lemma source_by_segment_step_nan threshold (inner : list Z) : fn_by_segment_step None threshold inner = [].
Proof. reflexivity. Qed.

(* the outer generator: per (segment, bins) pair the inner loop's rows are numbered 0, 1, ...; the ids
   the generated step lets through select the overridden rows *)
Definition py_by_segment_iter (threshold : Q) (skip_low : bool) (ss : bin * list bin) : list grow :=
  let inner := map (py_override true true (fst ss)) (group_by_genes skip_low (snd ss)) in
  let ids := map Z.of_nat (seq 0 (length inner)) in
  flat_map (fun i => match nth_error inner (Z.to_nat i) with Some r => [r] | None => [] end)
           (fn_by_segment_step (Some (b_log2 (fst ss))) threshold ids).

Lemma select_all {A} (l : list A) : forall k (pre : list A), length pre = k ->
  flat_map (fun i => match nth_error (pre ++ l) (Z.to_nat i) with Some r => [r] | None => [] end)
           (map Z.of_nat (seq k (length l))) = l.
Proof.
  induction l as [|x t IH]; intros k pre Hk; [reflexivity|].
  cbn [length seq map flat_map]. rewrite Nat2Z.id.
  rewrite nth_error_app2 by lia. rewrite Hk, Nat.sub_diag. cbn [nth_error app]. f_equal.
  specialize (IH (S k) (pre ++ [x])). rewrite <- app_assoc in IH. cbn [app] in IH.
  apply IH. rewrite app_length. cbn. lia.
Qed.

Lemma select_all0 {A} (l : list A) :
  flat_map (fun i => match nth_error l (Z.to_nat i) with Some r => [r] | None => [] end)
           (map Z.of_nat (seq 0 (length l))) = l.
Proof. exact (select_all l 0%nat [] eq_refl). Qed.

Theorem source_by_segment threshold skip_low rows segs :
  gene_metrics_by_segment threshold skip_low rows segs
  = flat_map (py_by_segment_iter threshold skip_low) (by_ranges rows segs).
Proof.
  unfold gene_metrics_by_segment. apply flat_map_ext. intros [s sub].
  unfold py_by_segment_iter. cbn [fst snd]. rewrite source_by_segment_step.
  destruct (Qle_bool threshold (Qabs (b_log2 s))); [|reflexivity].
  rewrite select_all0.
  apply map_ext. intro r. symmetry. apply source_by_segment_row.
Qed.
