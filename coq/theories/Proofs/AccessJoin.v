(* Proofs for join_regions (C13): on a well-formed region list the assertion
   never fires, the output covers exactly the input plus the bridged gaps, and
   output regions are non-empty and separated by at least max 1 gap bases. *)
From CNV Require Import Base.Prelude Spec.Regions Model.Access.

(* well-formed input of one chromosome: non-empty regions, strictly separated *)
Definition wf_regions (prev_end : Z) (l : list (Z * Z)) : Prop := sep_from 1 prev_end l.

Fixpoint gaps_from (pe : Z) (rest : list (Z * Z)) : list (Z * Z) :=
  match rest with
  | [] => []
  | (s, e) :: t => (pe, s) :: gaps_from e t
  end.

(* x lies in a gap between consecutive input regions that is smaller than g *)
Definition bridged (g pe : Z) (rest : list (Z * Z)) (x : Z) : Prop :=
  exists p, In p (gaps_from pe rest) /\ snd p - fst p < g /\ fst p <= x < snd p.

Lemma bridged_nil g pe x : ~ bridged g pe [] x.
Proof. intros (p & [] & _). Qed.

Lemma bridged_cons g pe s e t x :
  bridged g pe ((s, e) :: t) x <-> (s - pe < g /\ pe <= x < s) \/ bridged g e t x.
Proof.
  unfold bridged; cbn [gaps_from]; split.
  - intros (p & [<-|Hin] & H1 & H2); [left; cbn in *; lia|right; eauto].
  - intros [[H1 H2]|(p & Hin & H)].
    + exists (pe, s). cbn. repeat split; auto; lia.
    + exists p. split; [now right|exact H].
Qed.

Lemma join_from_ok g : forall rest ps pe,
  wf_regions pe rest -> exists r, join_from g ps pe rest = Some r.
Proof.
  induction rest as [|[s e] t IH]; intros ps pe Hwf; cbn [join_from]; [eauto|].
  cbn in Hwf. destruct Hwf as (H1 & H2 & H3).
  destruct (s - pe <=? 0) eqn:E1; [lia|].
  assert (Hwf' : wf_regions e t) by exact H3.
  destruct (s - pe <? g).
  - now apply IH.
  - destruct (IH s e Hwf') as (r & ->). eauto.
Qed.

Lemma join_from_head g : forall rest ps pe r,
  join_from g ps pe rest = Some r -> wf_regions pe rest ->
  exists pe' r0, r = (ps, pe') :: r0 /\ pe <= pe'.
Proof.
  induction rest as [|[s e] t IH]; intros ps pe r H Hwf; cbn [join_from] in H.
  - injection H as <-. exists pe, []. split; [reflexivity|lia].
  - cbn in Hwf. destruct Hwf as (H1 & H2 & H3).
    assert (Hwf' : wf_regions e t) by exact H3.
    destruct (s - pe <=? 0) eqn:E1; [discriminate|].
    destruct (s - pe <? g).
    + destruct (IH _ _ _ H Hwf') as (pe' & r0 & -> & Hle). exists pe', r0. split; [reflexivity|lia].
    + destruct (join_from g s e t) as [r'|]; [|discriminate]. injection H as <-.
      exists pe, r'. split; [reflexivity|lia].
Qed.

Theorem join_from_cover g : forall rest ps pe r,
  ps < pe -> wf_regions pe rest -> join_from g ps pe rest = Some r ->
  forall x, cov r x <-> (ps <= x < pe \/ cov rest x \/ bridged g pe rest x).
Proof.
  induction rest as [|[s e] t IH]; intros ps pe r Hlt Hwf H x; cbn [join_from] in H.
  - injection H as <-. rewrite cov_cons. split.
    + intros [?|Hc]; [now left|now apply cov_nil in Hc].
    + intros [?|[Hc|Hb]]; [now left|now apply cov_nil in Hc|now apply bridged_nil in Hb].
  - cbn in Hwf. destruct Hwf as (H1 & H2 & H3).
    assert (Hwf' : wf_regions e t) by exact H3.
    destruct (s - pe <=? 0) eqn:E1; [discriminate|].
    rewrite cov_cons, bridged_cons. cbn [fst snd].
    destruct (s - pe <? g) eqn:E2.
    + rewrite (IH ps e r) by (auto; lia). split.
      * intros [Hx|[Hc|Hb]]; [|tauto|tauto].
        destruct (Z_lt_ge_dec x pe); [tauto|].
        destruct (Z_lt_ge_dec x s); [right; right; left; lia|right; left; left; lia].
      * intros [Hx|[[Hx|Hc]|[[_ Hx]|Hb]]]; try tauto; left; lia.
    + destruct (join_from g s e t) as [r'|] eqn:Hj; [|discriminate]. injection H as <-.
      rewrite cov_cons, (IH s e r') by (auto; lia). split.
      * intros [Hx|[Hx|[Hc|Hb]]]; tauto.
      * intros [Hx|[[Hx|Hc]|[[Hg _]|Hb]]]; try tauto; lia.
Qed.

Theorem join_from_sep g : forall rest ps pe r,
  ps < pe -> wf_regions pe rest -> join_from g ps pe rest = Some r ->
  sep_from (Z.max 1 g) (ps - Z.max 1 g) r.
Proof.
  induction rest as [|[s e] t IH]; intros ps pe r Hlt Hwf H; cbn [join_from] in H.
  - injection H as <-. cbn. repeat split; lia.
  - cbn in Hwf. destruct Hwf as (H1 & H2 & H3).
    assert (Hwf' : wf_regions e t) by exact H3.
    destruct (s - pe <=? 0) eqn:E1; [discriminate|].
    destruct (s - pe <? g) eqn:E2.
    + apply (IH ps e r); auto; lia.
    + destruct (join_from g s e t) as [r'|] eqn:Hj; [|discriminate]. injection H as <-.
      cbn [sep_from]. repeat split; [lia|lia|].
      specialize (IH s e r' H2 Hwf' Hj).
      eapply sep_from_weaken; [|exact IH]. lia.
Qed.

(* statements on join_regions itself (one chromosome's rows) *)
Theorem join_regions_ok g rows : wf_regions (-1) rows -> exists r, join_regions g rows = Some r.
Proof.
  destruct rows as [|[s e] t]; cbn [join_regions]; [eauto|].
  cbn. intros (_ & H2 & H3). apply join_from_ok. exact H3.
Qed.

Theorem join_regions_cover g rows r : wf_regions (-1) rows -> join_regions g rows = Some r ->
  forall x, cov r x <->
    cov rows x \/ match rows with [] => False | (_, e) :: t => bridged g e t x end.
Proof.
  destruct rows as [|[s e] t]; cbn [join_regions].
  - intros _ H x. injection H as <-. tauto.
  - cbn. intros (_ & H2 & H3) H x.
    rewrite (join_from_cover g t s e r) by auto.
    rewrite cov_cons. tauto.
Qed.

Theorem join_regions_sep g rows r : wf_regions (-1) rows -> join_regions g rows = Some r ->
  match r with
  | [] => rows = []
  | (a, b) :: t => a < b /\ sep_from (Z.max 1 g) b t
  end.
Proof.
  destruct rows as [|[s e] t]; cbn [join_regions].
  - intros _ H. injection H as <-. reflexivity.
  - cbn. intros (_ & H2 & H3) H.
    assert (Hwf : wf_regions e t) by exact H3.
    pose proof (join_from_sep g t s e r H2 Hwf H) as Hs.
    destruct r as [|[a b] r']; [destruct (join_from_head g t s e [] H Hwf) as (?&?&?&?); discriminate|].
    cbn in Hs. tauto.
Qed.
