(* C14 source tie of segfilters.squash_region: the body from `region_weight = cnarr["weight"].sum()` to the
   p_bintest column, for ONE region, regenerated from the Python source on every run as Gen/FnSegSquash.v
   (fn_squash_region).  Every aggregate over the region's rows (sums, np.average, np.mean,
   weighted_median, np.median, .max(), the distinct gene names, `"col" in cnarr`) is an input keyed by
   its source text; translated is which aggregate lands in which output column: the `region_weight > 0`
   switches between the weighted and the plain statistic, `probes` falling back to the row count,
   cn2 = cn - cn1, and the optional columns (missing in the output when the column is absent).
   Here: the fields of Model/Segfilters.v squash_region ARE the generated outputs when the aggregates
   are the model's (wmean / wmean_opt / wmedian / median split into their two sides). *)
From CNV Require Import Base.Prelude Base.Str Model.Segfilters.
From CNV Require Gen.SegfilterDefaults Gen.FnSegSquash.
From Coq Require Import QArith.

Local Open Scope Z_scope.

(* the two sides of `np.average(x, weights=w) if w.sum() > 0 else np.mean(x)` *)
Definition wavg (ws xs : list Q) : Q := Qred (dotQ ws xs / sumQ ws).
Definition pmean (xs : list Q) : Q := Qred (sumQ xs / Qlen xs).
Definition wavg_opt (ws : list Q) (xs : list (option Q)) : option Q :=
  match all_some xs with Some l => Some (wavg ws l) | None => None end.
Definition pmean_opt (xs : list (option Q)) : option Q :=
  match filter_some xs with [] => None | l => Some (pmean l) end.

Lemma wmean_sides (ws xs : list Q) :
  wmean ws xs = if Qltb Gen.SegfilterDefaults.region_weight_min (sumQ ws) then wavg ws xs else pmean xs.
Proof. reflexivity. Qed.

Lemma wmean_opt_sides (ws : list Q) (xs : list (option Q)) :
  wmean_opt ws xs = if Qltb Gen.SegfilterDefaults.region_weight_min (sumQ ws) then wavg_opt ws xs else pmean_opt xs.
Proof.
  unfold wmean_opt, wavg_opt, pmean_opt.
  destruct (Qltb Gen.SegfilterDefaults.region_weight_min (sumQ ws)) eqn:E; [|reflexivity].
  destruct (all_some xs) as [l|]; [|reflexivity]. rewrite wmean_sides, E. reflexivity.
Qed.

Lemma source_squash_sides (ws xs : list Q) (ys : list (option Q)) :
  wmean ws xs = (if Qltb Gen.SegfilterDefaults.region_weight_min (sumQ ws) then wavg ws xs else pmean xs) /\
  wmean_opt ws ys = (if Qltb Gen.SegfilterDefaults.region_weight_min (sumQ ws) then wavg_opt ws ys else pmean_opt ys).
Proof. split; [apply wmean_sides | apply wmean_opt_sides]. Qed.

Theorem source_squash_region (s0 : seg) (rest : list seg) (n_rows : Z) :
  let r := s0 :: rest in
  let ws := map weight r in
  let s := squash_region r in
  let '(l2, g, p, w, d, b, c, c1, c2, pb) :=
    FnSegSquash.fn_squash_region (sumQ ws)
      (wavg ws (map log2 r)) (pmean (map log2 r))
      (uniq_str (map gene r))
      true (sumZ (map probes r)) n_rows
      true (wavg_opt ws (map depth r)) (pmean_opt (map depth r))
      true (wavg_opt ws (map baf r)) (pmean_opt (map baf r))
      true (Some (wmedian (map cn r) ws)) (Some (median (map cn r)))
      true (wmedian_opt (map cn1 r) ws) (median_opt (map cn1 r))
      true (fold_right omax None (map pbt r)) in
  (l2, g, p, w, d, b, c, c1, option_map Qred c2, pb) =
  (log2 s, gene s, probes s, weight s, depth s, baf s, Some (cn s), cn1 s, cn2 s, pbt s).
Proof.
  cbv zeta. unfold FnSegSquash.fn_squash_region, squash_region.
  cbn [log2 gene probes weight depth baf cn cn1 cn2 pbt].
  rewrite wmean_sides, !wmean_opt_sides. unfold Qltb, join_genes.
  change (inject_Z 0) with Gen.SegfilterDefaults.region_weight_min.
  destruct (negb (Qle_bool (sumQ (map weight (s0 :: rest))) Gen.SegfilterDefaults.region_weight_min)).
  - destruct (wmedian_opt (map cn1 (s0 :: rest)) (map weight (s0 :: rest))); reflexivity.
  - destruct (median_opt (map cn1 (s0 :: rest))); reflexivity.
Qed.

(* an absent optional column: the generated output is missing; so is the model's on a region whose cells
   of that column are all missing *)
Lemma source_squash_absent (W a1 a2 : Q) (genes : list string) (hp : bool) (ps n : Z)
      (d1 d2 b1 b2 c1 c2 e1 e2 pb : option Q) :
  let '(_, _, _, _, d, b, c, cc1, cc2, p) :=
    FnSegSquash.fn_squash_region W a1 a2 genes hp ps n false d1 d2 false b1 b2 false c1 c2 false e1 e2 false pb in
  (d, b, c, cc1, cc2, p) = (None, None, None, None, None, None).
Proof. reflexivity. Qed.

Lemma wmean_opt_all_missing (ws : list Q) (k : nat) : wmean_opt ws (repeat None (S k)) = None.
Proof.
  rewrite wmean_opt_sides. unfold wavg_opt, pmean_opt.
  assert (E : filter_some (repeat (@None Q) (S k)) = []) by (induction k; [reflexivity | exact IHk]).
  rewrite E. destruct (Qltb _ _); reflexivity.
Qed.

(* `probes`: the column's sum, or the number of rows when there is no such column *)
Lemma source_squash_probes (W a1 a2 : Q) (genes : list string) (hp : bool) (ps n : Z)
      (f1 f2 f3 f4 f5 : bool) (d1 d2 b1 b2 c1 c2 e1 e2 pb : option Q) :
  let '(_, _, p, w, _, _, _, _, _, _) :=
    FnSegSquash.fn_squash_region W a1 a2 genes hp ps n f1 d1 d2 f2 b1 b2 f3 c1 c2 f4 e1 e2 f5 pb in
  p = (if hp then ps else n) /\ w = W.
Proof.
  unfold FnSegSquash.fn_squash_region. cbv zeta.
  destruct f3; [destruct f4|]; split; reflexivity.
Qed.
