(* C14 source tie of segfilters.enumerate_changes,

       prev = levels.shift()
       changed = (levels != prev) & ~(levels.isnull() & prev.isnull())
       changed.iloc[:1] = False
       return changed.cumsum().astype(int)

   read for ONE ELEMENT (position k of the n levels; `levels` is that element, `levels.shift()` the one
   before it -- missing at position 0) and regenerated from the Python source on every run as
   Gen/FnSegEnum.v (fn_enum_changed: the element's `changed` bit; comparisons with a missing level follow
   NaN: `!=` is True, which the second factor undoes for two missing levels; the slice store
   `.iloc[:1] = False` clears position 0).  Here: Model/Segfilters.v enumerate_changes IS the cumulative
   sum of the generated bit along the levels. *)
From CNV Require Import Base.Prelude Model.Segfilters.
From CNV Require Gen.FnSegEnum.
From Coq Require Import QArith.

Local Open Scope Z_scope.

Lemma Qeq_bool_sym (x y : Q) : Qeq_bool x y = Qeq_bool y x.
Proof.
  destruct (Qeq_bool x y) eqn:E1; destruct (Qeq_bool y x) eqn:E2; try reflexivity.
  - apply Qeq_bool_iff in E1. symmetry in E1. apply Qeq_bool_iff in E1. congruence.
  - apply Qeq_bool_iff in E2. symmetry in E2. apply Qeq_bool_iff in E2. congruence.
Qed.

Lemma source_enum_changed (c prev : option Q) (k n : Z) :
  FnSegEnum.fn_enum_changed c prev k n = if k <? 1 then false else negb (optQ_eqb prev c).
Proof.
  unfold FnSegEnum.fn_enum_changed. cbv zeta. cbn [Z.leb Z.compare].
  destruct (k <? 1); [reflexivity|].
  destruct c as [x|], prev as [y|]; cbn [optQ_eqb andb negb]; try reflexivity.
  rewrite Bool.andb_true_r, Qeq_bool_sym. reflexivity.
Qed.

(* changed.cumsum() from position k on (acc = the sum so far, prev = the level before) *)
Fixpoint src_enum (acc k n : Z) (prev : option Q) (l : list (option Q)) : list Z :=
  match l with
  | [] => []
  | c :: t =>
      let acc' := acc + (if FnSegEnum.fn_enum_changed c prev k n then 1 else 0) in
      acc' :: src_enum acc' (k + 1) n c t
  end.

Lemma source_enum_from (n : Z) (l : list (option Q)) : forall acc k prev, 1 <= k ->
  src_enum acc k n prev l = enum_from acc prev l.
Proof.
  induction l as [|c t IH]; intros acc k prev Hk; [reflexivity|].
  cbn [src_enum enum_from]. cbv zeta. rewrite source_enum_changed.
  replace (k <? 1) with false by lia.
  destruct (optQ_eqb prev c); cbn [negb]; rewrite ?Z.add_0_r; f_equal; apply IH; lia.
Qed.

Theorem source_enumerate (l : list (option Q)) :
  enumerate_changes l = src_enum 0 0 (Z.of_nat (length l)) None l.
Proof.
  destruct l as [|c t]; [reflexivity|].
  cbn [src_enum enumerate_changes]. cbv zeta. rewrite source_enum_changed.
  cbn [Z.ltb Z.compare Z.add]. f_equal. symmetry. apply source_enum_from. lia.
Qed.
