(* C12: the order of the chromosome blocks across the output of do_target /
   do_antitarget -- chromosome keys (Model.Chromsort.chrom_key) never decrease, for the
   code path actually taken: the fast path of merge() keeps the table order (so the order
   of the input), the slow path re-orders the per-chromosome groups by a stable sort on
   the key.  With per-chromosome order and disjointness (Proofs/Target.v,
   Proofs/Antitarget.v) and distinct keys for distinct names this is genomic order. *)
From CNV Require Import Base.Prelude Base.Str Model.IvRow Model.IvCombine Model.Intervals
  Model.Chromsort Model.Access Model.Target Model.Antitarget Spec.Cover Spec.Bins.
From CNV Require Import Proofs.ChromsortLemmas Proofs.IvCover Proofs.TargetLib Proofs.TargetSplit
  Proofs.AntitargetContigs.
From CNV Require Gen.IvDefaults Gen.BinsDefaults.

(* ---- key order on names ------------------------------------------------------------ *)

Definition name_le (a b : string) : Prop := chrom_leb a b = true.

Lemma chrom_leb_total a b : chrom_leb a b = true \/ chrom_leb b a = true.
Proof. apply ckey_leb_total. Qed.

Lemma chrom_leb_trans a b c : chrom_leb a b = true -> chrom_leb b c = true -> chrom_leb a c = true.
Proof. apply ckey_leb_trans. Qed.

Lemma key_le_trans a b c : key_le a b -> key_le b c -> key_le a c.
Proof. apply ckey_leb_trans. Qed.

Lemma key_le_refl_chrom (a b : grow) : chrom a = chrom b -> key_le a b.
Proof. unfold key_le, ckey. intros ->. apply ckey_leb_refl. Qed.

(* ---- StronglySorted under filter / map / flat_map -------------------------------------- *)

Lemma ssorted_filter {X} (R : X -> X -> Prop) (p : X -> bool) l :
  StronglySorted R l -> StronglySorted R (filter p l).
Proof.
  induction 1 as [|a l Hs IH Hf]; cbn [filter]; [constructor|].
  destruct (p a); [|exact IH]. constructor; [exact IH|].
  rewrite Forall_forall in *. intros x Hx. apply filter_In in Hx. apply Hf. tauto.
Qed.

Lemma ssorted_map {X Y} (R : X -> X -> Prop) (S : Y -> Y -> Prop) (f : X -> Y) l :
  (forall a b, R a b -> S (f a) (f b)) -> StronglySorted R l -> StronglySorted S (map f l).
Proof.
  intros H. induction 1 as [|a l Hs IH Hf]; cbn [map]; [constructor|].
  constructor; [exact IH|]. rewrite Forall_forall in *. intros y Hy.
  apply in_map_iff in Hy as [x [<- Hx]]. apply H, Hf, Hx.
Qed.

Lemma ssorted_app {X} (R : X -> X -> Prop) l1 l2 :
  StronglySorted R l1 -> StronglySorted R l2 -> (forall a b, In a l1 -> In b l2 -> R a b) ->
  StronglySorted R (l1 ++ l2).
Proof.
  intros H1 H2 H. induction H1 as [|a l Hs IH Hf]; cbn [app]; [exact H2|].
  constructor.
  - apply IH. intros x y Hx Hy. apply H; [right; exact Hx | exact Hy].
  - rewrite Forall_forall in *. intros y Hy. apply in_app_iff in Hy as [Hy|Hy].
    + apply Hf, Hy.
    + apply H; [left; reflexivity | exact Hy].
Qed.

(* key order is preserved by every row-wise operation that keeps the chromosome *)
Lemma key_sorted_filter p (t : list grow) : key_sorted t -> key_sorted (filter p t).
Proof. apply ssorted_filter. Qed.

Lemma key_sorted_map (f : grow -> grow) (t : list grow) :
  (forall r, chrom (f r) = chrom r) -> key_sorted t -> key_sorted (map f t).
Proof.
  intros H. apply ssorted_map. intros a b Hab. unfold key_le, ckey in *. rewrite !H. exact Hab.
Qed.

Lemma same_chrom_sorted (l : list grow) c : (forall r, In r l -> chrom r = c) -> key_sorted l.
Proof.
  induction l as [|a l IH]; intros H; [constructor|].
  constructor.
  - apply IH. intros r Hr. apply H. right; exact Hr.
  - rewrite Forall_forall. intros b Hb. apply key_le_refl_chrom.
    rewrite (H a (or_introl eq_refl)), (H b (or_intror Hb)). reflexivity.
Qed.

Lemma key_sorted_flat_map_rows (f : grow -> list grow) (t : list grow) :
  (forall x r, In r (f x) -> chrom r = chrom x) -> key_sorted t -> key_sorted (flat_map f t).
Proof.
  intros H. induction 1 as [|a l Hs IH Hf]; cbn [flat_map]; [constructor|].
  apply ssorted_app; [apply (same_chrom_sorted _ (chrom a)); intros r Hr; exact (H a r Hr) | exact IH |].
  intros x y Hx Hy. apply in_flat_map in Hy as [b [Hb Hy]].
  rewrite Forall_forall in Hf. specialize (Hf b Hb).
  unfold key_le, ckey in *. rewrite (H a x Hx), (H b y Hy). exact Hf.
Qed.

(* blocks of rows, one per name of a key-sorted list of names *)
Lemma key_sorted_blocks (F : string -> list grow) (names : list string) :
  StronglySorted name_le names -> (forall c r, In r (F c) -> chrom r = c) ->
  key_sorted (flat_map F names).
Proof.
  intros Hs HF. induction Hs as [|c l Hs IH Hf]; cbn [flat_map]; [constructor|].
  apply ssorted_app; [apply (same_chrom_sorted _ c); intros r Hr; exact (HF c r Hr) | exact IH |].
  intros x y Hx Hy. apply in_flat_map in Hy as [c' [Hc' Hy]].
  rewrite Forall_forall in Hf. specialize (Hf c' Hc').
  unfold key_le, ckey. rewrite (HF c x Hx), (HF c' y Hy). exact Hf.
Qed.

(* the names of a key-sorted table, in order of first occurrence, are key-sorted *)
Lemma uniq_filter_sorted (R : string -> string -> Prop) l : StronglySorted R l -> StronglySorted R (uniq l).
Proof.
  induction 1 as [|a l Hs IH Hf]; cbn [uniq]; [constructor|].
  constructor.
  - apply ssorted_filter. exact IH.
  - rewrite Forall_forall in *. intros x Hx. apply filter_In in Hx as [Hx _]. apply Hf.
    apply uniq_in. exact Hx.
Qed.

Lemma chroms_of_sorted (t : list grow) : key_sorted t -> StronglySorted name_le (chroms_of t).
Proof.
  intros H. unfold chroms_of. apply uniq_filter_sorted.
  eapply ssorted_map; [|exact H]. intros a b Hab. exact Hab.
Qed.

Lemma key_sorted_by_chroms (F : string -> list grow) (t : list grow) :
  key_sorted t -> (forall c r, In r (F c) -> chrom r = c) -> key_sorted (flat_map F (chroms_of t)).
Proof. intros H HF. apply key_sorted_blocks; [apply chroms_of_sorted; exact H | exact HF]. Qed.

(* ---- the operations of the pipeline ------------------------------------------------------ *)

(* merge(): the slow path orders the chromosome groups by key, whatever the input order;
   the fast path keeps the table as it is *)
Lemma merged_chrom_order_sorted (t : list grow) : StronglySorted name_le (merged_chrom_order t).
Proof.
  unfold merged_chrom_order. apply stable_sort_sorted; [apply chrom_leb_total | apply chrom_leb_trans].
Qed.

Lemma gmerge_key_sorted bp (t : list grow) : 0 <= bp ->
  (all_gaps bp t = true -> key_sorted t) -> key_sorted (gmerge bp t).
Proof.
  intros Hbp H. unfold gmerge. destruct t as [|r0 t0] eqn:Et; [constructor|]. rewrite <- Et in *.
  destruct (all_gaps bp t) eqn:Eg; [apply H; reflexivity|].
  apply key_sorted_blocks; [apply merged_chrom_order_sorted|].
  intros c r Hr. eapply merge_slow_chrom; [exact Hbp | | exact Hr].
  intros x Hx. apply filter_on_in in Hx. tauto.
Qed.

Lemma gsubdivide_key_sorted avg mn cut (t : list grow) :
  (all_gaps Gen.IvDefaults.merge_bp_default t = true -> key_sorted t) ->
  key_sorted (gsubdivide avg mn cut t).
Proof.
  intros H. unfold gsubdivide. apply key_sorted_flat_map_rows.
  - intros x r Hr. unfold chrom. rewrite (split_row_q_pay _ _ _ _ _ Hr). reflexivity.
  - apply gmerge_key_sorted; [unfold Gen.IvDefaults.merge_bp_default; lia | exact H].
Qed.

Lemma gresize_key_sorted bp (t : list grow) : key_sorted t -> key_sorted (gresize bp t).
Proof.
  intros H. unfold gresize, resize.
  assert (Hm : key_sorted (map (fun r : grow => (clip None (lo r - bp), clip None (hi r + bp), pay r)) t)).
  { apply key_sorted_map; [intros r; reflexivity | exact H]. }
  destruct (bp <? 0); [apply key_sorted_filter|]; exact Hm.
Qed.

Lemma gsubtract_key_sorted (a b : list grow) : key_sorted a -> key_sorted (gsubtract a b).
Proof.
  intros H. unfold gsubtract. destruct b as [|b0 b']; [exact H|].
  apply key_sorted_by_chroms; [exact H|].
  intros c r Hr. apply subtract_pay in Hr as [k [Hk Hp]]. apply filter_on_in in Hk as [_ Hk].
  unfold chrom in *. rewrite Hp. exact Hk.
Qed.

Lemma guess_regions_key_sorted (T : list grow) tel : key_sorted T -> key_sorted (guess_regions T tel).
Proof.
  intros H. unfold guess_regions. rewrite <- flat_map_single, flat_map_concat_map, map_map, <- flat_map_concat_map.
  apply key_sorted_by_chroms; [exact H|]. intros c r [<-|[]]. reflexivity.
Qed.

Lemma effective_access_key_sorted T access E :
  key_sorted T -> (forall acc, access = Some acc -> key_sorted acc) ->
  effective_access T access = Some E -> key_sorted E.
Proof.
  intros HT Hacc HE. unfold effective_access in HE.
  destruct access as [[|a0 acc']|].
  - injection HE as <-. apply guess_regions_key_sorted. exact HT.
  - specialize (Hacc _ eq_refl). remember (a0 :: acc') as acc eqn:Eacc. clear Eacc.
    unfold drop_noncanonical in HE. destruct (compare_chrom_names acc T) as [[ac tc]|]; [|discriminate].
    injection HE as <-. apply key_sorted_filter. exact Hacc.
  - injection HE as <-. apply guess_regions_key_sorted. exact HT.
Qed.

(* ---- do_target ----------------------------------------------------------------------------- *)

Lemma drop_zero_width_key_sorted (baits : list grow) : key_sorted baits -> key_sorted (drop_zero_width baits).
Proof. apply key_sorted_filter. Qed.

(* C12_block_order, target: the keys never decrease -- on the fast path of merge because
   the input's do not, on the slow path whatever the input order *)
Lemma target_key_sorted (split : bool) avg cut (baits : list grow) :
  (split = false \/ all_gaps Gen.IvDefaults.merge_bp_default (drop_zero_width baits) = true -> key_sorted baits) ->
  key_sorted (do_target split avg cut baits).
Proof.
  intros H. unfold do_target. destruct split.
  - apply gsubdivide_key_sorted. intros Hg. apply drop_zero_width_key_sorted. apply H. right; exact Hg.
  - apply drop_zero_width_key_sorted. apply H. left; reflexivity.
Qed.

(* ---- from key order and per-chromosome order to genomic order -------------------------------- *)

Lemma chain_tail {X} (P : @row X -> @row X -> Prop) a (t : list (@row X)) : chain P (a :: t) -> chain P t.
Proof. cbn [chain]. tauto. Qed.

Lemma chain_filter_cons (P : grow -> grow -> Prop) c a (t : list grow) :
  chain P (filter (on c) (a :: t)) -> chain P (filter (on c) t).
Proof. cbn [filter]. destruct (on c a); [apply chain_tail | tauto]. Qed.

(* in a sorted, disjoint list of (possibly empty) intervals the head ends before every later row starts *)
Lemma sorted_disjoint_head_all {X} (a : @row X) (t : list (@row X)) :
  sorted_disjoint (a :: t) -> Forall (fun b => lo b <= hi b) t -> Forall (fun b => hi a <= lo b) t.
Proof.
  revert a. induction t as [|b t IH]; intros a Hs Hv; [constructor|].
  unfold sorted_disjoint in *. cbn [chain] in Hs. destruct Hs as [Hab Hs].
  inversion Hv as [|? ? Hb Hv']; subst.
  constructor; [exact Hab|].
  specialize (IH b Hs Hv'). rewrite Forall_forall in *. intros x Hx. specialize (IH x Hx). lia.
Qed.

Lemma genomic_sorted_of (t : list grow) :
  key_sorted t -> key_injective t ->
  (forall c, sorted_disjoint (filter (on c) t) /\ Forall (fun b => lo b <= hi b) (filter (on c) t)) ->
  genomic_sorted t.
Proof.
  induction t as [|a t IH]; intros Hk Hi Hc; [constructor|].
  inversion Hk as [|? ? Hk' Hf]; subst.
  constructor.
  - apply IH; [exact Hk' | |].
    + intros x y Hx Hy. apply Hi; right; assumption.
    + intros c. destruct (Hc c) as [Hs Hv]. split; [eapply chain_filter_cons; exact Hs|].
      cbn [filter] in Hv. destruct (on c a); [inversion Hv; assumption | exact Hv].
  - rewrite Forall_forall in *. intros b Hb. specialize (Hf b Hb). unfold genomic_before.
    unfold key_le in Hf.
    destruct (ckey_leb (ckey b) (ckey a)) eqn:Eba.
    + right. assert (Ek : ckey a = ckey b) by (apply ckey_leb_antisym; assumption).
      assert (Ec : chrom a = chrom b) by (apply Hi; [left; reflexivity | right; exact Hb | exact Ek]).
      split; [exact Ec|].
      destruct (Hc (chrom a)) as [Hs Hv]. cbn [filter] in Hs, Hv.
      assert (Ea : on (chrom a) a = true) by (apply on_true; reflexivity). rewrite Ea in Hs, Hv.
      inversion Hv as [|? ? _ Hv']; subst.
      pose proof (sorted_disjoint_head_all a _ Hs Hv') as Hall. rewrite Forall_forall in Hall.
      apply Hall. apply filter_on_in. split; [exact Hb | symmetry; exact Ec].
    + left. unfold ckey_ltb. unfold ckey_leb in Hf, Eba.
      destruct ckey_compare_good as (Rf & An & _ & _).
      rewrite An in Eba. destruct (ckey_compare (ckey a) (ckey b)); cbn in *; congruence.
Qed.
