(* Second source tie for C15 (DESIGN 9.4): the per-bin / scalar functions of Model/Center.v and Model/Sex.v equal the
   bodies of cnvlib/cnary.py expect_flat_log2 / shift_xx / drop_low_coverage / compare_sex_chromosomes (compare_chrom and
   the combined score) as translated from the source on every run (Gen/FnCnaryFlat.v, FnCnaryShift.v, FnCnaryLow.v,
   FnCnarySex.v). *)
From CNV Require Import Base.Prelude Base.Str Base.QNum Proofs.QNumLemmas Gen.CenterDefaults Model.Center Model.Sex
  Gen.FnCnaryFlat Gen.FnCnaryShift Gen.FnCnaryLow Gen.FnCnarySex.
Local Open Scope Q_scope.

(* ---- expect_flat_log2 (np.zeros read as 0) -------------------------------------------------------------------- *)
Theorem fn_expect_flat_eq hap build t :
  expect_flat hap build t =
  map (fun b => fn_expect_flat 0 hap (chr_x_filter t build b) (chr_y_filter t build b) (chr_y_filter t None b)) t.
Proof.
  unfold expect_flat. apply map_ext. intros b. unfold fn_expect_flat. cbv zeta.
  destruct hap, (chr_x_filter t build b), (chr_y_filter t build b), (chr_y_filter t None b); reflexivity.
Qed.

(* ---- shift_xx: `if T1: <then> elif T2: <elif>` from the two translated fragments ------------------------------- *)
Definition fn_shift_xx_bin (xx hap on_x : bool) (v : Q) : Q :=
  let '(down, t1) := fn_shift_xx_then v xx hap on_x in
  if t1 then down else fn_shift_xx_elif v xx hap on_x.

Definition xx_of (is_xx : option bool) : bool := match is_xx with Some true => true | _ => false end.

Definition other_columns_same (b b' : bin) : Prop :=
  b_chrom b' = b_chrom b /\ b_start b' = b_start b /\ b_end b' = b_end b /\ b_gene b' = b_gene b /\
  b_depth b' = b_depth b /\ b_weight b' = b_weight b.

Lemma shift_xx_on_gen (f : bin -> bool) c l :
  Forall2 (fun b b' => other_columns_same b b' /\ b_log2 b' == (if f b then b_log2 b + c else b_log2 b))
          l (map (fun b => if f b then add_log2 c b else b) l).
Proof.
  induction l as [|b l IH]; cbn [map]; constructor; [|exact IH].
  unfold other_columns_same. destruct (f b).
  - unfold add_log2, set_log2. cbn [b_chrom b_start b_end b_gene b_log2 b_depth b_weight].
    rewrite qadd_spec. repeat split; reflexivity.
  - repeat split; reflexivity.
Qed.

Lemma Forall2_impl' {A B} (P Q : A -> B -> Prop) l l' :
  (forall a b, P a b -> Q a b) -> Forall2 P l l' -> Forall2 Q l l'.
Proof. intros H F. induction F; constructor; auto. Qed.

Lemma Forall2_same l : Forall2 (fun b b' : bin => other_columns_same b b' /\ b_log2 b' == b_log2 b) l l.
Proof. induction l; constructor; [|assumption]. unfold other_columns_same. repeat split; reflexivity. Qed.

Theorem fn_shift_xx_eq hap is_xx build t :
  Forall2 (fun b b' => other_columns_same b b' /\
                       b_log2 b' == fn_shift_xx_bin (xx_of is_xx) hap (chr_x_filter t build b) (b_log2 b))
          t (shift_xx hap is_xx build t).
Proof.
  unfold shift_xx. fold (xx_of is_xx).
  assert (G : forall c, (forall b, (if chr_x_filter t build b then b_log2 b + c else b_log2 b)
                                   == fn_shift_xx_bin (xx_of is_xx) hap (chr_x_filter t build b) (b_log2 b)) ->
                        Forall2 (fun b b' => other_columns_same b b' /\
                                   b_log2 b' == fn_shift_xx_bin (xx_of is_xx) hap (chr_x_filter t build b) (b_log2 b))
                                t (map (fun b => if chr_x_filter t build b then add_log2 c b else b) t)).
  { intros c Hc. eapply Forall2_impl'; [|apply (shift_xx_on_gen (chr_x_filter t build) c t)].
    intros b b' [Hs Hv]. split; [exact Hs|]. rewrite Hv. apply Hc. }
  unfold fn_shift_xx_bin, fn_shift_xx_then, fn_shift_xx_elif. cbv zeta.
  destruct (xx_of is_xx), hap; cbn [andb negb].
  - apply G. intros b. destruct (chr_x_filter t build b); [|reflexivity].
    rewrite qneg_spec. reflexivity.
  - eapply Forall2_impl'; [|apply Forall2_same]. intros b b' [Hs Hv]. split; [exact Hs|exact Hv].
  - eapply Forall2_impl'; [|apply Forall2_same]. intros b b' [Hs Hv]. split; [exact Hs|exact Hv].
  - apply G. intros b. destruct (chr_x_filter t build b); reflexivity.
Qed.

(* ---- drop_low_coverage ---------------------------------------------------------------------------------------------- *)
Definition has_depth_of (b : bin) : bool := match b_depth b with Some _ => true | None => false end.
Definition depth_of (b : bin) : Q := match b_depth b with Some d => d | None => 0 end.

Theorem fn_is_low_eq b :
  is_low b = fn_drop_idx (b_log2 b) (has_depth_of b) (depth_of b) null_log2_coverage min_ref_coverage.
Proof.
  unfold is_low, fn_drop_idx, min_cvg, qsub, qlt_b, qeq_b, has_depth_of, depth_of. cbv zeta.
  rewrite (Qleb_comp _ _ (Qred_correct _) (b_log2 b) (b_log2 b) (Qeq_refl _)).
  destruct (b_depth b); rewrite ?orb_false_r; reflexivity.
Qed.

(* ---- compare_chrom and the combined score ------------------------------------------------------------------------------ *)
Lemma qmax2_py_max a b : qmax2 a b == (if Qle_bool b a then a else b).
Proof.
  unfold qmax2. destruct (Qle_bool a b) eqn:E1, (Qle_bool b a) eqn:E2; try reflexivity.
  - apply Qle_bool_iff in E1, E2. apply Qle_antisym; assumption.
  - exfalso. destruct (Qlt_le_dec a b) as [H|H].
    + apply Qlt_le_weak, Qle_bool_iff in H. congruence.
    + apply Qle_bool_iff in H. congruence.
Qed.

Definition some_of (o : option Q) : bool := match o with Some _ => true | None => false end.
Definition val_of (o : option Q) : Q := match o with Some v => v | None => 0 end.

Theorem fn_compare_chrom_eq fs ms fd md :
  lr_of fs ms fd md == fn_compare_chrom fs (some_of ms) (val_of ms) fd md.
Proof.
  unfold lr_of, fn_compare_chrom.
  destruct fs as [f|], ms as [m|]; cbn [some_of val_of]; rewrite qdiv_spec, qmax2_py_max; reflexivity.
Qed.

(* the chrY factor is applied when chrY has bins (its ratio is a finite number in exact arithmetic) and skipped
   otherwise; the decision is the translated comparison of the combined score with 1.0 *)
Theorem fn_sex_score_eq x_lr y_lr :
  score_of x_lr y_lr == fst (fn_sex_score x_lr (val_of y_lr) (some_of y_lr)) /\
  is_xy_of (score_of x_lr y_lr) = snd (fn_sex_score x_lr (val_of y_lr) (some_of y_lr)).
Proof.
  unfold score_of, fn_sex_score, is_xy_of, qlt_b. cbv zeta.
  destruct y_lr as [y|]; cbn [some_of val_of fst snd].
  - split; [apply qmul_spec|].
    rewrite (Qleb_comp _ _ (qmul_spec x_lr y) _ _ (Qeq_refl _)). reflexivity.
  - split; reflexivity.
Qed.
