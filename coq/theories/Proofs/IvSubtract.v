(* subtract: the four literal edge cases of _subtraction are one left-to-right
   sweep over the excluded rows with the running maximum of their ends; the
   sweep leaves exactly the bases of the keeper that no excluded row covers. *)
From CNV Require Import Base.Prelude Model.IvRow Model.Intervals Spec.Cover Proofs.IvCover.

Section Subtract.
Context {A B : Type}.
Notation rowA := (@row A).
Notation rowB := (@row B).

(* strongly sorted by start: every row starts no later than all rows after it *)
Fixpoint ssorted (l : list rowB) : Prop :=
  match l with
  | [] => True
  | x :: t => Forall (fun y => lo x <= lo y) t /\ ssorted t
  end.

Lemma sorted_lo_ssorted (l : list rowB) : sorted_lo l -> ssorted l.
Proof.
  induction l as [|x t IH]; simpl; auto.
  intros H. split.
  - apply (chain_head_all (fun a b => lo a <= lo b)); [intros; lia | exact H].
  - apply IH. eapply chain_tail; eauto.
Qed.

Lemma ssorted_filter (f : rowB -> bool) l : ssorted l -> ssorted (filter f l).
Proof.
  induction l as [|x t IH]; simpl; auto.
  intros [Hx Ht]. destruct (f x); simpl; auto. split; auto.
  rewrite Forall_forall in *. intros y Hy. apply filter_In in Hy as [Hy _]. auto.
Qed.

(* ---- the sweep ---------------------------------------------------------- *)

Definition piece (p : A) (s e : Z) : list rowA := if s <? e then [(s, e, p)] else [].

Fixpoint sweep (p : A) (cur : Z) (ex : list rowB) (e : Z) : list rowA :=
  match ex with
  | [] => piece p cur e
  | x :: t => piece p cur (lo x) ++ sweep p (Z.max cur (hi x)) t e
  end.

Lemma zip_pieces_cons (p : A) s ss e es :
  zip_pieces p (s :: ss) (e :: es) = piece p s e ++ zip_pieces p ss es.
Proof. unfold zip_pieces, piece. simpl. destruct (s <? e); reflexivity. Qed.

Lemma zip_pieces_nil_l (p : A) es : zip_pieces p [] es = [].
Proof. reflexivity. Qed.

Lemma zip_pieces_nil_r (p : A) ss : zip_pieces p ss [] = [].
Proof. unfold zip_pieces. destruct ss; reflexivity. Qed.

Lemma sweep_zip (p : A) c (ex : list rowB) e :
  zip_pieces p (c :: cummax_from c (map hi ex)) (map lo ex ++ [e]) = sweep p c ex e.
Proof.
  revert c. induction ex as [|x t IH]; intros c.
  - simpl. rewrite zip_pieces_cons, zip_pieces_nil_l, app_nil_r. reflexivity.
  - cbn [map app cummax_from sweep]. rewrite zip_pieces_cons. f_equal. apply IH.
Qed.

(* dropping the last pair / the first pair *)
Lemma zip_pieces_snoc (p : A) ss es s e :
  length ss = length es ->
  zip_pieces p (ss ++ [s]) (es ++ [e]) = zip_pieces p ss es ++ piece p s e.
Proof.
  revert es. induction ss as [|a ss IH]; intros [|b es] Hl; try discriminate.
  - simpl. rewrite zip_pieces_cons. rewrite zip_pieces_nil_l, app_nil_r. reflexivity.
  - cbn [app]. rewrite !zip_pieces_cons, IH, app_assoc; auto.
Qed.

Lemma cummax_from_length m l : length (cummax_from m l) = length l.
Proof. revert m; induction l; simpl; auto. Qed.

Lemma removelast_last_Z (l : list Z) d : l <> [] -> removelast l ++ [last l d] = l.
Proof. intros H. symmetry. apply app_removelast_last; auto. Qed.

Lemma removelast_length (l : list Z) : l <> [] -> S (length (removelast l)) = length l.
Proof.
  intros H. rewrite (app_removelast_last 0 H) at 2. rewrite app_length. simpl. lia.
Qed.

(* the literal model equals the sweep started at the first excluded row *)
Lemma subtract_row_sweep (k : rowA) (x : rowB) (t : list rowB) :
  subtract_row k (x :: t) = piece (pay k) (lo k) (lo x) ++ sweep (pay k) (hi x) t (hi k).
Proof.
  unfold subtract_row.
  set (ex := x :: t).
  set (es := cummax (map hi ex)).
  assert (Hes : es = hi x :: cummax_from (hi x) (map hi t)) by reflexivity.
  assert (Hne : es <> []) by (rewrite Hes; discriminate).
  assert (Hlen : length es = S (length t)).
  { rewrite Hes. simpl. rewrite cummax_from_length, map_length. reflexivity. }
  (* the general form *)
  assert (Hgen : zip_pieces (pay k) (lo k :: es) (map lo ex ++ [hi k])
                 = piece (pay k) (lo k) (lo x) ++ sweep (pay k) (hi x) t (hi k)).
  { unfold ex. cbn [map app]. rewrite zip_pieces_cons. f_equal.
    rewrite Hes. apply sweep_zip. }
  (* the general form with the last pair split off *)
  assert (Hlast : zip_pieces (pay k) (lo k :: es) (map lo ex ++ [hi k])
                  = zip_pieces (pay k) (lo k :: removelast es) (map lo ex)
                    ++ piece (pay k) (last es 0) (hi k)).
  { rewrite <- (removelast_last_Z es 0 Hne) at 1.
    change (lo k :: removelast es ++ [last es 0]) with ((lo k :: removelast es) ++ [last es 0]).
    apply zip_pieces_snoc. cbn [length]. rewrite map_length.
    pose proof (removelast_length es Hne) as Hrl. rewrite Hrl, Hlen. reflexivity. }
  cbn [hd map ex].
  fold ex. fold es.
  destruct (lo k <? lo x) eqn:Hl; destruct (last es 0 <? hi k) eqn:Hr; cbn [andb].
  - (* both edges kept *) exact Hgen.
  - (* left edge only *)
    rewrite <- Hgen, Hlast. unfold piece. rewrite Hr, app_nil_r. reflexivity.
  - (* right edge only *)
    rewrite <- Hgen. unfold ex. cbn [map app tl]. rewrite zip_pieces_cons.
    unfold piece. rewrite Hl. reflexivity.
  - (* neither edge *)
    rewrite <- Hgen, Hlast. unfold piece. rewrite Hr, app_nil_r.
    unfold ex. cbn [map tl]. rewrite zip_pieces_cons. unfold piece. rewrite Hl. cbn [app].
    destruct t as [|y t'].
    + simpl. rewrite zip_pieces_nil_r. reflexivity.
    + replace (1 <? Z.of_nat (length (x :: y :: t'))) with true; [reflexivity|].
      symmetry. apply Z.ltb_lt. simpl length. lia.
Qed.

(* ---- what the sweep covers ------------------------------------------------ *)

Lemma covers_piece (p : A) s e z : covers (piece p s e) z <-> s <= z < e.
Proof.
  unfold piece. destruct (s <? e) eqn:H.
  - rewrite covers_single. unfold lo, hi; simpl. tauto.
  - split; [intros C; destruct (covers_nil _ C) | lia].
Qed.

Lemma sweep_covers (p : A) cur (ex : list rowB) e z :
  ssorted ex -> Forall (fun x => lo x < e) ex ->
  (covers (sweep p cur ex e) z <-> cur <= z < e /\ ~ covers ex z).
Proof.
  revert cur. induction ex as [|x t IH]; intros cur Hs Hb.
  - simpl. rewrite covers_piece. split; [intros H; split; auto; apply covers_nil | tauto].
  - destruct Hs as [Hx Hs]. inversion Hb as [|? ? Hxe Hb']; subst.
    cbn [sweep]. rewrite covers_app, covers_piece, (IH _ Hs Hb'), covers_cons.
    split.
    + intros [Hz | [Hz Hn]].
      * split; [lia|]. intros [Hc | [y [Hy Hc]]]; [lia|].
        rewrite Forall_forall in Hx. specialize (Hx y Hy). lia.
      * split; [lia|]. intros [Hc | Hc]; [lia | auto].
    + intros [Hz Hn].
      destruct (Z_lt_le_dec z (lo x)) as [Hlt | Hge]; [left; lia|].
      right. split; [|tauto].
      destruct (Z_lt_le_dec z (hi x)) as [Hlt | Hge2]; [exfalso; apply Hn; left; lia | lia].
Qed.

Lemma sweep_pieces (p : A) cur (ex : list rowB) e :
  Forall (fun x => lo x < e) ex ->
  Forall (fun q => pay q = p /\ cur <= lo q /\ lo q < hi q /\ hi q <= e) (sweep p cur ex e).
Proof.
  revert cur. induction ex as [|x t IH]; intros cur Hb.
  - simpl. unfold piece. destruct (cur <? e) eqn:H; constructor; auto.
    unfold lo, hi, pay; simpl. split; [reflexivity | lia].
  - inversion Hb as [|? ? Hxe Hb']; subst. cbn [sweep]. apply Forall_app. split.
    + unfold piece. destruct (cur <? lo x) eqn:H; constructor; auto.
      unfold lo, hi, pay in *; simpl. split; [reflexivity | lia].
    + eapply Forall_impl; [|apply (IH _ Hb')]. simpl. intros q (H1 & H2 & H3 & H4).
      repeat split; auto; lia.
Qed.

Lemma sorted_disjoint_cons (q : rowA) l :
  Forall (fun y => hi q <= lo y) l -> sorted_disjoint l -> sorted_disjoint (q :: l).
Proof.
  intros Hq Hl. unfold sorted_disjoint in *. simpl. split; auto.
  destruct l; auto. inversion Hq; auto.
Qed.

Lemma sweep_sorted (p : A) cur (ex : list rowB) e :
  Forall (fun x => lo x < e) ex -> Forall (fun x => lo x <= hi x) ex ->
  sorted_disjoint (sweep p cur ex e).
Proof.
  revert cur. induction ex as [|x t IH]; intros cur Hb Hv.
  - simpl. unfold piece. destruct (cur <? e); unfold sorted_disjoint; simpl; auto.
  - inversion Hb as [|? ? Hxe Hb']; inversion Hv as [|? ? Hxv Hv']; subst.
    cbn [sweep]. unfold piece. destruct (cur <? lo x) eqn:H; cbn [app]; [|apply IH; auto].
    apply sorted_disjoint_cons; [|apply IH; auto].
    eapply Forall_impl; [|apply (sweep_pieces p (Z.max cur (hi x)) t e Hb')].
    simpl. intros q (H1 & H2 & H3 & H4). unfold hi at 1. simpl. lia.
Qed.

(* ---- one keeper row --------------------------------------------------------- *)

Definition ex_ok (k : rowA) (ex : list rowB) : Prop :=
  Forall (fun x => lo x < hi k /\ lo k < hi x) ex.

Lemma ex_ok_filter (k : rowA) (b : list rowB) : ex_ok k (filter (overlaps (lo k) (hi k)) b).
Proof.
  unfold ex_ok. rewrite Forall_forall. intros x Hx. apply filter_In in Hx as [_ Hx].
  unfold overlaps in Hx. lia.
Qed.

Lemma subtract_row_is_sweep (k : rowA) (ex : list rowB) :
  ex <> [] -> ex_ok k ex -> subtract_row k ex = sweep (pay k) (lo k) ex (hi k).
Proof.
  destruct ex as [|x t]; [congruence|]. intros _ Hok.
  rewrite subtract_row_sweep. cbn [sweep]. f_equal. f_equal.
  inversion Hok; subst. lia.
Qed.

Lemma ex_ok_bound (k : rowA) ex : ex_ok k ex -> Forall (fun x => lo x < hi k) ex.
Proof. apply Forall_impl. tauto. Qed.

Lemma subtract_row_covers (k : rowA) (ex : list rowB) z :
  ssorted ex -> ex_ok k ex ->
  (covers (subtract_row k ex) z <-> lo k <= z < hi k /\ ~ covers ex z).
Proof.
  intros Hs Hok. destruct ex as [|x t] eqn:E.
  - simpl. rewrite covers_single. split; [intros H; split; auto; apply covers_nil | tauto].
  - rewrite subtract_row_is_sweep; [|discriminate|auto].
    apply sweep_covers; auto. apply ex_ok_bound; auto.
Qed.

Lemma subtract_row_pieces (k : rowA) (ex : list rowB) :
  lo k < hi k -> ex_ok k ex ->
  Forall (fun q => pay q = pay k /\ lo k <= lo q /\ lo q < hi q /\ hi q <= hi k) (subtract_row k ex).
Proof.
  intros Hk Hok. destruct ex as [|x t] eqn:E.
  - simpl. constructor; auto. repeat split; auto; lia.
  - rewrite subtract_row_is_sweep; [|discriminate|auto].
    apply sweep_pieces. apply ex_ok_bound; auto.
Qed.

Lemma subtract_row_sorted (k : rowA) (ex : list rowB) :
  ex_ok k ex -> Forall (fun x => lo x <= hi x) ex -> sorted_disjoint (subtract_row k ex).
Proof.
  intros Hok Hv. destruct ex as [|x t] eqn:E.
  - simpl. unfold sorted_disjoint; simpl; auto.
  - rewrite subtract_row_is_sweep; [|discriminate|auto].
    apply sweep_sorted; auto. apply ex_ok_bound; auto.
Qed.

(* ---- the whole table ---------------------------------------------------------- *)

Lemma covers_filter_overlaps (k : rowA) (b : list rowB) z :
  lo k <= z < hi k -> (covers (filter (overlaps (lo k) (hi k)) b) z <-> covers b z).
Proof.
  intros Hz. split; [apply covers_filter|].
  intros [x [Hin Hx]]. exists x. split; auto.
  apply filter_In. split; auto. unfold overlaps. lia.
Qed.

Theorem subtract_covers (a : list rowA) (b : list rowB) z :
  sorted_lo b ->
  (covers (subtract a b) z <-> covers a z /\ ~ covers b z).
Proof.
  intros Hs. unfold subtract. rewrite covers_flat_map.
  assert (Hss : forall k : rowA, ssorted (filter (overlaps (lo k) (hi k)) b)).
  { intros k. apply ssorted_filter, sorted_lo_ssorted, Hs. }
  split.
  - intros [k [Hin Hc]].
    apply subtract_row_covers in Hc; [|apply Hss|apply ex_ok_filter].
    destruct Hc as [Hz Hn]. split; [exists k; auto|].
    rewrite <- (covers_filter_overlaps k b z Hz). exact Hn.
  - intros [[k [Hin Hz]] Hn]. exists k. split; auto.
    apply subtract_row_covers; [apply Hss|apply ex_ok_filter|].
    split; auto. rewrite (covers_filter_overlaps k b z Hz). exact Hn.
Qed.

(* every piece lies inside a row of `a` and carries that row's other fields *)
Theorem subtract_pieces (a : list rowA) (b : list rowB) :
  valid a ->
  Forall (fun q => exists k, In k a /\ pay q = pay k /\ lo k <= lo q /\ lo q < hi q /\ hi q <= hi k)
         (subtract a b).
Proof.
  intros Hv. unfold subtract. rewrite Forall_forall. intros q Hq.
  apply in_flat_map in Hq as [k [Hin Hq]]. exists k. split; auto.
  pose proof (subtract_row_pieces k (filter (overlaps (lo k) (hi k)) b)
                (valid_in _ _ Hv Hin) (ex_ok_filter k b)) as H.
  rewrite Forall_forall in H. apply H; auto.
Qed.

(* the pieces cut from one row are sorted and pairwise disjoint *)
Theorem subtract_row_pieces_sorted (k : rowA) (b : list rowB) :
  valid b -> sorted_disjoint (subtract_row k (filter (overlaps (lo k) (hi k)) b)).
Proof.
  intros Hv. apply subtract_row_sorted; [apply ex_ok_filter|].
  apply valid_filter with (f := overlaps (lo k) (hi k)) in Hv.
  eapply Forall_impl; [|exact Hv]. simpl. intros; lia.
Qed.

End Subtract.
