(* C15 function-body tie of the chrY masks (tools/fnspecs/cnary_loops.py, Gen/FnCnaryYFilter.v): CopyNumArray.pary_filter and
   CopyNumArray.chr_y_filter of cnvlib/cnary.py, translated whole and read per row, ARE Model/Center.v's pary_filter /
   chr_y_filter on every bin (the call `self.pary_filter(genome_build=diploid_parx_genome)` inside chr_y_filter is the
   generated pary_filter). *)
From CNV Require Import Base.Prelude Base.Str Base.QNum Gen.CenterDefaults Model.Center Gen.FnCnaryYFilter.

Theorem fn_pary_filter_eq t p b gb :
  pary_filter t p b =
  let '(s1, e1, s2, e2) := par_y p in
  fn_pary_filter (b_chrom b) (b_start b) (b_end b) gb (y_label t) s1 e1 s2 e2.
Proof.
  unfold pary_filter, in_par, fn_pary_filter. destruct (par_y p) as [[[s1 e1] s2] e2]. reflexivity.
Qed.

Definition fn_pary_of (t : list bin) (build : option parb) (gb : string) (b : bin) : bool :=
  match build with
  | Some p => let '(s1, e1, s2, e2) := par_y p in
              fn_pary_filter (b_chrom b) (b_start b) (b_end b) gb (y_label t) s1 e1 s2 e2
  | None => false
  end.

Definition has_build_y (build : option parb) : bool := match build with Some _ => true | None => false end.

Theorem fn_chr_y_filter_eq t build b gb :
  chr_y_filter t build b = fn_chr_y_filter (b_chrom b) (y_label t) (has_build_y build) (fn_pary_of t build gb b).
Proof.
  unfold chr_y_filter, fn_chr_y_filter, fn_pary_of, has_build_y. destruct build as [p|].
  - rewrite (fn_pary_filter_eq t p b gb). destruct (par_y p) as [[[s1 e1] s2] e2]. reflexivity.
  - cbv zeta. rewrite andb_true_r. reflexivity.
Qed.
