(* C08 source tie of gff.read_gff's keep_type filter:

       if keep_type:
           ok_type = (dframe['type'] == keep_type)
           logging.info(...)
           dframe = dframe[ok_type]

   read per row, is regenerated from the Python source on every run as Gen/FnFormatsGffKeep.v (fn_gff_keep: whether a
   record stays in dframe, as a function of keep_type and the record's type column; keep_type = None enters as the empty
   string -- only its truthiness and its equality with the column are read).  Here: it IS the model's gff_keep
   (Model/Formats.v), hence the filter of read_gff_full. *)
From CNV Require Import Base.Prelude Base.Str Gen.FnFormatsGffKeep Model.Formats.

Definition keep_text (keep_type : option string) : string :=
  match keep_type with Some ty => ty | None => EmptyString end.

Lemma source_gff_keep (keep_type : option string) (r : row) :
  fn_gff_keep (keep_text keep_type) (gff_type r) = gff_keep keep_type r.
Proof.
  unfold fn_gff_keep, gff_keep, keep_text. destruct keep_type as [ty|]; [|reflexivity].
  destruct (String.eqb ty ""); reflexivity.
Qed.

Lemma source_gff_filter (keep_type : option string) (t : list row) :
  filter (gff_keep keep_type) t = filter (fun r => fn_gff_keep (keep_text keep_type) (gff_type r)) t.
Proof. apply filter_ext. intro r. symmetry. apply source_gff_keep. Qed.
