(* chr:start-end text: from_label (to_label r) = r, and the text round trip. *)
From CNV Require Import Base.Prelude Base.Str Model.Decimal Model.Chromsort Model.Sniff Model.Formats.
From CNV Require Import Proofs.ChromsortLemmas Proofs.FormatsLemmas.
From CNV Require Import Gen.Formats.

Lemma chars_unchars l : chars (unchars l) = l.
Proof. apply list_ascii_of_string_of_list_ascii. Qed.

Lemma span_app p l1 c r :
  forallb p l1 = true -> p c = false -> span p (l1 ++ c :: r) = (l1, c :: r).
Proof.
  induction l1 as [|x t IH]; cbn; intros H Hc.
  - now rewrite Hc.
  - apply andb_true_iff in H. destruct H as [Hx Ht]. rewrite Hx, (IH Ht Hc). reflexivity.
Qed.

Lemma span_all p l : forallb p l = true -> span p l = (l, []).
Proof.
  induction l as [|x t IH]; cbn; intros H; auto.
  apply andb_true_iff in H. destruct H as [Hx Ht]. now rewrite Hx, (IH Ht).
Qed.

(* names re_label accepts as group 1: \w[\w.]* *)
Definition text_name_ok (c : string) : bool :=
  match chars c with
  | x :: t => is_word x && forallb is_name_char t
  | [] => false
  end.

Lemma digit_not_colon_dash :
  is_name_char ":"%char = false /\ is_digit "-"%char = false.
Proof. split; reflexivity. Qed.

Lemma parse_label_chars x t d1 d2 a b :
  is_word x = true -> forallb is_name_char t = true ->
  forallb is_digit d1 = true -> d1 <> [] -> forallb is_digit d2 = true -> d2 <> [] ->
  parse_Z (unchars d1) = Some a -> parse_Z (unchars d2) = Some b ->
  parse_label (unchars ((x :: t) ++ ":"%char :: d1 ++ "-"%char :: d2))
  = Some (Some (unchars (x :: t)), Some (a + off_from_label), Some b, EmptyString).
Proof.
  intros Hx Ht Hd1 Hn1 Hd2 Hn2 Pa Pb. unfold parse_label. rewrite chars_unchars.
  cbn [app]. rewrite Hx.
  change (x :: t ++ ":"%char :: d1 ++ "-"%char :: d2)
    with ((x :: t) ++ ":"%char :: d1 ++ "-"%char :: d2).
  rewrite span_app; [| cbn [forallb]; unfold is_name_char at 1; rewrite Hx; exact Ht | reflexivity].
  cbn [Ascii.eqb Bool.eqb].
  rewrite span_app by (auto; reflexivity).
  cbn [Ascii.eqb Bool.eqb].
  rewrite (span_all is_digit d2 Hd2). cbn [span].
  unfold digits_opt.
  destruct d1 as [|y1 d1']; [congruence|]. destruct d2 as [|y2 d2']; [congruence|].
  rewrite Pa, Pb. reflexivity.
Qed.

Lemma to_label_chars c s e :
  to_label (c, s, e)
  = unchars (chars c ++ ":"%char :: chars (print_Z (s + off_to_label)) ++ "-"%char :: chars (print_Z e)).
Proof.
  unfold to_label.
  rewrite <- (unchars_chars (c ++ ":" ++ print_Z (s + off_to_label) ++ "-" ++ print_Z e)%string).
  f_equal. rewrite !chars_app. reflexivity.
Qed.

(* from_label (to_label r) = r *)
Lemma parse_label_to_label c s e :
  text_name_ok c = true -> 0 <= s + off_to_label -> 0 <= e ->
  parse_label (to_label (c, s, e))
  = Some (Some c, Some (s + off_to_label + off_from_label), Some e, EmptyString).
Proof.
  intros Hc Hs He. rewrite to_label_chars. unfold text_name_ok in Hc.
  destruct (chars c) as [|x t] eqn:Ec; [discriminate|].
  apply andb_true_iff in Hc. destruct Hc as [Hx Ht].
  rewrite (parse_label_chars x t _ _ (s + off_to_label) e); auto.
  - rewrite <- Ec, unchars_chars. reflexivity.
  - now apply print_digits.
  - apply print_nonempty.
  - now apply print_digits.
  - apply print_nonempty.
  - rewrite unchars_chars. apply parse_print.
  - rewrite unchars_chars. apply parse_print.
Qed.

Definition text_row_ok (r : row) : bool :=
  let '(c, s, e) := fst r in text_name_ok c && (0 <=? s) && (0 <=? e).

Theorem roundtrip_text (t : list row) :
  Forall (fun r => text_row_ok r = true) t ->
  read_text (write_text t) = Some (sort_rows (map (fun r => (fst r, [text_default_gene])) t)).
Proof.
  intros H. unfold read_text, write_text.
  rewrite (all_some_map_map text_line (fun f => read_text_line (join_tab f))
             (fun r : row => (fst r, [text_default_gene]))); [reflexivity|].
  intros [[[c s] e] ex] Hin. rewrite Forall_forall in H. specialize (H _ Hin).
  unfold text_row_ok in H. cbn [fst] in H.
  apply andb_true_iff in H. destruct H as [H He]. apply andb_true_iff in H. destruct H as [Hc Hs].
  apply Z.leb_le in Hs, He.
  unfold text_line. cbn [fst snd join_tab]. unfold read_text_line.
  rewrite parse_label_to_label; auto.
  - cbn [String.eqb]. rewrite <- !Z.add_assoc.
    replace (s + (off_write_text + (off_to_label + (off_from_label + off_read_text)))) with s
      by (unfold off_write_text, off_to_label, off_from_label, off_read_text; lia).
    reflexivity.
  - unfold off_write_text, off_to_label. lia.
Qed.

(* the repaired defect's input: start 10 is written as chr1:11-100 and read back as 10 *)
Lemma text_regression :
  write_text [(("chr1", 10, 100), [])]%string = [["chr1:11-100"]]%string /\
  read_text [["chr1:11-100"]]%string = Some [(("chr1", 10, 100), ["-"])]%string.
Proof. split; vm_compute; reflexivity. Qed.
