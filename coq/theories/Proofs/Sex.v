(* C15, chromosomal sex: shift_xx, expect_flat_log2, the decision on a noise-free sample, and the
   decision arithmetic for every outcome of the median tests. *)
From CNV Require Import Base.Prelude Base.Str Base.QNum Proofs.QNumLemmas Gen.CenterDefaults
  Model.Center Model.Sex Spec.Center Proofs.CenterLib Proofs.Center Proofs.SexLib.
From Coq Require Import Qabs Setoid Morphisms Psatz.
Local Open Scope Q_scope.

(* ================================================================================================ *)
(* shift_xx *)

Lemma same_but_log2_eq c c' b b' : c == c' -> same_but_log2 c b b' -> same_but_log2 c' b b'.
Proof.
  unfold same_but_log2. intros E H. decompose [and] H. repeat split; try assumption.
  rewrite <- E. assumption.
Qed.

Lemma same_but_log2_refl b : same_but_log2 0 b b.
Proof. unfold same_but_log2. repeat split; try reflexivity. ring. Qed.

Lemma Forall2_map_r {A} (R : A -> A -> Prop) (f : A -> A) l : (forall x, R x (f x)) -> Forall2 R l (map f l).
Proof. intros H. induction l; simpl; constructor; auto. Qed.

Lemma Forall2_same {A} (R : A -> A -> Prop) l : (forall x, R x x) -> Forall2 R l l.
Proof. intros H. induction l; constructor; auto. Qed.

Lemma Forall2_weaken {A} (R R' : A -> A -> Prop) l l' :
  (forall x y, R x y -> R' x y) -> Forall2 R l l' -> Forall2 R' l l'.
Proof. intros H F. induction F; constructor; auto. Qed.

Lemma Forall2_In_r {A} (R : A -> A -> Prop) l l' y : Forall2 R l l' -> In y l' -> exists x, In x l /\ R x y.
Proof.
  intros F. induction F as [|b c l l' Hbc F IH]; intros Hin; [contradiction|].
  destruct Hin as [Hin|Hin].
  - subst c. exists b. split; [left; reflexivity|exact Hbc].
  - destruct (IH Hin) as [b0 [Hb0 K]]. exists b0. split; [right; exact Hb0|exact K].
Qed.

(* every chrX bin moves by -x_offset (so a bin at "autosomal level + x_offset" lands on the
   autosomal level), nothing else moves *)
Lemma shift_xx_spec hap xx build t :
  Forall2 (fun b b' => if chr_x_filter t build b
                       then same_but_log2 (- x_offset xx hap) b b' else b' = b)
          t (shift_xx hap (Some xx) build t).
Proof.
  unfold shift_xx, x_offset. destruct xx, hap; cbn [andb negb].
  - apply Forall2_map_r. intros b. destruct (chr_x_filter t build b); [|reflexivity].
    apply (same_but_log2_eq (qneg shift_xx_down)); [reflexivity|apply add_log2_same].
  - apply Forall2_same. intros b. destruct (chr_x_filter t build b); [|reflexivity].
    apply (same_but_log2_eq 0); [reflexivity|apply same_but_log2_refl].
  - apply Forall2_same. intros b. destruct (chr_x_filter t build b); [|reflexivity].
    apply (same_but_log2_eq 0); [reflexivity|apply same_but_log2_refl].
  - apply Forall2_map_r. intros b. destruct (chr_x_filter t build b); [|reflexivity].
    apply (same_but_log2_eq shift_xx_up); [reflexivity|apply add_log2_same].
Qed.

(* the mask reads chromosome and coordinates only *)
Lemma chr_x_filter_same c t build b b' : same_but_log2 c b b' -> chr_x_filter t build b' = chr_x_filter t build b.
Proof.
  intros [Hc [Hs [He _]]]. unfold chr_x_filter, parx_filter, in_par. rewrite Hc, Hs, He. reflexivity.
Qed.

(* a correctly sexed X (its non-PAR part when a build is given) comes to the autosomal level *)
Lemma shift_xx_level hap xx build t a :
  (forall b, In b t -> chr_x_filter t build b = true -> b_log2 b == a + x_offset xx hap) ->
  forall b', In b' (shift_xx hap (Some xx) build t) -> chr_x_filter t build b' = true -> b_log2 b' == a.
Proof.
  intros H b' Hb' Hx. pose proof (shift_xx_spec hap xx build t) as S.
  assert (K : exists b, In b t /\ (if chr_x_filter t build b
                                   then same_but_log2 (- x_offset xx hap) b b' else b' = b)).
  { apply (Forall2_In_r _ _ _ _ S Hb'). }
  destruct K as [b [Hb K]]. destruct (chr_x_filter t build b) eqn:E.
  - destruct K as [Hc [_ [_ [_ [_ [_ Hl]]]]]]. rewrite Hl. rewrite (H b Hb E). ring.
  - subst b'. congruence.
Qed.

(* with a PAR build the bins inside PAR1X / PAR2X are never moved (they already sit at the autosomal
   level), nor is any bin off chrX *)
Lemma shift_xx_parx_fixed hap xx p t :
  Forall2 (fun b b' => (parx_filter t p b = true \/ b_chrom b <> x_label t) -> b' = b)
          t (shift_xx hap (Some xx) (Some p) t).
Proof.
  pose proof (shift_xx_spec hap xx (Some p) t) as S.
  revert S. apply Forall2_weaken. intros b b' Hb.
  intros Hp. unfold chr_x_filter in Hb. destruct Hp as [Hp|Hp].
  - rewrite Hp in Hb. rewrite andb_false_r in Hb. exact Hb.
  - apply String.eqb_neq in Hp. rewrite Hp in Hb. exact Hb.
Qed.

(* the two identity cases: female sample on a female reference, male sample on a male reference *)
Lemma shift_xx_identity hap xx build t : xx = negb hap -> shift_xx hap (Some xx) build t = t.
Proof. intros ->. unfold shift_xx. destruct hap; reflexivity. Qed.

(* sex not determined (no chrX): treated as "not female" *)
Lemma shift_xx_unknown hap build t : shift_xx hap None build t = shift_xx hap (Some false) build t.
Proof. reflexivity. Qed.

(* the input of the repaired defect dff7a3e: male sample, female reference, grch37; the PAR1X bin stays at
   the autosomal level, the other chrX bin comes up to it *)
Example shift_xx_keeps_parx :
  let t := [mkBin "chr1" 0 100 "g" 0 None None; mkBin "chrX" 60000 60100 "g" 0 None None;
            mkBin "chrX" 5000000 5000100 "g" (-1) None None] in
  exists p, resolve_build "grch37" = Some p /\
            map (parx_filter t p) t = [false; true; false] /\
            map b_log2 (shift_xx false (Some false) (Some p) t) = [0; 0; 0].
Proof. eexists. split; [vm_compute; reflexivity|]. split; vm_compute; reflexivity. Qed.

(* chrX label and chrY label differ on a non-empty table *)
Lemma x_y_label_differ t : t <> [] -> x_label t <> y_label t.
Proof.
  destruct t as [|b t]; [contradiction|]. intros _. unfold y_label, x_label.
  destruct (str_prefix "chr" (b_chrom b)); discriminate.
Qed.

(* ================================================================================================ *)
(* expect_flat_log2 *)

Definition flat_spec_row (hap : bool) (build : option parb) (t : list bin) (b : bin) : Q :=
  flat_level hap (String.eqb (b_chrom b) (x_label t)) (String.eqb (b_chrom b) (y_label t))
             (match build with Some p => parx_filter t p b | None => false end).

Definition no_pary_under_male_ref (hap : bool) (build : option parb) (t : list bin) : Prop :=
  hap = true -> forall p b, build = Some p -> In b t -> pary_filter t p b = false.

Lemma expect_flat_spec hap build t :
  no_pary_under_male_ref hap build t -> expect_flat hap build t = map (flat_spec_row hap build t) t.
Proof.
  intros Hp. unfold expect_flat. apply map_ext_in. intros b Hb.
  unfold flat_spec_row, flat_level, chr_x_filter, chr_y_filter.
  destruct (Nat.eq_dec (length t) 0) as [E0|E0].
  { destruct t; [contradiction|discriminate]. }
  assert (Hne : t <> []) by (intro K; rewrite K in E0; apply E0; reflexivity).
  pose proof (x_y_label_differ t Hne) as Hxy.
  destruct (String.eqb (b_chrom b) (x_label t)) eqn:Ex; destruct (String.eqb (b_chrom b) (y_label t)) eqn:Ey.
  - apply String.eqb_eq in Ex, Ey. exfalso. apply Hxy. congruence.
  - destruct hap; cbn [andb orb negb].
    + destruct build as [p|]; [|reflexivity]. destruct (parx_filter t p b); reflexivity.
    + reflexivity.
  - destruct hap; cbn [andb orb negb].
    + destruct build as [p|]; [|reflexivity]. rewrite (Hp eq_refl p b eq_refl Hb). reflexivity.
    + reflexivity.
  - destruct hap; cbn [andb orb negb]; reflexivity.
Qed.

(* the open finding: male reference + PAR build, a bin inside PAR1Y is on chrY and gets 0 *)
Definition pary_witness : list bin :=
  [mkBin "chr1" 1000 2000 "g" 0 None None; mkBin "chrY" 20000 20100 "g" 0 None None].

Lemma expect_flat_pary_refuted :
  exists p, resolve_build "grch37" = Some p /\
    exists b, nth_error pary_witness 1 = Some b /\ b_chrom b = y_label pary_witness /\
              nth_error (expect_flat true (Some p) pary_witness) 1 = Some 0 /\
              ~ (0 == -1).
Proof.
  destruct (resolve_build "grch37") as [p|] eqn:E; [|vm_compute in E; discriminate].
  exists p. split; [reflexivity|]. eexists. split; [reflexivity|]. split; [reflexivity|].
  split; [|discriminate].
  vm_compute in E. injection E as <-. vm_compute. reflexivity.
Qed.

(* ================================================================================================ *)
(* the decision arithmetic *)

Lemma is_xy_of_true s : is_xy_of s = true <-> 1 < s.
Proof. unfold is_xy_of. rewrite qlt_b_iff. assert (E : score_cut == 1) by reflexivity. rewrite E. reflexivity. Qed.

Lemma is_xy_of_false s : is_xy_of s = false <-> s <= 1.
Proof. unfold is_xy_of. rewrite qlt_b_false. assert (E : score_cut == 1) by reflexivity. rewrite E. reflexivity. Qed.

Lemma floor_lt_one : lr_denominator_floor < 1.
Proof. unfold lr_denominator_floor, Qlt. simpl. lia. Qed.

Lemma qmax2_floor_pos m : 0 < qmax2 m lr_denominator_floor.
Proof.
  destruct (qmax2_spec m lr_denominator_floor) as [_ [H _]]. eapply Qlt_le_trans; [apply floor_pos|exact H].
Qed.

Lemma div_gt_one f M : 0 < M -> (1 < f / M <-> M < f).
Proof.
  intros HM. split; intro H.
  - assert (E : f == (f / M) * M) by (field; intro K; rewrite K in HM; apply (Qlt_irrefl 0); exact HM).
    set (x := f / M) in *. rewrite E. nra.
  - apply Qlt_shift_div_l; [exact HM|]. lra.
Qed.

(* both tests gave a statistic: the ratio is above 1 exactly when the female-hypothesis statistic
   exceeds both the male-hypothesis statistic and the floor *)
Lemma lr_of_stats f m fd md : 1 < lr_of (Some f) (Some m) fd md <-> (m < f /\ lr_denominator_floor < f).
Proof.
  cbn [lr_of]. rewrite qdiv_spec. pose proof (qmax2_floor_pos m) as Hp.
  destruct (qmax2_spec m lr_denominator_floor) as [H1 [H2 H3]].
  split.
  - intros H. assert (K : qmax2 m lr_denominator_floor < f).
    { apply (proj1 (div_gt_one _ _ Hp)) in H. exact H. }
    split; lra.
  - intros [Ha Hb]. apply Qlt_shift_div_l; [exact Hp|]. destruct H3 as [->| ->]; lra.
Qed.

(* aligned with the female hypothesis (smaller statistic there): the ratio stays below 1 *)
Lemma lr_of_stats_female f m fd md : 0 <= f -> f < m -> lr_of (Some f) (Some m) fd md < 1.
Proof.
  intros Hf Hfm. cbn [lr_of]. rewrite qdiv_spec. pose proof (qmax2_floor_pos m) as Hp.
  destruct (qmax2_spec m lr_denominator_floor) as [H1 _].
  apply Qlt_shift_div_r; [exact Hp|]. lra.
Qed.

(* a test failed: the same with the differences of medians *)
Lemma lr_of_diffs fs ms fd md : (fs = None \/ ms = None) ->
  (1 < lr_of fs ms fd md <-> (md < fd /\ lr_denominator_floor < fd)).
Proof.
  intros Hn. assert (E : lr_of fs ms fd md = qdiv fd (qmax2 md lr_denominator_floor)).
  { destruct Hn as [->| ->]; [apply lr_of_none_l|apply lr_of_none_r]. }
  rewrite E, qdiv_spec. pose proof (qmax2_floor_pos md) as Hp.
  destruct (qmax2_spec md lr_denominator_floor) as [H1 [H2 H3]].
  split.
  - intros H. apply (proj1 (div_gt_one _ _ Hp)) in H. split; lra.
  - intros [Ha Hb]. apply Qlt_shift_div_l; [exact Hp|]. destruct H3 as [->| ->]; lra.
Qed.

(* the combined decision: both chromosomes (or chrX alone) speak for male -> male; chrX speaks for
   female and chrY (if present) does not speak for male -> female *)
Lemma decision_male x y : 1 < x -> (match y with Some v => 1 < v | None => True end) ->
  is_xy_of (score_of x y) = true.
Proof.
  intros Hx Hy. apply is_xy_of_true. destruct y as [v|]; cbn [score_of]; [|exact Hx].
  rewrite qmul_spec. nra.
Qed.

Lemma decision_female x y : 0 <= x -> x < 1 -> (match y with Some v => 0 <= v /\ v <= 1 | None => True end) ->
  is_xy_of (score_of x y) = false.
Proof.
  intros Hx0 Hx Hy. apply is_xy_of_false. destruct y as [v|]; cbn [score_of]; [|lra].
  rewrite qmul_spec. nra.
Qed.

(* ================================================================================================ *)
(* the noise-free sample *)

Definition x_lr_of gstat (hap : bool) (build : option parb) (t : list bin) : Q :=
  let chrx := filter (chr_x_filter t build) t in
  let auto := autosomes t build in
  let use := has_weight t in
  male_lr gstat (map b_log2 auto) (opt_weights use auto) (map b_log2 chrx) (opt_weights use chrx)
          (fst (x_shifts hap)) (snd (x_shifts hap)).

Definition y_lr_of gstat (build : option parb) (t : list bin) : option Q :=
  let chry := filter (chr_y_filter t build) t in
  let auto := autosomes t build in
  let use := has_weight t in
  match chry with
  | [] => None
  | _ => Some (male_lr gstat (map b_log2 auto) (opt_weights use auto) (map b_log2 chry) (opt_weights use chry)
                       y_shift_female y_shift_male)
  end.

Lemma sex_decision_unfold gstat hap build t :
  filter (chr_x_filter t build) t <> [] ->
  sex_decision gstat hap build t = Some (is_xy_of (score_of (x_lr_of gstat hap build t) (y_lr_of gstat build t))).
Proof.
  intros Hx. unfold sex_decision, compare_sex, x_lr_of, y_lr_of.
  destruct t as [|b0 t0]; [exfalso; apply Hx; reflexivity|].
  set (t := b0 :: t0) in *.
  destruct (filter (chr_x_filter t build) t) as [|bx rx] eqn:Ex; [exfalso; apply Hx; reflexivity|].
  destruct hap; cbn [x_shifts fst snd]; reflexivity.
Qed.

Lemma filter_nonnil {A} (p : A -> bool) l x : In x l -> p x = true -> filter p l <> [].
Proof. intros Hi Hp K. assert (H : In x (filter p l)) by (apply filter_In; split; assumption). rewrite K in H. exact H. Qed.

Lemma weights_of_length l : length (weights_of l) = length (map b_log2 l).
Proof. unfold weights_of. rewrite !map_length. reflexivity. Qed.

Lemma opt_weights_ok use (sub t : list bin) :
  (forall b, In b sub -> In b t) -> (forall b w, In b t -> b_weight b = Some w -> 0 <= w) ->
  ok_weights (map b_log2 sub) (opt_weights use sub).
Proof.
  intros Hsub Hw. unfold opt_weights. destruct use; [|exact I]. split; [apply weights_of_length|].
  intros x Hx. unfold weights_of in Hx. apply in_map_iff in Hx. destruct Hx as [b [Hb Hin]].
  destruct (b_weight b) as [w|] eqn:E.
  - subst x. apply (Hw b w (Hsub b Hin) E).
  - subst x. apply Qle_refl.
Qed.

Lemma const_map_log2 v (sub : list bin) : (forall b, In b sub -> b_log2 b == v) -> const_list v (map b_log2 sub).
Proof. intros H x Hx. apply in_map_iff in Hx. destruct Hx as [b [<- Hb]]. apply H. exact Hb. Qed.

Lemma map_nonnil {A B} (f : A -> B) l : l <> [] -> map f l <> [].
Proof. intros H K. apply map_eq_nil in K. contradiction. Qed.

Section Idealised.
  Variable gstat : mtable -> Q.       (* any G statistic whatsoever *)
  Variables (a : Q) (female hap : bool) (t : list bin).
  Hypothesis Hid : idealised a female hap t.

  Let chrx := filter (chr_x_filter t None) t.
  Let chry := filter (chr_y_filter t None) t.
  Let auto := autosomes t None.

  Lemma id_auto_eq : auto = filter (fun b => is_auto_name (b_chrom b) || false) t.
  Proof. unfold auto. apply autosomes_some. exact (id_auto_exists _ _ _ _ Hid). Qed.

  Lemma id_auto_in b : In b auto -> In b t /\ is_auto_name (b_chrom b) = true.
  Proof. rewrite id_auto_eq. intros H. apply filter_In in H. rewrite orb_false_r in H. exact H. Qed.

  Lemma id_auto_nonnil : auto <> [].
  Proof.
    destruct (id_auto_exists _ _ _ _ Hid) as [b [Hb K]]. rewrite id_auto_eq.
    apply (filter_nonnil _ t b Hb). rewrite K. reflexivity.
  Qed.

  Lemma id_chrx_in b : In b chrx -> In b t /\ b_chrom b = x_label t.
  Proof.
    unfold chrx, chr_x_filter. intros H. apply filter_In in H. destruct H as [H1 H2].
    rewrite andb_true_r in H2. apply String.eqb_eq in H2. split; assumption.
  Qed.

  Lemma id_chrx_nonnil : chrx <> [].
  Proof.
    destruct (id_x_exists _ _ _ _ Hid) as [b [Hb K]]. unfold chrx.
    apply (filter_nonnil _ t b Hb). unfold chr_x_filter. rewrite K, String.eqb_refl. reflexivity.
  Qed.

  Lemma id_chry_in b : In b chry -> In b t /\ b_chrom b = y_label t.
  Proof.
    unfold chry, chr_y_filter. intros H. apply filter_In in H. destruct H as [H1 H2].
    rewrite andb_true_r in H2. apply String.eqb_eq in H2. split; assumption.
  Qed.

  Lemma id_auto_const : const_list a (map b_log2 auto).
  Proof. apply const_map_log2. intros b Hb. destruct (id_auto_in b Hb) as [H1 H2]. apply (id_auto _ _ _ _ Hid b H1 H2). Qed.

  Lemma id_chrx_const : const_list (a + x_offset female hap) (map b_log2 chrx).
  Proof. apply const_map_log2. intros b Hb. destruct (id_chrx_in b Hb) as [H1 H2]. apply (id_x _ _ _ _ Hid b H1 H2). Qed.

  Lemma id_ok_auto use : ok_weights (map b_log2 auto) (opt_weights use auto).
  Proof. apply (opt_weights_ok use auto t); [intros b Hb; apply (id_auto_in b Hb)|exact (id_w _ _ _ _ Hid)]. Qed.
  Lemma id_ok_chrx use : ok_weights (map b_log2 chrx) (opt_weights use chrx).
  Proof. apply (opt_weights_ok use chrx t); [intros b Hb; apply (id_chrx_in b Hb)|exact (id_w _ _ _ _ Hid)]. Qed.
  Lemma id_ok_chry use : ok_weights (map b_log2 chry) (opt_weights use chry).
  Proof. apply (opt_weights_ok use chry t); [intros b Hb; apply (id_chry_in b Hb)|exact (id_w _ _ _ _ Hid)]. Qed.

  (* chrX: 1/floor for a male sample, 0 for a female sample *)
  Lemma id_x_lr_male : female = false -> x_lr_of gstat hap None t == 1 / lr_denominator_floor.
  Proof.
    intros Hf. unfold x_lr_of. fold chrx. fold auto.
    rewrite (male_lr_male gstat a (a + x_offset female hap) _ _ _ _ _ _
               (map_nonnil _ _ id_auto_nonnil) (map_nonnil _ _ id_chrx_nonnil) id_auto_const id_chrx_const
               (id_ok_auto _) (id_ok_chrx _)).
    - subst female. unfold x_offset. destruct hap; cbn [andb negb x_shifts fst snd].
      + setoid_replace (a - (a + 0 + x_shift_female_hapref)) with (1 # 1) by (unfold x_shift_female_hapref; ring).
        reflexivity.
      + setoid_replace (a - (a + -1 + x_shift_female_dipref)) with (1 # 1) by (unfold x_shift_female_dipref; ring).
        reflexivity.
    - subst female. unfold x_offset. destruct hap; cbn [andb negb x_shifts fst snd].
      + unfold x_shift_male_hapref. ring.
      + unfold x_shift_male_dipref. ring.
  Qed.

  Lemma id_x_lr_female : female = true -> x_lr_of gstat hap None t == 0.
  Proof.
    intros Hf. unfold x_lr_of. fold chrx. fold auto.
    apply (male_lr_female gstat a (a + x_offset female hap) _ _ _ _ _ _
               (map_nonnil _ _ id_auto_nonnil) (map_nonnil _ _ id_chrx_nonnil) id_auto_const id_chrx_const
               (id_ok_auto _) (id_ok_chrx _)).
    subst female. unfold x_offset. destruct hap; cbn [andb negb x_shifts fst snd].
    - unfold x_shift_female_hapref. ring.
    - unfold x_shift_female_dipref. ring.
  Qed.

  (* chrY of a male sample, when there are chrY bins: 3/floor *)
  Lemma id_y_lr_male : female = false ->
    match y_lr_of gstat None t with Some v => v == 3 / lr_denominator_floor | None => True end.
  Proof.
    intros Hf. unfold y_lr_of. fold chry. fold auto.
    destruct chry as [|by0 ry] eqn:E; [exact I|]. rewrite <- E.
    assert (Hn : chry <> []) by (rewrite E; discriminate).
    assert (Hc : const_list a (map b_log2 chry)).
    { apply const_map_log2. intros b Hb. destruct (id_chry_in b Hb) as [H1 H2]. apply (id_y _ _ _ _ Hid Hf b H1 H2). }
    rewrite (male_lr_male gstat a a _ _ _ _ _ _
               (map_nonnil _ _ id_auto_nonnil) (map_nonnil _ _ Hn) id_auto_const Hc (id_ok_auto _) (id_ok_chry _)).
    - setoid_replace (a - (a + y_shift_female)) with (- (3 # 1)) by (unfold y_shift_female; ring). reflexivity.
    - unfold y_shift_male. ring.
  Qed.

  Lemma one_lt_inv_floor : 1 < 1 / lr_denominator_floor.
  Proof. apply Qlt_shift_div_l; [apply floor_pos|]. pose proof floor_lt_one. lra. Qed.

  Lemma one_lt_3_inv_floor : 1 < 3 / lr_denominator_floor.
  Proof. apply Qlt_shift_div_l; [apply floor_pos|]. pose proof floor_lt_one. lra. Qed.

  Theorem idealised_decision : sex_decision gstat hap None t = Some (negb female).
  Proof.
    rewrite sex_decision_unfold by exact id_chrx_nonnil. f_equal.
    assert (Hcase : female = true \/ female = false) by (destruct female; auto).
    destruct Hcase as [Ef|Ef]; rewrite Ef; cbn [negb].
    - apply is_xy_of_false. pose proof (id_x_lr_female Ef) as Hx.
      destruct (y_lr_of gstat None t) as [v|]; cbn [score_of].
      + rewrite qmul_spec, Hx. lra.
      + rewrite Hx. lra.
    - apply decision_male.
      + rewrite (id_x_lr_male Ef). exact one_lt_inv_floor.
      + pose proof (id_y_lr_male Ef) as Hy. destruct (y_lr_of gstat None t) as [v|]; [|exact I].
        rewrite Hy. exact one_lt_3_inv_floor.
  Qed.

  Theorem idealised_guess_xx : guess_xx gstat hap None t = Some female.
  Proof. unfold guess_xx. rewrite idealised_decision. rewrite negb_involutive. reflexivity. Qed.

  Theorem idealised_do_sex :
    fst (do_sex_row gstat hap None t) = if female then "Female"%string else "Male"%string.
  Proof.
    pose proof idealised_decision as H. unfold sex_decision in H. unfold do_sex_row.
    destruct (compare_sex gstat hap None t) as [[is_xy st]|]; [|discriminate].
    injection H as H. rewrite H. generalize female. intros f. destruct f; reflexivity.
  Qed.
End Idealised.

Lemma idealised_all (gstat : mtable -> Q) a female hap t :
  idealised a female hap t ->
  sex_decision gstat hap None t = Some (negb female) /\
  guess_xx gstat hap None t = Some female /\
  fst (do_sex_row gstat hap None t) = (if female then "Female" else "Male")%string.
Proof.
  intros H. split; [|split].
  - exact (idealised_decision gstat a female hap t H).
  - exact (idealised_guess_xx gstat a female hap t H).
  - exact (idealised_do_sex gstat a female hap t H).
Qed.

(* ================================================================================================ *)
(* the noise-free sample with a PAR build: what counts as autosomal / chrX / chrY is what the code's filters
   select (autosomes and PAR1X / PAR2X; chrX outside them; chrY outside PAR1Y / PAR2Y) *)

Section IdealisedBuild.
  Variable gstat : mtable -> Q.       (* any G statistic whatsoever *)
  Variables (a : Q) (female hap : bool) (build : option parb) (t : list bin).
  Hypothesis Hid : idealised_build a female hap build t.

  Let chrx := filter (chr_x_filter t build) t.
  Let chry := filter (chr_y_filter t build) t.
  Let auto := autosomes t build.

  Lemma idb_auto_eq : auto = filter (auto_sel t build) t.
  Proof. unfold auto. rewrite (autosomes_some t build (idb_auto_exists _ _ _ _ _ Hid)). reflexivity. Qed.

  Lemma idb_auto_in b : In b auto -> In b t /\ auto_sel t build b = true.
  Proof. rewrite idb_auto_eq. intros H. apply filter_In in H. exact H. Qed.

  Lemma idb_auto_nonnil : auto <> [].
  Proof.
    destruct (idb_auto_exists _ _ _ _ _ Hid) as [b [Hb K]]. rewrite idb_auto_eq.
    apply (filter_nonnil _ t b Hb). unfold auto_sel, is_auto_bin. rewrite K. reflexivity.
  Qed.

  Lemma idb_chrx_in b : In b chrx -> In b t /\ chr_x_filter t build b = true.
  Proof. unfold chrx. intros H. apply filter_In in H. exact H. Qed.

  Lemma idb_chrx_nonnil : chrx <> [].
  Proof. destruct (idb_x_exists _ _ _ _ _ Hid) as [b [Hb K]]. unfold chrx. exact (filter_nonnil _ t b Hb K). Qed.

  Lemma idb_chry_in b : In b chry -> In b t /\ chr_y_filter t build b = true.
  Proof. unfold chry. intros H. apply filter_In in H. exact H. Qed.

  Lemma idb_auto_const : const_list a (map b_log2 auto).
  Proof.
    apply const_map_log2. intros b Hb. destruct (idb_auto_in b Hb) as [H1 H2]. apply (idb_auto _ _ _ _ _ Hid b H1 H2).
  Qed.

  Lemma idb_chrx_const : const_list (a + x_offset female hap) (map b_log2 chrx).
  Proof.
    apply const_map_log2. intros b Hb. destruct (idb_chrx_in b Hb) as [H1 H2]. apply (idb_x _ _ _ _ _ Hid b H1 H2).
  Qed.

  Lemma idb_ok_auto use : ok_weights (map b_log2 auto) (opt_weights use auto).
  Proof. apply (opt_weights_ok use auto t); [intros b Hb; apply (idb_auto_in b Hb)|exact (idb_w _ _ _ _ _ Hid)]. Qed.
  Lemma idb_ok_chrx use : ok_weights (map b_log2 chrx) (opt_weights use chrx).
  Proof. apply (opt_weights_ok use chrx t); [intros b Hb; apply (idb_chrx_in b Hb)|exact (idb_w _ _ _ _ _ Hid)]. Qed.
  Lemma idb_ok_chry use : ok_weights (map b_log2 chry) (opt_weights use chry).
  Proof. apply (opt_weights_ok use chry t); [intros b Hb; apply (idb_chry_in b Hb)|exact (idb_w _ _ _ _ _ Hid)]. Qed.

  Lemma idb_x_lr_male : female = false -> x_lr_of gstat hap build t == 1 / lr_denominator_floor.
  Proof.
    intros Hf. unfold x_lr_of. fold chrx. fold auto.
    rewrite (male_lr_male gstat a (a + x_offset female hap) _ _ _ _ _ _
               (map_nonnil _ _ idb_auto_nonnil) (map_nonnil _ _ idb_chrx_nonnil) idb_auto_const idb_chrx_const
               (idb_ok_auto _) (idb_ok_chrx _)).
    - subst female. unfold x_offset. destruct hap; cbn [andb negb x_shifts fst snd].
      + setoid_replace (a - (a + 0 + x_shift_female_hapref)) with (1 # 1) by (unfold x_shift_female_hapref; ring).
        reflexivity.
      + setoid_replace (a - (a + -1 + x_shift_female_dipref)) with (1 # 1) by (unfold x_shift_female_dipref; ring).
        reflexivity.
    - subst female. unfold x_offset. destruct hap; cbn [andb negb x_shifts fst snd].
      + unfold x_shift_male_hapref. ring.
      + unfold x_shift_male_dipref. ring.
  Qed.

  Lemma idb_x_lr_female : female = true -> x_lr_of gstat hap build t == 0.
  Proof.
    intros Hf. unfold x_lr_of. fold chrx. fold auto.
    apply (male_lr_female gstat a (a + x_offset female hap) _ _ _ _ _ _
               (map_nonnil _ _ idb_auto_nonnil) (map_nonnil _ _ idb_chrx_nonnil) idb_auto_const idb_chrx_const
               (idb_ok_auto _) (idb_ok_chrx _)).
    subst female. unfold x_offset. destruct hap; cbn [andb negb x_shifts fst snd].
    - unfold x_shift_female_hapref. ring.
    - unfold x_shift_female_dipref. ring.
  Qed.

  Lemma idb_y_lr_male : female = false ->
    match y_lr_of gstat build t with Some v => v == 3 / lr_denominator_floor | None => True end.
  Proof.
    intros Hf. unfold y_lr_of. fold chry. fold auto.
    destruct chry as [|by0 ry] eqn:E; [exact I|]. rewrite <- E.
    assert (Hn : chry <> []) by (rewrite E; discriminate).
    assert (Hc : const_list a (map b_log2 chry)).
    { apply const_map_log2. intros b Hb. destruct (idb_chry_in b Hb) as [H1 H2]. apply (idb_y _ _ _ _ _ Hid Hf b H1 H2). }
    rewrite (male_lr_male gstat a a _ _ _ _ _ _
               (map_nonnil _ _ idb_auto_nonnil) (map_nonnil _ _ Hn) idb_auto_const Hc (idb_ok_auto _) (idb_ok_chry _)).
    - setoid_replace (a - (a + y_shift_female)) with (- (3 # 1)) by (unfold y_shift_female; ring). reflexivity.
    - unfold y_shift_male. ring.
  Qed.

  Theorem idealised_build_decision : sex_decision gstat hap build t = Some (negb female).
  Proof.
    rewrite sex_decision_unfold by exact idb_chrx_nonnil. f_equal.
    assert (Hcase : female = true \/ female = false) by (destruct female; auto).
    destruct Hcase as [Ef|Ef]; rewrite Ef; cbn [negb].
    - apply is_xy_of_false. pose proof (idb_x_lr_female Ef) as Hx.
      destruct (y_lr_of gstat build t) as [v|]; cbn [score_of].
      + rewrite qmul_spec, Hx. lra.
      + rewrite Hx. lra.
    - apply decision_male.
      + rewrite (idb_x_lr_male Ef). apply Qlt_shift_div_l; [apply floor_pos|]. pose proof floor_lt_one. lra.
      + pose proof (idb_y_lr_male Ef) as Hy. destruct (y_lr_of gstat build t) as [v|]; [|exact I].
        rewrite Hy. apply Qlt_shift_div_l; [apply floor_pos|]. pose proof floor_lt_one. lra.
  Qed.

  Theorem idealised_build_guess_xx : guess_xx gstat hap build t = Some female.
  Proof. unfold guess_xx. rewrite idealised_build_decision. rewrite negb_involutive. reflexivity. Qed.

  Theorem idealised_build_do_sex :
    fst (do_sex_row gstat hap build t) = if female then "Female"%string else "Male"%string.
  Proof.
    pose proof idealised_build_decision as H. unfold sex_decision in H. unfold do_sex_row.
    destruct (compare_sex gstat hap build t) as [[is_xy st]|]; [|discriminate].
    injection H as H. rewrite H. generalize female. intros f. destruct f; reflexivity.
  Qed.
End IdealisedBuild.

Lemma idealised_build_all (gstat : mtable -> Q) a female hap build t :
  idealised_build a female hap build t ->
  sex_decision gstat hap build t = Some (negb female) /\
  guess_xx gstat hap build t = Some female /\
  fst (do_sex_row gstat hap build t) = (if female then "Female" else "Male")%string.
Proof.
  intros H. split; [|split].
  - exact (idealised_build_decision gstat a female hap build t H).
  - exact (idealised_build_guess_xx gstat a female hap build t H).
  - exact (idealised_build_do_sex gstat a female hap build t H).
Qed.

(* without a build the two notions of a noise-free sample coincide *)
Lemma idealised_is_build a female hap t : idealised a female hap t -> idealised_build a female hap None t.
Proof.
  intros H. constructor.
  - exact (id_auto_exists _ _ _ _ H).
  - destruct (id_x_exists _ _ _ _ H) as [b [Hb K]]. exists b. split; [exact Hb|].
    unfold chr_x_filter. rewrite K, String.eqb_refl. reflexivity.
  - intros b Hb Hs. apply (id_auto _ _ _ _ H b Hb). unfold auto_sel, is_auto_bin in Hs.
    rewrite orb_false_r in Hs. exact Hs.
  - intros b Hb Hs. apply (id_x _ _ _ _ H b Hb). unfold chr_x_filter in Hs. rewrite andb_true_r in Hs.
    now apply String.eqb_eq.
  - intros Hf b Hb Hs. apply (id_y _ _ _ _ H Hf b Hb). unfold chr_y_filter in Hs. rewrite andb_true_r in Hs.
    now apply String.eqb_eq.
  - exact (id_w _ _ _ _ H).
Qed.

(* ================================================================================================ *)
(* the `sex` report: one row per input table, in the order given *)

Lemma do_sex_table_length gstat hap build inputs : length (do_sex_table gstat hap build inputs) = length inputs.
Proof. unfold do_sex_table. apply map_length. Qed.

Theorem do_sex_table_row gstat hap build inputs i name t :
  nth_error inputs i = Some (name, t) ->
  exists label ratios,
    nth_error (do_sex_table gstat hap build inputs) i = Some (name, (label, ratios)) /\
    (* the sex column: "Male" exactly when compare_sex_chromosomes says is_xy; no decision (empty table, no chrX)
       prints "Female" *)
    label = (match sex_decision gstat hap build t with Some true => "Male" | _ => "Female" end)%string /\
    (* the two ratio columns: "NA" exactly when there is no decision; otherwise the weighted (if weights) mean of chrX
       minus that of the autosomes, and the same for chrY -- NaN (inner None) when chrY has no bin *)
    match compare_sex gstat hap build t with
    | None => ratios = None
    | Some (_, st) =>
        ratios = Some (s_x_ratio st, s_y_ratio st) /\
        let use := has_weight t in
        let mean l := match segment_mean use l with Some m => m | None => 0 end in
        s_x_ratio st = qsub (mean (filter (chr_x_filter t build) t)) (mean (autosomes t build)) /\
        s_y_ratio st = match filter (chr_y_filter t build) t with
                       | [] => None
                       | chry => Some (qsub (mean chry) (mean (autosomes t build)))
                       end
    end.
Proof.
  intros Hn. unfold do_sex_table. rewrite nth_error_map, Hn. cbn [option_map fst snd].
  unfold do_sex_row, sex_decision.
  destruct (compare_sex gstat hap build t) as [[is_xy st]|] eqn:E.
  - eexists _, _. split; [reflexivity|]. split; [destruct is_xy; reflexivity|]. split; [reflexivity|].
    unfold compare_sex in E.
    remember (filter (chr_x_filter t build) t) as chrx eqn:Hx.
    remember (filter (chr_y_filter t build) t) as chry eqn:Hy.
    remember (autosomes t build) as auto eqn:Ha.
    remember (has_weight t) as use eqn:Hu.
    clear Hx Hy Ha Hu Hn.
    destruct t as [|b0 t0]; [discriminate|].
    destruct chrx as [|bx rx]; [discriminate|].
    destruct (x_shifts hap) as [fx mx]. injection E as _ <-. cbn [s_x_ratio s_y_ratio]. cbv zeta.
    split; [reflexivity|].
    destruct chry as [|by0 ry]; [reflexivity|].
    unfold segment_mean at 1 3. cbv zeta.
    destruct (use && existsb (fun x => negb (qeq_b x 0)) (weights_of (by0 :: ry))); reflexivity.
  - eexists _, _. split; [reflexivity|]. split; reflexivity.
Qed.

(* the sign prefix of the printed ratios: "+" exactly for a positive number *)
Lemma strsign_plus_spec q : strsign_plus q = true <-> 0 < q.
Proof. unfold strsign_plus. apply qlt_b_iff. Qed.

Lemma do_sex_header_lit : do_sex_header = ["sample"; "sex"; "X_logratio"; "Y_logratio"]%string.
Proof. reflexivity. Qed.
