(* C13 source tie of the FASTA scanner: ONE ITERATION of get_regions' `for line in infile:` loop is
   regenerated from the Python source on every run as Gen/FnAccessScan.v (fn_scan_step: the carried
   chrom / cursor / run_start after the iteration and the regions it yields).  Translated: the header
   branch (emit the open run, new name, cursor 0, no run), the blank-line `continue`, the all-N
   shortcut, the N-free line, the cursor advance.  The mixed line's array code (np.where / np.diff /
   the inner loop over the short blocks) is an opaque range of the translation whose declared effect
   -- the regions it yields, the run_start it leaves -- is supplied here by Model/Access.v.
   Here: for every line the generated step IS the model's scan_line (sequence lines) resp. the
   record boundary of regions_of_record (header lines). *)
From CNV Require Import Base.Prelude Base.Str Gen.FnAccessScan Model.Access.

Local Open Scope Z_scope.

Section Scan.
Context {A : Type} (isN : A -> bool).
Variable chrom : string.

Definition tag3 (l : list (Z * Z)) : list (string * Z * Z) := map (fun p => (chrom, fst p, snd p)) l.

(* what the opaque range does on a mixed line, read off Model/Access.v scan_line_body *)
Definition mixed_out (cursor : Z) (run_start : option Z) (line : list A) : list (Z * Z) :=
  let ns := n_indices isN line 0 in
  let n0 := hd 0 ns in
  (match run_start with
   | Some s => [(s, cursor + n0)]
   | None => if n0 =? 0 then [] else [(cursor, cursor + n0)]
   end) ++ gaps cursor ns.

Definition mixed_rs (cursor : Z) (line : list A) : option Z :=
  let ns := n_indices isN line 0 in
  let nl := last ns 0 in
  if nl + 1 <? Z.of_nat (length line) then Some (cursor + nl + 1) else None.

Definition is_nil {B} (l : list B) : bool := match l with [] => true | _ => false end.

(* the step on a sequence line: the Python tests on the stripped line are the model's tests on its characters *)
Definition step_on_line (cursor : Z) (run_start : option Z) (header_name stripped : string) (line : list A) :=
  fn_scan_step chrom cursor run_start false header_name stripped
               (is_nil line) (existsb isN line) (forallb isN line) (Z.of_nat (length line))
               (tag3 (mixed_out cursor run_start line)) (mixed_rs cursor line).

Lemma source_scan_line cursor run_start hn stripped line :
  step_on_line cursor run_start hn stripped line
  = let '(out, (cursor', rs')) := scan_line isN (cursor, run_start) line in
    (chrom, cursor', rs', tag3 out).
Proof.
  unfold step_on_line, fn_scan_step, scan_line.
  destruct line as [|c t]; [reflexivity|].
  cbn [is_nil]. unfold scan_line_body.
  destruct (existsb isN (c :: t)) eqn:En.
  - destruct (forallb isN (c :: t)) eqn:Ea.
    + destruct run_start as [s|]; reflexivity.
    + unfold mixed_out, mixed_rs. cbn zeta. reflexivity.
  - destruct run_start as [s|]; reflexivity.
Qed.

(* the step on a header line: the open run is emitted up to the cursor, the record state is reset *)
Lemma source_scan_header cursor run_start hn stripped b1 b2 b3 len my mrs :
  fn_scan_step chrom cursor run_start true hn stripped b1 b2 b3 len my mrs
  = (hn, 0, None, tag3 (emit_open run_start cursor)).
Proof. unfold fn_scan_step. destruct run_start; reflexivity. Qed.

(* the loop over the sequence lines of one record *)
Fixpoint gen_scan (cursor : Z) (run_start : option Z) (lines : list (list A))
  : list (string * Z * Z) * (Z * option Z) :=
  match lines with
  | [] => ([], (cursor, run_start))
  | l :: t =>
      let '(_, c1, r1, ys) := step_on_line cursor run_start EmptyString EmptyString l in
      let '(ys2, st2) := gen_scan c1 r1 t in
      (ys ++ ys2, st2)
  end.

Lemma source_scan_lines lines : forall cursor run_start,
  gen_scan cursor run_start lines
  = let '(out, st) := scan_lines isN (cursor, run_start) lines in (tag3 out, st).
Proof.
  induction lines as [|l t IH]; intros cursor run_start; [reflexivity|].
  cbn [gen_scan scan_lines]. rewrite source_scan_line.
  destruct (scan_line isN (cursor, run_start) l) as [out1 [c1 r1]].
  rewrite IH. destruct (scan_lines isN (c1, r1) t) as [out2 st2].
  unfold tag3. rewrite map_app. reflexivity.
Qed.

End Scan.

Example source_scan_ex :
  step_on_line isN_ascii "chr1" 10 None "" "" (chars "NNACNG")
  = ("chr1"%string, 16, Some 15, [("chr1"%string, 12, 14)]).
Proof. vm_compute. reflexivity. Qed.
