(* read_auto on a written file: the detected format is the writer's and the
   parser it selects returns the same table as the format's own reader
   (non-empty tables; names of word characters). *)
From CNV Require Import Base.Prelude Base.Str Model.Decimal Model.Chromsort Model.Sniff Model.Formats.
From CNV Require Import Proofs.ChromsortLemmas Proofs.FormatsLemmas Proofs.FormatsText Proofs.FormatsSniff.
From CNV Require Import Gen.Formats.

Definition sniff_row_ok (r : row) : bool :=
  let '(c, s, e) := fst r in sniff_name_ok c && (0 <=? s) && (0 <=? e).

Lemma sniff_row_ok_parts r :
  sniff_row_ok r = true ->
  sniff_name_ok (fst (fst (fst r))) = true /\ 0 <= snd (fst (fst r)) /\ 0 <= snd (fst r).
Proof.
  destruct r as [[[c s] e] ex]. unfold sniff_row_ok. cbn. intros H.
  apply andb_true_iff in H. destruct H as [H He]. apply andb_true_iff in H. destruct H as [Hc Hs].
  apply Z.leb_le in Hs, He. auto.
Qed.

Lemma sniff_lines_first f rest name :
  sniff_line None f = Fmt name -> sniff_lines None (f :: rest) = Some (Fmt name).
Proof. intros H. cbn [sniff_lines]. now rewrite H. Qed.

(* read_bed on written BED lines keeps the defaults for the columns not written *)
Lemma read_bed_bed3 (t : list row) :
  Forall (fun r => bed_name_ok (fst (fst (fst r))) = true) t ->
  read_bed (write_bed3 t)
  = Some (sort_rows (map (fun r => (fst r, [bed_default_gene; bed_default_strand])) t)).
Proof.
  intros H. unfold read_bed, write_bed3.
  rewrite bed_body_id by (apply bed_lines_ok; auto; intros [[[c s] e] ex]; reflexivity).
  rewrite (all_some_map_map bed3_line read_bed_line
             (fun r : row => (fst r, [bed_default_gene; bed_default_strand]))); [reflexivity|].
  intros [[[c s] e] ex] _. cbn. rewrite !parse_print. now rewrite off_bed3_zero.
Qed.

Lemma read_bed_bed4 (t : list row) :
  Forall (fun r => bed_name_ok (fst (fst (fst r))) = true) t ->
  Forall (fun r => bed_gene_ok r = true) t ->
  read_bed (write_bed4 t)
  = Some (sort_rows (map (fun r => (fst r, [nth 0 (snd r) bed_default_gene; bed_default_strand])) t)).
Proof.
  intros H HG. unfold read_bed, write_bed4.
  rewrite bed_body_id by (apply bed_lines_ok; auto; intros [[[c s] e] ex]; reflexivity).
  rewrite (all_some_map_map bed4_line read_bed_line
             (fun r : row => (fst r, [nth 0 (snd r) bed_default_gene; bed_default_strand]))); [reflexivity|].
  intros [[[c s] e] ex] Hin. rewrite Forall_forall in HG. specialize (HG _ Hin).
  unfold bed_gene_ok in HG. apply String.eqb_eq in HG. cbn [snd] in HG.
  unfold bed4_line, read_bed_line. cbn [coord_fields fst snd app nth]. rewrite !parse_print.
  rewrite HG. now rewrite off_bed4_zero.
Qed.

Lemma name_ok_bed c : sniff_name_ok c = true -> bed_name_ok c = true.
Proof. unfold sniff_name_ok. intros H. apply andb_true_iff in H. tauto. Qed.

Lemma auto_bed3 r t :
  sniff_row_ok r = true ->
  Forall (fun r => bed_name_ok (fst (fst (fst r))) = true) (r :: t) ->
  sniff_lines None (write_bed3 (r :: t)) = Some (Fmt "bed") /\
  read_auto None (write_bed3 (r :: t))
  = AutoRows "bed" (sort_rows (map (fun r => (fst r, [bed_default_gene; bed_default_strand])) (r :: t))).
Proof.
  intros Hr H. apply sniff_row_ok_parts in Hr. destruct Hr as (Hc & Hs & He).
  assert (S : sniff_lines None (write_bed3 (r :: t)) = Some (Fmt "bed")).
  { unfold write_bed3. cbn [map]. apply sniff_lines_first.
    pose proof (sniff_bed3 r) as L. destruct r as [[[c s] e] ex]. cbn [fst snd] in *. auto. }
  split; [exact S|]. unfold read_auto. rewrite S. cbn [String.eqb Ascii.eqb Bool.eqb].
  now rewrite read_bed_bed3.
Qed.

Lemma auto_bed4 r t :
  sniff_row_ok r = true ->
  Forall (fun r => bed_name_ok (fst (fst (fst r))) = true) (r :: t) ->
  Forall (fun r => bed_gene_ok r = true) (r :: t) ->
  sniff_lines None (write_bed4 (r :: t)) = Some (Fmt "bed") /\
  read_auto None (write_bed4 (r :: t))
  = AutoRows "bed" (sort_rows (map (fun r => (fst r, [nth 0 (snd r) bed_default_gene; bed_default_strand])) (r :: t))).
Proof.
  intros Hr H HG. apply sniff_row_ok_parts in Hr. destruct Hr as (Hc & Hs & He).
  assert (S : sniff_lines None (write_bed4 (r :: t)) = Some (Fmt "bed")).
  { unfold write_bed4. cbn [map]. apply sniff_lines_first.
    pose proof (sniff_bed4 r) as L. destruct r as [[[c s] e] ex]. cbn [fst snd] in *. auto. }
  split; [exact S|]. unfold read_auto. rewrite S. cbn [String.eqb Ascii.eqb Bool.eqb].
  now rewrite read_bed_bed4.
Qed.

Lemma auto_interval r t :
  sniff_row_ok r = true ->
  all_in is_nonspace (interval_gene r) = true -> one_of ".+-" (interval_strand r) = true ->
  Forall (fun r => interval_row_ok r = true) (r :: t) ->
  sniff_lines None (write_interval (r :: t)) = Some (Fmt "interval") /\
  read_auto None (write_interval (r :: t))
  = AutoRows "interval" (sort_rows (map (fun r => (fst r, [interval_gene r; interval_strand r])) (r :: t))).
Proof.
  intros Hr Hg Hst H. apply sniff_row_ok_parts in Hr. destruct Hr as (Hc & Hs & He).
  assert (S : sniff_lines None (write_interval (r :: t)) = Some (Fmt "interval")).
  { unfold write_interval. cbn [map]. apply sniff_lines_first.
    pose proof (sniff_interval r) as L. destruct r as [[[c s] e] ex]. cbn [fst snd] in *. auto. }
  split; [exact S|]. unfold read_auto. rewrite S. cbn [String.eqb Ascii.eqb Bool.eqb].
  now rewrite roundtrip_interval.
Qed.

Lemma auto_text r t :
  sniff_row_ok r = true ->
  Forall (fun r => text_row_ok r = true) (r :: t) ->
  sniff_lines None (write_text (r :: t)) = Some (Fmt "text") /\
  read_auto None (write_text (r :: t))
  = AutoRows "text" (sort_rows (map (fun r => (fst r, [text_default_gene])) (r :: t))).
Proof.
  intros Hr H. apply sniff_row_ok_parts in Hr. destruct Hr as (Hc & Hs & He).
  assert (S : sniff_lines None (write_text (r :: t)) = Some (Fmt "text")).
  { unfold write_text. cbn [map]. apply sniff_lines_first.
    pose proof (sniff_text r) as L. destruct r as [[[c s] e] ex]. cbn [fst snd] in *. auto. }
  split; [exact S|]. unfold read_auto. rewrite S. cbn [String.eqb Ascii.eqb Bool.eqb].
  now rewrite roundtrip_text.
Qed.

Lemma auto_tab h t :
  all_in is_digit (fld 0 h) = false ->
  Forall (fun r => length (snd r) = length h) t ->
  sniff_lines None (write_tab h t) = Some (Fmt "tab") /\
  read_auto None (write_tab h t) = AutoTab h (sort_rows t).
Proof.
  intros Hh H.
  assert (S : sniff_lines None (write_tab h t) = Some (Fmt "tab")).
  { unfold write_tab. apply sniff_lines_first. now apply sniff_tab_header. }
  split; [exact S|]. unfold read_auto. rewrite S. cbn [String.eqb Ascii.eqb Bool.eqb].
  now rewrite roundtrip_tab.
Qed.

(* GFF and VCF files announce themselves *)
Lemma sniff_headers :
  sniff_line None ["##gff-version 3"]%string = Fmt "gff" /\
  sniff_line None ["chr1"; "src"; "exon"; "11"; "100"; "."; "+"; "."; "ID=x"]%string = Fmt "gff" /\
  sniff_line None ["##fileformat=VCFv4.2"]%string = Fmt "vcf" /\
  sniff_line None ["#CHROM"; "POS"; "ID"; "REF"; "ALT"; "QUAL"; "FILTER"; "INFO"]%string = Fmt "vcf" /\
  sniff_line None ["# comment"]%string = Skip /\ sniff_line None ["track name=x"]%string = Skip /\
  sniff_line None ["@HD"; "VN:1.4"]%string = Fmt "interval".
Proof. repeat split; vm_compute; reflexivity. Qed.
