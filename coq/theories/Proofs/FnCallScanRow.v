(* C02 source tie of absolute_threshold's OUTER loop: ONE ITERATION of `for idx, row in enumerate(cnarr):`
   is regenerated from the Python source on every run (Gen/FnCallScanRow.v fn_threshold_row: the value
   stored at absolutes[idx]).  Translated: the reference copies of the row, the NaN fallback
   (absolutes[idx] = ref_copies; continue), the store of the scanned number; the inner for/else scan is an
   opaque range of this translation (Gen/FnCallScan.v + Proofs/FnCallScan.v tie its iteration, its else
   clause and the folding).  Here: with the scan's result supplied by the model, the row IS
   Model/Threshold.v scan_row, for every row, threshold list and ploidy. *)
From CNV Require Import Base.Prelude Base.Str Base.QNum Gen.CallDefaults Gen.FnCall Gen.FnCallScanRow
  Model.Call Model.Threshold Proofs.FnCall.

Local Open Scope Z_scope.

Lemma scanrow_ref_pure chrom k hapx : fn_scanrow_ref_pure chrom k hapx = ref_pure chrom k hapx.
Proof. rewrite <- fn_ref_pure_eq. reflexivity. Qed.

Lemma source_scan_row fdiv idx chrom (v : option Q) e ts k hapx :
  let r := ref_pure chrom k hapx in
  fn_threshold_row idx chrom v k hapx
    (match v with Some q => scan_loop fdiv q e k r (enumerate_from 0 ts) | None => 0 end)
  = scan_row fdiv v e ts k r.
Proof.
  cbn zeta. unfold fn_threshold_row, scan_row. rewrite scanrow_ref_pure.
  destruct v; reflexivity.
Qed.
