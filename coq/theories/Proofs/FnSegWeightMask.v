(* C03 source tie of _do_segmentation's weight rule, read per row:

       if min_weight:
           weight_too_low = (filtered_cn["weight"] < min_weight) | filtered_cn["weight"].isna()
       else:
           weight_too_low = (filtered_cn["weight"] == 0) | filtered_cn["weight"].isna()

   is regenerated from the Python source on every run as Gen/FnSegWeightMask.v (fn_weight_too_low: the mask
   bit of one bin, as a function of min_weight and the bin's weight, NaN = None).  Here: it IS the model's
   `weight_too_low` (Model/Segment.v), hence the third factor of `survives`. *)
From CNV Require Import Base.Prelude Base.Str Base.QNum Gen.FnSegWeightMask Model.Segment Proofs.FnSegTransfer.

Local Open Scope Q_scope.

Lemma source_weight_mask (min_weight : Q) (b : bin) :
  fn_weight_too_low min_weight (b_weight b) = weight_too_low min_weight b.
Proof.
  unfold fn_weight_too_low, weight_too_low.
  destruct (b_weight b) as [w|]; cbn [negb orb].
  - rewrite Qltb_negb_le. change (inject_Z 0) with 0.
    destruct (Qeq_bool min_weight 0); cbn [negb]; rewrite orb_false_r; reflexivity.
  - destruct (Qeq_bool min_weight 0); reflexivity.
Qed.

(* a bin survives the filters iff it is not low coverage (when asked), not an outlier, and the generated
   weight mask bit is off *)
Lemma source_weight_survives skip_low (min_weight : Q) outlier (b : bin) :
  survives skip_low min_weight outlier b
  = negb (skip_low && low_coverage b) && negb outlier && negb (fn_weight_too_low min_weight (b_weight b)).
Proof. unfold survives. rewrite source_weight_mask. reflexivity. Qed.

(* NaN weights are always masked; with min_weight = 0 exactly the zero weights are *)
Lemma source_weight_mask_nan min_weight : fn_weight_too_low min_weight None = true.
Proof. unfold fn_weight_too_low. destruct (Qeq_bool min_weight 0); reflexivity. Qed.
