(* C12 loop tie of target.shorten_labels: ONE ITERATION of

       for label in gene_labels:
           next_names = set(label.rstrip().split(","))
           assert len(next_names)
           overlap = curr_names.intersection(next_names)
           if overlap:
               curr_names = filter_names(overlap)
               curr_gene_count += 1
           else:
               for _i in range(curr_gene_count):          <- opaque range: its yields and the
                   out_name = shortest_name(curr_names)      longest_name_len it leaves are inputs
                   yield out_name
                   longest_name_len = max(longest_name_len, len(out_name))
               curr_gene_count = 1
               curr_names = next_names

   regenerated from the Python source on every run as Gen/FnTargetShorten.v (fn_shorten_step: the carried
   curr_names, curr_gene_count, longest_name_len after the iteration and the names it yields; sets of
   names are lists of their elements, set algebra is an opaque input).  Here: Model/Target.v
   shorten_go_pick IS the generated step folded over the labels -- with next_names = names_of label,
   overlap = inter curr next, filter_names(overlap) = the model's filter_names, and the emission range
   yielding curr_gene_count times shortest_name(curr_names) -- followed by the final emission.
   longest_name_len only feeds a log line: any value may be passed for it. *)
From CNV Require Import Base.Prelude Base.Str Model.Target.
From CNV Require Gen.FnTargetShorten.

Local Open Scope Z_scope.

Lemma source_shorten_step (curr : list string) (count len0 : Z) (next ov filtered emitted : list string) (len1 : Z) :
  FnTargetShorten.fn_shorten_step curr count len0 next ov filtered emitted len1 =
  match ov with
  | [] => (next, 1, len1, emitted)
  | _ => (filtered, count + 1, len0, [])
  end.
Proof. unfold FnTargetShorten.fn_shorten_step. destruct ov; reflexivity. Qed.

Section Shorten.
Variable pick : list string -> string.

(* Python's generator over the generated step; the emission after the loop closes it *)
Fixpoint src_shorten (curr : list string) (count : nat) (len0 : Z) (labels : list string) : list string :=
  match labels with
  | [] => repeat (shortest_name_pick pick curr) count
  | l :: rest =>
      let next := names_of l in
      let ov := inter curr next in
      let '(curr', count', len', ys) :=
        FnTargetShorten.fn_shorten_step curr (Z.of_nat count) len0 next ov (filter_names ov)
          (repeat (shortest_name_pick pick curr) count) len0 in
      ys ++ src_shorten curr' (Z.to_nat count') len' rest
  end.

Theorem source_shorten_go (labels : list string) : forall curr count len0,
  src_shorten curr count len0 labels = shorten_go_pick pick curr count labels.
Proof.
  induction labels as [|l rest IH]; intros curr count len0; [reflexivity|].
  cbn [src_shorten shorten_go_pick]. cbv zeta. rewrite source_shorten_step.
  destruct (inter curr (names_of l)) as [|x ov].
  - change (Z.to_nat 1) with 1%nat. rewrite IH. reflexivity.
  - replace (Z.to_nat (Z.of_nat count + 1)) with (S count) by lia.
    cbn [app]. apply IH.
Qed.

Theorem source_shorten_labels (labels : list string) (len0 : Z) :
  src_shorten [] 0 len0 labels = shorten_labels_pick pick labels.
Proof. apply source_shorten_go. Qed.

End Shorten.
