(* C12: the upper size bound of the antitarget bins without the restriction avg >= 4.

   A stretch of span s cut into n = max 1 (round_half_even (s / avg)) bins whose cut points
   are only known to lie within one base below the exact ones (cut_contract):
     n = 1  : the bin is the stretch, s <= 3/2 avg  (s / avg <= 3/2, the tie rounds to 2);
     n >= 2 : size <= s / n + 1 <= (1 + 1/(2n)) avg + 1 <= 5/4 avg + 1.
   Hence size <= 3/2 avg whenever avg >= 4 (Proofs/TargetSplit.v), and for every INTEGER
   avg >= 2; for avg = 1 when cuts of evenly dividing stretches are exact
   (cut_contract_exact); and it is FALSE for small non-integer averages: avg = 6/5, a stretch
   of 3 bases gives bins of 1 and 2 bases, 2 > 9/5. *)
From CNV Require Import Base.Prelude Base.Str Model.IvRow Model.IvCombine Model.Intervals
  Model.Access Model.Target Model.Antitarget Spec.Cover Spec.Bins.
From CNV Require Import Proofs.IvCover Proofs.IvMerge Proofs.IvSubdivide Proofs.TargetLib Proofs.TargetSplit
  Proofs.Antitarget Proofs.AntitargetContigs Proofs.Target Proofs.TargetProps.
From CNV Require Gen.IvDefaults Gen.BinsDefaults.

(* ---- one region ------------------------------------------------------------------------ *)

Lemma equal_bins_upper {A} (avg : Q) s e n (p : A) out b :
  0 < Qnum avg -> s < e -> is_nbins (e - s) avg n -> equal_bins s e n p out -> In b out ->
  (2 * (hi b - lo b) * Zpos (Qden avg) <= 3 * Qnum avg \/
   4 * (hi b - lo b) * Zpos (Qden avg) <= 5 * Qnum avg + 4 * Zpos (Qden avg)) /\
  (Zpos (Qden avg) = 1 -> 2 <= Qnum avg -> 2 * (hi b - lo b) <= 3 * Qnum avg).
Proof.
  intros Ha Hse (k & (Hk1 & _) & Hn) (Hlen & Htiles & Hsz) Hb.
  set (d := Zpos (Qden avg)) in *. set (a := Qnum avg) in *. assert (Hd : 0 < d) by (unfold d; lia).
  rewrite Forall_forall in Hsz. destruct (Hsz b Hb) as [_ [Hlow Hup]].
  set (sz := hi b - lo b) in *. set (span := e - s) in *.
  destruct (Z.eq_dec n 1) as [En|En].
  - assert (Esz : sz = span).
    { destruct out as [|b0 out']; [destruct Hb|]. destruct out' as [|b1 out'']; [|cbn in Hlen; lia].
      destruct Hb as [<-|[]]. cbn [tiles] in Htiles. unfold sz, span. lia. }
    assert (Hk : k <= 1) by lia.
    assert (Hb2 : 2 * (span * d - k * a) <= a) by lia.
    assert (H3 : 2 * span * d <= 3 * a) by nia.
    split; [left; rewrite Esz; exact H3|]. intros Ed _. rewrite Esz. rewrite Ed in H3. lia.
  - assert (Hn2 : 2 <= n) by lia. assert (Ek : k = n) by lia. subst k.
    assert (H2 : 2 * (span * d - n * a) <= a) by lia.
    split.
    + right. apply (Z.mul_le_mono_pos_r _ _ n); [lia|].
      assert (E1 : 4 * d * (n * sz) <= 4 * d * (span + n)) by nia.
      assert (E2 : 2 * a <= n * a) by nia.
      nia.
    + intros Ed Ha2. rewrite Ed in *.
      assert (E1 : 2 * (n * sz) <= 2 * span + 2 * n) by lia.
      assert (E2 : 2 * span <= 2 * n * a + a) by lia.
      destruct (Z_le_gt_dec (2 * sz) (3 * a)) as [Hok|Hbad]; [exact Hok|exfalso].
      assert (E3 : n * (3 * a + 1) <= n * (2 * sz)) by nia.
      assert (E4 : (n - 1) * (a - 1) <= 1) by nia.
      assert (E5 : 1 <= (n - 1) * (a - 1)) by nia.
      assert (En2 : n = 2) by nia. assert (Ea2 : a = 2) by nia.
      subst n. rewrite Ea2 in *. lia.
Qed.

(* with exact cuts for evenly dividing regions every bin of such a region has the same size *)
Lemma bins_exact_gen {A} (cut : Z -> Z) (s0 e : Z) (p : A) (n q : Z) :
  e - s0 = n * q -> (forall i, 1 <= i < n -> cut i = i * q) ->
  forall (k : nat) (i bs : Z),
    Z.of_nat k = n - i -> 1 <= i -> bs = s0 + (i - 1) * q ->
    Forall (fun b : @row A => hi b - lo b = q) (bins_from cut s0 bs i k e p).
Proof.
  intros He Hc. induction k as [|k IH]; intros i bs Hk Hi Hbs; cbn [bins_from].
  - constructor; [|constructor]. unfold hi, lo; cbn [fst snd]. assert (i = n) by lia. subst i. nia.
  - constructor.
    + unfold hi, lo; cbn [fst snd]. rewrite (Hc i) by lia. nia.
    + apply IH; [lia | lia |]. rewrite (Hc i) by lia. nia.
Qed.

(* an integral average of 1: every bin has exactly one base *)
Lemma split_row_q_avg1 {A} (mn : Z) (cut : Z -> Z -> Z -> Z) (r b : @row A) :
  lo r < hi r -> (forall span n, cut_contract_exact span n (cut span n)) ->
  In b (split_row_q (inject_Z 1) mn cut r) -> hi b - lo b = 1.
Proof.
  intros Hr Hc. rewrite split_row_q_int. unfold split_row.
  destruct (hi r - lo r <? mn); [intros []|].
  set (span := hi r - lo r). assert (Hs : 1 <= span) by (unfold span; lia).
  assert (En : nbins 1 span = span).
  { rewrite nbins_max by lia. unfold round_div. rewrite Z.div_1_r, Z.mod_1_r. cbn. lia. }
  rewrite En. destruct (span =? 1) eqn:E1.
  - apply Z.eqb_eq in E1. intros [<-|[]]. fold span. exact E1.
  - intros Hb. destruct (Hc span span) as [_ Hex].
    assert (Hdiv : span mod span = 0) by (apply Z.mod_same; lia).
    assert (Hq : span / span = 1) by (apply Z.div_same; lia).
    pose proof (bins_exact_gen (cut span span) (lo r) (hi r) (pay r) span 1 ltac:(fold span; lia)
                  ltac:(intros i Hi; rewrite (Hex Hdiv i Hi), Hq; lia)
                  (Z.to_nat (span - 1)) 1 (lo r) ltac:(lia) ltac:(lia) ltac:(lia)) as HF.
    rewrite Forall_forall in HF. exact (HF b Hb).
Qed.

(* ---- every antitarget bin comes from one stretch --------------------------------------------- *)

Lemma anti_bin_origin (E T : list grow) avg mn cut b :
  0 < Qnum avg -> (forall span n, cut_contract span n (cut span n)) -> sorted_table T -> nonneg_table E ->
  In b (anti_rows E T avg mn cut) ->
  exists (r b0 : grow), lo r < hi r /\ In b0 (split_row_q avg mn cut r) /\ hi b - lo b = hi b0 - lo b0.
Proof.
  intros Havg Hcut HT HE Hb. remember (chrom b) as c eqn:Ec.
  assert (Hbc : In b (filter (on c) (anti_rows E T avg mn cut))) by (apply filter_on_in; auto).
  unfold anti_rows in Hbc. rewrite (out_proj E T avg mn cut c) in Hbc.
  apply in_map_iff in Hbc as [b0 [Eb Hb0]]. apply in_flat_map in Hb0 as [r [Hr Hb0]].
  destruct (merged_c_spec E T mn cut Hcut HT HE c) as (_ & _ & Hv). pose proof (valid_in _ _ Hv Hr) as Hlt.
  exists r, b0. split; [exact Hlt|]. split; [exact Hb0|]. rewrite <- Eb. reflexivity.
Qed.

Section Sizes.
Variables (T : list grow) (access : option (list grow)) (avg : Q) (mn : Z) (cut : Z -> Z -> Z -> Z)
          (E out : list grow).
Hypothesis Hpre : anti_pre T access avg cut.
Hypothesis HE : effective_access T access = Some E.
Hypothesis Hout : get_antitargets T access avg mn cut = Some out.

Let Hnum := pre_num T access avg cut Hpre.
Let Hcut := pre_cut T access avg cut Hpre.
Let Hsorted := pre_sorted T access avg cut Hpre.
Let Hnonneg := pre_nonneg T access avg cut E Hpre HE.

Lemma anti_upper_Z b : In b out ->
  (2 * (hi b - lo b) * Zpos (Qden avg) <= 3 * Qnum avg \/
   4 * (hi b - lo b) * Zpos (Qden avg) <= 5 * Qnum avg + 4 * Zpos (Qden avg)) /\
  (Zpos (Qden avg) = 1 -> 2 <= Qnum avg -> 2 * (hi b - lo b) <= 3 * Qnum avg).
Proof.
  rewrite (out_eq T access avg mn cut E out HE Hout). intros Hb.
  destruct (anti_bin_origin E T avg mn cut b Hnum Hcut Hsorted Hnonneg Hb) as (r & b0 & Hlt & Hb0 & ->).
  destruct (split_row_q_spec avg mn cut r Hnum Hlt Hcut) as (Hn & Hsmall & Hbig & _).
  destruct (Z.lt_ge_cases (hi r - lo r) mn) as [H|H]; [rewrite (Hsmall H) in Hb0; destruct Hb0|].
  exact (equal_bins_upper avg (lo r) (hi r) _ (pay r) _ b0 Hnum Hlt Hn (Hbig H) Hb0).
Qed.

(* C12_anti_sizes_upper: for every positive average *)
Lemma c12_anti_sizes_upper b : In b out ->
  ((inject_Z (hi b - lo b) <= (3 # 2) * avg)%Q \/ (inject_Z (hi b - lo b) <= (5 # 4) * avg + 1)%Q) /\
  (Qden avg = 1%positive -> (2 <= avg)%Q -> (inject_Z (hi b - lo b) <= (3 # 2) * avg)%Q).
Proof.
  intros Hb. destruct (anti_upper_Z b Hb) as [H1 H2]. split.
  - destruct H1 as [H1|H1]; [left; apply size_le_Q; exact H1|right].
    clear - H1. revert H1. generalize (hi b - lo b). intros sz H1.
    destruct avg as [a d]. unfold Qle, Qmult, Qplus, inject_Z. cbn [Qnum Qden] in *.
    rewrite ?Pos2Z.inj_mul. nia.
  - intros Ed H2a. apply size_le_Q. rewrite Ed in H2.
    assert (Ha : 2 <= Qnum avg).
    { clear - Ed H2a. unfold Qle in H2a. rewrite Ed in H2a. cbn [Qnum Qden] in H2a. lia. }
    specialize (H2 eq_refl Ha). lia.
Qed.

End Sizes.

(* avg = 1 with exact cuts of evenly dividing stretches: every bin is one base *)
Lemma c12_anti_sizes_avg1 : forall T access mn cut E out,
  anti_pre T access (inject_Z 1) cut -> (forall span n, cut_contract_exact span n (cut span n)) ->
  effective_access T access = Some E ->
  get_antitargets T access (inject_Z 1) mn cut = Some out ->
  forall b, In b out -> hi b - lo b = 1.
Proof.
  intros T access mn cut E out Hpre Hex HE Hout b Hb.
  rewrite (out_eq T access _ mn cut E out HE Hout) in Hb.
  destruct (anti_bin_origin E T _ mn cut b (pre_num T access _ cut Hpre) (pre_cut T access _ cut Hpre)
              (pre_sorted T access _ cut Hpre)
              (pre_nonneg T access _ cut E Hpre HE) Hb) as (r & b0 & Hlt & Hb0 & ->).
  exact (split_row_q_avg1 mn cut r b0 Hlt Hex Hb0).
Qed.

(* the bound 3/2 avg is false for small non-integer averages: avg = 6/5, a stretch of 3 bases
   (access chr1:0-1003, one target far away) is cut into bins of 1 and 2 bases; 2 > 9/5 *)
Lemma c12_anti_sizes_small_avg_refuted :
  exists (T acc : list grow) (avg : Q) (mn : Z) (cut : Z -> Z -> Z -> Z) (out : list grow) (b : grow),
    anti_pre T (Some acc) avg cut /\ (forall span n, cut_contract_exact span n (cut span n)) /\
    get_antitargets T (Some acc) avg mn cut = Some out /\ In b out /\
    ~ (inject_Z (hi b - lo b) <= (3 # 2) * avg)%Q.
Proof.
  exists [(5000, 5001, ("chr1", "a"))]%string, [(0, 1003, ("chr1", ""))]%string, (6 # 5), 1, floor_cut,
         [(500, 501, ("chr1", "Antitarget")); (501, 503, ("chr1", "Antitarget"))]%string,
         (501, 503, ("chr1", "Antitarget"))%string.
  split; [|split; [|split; [|split]]].
  - split; [reflexivity|]. split; [intros span n; apply floor_cut_contract|].
    split; [apply single_row_sorted|]. intros acc Hacc. injection Hacc as <-.
    constructor; [cbn; lia | constructor].
  - intros span n. split; [apply floor_cut_contract|]. intros Hdiv i _. unfold floor_cut.
    destruct (Z.eq_dec n 0) as [->|Hn]; [rewrite !Zdiv_0_r; lia|].
    apply Z.mod_divide in Hdiv; [|exact Hn]. destruct Hdiv as [q ->].
    rewrite Z.div_mul by exact Hn. replace (i * (q * n)) with (i * q * n) by ring.
    apply Z.div_mul. exact Hn.
  - vm_compute. reflexivity.
  - right; left; reflexivity.
  - unfold Qle. vm_compute. intros H. apply H. reflexivity.
Qed.
