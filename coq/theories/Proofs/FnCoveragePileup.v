(* C09 source tie of interval_coverages_pileup's per-row depth / log2 code:

       spans = table.end - table.start
       ok_idx = spans > 0
       table = table.assign(depth=0.0, log2=NULL_LOG2_COVERAGE)
       table.loc[ok_idx, "depth"] = table.loc[ok_idx, "basecount"] / spans[ok_idx]
       ok_idx = table["depth"] > 0
       table.loc[ok_idx, "log2"] = np.log2(table.loc[ok_idx, "depth"])

   is regenerated from the Python source on every run as Gen/FnCoveragePileup.v (fn_pileup_row: the row's depth and log2
   as a function of its end, start, base count and the null value; np.log2 is the logarithm oracle).  Here: the depth is
   the model's pileup_depth (Model/Coverage.v; as a number: the model reduces the fraction), exactly 0 on a zero-width or
   reversed bin, and the log2 is the model's pileup_log2 of the code's own depth. *)
From CNV Require Import Base.Prelude Base.Str Base.QNum Gen.Params Gen.CoverageDefaults Gen.FnCoveragePileup Model.Coverage.

Local Open Scope Q_scope.

Section WithLog2.
Variable log2o : Q -> Q.

Definition fn_pileup_depth (bases lo hi : Z) : Q := fst (fn_pileup_row log2o hi lo bases NULL_LOG2_COVERAGE).

Lemma source_pileup_depth (bases lo hi : Z) :
  fn_pileup_depth bases lo hi == pileup_depth bases lo hi.
Proof.
  unfold fn_pileup_depth, fn_pileup_row, pileup_depth, ratio. cbn [fst].
  change PILEUP_SPAN_CUT with 0%Z. change PILEUP_ZERO_DEPTH with 0.
  destruct (0 <? hi - lo)%Z.
  - rewrite Qred_correct. reflexivity.
  - reflexivity.
Qed.

Lemma source_pileup_depth_cases (bases lo hi : Z) :
  ((lo < hi)%Z -> fn_pileup_depth bases lo hi = inject_Z bases / inject_Z (hi - lo)) /\
  ((hi <= lo)%Z -> fn_pileup_depth bases lo hi = 0).
Proof.
  unfold fn_pileup_depth, fn_pileup_row. cbn [fst]. split; intro H.
  - replace (0 <? hi - lo)%Z with true by (symmetry; apply Z.ltb_lt; lia). reflexivity.
  - replace (0 <? hi - lo)%Z with false by (symmetry; apply Z.ltb_ge; lia). reflexivity.
Qed.

Lemma source_pileup_log2 (bases lo hi : Z) :
  snd (fn_pileup_row log2o hi lo bases NULL_LOG2_COVERAGE) = pileup_log2 log2o (fn_pileup_depth bases lo hi).
Proof.
  unfold fn_pileup_depth, fn_pileup_row, pileup_log2. cbn [fst snd].
  change PILEUP_DEPTH_CUT with 0%Z.
  destruct (Qle_bool _ (inject_Z 0)); reflexivity.
Qed.

End WithLog2.
