(* C14 source tie of squash_region's coordinates (cnvlib/segfilters.py): the display

       out = {"chromosome": [cnarr["chromosome"].iat[0]], "start": cnarr["start"].iat[0], "end": cnarr["end"].iat[-1]}

   whose three value expressions are regenerated from the Python source on every run as Gen/FnSegSpan.v
   (fn_squash_span: which of the first / last cells of the three columns -- six distinct inputs -- is taken).
   Here: chrom / lo / hi of Model/Segfilters.v squash_region ARE the generated choices on the region's rows. *)
From CNV Require Import Base.Prelude Base.Str Model.Segfilters Gen.FnSegSpan.

Local Open Scope Z_scope.

Theorem source_span (s0 : seg) (rest : list seg) (w : Q) :
  let r := s0 :: rest in
  let l := last r s0 in
  let s := squash_region r in
  (chrom s, lo s, hi s) = fn_squash_span w (chrom s0) (chrom l) (lo s0) (lo l) (hi s0) (hi l).
Proof. reflexivity. Qed.
