(* Library for C15: translation equivariance of the estimators center_all can be asked for
   (median, mean, biweight location, KDE mode under its oracle contract), of the two-level
   (per chromosome, then across) estimate, and small list facts. *)
From CNV Require Import Base.Prelude Base.QNum Proofs.QNumLemmas Gen.CenterDefaults Model.Center.
From Coq Require Import Qabs Setoid Morphisms Psatz.
Local Open Scope Q_scope.

(* ---- lists that differ by one constant -------------------------------------- *)
Definition shifted (c : Q) (l l' : list Q) : Prop := Forall2 (fun x x' => x' == x + c) l l'.

(* an estimator that moves with the data: the notion center_all relies on *)
Definition translation_equivariant (est : list Q -> Q) : Prop :=
  forall c l l', l <> [] -> shifted c l l' -> est l' == est l + c.

Lemma shifted_length c l l' : shifted c l l' -> length l = length l'.
Proof. induction 1; simpl; congruence. Qed.

Lemma shifted_map_qadd c l : shifted c l (map (fun x => qadd x c) l).
Proof. induction l; constructor; auto. apply qadd_spec. Qed.

Lemma shifted_eqQ c l l' : shifted c l l' -> eqQ l' (map (fun x => x + c) l).
Proof. induction 1; simpl; constructor; auto. Qed.

Lemma eqQ_shifted c l : forall l', eqQ l' (map (fun x => x + c) l) -> shifted c l l'.
Proof.
  induction l as [|x l IH]; intros l' E; simpl in E; inversion E; subst; constructor.
  - assumption.
  - apply IH. assumption.
Qed.

Lemma shifted_nonnil c l l' : shifted c l l' -> l <> [] -> l' <> [].
Proof. intros H Hn. destruct H; [contradiction|discriminate]. Qed.

Lemma shifted_nthq c l l' i : shifted c l l' -> (i < length l)%nat -> nthq i l' == nthq i l + c.
Proof.
  intros H. revert i. induction H as [|x x' l l' Hx H IH]; intros i Hi; simpl in Hi; [lia|].
  destruct i; simpl; [exact Hx|]. apply IH. lia.
Qed.

Lemma shifted_qsort c l l' : shifted c l l' -> shifted c (qsort l) (qsort l').
Proof.
  intros H.
  assert (E : eqQ (qsort l') (map (fun x => x + c) (qsort l))).
  { transitivity (qsort (map (fun x => x + c) l)).
    - apply qsort_eqQ. apply shifted_eqQ. exact H.
    - apply qsort_map_mono. intros a b Hab. cbv beta. lra. }
  apply eqQ_shifted. exact E.
Qed.

(* ---- median, mean ----------------------------------------------------------- *)
Lemma median_te : translation_equivariant median.
Proof.
  intros c l l' Hn H. rewrite (median_eqQ _ _ (shifted_eqQ _ _ _ H)). apply median_shift. exact Hn.
Qed.

Lemma qmean_te : translation_equivariant qmean.
Proof.
  intros c l l' Hn H. rewrite (qmean_PermQ _ _ (eqQ_PermQ _ _ (shifted_eqQ _ _ _ H))). apply qmean_shift. exact Hn.
Qed.

(* ---- biweight location ------------------------------------------------------ *)
(* the deviations from the running estimate are literally the same numbers (Qred is canonical) *)
Lemma dev_shift c a a' i i' : shifted c a a' -> i' == i + c ->
  map (fun x => qsub x i') a' = map (fun x => qsub x i) a.
Proof.
  intros H Hi. induction H as [|x x' a a' Hx H IH]; simpl; [reflexivity|]. f_equal; [|exact IH].
  unfold qsub. apply Qred_complete. rewrite Hx, Hi. ring.
Qed.

Lemma biloc_iter_shift c a a' i i' : shifted c a a' -> i' == i + c ->
  biloc_iter a' i' == biloc_iter a i + c.
Proof.
  intros H Hi. unfold biloc_iter. rewrite (dev_shift c a a' i i' H Hi).
  destruct (biloc_core (map (fun x => qsub x i) a)) as [inc|].
  - rewrite !qadd_spec, Hi. ring.
  - exact Hi.
Qed.

Lemma biloc_loop_shift c n : forall a a' i i', shifted c a a' -> i' == i + c ->
  biloc_loop n a' i' == biloc_loop n a i + c.
Proof.
  induction n as [|n IH]; intros a a' i i' H Hi; simpl; [exact Hi|].
  pose proof (biloc_iter_shift c a a' i i' H Hi) as Hr.
  assert (E : qsub (biloc_iter a' i') i' = qsub (biloc_iter a i) i).
  { unfold qsub. apply Qred_complete. rewrite Hr, Hi. ring. }
  rewrite E. destruct (qle_b (qabs (qsub (biloc_iter a i) i)) biweight_epsilon); [exact Hr|].
  apply IH; assumption.
Qed.

Lemma biweight_te : translation_equivariant biweight.
Proof.
  intros c l l' Hn H. destruct H as [|x x' l l' Hx H]; [contradiction|].
  destruct H as [|y y' l l' Hy H].
  - exact Hx.
  - unfold biweight. apply biloc_loop_shift.
    + constructor; [exact Hx|]. constructor; [exact Hy|exact H].
    + apply median_te; [discriminate|]. constructor; [exact Hx|]. constructor; [exact Hy|exact H].
Qed.

(* ---- mode: the KDE arg-max index is an oracle with a contract --------------- *)
(* what is assumed of the index function: it points into the list, and it does not change when
   every (sorted) value moves by the same constant *)
Definition kde_contract (kde : list Q -> nat) : Prop :=
  (forall s, s <> [] -> (kde s < length s)%nat) /\
  (forall c s s', shifted c s s' -> kde s' = kde s).

Lemma mode_te kde : kde_contract kde -> translation_equivariant (mode_of kde).
Proof.
  intros [Hrange Hinv] c l l' Hn H. destruct H as [|x x' l l' Hx H]; [contradiction|].
  destruct H as [|y y' l l' Hy H]; [exact Hx|].
  assert (Hs : shifted c (x :: y :: l) (x' :: y' :: l')).
  { constructor; [exact Hx|]. constructor; [exact Hy|exact H]. }
  pose proof (shifted_qsort _ _ _ Hs) as Hq.
  unfold mode_of.
  set (s := qsort (x :: y :: l)) in *. set (s' := qsort (x' :: y' :: l')) in *.
  assert (Hlen : length s = length s') by (apply (shifted_length c); exact Hq).
  assert (Hpos : (0 < length s)%nat).
  { subst s. rewrite qsort_length. simpl. lia. }
  assert (H0 : nthq 0 s' == nthq 0 s + c) by (apply shifted_nthq; [exact Hq|lia]).
  assert (Hl : nthq (length s' - 1) s' == nthq (length s - 1) s + c).
  { rewrite <- Hlen. apply shifted_nthq; [exact Hq|lia]. }
  assert (Eb : qeq_b (nthq 0 s') (nthq (length s' - 1) s') = qeq_b (nthq 0 s) (nthq (length s - 1) s)).
  { destruct (qeq_b (nthq 0 s) (nthq (length s - 1) s)) eqn:E.
    - apply qeq_b_iff. apply qeq_b_iff in E. rewrite H0, Hl, E. reflexivity.
    - apply qeq_b_false. apply qeq_b_false in E. intro K. apply E. rewrite H0, Hl in K. lra. }
  rewrite Eb. destruct (qeq_b (nthq 0 s) (nthq (length s - 1) s)); [exact H0|].
  rewrite (Hinv c s s' Hq). apply shifted_nthq; [exact Hq|].
  apply Hrange. intro K. rewrite K in Hpos. simpl in Hpos. lia.
Qed.

(* the contract is satisfiable: e.g. "always the first value" *)
Lemma kde_contract_first : kde_contract (fun _ => O).
Proof.
  split; [|reflexivity]. intros s Hs. destruct s; [contradiction|simpl; lia].
Qed.

(* every estimator name center_all accepts *)
Lemma est_fun_te kde e : kde_contract kde -> translation_equivariant (est_fun kde e).
Proof.
  intros Hk. destruct e; simpl.
  - exact median_te.
  - exact qmean_te.
  - exact biweight_te.
  - exact (mode_te kde Hk).
Qed.

(* median / mean / biweight need no oracle *)
Lemma est_fun_te_no_oracle kde e : e <> EMode -> translation_equivariant (est_fun kde e).
Proof.
  intros He. destruct e; simpl; [exact median_te|exact qmean_te|exact biweight_te|congruence].
Qed.

(* ---- grouping by chromosome -------------------------------------------------- *)
Definition shift_groups (c : Q) (gs : list (string * list Q)) : list (string * list Q) :=
  map (fun g => (fst g, map (fun x => qadd x c) (snd g))) gs.

Lemma group_insert_shift c k v gs :
  group_insert k (qadd v c) (shift_groups c gs) = shift_groups c (group_insert k v gs).
Proof.
  induction gs as [|[k' vs] gs IH]; simpl; [reflexivity|].
  destruct (String.eqb k k'); simpl.
  - rewrite map_app. reflexivity.
  - rewrite IH. reflexivity.
Qed.

Lemma groups_fold_shift c t : forall gs,
  fold_left (fun gs b => group_insert (b_chrom b) (b_log2 b) gs) (map (add_log2 c) t) (shift_groups c gs) =
  shift_groups c (fold_left (fun gs b => group_insert (b_chrom b) (b_log2 b) gs) t gs).
Proof.
  induction t as [|b t IH]; intros gs; simpl; [reflexivity|].
  rewrite group_insert_shift. apply IH.
Qed.

Lemma group_log2_shift c t :
  group_log2 (map (add_log2 c) t) = map (map (fun x => qadd x c)) (group_log2 t).
Proof.
  unfold group_log2, groups_of.
  change (@nil (string * list Q)) with (shift_groups c []) at 1.
  rewrite groups_fold_shift. unfold shift_groups. rewrite !map_map. reflexivity.
Qed.

Lemma group_insert_nonempty k v gs :
  Forall (fun g => snd g <> []) gs -> Forall (fun g : string * list Q => snd g <> []) (group_insert k v gs).
Proof.
  induction gs as [|[k' vs] gs IH]; intros H; simpl.
  - constructor; [discriminate|constructor].
  - inversion H; subst. destruct (String.eqb k k'); constructor; simpl; auto.
    intro K. apply app_eq_nil in K. destruct K; discriminate.
Qed.

Lemma group_insert_nonnil k v gs : group_insert k v gs <> [].
Proof. destruct gs as [|[k' vs] gs]; simpl; [discriminate|]. destruct (String.eqb k k'); discriminate. Qed.

Lemma groups_fold_nonempty t : forall gs,
  Forall (fun g : string * list Q => snd g <> []) gs ->
  Forall (fun g : string * list Q => snd g <> [])
         (fold_left (fun gs b => group_insert (b_chrom b) (b_log2 b) gs) t gs).
Proof.
  induction t as [|b t IH]; intros gs H; simpl; [exact H|]. apply IH. apply group_insert_nonempty. exact H.
Qed.

Lemma groups_fold_nonnil t : forall gs, (t <> [] \/ gs <> []) ->
  fold_left (fun gs b => group_insert (b_chrom b) (b_log2 b) gs) t gs <> [].
Proof.
  induction t as [|b t IH]; intros gs H; simpl.
  - destruct H; [contradiction|assumption].
  - apply IH. right. apply group_insert_nonnil.
Qed.

Lemma group_log2_nonempty t : Forall (fun g => g <> []) (group_log2 t).
Proof.
  unfold group_log2, groups_of. apply Forall_map. apply groups_fold_nonempty. constructor.
Qed.

Lemma group_log2_nonnil t : t <> [] -> group_log2 t <> [].
Proof.
  intros H. unfold group_log2, groups_of. intro K. apply map_eq_nil in K.
  revert K. apply groups_fold_nonnil. left. exact H.
Qed.

(* ---- the estimate over a selection moves with the selection ----------------- *)
Lemma map_log2_add c sel : map b_log2 (map (add_log2 c) sel) = map (fun x => qadd x c) (map b_log2 sel).
Proof. rewrite !map_map. reflexivity. Qed.

Lemma center_stat_shift est by_chrom c sel :
  translation_equivariant est -> sel <> [] ->
  center_stat est by_chrom (map (add_log2 c) sel) == center_stat est by_chrom sel + c.
Proof.
  intros Hte Hn. unfold center_stat. destruct by_chrom.
  - rewrite group_log2_shift. apply Hte.
    + intro K. apply map_eq_nil in K. revert K. apply group_log2_nonnil. exact Hn.
    + pose proof (group_log2_nonempty sel) as Hne. induction Hne as [|g gs Hg Hne IH]; simpl; constructor; [|exact IH].
      apply Hte; [exact Hg|]. apply shifted_map_qadd.
  - rewrite map_log2_add. apply Hte.
    + intro K. apply map_eq_nil in K. contradiction.
    + apply shifted_map_qadd.
Qed.

(* ---- filters and maps -------------------------------------------------------- *)
Lemma filter_map_comm {A} (f : A -> A) (p p' : A -> bool) l :
  (forall x, p' (f x) = p x) -> filter p' (map f l) = map f (filter p l).
Proof.
  intros H. induction l as [|x l IH]; simpl; [reflexivity|]. rewrite H. destruct (p x); simpl; rewrite IH; reflexivity.
Qed.

Lemma existsb_map_comm {A} (f : A -> A) (p : A -> bool) l :
  (forall x, p (f x) = p x) -> existsb p (map f l) = existsb p l.
Proof. intros H. induction l as [|x l IH]; simpl; [reflexivity|]. rewrite H, IH. reflexivity. Qed.
