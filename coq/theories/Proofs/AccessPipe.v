(* C13, exclusion clause: after subtracting any number of exclude tables (overlapping,
   nested, duplicated rows allowed) the accessible regions cover exactly the non-N bases
   that lie in none of them.  Rests on the C06 theorem subtract_covers. *)
From CNV Require Import Base.Prelude Model.IvRow Model.Intervals Model.Access Model.AccessPipe
  Spec.Regions Spec.Cover Proofs.IvSubtract.

Lemma covers_to_rows (l : list (Z * Z)) x : covers (to_rows l) x <-> cov l x.
Proof.
  unfold covers, cov, to_rows. split.
  - intros (r & Hin & H). apply in_map_iff in Hin as (p & <- & Hp). exists p. split; [exact Hp|exact H].
  - intros (p & Hp & H). exists (fst p, snd p, tt). split; [apply in_map_iff; exists p; auto|exact H].
Qed.

Lemma cov_of_rows (l : list (@row unit)) x : cov (of_rows l) x <-> covers l x.
Proof.
  unfold covers, cov, of_rows. split.
  - intros (p & Hin & H). apply in_map_iff in Hin as (r & <- & Hr). exists r. split; [exact Hr|exact H].
  - intros (r & Hr & H). exists (lo r, hi r). split; [apply in_map_iff; exists r; auto|exact H].
Qed.

Lemma sorted_lo_to_rows (l : list (Z * Z)) :
  sorted_lo (to_rows l) <-> chain (fun a b => lo a <= lo b) (to_rows l).
Proof. reflexivity. Qed.

Lemma exclude_one_cov acc ex x :
  sorted_lo (to_rows ex) ->
  (cov (exclude_one acc ex) x <-> cov acc x /\ ~ cov ex x).
Proof.
  intros Hs. unfold exclude_one. rewrite cov_of_rows.
  rewrite (subtract_covers (to_rows acc) (to_rows ex) x Hs).
  rewrite !covers_to_rows. reflexivity.
Qed.

Theorem exclude_all_cov excls : forall runs x,
  Forall (fun ex => sorted_lo (to_rows ex)) excls ->
  (cov (exclude_all runs excls) x <-> cov runs x /\ Forall (fun ex => ~ cov ex x) excls).
Proof.
  induction excls as [|ex t IH]; intros runs x Hs; cbn [exclude_all fold_left].
  - split; [intros H; split; [exact H|constructor]|intros [H _]; exact H].
  - inversion Hs as [|? ? Hex Ht]; subst.
    change (fold_left exclude_one t (exclude_one runs ex)) with (exclude_all (exclude_one runs ex) t).
    rewrite (IH _ x Ht), (exclude_one_cov runs ex x Hex). split.
    + intros [[Hr Hn] Hf]. split; [exact Hr|constructor; assumption].
    + intros [Hr Hf]. inversion Hf; subst. repeat split; assumption.
Qed.
