(* C07 loop tie of intersect.by_ranges (skgenome/intersect.py), ONE ITERATION of

       for _chrom, bin_rows, src_rows in by_shared_chroms(other, table, keep_empty):
           if src_rows is not None:
               subranges = iter_ranges(src_rows, None, bin_rows["start"], bin_rows["end"], mode)     (opaque range:
               for bin_row, subrange in zip(bin_rows.itertuples(index=False), subranges):             its yields are
                   yield bin_row, subrange                                                            the input `paired`)
           elif keep_empty:
               for bin_row in bin_rows.itertuples(index=False):                                      (opaque range:
                   yield bin_row, []                                                                  `empties`)

   regenerated from the Python source on every run as Gen/FnRangesByRanges.v (fn_by_ranges_step: what the iteration
   yields).  The yields of the two inner loops are numbered 1 (every bin paired with its selection) and 2 (every bin
   with an empty selection) and read back by [results_of]; Model/Ranges.v by_ranges IS the generated iteration per group
   of by_shared_chroms. *)
From CNV Require Import Base.Prelude Base.Str Model.Ranges Gen.FnRangesByRanges.

Local Open Scope Z_scope.

Definition results_of (m : qmode) (bins : list trow) (src : option (list trow)) (id : Z) : list (trow * list row) :=
  if id =? 1 then
    match src with
    | Some src_rows => combine bins (iter_ranges (map snd src_rows) (Some (starts_of bins)) (Some (ends_of bins)) m)
    | None => []
    end
  else if id =? 2 then map (fun b => (b, [])) bins
  else [].

Definition py_by_ranges_iter (m : qmode) (keep_empty : bool) (g : string * list trow * option (list trow))
  : list (trow * list row) :=
  let '(_, bins, src) := g in
  flat_map (results_of m bins src)
           (fn_by_ranges_step (match src with Some _ => Some 1 | None => None end) keep_empty [1] [2] 0).

Lemma source_by_ranges_step m keep_empty c bins src :
  py_by_ranges_iter m keep_empty (c, bins, src) =
  match src with
  | Some src_rows => combine bins (iter_ranges (map snd src_rows) (Some (starts_of bins)) (Some (ends_of bins)) m)
  | None => if keep_empty then map (fun b => (b, [])) bins else []
  end.
Proof.
  unfold py_by_ranges_iter, fn_by_ranges_step. destruct src as [s|].
  - cbn [flat_map app]. unfold results_of. cbn [Z.eqb Pos.eqb]. apply app_nil_r.
  - destruct keep_empty; [|reflexivity].
    cbn [flat_map app]. unfold results_of. cbn [Z.eqb Pos.eqb]. apply app_nil_r.
Qed.

Theorem source_by_ranges table other m keep_empty :
  by_ranges table other m keep_empty =
  concat (map (py_by_ranges_iter m keep_empty) (by_shared_chroms other table keep_empty)).
Proof.
  unfold by_ranges. f_equal. apply map_ext. intros [[c bins] src]. symmetry. apply source_by_ranges_step.
Qed.
