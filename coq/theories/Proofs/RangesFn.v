(* C07 source tie (tools/fnspecs/intervals.py -> Gen/FnRanges.v): the two conditional clips of
   intersect.iter_ranges in mode "trim",

       if start_val: subtable.start = subtable.start.clip(lower=start_val)
       if end_val:   subtable.end   = subtable.end.clip(upper=end_val)

   read per row with the TESTS and the clipped columns taken from the source text, equal the
   model's trim_rows: `if start_val:` / `if end_val:` are truthiness tests, so a bound equal to
   0 does not clip (harmless for genomic coordinates: rows live in [0, oo)). *)
From CNV Require Import Base.Prelude Model.Ranges.
From CNV Require Gen.FnRanges.

Theorem fn_trim_row_eq (dummy i lo_ hi_ sv ev : Z) :
  trim_rows (Some sv) (Some ev) [mkRow i lo_ hi_] =
  [mkRow i (fst (FnRanges.fn_trim_row dummy lo_ hi_ sv ev)) (snd (FnRanges.fn_trim_row dummy lo_ hi_ sv ev))].
Proof.
  unfold trim_rows, FnRanges.fn_trim_row, truthyZ, clip_lo, clip_hi. cbn [fst snd].
  destruct (sv =? 0), (ev =? 0); reflexivity.
Qed.

(* the whole selection: trim_rows maps the generated per-row rule over the selected rows *)
Theorem fn_trim_rows_eq (dummy sv ev : Z) (rows : list row) :
  trim_rows (Some sv) (Some ev) rows =
  map (fun r => mkRow (r_id r)
                      (fst (FnRanges.fn_trim_row dummy (r_lo r) (r_hi r) sv ev))
                      (snd (FnRanges.fn_trim_row dummy (r_lo r) (r_hi r) sv ev))) rows.
Proof.
  unfold trim_rows, FnRanges.fn_trim_row, truthyZ, clip_lo, clip_hi. cbn [fst snd].
  destruct (sv =? 0), (ev =? 0); cbn [negb]; rewrite ?map_map; cbn [r_id r_lo r_hi];
    try (apply map_ext; intros [i a b]; reflexivity).
  induction rows as [|[i a b] t IH]; [reflexivity|]. cbn [map]. now rewrite <- IH.
Qed.
