(* C03 proofs, part 6: the aggregation step of transfer_fields as the code runs it
   (iter_slices(cdata, segments.data, "outer", False): by_shared_chroms, idx_ranges,
   numpy's binary search -- the C07 model) selects, for every segment row of a piece,
   exactly the input bins overlapping it.  The fact about iter_slices is IMPORTED from
   Props/C07.v (C07_slices); nothing about searchsorted is re-proved here. *)
From CNV Require Import Base.Prelude Base.Str Gen.SegDefaults Model.Arms Model.Segment Spec.Segments
  Proofs.SegTiles Proofs.SegArm Proofs.SegChrom.
From CNV Require Model.Ranges Spec.RangeQuery Proofs.RangesLib Proofs.RangesTables Props.C07.

Module R := Model.Ranges.
Module RQ := Spec.RangeQuery.

(* ---- the table handed to iter_slices ----------------------------------------- *)

Lemma bin_rows_fst c i bins x : In x (bin_rows_from c i bins) -> fst x = c.
Proof.
  revert i; induction bins as [|b t IH]; intros i H; cbn in H; [contradiction|].
  destruct H as [H|H]; [subst x; reflexivity|exact (IH _ H)].
Qed.

Lemma seg_rows_fst c rs x : In x (seg_rows c rs) -> fst x = c.
Proof. unfold seg_rows. intros H. apply in_map_iff in H. destruct H as (r & H & _). subst x. reflexivity. Qed.

Lemma of_chrom_other c c' (t : list R.trow) :
  (forall x, In x t -> fst x = c) -> String.eqb c c' = false -> R.of_chrom c' t = [].
Proof.
  intros Hall Hne. unfold R.of_chrom. apply RangesLib.filter_all_false.
  intros x Hx. rewrite (Hall x Hx). exact Hne.
Qed.

Definition rows_plain (c : string) (i : Z) (bins : list bin) : list R.row := map snd (bin_rows_from c i bins).

Lemma rows_of_bin_rows c c' bins :
  RQ.rows_of c' (bin_rows_from c 0 bins) = if String.eqb c c' then rows_plain c 0 bins else [].
Proof.
  unfold RQ.rows_of. destruct (String.eqb c c') eqn:E.
  - apply String.eqb_eq in E. subst c'. rewrite RangesTables.of_chrom_all; [reflexivity|].
    intros x Hx. exact (bin_rows_fst _ _ _ _ Hx).
  - rewrite (of_chrom_other c c'); [reflexivity| |exact E].
    intros x Hx. exact (bin_rows_fst _ _ _ _ Hx).
Qed.

Lemma rows_plain_sorted c bins : forall i e E,
  bins_in e bins E -> RQ.sorted_lo (rows_plain c i bins).
Proof.
  unfold RQ.sorted_lo, rows_plain. induction bins as [|b t IH]; intros i e E H; cbn; [constructor|].
  cbn in H. destruct H as (H1 & H2 & H3). constructor; [exact (IH _ _ _ H3)|].
  destruct t as [|b' t']; cbn; [constructor|]. constructor. cbn. cbn in H3. lia.
Qed.

Lemma rows_plain_valid c bins : forall i e E,
  bins_in e bins E -> 0 <= e -> Forall RQ.valid_row (rows_plain c i bins).
Proof.
  unfold rows_plain. induction bins as [|b t IH]; intros i e E H He; cbn; [constructor|].
  cbn in H. destruct H as (H1 & H2 & H3). constructor.
  - unfold RQ.valid_row. cbn. lia.
  - apply (IH _ (b_hi b) E H3). lia.
Qed.

Lemma bin_table_ok c bins e E : bins_in e bins E -> 0 <= e -> RQ.table_ok (bin_rows_from c 0 bins).
Proof.
  intros H He c'. rewrite rows_of_bin_rows. destruct (String.eqb c c').
  - split; [exact (rows_plain_sorted c bins 0 e E H)|exact (rows_plain_valid c bins 0 e E H He)].
  - split; [constructor|constructor].
Qed.

Lemma distinct_all_eq c l : Forall (eq c) l -> R.distinct l = match l with [] => [] | _ => [c] end.
Proof.
  induction l as [|x t IH]; intros H; [reflexivity|].
  inversion H as [|? ? Hx Ht]; subst. cbn [R.distinct]. rewrite (IH Ht).
  destruct t as [|y t']; [reflexivity|]. cbn [filter]. rewrite String.eqb_refl. reflexivity.
Qed.

Lemma seg_rows_grouped c rs : RQ.grouped (seg_rows c rs).
Proof.
  destruct rs as [|r rt]; [reflexivity|].
  apply (RangesTables.single_chrom_grouped _ c). unfold R.chroms.
  rewrite (distinct_all_eq c); [reflexivity|].
  apply Forall_forall. intros x Hx. apply in_map_iff in Hx. destruct Hx as (y & Hy & Hin).
  subst x. symmetry. exact (seg_rows_fst c (r :: rt) y Hin).
Qed.

(* ---- labels back to bins ----------------------------------------------------- *)

Lemma take_bins_cons bins r sel :
  take_bins bins (r :: sel) = nth (Z.to_nat (R.r_id r)) bins dummy_bin :: take_bins bins sel.
Proof. reflexivity. Qed.

Lemma take_bins_filter c qs qe bins : forall pre,
  take_bins (pre ++ bins)
            (filter (RQ.overlaps qs qe) (rows_plain c (Z.of_nat (length pre)) bins)) =
  filter (overlaps qs qe) bins.
Proof.
  unfold rows_plain. induction bins as [|b t IH]; intros pre; [reflexivity|].
  cbn [bin_rows_from map snd filter].
  assert (Hrest : take_bins (pre ++ b :: t)
                    (filter (RQ.overlaps qs qe) (map snd (bin_rows_from c (Z.of_nat (length pre) + 1) t))) =
                  filter (overlaps qs qe) t).
  { specialize (IH (pre ++ [b])). rewrite <- app_assoc in IH. cbn [app] in IH.
    rewrite app_length in IH. cbn [length] in IH.
    replace (Z.of_nat (length pre + 1)) with (Z.of_nat (length pre) + 1) in IH by lia. exact IH. }
  change (RQ.overlaps qs qe (R.mkRow (Z.of_nat (length pre)) (b_lo b) (b_hi b))) with (overlaps qs qe b).
  destruct (overlaps qs qe b).
  - rewrite take_bins_cons, Hrest. cbn [R.r_id].
    rewrite Nat2Z.id, app_nth2, Nat.sub_diag by lia. reflexivity.
  - exact Hrest.
Qed.

Lemma take_bins_outer c qs qe bins :
  take_bins bins (RQ.outer_spec qs qe (rows_plain c 0 bins)) = spanned bins qs qe.
Proof. exact (take_bins_filter c qs qe bins []). Qed.

(* ---- the selections of a piece -------------------------------------------------- *)

Definition nonempty {A} (l : list A) : bool := match l with [] => false | _ => true end.

Lemma transfer_mode_outer : R.imode_of_name transfer_slices_mode = R.Outer.
Proof. reflexivity. Qed.

(* which selections iter_slices keeps: all of them, or (keep_empty = False, the value in the
   source today) the non-empty ones; the proofs below hold for either value *)
Definition kept (s : list bin) : bool := transfer_slices_keep_empty || nonempty s.

(* by C07_slices: one selection per row (rows overlapping nothing are dropped unless
   keep_empty), in row order; each is the list of input bins overlapping that row *)
Lemma slices_spec c bins (qs : list (Z * Z)) e E :
  bins_in e bins E -> 0 <= e ->
  slices c bins qs = filter kept (map (fun q => spanned bins (fst q) (snd q)) qs).
Proof.
  intros H He. unfold slices, kept. rewrite transfer_mode_outer.
  generalize transfer_slices_keep_empty as ke. intros ke.
  rewrite (C07.C07_slices _ _ R.Outer ke (bin_table_ok c bins e E H He) (seg_rows_grouped c qs)).
  unfold RQ.answers, seg_rows. cbn [RangesTables.qm_of RQ.select_spec].
  induction qs as [|r rt IH]; [reflexivity|].
  cbn [map filter fst snd R.r_lo R.r_hi].
  rewrite rows_of_bin_rows, String.eqb_refl.
  pose proof (take_bins_outer c (fst r) (snd r) bins) as Ht.
  unfold RQ.nonempty_sel. cbn [snd].
  destruct (RQ.outer_spec (fst r) (snd r) (rows_plain c 0 bins)) as [|x xs] eqn:Eo.
  - cbn [take_bins map] in Ht. rewrite <- Ht. cbn [nonempty]. rewrite !Bool.orb_false_r.
    destruct ke; [cbn [map snd take_bins]; f_equal; exact IH|exact IH].
  - rewrite <- Ht. cbn [map take_bins nonempty]. rewrite !Bool.orb_true_r. cbn [map snd]. f_equal. exact IH.
Qed.

(* a row together with the aggregates of the bins overlapping it *)
Definition fill_spanned (bins : list bin) (w : raw) : seg :=
  let sp := spanned bins (w_lo w) (w_hi w) in
  fill w (gene_field (map b_gene sp)) (sum_weights sp) (agg_depth sp).

Lemma finish_is_fill m bins r : finish m bins r = fill_spanned bins (raw_of m r).
Proof. reflexivity. Qed.

Lemma fill_rows_all bins ws :
  Forall (fun w => spanned bins (w_lo w) (w_hi w) <> []) ws ->
  fill_rows ws (filter kept (map (fun q => spanned bins (fst q) (snd q)) (map raw_range ws))) =
  map (fill_spanned bins) ws.
Proof.
  induction ws as [|w wt IH]; intros H; [reflexivity|].
  inversion H as [|? ? Hr Ht]; subst. cbn [map filter raw_range fst snd].
  destruct (spanned bins (w_lo w) (w_hi w)) as [|x xs] eqn:Es; [congruence|].
  unfold kept at 1. cbn [nonempty]. rewrite Bool.orb_true_r. cbn [fill_rows]. rewrite (IH Ht). f_equal.
  unfold fill_spanned. rewrite Es. reflexivity.
Qed.

(* the aggregation step: every row that overlaps an input bin gets the aggregates of
   exactly the bins it overlaps *)
Lemma aggregate_spec c bins ws e E :
  bins_in e bins E -> 0 <= e ->
  Forall (fun w => spanned bins (w_lo w) (w_hi w) <> []) ws ->
  aggregate c bins ws = map (fill_spanned bins) ws.
Proof.
  intros H He Hne. unfold aggregate. rewrite (slices_spec c bins _ e E H He). apply fill_rows_all. exact Hne.
Qed.

(* a row of a chain of segments whose groups are input bins overlaps at least one input bin *)
Lemma rtiles_nonempty bins rs : forall e E,
  rtiles e rs E -> Forall (fun r => Forall (fun b => In b bins) (rgrp r)) rs ->
  Forall (fun r => spanned bins (r_lo r) (r_hi r) <> []) rs.
Proof.
  induction rs as [|r rt IH]; intros e E H Hin; [constructor|].
  cbn in H. destruct H as (H1 & H2 & H3 & H4). inversion Hin as [|? ? Hr Ht]; subst.
  constructor; [|exact (IH _ _ H4 Ht)].
  unfold rgrp, group_bins in *. destruct (r_group r) as [g0 gt]. cbn [fst snd] in *.
  inversion H3 as [|? ? Hb _]; subst. inversion Hr as [|? ? Hi _]; subst.
  intros Hnil. assert (Hf : In g0 (spanned bins (r_lo r) (r_hi r))).
  { unfold spanned. apply filter_In. split; [exact Hi|]. unfold overlaps, inb in *. lia. }
  rewrite Hnil in Hf. contradiction.
Qed.

Lemma survivors_in fl b : In b (survivors fl) -> In b (map fst fl).
Proof.
  unfold survivors. intros H. apply in_map_iff in H. destruct H as (f & Hf & Hin).
  apply filter_In in Hin. subst b. apply in_map. exact (proj1 Hin).
Qed.

Lemma grouped_members (rs : list rseg) (surv : list bin) :
  grouped rgrp rs = surv -> Forall (fun r => Forall (fun b => In b surv) (rgrp r)) rs.
Proof.
  intros H. apply Forall_forall. intros r Hr. apply Forall_forall. intros b Hb.
  rewrite <- H. unfold grouped. apply in_concat. exists (rgrp r). split; [apply in_map; exact Hr|exact Hb].
Qed.

Lemma rsegs_nonempty bins rs surv e E :
  rtiles e rs E -> grouped rgrp rs = surv -> (forall b, In b surv -> In b bins) ->
  Forall (fun r => spanned bins (r_lo r) (r_hi r) <> []) rs.
Proof.
  intros Ht Hg Hs. apply (rtiles_nonempty bins rs e E Ht).
  eapply Forall_impl; [|exact (grouped_members rs surv Hg)].
  cbn. intros r Hr. eapply Forall_impl; [|exact Hr]. exact Hs.
Qed.

Lemma piece_code_eq m c bins rs surv e E :
  bins_in e bins E -> 0 <= e -> rtiles e rs E -> grouped rgrp rs = surv ->
  (forall b, In b surv -> In b bins) ->
  finish_rows m rs (slices c bins (map rq rs)) = map (finish m bins) rs.
Proof.
  intros H He Ht Hg Hs. unfold finish_rows.
  replace (map rq rs) with (map raw_range (map (raw_of m) rs)) by (rewrite map_map; reflexivity).
  change (fill_rows (map (raw_of m) rs) (slices c bins (map raw_range (map (raw_of m) rs))))
    with (aggregate c bins (map (raw_of m) rs)).
  rewrite (aggregate_spec c bins _ e E H He).
  - rewrite map_map. reflexivity.
  - apply Forall_map. exact (rsegs_nonempty bins rs surv e E Ht Hg Hs).
Qed.

(* ---- one arm, all arms, a chromosome ---------------------------------------------- *)

Lemma arm_code_eq m fl bps e E :
  bins_in e (map fst fl) E -> 0 <= e -> arm_segs_code m fl bps = arm_segs m fl bps.
Proof.
  intros H He. unfold arm_segs_code, arm_segs. cbv zeta.
  destruct (arm_tiles fl bps e E H) as (Ht & Hg).
  exact (piece_code_eq m piece_name (map fst fl) _ _ e E H He Ht Hg (survivors_in fl)).
Qed.

Lemma arms_code_eq m bps : forall arms off e E,
  bins_in e (map fst (concat arms)) E -> 0 <= e ->
  flat_map (fun p => finish_rows m (snd p) (slices piece_name (fst p) (map rq (snd p)))) (arms_rsegs m arms off bps) =
  flat_map (fun p => map (finish m (fst p)) (snd p)) (arms_rsegs m arms off bps).
Proof.
  induction arms as [|a t IH]; intros off e E H He; [reflexivity|].
  cbn [concat] in H. rewrite map_app in H. destruct (bins_in_app_inv _ _ _ _ H) as (mid & Ha & Hrest).
  cbn [arms_rsegs flat_map fst snd]. f_equal.
  - exact (arm_code_eq m a _ e mid Ha He).
  - apply (IH _ mid E Hrest). pose proof (bins_in_le _ _ _ Ha). lia.
Qed.

Lemma chrom_code_eq m fl bps :
  bins_wf (map fst fl) -> 0 <= span_lo (map fst fl) -> chrom_segs_code m fl bps = chrom_segs m fl bps.
Proof.
  intros H He. unfold chrom_segs_code, chrom_segs.
  apply (arms_code_eq m bps (chrom_arms fl) 0 (span_lo (map fst fl)) (span_hi (map fst fl))); [|exact He].
  rewrite chrom_concat. exact H.
Qed.

Lemma hmm_code_eq a b c :
  bins_wf (map fst (c_fl c)) -> 0 <= span_lo (map fst (c_fl c)) ->
  chrom_hmm_segs_code a b c = chrom_hmm_segs a b c.
Proof.
  intros H He. unfold chrom_hmm_segs_code, chrom_hmm_segs. cbv zeta.
  destruct (hmm_rsegs_tiles a b c _ _ H) as (Ht & Hg).
  exact (piece_code_eq MHmm (c_name c) _ _ _ _ _ H He Ht Hg (survivors_in (c_fl c))).
Qed.

(* ---- in the form of Props/C03.v ----------------------------------------------------- *)

Lemma flag_bins_fst sl mw bins mask : map fst (flag_bins sl mw bins mask) = bins.
Proof.
  revert mask; induction bins as [|b t IH]; intros mask; cbn [flag_bins map fst]; [reflexivity|].
  rewrite IH. reflexivity.
Qed.

Lemma p_code_path m sl mw bins mask bps :
  bins_wf bins -> 0 <= span_lo bins ->
  chrom_segs_code m (flag_bins sl mw bins mask) bps = chrom_segs m (flag_bins sl mw bins mask) bps.
Proof. intros H He. apply chrom_code_eq; rewrite flag_bins_fst; assumption. Qed.

Lemma p_fields_code m sl mw bins mask bps :
  bins_wf bins -> 0 <= span_lo bins ->
  Forall (fields_ok bins) (chrom_segs_code m (flag_bins sl mw bins mask) bps).
Proof.
  intros H He. rewrite (p_code_path m sl mw bins mask bps H He).
  pose proof (chrom_fields m (flag_bins sl mw bins mask) bps) as T. rewrite flag_bins_fst in T. exact (T H).
Qed.

Lemma h_code_path sl mw name bins mask bps a b :
  bins_wf bins -> 0 <= span_lo bins ->
  chrom_hmm_segs_code a b (mkChrom name (flag_bins sl mw bins mask) bps) =
  chrom_hmm_segs a b (mkChrom name (flag_bins sl mw bins mask) bps).
Proof. intros H He. apply hmm_code_eq; cbn [c_fl]; rewrite flag_bins_fst; assumption. Qed.

Lemma hmm_rows_code_eq : forall tbl is_first,
  Forall (fun c => bins_wf (map fst (c_fl c)) /\ 0 <= span_lo (map fst (c_fl c))) tbl ->
  hmm_rows_code is_first tbl = hmm_rows is_first tbl.
Proof.
  induction tbl as [|c t IH]; intros is_first H; [reflexivity|].
  inversion H as [|? ? (Hc & He) Ht]; subst. cbn [hmm_rows_code hmm_rows].
  rewrite (hmm_code_eq _ _ c Hc He), (IH false Ht). reflexivity.
Qed.

