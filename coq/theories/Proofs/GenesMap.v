(* Proofs for C16, part 1: the gene map (first / last position per gene, in order of
   first occurrence) computed by the fold of _get_gene_map is exactly the set of
   gene spans of the table. *)
From CNV Require Import Base.Prelude Base.Str Model.Genes Spec.Genes.

Local Open Scope nat_scope.

(* ---- slices ------------------------------------------------------------------------ *)

Lemma skipn_add {A} (l : list A) : forall a b, skipn a (skipn b l) = skipn (a + b) l.
Proof.
  induction l as [|x t IH]; intros a b.
  - rewrite !skipn_nil. reflexivity.
  - destruct b as [|b].
    + rewrite Nat.add_0_r. reflexivity.
    + rewrite Nat.add_succ_r. cbn [skipn]. apply IH.
Qed.

Lemma nth_error_skipn_add {A} (l : list A) : forall a k, nth_error (skipn a l) k = nth_error l (a + k).
Proof.
  induction l as [|x t IH]; intros a k.
  - rewrite skipn_nil. destruct k, a; reflexivity.
  - destruct a as [|a]; [reflexivity|]. cbn [skipn Nat.add nth_error]. apply IH.
Qed.

Lemma nth_error_firstn_lt {A} (l : list A) : forall n k, k < n -> nth_error (firstn n l) k = nth_error l k.
Proof.
  induction l as [|x t IH]; intros n k Hk.
  - rewrite firstn_nil. reflexivity.
  - destruct n as [|n]; [lia|]. destruct k as [|k]; [reflexivity|].
    cbn [firstn nth_error]. apply IH. lia.
Qed.

Lemma NoDup_app_snoc {A} (l : list A) x : NoDup l -> ~ In x l -> NoDup (l ++ [x]).
Proof.
  induction l as [|a t IH]; intros Hnd Hni; cbn [app].
  - constructor; [intros []|constructor].
  - inversion Hnd as [|? ? Ha Ht]; subst. constructor.
    + rewrite in_app_iff. intros [H|[H|[]]]; [contradiction|]. apply Hni. left. congruence.
    + apply IH; [assumption|]. intros H. apply Hni. right. assumption.
Qed.

Lemma slice_app_skipn {A} (l : list A) a b :
  a <= b -> slice l a b ++ skipn b l = skipn a l.
Proof.
  intros Hab. unfold slice.
  replace (skipn b l) with (skipn (b - a) (skipn a l)).
  - apply firstn_skipn.
  - rewrite skipn_add. f_equal. lia.
Qed.

Lemma slice_length {A} (l : list A) a b :
  b <= length l -> length (slice l a b) = b - a.
Proof.
  intros Hb. unfold slice. rewrite firstn_length, skipn_length. lia.
Qed.

Lemma nth_error_slice {A} (l : list A) a b k :
  k < b - a -> nth_error (slice l a b) k = nth_error l (a + k).
Proof.
  intros Hk. unfold slice.
  rewrite nth_error_firstn_lt by assumption.
  apply nth_error_skipn_add.
Qed.

(* ---- occurrences ------------------------------------------------------------------ *)

Lemma occs_in rows : forall k g i,
  In (g, i) (occs k rows) <->
  exists j b, i = k + j /\ nth_error rows j = Some b /\ In g (genes_of b).
Proof.
  induction rows as [|b t IH]; intros k g i; cbn [occs].
  - split; [intros []|]. intros (j & b & _ & H & _). destruct j; discriminate.
  - rewrite in_app_iff, in_map_iff, IH. split.
    + intros [(g' & Heq & Hin) | (j & b' & Hi & Hn & Hg)].
      * inversion Heq; subst. exists 0, b. repeat split; auto; lia.
      * exists (S j), b'. repeat split; auto; lia.
    + intros (j & b' & Hi & Hn & Hg). destruct j as [|j].
      * cbn in Hn. inversion Hn; subst b'. left. exists g. split; auto. f_equal. lia.
      * right. exists j, b'. repeat split; auto; lia.
Qed.

Definition idx_le (x y : string * nat) : Prop := snd x <= snd y.

Lemma SSorted_app {A} (R : A -> A -> Prop) l1 l2 :
  StronglySorted R l1 -> StronglySorted R l2 ->
  (forall x y, In x l1 -> In y l2 -> R x y) -> StronglySorted R (l1 ++ l2).
Proof.
  induction l1 as [|a t IH]; intros H1 H2 H12; cbn [app]; [assumption|].
  inversion H1 as [|? ? Ht Ha]; subst.
  constructor.
  - apply IH; auto. intros x y Hx Hy. apply H12; [right|]; assumption.
  - apply Forall_app. split; [assumption|].
    apply Forall_forall. intros y Hy. apply H12; [left; reflexivity | assumption].
Qed.

Lemma occs_sorted rows : forall k, StronglySorted idx_le (occs k rows).
Proof.
  induction rows as [|b t IH]; intros k; cbn [occs]; [constructor|].
  apply SSorted_app.
  - induction (genes_of b) as [|g gs IHg]; cbn [map]; constructor; [assumption|].
    apply Forall_forall. intros y Hy. apply in_map_iff in Hy as (g' & <- & _).
    unfold idx_le; cbn; lia.
  - apply IH.
  - intros x y Hx Hy. apply in_map_iff in Hx as (g' & <- & _).
    destruct y as [g2 i2]. apply occs_in in Hy as (j & b' & -> & _).
    unfold idx_le; cbn; lia.
Qed.

(* ---- gm_add -------------------------------------------------------------------------- *)

Definition names (m : list gentry) : list string := map ge_name m.
Definition firsts (m : list gentry) : list nat := map ge_first m.

Lemma gm_add_names g i m :
  names (gm_add g i m) = if mem_string g (names m) then names m else names m ++ [g].
Proof.
  unfold names.
  induction m as [|[[h f] l] t IH]; [reflexivity|].
  cbn [gm_add map mem_string]. change (ge_name (h, f, l)) with h.
  destruct (String.eqb g h) eqn:E; cbn [orb].
  - reflexivity.
  - cbn [map]. change (ge_name (h, f, l)) with h. rewrite IH.
    destruct (mem_string g (map ge_name t)); reflexivity.
Qed.

Lemma gm_add_firsts g i m :
  firsts (gm_add g i m) = if mem_string g (names m) then firsts m else firsts m ++ [i].
Proof.
  unfold names, firsts.
  induction m as [|[[h f] l] t IH]; [reflexivity|].
  cbn [gm_add map mem_string]. change (ge_name (h, f, l)) with h.
  change (ge_first (h, f, l)) with f.
  destruct (String.eqb g h) eqn:E; cbn [orb].
  - reflexivity.
  - cbn [map]. change (ge_first (h, f, l)) with f. rewrite IH.
    destruct (mem_string g (map ge_name t)); reflexivity.
Qed.

Lemma mem_string_In s l : mem_string s l = true <-> In s l.
Proof.
  induction l as [|x t IH]; cbn [mem_string In]; [split; [discriminate|tauto]|].
  rewrite orb_true_iff, IH, String.eqb_eq. split; intros [H|H]; auto.
Qed.

Lemma mem_string_notIn s l : mem_string s l = false <-> ~ In s l.
Proof.
  rewrite <- mem_string_In. destruct (mem_string s l); split; congruence.
Qed.

Lemma in_names g f l m : In (g, f, l) m -> In g (names m).
Proof. intros H. apply in_map_iff. exists (g, f, l). split; auto. Qed.

Lemma gm_add_in g i m h f l :
  NoDup (names m) -> In (h, f, l) (gm_add g i m) ->
  (h <> g /\ In (h, f, l) m) \/
  (h = g /\ l = i /\ ((exists l0, In (g, f, l0) m) \/ (f = i /\ ~ In g (names m)))).
Proof.
  induction m as [|[[h0 f0] l0] t IH]; intros Hnd Hin; cbn [gm_add] in Hin.
  - destruct Hin as [Heq|[]]. inversion Heq; subst. right. repeat split; auto.
  - cbn [names map] in Hnd. unfold ge_name at 1 in Hnd; cbn [fst] in Hnd.
    inversion Hnd as [|? ? Hnot Hnd']; subst.
    destruct (String.eqb g h0) eqn:E.
    + apply String.eqb_eq in E; subst h0.
      destruct Hin as [Heq|Hin].
      * inversion Heq; subst. right. repeat split; auto. left. exists l0. left; reflexivity.
      * left. split; [|right; assumption].
        intros ->. apply Hnot. eapply in_names; eassumption.
    + apply String.eqb_neq in E.
      destruct Hin as [Heq|Hin].
      * inversion Heq; subst. left. split; [congruence | left; reflexivity].
      * destruct (IH Hnd' Hin) as [[Hne Hin']|(-> & -> & Hcase)].
        -- left. split; [assumption | right; assumption].
        -- right. repeat split; auto. destruct Hcase as [[l1 Hl1]|[-> Hni]].
           ++ left. exists l1. right; assumption.
           ++ right. split; auto. cbn [names map In]. unfold ge_name at 1; cbn [fst].
              intros [Heq|Hin']; [congruence | contradiction].
Qed.

Lemma gm_add_keeps g i m h f l :
  In (h, f, l) m -> h <> g -> In (h, f, l) (gm_add g i m).
Proof.
  induction m as [|[[h0 f0] l0] t IH]; intros Hin Hne; [destruct Hin|].
  cbn [gm_add]. destruct (String.eqb g h0) eqn:E.
  - apply String.eqb_eq in E; subst h0.
    destruct Hin as [Heq|Hin]; [inversion Heq; congruence | right; assumption].
  - destruct Hin as [Heq|Hin]; [left; assumption | right; auto].
Qed.

(* ---- the fold invariant ------------------------------------------------------------ *)

Record gm_inv (o : list (string * nat)) (m : list gentry) : Prop := {
  inv_nodup : NoDup (names m);
  inv_sound : forall g f l, In (g, f, l) m ->
      In (g, f) o /\ In (g, l) o /\ forall i, In (g, i) o -> f <= i <= l;
  inv_complete : forall g i, In (g, i) o -> In g (names m);
  inv_sorted : StronglySorted le (firsts m);
  inv_bound : forall e, In e m -> exists g, In (g, ge_first e) o }.

Lemma gm_inv_nil : gm_inv [] [].
Proof.
  constructor; cbn; try constructor; intros; contradiction.
Qed.

Lemma SSorted_le_snoc l i :
  StronglySorted le l -> (forall x, In x l -> x <= i) -> StronglySorted le (l ++ [i]).
Proof.
  intros Hs Hb. apply SSorted_app; auto.
  - constructor; constructor.
  - intros x y Hx [<-|[]]. auto.
Qed.

Lemma gm_inv_step o m g i :
  gm_inv o m -> (forall x, In x o -> snd x <= i) -> gm_inv (o ++ [(g, i)]) (gm_add g i m).
Proof.
  intros [Hnd Hsound Hcompl Hsorted Hbound] Hle.
  constructor.
  - rewrite gm_add_names. destruct (mem_string g (names m)) eqn:E; [assumption|].
    apply mem_string_notIn in E.
    apply NoDup_app_snoc; assumption.
  - intros h f l Hin.
    destruct (gm_add_in _ _ _ _ _ _ Hnd Hin) as [[Hne Hin']|(-> & -> & Hcase)].
    + destruct (Hsound _ _ _ Hin') as (Hf & Hl & Hall).
      repeat split; try (apply in_app_iff; left; assumption).
      * apply Hall. apply in_app_iff in H as [H|[H|[]]]; [assumption | congruence].
      * apply Hall. apply in_app_iff in H as [H|[H|[]]]; [assumption | congruence].
    + destruct Hcase as [[l0 Hl0]|[-> Hni]].
      * destruct (Hsound _ _ _ Hl0) as (Hf & Hl & Hall).
        split; [apply in_app_iff; left; assumption|].
        split; [apply in_app_iff; right; left; reflexivity|].
        intros j Hj. apply in_app_iff in Hj as [Hj|[Hj|[]]].
        -- split; [apply Hall; assumption | apply (Hle _ Hj)].
        -- inversion Hj; subst j. split; [|lia].
           specialize (Hle _ Hf). cbn in Hle. exact Hle.
      * split; [apply in_app_iff; right; left; reflexivity|].
        split; [apply in_app_iff; right; left; reflexivity|].
        intros j Hj. apply in_app_iff in Hj as [Hj|[Hj|[]]].
        -- exfalso. apply Hni. eapply Hcompl; eassumption.
        -- inversion Hj; subst j. lia.
  - intros h j Hin. rewrite gm_add_names.
    apply in_app_iff in Hin as [Hin|[Hin|[]]].
    + specialize (Hcompl _ _ Hin).
      destruct (mem_string g (names m)); [assumption | apply in_app_iff; left; assumption].
    + inversion Hin; subst h j.
      destruct (mem_string g (names m)) eqn:E; [apply mem_string_In; assumption|].
      apply in_app_iff; right; left; reflexivity.
  - rewrite gm_add_firsts. destruct (mem_string g (names m)); [assumption|].
    apply SSorted_le_snoc; [assumption|].
    intros x Hx. apply in_map_iff in Hx as (e & <- & He).
    destruct (Hbound _ He) as (g' & Hg'). apply (Hle _ Hg').
  - intros [[h f] l] Hin. unfold ge_first; cbn [fst snd].
    destruct (gm_add_in _ _ _ _ _ _ Hnd Hin) as [[Hne Hin']|(-> & -> & Hcase)].
    + destruct (Hbound _ Hin') as (g' & Hg'). exists g'. apply in_app_iff; left. exact Hg'.
    + destruct Hcase as [[l0 Hl0]|[-> Hni]].
      * destruct (Hbound _ Hl0) as (g' & Hg'). exists g'. apply in_app_iff; left. exact Hg'.
      * exists g. apply in_app_iff; right; left; reflexivity.
Qed.

Lemma SSorted_app_inv_l {A} (R : A -> A -> Prop) l1 l2 :
  StronglySorted R (l1 ++ l2) -> StronglySorted R l1.
Proof.
  induction l1 as [|a t IH]; intros H; [constructor|].
  cbn [app] in H. inversion H as [|? ? Ht Ha]; subst.
  constructor; [apply IH; assumption|].
  apply Forall_app in Ha as [Ha _]. assumption.
Qed.

Lemma SSorted_mid {A} (R : A -> A -> Prop) l1 x l2 :
  StronglySorted R (l1 ++ x :: l2) -> forall y, In y l1 -> R y x.
Proof.
  induction l1 as [|a t IH]; intros H y Hy; [destruct Hy|].
  cbn [app] in H. inversion H as [|? ? Ht Ha]; subst.
  destruct Hy as [<-|Hy].
  - rewrite Forall_forall in Ha. apply Ha. apply in_app_iff; right; left; reflexivity.
  - apply IH; assumption.
Qed.

Lemma gm_fold_inv rest : forall o m,
  gm_inv o m -> StronglySorted idx_le (o ++ rest) -> gm_inv (o ++ rest) (gm_fold rest m).
Proof.
  induction rest as [|[g i] r IH]; intros o m Hinv Hs.
  - rewrite app_nil_r. exact Hinv.
  - cbn [gm_fold fold_left fst snd]. fold (gm_fold r (gm_add g i m)).
    replace (o ++ (g, i) :: r) with ((o ++ [(g, i)]) ++ r) by (rewrite <- app_assoc; reflexivity).
    apply IH.
    + apply gm_inv_step; [assumption|].
      intros x Hx. apply (SSorted_mid _ _ _ _ Hs x Hx).
    + rewrite <- app_assoc. exact Hs.
Qed.

Lemma gene_map_inv rows : gm_inv (occs 0 rows) (gene_map rows).
Proof.
  unfold gene_map. apply (gm_fold_inv (occs 0 rows) [] []); [apply gm_inv_nil|].
  apply occs_sorted.
Qed.

(* ---- the gene map against the specification ------------------------------------- *)

Lemma occs0_gene_at rows g i : In (g, i) (occs 0 rows) <-> gene_at rows g i.
Proof.
  rewrite occs_in. unfold gene_at. split.
  - intros (j & b & -> & Hn & Hg). exists b. auto.
  - intros (b & Hn & Hg). exists i, b. auto.
Qed.

Lemma gene_map_sound rows g f l :
  In (g, f, l) (gene_map rows) -> gene_span rows g f l.
Proof.
  intros Hin. destruct (inv_sound _ _ (gene_map_inv rows) _ _ _ Hin) as (Hf & Hl & Hall).
  unfold gene_span. rewrite <- !occs0_gene_at. repeat split; auto;
    apply Hall; apply occs0_gene_at; assumption.
Qed.

Lemma gene_span_unique rows g f l f' l' :
  gene_span rows g f l -> gene_span rows g f' l' -> f = f' /\ l = l'.
Proof.
  intros (Hf & Hl & Hall) (Hf' & Hl' & Hall').
  pose proof (Hall _ Hf'). pose proof (Hall _ Hl'). pose proof (Hall' _ Hf). pose proof (Hall' _ Hl).
  lia.
Qed.

Lemma gene_map_has rows g i :
  gene_at rows g i -> exists f l, In (g, f, l) (gene_map rows).
Proof.
  intros Hat. apply occs0_gene_at in Hat.
  pose proof (inv_complete _ _ (gene_map_inv rows) _ _ Hat) as Hn.
  apply in_map_iff in Hn as ([[h f] l] & Heq & Hin). unfold ge_name in Heq; cbn in Heq; subst h.
  eauto.
Qed.

Lemma gene_map_complete rows g f l :
  gene_span rows g f l -> In (g, f, l) (gene_map rows).
Proof.
  intros Hsp. destruct (gene_map_has rows g f) as (f' & l' & Hin); [apply Hsp|].
  destruct (gene_span_unique _ _ _ _ _ _ Hsp (gene_map_sound _ _ _ _ Hin)) as [-> ->].
  exact Hin.
Qed.

Lemma gene_map_nodup rows : NoDup (names (gene_map rows)).
Proof. apply (inv_nodup _ _ (gene_map_inv rows)). Qed.

Lemma gene_map_sorted rows : StronglySorted le (firsts (gene_map rows)).
Proof. apply (inv_sorted _ _ (gene_map_inv rows)). Qed.

Lemma gene_span_bounds rows g f l : gene_span rows g f l -> f <= l /\ l < length rows.
Proof.
  intros (Hf & (b & Hn & _) & Hall). split.
  - apply (Hall _ Hf).
  - apply nth_error_Some. congruence.
Qed.

Lemma gene_map_iff rows g f l : In (g, f, l) (gene_map rows) <-> gene_span rows g f l.
Proof. split; [apply gene_map_sound | apply gene_map_complete]. Qed.
