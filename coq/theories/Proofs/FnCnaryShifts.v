(* C15 function-body tie of compare_sex_chromosomes' chrX shifts (cnvlib/cnary.py), translated on every run
   (Gen/FnCnaryShifts.v):

       female_x_shift, male_x_shift = (-1, 0) if is_haploid_x_reference else (0, +1)

   Model/Sex.v's x_shifts (numbers from Gen/CenterDefaults.v) IS the translated pair. *)
From CNV Require Import Base.Prelude Base.Str Base.QNum Gen.CenterDefaults Model.Center Model.Sex Gen.FnCnaryShifts.
Local Open Scope Q_scope.

Theorem fn_x_shifts_eq hap :
  x_shifts hap = (inject_Z (fst (fn_x_shifts hap)), inject_Z (snd (fn_x_shifts hap))).
Proof. destruct hap; reflexivity. Qed.
