(* C03 proofs, part 1: the chain invariant `tiles` (items with an interval and a
   group of bins lying inside it, laid out left to right between two bounds) and
   everything the property reads off it: order, disjointness, the group of an item
   is exactly the set of grouped bins it contains, every grouped bin is in exactly
   one item. Generic in the item type. *)
From CNV Require Import Base.Prelude Model.Segment Spec.Segments.

Lemma filter_all_true {A} (p : A -> bool) (l : list A) :
  Forall (fun x => p x = true) l -> filter p l = l.
Proof.
  induction 1 as [|x t Hx _ IH]; cbn; [reflexivity|]. rewrite Hx, IH. reflexivity.
Qed.

Lemma filter_all_false {A} (p : A -> bool) (l : list A) :
  Forall (fun x => p x = false) l -> filter p l = [].
Proof.
  induction 1 as [|x t Hx _ IH]; cbn; [reflexivity|]. rewrite Hx, IH. reflexivity.
Qed.

Lemma filter_app' {A} (p : A -> bool) (a b : list A) : filter p (a ++ b) = filter p a ++ filter p b.
Proof. induction a as [|x t IH]; cbn; [reflexivity|]. destruct (p x); cbn; rewrite IH; reflexivity. Qed.

Section Tiles.
Context {A : Type} (lo hi : A -> Z) (grp : A -> list bin).

Definition inb (a : A) (b : bin) : Prop := lo a <= b_lo b /\ b_lo b < b_hi b /\ b_hi b <= hi a.

Fixpoint tiles (e : Z) (l : list A) (E : Z) : Prop :=
  match l with
  | [] => e <= E
  | a :: t => e <= lo a /\ lo a < hi a /\ Forall (inb a) (grp a) /\ tiles (hi a) t E
  end.

Lemma tiles_le e l E : tiles e l E -> e <= E.
Proof.
  revert e; induction l as [|a t IH]; intros e H; cbn in H; [exact H|].
  destruct H as (H1 & H2 & _ & H4). apply IH in H4. lia.
Qed.

Lemma tiles_weaken e e' l E E' : e' <= e -> E <= E' -> tiles e l E -> tiles e' l E'.
Proof.
  revert e e'; induction l as [|a t IH]; intros e e' He HE H; cbn in *; [lia|].
  destruct H as (H1 & H2 & H3 & H4). repeat split; try lia; try assumption.
  apply (IH (hi a) (hi a)); [lia|assumption|assumption].
Qed.

Lemma tiles_app e a m b E : tiles e a m -> tiles m b E -> tiles e (a ++ b) E.
Proof.
  revert e; induction a as [|x t IH]; intros e Ha Hb; cbn in *.
  - apply (tiles_weaken m e b E E); [lia|lia|assumption].
  - destruct Ha as (H1 & H2 & H3 & H4). repeat split; try assumption. apply IH; assumption.
Qed.

(* every item starts at or after the lower bound and ends at or before the upper one *)
Lemma tiles_bounds e l E : tiles e l E -> Forall (fun a => e <= lo a /\ lo a < hi a /\ hi a <= E) l.
Proof.
  revert e; induction l as [|a t IH]; intros e H; cbn in H; [constructor|].
  destruct H as (H1 & H2 & H3 & H4). constructor.
  - pose proof (tiles_le _ _ _ H4). lia.
  - eapply Forall_impl; [|apply (IH _ H4)]. cbn. intros x Hx. lia.
Qed.

Definition grouped (l : list A) : list bin := concat (map grp l).

Lemma tiles_grouped e l E :
  tiles e l E -> Forall (fun b => e <= b_lo b /\ b_lo b < b_hi b /\ b_hi b <= E) (grouped l).
Proof.
  revert e; induction l as [|a t IH]; intros e H; cbn in H; [constructor|].
  destruct H as (H1 & H2 & H3 & H4). unfold grouped; cbn. apply Forall_app. split.
  - pose proof (tiles_le _ _ _ H4). eapply Forall_impl; [|exact H3]. unfold inb; cbn. intros b Hb. lia.
  - eapply Forall_impl; [|apply (IH _ H4)]. cbn. intros b Hb. lia.
Qed.

(* ---- order --------------------------------------------------------------- *)

Lemma tiles_sorted e l E : tiles e l E -> StronglySorted (fun a b => hi a <= lo b) l.
Proof.
  revert e; induction l as [|a t IH]; intros e H; cbn in H; [constructor|].
  destruct H as (H1 & H2 & H3 & H4). constructor; [eapply IH; exact H4|].
  eapply Forall_impl; [|apply (tiles_bounds _ _ _ H4)]. cbn. intros x Hx. lia.
Qed.

(* ---- containment --------------------------------------------------------- *)

Definition cont (a : A) (b : bin) : bool := (lo a <=? b_lo b) && (b_hi b <=? hi a).

Lemma tiles_group_exact e l E :
  tiles e l E -> Forall (fun a => filter (cont a) (grouped l) = grp a) l.
Proof.
  revert e; induction l as [|a t IH]; intros e H; [constructor|].
  pose proof H as H0. cbn in H. destruct H as (H1 & H2 & H3 & H4).
  pose proof (tiles_grouped _ _ _ H4) as Hrest.
  pose proof (tiles_bounds _ _ _ H4) as Hb.
  unfold grouped; cbn [map concat]. constructor.
  - rewrite filter_app'. rewrite (filter_all_true (cont a) (grp a)).
    + rewrite filter_all_false; [apply app_nil_r|].
      eapply Forall_impl; [|exact Hrest]. cbn. unfold cont. intros b Hbb. lia.
    + eapply Forall_impl; [|exact H3]. unfold inb, cont. intros b Hbb. lia.
  - specialize (IH _ H4). rewrite Forall_forall in IH, Hb |- *. intros a' Ha'.
    rewrite filter_app'. rewrite filter_all_false.
    + cbn. apply IH; exact Ha'.
    + specialize (Hb _ Ha'). eapply Forall_impl; [|exact H3]. unfold inb, cont. intros b Hbb. lia.
Qed.

Lemma tiles_exactly_one e l E :
  tiles e l E -> Forall (fun b => length (filter (fun a => cont a b) l) = 1%nat) (grouped l).
Proof.
  revert e; induction l as [|a t IH]; intros e H; [constructor|].
  cbn in H. destruct H as (H1 & H2 & H3 & H4).
  pose proof (tiles_grouped _ _ _ H4) as Hrest.
  pose proof (tiles_bounds _ _ _ H4) as Hb.
  unfold grouped; cbn [map concat]. apply Forall_app. split.
  - rewrite Forall_forall in H3 |- *. intros b Hbin. specialize (H3 _ Hbin). unfold inb in H3.
    cbn [filter]. replace (cont a b) with true by (unfold cont; lia).
    rewrite filter_all_false; [reflexivity|].
    eapply Forall_impl; [|exact Hb]. cbn. unfold cont. intros a' Ha'. lia.
  - specialize (IH _ H4). rewrite Forall_forall in IH, Hrest |- *. intros b Hbin.
    specialize (Hrest _ Hbin). cbn [filter].
    replace (cont a b) with false by (unfold cont; lia). apply IH; exact Hbin.
Qed.

Lemma grouped_length (l : list A) :
  sumZ (map (fun a => Z.of_nat (length (grp a))) l) = Z.of_nat (length (grouped l)).
Proof.
  induction l as [|a t IH]; [reflexivity|]. unfold grouped in *; cbn [map concat sumZ].
  rewrite app_length, IH. lia.
Qed.

End Tiles.

Arguments tiles {A} lo hi grp e l E.
Arguments grouped {A} grp l.
Arguments cont {A} lo hi a b.
Arguments inb {A} lo hi a b.

(* tiles is stable under a map that preserves the three projections *)
Lemma tiles_map {A B} (f : B -> A) lo hi grp lo' hi' grp' e (l : list B) E :
  (forall x, lo (f x) = lo' x) -> (forall x, hi (f x) = hi' x) -> (forall x, grp (f x) = grp' x) ->
  tiles lo' hi' grp' e l E -> tiles lo hi grp e (map f l) E.
Proof.
  intros Hl Hh Hg. revert e; induction l as [|x t IH]; intros e H; cbn in *; [exact H|].
  destruct H as (H1 & H2 & H3 & H4). rewrite Hl, Hh, Hg. repeat split; try assumption.
  - eapply Forall_impl; [|exact H3]. unfold inb. intros b. rewrite Hl, Hh. tauto.
  - apply IH; exact H4.
Qed.

Lemma grouped_map {A B} (f : B -> A) grp grp' (l : list B) :
  (forall x, grp (f x) = grp' x) -> grouped grp (map f l) = grouped grp' l.
Proof.
  intros Hg. unfold grouped. rewrite map_map. f_equal. apply map_ext. exact Hg.
Qed.

Lemma grouped_app {A} (grp : A -> list bin) a b : grouped grp (a ++ b) = grouped grp a ++ grouped grp b.
Proof. unfold grouped. rewrite map_app, concat_app. reflexivity. Qed.
