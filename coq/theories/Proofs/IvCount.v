(* Counting the bases covered by an interval table: the total size of a sorted,
   pairwise disjoint table equals the number of bases it covers. *)
From CNV Require Import Base.Prelude Model.IvRow Spec.Cover Proofs.IvCover.

(* ---- zrange ----------------------------------------------------------- *)

Lemma zrange_In (a : Z) (n : nat) (x : Z) :
  In x (zrange a n) <-> a <= x < a + Z.of_nat n.
Proof.
  revert a. induction n as [|n IH]; intros a.
  - simpl. lia.
  - cbn [zrange In]. rewrite IH. lia.
Qed.

Lemma zrange_length (a : Z) (n : nat) : length (zrange a n) = n.
Proof.
  revert a. induction n as [|n IH]; intros a; simpl; auto.
Qed.

Lemma zrange_app (a : Z) (n m : nat) :
  zrange a (n + m) = zrange a n ++ zrange (a + Z.of_nat n) m.
Proof.
  revert a. induction n as [|n IH]; intros a.
  - simpl. f_equal. lia.
  - cbn [Nat.add zrange app]. rewrite IH.
    replace (a + 1 + Z.of_nat n) with (a + Z.of_nat (S n)) by lia. reflexivity.
Qed.

(* ---- count_covered over windows -------------------------------------- *)

Lemma count_covered_split {A} (t : list (@row A)) (a : Z) (n m : nat) :
  count_covered t a (n + m) =
  count_covered t a n + count_covered t (a + Z.of_nat n) m.
Proof.
  unfold count_covered. rewrite zrange_app, filter_app, app_length. lia.
Qed.

Lemma count_covered_ext_in {A B} (t1 : list (@row A)) (t2 : list (@row B))
      (a : Z) (n : nat) :
  (forall x, a <= x < a + Z.of_nat n -> covers_b t1 x = covers_b t2 x) ->
  count_covered t1 a n = count_covered t2 a n.
Proof.
  intros H. unfold count_covered. do 2 f_equal.
  apply filter_ext_in. intros x Hx. apply H. apply zrange_In; exact Hx.
Qed.

Lemma count_covered_none {A} (t : list (@row A)) (a : Z) (n : nat) :
  (forall x, a <= x < a + Z.of_nat n -> ~ covers t x) ->
  count_covered t a n = 0.
Proof.
  intros H. unfold count_covered.
  assert (E : filter (covers_b t) (zrange a n) = []).
  { assert (G : forall l, (forall x, In x l -> covers_b t x = false) ->
                          filter (covers_b t) l = []).
    { induction l as [|y l IH]; intros Hl; simpl; auto.
      rewrite (Hl y) by (simpl; auto). apply IH. intros x Hx. apply Hl; simpl; auto. }
    apply G. intros x Hx. apply covers_b_false. apply H. apply zrange_In; exact Hx. }
  rewrite E. reflexivity.
Qed.

Lemma count_covered_all {A} (t : list (@row A)) (a : Z) (n : nat) :
  (forall x, a <= x < a + Z.of_nat n -> covers t x) ->
  count_covered t a n = Z.of_nat n.
Proof.
  intros H. unfold count_covered.
  assert (E : filter (covers_b t) (zrange a n) = zrange a n).
  { assert (G : forall l, (forall x, In x l -> covers_b t x = true) ->
                          filter (covers_b t) l = l).
    { induction l as [|y l IH]; intros Hl; simpl; auto.
      rewrite (Hl y) by (simpl; auto). f_equal. apply IH.
      intros x Hx. apply Hl; simpl; auto. }
    apply G. intros x Hx. apply covers_b_spec. apply H. apply zrange_In; exact Hx. }
  rewrite E, zrange_length. reflexivity.
Qed.

Lemma count_covered_cover_ext {A B} (t1 : list (@row A)) (t2 : list (@row B)) a n :
  (forall x, covers t1 x <-> covers t2 x) ->
  count_covered t1 a n = count_covered t2 a n.
Proof.
  intros H. apply count_covered_ext_in. intros x _.
  destruct (covers_b t1 x) eqn:E1, (covers_b t2 x) eqn:E2; auto.
  - apply covers_b_spec in E1. apply H in E1. apply covers_b_spec in E1. congruence.
  - apply covers_b_spec in E2. apply H in E2. apply covers_b_spec in E2. congruence.
Qed.

(* ---- sorted, disjoint tables ----------------------------------------- *)

Lemma overlap_below_1_disjoint {A} (t : list (@row A)) :
  overlap_below 1 t -> sorted_disjoint t.
Proof.
  unfold overlap_below, sorted_disjoint. apply chain_impl. intros a b H. lia.
Qed.

Lemma sorted_disjoint_head {A} (r : @row A) (t : list (@row A)) :
  valid (r :: t) -> sorted_disjoint (r :: t) ->
  Forall (fun b => hi r <= lo b) t.
Proof.
  revert r. induction t as [|b t IH]; intros r Hv Hs; constructor.
  - destruct Hs as [Hrb _]. exact Hrb.
  - destruct Hs as [Hrb Hs].
    apply valid_cons in Hv as [_ Hv].
    pose proof (IH b Hv Hs) as Hb.
    apply valid_cons in Hv as [Hvb _].
    rewrite Forall_forall in *. intros z Hz. specialize (Hb z Hz). lia.
Qed.

Lemma sum_sizes_count {A} (t : list (@row A)) (a : Z) (n : nat) :
  valid t -> sorted_disjoint t ->
  Forall (fun r => a <= lo r /\ hi r <= a + Z.of_nat n) t ->
  sumZ (map hi t) - sumZ (map lo t) = count_covered t a n.
Proof.
  revert a n. induction t as [|r t IH]; intros a n Hv Hs Hb.
  - simpl. symmetry. apply count_covered_none. intros x _. apply covers_nil.
  - pose proof (sorted_disjoint_head r t Hv Hs) as Hhead.
    pose proof (proj1 (valid_cons r t) Hv) as [Hr Hvt].
    pose proof (chain_tail _ r t Hs) as Hst.
    inversion Hb as [|r' t' [Hlo Hhi] Hbt]; subst r' t'.
    rewrite Forall_forall in Hhead, Hbt.
    set (n1 := Z.to_nat (lo r - a)).
    set (n2 := Z.to_nat (hi r - lo r)).
    set (n3 := Z.to_nat (a + Z.of_nat n - hi r)).
    assert (En : n = (n1 + (n2 + n3))%nat) by (unfold n1, n2, n3; lia).
    assert (E1 : a + Z.of_nat n1 = lo r) by (unfold n1; lia).
    assert (E2 : lo r + Z.of_nat n2 = hi r) by (unfold n2; lia).
    assert (E3 : hi r + Z.of_nat n3 = a + Z.of_nat n) by (unfold n3; lia).
    rewrite En, !count_covered_split. rewrite E1, E2.
    (* nothing covered before lo r *)
    rewrite (count_covered_none (r :: t) a n1).
    2:{ intros x Hx Hc. apply covers_cons in Hc as [Hc | [b [Hin Hc]]]; [lia|].
        specialize (Hhead b Hin). lia. }
    (* everything covered in [lo r, hi r) *)
    rewrite (count_covered_all (r :: t) (lo r) n2).
    2:{ intros x Hx. apply covers_cons. left. lia. }
    (* after hi r, r is irrelevant *)
    rewrite (count_covered_ext_in (r :: t) t (hi r) n3).
    2:{ intros x Hx. unfold covers_b. cbn [existsb].
        replace ((lo r <=? x) && (x <? hi r)) with false by lia.
        reflexivity. }
    rewrite <- (IH (hi r) n3 Hvt Hst).
    2:{ rewrite Forall_forall. intros b Hin. specialize (Hhead b Hin).
        specialize (Hbt b Hin). lia. }
    cbn [map sumZ]. lia.
Qed.
