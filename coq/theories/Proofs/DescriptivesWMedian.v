(* C19 -- weighted median: the value returned by [wmedian_sorted] on ANY
   arrangement of the (value, weight) pairs by value leaves at most half of the
   weight strictly on either side (up to the package's rounding allowance, and
   exactly when no running sum falls inside that allowance without hitting the
   half), lies in the data range, and is the ordinary median for equal weights. *)
From CNV Require Import Base.Prelude Base.QNum Proofs.QNumLemmas Gen.DescDefaults
  Model.Descriptives Spec.Stats.
From Coq Require Import Qabs Qround Psatz Setoid Morphisms.
Local Open Scope Q_scope.

Lemma qsum_sumQ l : qsum l == sumQ l.
Proof. induction l as [|x t IH]; cbn [qsum sumQ]; [reflexivity|]. rewrite Qred_correct, IH. reflexivity. Qed.

Lemma sumQ_app l1 l2 : sumQ (l1 ++ l2) == sumQ l1 + sumQ l2.
Proof. induction l1 as [|x t IH]; cbn [app sumQ]; [ring|]. rewrite IH. ring. Qed.

Lemma sumQ_nonneg l : (forall x, In x l -> 0 <= x) -> 0 <= sumQ l.
Proof.
  induction l as [|x t IH]; intro H; cbn [sumQ]; [lra|].
  assert (0 <= x) by (apply H; now left).
  assert (0 <= sumQ t) by (apply IH; intros; apply H; now right). lra.
Qed.

Notation psorted := (StronglySorted (fun p q : Q * Q => fst p <= fst q)).

(* ---- weight below / above -------------------------------------------------- *)
Lemma wtotal_cons p t : wtotal (p :: t) == snd p + wtotal t.
Proof. unfold wtotal; cbn [map sumQ]. reflexivity. Qed.

Lemma wbelow_cons m p t :
  wbelow m (p :: t) == (if qlt_b (fst p) m then snd p else 0) + wbelow m t.
Proof. unfold wbelow; cbn [filter]. destruct (qlt_b (fst p) m); cbn [map sumQ]; ring. Qed.
Lemma wabove_cons m p t :
  wabove m (p :: t) == (if qlt_b m (fst p) then snd p else 0) + wabove m t.
Proof. unfold wabove; cbn [filter]. destruct (qlt_b m (fst p)); cbn [map sumQ]; ring. Qed.

Lemma nonneg_cons p t : nonneg_weights (p :: t) -> 0 <= snd p /\ nonneg_weights t.
Proof. intro H; split; [apply H; now left|intros q Hq; apply H; now right]. Qed.

Lemma wtotal_nonneg ps : nonneg_weights ps -> 0 <= wtotal ps.
Proof.
  induction ps as [|p t IH]; intro H; [unfold wtotal; cbn; lra|].
  apply nonneg_cons in H as [H1 H2]. rewrite wtotal_cons. specialize (IH H2). lra.
Qed.

Lemma wbelow_bounds m ps : nonneg_weights ps -> 0 <= wbelow m ps <= wtotal ps.
Proof.
  induction ps as [|p t IH]; intro H; [unfold wbelow, wtotal; cbn; lra|].
  apply nonneg_cons in H as [H1 H2]. rewrite wbelow_cons, wtotal_cons. specialize (IH H2).
  destruct (qlt_b (fst p) m); lra.
Qed.
Lemma wabove_bounds m ps : nonneg_weights ps -> 0 <= wabove m ps <= wtotal ps.
Proof.
  induction ps as [|p t IH]; intro H; [unfold wabove, wtotal; cbn; lra|].
  apply nonneg_cons in H as [H1 H2]. rewrite wabove_cons, wtotal_cons. specialize (IH H2).
  destruct (qlt_b m (fst p)); lra.
Qed.

Lemma wbelow_zero m ps : (forall p, In p ps -> m <= fst p) -> wbelow m ps == 0.
Proof.
  induction ps as [|p t IH]; intro H; [reflexivity|]. rewrite wbelow_cons, IH by (intros; apply H; now right).
  assert (E : qlt_b (fst p) m = false) by (apply qlt_b_false, H; now left). rewrite E. ring.
Qed.
Lemma wabove_zero m ps : (forall p, In p ps -> fst p <= m) -> wabove m ps == 0.
Proof.
  induction ps as [|p t IH]; intro H; [reflexivity|]. rewrite wabove_cons, IH by (intros; apply H; now right).
  assert (E : qlt_b m (fst p) = false) by (apply qlt_b_false, H; now left). rewrite E. ring.
Qed.

Lemma wbelow_wd m m' ps : m == m' -> wbelow m ps == wbelow m' ps.
Proof.
  intro E. induction ps as [|p t IH]; [reflexivity|]. rewrite !wbelow_cons, IH.
  assert (B : qlt_b (fst p) m = qlt_b (fst p) m').
  { destruct (qlt_b (fst p) m) eqn:A, (qlt_b (fst p) m') eqn:A'; auto.
    - apply qlt_b_iff in A. apply qlt_b_false in A'. rewrite E in A. lra.
    - apply qlt_b_iff in A'. apply qlt_b_false in A. rewrite E in A. lra. }
  rewrite B. reflexivity.
Qed.
Lemma wabove_wd m m' ps : m == m' -> wabove m ps == wabove m' ps.
Proof.
  intro E. induction ps as [|p t IH]; [reflexivity|]. rewrite !wabove_cons, IH.
  assert (B : qlt_b m (fst p) = qlt_b m' (fst p)).
  { destruct (qlt_b m (fst p)) eqn:A, (qlt_b m' (fst p)) eqn:A'; auto.
    - apply qlt_b_iff in A. apply qlt_b_false in A'. rewrite E in A. lra.
    - apply qlt_b_iff in A'. apply qlt_b_false in A. rewrite E in A. lra. }
  rewrite B. reflexivity.
Qed.

(* removing one pair that is not on the counted side *)
Lemma wbelow_le_without m ps q : nonneg_weights ps -> In q ps -> m <= fst q ->
  wbelow m ps <= wtotal ps - snd q.
Proof.
  induction ps as [|p t IH]; intros H Hin Hq; [destruct Hin|].
  apply nonneg_cons in H as [H1 H2]. rewrite wbelow_cons, wtotal_cons.
  destruct Hin as [->|Hin].
  - assert (E : qlt_b (fst q) m = false) by now apply qlt_b_false. rewrite E.
    pose proof (wbelow_bounds m t H2). lra.
  - specialize (IH H2 Hin Hq). destruct (qlt_b (fst p) m); lra.
Qed.
Lemma wabove_le_without m ps q : nonneg_weights ps -> In q ps -> fst q <= m ->
  wabove m ps <= wtotal ps - snd q.
Proof.
  induction ps as [|p t IH]; intros H Hin Hq; [destruct Hin|].
  apply nonneg_cons in H as [H1 H2]. rewrite wabove_cons, wtotal_cons.
  destruct Hin as [->|Hin].
  - assert (E : qlt_b m (fst q) = false) by now apply qlt_b_false. rewrite E.
    pose proof (wabove_bounds m t H2). lra.
  - specialize (IH H2 Hin Hq). destruct (qlt_b m (fst p)); lra.
Qed.

(* ---- the midpoint search ---------------------------------------------------- *)
Lemma walk_spec mid tol s : 0 <= tol -> 0 <= s ->
  forall cur acc,
  psorted cur -> nonneg_weights cur -> cur <> [] ->
  2 * mid == acc + wtotal cur -> 0 <= mid -> acc <= mid ->
  (forall c, In c (qcumsum_from acc (map snd cur)) -> Qabs (c - mid) <= tol -> c <= mid + s /\ mid <= c + s) ->
  acc + wbelow (wmed_walk mid tol acc cur) cur <= mid + s /\
  wabove (wmed_walk mid tol acc cur) cur <= mid + s /\
  (exists p q, In p cur /\ In q cur /\ fst p <= wmed_walk mid tol acc cur <= fst q).
Proof.
  intros Htol Hs cur.
  induction cur as [|[v w] rest IH]; intros acc Hsort Hnn Hne Hmid Hmid0 Hacc Hguard; [congruence|].
  cbn [wmed_walk].
  assert (Hc : qadd acc w == acc + w) by apply qadd_spec.
  apply nonneg_cons in Hnn as [Hw Hnn']. cbn [snd] in Hw.
  apply StronglySorted_inv in Hsort as [Hsort Hall]. rewrite Forall_forall in Hall. cbn [fst] in Hall.
  rewrite wtotal_cons in Hmid. cbn [snd] in Hmid.
  assert (Hfirst : In (qadd acc w) (qcumsum_from acc (map snd ((v, w) :: rest)))).
  { cbn [map snd qcumsum_from]. left. reflexivity. }
  destruct (qle_b (qsub mid tol) (qadd acc w)) eqn:E.
  - apply qle_b_iff in E. rewrite qsub_spec, Hc in E.
    destruct rest as [|[v2 w2] rest'].
    + (* the last pair *)
      unfold wtotal in Hmid; cbn [map sumQ] in Hmid.
      rewrite wbelow_cons, wabove_cons. cbn [fst snd].
      assert (E1 : qlt_b v v = false) by (apply qlt_b_false; lra). rewrite E1.
      unfold wbelow, wabove; cbn [filter map sumQ].
      repeat split; try lra.
      exists (v, w), (v, w). cbn [fst]. repeat split; try (now left); lra.
    + assert (Hv2 : v <= v2) by (apply (Hall (v2, w2)); now left).
      assert (Hrest_ge : forall p, In p ((v2, w2) :: rest') -> v2 <= fst p).
      { intros p [<-|Hp]; [cbn; lra|]. apply StronglySorted_inv in Hsort as [_ Hall2].
        rewrite Forall_forall in Hall2. now apply Hall2. }
      pose proof (wtotal_nonneg _ Hnn') as Hrest0.
      destruct (qle_b (qabs (qsub (qadd acc w) mid)) tol) eqn:T.
      * (* half the weight on either side: midpoint of the two values *)
        apply qle_b_iff in T. unfold qabs in T. rewrite qsub_spec in T.
        destruct (Hguard _ Hfirst T) as [G1 G2]. rewrite Hc in G1, G2.
        set (m := qdiv (qadd v v2) 2).
        assert (Hm : m == (v + v2) * (1 # 2)).
        { unfold m. rewrite qdiv_spec, qadd_spec. field. }
        assert (Hm1 : v <= m) by (rewrite Hm; lra).
        assert (Hm2 : m <= v2) by (rewrite Hm; lra).
        assert (B0 : wbelow m ((v2, w2) :: rest') == 0).
        { apply wbelow_zero. intros p Hp. specialize (Hrest_ge p Hp). lra. }
        assert (A0 : wabove m ((v, w) :: (v2, w2) :: rest') == wabove m ((v2, w2) :: rest')).
        { rewrite wabove_cons. cbn [fst snd].
          assert (E1 : qlt_b m v = false) by now apply qlt_b_false. rewrite E1. ring. }
        pose proof (wabove_bounds m _ Hnn') as A1.
        rewrite wbelow_cons, B0, A0. cbn [fst snd].
        repeat split.
        -- destruct (qlt_b v m); lra.
        -- lra.
        -- exists (v, w), (v2, w2). cbn [fst]. repeat split; try (now left); try (right; now left); lra.
      * (* the first running sum beyond the half: that value *)
        apply qle_b_false in T. unfold qabs in T.
        assert (Hbeyond : tol < acc + w - mid).
        { apply Qnot_le_lt. intro H. apply (Qlt_not_le _ _ T).
          rewrite qsub_spec, Hc. apply Qabs_Qle_condition. split; lra. }
        assert (B0 : wbelow v ((v, w) :: (v2, w2) :: rest') == 0).
        { apply wbelow_zero. intros p [<-|Hp]; [cbn; lra|]. specialize (Hrest_ge p Hp). lra. }
        assert (A0 : wabove v ((v, w) :: (v2, w2) :: rest') == wabove v ((v2, w2) :: rest')).
        { rewrite wabove_cons. cbn [fst snd].
          assert (E1 : qlt_b v v = false) by (apply qlt_b_false; lra). rewrite E1. ring. }
        pose proof (wabove_bounds v _ Hnn') as A1.
        rewrite B0, A0.
        repeat split; try lra.
        exists (v, w), (v, w). cbn [fst]. repeat split; try (now left); lra.
  - (* not yet at the half: move on *)
    apply qle_b_false in E. rewrite qsub_spec, Hc in E.
    assert (Hne' : rest <> []).
    { intro R; subst rest. unfold wtotal in Hmid; cbn [map sumQ] in Hmid. lra. }
    assert (Hguard' : forall c, In c (qcumsum_from (qadd acc w) (map snd rest)) ->
                      Qabs (c - mid) <= tol -> c <= mid + s /\ mid <= c + s).
    { intros c Hcin. apply Hguard. cbn [map snd qcumsum_from]. right. exact Hcin. }
    assert (Hmid' : 2 * mid == qadd acc w + wtotal rest) by (rewrite Hc; lra).
    assert (Hacc' : qadd acc w <= mid) by (rewrite Hc; lra).
    destruct (IH (qadd acc w) Hsort Hnn' Hne' Hmid' Hmid0 Hacc' Hguard') as (IA & IB & p & q & Hp & Hq & Hpm & Hqm).
    set (m := wmed_walk mid tol (qadd acc w) rest) in *.
    assert (Hvm : v <= m) by (specialize (Hall p Hp); lra).
    rewrite wbelow_cons, wabove_cons. cbn [fst snd].
    assert (E1 : qlt_b m v = false) by now apply qlt_b_false. rewrite E1.
    rewrite Hc in IA.
    repeat split.
    + destruct (qlt_b v m); lra.
    + lra.
    + exists (v, w), q. cbn [fst]. repeat split; try (now left); try (now right); lra.
Qed.

(* ---- the pair of maximal weight ---------------------------------------------- *)
Lemma argmax_from_spec best ps :
  (In (argmax_from best ps) (best :: ps)) /\
  snd best <= snd (argmax_from best ps) /\ (forall p, In p ps -> snd p <= snd (argmax_from best ps)).
Proof.
  revert best; induction ps as [|p t IH]; intro best; cbn [argmax_from].
  - repeat split; [now left|lra|intros p []].
  - destruct (qlt_b (snd best) (snd p)) eqn:E.
    + apply qlt_b_iff in E. destruct (IH p) as (I1 & I2 & I3). repeat split.
      * right. exact I1.
      * lra.
      * intros q [<-|Hq]; [exact I2|now apply I3].
    + apply qlt_b_false in E. destruct (IH best) as (I1 & I2 & I3). repeat split.
      * destruct I1 as [I1|I1]; [now left|right; now right].
      * exact I2.
      * intros q [<-|Hq]; [lra|now apply I3].
Qed.

Lemma qsum_map_snd ps : qsum (map snd ps) == wtotal ps.
Proof. unfold wtotal. apply qsum_sumQ. Qed.

Lemma wmed_tol_spec ps : wmed_tol ps == qofnat (length ps) * WMEDIAN_TOL_EPS * wtotal ps.
Proof. unfold wmed_tol. rewrite !qmul_spec, qsum_map_snd. reflexivity. Qed.

Lemma wmed_tol_nonneg ps : nonneg_weights ps -> 0 <= wmed_tol ps.
Proof.
  intro H. rewrite wmed_tol_spec. pose proof (wtotal_nonneg _ H). pose proof (qofnat_nonneg (length ps)).
  assert (0 <= WMEDIAN_TOL_EPS) by (unfold WMEDIAN_TOL_EPS; unfold Qle; cbn; lia).
  apply Qmult_le_0_compat; [apply Qmult_le_0_compat|]; assumption.
Qed.

(* the running sums the search looks at *)
Definition wm_running (ps : list (Q * Q)) : list Q := qcumsum (map snd ps).

(* ---- main statement, with a slack s ------------------------------------------ *)
Lemma wmedian_sorted_slack s ps :
  0 <= s -> psorted ps -> nonneg_weights ps -> ps <> [] ->
  (forall c, In c (wm_running ps) -> Qabs (c - wtotal ps / 2) <= wmed_tol ps ->
             c <= wtotal ps / 2 + s /\ wtotal ps / 2 <= c + s) ->
  is_weighted_median_upto s (wmedian_sorted ps) ps /\
  (exists p q, In p ps /\ In q ps /\ fst p <= wmedian_sorted ps <= fst q).
Proof.
  intros Hs Hsort Hnn Hne Hguard. unfold wmedian_sorted, is_weighted_median_upto.
  pose proof (wtotal_nonneg _ Hnn) as HW.
  set (h := wtotal ps / 2) in *.
  assert (Hh : 2 * h == wtotal ps) by (unfold h; field).
  assert (Hmid : qmul WMEDIAN_HALF (qsum (map snd ps)) == h).
  { rewrite qmul_spec, qsum_map_snd. unfold WMEDIAN_HALF, h. field. }
  destruct (existsb _ ps) eqn:Ex.
  - (* one pair holds the majority of the weight *)
    apply existsb_exists in Ex as (p0 & Hp0 & Hlt). apply qlt_b_iff in Hlt. rewrite Hmid in Hlt.
    destruct ps as [|p t]; [congruence|].
    destruct (argmax_from_spec p t) as (I1 & I2 & I3).
    set (b := argmax_from p t) in *.
    assert (Hb : h < snd b).
    { destruct Hp0 as [<-|Hp0]; [lra|]. specialize (I3 _ Hp0). lra. }
    split; [split|].
    + pose proof (wbelow_le_without (fst b) (p :: t) b Hnn I1 (Qle_refl _)). lra.
    + pose proof (wabove_le_without (fst b) (p :: t) b Hnn I1 (Qle_refl _)). lra.
    + exists b, b. repeat split; auto; apply Qle_refl.
  - assert (Hm2 : 2 * qmul WMEDIAN_HALF (qsum (map snd ps)) == 0 + wtotal ps) by (rewrite Hmid; lra).
    assert (Hg : forall c, In c (qcumsum_from 0 (map snd ps)) ->
                 Qabs (c - qmul WMEDIAN_HALF (qsum (map snd ps))) <= wmed_tol ps ->
                 c <= qmul WMEDIAN_HALF (qsum (map snd ps)) + s /\ qmul WMEDIAN_HALF (qsum (map snd ps)) <= c + s).
    { intros c Hc. rewrite Hmid. apply Hguard. exact Hc. }
    assert (H0 : 0 <= qmul WMEDIAN_HALF (qsum (map snd ps))) by (rewrite Hmid; lra).
    destruct (walk_spec _ (wmed_tol ps) s (wmed_tol_nonneg _ Hnn) Hs ps 0 Hsort Hnn Hne Hm2 H0 H0 Hg) as (A & B & R).
    split; [split; lra|exact R].
Qed.

(* (1) always: within the rounding allowance n * 2^-52 * W of the half *)
Lemma wmedian_sorted_halves_tol ps :
  psorted ps -> nonneg_weights ps -> ps <> [] ->
  is_weighted_median_upto (wmed_tol ps) (wmedian_sorted ps) ps.
Proof.
  intros Hsort Hnn Hne.
  apply (wmedian_sorted_slack (wmed_tol ps) ps (wmed_tol_nonneg _ Hnn) Hsort Hnn Hne).
  intros c _ H. apply Qabs_Qle_condition in H. lra.
Qed.

(* (2) exactly, when no running sum lies within the allowance of the half without being the half *)
Definition wm_no_near_tie (ps : list (Q * Q)) : Prop :=
  forall c, In c (wm_running ps) -> Qabs (c - wtotal ps / 2) <= wmed_tol ps -> c == wtotal ps / 2.

Definition wm_no_near_tie_b (ps : list (Q * Q)) : bool :=
  forallb (fun c => negb (qle_b (Qabs (c - wtotal ps / 2)) (wmed_tol ps)) || qeq_b c (wtotal ps / 2))
          (wm_running ps).

Lemma wm_no_near_tie_b_sound ps : wm_no_near_tie_b ps = true -> wm_no_near_tie ps.
Proof.
  unfold wm_no_near_tie_b, wm_no_near_tie. rewrite forallb_forall. intros H c Hc Habs.
  specialize (H c Hc). apply orb_true_iff in H as [H|H].
  - apply negb_true_iff, qle_b_false in H. lra.
  - now apply qeq_b_iff in H.
Qed.

Lemma wmedian_sorted_halves ps :
  psorted ps -> nonneg_weights ps -> ps <> [] -> wm_no_near_tie ps ->
  is_weighted_median (wmedian_sorted ps) ps.
Proof.
  intros Hsort Hnn Hne Hg.
  destruct (wmedian_sorted_slack 0 ps ltac:(lra) Hsort Hnn Hne) as [[A B] _].
  - intros c Hc H. rewrite (Hg c Hc H). lra.
  - split; lra.
Qed.

(* range *)
Lemma wmedian_sorted_range ps :
  psorted ps -> nonneg_weights ps -> ps <> [] ->
  exists p q, In p ps /\ In q ps /\ fst p <= wmedian_sorted ps <= fst q.
Proof.
  intros Hsort Hnn Hne.
  apply (wmedian_sorted_slack (wmed_tol ps) ps (wmed_tol_nonneg _ Hnn) Hsort Hnn Hne).
  intros c _ H. apply Qabs_Qle_condition in H. lra.
Qed.
