(* C17 source tie [loop ties e2]: confidence_interval_bootstrap from `k = len(values)` to `return ci`

       k = len(values)
       if k < 2: return np.repeat(values[0], 2)
       <seeded resampling: bootstrap_dist>                               (opaque range: its effect is bootstrap_dist)
       alphas = np.array([alpha / 2, 1 - alpha / 2])
       if not smoothed: pass
       ci = np.percentile(bootstrap_dist, list(100 * alphas))
       return ci

   regenerated from the Python source on every run (Gen/FnSegCiTail.v fn_ci_tail; np.percentile is a function-typed
   input).  Here: on a non-empty segment Model/Segmetrics.v ci_func IS this tail, np.percentile being the model's
   linear-interpolated percentile and bootstrap_dist the model's bootstrap distribution. *)
From CNV Require Import Base.Prelude Base.QNum Proofs.QNumLemmas Gen.SegmetricsDefaults Gen.FnSegCiTail
  Model.Ranges Model.Segmetrics.
From Coq Require Import Lia.
Local Open Scope Q_scope.

Definition pair_list (o : option (Q * Q)) : list Q := match o with Some (a, b) => [a; b] | None => [] end.
(* np.percentile(dist, [p1, ..]) *)
Definition percentiles (dist ps : list Q) : list Q := map (fun p => percentile p dist) ps.

Theorem source_ci_tail O alpha boots smoothed x t wts :
  let vals := x :: t in
  eqQ (pair_list (ci_func O alpha boots smoothed vals wts))
      (fn_ci_tail (Z.of_nat (length vals)) [x; x] alpha smoothed percentiles (ci_dist O boots smoothed vals wts)).
Proof.
  cbv zeta. unfold ci_func, fn_ci_tail, ci_min_k. cbv zeta.
  destruct (Z.of_nat (length (x :: t)) <? 2)%Z; [apply eqQ_refl|].
  cbn [pair_list percentiles map].
  repeat constructor.
  - apply percentile_PermQ; [|apply eqQ_PermQ, eqQ_refl].
    unfold ci_pct_lo, ci_hundred, ci_two_lo. rewrite Qred_correct. reflexivity.
  - apply percentile_PermQ; [|apply eqQ_PermQ, eqQ_refl].
    unfold ci_pct_hi, ci_hundred, ci_one_hi, ci_two_hi. rewrite Qred_correct. reflexivity.
Qed.
