(* C12: the bin table do_target hands to the annotation step has its chromosomes in
   contiguous blocks (the C07 precondition `grouped`) whenever its chromosome keys never
   decrease and distinct names have distinct keys -- which C12_block_order provides. *)
From CNV Require Import Base.Prelude Base.Str Model.IvRow Model.IvCombine Model.Intervals
  Model.Chromsort Model.Target Spec.Cover Spec.Bins.
From CNV Require Model.Ranges Spec.RangeQuery Proofs.Into Proofs.RangesTables.
From CNV Require Import Proofs.ChromsortLemmas Proofs.TargetLib Proofs.TargetOrder Proofs.TargetOrderProps.
From CNV Require Proofs.TargetAnnot.

(* ---- a list cut into blocks of equal key, no key in two blocks ----------------------------- *)

Section Blocks.
Context {X : Type} (key : X -> string).

Inductive blocks : list X -> Prop :=
| blocks_nil : blocks []
| blocks_cons (c : string) (p r : list X) :
    p <> [] -> (forall x, In x p -> key x = c) -> (forall x, In x r -> key x <> c) -> blocks r ->
    blocks (p ++ r).

Definition of_key (c : string) (l : list X) : list X := filter (fun x => String.eqb (key x) c) l.
Definition regroup_key (l : list X) : list X :=
  concat (map (fun c => of_key c l) (Ranges.distinct (map key l))).

Lemma filter_idem {Y} (f : Y -> bool) l : filter f (filter f l) = filter f l.
Proof.
  induction l as [|y l IH]; [reflexivity|]. cbn [filter]. destruct (f y) eqn:E; [|exact IH].
  cbn [filter]. rewrite E, IH. reflexivity.
Qed.

Lemma distinct_app_block (c : string) (l1 l2 : list string) :
  (forall y, In y l1 -> y = c) -> (forall y, In y l2 -> y <> c) ->
  filter (fun y => negb (String.eqb y c)) (Ranges.distinct (l1 ++ l2)) = Ranges.distinct l2.
Proof.
  intros H1 H2. induction l1 as [|y l1 IH].
  - cbn [app]. apply filter_all_true. intros y Hy. apply (proj1 (Proofs.RangesTables.In_distinct _ _)) in Hy.
    apply negb_true_iff, String.eqb_neq. apply H2. exact Hy.
  - assert (Ey : y = c) by (apply H1; left; reflexivity). subst y.
    cbn [app Ranges.distinct filter]. rewrite String.eqb_refl. cbn [negb].
    rewrite filter_idem. apply IH. intros y Hy. apply H1. right; exact Hy.
Qed.

Lemma blocks_regroup l : blocks l -> regroup_key l = l.
Proof.
  induction 1 as [|c p r Hne Hp Hr Hb IH]; [reflexivity|].
  unfold regroup_key. rewrite map_app.
  destruct p as [|x p']; [congruence|].
  assert (Ex : key x = c) by (apply Hp; left; reflexivity).
  cbn [map app Ranges.distinct]. rewrite Ex.
  rewrite (distinct_app_block c (map key p') (map key r)).
  - cbn [map concat].
    assert (Eblk : of_key c (x :: p' ++ r) = x :: p').
    { unfold of_key. change (x :: p' ++ r) with ((x :: p') ++ r). rewrite filter_app.
      rewrite (filter_all_true _ (x :: p')), (filter_all_false _ r), app_nil_r; [reflexivity | |].
      - intros y Hy. apply String.eqb_neq. apply Hr. exact Hy.
      - intros y Hy. apply String.eqb_eq. apply Hp. exact Hy. }
    assert (Eoth : map (fun c' => of_key c' (x :: p' ++ r)) (Ranges.distinct (map key r))
                   = map (fun c' => of_key c' r) (Ranges.distinct (map key r))).
    { apply map_ext_in. intros c' Hc'.
      apply (proj1 (Proofs.RangesTables.In_distinct _ _)) in Hc'. apply in_map_iff in Hc' as [y [Ey Hy]].
      assert (Hne' : c' <> c) by (rewrite <- Ey; apply Hr; exact Hy).
      unfold of_key. change (x :: p' ++ r) with ((x :: p') ++ r). rewrite filter_app.
      rewrite (filter_all_false _ (x :: p')); [reflexivity|].
      intros z Hz. apply String.eqb_neq. rewrite (Hp z Hz). congruence. }
    rewrite Eblk, Eoth. fold (regroup_key r). rewrite IH. reflexivity.
  - intros y Hy. apply in_map_iff in Hy as [z [<- Hz]]. apply Hp. right; exact Hz.
  - intros y Hy. apply in_map_iff in Hy as [z [<- Hz]]. apply Hr. exact Hz.
Qed.
End Blocks.

(* ---- the run of the first chromosome ------------------------------------------------------- *)

Fixpoint span_c (c : string) (l : list grow) : list grow * list grow :=
  match l with
  | x :: t => if on c x then let '(p, r) := span_c c t in (x :: p, r) else ([], l)
  | [] => ([], [])
  end.

Lemma span_c_spec c l :
  l = fst (span_c c l) ++ snd (span_c c l) /\
  (forall x, In x (fst (span_c c l)) -> chrom x = c) /\
  (match snd (span_c c l) with m :: _ => chrom m <> c | [] => True end) /\
  (length (snd (span_c c l)) <= length l)%nat.
Proof.
  induction l as [|a t IH].
  - cbn. split; [reflexivity|]. split; [intros x []|]. split; [exact I | lia].
  - cbn [span_c]. destruct (on c a) eqn:E.
    + destruct (span_c c t) as [p r]. cbn [fst snd] in *. destruct IH as (E1 & E2 & E3 & E4).
      split; [cbn [app]; f_equal; exact E1|]. split.
      * intros y [<-|Hy]; [apply on_true; exact E | apply E2; exact Hy].
      * split; [exact E3 | cbn [length]; lia].
    + cbn [fst snd app]. split; [reflexivity|]. split; [intros y []|].
      split; [apply on_false; exact E | lia].
Qed.

Lemma ssorted_app_r {X} (R : X -> X -> Prop) l1 l2 : StronglySorted R (l1 ++ l2) -> StronglySorted R l2.
Proof.
  induction l1 as [|a l1 IH]; [auto|]. cbn [app]. intros H. inversion H; subst. apply IH. assumption.
Qed.

Lemma blocks_of_sorted (n : nat) : forall t : list grow,
  (length t <= n)%nat -> key_sorted t -> key_injective t -> blocks chrom t.
Proof.
  induction n as [|n IH]; intros t Hl Hs Hi.
  - destruct t; [constructor | cbn in Hl; lia].
  - destruct t as [|a t']; [constructor|].
    pose proof (span_c_spec (chrom a) t') as Hsp. destruct (span_c (chrom a) t') as [p r].
    cbn [fst snd] in Hsp. destruct Hsp as (E1 & E2 & E3 & E4).
    replace (a :: t') with ((a :: p) ++ r) by (cbn [app]; rewrite <- E1; reflexivity).
    apply StronglySorted_inv in Hs as [Hs' Hf].
    assert (Hsr : key_sorted r) by (unfold key_sorted in *; rewrite E1 in Hs'; eapply ssorted_app_r; exact Hs').
    assert (Hin_r : forall x, In x r -> In x t') by (intros x Hx; rewrite E1; apply in_or_app; right; exact Hx).
    apply (blocks_cons chrom (chrom a)).
    + discriminate.
    + intros x [<-|Hx]; [reflexivity | apply E2; exact Hx].
    + intros b Hb Ec.
      destruct r as [|m r'] eqn:Er; [destruct Hb|].
      assert (Hm : In m t') by (apply Hin_r; left; reflexivity).
      rewrite Forall_forall in Hf.
      assert (Ham : key_le a m) by (apply Hf; exact Hm).
      assert (Hmb : key_le m b).
      { destruct Hb as [<-|Hb]; [unfold key_le; apply ckey_leb_refl|].
        apply StronglySorted_inv in Hsr as [_ Hfm]. rewrite Forall_forall in Hfm. apply Hfm. exact Hb. }
      assert (Eab : ckey b = ckey a) by (unfold ckey; rewrite Ec; reflexivity).
      unfold key_le in *. rewrite Eab in Hmb.
      assert (Ek : ckey a = ckey m) by (apply ckey_leb_antisym; assumption).
      apply E3. symmetry. apply Hi; [left; reflexivity | right; exact Hm | exact Ek].
    + apply IH.
      * cbn [length] in Hl. lia.
      * exact Hsr.
      * intros x y Hx Hy. apply Hi; right; apply Hin_r; assumption.
Qed.

(* ---- transfer to the C07 row representation -------------------------------------------------- *)

Lemma trows_from_app i (p r : list grow) :
  trows_from i (p ++ r) = trows_from i p ++ trows_from (i + Z.of_nat (length p)) r.
Proof.
  revert i. induction p as [|x p IH]; intros i.
  - cbn [app length trows_from Z.of_nat]. rewrite Z.add_0_r. reflexivity.
  - cbn [app trows_from]. rewrite IH. cbn [length]. f_equal. f_equal. f_equal. lia.
Qed.

Lemma trows_from_in i (t : list grow) x : In x (trows_from i t) -> exists r, In r t /\ fst x = chrom r.
Proof.
  revert i. induction t as [|r t IH]; intros i; cbn [trows_from]; [intros []|].
  intros [<-|H]; [exists r; split; [left; reflexivity | reflexivity]|].
  destruct (IH _ H) as [r' [Hr' E]]. exists r'. split; [right; exact Hr' | exact E].
Qed.

Lemma blocks_trows (t : list grow) : blocks chrom t -> forall i, blocks fst (trows_from i t).
Proof.
  induction 1 as [|c p r Hne Hp Hr Hb IH]; intros i; [constructor|].
  rewrite trows_from_app. apply (blocks_cons fst c).
  - destruct p; [congruence | cbn; discriminate].
  - intros x Hx. apply trows_from_in in Hx as [y [Hy ->]]. apply Hp. exact Hy.
  - intros x Hx. apply trows_from_in in Hx as [y [Hy ->]]. apply Hr. exact Hy.
  - apply IH.
Qed.

(* C12_annotate_grouped *)
Lemma grouped_of_sorted (t : list grow) :
  key_sorted t -> key_injective t -> RangeQuery.grouped (trows_of t).
Proof.
  intros Hs Hi. unfold RangeQuery.grouped, trows_of.
  apply (blocks_regroup fst). apply blocks_trows. apply (blocks_of_sorted (length t)); auto.
Qed.

(* do_target end to end: a bait table as GenomicArray.sort leaves it, distinct keys for distinct
   names, an annotation table as the reader leaves it, one shared chromosome name: every bin of
   do_target keeps its coordinates and is labelled annot_label *)
Lemma annotate_do_target (split : bool) (avg : Q) (cut : Z -> Z -> Z -> Z) (baits annot : list grow) :
  genome_sorted baits -> key_injective baits ->
  RangeQuery.table_ok (trows_of annot) ->
  compare_chrom_names (do_target split avg cut baits) annot <> None ->
  annotate annot (do_target split avg cut baits)
  = AnnotRows (map (fun b => (lo b, hi b, (chrom b, annot_label annot b))) (do_target split avg cut baits)).
Proof.
  intros Hs Hi Hok Hc. apply Proofs.TargetAnnot.annotate_labels; [exact Hok | | exact Hc].
  apply grouped_of_sorted.
  - apply target_key_sorted. intros _. apply genome_sorted_key_sorted. exact Hs.
  - eapply key_injective_sub; [|exact Hi]. intros r Hr. eapply do_target_chrom_in. exact Hr.
Qed.
