(* C14, part 7: do_call as a whole.  The calling step between the two filter
   blocks is the one of the C01 / C02 models (Model/Call.v, Model/Threshold.v,
   Model/Baf.v); the filters act around it in the order the property states;
   the step leaves every column the filters conserve untouched, so row count,
   total probes and total weight carry through the whole of do_call. *)
From Coq Require Import QArith.Qabs.
From CNV Require Import Base.Prelude Base.Str Gen.SegfilterDefaults Model.Segfilters Spec.Segfilters.
From CNV Require Model.Call Model.Threshold Model.Baf.
From CNV Require Import Proofs.SegfiltersRuns Proofs.SegfiltersKeys Proofs.SegfiltersConserve
  Proofs.SegfiltersOrder Proofs.SegfiltersLib Proofs.SegfiltersSorted.

(* ------------------------------------------------------- the first filter block *)

Lemma pre_steps_spec (fs : list filt) (t : list seg) :
  NoDup fs -> ~ (In Fci fs /\ In Fsem fs) ->
  pre_steps pre_filters t fs =
    (match find is_pre fs with Some p => apply_filter p t | None => t end, filter not_pre fs).
Proof.
  intros ND One. rewrite pre_filters_eq. cbn [pre_steps].
  destruct (memf Fci fs) eqn:Mci.
  - apply memf_in in Mci.
    assert (Nsem : ~ In Fsem fs) by tauto.
    destruct (single_pre Fci fs eq_refl ND Mci) as (R & F).
    { intros q Hq Pq. destruct q; try discriminate; [reflexivity|contradiction]. }
    assert (M2 : memf Fsem (remove_first Fci fs) = false).
    { apply memf_notin. intros H. apply Nsem. eapply in_remove_first. exact H. }
    rewrite M2, R, F. reflexivity.
  - apply memf_notin in Mci.
    destruct (memf Fsem fs) eqn:Msem.
    + apply memf_in in Msem.
      destruct (single_pre Fsem fs eq_refl ND Msem) as (R & F).
      { intros q Hq Pq. destruct q; try discriminate; [contradiction|reflexivity]. }
      rewrite R, F. reflexivity.
    + apply memf_notin in Msem. destruct (no_pre fs Mci Msem) as (R & F).
      rewrite R, F. reflexivity.
Qed.

Section WithOracles.
Variable exp2 lg2 : Q -> Q.
Variable cfg : callcfg.

Notation step := (call_step exp2 lg2 cfg).

(* do_call = (ci | sem) ; the calling step ; the remaining filters in the order given *)
Theorem do_call_order (fs : list filt) (t : list seg) :
  NoDup fs -> ~ (In Fci fs /\ In Fsem fs) ->
  do_call_model exp2 lg2 cfg fs t =
    match step (match find is_pre fs with Some p => apply_filter p t | None => t end) with
    | Some called => Some (fold_left (fun acc f => apply_filter f acc) (filter (fun f => negb (is_pre f)) fs) called)
    | None => None
    end.
Proof.
  intros ND One. unfold do_call_model. rewrite (pre_steps_spec fs t ND One). reflexivity.
Qed.

(* ------------------------------------------------- what the calling step leaves alone *)

Definition same_frame (s s' : seg) : Prop :=
  chrom s' = chrom s /\ lo s' = lo s /\ hi s' = hi s /\ gene s' = gene s /\
  probes s' = probes s /\ weight s' = weight s /\ depth s' = depth s /\ baf s' = baf s /\
  pbt s' = pbt s /\ ci_lo s' = ci_lo s /\ ci_hi s' = ci_hi s /\ sem s' = sem s.

Lemma rescale_row_frame first s : same_frame s (rescale_row exp2 lg2 cfg first s).
Proof. unfold rescale_row. destruct (purity_ratio _ _ _ _); repeat split. Qed.

Lemma call_row_frame first s : same_frame s (call_row exp2 lg2 cfg first s).
Proof.
  unfold call_row. pose proof (rescale_row_frame first s) as F.
  destruct (absolute_of _ _ _ _ _); [|exact F].
  unfold same_frame in *. cbn [set_cn chrom lo hi gene probes weight depth baf pbt ci_lo ci_hi sem]. exact F.
Qed.

Theorem call_step_frame (t called : list seg) :
  step t = Some called -> Forall2 same_frame t called.
Proof.
  unfold call_step. destruct (build_ok cfg); [|discriminate]. intros E. injection E as <-.
  induction t as [|s t' IH] using list_ind; cbn [map]; [constructor|].
  generalize (first_of (s :: t')). intros first.
  constructor; [apply call_row_frame|].
  clear IH. induction t' as [|s' t'' IH]; cbn [map]; constructor; [apply call_row_frame|exact IH].
Qed.

Lemma frame_chroms t u : Forall2 same_frame t u -> map chrom u = map chrom t.
Proof. induction 1 as [|s s' t u H _ IH]; cbn [map]; [reflexivity|]. rewrite IH. destruct H as (-> & _). reflexivity. Qed.

Lemma frame_probes t u : Forall2 same_frame t u -> total_probes u = total_probes t.
Proof.
  unfold total_probes. induction 1 as [|s s' t u H _ IH]; cbn [map sumZ]; [reflexivity|].
  rewrite IH. destruct H as (_ & _ & _ & _ & -> & _). reflexivity.
Qed.

Lemma frame_weight t u : Forall2 same_frame t u -> total_weight u = total_weight t.
Proof.
  unfold total_weight. induction 1 as [|s s' t u H _ IH]; cbn [map qsum]; [reflexivity|].
  rewrite IH. destruct H as (_ & _ & _ & _ & _ & -> & _). reflexivity.
Qed.

Lemma frame_length t u : Forall2 same_frame t u -> length u = length t.
Proof. induction 1; cbn [length]; congruence. Qed.

(* ------------------------------------ the step is the C01 / C02 / allelic models *)

Lemma first_chrom_rows t : Call.first_chrom (map (in_row_of exp2) t) = first_of t.
Proof. destruct t; reflexivity. Qed.

Lemma cn_set_cn s c a : cn (set_cn s c a) = c.
Proof. reflexivity. Qed.

Lemma call_row_round k pur hapx fem build first row :
  fst (fst (Call.call_row k pur hapx fem build first row))
  = Call.round_he (snd (fst (Call.call_row k pur hapx fem build first row))).
Proof.
  unfold Call.call_row. destruct row as [[[c l] h] e].
  destruct (Call.use_purity pur); [|reflexivity].
  unfold Call.call_row_purity. destruct (Call.ref_expect _ _ _ _). reflexivity.
Qed.

(* method clonal: the cn column is C01's call_clonal on the table's rows *)
Theorem call_step_clonal (t called : list seg) :
  c_method cfg = Mclonal -> step t = Some called ->
  exists rows,
    Call.call_clonal (c_ploidy cfg) (c_purity cfg) (c_hapx cfg) (c_female cfg) (c_build cfg)
                     (map (in_row_of exp2) t) = Some rows /\
    map cn called = map (fun r : Call.out_row => inject_Z (fst (fst r))) rows.
Proof.
  intros M E. unfold call_step in E. unfold Call.call_clonal.
  unfold build_ok in E.
  destruct (match Call.use_purity (c_purity cfg) with
            | Some _ => match c_build cfg with Some b => Call.build_supported b | None => true end
            | None => true end) eqn:Ok.
  - eexists. split; [reflexivity|]. injection E as <-.
    rewrite first_chrom_rows. rewrite !map_map. apply map_ext. intros s.
    unfold call_row, absolute_of. rewrite M. rewrite cn_set_cn. unfold clonal_row.
    rewrite call_row_round. reflexivity.
  - discriminate.
Qed.

(* method threshold: the cn column is C02's call_threshold on the rows as the
   thresholds see them (log2 rewritten by the purity rescaling, if any) *)
Theorem call_step_threshold (t called : list seg) :
  c_method cfg = Mthreshold -> step t = Some called ->
  map cn called =
    map inject_Z (Threshold.call_threshold (c_ploidy cfg) (c_hapx cfg) (c_thresholds cfg)
                    (map (fun s => thr_row_of exp2 (rescale_row exp2 lg2 cfg (first_of t) s)) t)).
Proof.
  intros M E. unfold call_step in E. destruct (build_ok cfg); [|discriminate]. injection E as <-.
  unfold Threshold.call_threshold. rewrite !map_map. apply map_ext. intros s.
  unfold call_row, absolute_of. rewrite M, cn_set_cn.
  assert (R : forall z, Call.round_he (inject_Z z) = z).
  { intros z. unfold Call.round_he. rewrite Qround.Qfloor_Z.
    assert (E0 : (inject_Z z - inject_Z z ?= 1 # 2)%Q = Lt).
    { apply Qlt_alt. setoid_replace (inject_Z z - inject_Z z)%Q with 0%Q by ring. reflexivity. }
    rewrite E0. reflexivity. }
  rewrite R. reflexivity.
Qed.

Lemma rescale_row_no_purity first s :
  Call.use_purity (c_purity cfg) = None -> rescale_row exp2 lg2 cfg first s = s.
Proof. intros H. unfold rescale_row, purity_ratio. rewrite H. reflexivity. Qed.

(* method none: no copy number is written *)
Theorem call_step_none (t called : list seg) :
  c_method cfg = Mnone -> step t = Some called ->
  map cn called = map cn t /\ map cn1 called = map cn1 t /\ map cn2 called = map cn2 t.
Proof.
  intros M E. unfold call_step in E. destruct (build_ok cfg); [|discriminate]. injection E as <-.
  rewrite !map_map. repeat split; apply map_ext; intros s; unfold call_row, absolute_of; rewrite M;
    unfold rescale_row; destruct (purity_ratio _ _ _ _); reflexivity.
Qed.

(* with a baf column and a calling method, the allele-specific copy numbers are
   those of the C02 / C18 allelic model, hence cn2 = cn - cn1 or both missing *)
Theorem call_step_alleles (t called : list seg) :
  c_method cfg <> Mnone -> c_has_baf cfg = true -> step t = Some called ->
  alleles_consistent called.
Proof.
  intros M B E. unfold call_step in E. destruct (build_ok cfg); [|discriminate]. injection E as <-.
  unfold alleles_consistent. rewrite Forall_map. apply Forall_forall. intros s _.
  unfold call_row. destruct (absolute_of _ _ _ _ _) as [a|] eqn:A.
  - rewrite B. unfold Baf.alleles.
    destruct (Baf.is_missing _ && _); cbn [set_cn cn cn1 cn2 optZ_Q]; [exact I|].
    unfold Z.sub. rewrite inject_Z_plus, inject_Z_opp. reflexivity.
  - exfalso. unfold absolute_of in A. destruct (c_method cfg); try discriminate. apply M. reflexivity.
Qed.

(* ------------------------------------------------- conservation through do_call *)

Lemma apply_seq_conserve : forall (fs : list filt) (t : list seg),
  Contig (map chrom t) -> ~ In Fampdel fs ->
  Contig (map chrom (apply_seq fs t)) /\
  total_probes (apply_seq fs t) = total_probes t /\
  (total_weight (apply_seq fs t) == total_weight t)%Q.
Proof.
  unfold apply_seq. induction fs as [|f fs IH]; intros t C NA; cbn [fold_left].
  - split; [exact C|split; reflexivity].
  - assert (Nf : f <> Fampdel) by (intros ->; apply NA; left; reflexivity).
    destruct (IH (apply_filter f t) (filter_keeps_contig f t C)) as (I1 & I2 & I3).
    { intros H. apply NA. right. exact H. }
    destruct (filter_conserve f t C) as (P & W & _).
    assert (Ef : apply_filter f t = squashed f t) by (destruct f; try reflexivity; contradiction Nf; reflexivity).
    split; [exact I1|]. split.
    + rewrite I2, Ef. exact P.
    + rewrite I3, Ef. exact W.
Qed.

Lemma apply_seq_contig : forall (fs : list filt) (t : list seg),
  Contig (map chrom t) -> Contig (map chrom (apply_seq fs t)).
Proof.
  unfold apply_seq. induction fs as [|f fs IH]; intros t C; cbn [fold_left]; [exact C|].
  apply IH. apply filter_keeps_contig. exact C.
Qed.

Lemma pre_steps_rest_sub ps : forall t fs x, In x (snd (pre_steps ps t fs)) -> In x fs.
Proof.
  induction ps as [|p ps IH]; intros t fs x H; cbn [pre_steps] in H; [exact H|].
  destruct (memf p fs).
  - apply IH in H. eapply in_remove_first. exact H.
  - apply IH in H. exact H.
Qed.

Lemma pre_steps_table ps : forall t fs,
  Contig (map chrom t) -> ~ In Fampdel ps ->
  Contig (map chrom (fst (pre_steps ps t fs))) /\
  total_probes (fst (pre_steps ps t fs)) = total_probes t /\
  (total_weight (fst (pre_steps ps t fs)) == total_weight t)%Q /\
  (length (fst (pre_steps ps t fs)) <= length t)%nat.
Proof.
  induction ps as [|p ps IH]; intros t fs C NA; cbn [pre_steps].
  - cbn [fst]. split; [exact C|split; [reflexivity|split; [reflexivity|lia]]].
  - assert (Np : p <> Fampdel) by (intros ->; apply NA; left; reflexivity).
    assert (NA' : ~ In Fampdel ps) by (intros H; apply NA; right; exact H).
    destruct (memf p fs).
    + destruct (IH (apply_filter p t) (remove_first p fs) (filter_keeps_contig p t C) NA') as (I1 & I2 & I3 & I4).
      destruct (filter_conserve p t C) as (P & W & _).
      assert (Ef : apply_filter p t = squashed p t) by (destruct p; try reflexivity; contradiction Np; reflexivity).
      split; [exact I1|]. split; [rewrite I2, Ef; exact P|]. split; [rewrite I3, Ef; exact W|].
      pose proof (filter_rows_le p t). lia.
    + apply IH; assumption.
Qed.

(* the whole of do_call: never more rows than it was given; chromosomes stay
   contiguous; without ampdel in the list, total probes and total weight are
   those of the input table *)
Theorem do_call_conserve (fs : list filt) (t out : list seg) :
  Contig (map chrom t) -> do_call_model exp2 lg2 cfg fs t = Some out ->
  (length out <= length t)%nat /\
  Contig (map chrom out) /\
  (~ In Fampdel fs -> total_probes out = total_probes t /\ (total_weight out == total_weight t)%Q).
Proof.
  intros C E. unfold do_call_model in E.
  pose proof (pre_steps_table pre_filters t fs C) as PT.
  pose proof (pre_steps_rest_sub pre_filters t fs) as Sub.
  destruct (pre_steps pre_filters t fs) as [t1 rest] eqn:Ep. cbn [fst snd] in *.
  destruct PT as (C1 & P1 & W1 & L1).
  { rewrite pre_filters_eq. cbn. intuition discriminate. }
  destruct (step t1) as [t2|] eqn:Es; [|discriminate]. injection E as <-.
  pose proof (call_step_frame t1 t2 Es) as Fr.
  assert (C2 : Contig (map chrom t2)) by (rewrite (frame_chroms _ _ Fr); exact C1).
  split; [|split].
  - pose proof (apply_seq_rows_le rest t2). rewrite (frame_length _ _ Fr) in H. lia.
  - apply apply_seq_contig. exact C2.
  - intros NA. destruct (apply_seq_conserve rest t2 C2) as (_ & P & W).
    { intros H. apply NA. apply Sub. exact H. }
    split.
    + rewrite P, (frame_probes _ _ Fr). exact P1.
    + rewrite W, (frame_weight _ _ Fr). exact W1.
Qed.

End WithOracles.
