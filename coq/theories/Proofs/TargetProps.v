(* The C12 property theorems in their final form (Props/C12.v restates them and
   closes each with `exact`). *)
From CNV Require Import Base.Prelude Base.Str Model.IvRow Model.IvCombine Model.Intervals
  Model.Access Model.Target Model.Antitarget Spec.Cover Spec.Bins.
From CNV Require Import Proofs.IvCover Proofs.TargetLib Proofs.TargetSplit Proofs.Antitarget
  Proofs.AntitargetContigs Proofs.Target.
From CNV Require Gen.BinsDefaults.

(* ---- rational inequalities as integer ones ------------------------------------------ *)

Lemma Qpos_num (avg : Q) : (0 < avg)%Q -> 0 < Qnum avg.
Proof. destruct avg as [n d]. unfold Qlt. cbn [Qnum Qden]. lia. Qed.

Lemma min_guard_Z (avg : Q) (mn : Z) :
  min_guard avg mn -> mn <= 0 \/ 4 * mn * Zpos (Qden avg) <= 3 * Qnum avg - 4 * Zpos (Qden avg).
Proof.
  intros [H|H]; [left; exact H|]. right. destruct avg as [n d].
  unfold Qle, Qminus, Qplus, Qmult, Qopp, inject_Z in H. cbn [Qnum Qden] in *.
  rewrite ?Pos2Z.inj_mul in H. lia.
Qed.

Lemma ge4_Z (avg : Q) : (4 <= avg)%Q -> 4 * Zpos (Qden avg) <= Qnum avg.
Proof. destruct avg as [n d]. unfold Qle. cbn [Qnum Qden]. lia. Qed.

Lemma size_le_Q (avg : Q) (sz : Z) :
  2 * sz * Zpos (Qden avg) <= 3 * Qnum avg -> (inject_Z sz <= (3 # 2) * avg)%Q.
Proof.
  destruct avg as [n d]. unfold Qle, Qmult, inject_Z. cbn [Qnum Qden]. rewrite ?Pos2Z.inj_mul. lia.
Qed.

(* ---- target ------------------------------------------------------------------------ *)

Lemma c12_target_nosplit : forall (avg : Q) (cut : Z -> Z -> Z -> Z) (baits : list grow),
  do_target false avg cut baits = filter (fun r => negb (lo r =? hi r)) baits /\
  (forall r, In r (do_target false avg cut baits) <-> In r baits /\ lo r <> hi r).
Proof. exact target_nosplit. Qed.

Lemma c12_target_split : forall (avg : Q) (cut : Z -> Z -> Z -> Z) (baits : list grow) (c : string),
  (0 < avg)%Q -> (forall span n, cut_contract span n (cut span n)) ->
  Forall (fun r => lo r <= hi r) baits ->
  let out := do_target true avg cut baits in
  exists m : list grow,
    (forall x, covers m x <-> gcovers baits c x) /\ sorted_separated m /\ valid m /\
    filter (on c) out = flat_map (split_row_q avg 0 cut) m /\
    Forall (fun r => exists n, is_nbins (hi r - lo r) avg n /\
                               equal_bins (lo r) (hi r) n (pay r) (split_row_q avg 0 cut r)) m /\
    sorted_disjoint (filter (on c) out) /\
    Forall (fun b => lo b <= hi b) (filter (on c) out) /\
    (forall x, gcovers out c x <-> gcovers baits c x).
Proof. intros avg cut baits c Ha. apply target_split. apply Qpos_num. exact Ha. Qed.

Lemma c12_labels : forall (pick : list string -> string) (split : bool) (avg : Q)
                          (cut : Z -> Z -> Z -> Z) (baits : list grow),
  let plain := do_target split avg cut baits in
  let short := do_target_short pick split avg cut baits in
  length (shorten_labels (map gene plain)) = length plain /\
  length short = length plain /\ map coords short = map coords plain.
Proof. exact target_labels. Qed.

(* ---- antitarget ---------------------------------------------------------------------- *)

Section AntiProps.
Variables (T : list grow) (access : option (list grow)) (avg : Q) (mn : Z) (cut : Z -> Z -> Z -> Z)
          (E out : list grow).
Hypothesis Hpre : anti_pre T access avg cut.
Hypothesis HE : effective_access T access = Some E.
Hypothesis Hout : get_antitargets T access avg mn cut = Some out.

Lemma out_eq : out = anti_rows E T avg mn cut.
Proof.
  apply get_antitargets_some in Hout as [E' [HE' ->]]. rewrite HE in HE'. injection HE' as <-. reflexivity.
Qed.

Lemma pre_num : 0 < Qnum avg.
Proof. destruct Hpre as (H & _). apply Qpos_num. exact H. Qed.
Lemma pre_cut : forall span n, cut_contract span n (cut span n).
Proof. destruct Hpre as (_ & H & _). exact H. Qed.
Lemma pre_sorted : sorted_table T.
Proof. destruct Hpre as (_ & _ & H & _). exact H. Qed.
Lemma pre_nonneg : nonneg_table E.
Proof. destruct Hpre as (_ & _ & _ & H). eapply effective_access_nonneg; [exact H | exact HE]. Qed.

Lemma c12_anti_inside c x : gcovers out c x -> shrunk_access E c x.
Proof. rewrite out_eq. apply (anti_inside E T avg mn cut pre_num pre_cut pre_sorted pre_nonneg). Qed.

Lemma c12_anti_margin c y : gcovers out c y ->
  ~ near_target T c y /\
  (forall t x, In t T -> chrom t = c -> lo t <= x < hi t -> y + 500 < x \/ x + 500 < y).
Proof.
  rewrite out_eq. intros H.
  pose proof (anti_margin E T avg mn cut pre_num pre_cut pre_sorted pre_nonneg c y H) as Hn.
  split; [exact Hn|]. intros t x Ht Hc Hx.
  destruct (Z_lt_ge_dec (y + 500) x) as [H1|H1]; [left; exact H1|].
  destruct (Z_lt_ge_dec (x + 500) y) as [H2|H2]; [right; exact H2|].
  exfalso. apply Hn. exists t. split; [exact Ht|]. split; [exact Hc | lia].
Qed.

Lemma c12_anti_disjoint c :
  sorted_disjoint (filter (on c) out) /\ Forall (fun b => lo b <= hi b) (filter (on c) out).
Proof. rewrite out_eq. apply (anti_disjoint E T avg mn cut pre_num pre_cut pre_sorted pre_nonneg). Qed.

Lemma c12_anti_sizes b : In b out ->
  gene b = "Antitarget"%string /\
  (min_guard avg mn -> mn <= hi b - lo b) /\
  ((4 <= avg)%Q -> (inject_Z (hi b - lo b) <= (3 # 2) * avg)%Q).
Proof.
  rewrite out_eq. intros Hb.
  destruct (anti_sizes E T avg mn cut pre_num pre_cut pre_sorted pre_nonneg b Hb) as (Hg & Hlo & Hhi).
  split; [exact Hg|]. split.
  - intros G. apply Hlo. apply min_guard_Z. exact G.
  - intros H4. apply size_le_Q. apply Hhi. apply ge4_Z. exact H4.
Qed.

Lemma c12_anti_complete c :
  (forall s e, stretch (off_target E T c) s e ->
     (mn <= e - s -> forall x, s <= x < e -> gcovers out c x) /\
     (e - s < mn -> forall x, s <= x < e -> ~ gcovers out c x)) /\
  (forall x, gcovers out c x ->
     exists s e, stretch (off_target E T c) s e /\ mn <= e - s /\ s <= x < e).
Proof.
  rewrite out_eq. split.
  - intros s e. apply (anti_complete E T avg mn cut pre_num pre_cut pre_sorted pre_nonneg).
  - intros x. apply (anti_covered_stretch E T avg mn cut pre_num pre_cut pre_sorted pre_nonneg).
Qed.

Lemma c12_anti_contigs b : In b out -> exists a, In a E /\ chrom a = chrom b.
Proof. rewrite out_eq. apply (anti_contigs E T avg mn cut). Qed.

End AntiProps.

Lemma c12_contigs : forall (T : list grow),
  (forall acc, acc <> [] ->
     (~ shared_contig acc T -> effective_access T (Some acc) = None) /\
     (shared_contig acc T ->
      exists E, effective_access T (Some acc) = Some E /\
                forall r, In r E <-> In r acc /\ kept_contig T (chrom r))) /\
  (forall access, access = None \/ access = Some [] ->
     effective_access T access = Some (guess_regions T Gen.BinsDefaults.TELOMERE_SIZE) /\
     forall r, In r (guess_regions T Gen.BinsDefaults.TELOMERE_SIZE) <->
               targeted T (chrom r) /\ lo r = Gen.BinsDefaults.TELOMERE_SIZE /\
               hi r = last_end (filter (on (chrom r)) T) /\ gene r = EmptyString).
Proof.
  intros T. split.
  - intros acc Hne. exact (effective_access_given T acc Hne).
  - intros access Ha. split; [apply effective_access_guess; exact Ha|]. intros r. apply guess_regions_spec.
Qed.

(* do_antitarget = get_antitargets with the given or the default minimum *)
Lemma c12_do_antitarget : forall T access avg mn cut out,
  do_antitarget T access avg mn cut = AntiRows out <->
  exists m, effective_min avg mn = Some m /\ get_antitargets T access avg m cut = Some out.
Proof.
  intros T access avg mn cut out. unfold do_antitarget. destruct (effective_min avg mn) as [m|]; split.
  - destruct (get_antitargets T access avg m cut) as [rows|] eqn:G; intros H; [|discriminate H].
    injection H as H. subst rows. exists m. split; [reflexivity | exact G].
  - intros [m' [Hm H]]. injection Hm as <-. rewrite H. reflexivity.
  - discriminate.
  - intros [m' [Hm _]]. discriminate.
Qed.

(* without a minimum (None or 0) the default 2 * floor(avg / 32) applies, and it meets the guard *)
Lemma c12_default_min : forall (avg : Q) (mn : option Z),
  (0 < avg)%Q -> mn = None \/ mn = Some 0 ->
  exists m, effective_min avg mn = Some m /\ default_min_spec avg m /\ min_guard avg m.
Proof.
  intros avg mn Ha Hmn. destruct (default_min_size_spec avg Ha) as [m [Hm Hs]].
  exists m. split; [destruct Hmn as [->| ->]; cbn; exact Hm|]. split; [exact Hs|].
  destruct (default_min_guard avg m Ha Hs) as [H|H]; [left; exact H|]. right.
  destruct avg as [n d]. unfold Qle, Qminus, Qplus, Qmult, Qopp, inject_Z. cbn [Qnum Qden] in *.
  rewrite ?Pos2Z.inj_mul. lia.
Qed.

Lemma c12_anti_min_refuted :
  exists (T acc : list grow) (avg : Q) (mn : Z) (cut : Z -> Z -> Z -> Z) (out : list grow) (b : grow),
    anti_pre T (Some acc) avg cut /\ 0 < mn /\
    get_antitargets T (Some acc) avg mn cut = Some out /\ In b out /\ hi b - lo b < mn.
Proof.
  destruct anti_min_refuted as (T & acc & avg & mn & cut & out & b & H1 & H2 & H3 & H4 & H5 & H6 & H7 & H8).
  exists T, acc, avg, mn, cut, out, b. split; [|auto].
  split; [|split; [exact H1|split; [exact H2|]]].
  - destruct avg as [n d]. unfold Qlt. cbn [Qnum Qden] in *. lia.
  - intros acc' E'. injection E' as <-. exact H3.
Qed.

(* ---- the contig rule of the property text ------------------------------------------ *)

Lemma kept_binned (T : list grow) c : some_canonical_target T -> (kept_contig T c <-> binned_contig T c).
Proof.
  intros Hs. unfold kept_contig, binned_contig. split.
  - intros [H|[[_ H]|[H _]]]; [left; exact H | right; exact H | contradiction].
  - intros [H|H]; [left; exact H | right; left; auto].
Qed.

Lemma shared_contig_dec (acc T : list grow) : shared_contig acc T \/ ~ shared_contig acc T.
Proof.
  destruct (existsb (fun c => mem_string c (chroms_of T)) (chroms_of acc)) eqn:Ex.
  - left. apply existsb_exists in Ex as [c [Hc Hm]]. apply mem_string_true in Hm.
    apply chroms_of_in in Hc as [a [Ha Hca]]. apply chroms_of_in in Hm as [t [Ht Hct]].
    exists a, t. repeat split; auto. congruence.
  - right. intros (a & t & Ha & Ht & Hc).
    assert (Hx : existsb (fun c => mem_string c (chroms_of T)) (chroms_of acc) = true); [|congruence].
    apply existsb_exists. exists (chrom a). split; [apply chroms_of_in; exists a; auto|].
    apply mem_string_true. apply chroms_of_in. exists t; auto.
Qed.

Lemma effective_access_some_given (T acc E : list grow) : acc <> [] ->
  effective_access T (Some acc) = Some E ->
  shared_contig acc T /\ forall r, In r E <-> In r acc /\ kept_contig T (chrom r).
Proof.
  intros Hne HE. destruct (effective_access_given T acc Hne) as [Hno Hyes].
  destruct (shared_contig_dec acc T) as [Hs|Hs].
  - split; [exact Hs|]. destruct (Hyes Hs) as [E' [HE' Hin]]. rewrite HE in HE'. injection HE' as <-. exact Hin.
  - rewrite (Hno Hs) in HE. discriminate.
Qed.

Lemma c12_contigs_text : forall (T acc : list grow),
  some_canonical_target T -> acc <> [] ->
  (~ shared_contig acc T -> effective_access T (Some acc) = None) /\
  (shared_contig acc T ->
   exists E, effective_access T (Some acc) = Some E /\
             forall r, In r E <-> In r acc /\ binned_contig T (chrom r)).
Proof.
  intros T acc Hs Hne. destruct (effective_access_given T acc Hne) as [Hno Hyes]. split; [exact Hno|].
  intros Hsh. destruct (Hyes Hsh) as [E [HE Hin]]. exists E. split; [exact HE|].
  intros r. rewrite Hin, (kept_binned T (chrom r) Hs). reflexivity.
Qed.

Lemma stretch_ext (P Q : Z -> Prop) s e : (forall x, P x <-> Q x) -> stretch P s e -> stretch Q s e.
Proof.
  intros H (H1 & H2 & H3 & H4). split; [exact H1|]. split; [|split].
  - intros x Hx. apply H. apply H2. exact Hx.
  - intros K. apply H3. apply H. exact K.
  - intros K. apply H4. apply H. exact K.
Qed.

Lemma c12_anti_complete_text : forall T acc avg mn cut out,
  anti_pre T (Some acc) avg cut -> some_canonical_target T -> acc <> [] ->
  get_antitargets T (Some acc) avg mn cut = Some out ->
  forall c,
    (forall s e, stretch (off_target_text acc T c) s e ->
       (mn <= e - s -> forall x, s <= x < e -> gcovers out c x) /\
       (e - s < mn -> forall x, s <= x < e -> ~ gcovers out c x)) /\
    (forall x, gcovers out c x ->
       exists s e, stretch (off_target_text acc T c) s e /\ mn <= e - s /\ s <= x < e).
Proof.
  intros T acc avg mn cut out Hpre Hs Hne Hout c.
  pose proof Hout as Hout'. apply get_antitargets_some in Hout' as [E [HE _]].
  destruct (effective_access_some_given T acc E Hne HE) as [_ Hin].
  assert (Heq : forall x, off_target E T c x <-> off_target_text acc T c x).
  { intros x. unfold off_target, off_target_text, shrunk_access, shrunk_binned_access.
    split; intros [[a Ha] Hn]; (split; [|exact Hn]).
    - destruct Ha as (Ha & Hc & Hx). apply Hin in Ha as [Ha Hk]. apply (kept_binned T _ Hs) in Hk. exists a. auto.
    - destruct Ha as (Ha & Hk & Hc & Hx). exists a. split; [|auto]. apply Hin. split; [exact Ha|].
      apply (kept_binned T _ Hs). exact Hk. }
  assert (Heq' : forall x, off_target_text acc T c x <-> off_target E T c x) by (intros x; symmetry; apply Heq).
  destruct (c12_anti_complete T (Some acc) avg mn cut E out Hpre HE Hout c) as [H1 H2]. split.
  - intros s e Hst. apply H1. apply (stretch_ext _ _ s e Heq'). exact Hst.
  - intros x Hx. destruct (H2 x Hx) as (s & e & Hst & Hm & Hse). exists s, e. split; [|auto].
    apply (stretch_ext _ _ s e Heq). exact Hst.
Qed.

(* without a canonically named targeted contig the code's name-length rule drops a
   canonically named accessible contig: no bin on chr10 although chr10:500-19500 is
   off-target accessible sequence of the property text *)
Lemma c12_contigs_name_length_refuted :
  exists (T acc E out : list grow) (a : grow),
    acc <> [] /\ anti_pre T (Some acc) (5000 # 1) floor_cut /\
    effective_access T (Some acc) = Some E /\
    get_antitargets T (Some acc) (5000 # 1) 1000 floor_cut = Some out /\
    In a acc /\ binned_contig T (chrom a) /\ ~ In a E /\
    (forall x, 500 <= x < 19500 -> off_target_text acc T (chrom a) x) /\
    (forall b, In b out -> chrom b <> chrom a).
Proof.
  exists [(1000, 1100, ("chrM", "a"))]%string.
  exists [(0, 20000, ("chr1", "")); (0, 20000, ("chr10", "")); (0, 16000, ("chrM", ""))]%string.
  exists [(0, 20000, ("chr1", "")); (0, 16000, ("chrM", ""))]%string.
  eexists. exists (0, 20000, ("chr10", ""))%string.
  split; [discriminate|]. split.
  { split; [reflexivity|]. split; [exact floor_cut_contract|]. split; [apply single_row_sorted|].
    intros acc' E'. injection E' as <-. repeat constructor; cbn; lia. }
  split; [vm_compute; reflexivity|]. split; [vm_compute; reflexivity|].
  split; [right; left; reflexivity|]. split; [right; vm_compute; reflexivity|].
  split; [intros [H|[H|[]]]; discriminate H|]. split.
  - intros x Hx. split.
    + exists (0, 20000, ("chr10", ""))%string. split; [right; left; reflexivity|].
      split; [right; vm_compute; reflexivity|]. split; [reflexivity|]. cbn. lia.
    + intros [t [[<-|[]] [Hc _]]]. vm_compute in Hc. discriminate Hc.
  - intros b Hb Hc.
    repeat (destruct Hb as [<-|Hb]; [vm_compute in Hc; discriminate Hc|]). destruct Hb.
Qed.
