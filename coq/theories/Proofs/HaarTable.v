(* C11: the table one_chrom builds from the bin coordinates -- one row per segment: start
   coordinate of its first bin, end coordinate of its last bin, (weighted) mean of exactly its
   bins, number of bins; and the two rows of a clean step. *)
From Coq Require Import QArith.Qabs.
From CNV Require Import Base.Prelude Model.Haar Spec.Haar Proofs.HaarConv Proofs.HaarFlat
  Proofs.HaarUnify Proofs.HaarPeaks Proofs.HaarStepLib Proofs.HaarMeans Proofs.HaarStep.
From Coq Require Import Lqa.

Lemma table_of_rows data wt starts ends : forall segs st ed sz mn,
  rows_ok data wt segs st ed sz mn ->
  table_ok data wt starts ends segs (table_rows starts ends st ed mn sz) /\
  map (fun r : Z * Z * Q * Z => snd r) (table_rows starts ends st ed mn sz) = sz.
Proof.
  induction segs as [|[s e] segs IH]; intros st ed sz mn H.
  - destruct st, ed, sz, mn; cbn in H; try contradiction. cbn. split; [exact I|reflexivity].
  - destruct st as [|s' st], ed as [|e' ed], sz as [|z sz], mn as [|m mn]; cbn [rows_ok] in H; try contradiction.
    destruct H as [-> [-> [-> [Hm H]]]].
    destruct (IH st ed sz mn H) as [T P].
    cbn [table_rows table_ok map snd]. unfold znth. split.
    + repeat split; try reflexivity; assumption.
    + f_equal. exact P.
Qed.

Section Table.
Variable scale_u scale_w : Z -> Q.
Variable pvals : Z -> list Q.
Variable absorb : Z -> bool.

Lemma one_chrom_table_ok sg wt q starts ends :
  sg <> [] -> wt_len_ok sg wt ->
  let r := haar_seg scale_u scale_w pvals absorb sg wt q in
  let rows := one_chrom_table starts ends r in
  table_ok sg wt starts ends (segments_of 0 (hr_breaks r) (Zlength_nat sg)) rows /\
  map (fun r : Z * Z * Q * Z => snd r) rows = hr_size r /\
  sumZ (map (fun r : Z * Z * Q * Z => snd r) rows) = Zlength_nat sg.
Proof.
  intros Hne Hw r rows.
  destruct (haar_seg_rows scale_u scale_w pvals absorb sg wt q Hne Hw) as [_ R]. fold r in R.
  destruct (table_of_rows sg wt starts ends _ _ _ _ _ R) as [T P].
  split; [exact T|]. split; [exact P|].
  unfold rows, one_chrom_table. rewrite P.
  destruct (haar_seg_tiles scale_u scale_w pvals absorb sg wt q Hne) as [_ [_ [_ [S _]]]]. exact S.
Qed.

End Table.

Lemma step_one_chrom_table (scale_u scale_w : Z -> Q) (pvals : Z -> list Q) (absorb : Z -> bool) :
  (forall h, ~ scale_u h == 0)%Q -> (forall h, ~ scale_w h == 0)%Q ->
  forall (a b : Q) (t n : nat) (wt : option (list Q)) (q : Q) (starts ends : list Z),
  (~ a == b)%Q -> uniform_weights n wt -> (32 <= t)%nat -> (t + 32 <= n)%nat ->
  let r := haar_seg scale_u scale_w pvals absorb (step_signal a b t n) wt q in
  exists m1 m2,
    one_chrom_table starts ends r =
      [(nth 0 starts 0, nth (t - 1) ends 0, m1, Z.of_nat t);
       (nth t starts 0, nth (n - 1) ends 0, m2, Z.of_nat n - Z.of_nat t)] /\
    (m1 == a)%Q /\ (m2 == b)%Q.
Proof.
  intros Hu Hw' a b t n wt q starts ends Hab Hw Ht Hn r.
  destruct (step_haar_seg scale_u scale_w pvals absorb Hu Hw' a b t n wt q Hab Hw Ht Hn)
    as [_ [_ [Hs [He [Hz [m1 [m2 [Hm [E1 E2]]]]]]]]].
  fold r in Hs, He, Hz, Hm.
  exists m1, m2. split; [|split; assumption].
  unfold one_chrom_table. rewrite Hs, He, Hz, Hm. cbn [table_rows]. unfold znth.
  change (Z.to_nat 0) with 0%nat. rewrite Nat2Z.id.
  replace (Z.to_nat (Z.of_nat t - 1)) with (t - 1)%nat by lia.
  replace (Z.to_nat (Z.of_nat n - 1)) with (n - 1)%nat by lia.
  reflexivity.
Qed.
