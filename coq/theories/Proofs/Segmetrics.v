(* C17 -- the statistics of Model/Segmetrics.v against the textbook definitions of
   Spec/Stats17.v; prediction-interval order; bootstrap-interval order and range. *)
From CNV Require Import Base.Prelude Base.QNum Proofs.QNumLemmas
  Gen.SegmetricsDefaults Gen.DescDefaults Model.Ranges Model.Descriptives Model.Segmetrics
  Spec.Stats17 Proofs.SegmetricsLib.
From Coq Require Import Qround Qabs Setoid Morphisms Psatz.
Local Open Scope Q_scope.

(* the deviations the spread statistics see are log2_i - segment log2 *)
Lemma deviations_eqQ c l : eqQ (map (fun x => qsub x c) l) (map (fun x => x - c) l).
Proof. apply eqQ_map_ext. intros x _. apply qsub_spec. Qed.

Lemma two_nonnil {A} (l : list A) : (2 <= length l)%nat -> l <> [].
Proof. destruct l; cbn; [lia|discriminate]. Qed.

Lemma on_array_two default f (a : list Q) : (2 <= length a)%nat -> on_array default f a = f a.
Proof. destruct a as [|x [|y t]]; cbn; try lia. reflexivity. Qed.

(* ---- mean, median ---------------------------------------------------------------- *)
Theorem st_mean_def d d' : eqQ d d' -> d <> [] -> exists v, st_mean d = Some v /\ v == mean_def d'.
Proof.
  intros E N. exists (qmean d). split; [destruct d; [congruence|reflexivity]|].
  rewrite qmean_mean_def. now apply mean_def_eqQ.
Qed.

Theorem st_median_def d d' : eqQ d d' -> d <> [] -> exists v, st_median d = Some v /\ is_median v d'.
Proof.
  intros E N. exists (median d). split; [destruct d; [congruence|reflexivity]|].
  now apply median_is_median.
Qed.

(* ---- variance: stdev^2 (population), sem^2 (ddof 1) -------------------------------- *)
Lemma sq_devs_sum d d' : eqQ d d' ->
  qsum (sq_devs d) == sumQ (map (fun x => (x - mean_def d') * (x - mean_def d')) d').
Proof.
  intro E. rewrite qsum_sumQ. unfold sq_devs. apply sumQ_eqQ, eqQ_map2; [|exact E].
  intros x y Exy. rewrite qsq_spec, qsub_spec, qmean_mean_def, (mean_def_eqQ _ _ E), Exy. reflexivity.
Qed.

Lemma var_pop_def d d' : eqQ d d' -> var_pop d == var_def 0 d'.
Proof.
  intro E. unfold var_pop. rewrite qmean_spec, (sq_devs_sum d d' E). unfold var_def, sq_devs.
  rewrite map_length. rewrite <- lenQ_qofnat, (lenQ_eqQ _ _ E).
  change (inject_Z (Z.of_nat 0)) with 0. unfold Qminus. rewrite Qplus_0_r. reflexivity.
Qed.

Lemma var_ddof1_def d d' : eqQ d d' -> d <> [] -> var_ddof1 d == var_def 1 d'.
Proof.
  intros E N. unfold var_ddof1. rewrite qdiv_spec, (sq_devs_sum d d' E). unfold var_def.
  assert (L : qofnat (length d - 1) == lenQ d' - inject_Z (Z.of_nat 1)).
  { rewrite <- (lenQ_eqQ _ _ E). unfold lenQ, qofnat.
    pose proof (length_pos_nonnil d N). rewrite Nat2Z.inj_sub by lia.
    unfold Zminus. rewrite inject_Z_plus, inject_Z_opp. reflexivity. }
  rewrite L. reflexivity.
Qed.

Theorem st_stdev_def d d' : eqQ d d' -> d <> [] ->
  exists v, st_stdev_sq d = Some v /\ v == stdev_sq_def d'.
Proof.
  intros E N. exists (var_pop d). split; [destruct d; [congruence|reflexivity]|].
  now apply var_pop_def.
Qed.

Theorem st_sem_def d d' : eqQ d d' -> (2 <= length d)%nat ->
  exists v, st_sem_sq d = Some v /\ v == sem_sq_def d'.
Proof.
  intros E L. exists (qdiv (var_ddof1 d) (qofnat (length d))). split.
  - destruct d as [|x [|y t]]; cbn in L; try lia. reflexivity.
  - rewrite qdiv_spec, (var_ddof1_def d d' E (two_nonnil _ L)). unfold sem_sq_def.
    now rewrite <- lenQ_qofnat, (lenQ_eqQ _ _ E).
Qed.

Theorem t_squared_def d d' : eqQ d d' -> d <> [] -> t_squared d == t_sq_def d'.
Proof.
  intros E N. unfold t_squared, t_sq_def.
  rewrite qdiv_spec, qmul_spec, qsq_spec, qmean_mean_def, (mean_def_eqQ _ _ E),
    (var_ddof1_def d d' E N), <- lenQ_qofnat, (lenQ_eqQ _ _ E). reflexivity.
Qed.

(* ---- MAD, MSE, IQR --------------------------------------------------------------- *)
Theorem st_mad_def d d' : eqQ d d' -> (2 <= length d)%nat ->
  exists v, st_mad d = Some v /\ is_mad MAD_SCALE v d'.
Proof.
  intros E L. unfold st_mad, median_absolute_deviation. rewrite on_array_two by exact L.
  eexists. split; [reflexivity|].
  unfold mad_core. change MAD_SCALE_TO_SD with true. cbv iota.
  exists (median d), (median (abs_all (sub_all (median d) d))). split; [|split].
  - now apply median_is_median.
  - apply median_is_median. unfold abs_all, sub_all. rewrite map_map.
    apply eqQ_map2; [|exact E]. intros x y Exy. unfold qabs. rewrite qsub_spec, Exy. reflexivity.
  - rewrite qmul_spec. ring.
Qed.

Theorem st_mse_def d d' : eqQ d d' -> (2 <= length d)%nat ->
  exists v, st_mse d = Some v /\ v == mse_def d'.
Proof.
  intros E L. unfold st_mse. rewrite on_array_two by exact L.
  eexists. split; [reflexivity|].
  rewrite qmean_spec, map_length, qsum_sumQ. unfold mse_def.
  rewrite <- lenQ_qofnat, (lenQ_eqQ _ _ E).
  assert (S : sumQ (map qsq d) == sumQ (map (fun x => x * x) d')).
  { apply sumQ_eqQ, eqQ_map2; [|exact E]. intros x y Exy. now rewrite qsq_spec, Exy. }
  rewrite S. reflexivity.
Qed.

Theorem st_iqr_def d d' : eqQ d d' -> (2 <= length d)%nat ->
  exists v, st_iqr d = Some v /\ is_iqr v d'.
Proof.
  intros E L. unfold st_iqr, interquartile_range. rewrite on_array_two by exact L.
  eexists. split; [reflexivity|].
  exists (percentile IQR_LO d), (percentile IQR_HI d). split; [|split].
  - apply (percentile_is_percentile 25 d d' E).
  - apply (percentile_is_percentile 75 d d' E).
  - unfold iqr_core. apply qsub_spec.
Qed.

Lemma qmean_single x : qmean [x] == x.
Proof.
  rewrite qmean_spec, qsum_cons. change (qsum []) with 0. change (qofnat (length [x])) with 1. field.
Qed.

(* ---- no bin, one bin: what the decorators give -------------------------------------- *)
Theorem st_empty loc :
  st_mean [] = None /\ st_median [] = None /\ st_stdev_sq [] = None /\ st_mad [] = None /\
  st_mse [] = None /\ st_iqr [] = None /\ st_bivar_sq loc [] = None /\ st_sem_sq [] = None.
Proof. repeat split. Qed.

Theorem st_single loc x :
  (exists v, st_mean [x] = Some v /\ v == x) /\ (exists v, st_median [x] = Some v /\ v == x) /\
  (exists v, st_stdev_sq [x] = Some v /\ v == 0) /\ st_mad [x] = Some 0 /\ st_mse [x] = Some 0 /\
  st_iqr [x] = Some 0 /\ (exists v, st_bivar_sq loc [x] = Some v /\ v == 0) /\ st_sem_sq [x] = None.
Proof.
  split; [|split; [|split; [|split; [|split; [|split; [|split]]]]]]; try reflexivity.
  - eexists. split; [reflexivity|]. apply qmean_single.
  - eexists. split; [reflexivity|]. apply median_singleton.
  - eexists. split; [reflexivity|]. unfold var_pop, sq_devs. cbn [map].
    rewrite qmean_single, qsq_spec, qsub_spec, qmean_single. ring.
  - eexists. split; [reflexivity|]. reflexivity.
Qed.

(* ---- prediction interval ---------------------------------------------------------- *)
Lemma pi_pcts alpha : 0 < alpha -> alpha < 1 ->
  0 <= pi_pct_lo alpha /\ pi_pct_lo alpha <= 50 /\ 50 <= pi_pct_hi alpha /\ pi_pct_hi alpha <= 100.
Proof.
  intros A0 A1.
  assert (E1 : pi_pct_lo alpha == 50 * alpha).
  { unfold pi_pct_lo. rewrite Qred_correct. unfold pi_hundred_lo, pi_two_lo. field. }
  assert (E2 : pi_pct_hi alpha == 100 - 50 * alpha).
  { unfold pi_pct_hi. rewrite Qred_correct. unfold pi_hundred_hi, pi_one_hi, pi_two_hi. field. }
  rewrite E1, E2. repeat split; lra.
Qed.

(* the percentages are the property text's alpha/2 and 1 - alpha/2 *)
Lemma pi_pcts_text alpha :
  pi_pct_lo alpha == 100 * (alpha / 2) /\ pi_pct_hi alpha == 100 * (1 - alpha / 2).
Proof.
  unfold pi_pct_lo, pi_pct_hi. rewrite !Qred_correct.
  unfold pi_hundred_lo, pi_two_lo, pi_hundred_hi, pi_one_hi, pi_two_hi. split; field.
Qed.

Theorem pi_order alpha vals lo hi : 0 < alpha -> alpha < 1 ->
  pi_func alpha vals = Some (lo, hi) ->
  lo <= median vals /\ median vals <= hi /\
  is_percentile (pi_pct_lo alpha) lo vals /\ is_percentile (pi_pct_hi alpha) hi vals.
Proof.
  intros A0 A1 H. destruct (pi_pcts alpha A0 A1) as (P0 & P1 & P2 & P3).
  destruct vals as [|x t]; [discriminate|]. unfold pi_func in H. injection H as <- <-.
  assert (N : x :: t <> []) by discriminate.
  rewrite <- (percentile_50_median _ N). repeat split.
  - apply percentile_mono; auto; lra.
  - apply percentile_mono; auto; lra.
  - apply percentile_is_percentile, eqQ_refl.
  - apply percentile_is_percentile, eqQ_refl.
Qed.

Theorem pi_empty alpha : pi_func alpha [] = None.
Proof. reflexivity. Qed.

(* ---- bootstrap confidence interval -------------------------------------------------- *)
Lemma ci_pcts alpha : 0 < alpha -> alpha < 1 ->
  0 <= ci_pct_lo alpha /\ ci_pct_lo alpha <= ci_pct_hi alpha /\ ci_pct_hi alpha <= 100.
Proof.
  intros A0 A1.
  assert (E1 : ci_pct_lo alpha == 50 * alpha).
  { unfold ci_pct_lo. rewrite Qred_correct. unfold ci_hundred, ci_two_lo. field. }
  assert (E2 : ci_pct_hi alpha == 100 - 50 * alpha).
  { unfold ci_pct_hi. rewrite Qred_correct. unfold ci_hundred, ci_one_hi, ci_two_hi. field. }
  rewrite E1, E2. repeat split; lra.
Qed.

Lemma ci_pcts_text alpha :
  ci_pct_lo alpha == 100 * (alpha / 2) /\ ci_pct_hi alpha == 100 * (1 - alpha / 2).
Proof.
  unfold ci_pct_lo, ci_pct_hi. rewrite !Qred_correct.
  unfold ci_hundred, ci_two_lo, ci_one_hi, ci_two_hi. split; field.
Qed.

Lemma nth_nil_any {A} i (d : A) : nth i [] d = d.
Proof. destruct i; reflexivity. Qed.

(* percentiles of ANY list are ordered (the empty list gives 0 twice) *)
Lemma percentile_order p1 p2 l : 0 <= p1 -> p1 <= p2 -> p2 <= 100 -> percentile p1 l <= percentile p2 l.
Proof.
  intros. destruct l as [|x t]; [|apply percentile_mono; auto; discriminate].
  assert (Z0 : forall p, percentile p [] == 0).
  { intro p. unfold percentile. rewrite interp_sorted_spec. change (qsort []) with (@nil Q).
    unfold nthq. rewrite !nth_nil_any. ring. }
  rewrite !Z0. lra.
Qed.

(* ci_lo <= ci_hi: smoothed or not, whatever the index matrix and the noise are *)
Theorem ci_order O alpha boots smoothed vals wts lo hi : 0 < alpha -> alpha < 1 ->
  ci_func O alpha boots smoothed vals wts = Some (lo, hi) -> lo <= hi.
Proof.
  intros A0 A1 H. destruct (ci_pcts alpha A0 A1) as (P0 & P1 & P2).
  unfold ci_func in H. destruct vals as [|x t]; [discriminate|].
  destruct (Z.of_nat (length (x :: t)) <? ci_min_k)%Z.
  - inversion H; subst. lra.
  - inversion H; subst. now apply percentile_order.
Qed.

(* the oracle contract of the index matrix: at least one resample, every resample
   non-empty with entries in [0, k) *)
Definition idx_contract (k : nat) (m : list (list nat)) : Prop :=
  m <> [] /\ Forall (fun r => r <> [] /\ Forall (fun i => (i < k)%nat) r) m.

Lemma take_In l idx x : Forall (fun i => (i < length l)%nat) idx -> In x (take l idx) -> In x l.
Proof.
  intros F I. unfold take in I. apply in_map_iff in I. destruct I as (i & <- & Hi).
  rewrite Forall_forall in F. apply nthq_In, F, Hi.
Qed.

Lemma boot_mean_range vals wts idx : length wts = length vals ->
  (forall w, In w wts -> 0 < w) -> idx <> [] -> Forall (fun i => (i < length vals)%nat) idx ->
  qmin vals <= wmean (take vals idx) (take wts idx) <= qmax vals.
Proof.
  intros L W N F.
  assert (Fw : Forall (fun i => (i < length wts)%nat) idx) by now rewrite L.
  apply wmean_bounds.
  - unfold take. now rewrite !map_length.
  - destruct idx as [|i t]; [congruence|]. unfold take. cbn [map]. rewrite qsum_cons.
    inversion Fw; subst.
    assert (0 < nthq i wts) by (apply W, nthq_In; assumption).
    assert (0 <= qsum (map (fun i => nthq i wts) t)); [|lra].
    apply qsum_nonneg. intros y Hy. apply Qlt_le_weak, W. now apply (take_In wts t y).
  - intros y Hy. apply Qlt_le_weak, W. now apply (take_In wts idx y).
  - intros y Hy. pose proof (take_In vals idx y F Hy). split; [now apply qmin_le|now apply qmax_ge].
Qed.

(* un-smoothed bootstrap, positive weights, ANY index matrix meeting the contract:
   ci_lo <= ci_hi and both inside [min, max] of the bins' log2 *)
Theorem ci_order_range O alpha boots vals wts lo hi : 0 < alpha -> alpha < 1 ->
  length wts = length vals -> (forall w, In w wts -> 0 < w) ->
  idx_contract (length vals) (ci_resamples O boots (length vals)) ->
  ci_func O alpha boots false vals wts = Some (lo, hi) ->
  lo <= hi /\ qmin vals <= lo /\ hi <= qmax vals.
Proof.
  intros A0 A1 L W [N C] H. split; [eapply ci_order; eauto|].
  destruct (ci_pcts alpha A0 A1) as (P0 & P1 & P2).
  unfold ci_func in H. destruct vals as [|x t] eqn:EV; [discriminate|]. rewrite <- EV in *.
  assert (NV : vals <> []) by (rewrite EV; discriminate).
  destruct (Z.of_nat (length vals) <? ci_min_k)%Z.
  - inversion H; subst lo hi. assert (In x vals) by (rewrite EV; now left).
    split; [now apply qmin_le|now apply qmax_ge].
  - inversion H; subst lo hi. clear H. unfold ci_dist.
    set (M := ci_resamples O boots (length vals)) in *.
    assert (B : forall y, In y (boot_means vals wts M) -> qmin vals <= y <= qmax vals).
    { intros y Hy. unfold boot_means in Hy. apply in_map_iff in Hy. destruct Hy as (idx & <- & Hi).
      rewrite Forall_forall in C. destruct (C idx Hi) as [Ni Fi]. now apply boot_mean_range. }
    assert (ND : boot_means vals wts M <> []).
    { unfold boot_means. destruct M; [congruence|discriminate]. }
    split.
    + apply (percentile_bounds _ _ (qmin vals) (qmax vals) ND); [lra|exact B].
    + apply (percentile_bounds _ _ (qmin vals) (qmax vals) ND); [lra|exact B].
Qed.

(* the bounds are the textbook minimum and maximum *)
Lemma qmin_is_min l : l <> [] -> is_min (qmin l) l.
Proof. intro N. split; [now apply qmin_In|intros; now apply qmin_le]. Qed.
Lemma qmax_is_max l : l <> [] -> is_max (qmax l) l.
Proof. intro N. split; [now apply qmax_In|intros; now apply qmax_ge]. Qed.

(* a smoothed bootstrap need not stay inside the bins' range: two bins at log2 1, one
   resample, noise -1 on both draws *)
Theorem ci_smoothed_range_refuted :
  exists O alpha boots vals wts lo,
    0 < alpha /\ alpha < 1 /\ length wts = length vals /\ (forall w, In w wts -> 0 < w) /\
    idx_contract (length vals) (ci_resamples O boots (length vals)) /\
    ci_func O alpha boots true vals wts = Some (lo, lo) /\ lo < qmin vals.
Proof.
  (* one resample (the witness generator ignores the number of rows asked for: the clause
     fails for every index matrix), bandwidth 1, sqrt(1/2) taken as 1, both normal draws -1 *)
  exists (mkOracles O 0 (fun t _ => t) 40 (fun _ _ _ _ => [[0%nat; 1%nat]]) (fun _ _ _ _ => [[-1; -1]])
                    (fun _ => 1) (fun _ => 1)), (1 # 20), 100%Z,
         [1; 1], [1 # 2; 1 # 2], 0.
  repeat split; try reflexivity.
  - intros w [<-|[<-|[]]]; reflexivity.
  - discriminate.
  - repeat constructor; discriminate.
Qed.
