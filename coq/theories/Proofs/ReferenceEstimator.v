(* C05_estimator: each row of the pooled reference carries the biweight location and
   midvariance (Spec/Biweight.v) of its bin's column, and the column is the flat level of the bin
   followed by every sample's centred, sex-shifted value at that bin. *)
From CNV Require Import Base.Prelude Base.Str Base.QNum Gen.RefDefaults Model.Chromsort Model.Center
  Model.Sex Model.Reference Spec.Biweight Spec.Reference Proofs.QNumLemmas Proofs.ChromsortLemmas
  Proofs.ReferenceFlat Proofs.ReferenceBins Proofs.ReferenceBiweight.
Local Open Scope Q_scope.

(* ---- the sex shift is the one the property describes -------------------------------------------- *)
Lemma shift_one_spec is_xx fl xm ym v :
  shift_one is_xx (fl, xm, ym) v == shifted_value is_xx fl xm ym v.
Proof.
  unfold shift_one, shifted_value.
  destruct is_xx; [destruct ym|destruct (xm || ym)]; rewrite ?qadd_spec; reflexivity.
Qed.

(* ---- centring adds one constant to every bin ------------------------------------------------------ *)
Lemma center_all_uniform est by_chrom skip build t :
  exists c, map b_log2 (center_all est by_chrom skip build t) = map (fun b => qadd (b_log2 b) c) t
            \/ center_all est by_chrom skip build t = t.
Proof.
  unfold center_all. destruct (center_shift est by_chrom skip build t) as [s|].
  - exists s. left. rewrite map_map. reflexivity.
  - exists 0. right. reflexivity.
Qed.

Lemma center_all_length est by_chrom skip build t :
  length (center_all est by_chrom skip build t) = length t.
Proof. unfold center_all. destruct (center_shift _ _ _ _ _); [apply map_length|reflexivity]. Qed.

(* ---- the columns of a block -------------------------------------------------------------------------- *)
Lemma column_cons h rest i : column (h :: rest) i = nth i h 0 :: map (fun r => nth i r 0) rest.
Proof. reflexivity. Qed.

(* value of sample s at bin i of its block *)
Definition sample_value (hap : bool) (build : option parb) (sexes : list (string * bool)) (skip : bool)
  (bins : list bin) (i : nat) (s : sample) : Q :=
  nth i (sample_logr build sexes skip (sex_rows hap build bins) s) 0.

Definition block_column (hap : bool) (build : option parb) (sexes : list (string * bool)) (skip : bool)
  (files : list sample) (i : nat) : list Q :=
  let bins := block_bins files in
  nth i (expect_flat hap build bins) 0 :: map (sample_value hap build sexes skip bins i) (sort_samples files).

Lemma nth_expect_flat hap build bins i d :
  (i < length bins)%nat -> nth i (expect_flat hap build bins) 0 = flat_at hap build bins (nth i bins d).
Proof.
  intros Hi. rewrite expect_flat_map.
  rewrite (nth_indep _ 0 (flat_at hap build bins d)) by (rewrite map_length; exact Hi).
  apply map_nth.
Qed.

Lemma load_block_columns hap build sexes skip files bins logr depths bc :
  load_block hap build sexes skip files = BlkOk bins logr depths ->
  In bc (block_cols bins logr depths) ->
  files <> [] /\ bins = block_bins files /\
  exists i, (i < length bins)%nat /\ bc_bin bc = nth i bins (bc_bin bc) /\
            bc_col bc = block_column hap build sexes skip files i.
Proof.
  intros Hb Hin. destruct (load_block_ok _ _ _ _ _ _ _ _ Hb) as (Ebins & _ & Hne).
  destruct (In_block_cols _ _ _ _ Hin) as (i & Hi & Ebc).
  assert (Hbne : bins <> []) by (intro E; rewrite E in Hi; cbn in Hi; lia).
  destruct (Hne Hbne) as (_ & El & _).
  split.
  - intro E. subst files. unfold load_block in Hb. cbn in Hb. discriminate.
  - split; [exact Ebins|]. exists i. split; [exact Hi|]. split.
    + rewrite Ebc at 1. reflexivity.
    + rewrite Ebc. unfold bc_col. cbn [fst snd]. rewrite El, column_cons.
      unfold block_column. cbv zeta. rewrite <- Ebins. rewrite map_map. reflexivity.
Qed.

Lemma block_column_length hap build sexes skip files i :
  files <> [] -> (2 <= length (block_column hap build sexes skip files i))%nat.
Proof.
  intros Hne. unfold block_column. cbn [length]. rewrite map_length.
  rewrite <- (Permutation_length (sort_samples_perm files)).
  destruct files; [congruence|cbn; lia].
Qed.

(* every pooled column comes from the target block or from the antitarget block *)
Lemma pool_cols_origin hap build sexes targets antis bc :
  In bc (pool_cols hap build sexes targets antis) ->
  exists skip files i,
    ((skip = true /\ files = targets) \/ (skip = false /\ files = antis /\ antis <> [])) /\
    files <> [] /\ (i < length (block_bins files))%nat /\
    bc_bin bc = nth i (block_bins files) (bc_bin bc) /\
    bc_col bc = block_column hap build sexes skip files i.
Proof.
  unfold pool_cols. intros H.
  assert (Hblk : forall skip files,
             In bc (match load_block hap build sexes skip files with
                    | BlkOk b l d => block_cols b l d | BlkErr _ => [] end) ->
             files <> [] /\ exists i, (i < length (block_bins files))%nat /\
               bc_bin bc = nth i (block_bins files) (bc_bin bc) /\
               bc_col bc = block_column hap build sexes skip files i).
  { intros skip files Hin.
    destruct (load_block hap build sexes skip files) as [m|b l d] eqn:E; [destruct Hin|].
    destruct (load_block_columns _ _ _ _ _ _ _ _ _ E Hin) as (Hne & Eb & i & Hi & H1 & H2).
    split; [exact Hne|]. exists i. rewrite <- Eb. auto. }
  destruct antis as [|a antis'].
  - destruct (Hblk true targets H) as (Hne & i & Hi & H1 & H2).
    exists true, targets, i. split; [left; auto|]. auto.
  - apply in_app_or in H. destruct H as [H|H].
    + destruct (Hblk true targets H) as (Hne & i & Hi & H1 & H2).
      exists true, targets, i. split; [left; auto|]. auto.
    + destruct (Hblk false (a :: antis') H) as (Hne & i & Hi & H1 & H2).
      exists false, (a :: antis'), i. split; [right; split; [reflexivity|split; [reflexivity|discriminate]]|]. auto.
Qed.

(* ---- the theorem --------------------------------------------------------------------------------------- *)
Theorem pool_estimator hap build sexes targets antis rows r :
  pool hap build sexes targets antis = ROk rows -> In r rows ->
  exists bc, In bc (pool_cols hap build sexes targets antis) /\
    ref_key r = key_of (bc_bin bc) /\
    (2 <= length (bc_col bc))%nat /\
    r_log2 r == consensus_log2 (bc_col bc) /\
    r_spread_sq r == consensus_spread_sq (bc_col bc).
Proof.
  intros Hp Hr. destruct (pool_ok _ _ _ _ _ _ Hp) as (Erows & _).
  rewrite Erows in Hr. apply sort_regions_In in Hr. apply in_map_iff in Hr.
  destruct Hr as (bc & <- & Hbc). exists bc. split; [exact Hbc|].
  split; [apply consensus_key|].
  assert (Hl : (2 <= length (bc_col bc))%nat).
  { destruct (pool_cols_origin _ _ _ _ _ _ Hbc) as (skip & files & i & _ & Hne & _ & _ & Ec).
    rewrite Ec. apply block_column_length. exact Hne. }
  split; [exact Hl|].
  destruct bc as [[b col] dcol]. unfold bc_col in *. cbn [fst snd consensus r_log2 r_spread_sq] in *.
  split.
  - apply ref_biloc_spec. exact Hl.
  - unfold consensus_spread_sq, consensus_log2. apply ref_bivar_spec; [exact Hl|].
    apply ref_biloc_spec. exact Hl.
Qed.

(* what a sample contributes to the column of bin i: its centred value at that bin, shifted *)
Lemma sample_value_spec hap build sexes skip bins i s d :
  (i < length bins)%nat -> length (s_bins s) = length bins ->
  sample_value hap build sexes skip bins i s ==
  shifted_value (sample_is_xx sexes (s_id s))
    (flat_at hap build bins (nth i bins d))
    (chr_x_filter bins build (nth i bins d)) (chr_y_filter bins build (nth i bins d))
    (b_log2 (nth i (center_all median true skip build (s_bins s)) d)).
Proof.
  intros Hi Hl. unfold sample_value, sample_logr.
  set (cen := center_all median true skip build (s_bins s)).
  assert (Hlc : length cen = length bins) by (unfold cen; rewrite center_all_length; exact Hl).
  set (f := fun p : sexrow * bin => shift_one (sample_is_xx sexes (s_id s)) (fst p) (b_log2 (snd p))).
  rewrite (nth_indep _ 0 (f ((flat_at hap build bins d, chr_x_filter bins build d, chr_y_filter bins build d), d)))
    by (rewrite map_length, combine_length; unfold sex_rows; rewrite map_length; lia).
  rewrite (map_nth f). rewrite nth_combine by (unfold sex_rows; rewrite map_length; lia).
  unfold f. cbn [fst snd]. unfold sex_rows.
  rewrite (map_nth (fun b => (flat_at hap build bins b, chr_x_filter bins build b, chr_y_filter bins build b))).
  apply shift_one_spec.
Qed.

(* a row of the pooled table, the block and bin it comes from, and its column *)
Theorem pool_row_column hap build sexes targets antis rows r :
  pool hap build sexes targets antis = ROk rows -> In r rows ->
  exists skip files i,
    ((skip = true /\ files = targets) \/ (skip = false /\ files = antis /\ antis <> [])) /\
    files <> [] /\ (i < length (block_bins files))%nat /\
    (forall d, ref_key r = key_of (nth i (block_bins files) d)) /\
    r_log2 r == consensus_log2 (block_column hap build sexes skip files i) /\
    r_spread_sq r == consensus_spread_sq (block_column hap build sexes skip files i).
Proof.
  intros Hp Hr. destruct (pool_estimator _ _ _ _ _ _ _ Hp Hr) as (bc & Hbc & Hk & _ & Hl & Hs).
  destruct (pool_cols_origin _ _ _ _ _ _ Hbc) as (skip & files & i & Ho & Hne & Hi & Hb & Hc).
  exists skip, files, i. split; [exact Ho|]. split; [exact Hne|]. split; [exact Hi|].
  rewrite <- Hc. split; [|split; assumption].
  intros d. rewrite Hk, Hb. f_equal. apply nth_indep. exact Hi.
Qed.

(* sqrt is an oracle: whatever function meets the contract, a zero variance is a zero spread *)
Section Sqrt.
  Variable sqrt : Q -> Q.
  Hypothesis sqrt_contract : forall x, 0 <= x -> 0 <= sqrt x /\ sqrt x * sqrt x == x.

  Lemma spread_zero x : x == 0 -> sqrt x == 0.
  Proof.
    intros E. destruct (sqrt_contract x) as (_ & H); [rewrite E; apply Qle_refl|].
    assert (H0 : sqrt x * sqrt x == 0) by (rewrite H; exact E).
    destruct (Qmult_integral _ _ H0); assumption.
  Qed.
End Sqrt.

(* ---- the depth column: biweight location of the samples' depths, without the flat pseudo-sample ------------- *)
Definition depth_column (files : list sample) (i : nat) : list Q :=
  map (fun s => nth i (s_depth s) 0) (sort_samples files).

Lemma ref_biloc_depth dcol : (1 <= length dcol)%nat -> ref_biloc dcol == consensus_depth dcol.
Proof.
  intros Hl. destruct dcol as [|x [|y t]]; cbn in Hl; [lia| |].
  - reflexivity.
  - unfold consensus_depth. apply ref_biloc_spec. cbn. lia.
Qed.

Lemma load_block_dcolumns hap build sexes skip files bins logr depths bc :
  load_block hap build sexes skip files = BlkOk bins logr depths ->
  In bc (block_cols bins logr depths) ->
  files <> [] /\ bins = block_bins files /\
  exists i, (i < length bins)%nat /\ bc_bin bc = nth i bins (bc_bin bc) /\
            bc_col bc = block_column hap build sexes skip files i /\
            bc_dcol bc = depth_column files i.
Proof.
  intros Hb Hin. destruct (load_block_columns _ _ _ _ _ _ _ _ _ Hb Hin) as (Hne & Eb & _).
  destruct (load_block_ok _ _ _ _ _ _ _ _ Hb) as (Ebins & _ & Hok).
  destruct (In_block_cols _ _ _ _ Hin) as (i & Hi & Ebc).
  assert (Hbne : bins <> []) by (intro E; rewrite E in Hi; cbn in Hi; lia).
  destruct (Hok Hbne) as (_ & El & Ed).
  split; [exact Hne|]. split; [exact Eb|]. exists i. split; [exact Hi|]. split.
  - rewrite Ebc at 1. reflexivity.
  - split.
    + rewrite Ebc. unfold bc_col. cbn [fst snd]. rewrite El, column_cons.
      unfold block_column. cbv zeta. rewrite <- Ebins. rewrite map_map. reflexivity.
    + rewrite Ebc. unfold bc_dcol. cbn [snd]. rewrite Ed. unfold column, depth_column. rewrite map_map. reflexivity.
Qed.

Lemma pool_cols_origin_depth hap build sexes targets antis bc :
  In bc (pool_cols hap build sexes targets antis) ->
  exists skip files i,
    ((skip = true /\ files = targets) \/ (skip = false /\ files = antis /\ antis <> [])) /\
    files <> [] /\ (i < length (block_bins files))%nat /\
    bc_bin bc = nth i (block_bins files) (bc_bin bc) /\
    bc_dcol bc = depth_column files i.
Proof.
  unfold pool_cols. intros H.
  assert (Hblk : forall skip files,
             In bc (match load_block hap build sexes skip files with
                    | BlkOk b l d => block_cols b l d | BlkErr _ => [] end) ->
             files <> [] /\ exists i, (i < length (block_bins files))%nat /\
               bc_bin bc = nth i (block_bins files) (bc_bin bc) /\
               bc_dcol bc = depth_column files i).
  { intros skip files Hin.
    destruct (load_block hap build sexes skip files) as [m|b l d] eqn:E; [destruct Hin|].
    destruct (load_block_dcolumns _ _ _ _ _ _ _ _ _ E Hin) as (Hne & Eb & i & Hi & H1 & _ & H3).
    split; [exact Hne|]. exists i. rewrite <- Eb. auto. }
  destruct antis as [|a antis'].
  - destruct (Hblk true targets H) as (Hne & i & Hi & H1 & H2).
    exists true, targets, i. split; [left; auto|]. auto.
  - apply in_app_or in H. destruct H as [H|H].
    + destruct (Hblk true targets H) as (Hne & i & Hi & H1 & H2).
      exists true, targets, i. split; [left; auto|]. auto.
    + destruct (Hblk false (a :: antis') H) as (Hne & i & Hi & H1 & H2).
      exists false, (a :: antis'), i. split; [right; split; [reflexivity|split; [reflexivity|discriminate]]|]. auto.
Qed.

(* every row's depth is the biweight location (the value itself for one file) of the depths the files of its block
   hold at its bin, in sample-id order; the flat pseudo-sample does not enter *)
Theorem pool_row_depth hap build sexes targets antis rows r :
  pool hap build sexes targets antis = ROk rows -> In r rows ->
  exists skip files i,
    ((skip = true /\ files = targets) \/ (skip = false /\ files = antis /\ antis <> [])) /\
    files <> [] /\ (i < length (block_bins files))%nat /\
    (forall d, ref_key r = key_of (nth i (block_bins files) d)) /\
    length (depth_column files i) = length files /\
    r_depth r == consensus_depth (depth_column files i).
Proof.
  intros Hp Hr. destruct (pool_ok _ _ _ _ _ _ Hp) as (Erows & _).
  rewrite Erows in Hr. apply sort_regions_In in Hr. apply in_map_iff in Hr.
  destruct Hr as (bc & <- & Hbc).
  destruct (pool_cols_origin_depth _ _ _ _ _ _ Hbc) as (skip & files & i & Ho & Hne & Hi & Hb & Hd).
  exists skip, files, i. split; [exact Ho|]. split; [exact Hne|]. split; [exact Hi|].
  assert (Hlen : length (depth_column files i) = length files).
  { unfold depth_column. rewrite map_length. symmetry. apply Permutation_length, sort_samples_perm. }
  split; [|split; [exact Hlen|]].
  - intros d. rewrite (consensus_key bc), Hb. f_equal. apply nth_indep. exact Hi.
  - destruct bc as [[b col] dcol]. unfold bc_dcol in Hd. cbn [snd] in Hd. cbn [consensus r_depth].
    rewrite Hd. apply ref_biloc_depth. rewrite Hlen. destruct files; [congruence|cbn; lia].
Qed.
