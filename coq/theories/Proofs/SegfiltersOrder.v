(* C14, part 4: which runs ampdel keeps, the order in which do_call applies the
   filters, the levels of ci / sem spelled out, and the witness for the plain
   reading failing on a table with allele-specific copy numbers. *)
From Coq Require Import QArith.Qabs.
From CNV Require Import Base.Prelude Base.Str Gen.SegfilterDefaults Model.Segfilters Spec.Segfilters.
From CNV Require Import Proofs.SegfiltersRuns Proofs.SegfiltersKeys Proofs.SegfiltersConserve.
From Coq Require Import Lqa.     (* lra over Q (Prelude's Lra is the one over R) *)

(* -------------------------------------------------------------------- ampdel *)

Lemma ampdel_level_cases s :
  (Qle_bool 5 (cn s) = true /\ spec_level Fampdel s = 1%Q) \/
  (Qle_bool 5 (cn s) = false /\ Qeq_bool (cn s) 0 = true /\ spec_level Fampdel s = (-1)%Q) \/
  (Qle_bool 5 (cn s) = false /\ Qeq_bool (cn s) 0 = false /\ spec_level Fampdel s = 0%Q).
Proof.
  cbn [spec_level]. destruct (Qle_bool 5 (cn s)); [left; auto|].
  destruct (Qeq_bool (cn s) 0); [right; left; auto|right; right; auto].
Qed.

Lemma ampdel_keep_unfold o : ampdel_keep o = Qeq_bool (cn o) 0 || Qle_bool 5 (cn o).
Proof. reflexivity. Qed.

Lemma ampdel_run_keep r :
  r <> [] ->
  (forall x y, In x r -> In y r -> same_full Fampdel x y = true) ->
  Forall (fun s => (0 <= cn s)%Q) r ->
  ampdel_keep (squash_region r) = run_is_ampdel r.
Proof.
  intros NE Alike NN. destruct r as [|s0 r']; [contradiction NE; reflexivity|].
  set (r := s0 :: r') in *.
  assert (Lev : forall s, In s r -> Qeq_bool (spec_level Fampdel s0) (spec_level Fampdel s) = true).
  { intros s Hs. specialize (Alike s0 s (or_introl eq_refl) Hs).
    unfold same_full, same_plain in Alike. rewrite !andb_true_iff in Alike. tauto. }
  rewrite ampdel_keep_unfold. unfold run_is_ampdel.
  destruct (ampdel_level_cases s0) as [(A & L0)|[(A & B & L0)|(A & B & L0)]].
  - (* amplified *)
    assert (All : forall s, In s r -> Qle_bool 5 (cn s) = true).
    { intros s Hs. specialize (Lev s Hs). rewrite L0 in Lev.
      destruct (ampdel_level_cases s) as [(A' & _)|[(_ & _ & L')|(_ & _ & L')]]; [exact A'| |];
        rewrite L' in Lev; cbv in Lev; discriminate. }
    assert (Out : Qle_bool 5 (cn (squash_region r)) = true).
    { apply Qle_bool_iff. apply (cn_squash_P (fun x => (5 <= x)%Q)).
      - intros a b E Ha. rewrite <- E. exact Ha.
      - intros a b Ha Hb. cbv beta in *. apply Qle_shift_div_l; [reflexivity|]. lra.
      - exact NE.
      - apply Forall_forall. intros s Hs. apply Qle_bool_iff. apply All. exact Hs. }
    rewrite Out, orb_true_r.
    assert (F2 : forallb (fun s => Qle_bool 5 (cn s)) r = true) by (apply forallb_forall; exact All).
    rewrite F2, orb_true_r. reflexivity.
  - (* deleted *)
    assert (All : forall s, In s r -> Qeq_bool (cn s) 0 = true).
    { intros s Hs. specialize (Lev s Hs). rewrite L0 in Lev.
      destruct (ampdel_level_cases s) as [(_ & L')|[(_ & B' & _)|(_ & _ & L')]]; [|exact B'|];
        rewrite L' in Lev; cbv in Lev; discriminate. }
    assert (Out : Qeq_bool (cn (squash_region r)) 0 = true).
    { apply Qeq_bool_iff. apply (cn_squash_P (fun x => (x == 0)%Q)).
      - intros a b E Ha. rewrite <- E. exact Ha.
      - intros a b Ha Hb. rewrite Ha, Hb. reflexivity.
      - exact NE.
      - apply Forall_forall. intros s Hs. apply Qeq_bool_iff. apply All. exact Hs. }
    rewrite Out. cbn [orb].
    assert (F1 : forallb (fun s => Qeq_bool (cn s) 0) r = true) by (apply forallb_forall; exact All).
    rewrite F1. reflexivity.
  - (* neither: every cn lies strictly between 0 and 5, and so does the median *)
    assert (All : forall s, In s r -> (0 < cn s /\ cn s < 5)%Q).
    { intros s Hs. specialize (Lev s Hs). rewrite L0 in Lev.
      rewrite Forall_forall in NN. specialize (NN s Hs).
      destruct (ampdel_level_cases s) as [(_ & L')|[(_ & _ & L')|(A' & B' & _)]];
        try (rewrite L' in Lev; cbv in Lev; discriminate).
      split.
      - apply Qle_lteq in NN. destruct NN as [NN|NN]; [exact NN|].
        exfalso. assert (Qeq_bool (cn s) 0 = true) by (apply Qeq_bool_iff; symmetry; exact NN). congruence.
      - apply Qnot_le_lt. intros L. apply Qle_bool_iff in L. congruence. }
    assert (Out : (0 < cn (squash_region r) /\ cn (squash_region r) < 5)%Q).
    { apply (cn_squash_P (fun x => (0 < x /\ x < 5)%Q)).
      - intros a b E Ha. rewrite <- E. exact Ha.
      - intros a b (Ha1 & Ha2) (Hb1 & Hb2). cbv beta in *. split.
        + apply Qlt_shift_div_l; [reflexivity|]. lra.
        + apply Qlt_shift_div_r; [reflexivity|]. lra.
      - exact NE.
      - apply Forall_forall. exact All. }
    destruct Out as (O1 & O2).
    assert (E1 : Qeq_bool (cn (squash_region r)) 0 = false).
    { destruct (Qeq_bool (cn (squash_region r)) 0) eqn:E; [|reflexivity]. apply Qeq_bool_iff in E. rewrite E in O1.
      exfalso. apply (Qlt_irrefl 0). exact O1. }
    assert (E2 : Qle_bool 5 (cn (squash_region r)) = false).
    { destruct (Qle_bool 5 (cn (squash_region r))) eqn:E; [|reflexivity]. apply Qle_bool_iff in E.
      exfalso. apply (Qlt_not_le _ _ O2 E). }
    rewrite E1, E2. unfold r. cbn [forallb]. rewrite A, B. reflexivity.
Qed.

Lemma filter_map_ext {A B} (p : B -> bool) (q : A -> bool) (g : A -> B) l :
  (forall x, In x l -> p (g x) = q x) -> filter p (map g l) = map g (filter q l).
Proof.
  induction l as [|x t IH]; intros H; cbn [map filter]; [reflexivity|].
  rewrite (H x (or_introl eq_refl)), IH by (intros y Hy; apply H; right; exact Hy).
  destruct (q x); reflexivity.
Qed.

Theorem ampdel_keeps : forall t : list seg,
  Contig (map chrom t) -> Forall (fun s => (0 <= cn s)%Q) t ->
  apply_filter Fampdel t = map squash_region (filter run_is_ampdel (level_runs Fampdel t)).
Proof.
  intros t C NN. unfold apply_filter. rewrite (squashed_runs Fampdel t C).
  destruct (level_runs_max Fampdel t) as (Ec & NE & Alike & _).
  rewrite Forall_forall in NE, Alike.
  apply filter_map_ext. intros r Hr. apply ampdel_run_keep.
  - apply NE. exact Hr.
  - apply Alike. exact Hr.
  - apply Forall_forall. intros s Hs. rewrite Forall_forall in NN. apply NN.
    rewrite <- Ec. apply in_concat. exists r. split; assumption.
Qed.

(* --------------------------------------------------------------------- order *)

Lemma filt_eqb_eq a b : filt_eqb a b = true <-> a = b.
Proof. destruct a, b; cbn; split; intros H; try reflexivity; try discriminate. Qed.

Lemma memf_in f l : memf f l = true <-> In f l.
Proof.
  unfold memf. rewrite existsb_exists. split.
  - intros (x & Hx & E). apply filt_eqb_eq in E. subst. exact Hx.
  - intros H. exists f. split; [exact H|]. apply filt_eqb_eq. reflexivity.
Qed.

Lemma memf_notin f l : memf f l = false <-> ~ In f l.
Proof.
  split.
  - intros H I. apply memf_in in I. congruence.
  - intros H. destruct (memf f l) eqn:E; [|reflexivity]. apply memf_in in E. contradiction.
Qed.

Lemma in_remove_first x p l : In x (remove_first p l) -> In x l.
Proof.
  induction l as [|g t IH]; cbn [remove_first]; [tauto|].
  destruct (filt_eqb p g); cbn [In]; tauto.
Qed.

Definition not_pre (f : filt) : bool := negb (is_pre f).

Lemma single_pre p fs :
  is_pre p = true -> NoDup fs -> In p fs -> (forall q, In q fs -> is_pre q = true -> q = p) ->
  remove_first p fs = filter not_pre fs /\ find is_pre fs = Some p.
Proof.
  intros Pp ND. induction ND as [|g r Hg ND IH]; intros Hin Huniq; [contradiction|].
  cbn [remove_first filter find]. destruct (filt_eqb p g) eqn:E.
  - apply filt_eqb_eq in E. subst g. unfold not_pre at 1. rewrite Pp. cbn [negb]. split; [|reflexivity].
    symmetry. apply filter_all. intros x Hx. unfold not_pre. destruct (is_pre x) eqn:Ex; [|reflexivity].
    exfalso. apply Hg. rewrite <- (Huniq x (or_intror Hx) Ex). exact Hx.
  - assert (Ng : is_pre g = false).
    { destruct (is_pre g) eqn:Eg; [|reflexivity]. rewrite (Huniq g (or_introl eq_refl) Eg) in E.
      assert (filt_eqb p p = true) by (apply filt_eqb_eq; reflexivity). congruence. }
    unfold not_pre at 1. rewrite Ng. cbn [negb].
    destruct IH as (I1 & I2).
    + destruct Hin as [->|Hin]; [|exact Hin].
      assert (filt_eqb p p = true) by (apply filt_eqb_eq; reflexivity). congruence.
    + intros q Hq. apply Huniq. right. exact Hq.
    + rewrite I1. split; [reflexivity|exact I2].
Qed.

Lemma no_pre fs :
  ~ In Fci fs -> ~ In Fsem fs -> filter not_pre fs = fs /\ find is_pre fs = None.
Proof.
  intros H1 H2. induction fs as [|g r IH]; [split; reflexivity|].
  assert (IH' : filter not_pre r = r /\ find is_pre r = None).
  { apply IH; intros H; [apply H1|apply H2]; right; exact H. }
  destruct IH' as (I1 & I2).
  destruct g.
  - exfalso. apply H1. left. reflexivity.
  - exfalso. apply H2. left. reflexivity.
  - cbn [filter find not_pre is_pre negb]. fold not_pre. rewrite I1, I2. split; reflexivity.
  - cbn [filter find not_pre is_pre negb]. fold not_pre. rewrite I1, I2. split; reflexivity.
Qed.

Lemma pre_filters_eq : pre_filters = [Fci; Fsem].
Proof. reflexivity. Qed.

Theorem call_order : forall (call : list seg -> list seg) (fs : list filt) (t : list seg),
  NoDup fs -> ~ (In Fci fs /\ In Fsem fs) ->
  call_with_filters call fs t =
    fold_left (fun acc f => apply_filter f acc) (filter (fun f => negb (is_pre f)) fs)
      (call (match find is_pre fs with Some p => apply_filter p t | None => t end)).
Proof.
  intros call fs t ND One. unfold call_with_filters. rewrite pre_filters_eq.
  cbn [pre_steps]. fold not_pre.
  destruct (memf Fci fs) eqn:Mci.
  - apply memf_in in Mci.
    assert (Nsem : ~ In Fsem fs) by tauto.
    destruct (single_pre Fci fs eq_refl ND Mci) as (R & F).
    { intros q Hq Pq. destruct q; try discriminate; [reflexivity|contradiction]. }
    assert (M2 : memf Fsem (remove_first Fci fs) = false).
    { apply memf_notin. intros H. apply Nsem. eapply in_remove_first. exact H. }
    rewrite M2, R, F. reflexivity.
  - apply memf_notin in Mci.
    destruct (memf Fsem fs) eqn:Msem.
    + apply memf_in in Msem.
      destruct (single_pre Fsem fs eq_refl ND Msem) as (R & F).
      { intros q Hq Pq. destruct q; try discriminate; [contradiction|reflexivity]. }
      rewrite R, F. reflexivity.
    + apply memf_notin in Msem. destruct (no_pre fs Mci Msem) as (R & F).
      rewrite R, F. reflexivity.
Qed.

(* ------------------------------------------------- the levels of ci and sem *)

Lemma qlt_lt a b : qlt a b = true <-> (a < b)%Q.
Proof. apply Qltb_lt. Qed.

(* a valid confidence interval (lo <= hi) lies above zero, below zero, or straddles it *)
Theorem ci_level_classes : forall (s : seg) (l h : Q),
  ci_lo s = Some l -> ci_hi s = Some h -> (l <= h)%Q ->
  (spec_level Fci s = 1%Q <-> (0 < l)%Q) /\
  (spec_level Fci s = (-1)%Q <-> (h < 0)%Q) /\
  (spec_level Fci s = 0%Q <-> (l <= 0 /\ 0 <= h)%Q).
Proof.
  intros s l h El Eh Le. cbn [spec_level]. rewrite El, Eh. cbn [olt ogt].
  destruct (qlt h 0) eqn:A; [apply qlt_lt in A|apply Qltb_nlt in A];
    (destruct (qlt 0 l) eqn:B; [apply qlt_lt in B|apply Qltb_nlt in B]);
    (split; [|split]); (split; intros HH); try discriminate; try reflexivity; try lra;
    try (exfalso; lra); try (split; lra).
Qed.

(* the same for log2 +- 1.96*sem with a non-negative sem *)
Theorem sem_level_classes : forall (s : seg) (e : Q),
  sem s = Some e -> (0 <= e)%Q ->
  (spec_level Fsem s = 1%Q <-> (0 < log2 s - e * z196)%Q) /\
  (spec_level Fsem s = (-1)%Q <-> (log2 s + e * z196 < 0)%Q) /\
  (spec_level Fsem s = 0%Q <-> (log2 s - e * z196 <= 0 /\ 0 <= log2 s + e * z196)%Q).
Proof.
  intros s e Es Nn. cbn [spec_level]. rewrite Es.
  assert (Z : (0 <= e * z196)%Q).
  { apply Qmult_le_0_compat; [exact Nn|]. unfold z196. apply Qle_bool_iff. reflexivity. }
  destruct (qlt (log2 s + e * z196) 0) eqn:A; [apply qlt_lt in A|apply Qltb_nlt in A];
    (destruct (qlt 0 (log2 s - e * z196)) eqn:B; [apply qlt_lt in B|apply Qltb_nlt in B]);
    (split; [|split]); (split; intros HH); try discriminate; try reflexivity; try lra;
    try (exfalso; lra); try (split; lra).
Qed.

Lemma z196_is_1_96 : (Qabs (z196 - (196 # 100)) < (1 # 1000000000000000))%Q.
Proof. unfold z196. apply Qltb_lt. reflexivity. Qed.

(* ----------------------------------------- the plain reading with allele columns *)

Definition split_witness : list seg :=
  [ mkSeg "chr1" 0 10 "a" 2 3 1 None (Some (1 # 2)) 8 (Some 4%Q) (Some 4%Q) None None None None;
    mkSeg "chr1" 10 20 "b" 2 3 1 None (Some (9 # 10)) 8 (Some 7%Q) (Some 1%Q) None None None None;
    mkSeg "chr1" 20 30 "c" 0 3 1 None (Some (1 # 2)) 2 (Some 1%Q) (Some 1%Q) None None None None ].

(* ampdel returns two neighbouring amplified rows where the plain reading
   (deleted / amplified / neither) demands one *)
Theorem allele_split_witness :
  exists t a b,
    Contig (map chrom t) /\
    apply_filter Fampdel t = [a; b] /\
    chrom a = chrom b /\ hi a = lo b /\
    Qeq_bool (spec_level Fampdel a) (spec_level Fampdel b) = true /\
    length (filter run_is_ampdel (plain_runs Fampdel t)) = 1%nat.
Proof.
  exists split_witness.
  eexists. eexists. split; [|split; [vm_compute; reflexivity|]].
  - cbn. repeat (constructor; [|first [left; reflexivity|right; cbn; tauto]]). constructor.
  - vm_compute. repeat split; reflexivity.
Qed.
