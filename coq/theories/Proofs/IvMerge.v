(* merge: the stable (start, end) sort, the structure of the groups made by the
   running-maximum sweep of _nonoverlapping_groups, and what squashing each group
   to (first start, max end) preserves.  The group structure (`groups_ok`) is
   reused for flatten (Proofs/IvFlatten.v). *)
From CNV Require Import Base.Prelude Model.IvRow Model.Intervals Spec.Cover Proofs.IvCover.

Section Merge.
Context {A : Type} (comb : A -> list A -> A).
Notation row := (@row A).
Implicit Types (r f q : row) (t g rest : list row) (gs : list (list row)).

(* ---- sorting -------------------------------------------------------------- *)

(* sorted by start, all starts >= l0 *)
Fixpoint lsorted (l0 : Z) (l : list row) : Prop :=
  match l with
  | [] => True
  | x :: t => l0 <= lo x /\ lsorted (lo x) t
  end.

Lemma lsorted_weaken l0 l1 l : l1 <= l0 -> lsorted l0 l -> lsorted l1 l.
Proof. destruct l; simpl; intuition lia. Qed.

Lemma lsorted_all l0 l : lsorted l0 l -> Forall (fun y => l0 <= lo y) l.
Proof.
  revert l0. induction l as [|x t IH]; intros l0 H; constructor.
  - destruct H; auto.
  - destruct H as [H1 H2]. eapply Forall_impl; [|apply (IH _ H2)]. simpl; intros; lia.
Qed.

Lemma insert_row_perm (x : row) l : Permutation (insert_row x l) (x :: l).
Proof.
  induction l as [|y t IH]; simpl; auto.
  destruct (row_leb x y); auto.
  eapply perm_trans; [apply perm_skip, IH | apply perm_swap].
Qed.

Lemma sort_rows_perm (l : list row) : Permutation (sort_rows l) l.
Proof.
  induction l as [|x t IH]; simpl; auto.
  eapply perm_trans; [apply insert_row_perm | apply perm_skip; auto].
Qed.

Lemma insert_row_lsorted (x : row) l l0 :
  l0 <= lo x -> lsorted l0 l -> lsorted l0 (insert_row x l).
Proof.
  revert l0. induction l as [|y t IH]; simpl; intros l0 Hx Hl.
  - auto.
  - destruct Hl as [Hy Ht]. destruct (row_leb x y) eqn:E; unfold row_leb in E.
    + simpl. split; auto. split; [lia | auto].
    + simpl. split; auto. apply IH; auto. lia.
Qed.

Lemma sort_rows_lsorted (l : list row) l0 :
  Forall (fun y => l0 <= lo y) l -> lsorted l0 (sort_rows l).
Proof.
  induction l as [|x t IH]; simpl; intros H; auto.
  inversion H; subst. apply insert_row_lsorted; auto.
Qed.

Lemma lower_bound_exists (l : list row) : exists l0, Forall (fun y => l0 <= lo y) l.
Proof.
  induction l as [|x t [l0 IH]].
  - exists 0. constructor.
  - exists (Z.min l0 (lo x)). constructor; [lia|].
    eapply Forall_impl; [|exact IH]. simpl; intros; lia.
Qed.

(* ---- maxhi ------------------------------------------------------------------ *)

Lemma maxhi_max a b g : maxhi (Z.max a b) g = Z.max b (maxhi a g).
Proof. induction g as [|x g IH]; simpl; [lia | rewrite IH; lia]. Qed.

Lemma maxhi_ge m g : m <= maxhi m g.
Proof. induction g; simpl; lia. Qed.

Lemma maxhi_ge_in m g r : In r g -> hi r <= maxhi m g.
Proof.
  induction g as [|x g IH]; simpl; [tauto|]. intros [->|H]; [lia|]. specialize (IH H). lia.
Qed.

(* the maximum is attained: by m itself or by a row of g *)
Lemma maxhi_attained m g : maxhi m g = m \/ exists r, In r g /\ maxhi m g = hi r.
Proof.
  induction g as [|x g IH]; simpl; auto.
  destruct (Z_le_gt_dec (maxhi m g) (hi x)).
  - right. exists x. split; auto. lia.
  - destruct IH as [IH | [r [Hr IH]]]; [left; lia | right; exists r; split; auto; lia].
Qed.

(* ---- the structure of the groups ---------------------------------------------- *)

(* each row of g starts inside (or abutting) the union of the rows before it,
   which is [.., gm); l0 is the previous start *)
Fixpoint connected (l0 gm : Z) (g : list row) : Prop :=
  match g with
  | [] => True
  | r :: t => l0 <= lo r <= gm /\ connected (lo r) (Z.max gm (hi r)) t
  end.

(* every group is non-empty and connected; the first row of a group starts more
   than -bp after the maximal end M of the previous group *)
Fixpoint groups_ok (bp M : Z) (gs : list (list row)) : Prop :=
  match gs with
  | [] => True
  | grp :: rest =>
      match grp with
      | [] => False
      | f :: g' =>
          M - lo f < bp /\ connected (lo f) (hi f) g' /\ groups_ok bp (maxhi (hi f) g') rest
      end
  end.

Lemma groups_from_struct bp : 0 <= bp -> forall rest cmax gm l0 g gs,
  lsorted l0 rest -> gm <= cmax -> (gm < cmax -> cmax - bp < l0) ->
  groups_from bp cmax rest = (g, gs) ->
  g ++ concat gs = rest /\ connected l0 gm g /\ groups_ok bp (maxhi gm g) gs.
Proof.
  intros Hbp. induction rest as [|r t IH]; intros cmax gm l0 g gs Hs Hle Hinv E.
  - simpl in E. inversion E; subst. simpl. auto.
  - cbn [groups_from] in E.
    destruct (groups_from bp (Z.max cmax (hi r)) t) as [g' gs'] eqn:E'.
    destruct Hs as [Hl0 Hs].
    destruct (- bp <? lo r - cmax) eqn:Hgap; injection E as Eg Egs; subst g gs.
    + (* r starts a new group *)
      destruct (IH (Z.max cmax (hi r)) (hi r) (lo r) g' gs' Hs) as (E1 & C & G);
        [lia | lia | exact E' |].
      cbn [app concat maxhi connected groups_ok].
      split; [f_equal; exact E1|]. split; [exact I|].
      split; [lia|]. split; auto.
    + (* r joins the current group *)
      assert (Hgm : gm = cmax) by lia.
      destruct (IH (Z.max cmax (hi r)) (Z.max gm (hi r)) (lo r) g' gs' Hs) as (E1 & C & G);
        [lia | lia | exact E' |].
      cbn [app maxhi connected].
      split; [f_equal; exact E1|]. split; [split; [lia | exact C]|].
      rewrite maxhi_max in G. exact G.
Qed.

Lemma connected_covers glo l0 gm g z :
  glo <= l0 -> connected l0 gm g ->
  ((glo <= z < gm) \/ covers g z <-> glo <= z < maxhi gm g).
Proof.
  revert l0 gm. induction g as [|r t IH]; intros l0 gm Hg Hc.
  - simpl. split; [intros [H|H]; auto; destruct (covers_nil _ H) | auto].
  - destruct Hc as [Hr Hc]. rewrite covers_cons. cbn [maxhi].
    assert (Hg' : glo <= lo r) by lia.
    specialize (IH (lo r) (Z.max gm (hi r)) Hg' Hc). rewrite maxhi_max in IH.
    split.
    + intros [Hz | [Hz | Hz]]; apply IH; [left; lia | left; lia | right; auto].
    + intros Hz. apply IH in Hz. destruct Hz as [Hz|Hz]; [|right; right; auto].
      destruct (Z_lt_le_dec z gm); [left; lia | right; left; lia].
Qed.

Lemma connected_lsorted l0 gm g : connected l0 gm g -> lsorted l0 g.
Proof.
  revert l0 gm. induction g as [|r t IH]; simpl; auto.
  intros l0 gm [H1 H2]. split; [lia | eapply IH; eauto].
Qed.

(* a connected group covers exactly [start of its first row, its maximal end) *)
Lemma group_covers f g' z :
  connected (lo f) (hi f) g' -> (covers (f :: g') z <-> lo f <= z < maxhi (hi f) g').
Proof.
  intros C. rewrite covers_cons. apply (connected_covers (lo f) (lo f) (hi f) g' z); auto. lia.
Qed.

(* ---- squashing ------------------------------------------------------------------ *)

Lemma squash_cons f g' :
  exists q, squash comb (f :: g') = [q] /\ lo q = lo f /\ hi q = maxhi (hi f) g'.
Proof.
  destruct g' as [|x g'].
  - exists f. simpl. auto.
  - eexists. split; [reflexivity|]. split; reflexivity.
Qed.

Lemma squash_groups_covers bp M gs z :
  groups_ok bp M gs -> (covers (flat_map (squash comb) gs) z <-> covers (concat gs) z).
Proof.
  revert M. induction gs as [|grp rest IH]; intros M H.
  - simpl. tauto.
  - destruct grp as [|f g']; [destruct H|]. destruct H as (_ & C & G).
    cbn [flat_map concat]. rewrite !covers_app, (IH _ G).
    destruct (squash_cons f g') as [q (E & L & Hh)]. rewrite E, covers_single, L, Hh.
    rewrite (group_covers f g' z C). tauto.
Qed.

Lemma squash_groups_chain bp M gs :
  groups_ok bp M gs ->
  overlap_below bp (flat_map (squash comb) gs) /\
  (forall q, hd_opt (flat_map (squash comb) gs) = Some q -> M - lo q < bp).
Proof.
  revert M. induction gs as [|grp rest IH]; intros M H.
  - simpl. split; [exact I | discriminate].
  - destruct grp as [|f g']; [destruct H|]. destruct H as (HM & C & G).
    destruct (IH _ G) as [IH1 IH2].
    cbn [flat_map]. destruct (squash_cons f g') as [q (E & L & Hh)]. rewrite E. cbn [app].
    split.
    + unfold overlap_below in *. cbn [chain]. split; auto.
      destruct (flat_map (squash comb) rest) as [|b out] eqn:Eo; auto.
      specialize (IH2 b eq_refl). lia.
    + intros q' Hq'. inversion Hq'; subst. lia.
Qed.

Lemma squash_groups_valid bp M gs :
  groups_ok bp M gs -> valid (concat gs) -> valid (flat_map (squash comb) gs).
Proof.
  revert M. induction gs as [|grp rest IH]; intros M H Hv.
  - constructor.
  - destruct grp as [|f g']; [destruct H|]. destruct H as (_ & C & G).
    cbn [flat_map concat] in *. apply valid_app in Hv as [Hv1 Hv2].
    apply valid_app. split; [|eapply IH; eauto].
    destruct (squash_cons f g') as [q (E & L & Hh)]. rewrite E.
    constructor; [|constructor]. apply valid_cons in Hv1 as [Hf _].
    pose proof (maxhi_ge (hi f) g'). lia.
Qed.

(* ---- the groups of a whole (sorted) table ----------------------------------------- *)

Lemma groups_struct bp t : 0 <= bp -> t <> [] ->
  exists M gs, groups bp (sort_rows t) = gs /\ groups_ok bp M gs /\ concat gs = sort_rows t.
Proof.
  intros Hbp Hne.
  destruct (lower_bound_exists t) as [l0 Hl0].
  pose proof (sort_rows_lsorted t l0 Hl0) as Hs.
  destruct (sort_rows t) as [|r rest] eqn:Es.
  - exfalso. apply Hne. apply Permutation_nil. rewrite <- Es. apply sort_rows_perm.
  - destruct Hs as [_ Hs]. unfold groups.
    destruct (groups_from bp (hi r) rest) as [g gs] eqn:E.
    destruct (groups_from_struct bp Hbp rest (hi r) (hi r) (lo r) g gs Hs) as (E1 & C & G);
      [lia | lia | exact E |].
    exists (lo r + bp - 1), ((r :: g) :: gs). split; [reflexivity|]. split.
    + cbn [groups_ok]. split; [lia|]. split; auto.
    + cbn [concat app]. f_equal. exact E1.
Qed.

Theorem merge_slow_spec bp t : 0 <= bp ->
  let m := merge_slow comb bp t in
  (forall z, covers m z <-> covers t z) /\ overlap_below bp m /\ (valid t -> valid m).
Proof.
  intros Hbp. unfold merge_slow. destruct t as [|r0 t0] eqn:Et.
  - simpl. split; [tauto|]. split; [exact I | auto].
  - rewrite <- Et. assert (Hne : t <> []) by (rewrite Et; discriminate).
    destruct (groups_struct bp t Hbp Hne) as (M & gs & Eg & G & Ec).
    rewrite Eg. cbn zeta. split; [|split].
    + intros z. rewrite (squash_groups_covers bp M gs z G), Ec.
      apply covers_perm, sort_rows_perm.
    + apply (squash_groups_chain bp M gs G).
    + intros Hv. apply (squash_groups_valid bp M gs G). rewrite Ec.
      eapply valid_perm; [apply Permutation_sym, sort_rows_perm | exact Hv].
Qed.

(* ---- the fast path ------------------------------------------------------------------ *)

Lemma all_gaps_from_chain bp cmax rest :
  all_gaps_from bp cmax rest = true ->
  overlap_below bp rest /\ (forall q c, hd_opt rest = Some q -> c <= cmax -> c - lo q < bp).
Proof.
  revert cmax. induction rest as [|r t IH]; intros cmax H.
  - split; [exact I | discriminate].
  - cbn [all_gaps_from] in H. apply andb_prop in H as [H1 H2].
    destruct (IH _ H2) as [IH1 IH2]. split.
    + unfold overlap_below in *. cbn [chain]. split; auto.
      destruct t as [|b t']; auto. apply (IH2 b (hi r) eq_refl). lia.
    + intros q c Hq Hc. inversion Hq; subst. lia.
Qed.

Lemma all_gaps_chain bp t : all_gaps bp t = true -> overlap_below bp t.
Proof.
  destruct t as [|r t]; [intros; exact I|]. cbn [all_gaps]. intros H.
  destruct (all_gaps_from_chain bp (hi r) t H) as [H1 H2].
  unfold overlap_below in *. cbn [chain]. split; auto.
  destruct t as [|b t']; auto. apply (H2 b (hi r) eq_refl). lia.
Qed.

(* the fast path of the whole table implies the fast path of any sub-table
   (one chromosome's rows): a smaller running maximum only widens the gaps *)
Lemma all_gaps_from_filter bp (sel : row -> bool) l c c' :
  all_gaps_from bp c l = true -> c' <= c -> all_gaps_from bp c' (filter sel l) = true.
Proof.
  revert c c'. induction l as [|r t IH]; intros c c' H Hc; auto.
  cbn [all_gaps_from] in H. apply andb_prop in H as [H1 H2]. cbn [filter].
  destruct (sel r).
  - cbn [all_gaps_from]. apply andb_true_intro. split; [lia|].
    apply (IH (Z.max c (hi r))); auto. lia.
  - apply (IH (Z.max c (hi r))); auto. lia.
Qed.

Lemma all_gaps_from_filter_top bp (sel : row -> bool) l c :
  all_gaps_from bp c l = true -> all_gaps bp (filter sel l) = true.
Proof.
  revert c. induction l as [|r t IH]; intros c H; auto.
  cbn [all_gaps_from] in H. apply andb_prop in H as [H1 H2]. cbn [filter].
  destruct (sel r).
  - cbn [all_gaps]. apply (all_gaps_from_filter bp sel t (Z.max c (hi r))); auto. lia.
  - apply (IH _ H2).
Qed.

Lemma all_gaps_filter bp (sel : row -> bool) l :
  all_gaps bp l = true -> all_gaps bp (filter sel l) = true.
Proof.
  destruct l as [|r t]; auto. cbn [all_gaps filter]. intros H.
  destruct (sel r).
  - cbn [all_gaps]. apply (all_gaps_from_filter bp sel t (hi r)); auto. lia.
  - apply (all_gaps_from_filter_top bp sel t (hi r) H).
Qed.

(* ---- merge of one chromosome of a whole table --------------------------------------- *)

Theorem merge_sel_spec bp (whole : list row) (sel : row -> bool) : 0 <= bp ->
  let t := filter sel whole in
  let m := merge_sel comb bp (all_gaps bp whole) t in
  (forall z, covers m z <-> covers t z) /\ overlap_below bp m /\ (valid whole -> valid m).
Proof.
  intros Hbp t m. subst m. unfold merge_sel.
  destruct t as [|r0 t0] eqn:Et.
  - split; [tauto|]. split; [exact I | constructor].
  - rewrite <- Et. destruct (all_gaps bp whole) eqn:Hf.
    + split; [tauto|]. split.
      * apply all_gaps_chain. subst t. apply all_gaps_filter. exact Hf.
      * intros Hv. subst t. apply valid_filter. exact Hv.
    + destruct (merge_slow_spec bp t Hbp) as (H1 & H2 & H3). split; [exact H1|]. split; [exact H2|].
      intros Hv. apply H3. subst t. apply valid_filter. exact Hv.
Qed.

(* bp = 0: consecutive rows are separated by at least one uncovered base *)
Lemma overlap_below_0_separated t : overlap_below 0 t -> sorted_separated t.
Proof. apply chain_impl. intros a b; lia. Qed.

End Merge.
