(* C12: which accessible regions get_antitargets works with (the contig rule,
   guessed chromosome extents), the default minimum size, and the shape of
   get_antitargets / do_antitarget results. *)
From CNV Require Import Base.Prelude Base.Str Model.IvRow Model.IvCombine Model.Intervals
  Model.Access Model.Target Model.Antitarget Spec.Cover Spec.Bins.
From CNV Require Import Proofs.TargetLib.
From Coq Require Import Qround.
From CNV Require Gen.BinsDefaults.

Lemma mem_string_true s l : mem_string s l = true <-> In s l.
Proof.
  induction l as [|x l IH]; cbn [mem_string In]; [split; [discriminate | tauto]|].
  rewrite Bool.orb_true_iff, IH, String.eqb_eq. split; intros [H|H]; auto.
Qed.

Lemma mem_string_false s l : mem_string s l = false <-> ~ In s l.
Proof. rewrite <- mem_string_true. destruct (mem_string s l); split; congruence. Qed.

Lemma max_len_ge l c : In c l -> slen c <= max_len l.
Proof.
  induction l as [|x l IH]; [intros []|]. cbn [max_len]. intros [->|H]; [lia|]. specialize (IH H). lia.
Qed.

Lemma max_len_attained l : l <> [] -> exists c, In c l /\ max_len l = slen c.
Proof.
  induction l as [|x l IH]; [congruence|]. intros _. cbn [max_len].
  destruct l as [|y l'].
  - exists x. split; [left; reflexivity|]. cbn [max_len]. unfold slen. lia.
  - destruct (IH ltac:(discriminate)) as [c [Hc Hm]].
    destruct (Z.le_ge_cases (slen x) (max_len (y :: l'))) as [H|H].
    + exists c. split; [right; exact Hc | lia].
    + exists x. split; [left; reflexivity | lia].
Qed.

(* ---- the contig rule ------------------------------------------------------------- *)

Lemma existsb_canonical_targets T :
  existsb is_canonical_contig_name (chroms_of T) = true <-> some_canonical_target T.
Proof.
  rewrite existsb_exists. unfold some_canonical_target. split.
  - intros [c [Hc H]]. apply chroms_of_in in Hc as [t [Ht <-]]. exists t. auto.
  - intros [t [Ht H]]. exists (chrom t). split; [apply chroms_of_in; exists t; auto | exact H].
Qed.

Lemma chroms_of_nonempty (T : list grow) : T <> [] -> chroms_of T <> [].
Proof.
  destruct T as [|t0 T']; [congruence|]. intros _ E.
  assert (Hin : In (chrom t0) (chroms_of (t0 :: T')))
    by (apply chroms_of_in; exists t0; split; [left; reflexivity | reflexivity]).
  rewrite E in Hin. destruct Hin.
Qed.

(* a contig of the access table is NOT skipped iff it is kept by the rule *)
Lemma not_skipped_spec ac T c : T <> [] -> In c ac ->
  ~ In c (chroms_to_skip ac (chroms_of T)) <-> kept_contig T c.
Proof.
  intros HTne Hac. unfold chroms_to_skip, kept_contig.
  set (tc := chroms_of T).
  assert (Htg : In c tc <-> targeted T c) by (apply chroms_of_in).
  assert (Htc : tc <> []) by (apply chroms_of_nonempty; exact HTne).
  destruct (existsb is_canonical_contig_name tc) eqn:Ecan.
  - apply existsb_canonical_targets in Ecan. split.
    + intros Hns. destruct (mem_string c tc) eqn:M.
      * left. apply Htg. apply mem_string_true. exact M.
      * destruct (is_canonical_contig_name c) eqn:K; [right; left; auto|]. exfalso. apply Hns.
        apply filter_In. split; [|rewrite K; reflexivity].
        apply filter_In. split; [exact Hac | rewrite M; reflexivity].
    + intros HK Hin. apply filter_In in Hin as [Hin HnK]. apply filter_In in Hin as [_ Hnt].
      apply Bool.negb_true_iff in HnK, Hnt. apply mem_string_false in Hnt.
      destruct HK as [H|[[_ H]|[H _]]]; [apply Hnt, Htg, H | congruence | exact (H Ecan)].
  - assert (Hno : ~ some_canonical_target T).
    { intros H. apply existsb_canonical_targets in H. fold tc in H. congruence. }
    split.
    + intros Hns. destruct (mem_string c tc) eqn:M.
      * left. apply Htg. apply mem_string_true. exact M.
      * destruct (max_len tc <? slen c) eqn:L.
        -- exfalso. apply Hns. apply filter_In. split; [|exact L].
           apply filter_In. split; [exact Hac | rewrite M; reflexivity].
        -- right. right. split; [exact Hno|].
           destruct (max_len_attained tc Htc) as [c' [Hc' Hm]].
           apply chroms_of_in in Hc' as [t [Ht Hct]]. exists t. split; [exact Ht|].
           rewrite Hct. unfold slen in *. lia.
    + intros HK Hin. apply filter_In in Hin as [Hin HL]. apply filter_In in Hin as [_ Hnt].
      apply Bool.negb_true_iff in Hnt. apply mem_string_false in Hnt.
      destruct HK as [H|[[H _]|[_ [t [Ht Hl]]]]]; [apply Hnt, Htg, H | exact (Hno H) |].
      assert (Hin : In (chrom t) tc) by (apply chroms_of_in; exists t; auto).
      pose proof (max_len_ge tc (chrom t) Hin). unfold slen in *. lia.
Qed.

(* names shared by the two tables *)
Definition shared_contig (acc T : list grow) : Prop :=
  exists a t, In a acc /\ In t T /\ chrom a = chrom t.

Lemma compare_chrom_names_spec (acc T : list grow) : acc <> [] ->
  (shared_contig acc T -> compare_chrom_names acc T = Some (chroms_of acc, chroms_of T)) /\
  (~ shared_contig acc T -> compare_chrom_names acc T = None).
Proof.
  intros Hne. unfold compare_chrom_names.
  pose proof (chroms_of_nonempty acc Hne) as Hacne.
  destruct (chroms_of acc) as [|c0 ac'] eqn:Eac; [congruence|]. rewrite <- Eac.
  destruct (existsb (fun c => mem_string c (chroms_of T)) (chroms_of acc)) eqn:Ex.
  - split; [reflexivity|]. intros Hno. exfalso. apply Hno.
    apply existsb_exists in Ex as [c [Hc Hm]]. apply mem_string_true in Hm.
    apply chroms_of_in in Hc as [a [Ha Hca]]. apply chroms_of_in in Hm as [t [Ht Hct]].
    exists a, t. repeat split; auto. congruence.
  - split; [|reflexivity]. intros (a & t & Ha & Ht & Hc). exfalso.
    assert (Hx : existsb (fun c => mem_string c (chroms_of T)) (chroms_of acc) = true); [|congruence].
    apply existsb_exists. exists (chrom a). split; [apply chroms_of_in; exists a; auto|].
    apply mem_string_true. apply chroms_of_in. exists t; auto.
Qed.

(* C12_contigs, access table given *)
Lemma effective_access_given (T acc : list grow) : acc <> [] ->
  (~ shared_contig acc T -> effective_access T (Some acc) = None) /\
  (shared_contig acc T ->
   exists E, effective_access T (Some acc) = Some E /\
             forall r, In r E <-> In r acc /\ kept_contig T (chrom r)).
Proof.
  intros Hne. destruct (compare_chrom_names_spec acc T Hne) as [Hyes Hno].
  unfold effective_access. destruct acc as [|a0 acc'] eqn:Eacc; [congruence|]. rewrite <- Eacc in *.
  unfold drop_noncanonical. split.
  - intros H. rewrite (Hno H). reflexivity.
  - intros H. rewrite (Hyes H). eexists. split; [reflexivity|]. intros r.
    assert (HTne : T <> []) by (destruct H as (a & t & _ & Ht & _); intros E; rewrite E in Ht; destruct Ht).
    rewrite filter_In, Bool.negb_true_iff, mem_string_false. split.
    + intros [Hr Hk]. split; [exact Hr|].
      apply (not_skipped_spec (chroms_of acc) T (chrom r) HTne); [apply chroms_of_in; exists r; auto | exact Hk].
    + intros [Hr Hk]. split; [exact Hr|].
      apply (not_skipped_spec (chroms_of acc) T (chrom r) HTne); [apply chroms_of_in; exists r; auto | exact Hk].
Qed.

(* C12_contigs, no access table: one region per targeted chromosome from the telomere
   size to the end of the chromosome's last target row *)
Lemma effective_access_guess (T : list grow) (access : option (list grow)) :
  access = None \/ access = Some [] ->
  effective_access T access = Some (guess_regions T Gen.BinsDefaults.TELOMERE_SIZE).
Proof. intros [->| ->]; reflexivity. Qed.

Lemma guess_regions_spec (T : list grow) tel r :
  In r (guess_regions T tel) <->
  targeted T (chrom r) /\ lo r = tel /\ hi r = last_end (filter (on (chrom r)) T) /\ gene r = EmptyString.
Proof.
  unfold guess_regions. rewrite in_map_iff. split.
  - intros [c [<- Hc]]. apply chroms_of_in in Hc. unfold targeted. cbn. auto.
  - intros (Ht & Hl & Hh & Hg). exists (chrom r). split; [|apply chroms_of_in; exact Ht].
    destruct r as [[l h] [c g]]. unfold lo, hi, gene, chrom, pay in *. cbn [fst snd] in *. subst. reflexivity.
Qed.

Lemma guess_regions_nonneg (T : list grow) tel : 0 <= tel -> nonneg_table (guess_regions T tel).
Proof.
  intros H. unfold nonneg_table. rewrite Forall_forall. intros r Hr. apply guess_regions_spec in Hr as (_ & -> & _). exact H.
Qed.

(* the effective access table is non-negative when the given one is *)
Lemma effective_access_nonneg T access E :
  (forall acc, access = Some acc -> nonneg_table acc) ->
  effective_access T access = Some E -> nonneg_table E.
Proof.
  intros Hnn HE. destruct access as [[|a0 acc']|].
  - cbn in HE. injection HE as <-. apply guess_regions_nonneg. unfold Gen.BinsDefaults.TELOMERE_SIZE. lia.
  - specialize (Hnn _ eq_refl). remember (a0 :: acc') as acc eqn:Eacc.
    assert (HE' : drop_noncanonical acc T = Some E) by (rewrite <- HE, Eacc; reflexivity).
    clear HE. unfold drop_noncanonical in HE'.
    destruct (compare_chrom_names acc T) as [[ac tc]|]; [|discriminate]. injection HE' as <-.
    unfold nonneg_table in *. rewrite Forall_forall in *. intros r Hr. apply filter_In in Hr as [Hr _]. auto.
  - cbn in HE. injection HE as <-. apply guess_regions_nonneg. unfold Gen.BinsDefaults.TELOMERE_SIZE. lia.
Qed.

(* ---- results ------------------------------------------------------------------------ *)

Definition anti_rows (E T : list grow) (avg : Q) (mn : Z) (cut : Z -> Z -> Z -> Z) : list grow :=
  map (set_gene Gen.BinsDefaults.ANTITARGET_NAME)
      (gsubdivide avg mn cut (gsubtract (gresize (- pad_size) E) (gresize pad_size T))).

Lemma get_antitargets_some T access avg mn cut out :
  get_antitargets T access avg mn cut = Some out <->
  exists E, effective_access T access = Some E /\ out = anti_rows E T avg mn cut.
Proof.
  unfold get_antitargets, anti_rows. destruct (effective_access T access) as [E|]; split.
  - intros H. injection H as <-. exists E. auto.
  - intros [E' [HE ->]]. injection HE as ->. reflexivity.
  - discriminate.
  - intros [E' [HE _]]. discriminate.
Qed.

(* ---- the default minimum size ----------------------------------------------------- *)

Lemma pow_int_min_ref :
  pow_int Gen.BinsDefaults.min_size_base Gen.BinsDefaults.MIN_REF_COVERAGE = Some (/ inject_Z 32)%Q.
Proof. reflexivity. Qed.

Lemma default_min_size_eq avg : (0 < avg)%Q ->
  default_min_size avg = Some (2 * Qfloor (avg / 32)).
Proof.
  intros Ha. unfold default_min_size. rewrite pow_int_min_ref.
  change Gen.BinsDefaults.min_size_factor with 2. f_equal. f_equal.
  unfold trunc.
  assert (Hp : (0 <= Qred (avg * / inject_Z 32))%Q).
  { rewrite Qred_correct. apply Qmult_le_0_compat; [apply Qlt_le_weak; exact Ha|]. unfold Qle; cbn; lia. }
  apply Qle_bool_iff in Hp. rewrite Hp. apply Qfloor_comp. rewrite Qred_correct. reflexivity.
Qed.

Lemma default_min_size_spec avg : (0 < avg)%Q ->
  exists m, default_min_size avg = Some m /\ default_min_spec avg m.
Proof.
  intros Ha. exists (2 * Qfloor (avg / 32)). split; [apply default_min_size_eq; exact Ha|].
  exists (Qfloor (avg / 32)). split; [reflexivity|]. split; [apply Qfloor_le | apply Qlt_floor].
Qed.

(* the default minimum always meets the guard of the size clause *)
Lemma default_min_guard avg m : (0 < avg)%Q -> default_min_spec avg m ->
  m <= 0 \/ 4 * m * Zpos (Qden avg) <= 3 * Qnum avg - 4 * Zpos (Qden avg).
Proof.
  intros Ha (f & -> & Hle & _).
  destruct (Z.le_gt_cases f 0) as [Hf|Hf]; [left; lia|]. right.
  destruct avg as [num den]. unfold Qlt in Ha. unfold Qle, Qdiv, Qmult, Qinv, inject_Z in Hle.
  cbn [Qnum Qden] in *. cbn in Hle.
  assert (H32 : f * Zpos (den * 32) <= num) by lia.
  rewrite Pos2Z.inj_mul in H32. nia.
Qed.
