(* C20 source tie of export_theta's row identifier:

       table["#ID"] = [f"start_{row.chrm}_{row.start}:end_{row.chrm}_{row.end}"
                       for row in table.itertuples(index=False)]

   read per row, is regenerated from the Python source on every run as Gen/FnExportThetaId.v (fn_theta_id: the
   identifier as a function of the row's chrm, start and end).  Here: it IS the model's theta_id (Model/Export.v), hence
   the #ID of every row of theta_rows. *)
From CNV Require Import Base.Prelude Base.Str Model.Decimal Gen.ExportDefaults Gen.FnExportThetaId Model.Call Model.Export.

Lemma source_theta_id (chrm lo hi : Z) : fn_theta_id chrm lo hi = theta_id chrm lo hi.
Proof. reflexivity. Qed.

(* every row theta_rows builds carries the generated identifier of its own chrm / start / end *)
Lemma source_theta_rows (segs : list tseg) (tc nc : list Z) :
  theta_rows segs tc nc
  = let names := Formats.distinct_names [] (map t_chrom segs) in
    map3 (fun s t n => let ch := index_from (t_chrom s) names theta_first_chrm in
                       (fn_theta_id ch (t_lo s) (t_hi s), ch, t_lo s, t_hi s, t, n)) segs tc nc.
Proof. reflexivity. Qed.
