(* C05 loop tie of load_sample_block's two matrices (cnvlib/reference.py), translated on every run (Gen/FnRefBlock.v) and
   read per bin (each list of rows is, per bin, the list of the bin's values):

       all_depths = [cnarr1["depth"] if "depth" in cnarr1 else np.exp2(cnarr1["log2"])]
       all_logr = [ref_flat_logr, bias_correct_logr(cnarr1, ...)]
       for fname in filenames[1:]:
           cnarrx = read_cna(fname);  if not np.array_equal(<bin keys>): raise RuntimeError(...)
           all_depths.append(cnarrx["depth"] if "depth" in cnarrx else np.exp2(cnarrx["log2"]))
           all_logr.append(bias_correct_logr(cnarrx, ...))

   Model/Reference.v's load_block builds exactly these columns: for every bin i the column of its log2 matrix is the FLAT
   pseudo-sample's value first, then the corrected log2 of the files in (sorted) order, and the column of its depth
   matrix the files' depth values in the same order -- the generated initial lists with the generated iteration folded
   over the remaining files.  (The model's s_depth already is "the depth column, or np.exp2(log2)": the harness builds it;
   the translated choice is instantiated on its first branch.) *)
From CNV Require Import Base.Prelude Base.Str Base.QNum Gen.RefDefaults Model.Center Model.Sex Model.Reference Gen.FnRefBlock.
Local Open Scope Q_scope.

Section Block.
Variable exp2 : Q -> Q.

(* one iteration for file s: rowD s / rowL s are the bin's depth and corrected log2 in that file *)
Definition block_iter (rowD rowL : sample -> Q) (lg : Q) (acc : list Q * list Q) (s : sample) : list Q * list Q :=
  fn_block_step exp2 (fst acc) (snd acc) true true (rowD s) lg (rowL s).

Lemma block_fold rowD rowL lg rest : forall dl ll,
  fold_left (block_iter rowD rowL lg) rest (dl, ll) = (dl ++ map rowD rest, ll ++ map rowL rest).
Proof.
  induction rest as [|s rest IH]; intros dl ll; cbn [fold_left map].
  - rewrite !app_nil_r. reflexivity.
  - unfold block_iter at 2. unfold fn_block_step. cbn [fst snd]. rewrite IH, <- !app_assoc. reflexivity.
Qed.

Theorem fn_block_columns rowD rowL lg flat_i first rest :
  fold_left (block_iter rowD rowL lg) rest (fn_block_init exp2 true (rowD first) lg flat_i (rowL first)) =
  (map rowD (first :: rest), flat_i :: map rowL (first :: rest)).
Proof. unfold fn_block_init. rewrite block_fold. reflexivity. Qed.
End Block.

(* load_block's result, column by column, is what the generated code builds *)
Theorem fn_load_block_columns exp2 hap build sexes skip_low files first rest bins logr depths lg i :
  sort_samples files = first :: rest ->
  load_block hap build sexes skip_low files = BlkOk bins logr depths ->
  bins <> [] ->
  let rows := sex_rows hap build (s_bins first) in
  let rowL := fun s => nth i (sample_logr build sexes skip_low rows s) 0 in
  let rowD := fun s => nth i (s_depth s) 0 in
  fold_left (block_iter exp2 rowD rowL lg) rest
            (fn_block_init exp2 true (rowD first) lg (nth i (expect_flat hap build (s_bins first)) 0) (rowL first)) =
  (column depths i, column logr i).
Proof.
  intros Hs Hl Hb. cbv zeta. rewrite fn_block_columns.
  unfold load_block in Hl. rewrite Hs in Hl.
  destruct (s_bins first) as [|b0 bs] eqn:Eb.
  - destruct (forallb _ rest); [|discriminate]. injection Hl as <- _ _. contradiction.
  - destruct (forallb _ rest); [|discriminate]. injection Hl as _ <- <-.
    unfold column. cbn [map]. rewrite !map_map. reflexivity.
Qed.
