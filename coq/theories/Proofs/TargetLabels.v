(* C12: shorten_labels exactly.  `min(filter_names(names), key=len)` over a Python set returns
   the first of the shortest names in the set's iteration order; `pick` stands for that choice
   (contract: it returns one of the names it is handed).  Whatever the choice, the emitted name
   is one of the model's candidates; where every candidate list is a singleton the output does
   not depend on the choice at all; a label with two equally short names shows that it
   otherwise does.  filter_names and shortest_name as theorems with the literal "mRNA". *)
From CNV Require Import Base.Prelude Base.Str Model.IvRow Model.IvCombine Model.Intervals
  Model.Target Spec.Cover Spec.Bins.
From CNV Require Import Proofs.TargetLib Proofs.Target.
From CNV Require Gen.BinsDefaults.

(* ---- filter_names ---------------------------------------------------------------------------- *)

Lemma filter_names_unfold names :
  filter_names names =
  if 1 <? Z.of_nat (length names)
  then match filter not_mrna names with [] => names | ok => ok end
  else names.
Proof.
  unfold filter_names. destruct (1 <? Z.of_nat (length names)); [|reflexivity].
  assert (E : filter (fun n => negb (existsb (fun ex => str_prefix ex n) Gen.BinsDefaults.name_exclude)) names
              = filter not_mrna names).
  { apply filter_ext. intros n. unfold not_mrna, Gen.BinsDefaults.name_exclude. cbn [existsb].
    rewrite orb_false_r. reflexivity. }
  rewrite E. reflexivity.
Qed.

(* C12_filter_names *)
Lemma filter_names_spec names :
  ((length names <= 1)%nat -> filter_names names = names) /\
  ((2 <= length names)%nat -> filter not_mrna names <> [] -> filter_names names = filter not_mrna names) /\
  ((2 <= length names)%nat -> filter not_mrna names = [] -> filter_names names = names) /\
  incl (filter_names names) names /\
  (names <> [] -> filter_names names <> []).
Proof.
  rewrite filter_names_unfold.
  destruct (1 <? Z.of_nat (length names)) eqn:E1.
  - assert (H2 : (2 <= length names)%nat) by lia.
    destruct (filter not_mrna names) as [|o ok] eqn:Ef.
    + split; [intros _; reflexivity|]. split; [intros _ H; congruence|]. split; [intros _ _; reflexivity|].
      split; [intros x Hx; exact Hx | intros H; exact H].
    + split; [intros H; lia|]. split; [intros _ _; reflexivity|]. split; [intros _ H; discriminate H|].
      split; [|intros _; discriminate].
      intros x Hx. rewrite <- Ef in Hx. apply filter_In in Hx. tauto.
  - split; [intros _; reflexivity|]. split; [intros H; lia|]. split; [intros _ _; reflexivity|].
    split; [intros x Hx; exact Hx | intros H; exact H].
Qed.

Lemma filter_names_nonempty names : names <> [] -> filter_names names <> [].
Proof. apply filter_names_spec. Qed.

(* ---- the shortest names ------------------------------------------------------------------------ *)

Lemma min_len_le d l m : In m l -> min_len d l <= slen m.
Proof.
  induction l as [|x t IH]; [intros []|]. cbn [min_len]. intros [<-|H]; [lia|]. specialize (IH H). lia.
Qed.

Lemma min_len_le_default d l : min_len d l <= d.
Proof. induction l as [|x t IH]; cbn [min_len]; lia. Qed.

Lemma min_len_attained x t : exists n, In n (x :: t) /\ slen n = min_len (slen x) (x :: t).
Proof.
  assert (H : forall d l, min_len d l = d \/ exists n, In n l /\ slen n = min_len d l).
  { intros d l. induction l as [|y l IH]; [left; reflexivity|]. cbn [min_len].
    destruct (Z.le_gt_cases (slen y) (min_len d l)) as [Hle|Hgt].
    - right. exists y. split; [left; reflexivity | lia].
    - destruct IH as [IH|[n [Hn En]]].
      + left. lia.
      + right. exists n. split; [right; exact Hn | lia]. }
  destruct (H (slen x) (x :: t)) as [E|[n [Hn En]]].
  - exists x. split; [left; reflexivity | symmetry; exact E].
  - exists n. auto.
Qed.

Lemma shortest_names_spec names n :
  In n (shortest_names names) <->
  In n (filter_names names) /\ forall m, In m (filter_names names) -> slen n <= slen m.
Proof.
  unfold shortest_names. destruct (filter_names names) as [|x t] eqn:Ef; [cbn; tauto|].
  rewrite filter_In. split.
  - intros [Hn Hl]. apply Z.eqb_eq in Hl. split; [exact Hn|]. intros m Hm. rewrite Hl. apply min_len_le. exact Hm.
  - intros [Hn Hmin]. split; [exact Hn|]. apply Z.eqb_eq.
    destruct (min_len_attained x t) as [m [Hm Em]]. pose proof (min_len_le (slen x) (x :: t) n Hn).
    specialize (Hmin m Hm). lia.
Qed.

Lemma shortest_names_nonempty names : names <> [] -> shortest_names names <> [].
Proof.
  intros Hne. pose proof (filter_names_nonempty names Hne) as Hf.
  unfold shortest_names. destruct (filter_names names) as [|x t] eqn:Ef; [congruence|].
  destruct (min_len_attained x t) as [m [Hm Em]].
  intros E. assert (Hin : In m (filter (fun n => slen n =? min_len (slen x) (x :: t)) (x :: t))).
  { apply filter_In. split; [exact Hm | apply Z.eqb_eq; exact Em]. }
  rewrite E in Hin. exact Hin.
Qed.

Lemma shortest_cands_eq names : shortest_cands names = uniq (map strip_db (shortest_names names)).
Proof. unfold shortest_cands, shortest_names. destruct (filter_names names); reflexivity. Qed.

(* C12_shortest_name: the candidates are the accession-stripped shortest names left by filter_names *)
Lemma shortest_cands_spec names x :
  In x (shortest_cands names) <->
  exists n, In n (filter_names names) /\ (forall m, In m (filter_names names) -> slen n <= slen m) /\
            x = strip_db n.
Proof.
  rewrite shortest_cands_eq, uniq_in, in_map_iff. split.
  - intros [n [<- Hn]]. apply shortest_names_spec in Hn as [H1 H2]. exists n. auto.
  - intros [n (H1 & H2 & ->)]. exists n. split; [reflexivity|]. apply shortest_names_spec. auto.
Qed.

Lemma shortest_name_pick_in pick names :
  pick_ok pick -> names <> [] -> In (shortest_name_pick pick names) (shortest_cands names).
Proof.
  intros Hp Hne. rewrite shortest_cands_eq, uniq_in. unfold shortest_name_pick.
  apply in_map. apply Hp. apply shortest_names_nonempty. exact Hne.
Qed.

(* a unique shortest name: a single candidate *)
Lemma unique_shortest_single names x : shortest_names names = [x] -> shortest_cands names = [strip_db x].
Proof. intros E. rewrite shortest_cands_eq, E. reflexivity. Qed.

(* ---- the whole pass ----------------------------------------------------------------------------- *)

Lemma Forall2_repeat {X Y} (R : X -> Y -> Prop) x y n : R x y -> Forall2 R (repeat x n) (repeat y n).
Proof. intros H. induction n; cbn [repeat]; constructor; auto. Qed.

Lemma names_of_nonempty l : names_of l <> [].
Proof.
  unfold names_of, split_str. set (cs := rstrip_chars (chars l)). set (sep := sep_char Gen.BinsDefaults.label_sep).
  assert (H : forall cur s, split_chars sep cur s <> []).
  { intros cur s. revert cur. induction s as [|c s IH]; intros cur; cbn [split_chars]; [discriminate|].
    destruct (Ascii.eqb c sep); [discriminate | apply IH]. }
  specialize (H [] cs). destruct (split_chars sep [] cs) as [|p ps]; [congruence|]. cbn [map uniq]. discriminate.
Qed.

Lemma shorten_go_pick_in pick curr count labels :
  pick_ok pick -> (count <> O -> curr <> []) ->
  Forall2 (fun name cands => In name cands) (shorten_go_pick pick curr count labels) (shorten_go curr count labels).
Proof.
  intros Hp. revert curr count. induction labels as [|l rest IH]; intros curr count Hinv; cbn [shorten_go_pick shorten_go].
  - destruct count; [constructor|]. apply Forall2_repeat. apply shortest_name_pick_in; [exact Hp | apply Hinv; discriminate].
  - destruct (inter curr (names_of l)) as [|o ov] eqn:Ei.
    + apply Forall2_app.
      * destruct count; [constructor|]. apply Forall2_repeat.
        apply shortest_name_pick_in; [exact Hp | apply Hinv; discriminate].
      * apply IH. intros _. apply names_of_nonempty.
    + apply IH. intros _. apply filter_names_nonempty. discriminate.
Qed.

(* whatever the set iteration order picks, every emitted name is one of the model's candidates *)
Lemma shorten_labels_pick_in pick labels :
  pick_ok pick ->
  Forall2 (fun name cands => In name cands) (shorten_labels_pick pick labels) (shorten_labels labels).
Proof. intros Hp. apply shorten_go_pick_in; [exact Hp | congruence]. Qed.

Lemma shorten_labels_pick_length pick labels : length (shorten_labels_pick pick labels) = length labels.
Proof.
  unfold shorten_labels_pick.
  assert (H : forall curr count, length (shorten_go_pick pick curr count labels) = (count + length labels)%nat).
  { induction labels as [|l rest IH]; intros curr count; cbn [shorten_go_pick].
    - rewrite repeat_length. cbn [length]. lia.
    - destruct (inter curr (names_of l)).
      + rewrite app_length, repeat_length, IH. cbn [length]. lia.
      + rewrite IH. cbn [length]. lia. }
  rewrite H. reflexivity.
Qed.

(* C12_labels_deterministic_when: where every position has a single candidate (e.g. a unique
   shortest name in every run, or equally short names with the same accession) the output is
   that candidate, for every iteration order *)
Lemma shorten_labels_deterministic pick labels :
  pick_ok pick -> Forall (fun c => exists x, c = [x]) (shorten_labels labels) ->
  map Some (shorten_labels_pick pick labels) = shorten_labels_det labels.
Proof.
  intros Hp Hs. pose proof (shorten_labels_pick_in pick labels Hp) as H2. unfold shorten_labels_det.
  induction H2 as [|name cands ns cs Hin _ IH]; [reflexivity|].
  inversion Hs as [|? ? [x ->] Hs']; subst. cbn [map]. destruct Hin as [<-|[]]. f_equal. apply IH. exact Hs'.
Qed.

Lemma shorten_labels_deterministic2 pick1 pick2 labels :
  pick_ok pick1 -> pick_ok pick2 -> Forall (fun c => exists x, c = [x]) (shorten_labels labels) ->
  shorten_labels_pick pick1 labels = shorten_labels_pick pick2 labels.
Proof.
  intros H1 H2 Hs.
  pose proof (shorten_labels_deterministic pick1 labels H1 Hs) as E1.
  pose proof (shorten_labels_deterministic pick2 labels H2 Hs) as E2.
  rewrite <- E2 in E1. clear - E1.
  revert E1. generalize (shorten_labels_pick pick1 labels) (shorten_labels_pick pick2 labels).
  induction l as [|a l IH]; intros [|b l2] E; cbn in E; try discriminate; [reflexivity|].
  injection E as -> E. f_equal. apply IH. exact E.
Qed.

(* ... and where a position has two candidates the output does depend on the order: the label
   "AB,CD" comes out as AB under one order of the set {AB, CD} and as CD under the other *)
Lemma last_in {X} (l : list X) d : l <> [] -> In (last l d) l.
Proof.
  induction l as [|a l IH]; [congruence|]. intros _. destruct l as [|b l']; [left; reflexivity|].
  right. apply IH. discriminate.
Qed.

Lemma shorten_labels_order_dependent :
  exists (labels : list string) (pick1 pick2 : list string -> string),
    pick_ok pick1 /\ pick_ok pick2 /\
    shorten_labels labels = [["AB"; "CD"]]%string /\
    shorten_labels_pick pick1 labels = ["AB"]%string /\ shorten_labels_pick pick2 labels = ["CD"]%string.
Proof.
  exists ["AB,CD"]%string, (fun l => hd EmptyString l), (fun l => last l EmptyString).
  split; [|split; [|split; [|split]]]; try (vm_compute; reflexivity).
  - intros l Hl. destruct l; [congruence | left; reflexivity].
  - intros l Hl. apply last_in. exact Hl.
Qed.
