(* C17 -- the bins of a segment.  The model selects them through the C07 model of
   GenomicArray.iter_ranges_of (index ranges / masks, index labels looked up again); on
   tables meeting C07's preconditions that is the plain filter of Spec/SegBins.v. *)
From CNV Require Import Base.Prelude Base.QNum Model.Ranges Model.Segmetrics
  Spec.RangeQuery Spec.SegBins Proofs.RangesLib Proofs.Ranges Proofs.RangesTables.
From Coq Require Import Sorting.Sorted.

(* ---- list facts --------------------------------------------------------------- *)
Lemma filter_map_c {A B} (f : A -> B) p l :
  filter p (map f l) = map f (filter (fun x => p (f x)) l).
Proof.
  induction l as [|x t IH]; [reflexivity|]. cbn. destruct (p (f x)); cbn; now rewrite IH.
Qed.

Lemma filter_filter_c {A} (p q : A -> bool) l :
  filter p (filter q l) = filter (fun x => q x && p x) l.
Proof.
  induction l as [|x t IH]; [reflexivity|]. cbn. destruct (q x); cbn; [destruct (p x)|]; now rewrite IH.
Qed.

Lemma filter_incl_c {A} (p : A -> bool) l x : In x (filter p l) -> In x l.
Proof. intro H. apply filter_In in H. tauto. Qed.

Lemma NoDup_map_filter {A B} (f : A -> B) p l : NoDup (map f l) -> NoDup (map f (filter p l)).
Proof.
  induction l as [|x t IH]; [trivial|]. cbn. intro H. inversion H as [|? ? H1 H2]; subst.
  destruct (p x); cbn; [constructor|]; auto.
  intro I. apply H1. apply in_map_iff in I. destruct I as (y & E & I).
  apply in_map_iff. exists y. split; [exact E|]. eapply filter_incl_c; eauto.
Qed.

Lemma combine_seq_fst {A} (l : list A) a : map fst (combine (seq a (length l)) l) = seq a (length l).
Proof.
  revert a. induction l as [|x t IH]; intro a; [reflexivity|]. cbn. now rewrite IH.
Qed.

Lemma combine_seq_In {A} (l : list A) (d : A) : forall a i x,
  In (i, x) (combine (seq a (length l)) l) -> (a <= i < a + length l)%nat /\ nth (i - a) l d = x.
Proof.
  induction l as [|y t IH]; intros a i x H; [destruct H|].
  cbn in H. destruct H as [H|H].
  - inversion H; subst. split; [cbn; lia|]. now rewrite Nat.sub_diag.
  - apply IH in H. destruct H as [H1 H2]. split; [cbn; lia|].
    replace (i - a)%nat with (S (i - S a)) by lia. exact H2.
Qed.

(* ---- index labels ------------------------------------------------------------- *)
Lemma tagged_NoDup bins : NoDup (map fst (tagged bins)).
Proof. unfold tagged. rewrite combine_seq_fst. apply seq_NoDup. Qed.

Lemma find_bin_In tb ib : NoDup (map fst tb) -> In ib tb ->
  find_bin tb (Z.of_nat (fst ib)) = Some ib.
Proof.
  induction tb as [|x t IH]; intros ND I; [destruct I|].
  cbn [find_bin]. cbn in ND. inversion ND as [|? ? H1 H2]; subst. destruct I as [->|I].
  - now rewrite Z.eqb_refl.
  - destruct (Z.eqb_spec (Z.of_nat (fst x)) (Z.of_nat (fst ib))) as [E|E].
    + apply Nat2Z.inj in E. exfalso. apply H1. rewrite E. now apply in_map.
    + now apply IH.
Qed.

Definition coords (ib : tbin) : row := snd (bin_trow ib).

Lemma rows_tbins_sub tb l : NoDup (map fst tb) -> (forall x, In x l -> In x tb) ->
  rows_tbins tb (map coords l) = l.
Proof.
  intros ND. induction l as [|x t IH]; intro H; [reflexivity|].
  unfold rows_tbins in *. cbn [map flat_map].
  change (r_id (coords x)) with (Z.of_nat (fst x)).
  rewrite (find_bin_In tb x ND) by (apply H; now left).
  cbn [app]. f_equal. apply IH. intros y Hy. apply H. now right.
Qed.

(* ---- the rows of one chromosome ------------------------------------------------- *)
Definition on_chrom (c : string) (ib : tbin) : bool := String.eqb (b_chr (snd ib)) c.

Lemma rows_of_bins tb c : rows_of c (map bin_trow tb) = map coords (filter (on_chrom c) tb).
Proof.
  unfold rows_of, of_chrom. rewrite filter_map_c, map_map. reflexivity.
Qed.

Definition row_selects (m : qmode) (qs qe : Z) (r : row) : bool :=
  match m with QInner => contained qs qe r | _ => overlaps qs qe r end.

Lemma select_spec_rows m qs qe (l : list tbin) : m <> QTrim ->
  select_spec m qs qe (map coords l) = map coords (filter (fun ib => row_selects m qs qe (coords ib)) l).
Proof.
  intro Hm. destruct m; [| |congruence]; cbn [select_spec row_selects];
    unfold inner_spec, outer_spec; apply filter_map_c.
Qed.

(* ---- select_bins is the filter -------------------------------------------------- *)
Theorem select_bins_spec m tb segs : m <> QTrim ->
  table_ok (map bin_trow tb) -> NoDup (map fst tb) -> grouped (map seg_trow segs) ->
  select_bins m tb segs = map (fun s => filter (fun ib => seg_selects m s (snd ib)) tb) segs.
Proof.
  intros Hm Hok ND Hg. unfold select_bins.
  rewrite iter_ranges_of_answers by assumption.
  rewrite (filter_all_true (keep true)) by (intros; reflexivity).
  unfold answers. rewrite !map_map. apply map_ext. intro s.
  cbn [snd fst seg_trow r_lo r_hi].
  rewrite rows_of_bins, (select_spec_rows m _ _ _ Hm).
  rewrite rows_tbins_sub; [|exact ND|].
  - rewrite filter_filter_c. apply filter_ext. intro ib.
    unfold on_chrom, seg_selects, seg_contains, seg_overlaps, row_selects, contained, overlaps, coords.
    destruct m; [| |congruence]; reflexivity.
  - intros x Hx. eapply filter_incl_c, filter_incl_c. exact Hx.
Qed.

(* ---- row filters keep the preconditions ------------------------------------------ *)
Lemma sorted_lo_filter (q : tbin -> bool) (l : list tbin) :
  sorted_lo (map coords l) -> sorted_lo (map coords (filter q l)).
Proof.
  unfold sorted_lo. intro H.
  apply StronglySorted_Sorted.
  apply Sorted_StronglySorted in H; [|intros a b c H1 H2; lia].
  induction l as [|x t IH]; [constructor|].
  cbn in H. inversion H as [|? ? H1 H2]; subst. cbn. destruct (q x); cbn.
  - constructor; [now apply IH|].
    rewrite Forall_forall in *. intros r Hr. apply H2.
    apply in_map_iff in Hr. destruct Hr as (y & E & Hy). apply in_map_iff. exists y. split; [exact E|].
    eapply filter_incl_c; eauto.
  - now apply IH.
Qed.

Lemma table_ok_filter (q : tbin -> bool) (tb : list tbin) :
  table_ok (map bin_trow tb) -> table_ok (map bin_trow (filter q tb)).
Proof.
  intros H c. specialize (H c). rewrite rows_of_bins in *. destruct H as [H1 H2].
  rewrite filter_filter_c.
  rewrite (filter_ext _ (fun x => on_chrom c x && q x)) by (intro; apply andb_comm).
  rewrite <- filter_filter_c. split.
  - now apply sorted_lo_filter.
  - rewrite Forall_forall in *. intros r Hr. apply H2.
    apply in_map_iff in Hr. destruct Hr as (y & E & Hy). apply in_map_iff. exists y. split; [exact E|].
    eapply filter_incl_c; eauto.
Qed.

Lemma used_bins_ok cfg bins : bins_ok bins ->
  table_ok (map bin_trow (used_bins cfg (tagged bins))) /\ NoDup (map fst (used_bins cfg (tagged bins))).
Proof.
  intro H. unfold used_bins, drop_low_coverage. destruct (c_skip_low cfg).
  - split; [now apply table_ok_filter|apply NoDup_map_filter, tagged_NoDup].
  - split; [exact H|apply tagged_NoDup].
Qed.

(* ---- C17_bins -------------------------------------------------------------------- *)
Theorem segmetrics_bins_spec cfg bins segs : bins_ok bins -> segs_ok segs ->
  segmetrics_bins cfg bins segs = map (overlapping_bins (used_bins cfg (tagged bins))) segs.
Proof.
  intros Hb Hs. unfold segmetrics_bins. destruct (used_bins_ok cfg bins Hb) as [H1 H2].
  rewrite select_bins_spec; [reflexivity|discriminate|assumption..].
Qed.

Theorem do_segmetrics_bins Os cfg bins segs : bins_ok bins -> segs_ok segs ->
  do_segmetrics Os cfg bins segs =
  map (fun is => (snd is, row_of_bins (Os (fst is)) cfg (snd is)
                            (overlapping_bins (used_bins cfg (tagged bins)) (snd is))))
      (combine (seq 0 (length segs)) segs).
Proof.
  intros Hb Hs. unfold do_segmetrics. rewrite (segmetrics_bins_spec cfg bins segs Hb Hs).
  apply map_ext_in. intros [i s] Hin. cbn [fst snd].
  destruct (combine_seq_In segs s 0%nat i s Hin) as [Hi Hn].
  rewrite Nat.sub_0_r in Hn.
  rewrite (nth_indep _ [] (overlapping_bins (used_bins cfg (tagged bins)) s))
    by (rewrite map_length; lia).
  rewrite map_nth, Hn. reflexivity.
Qed.

(* the segment table's own columns come back unchanged, for every input *)
Theorem do_segmetrics_columns Os cfg bins segs : map fst (do_segmetrics Os cfg bins segs) = segs.
Proof.
  unfold do_segmetrics. rewrite map_map. cbn [fst].
  generalize (segmetrics_bins cfg bins segs). intros _.
  generalize 0%nat. induction segs as [|s t IH]; intro a; [reflexivity|].
  cbn. now rewrite IH.
Qed.
