(* C11: FindLocalPeaks returns strictly increasing interior indices (whatever the
   values), the breakpoints of haar_seg are strictly increasing in 1..n-2, and
   the start/end/size columns tile 0..n-1. *)
From Coq Require Import QArith.Qabs.
From CNV Require Import Base.Prelude Model.Haar Spec.Haar Proofs.HaarConv Proofs.HaarFlat Proofs.HaarUnify.
From Coq Require Import Lqa.

Lemma Qltb_true x y : Qltb x y = true -> (x < y)%Q.
Proof.
  unfold Qltb. intros H. apply negb_true_iff in H. apply Qnot_le_lt. intros C.
  apply Qle_bool_iff in C. congruence.
Qed.

Lemma Qltb_false x y : Qltb x y = false -> (y <= x)%Q.
Proof. unfold Qltb. intros H. apply negb_false_iff in H. apply Qle_bool_iff, H. Qed.

Lemma Qeqb_true x y : Qeq_bool x y = true -> (x == y)%Q.
Proof. apply Qeq_bool_iff. Qed.

Lemma Qeqb_false x y : Qeq_bool x y = false -> ~ (x == y)%Q.
Proof. intros H C. apply Qeq_bool_iff in C. congruence. Qed.

Ltac bools :=
  repeat match goal with
  | H : Qltb _ _ = true |- _ => apply Qltb_true in H
  | H : Qltb _ _ = false |- _ => apply Qltb_false in H
  | H : Qeq_bool _ _ = true |- _ => apply Qeqb_true in H
  | H : Qeq_bool _ _ = false |- _ => apply Qeqb_false in H
  end.

(* what a pending suspect means: it lies in [lo, k), and the previous step ended on a
   plateau (p == c) of the right sign *)
Definition sus_ok (lo k : Z) (p c : Q) (pos : bool) (o : option Z) : Prop :=
  match o with
  | Some s => lo <= s < k /\ (p == c)%Q /\ (if pos then 0 < c else c < 0)%Q
  | None => True
  end.

Definition st_ok (lo k : Z) (p c : Q) (st : flp_state) : Prop :=
  sus_ok lo k p c true (fst st) /\ sus_ok lo k p c false (snd st).

Definition next_lo (lo : Z) (out : list Z) : Z :=
  match out with [] => lo | x :: _ => x + 1 end.

Ltac walk H :=
  repeat match type of H with
  | context [if ?b then _ else _] =>
      match b with
      | andb ?x ?y => destruct x eqn:?; cbn [andb] in H
      | _ => destruct b eqn:?
      end
  end.

Ltac leaf :=
  bools;
  match goal with H : (_, _) = (_, _) |- _ => injection H as <- <- end;
  unfold next_lo, st_ok, sus_ok in *; cbn [fst snd] in *;
  repeat match goal with H : _ /\ _ |- _ => destruct H end;
  split;
  [ first [ left; reflexivity
          | right; eexists; split; [reflexivity|lia]
          | exfalso; lra ]
  | split;
    first [ exact I
          | split; [lia|split; lra]
          | exfalso; lra ] ].

Lemma flp_step_ok lo k p c n st out st' :
  lo <= k -> st_ok lo k p c st -> flp_step k p c n st = (out, st') ->
  (out = [] \/ exists x, out = [x] /\ lo <= x <= k) /\
  st_ok (next_lo lo out) (k + 1) c n st'.
Proof.
  intros Hlo Hok H. unfold flp_step in H. destruct st as [maxS minS].
  destruct maxS as [s1|], minS as [s2|]; walk H; leaf.
Qed.

Lemma flp_sorted : forall l k lo st,
  lo <= k ->
  match l with p :: c :: _ => st_ok lo k p c st | _ => True end ->
  ssorted (flp_loop l k st) /\
  (forall x, In x (flp_loop l k st) -> lo <= x /\ x < k + Z.of_nat (length l) - 2).
Proof.
  induction l as [|p t IH]; intros k lo st Hlo Hok.
  - split; [constructor|intros x []].
  - destruct t as [|c t']; [split; [constructor|intros x []]|].
    destruct t' as [|n t'']; [split; [constructor|intros x []]|].
    rewrite flp_loop_eq. destruct (flp_step k p c n st) as [out st'] eqn:ES.
    destruct (flp_step_ok lo k p c n st out st' Hlo Hok ES) as [Hout Hok'].
    assert (Hlo' : next_lo lo out <= k + 1).
    { destruct Hout as [->|[x [-> Hx]]]; cbn [next_lo]; lia. }
    assert (Hlo2 : lo <= next_lo lo out).
    { destruct Hout as [->|[x [-> Hx]]]; cbn [next_lo]; lia. }
    destruct (IH (k + 1) (next_lo lo out) st' Hlo') as [S R].
    { destruct t'' as [|n2 t3]; exact Hok'. }
    cbn [length] in R |- *.
    destruct Hout as [->|[x [-> Hx]]]; cbn [app].
    + split; [exact S|]. intros y Hy. specialize (R y Hy). cbn [next_lo] in R. lia.
    + cbn [next_lo] in R. split.
      * apply ssorted_cons; [exact S|]. intros y Hy. specialize (R y Hy). lia.
      * intros y [<-|Hy]; [lia|]. specialize (R y Hy). lia.
Qed.

Lemma peaks_sorted l :
  ssorted (find_local_peaks l) /\
  (forall x, In x (find_local_peaks l) -> 1 <= x <= Z.of_nat (length l) - 2).
Proof.
  unfold find_local_peaks.
  destruct (flp_sorted l 1 1 (None, None) ltac:(lia)) as [S R].
  - destruct l as [|p [|c t]]; try exact I. split; exact I.
  - split; [exact S|]. intros x Hx. specialize (R x Hx). lia.
Qed.

Lemma ssorted_filter f l : ssorted l -> ssorted (filter f l).
Proof.
  induction l as [|x t IH]; intros H; [constructor|].
  apply ssorted_inv in H. destruct H as [H1 H2]. cbn [filter].
  destruct (f x); [|apply IH, H1].
  apply ssorted_cons; [apply IH, H1|]. intros y Hy. apply filter_In in Hy. apply H2, Hy.
Qed.

(* ---------- breakpoints of the level loop ---------- *)

Definition breaks_ok (n : Z) (bps : list Z) : Prop :=
  ssorted bps /\ forall x, In x bps -> 1 <= x <= n - 2.

Section Sizes.
Variable scale_u scale_w : Z -> Q.
Variable pvals : Z -> list Q.
Variable absorb : Z -> bool.

Lemma level_addon_ok sg wt q level :
  breaks_ok (Zlength_nat sg) (level_addon scale_u scale_w pvals absorb sg wt q level).
Proof.
  unfold level_addon, breaks_ok.
  set (conv := conv_level scale_u scale_w sg wt (2 ^ level)).
  destruct (peaks_sorted conv) as [S R]. split.
  - apply ssorted_filter, S.
  - intros x Hx. apply filter_In in Hx. destruct Hx as [Hx _]. specialize (R x Hx).
    unfold conv, conv_level in R. rewrite haar_conv_length in R. unfold Zlength_nat. exact R.
Qed.

Lemma breakpoints_ok levels sg wt q :
  breaks_ok (Zlength_nat sg) (haar_breakpoints_over scale_u scale_w pvals absorb levels sg wt q).
Proof.
  unfold haar_breakpoints_over.
  assert (G : forall bps, breaks_ok (Zlength_nat sg) bps ->
            breaks_ok (Zlength_nat sg)
              (fold_left (fun bps level => unify_levels bps (level_addon scale_u scale_w pvals absorb sg wt q level)
                                             (2 ^ (level - 1))) levels bps)).
  { induction levels as [|l ls IH]; intros bps Hb; [exact Hb|].
    cbn [fold_left]. apply IH.
    destruct Hb as [Sb Rb]. destruct (level_addon_ok sg wt q l) as [Sa Ra].
    assert (Hw : 0 <= 2 ^ (l - 1)) by (apply Z.pow_nonneg; lia).
    destruct (unify_levels_spec bps _ _ Hw Sb Sa) as [U1 [_ [U3 _]]].
    split; [exact U1|]. intros x Hx. destruct (U3 x Hx) as [Hx1|[Hx1 _]]; [apply Rb, Hx1|apply Ra, Hx1]. }
  apply G. split; [constructor|intros x []].
Qed.

(* ---------- tiling ---------- *)

Lemma tiles_gen n : forall bps s,
  ssorted bps -> (forall x, In x bps -> s < x < n) -> s < n ->
  tiles_from s n (s :: bps) (map (fun e => e - 1) (bps ++ [n]))
    (map (fun se => snd se - fst se) (combine (s :: bps) (bps ++ [n]))).
Proof.
  induction bps as [|b t IH]; intros s Hs Hr Hn.
  - cbn. repeat split; lia.
  - apply ssorted_inv in Hs. destruct Hs as [Hs Hb].
    pose proof (Hr b (or_introl eq_refl)) as Hb0.
    cbn [app map combine tiles_from fst snd].
    split; [reflexivity|]. split; [lia|]. split; [lia|].
    replace (b - 1 + 1) with b by lia.
    apply IH; [exact Hs| |lia].
    intros x Hx. specialize (Hb x Hx). specialize (Hr x (or_intror Hx)). lia.
Qed.

Lemma tiles_sum n : forall st s ed sz, tiles_from s n st ed sz -> sumZ sz = n - s.
Proof.
  induction st as [|s' st' IH]; intros s ed sz H; [destruct H|].
  destruct ed as [|e ed']; [destruct H|]. destruct sz as [|z sz']; [destruct H|].
  cbn [tiles_from] in H. destruct H as [-> [Hz [Hpos H]]].
  cbn [sumZ]. destruct st' as [|s2 st2].
  - destruct H as [-> [-> ->]]. cbn [sumZ]. lia.
  - rewrite (IH (e + 1) ed' sz' H). lia.
Qed.

Lemma haar_seg_tiles sg wt q :
  sg <> [] ->
  let n := Zlength_nat sg in
  let r := haar_seg scale_u scale_w pvals absorb sg wt q in
  ssorted (hr_breaks r) /\ (forall b, In b (hr_breaks r) -> 1 <= b <= n - 2) /\
  tiles_from 0 n (hr_start r) (hr_end r) (hr_size r) /\
  sumZ (hr_size r) = n /\
  length (hr_mean r) = length (hr_start r).
Proof.
  intros Hne n r. unfold r, haar_seg.
  destruct (breakpoints_ok haar_levels sg wt q) as [S R].
  set (bps := haar_breakpoints_over scale_u scale_w pvals absorb haar_levels sg wt q) in *.
  unfold haar_result_of. cbn [hr_breaks hr_start hr_end hr_size hr_mean]. fold n.
  assert (Hn : 0 < n) by (unfold n, Zlength_nat; destruct sg; [congruence|cbn [length]; lia]).
  assert (T : tiles_from 0 n (0 :: bps) (map (fun e => e - 1) (bps ++ [n]))
                (map (fun se => snd se - fst se) (combine (0 :: bps) (bps ++ [n])))).
  { apply tiles_gen; [exact S| |exact Hn]. intros x Hx. specialize (R x Hx). fold n in R. lia. }
  split; [exact S|]. split; [exact R|]. split; [exact T|].
  split; [rewrite (tiles_sum n _ _ _ _ T); lia|].
  apply map_length.
Qed.

End Sizes.
