(* total_range_size and subdivide on top of merge (Proofs/IvMerge.v), the
   counting lemma (Proofs/IvCount.v) and the bin lemmas (Proofs/IvSubdivide.v). *)
From CNV Require Import Base.Prelude Model.IvRow Model.Intervals Spec.Cover.
From CNV Require Import Proofs.IvCover Proofs.IvMerge Proofs.IvCount Proofs.IvSubdivide.
From CNV Require Gen.IvDefaults.

Section Top.
Context {A : Type} (comb : A -> list A -> A).
Notation row := (@row A).

(* rows of a valid table whose cover lies inside another table's cover stay
   inside any window that contains the other table's rows *)
Lemma bounds_from_cover (m t : list row) a b :
  valid m -> (forall z, covers m z -> covers t z) ->
  Forall (fun r => a <= lo r /\ hi r <= b) t ->
  Forall (fun r => a <= lo r /\ hi r <= b) m.
Proof.
  intros Hv Hc Ht. rewrite Forall_forall in *. intros q Hq.
  pose proof (valid_in _ _ Hv Hq) as Hlt.
  assert (C1 : covers m (lo q)) by (exists q; split; auto; lia).
  assert (C2 : covers m (hi q - 1)) by (exists q; split; auto; lia).
  apply Hc in C1 as [r1 [Hr1 Hz1]]. apply Hc in C2 as [r2 [Hr2 Hz2]].
  pose proof (Ht r1 Hr1). pose proof (Ht r2 Hr2). lia.
Qed.

Theorem total_sel_spec (whole : list row) (sel : row -> bool) (a : Z) (n : nat) :
  valid whole ->
  let t := filter sel whole in
  Forall (fun r => a <= lo r /\ hi r <= a + Z.of_nat n) t ->
  total_sel comb (all_gaps Gen.IvDefaults.total_size_bp whole) t = count_covered t a n.
Proof.
  intros Hv t Hb. unfold total_sel.
  (* any merge distance in [0, 1] leaves disjoint rows with the same cover: rows
     overlapping by at least one base are merged, abutting rows may stay apart *)
  assert (Hbp : 0 <= Gen.IvDefaults.total_size_bp <= 1)
    by (unfold Gen.IvDefaults.total_size_bp; lia).
  destruct (merge_sel_spec comb Gen.IvDefaults.total_size_bp whole sel) as (Hc & Ho & Hm); [lia|].
  fold t in Hc, Ho, Hm. specialize (Hm Hv).
  set (m := merge_sel comb Gen.IvDefaults.total_size_bp
                      (all_gaps Gen.IvDefaults.total_size_bp whole) t) in *.
  rewrite (sum_sizes_count m a n); auto.
  - apply count_covered_cover_ext. exact Hc.
  - apply overlap_below_1_disjoint. unfold overlap_below in *.
    eapply chain_impl; [|exact Ho]. intros a0 b0; simpl; lia.
  - apply (bounds_from_cover m t); auto. intros z. apply Hc.
Qed.

(* what subdivide does to each merged region *)
Definition split_ok (avg mn : Z) (cut : Z -> Z -> Z -> Z) (r : row) : Prop :=
  let span := hi r - lo r in
  let n := Z.max 1 (round_div span avg) in
  is_round_half_even span avg (round_div span avg) /\
  (span < mn -> split_row avg mn cut r = []) /\
  (mn <= span ->
     let out := split_row avg mn cut r in
     Z.of_nat (length out) = n /\ tiles (lo r) (hi r) out /\
     Forall (fun b => pay b = pay r /\ span - n <= n * (hi b - lo b) <= span + n) out).

Theorem subdivide_sel_spec (avg mn : Z) (cut : Z -> Z -> Z -> Z) (whole : list row) (sel : row -> bool) :
  0 < avg -> (forall span n, cut_contract span n (cut span n)) -> valid whole ->
  let t := filter sel whole in
  exists m : list row,
    (forall z, covers m z <-> covers t z) /\ sorted_separated m /\ valid m /\
    subdivide_sel comb avg mn cut (all_gaps Gen.IvDefaults.merge_bp_default whole) t
      = flat_map (split_row avg mn cut) m /\
    Forall (split_ok avg mn cut) m.
Proof.
  intros Havg Hcut Hv t.
  assert (Hbp : Gen.IvDefaults.merge_bp_default = 0) by reflexivity.
  unfold subdivide_sel. rewrite Hbp.
  destruct (merge_sel_spec comb 0 whole sel) as (Hc & Ho & Hm); [lia|].
  fold t in Hc, Ho, Hm. specialize (Hm Hv).
  exists (merge_sel comb 0 (all_gaps 0 whole) t).
  split; [exact Hc|]. split; [apply overlap_below_0_separated; exact Ho|]. split; [exact Hm|].
  split; [reflexivity|].
  rewrite Forall_forall. intros r Hr. pose proof (valid_in _ _ Hm Hr) as Hlt.
  unfold split_ok. split; [apply round_div_half_even; exact Havg|].
  apply (split_row_spec avg mn cut r Havg Hlt Hcut).
Qed.

End Top.
