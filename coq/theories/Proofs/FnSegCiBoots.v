(* C17 tie of the resample count of confidence_interval_bootstrap: the whole statement

       if bootstraps <= 2 / alpha:
           new_boots = int(np.ceil(2 / alpha))
           logging.warning(...)
           bootstraps = new_boots

   is regenerated from the Python source on every run as Gen/FnSegCiBoots.v (fn_ci_bootstraps:
   bootstraps after the statement; the warning is a dropped log line).  Here: it IS Model/Segmetrics.v
   n_boot whenever the oracle value o_q2a (Python's float 2/alpha) is the exact quotient. *)
From CNV Require Import Base.Prelude Base.QNum Proofs.QNumLemmas Gen.SegmetricsDefaults Gen.FnSegmetrics
  Gen.FnSegCiBoots Model.Ranges Model.Segmetrics Proofs.FnSegmetrics.
From Coq Require Import Qround.
Local Open Scope Q_scope.

Lemma fn_ci_bootstraps_unfold b alpha :
  fn_ci_bootstraps b alpha = if Qle_bool (inject_Z b) (2 / alpha) then fn_new_boots alpha else b.
Proof. reflexivity. Qed.

Theorem source_n_boot b q2a alpha : q2a == 2 / alpha -> n_boot b q2a = fn_ci_bootstraps b alpha.
Proof. intro E. rewrite fn_ci_bootstraps_unfold. apply n_boot_source. exact E. Qed.

(* read off the generated definition: raised to ceil(2/alpha) when bootstraps <= 2/alpha, kept otherwise *)
Theorem source_n_boot_value b alpha :
  fn_ci_bootstraps b alpha = if Qle_bool (inject_Z b) (2 / alpha) then Qceiling (2 / alpha) else b.
Proof. rewrite fn_ci_bootstraps_unfold, fn_new_boots_eq. reflexivity. Qed.
