(* Library for C12: list helpers, and the per-chromosome view of the genome-table
   operations of Model/Target.v and Model/Antitarget.v:
     filter (on c) (gmerge bp t)    = merge_sel comb_cg bp (all_gaps bp t) (filter (on c) t)
     filter (on c) (gsubtract a b)  = subtract (filter (on c) a) (filter (on c) b)
     filter (on c) (gresize bp t)   = resize bp None (filter (on c) t)
     filter (on c) (gsubdivide ...) = flat_map split_row_q (merge_sel ... (filter (on c) t))
   so that the C06 theorems (stated for `filter sel whole`) apply chromosome by chromosome. *)
From CNV Require Import Base.Prelude Base.Str Model.IvRow Model.IvCombine Model.Intervals
  Model.Chromsort Model.Target Model.Antitarget Spec.Cover.
From CNV Require Import Proofs.IvCover Proofs.IvMerge Proofs.IvSubtract Proofs.IvSubdivide
  Proofs.IvIntersect Proofs.ChromsortLemmas.
From CNV Require Gen.IvDefaults.

(* ---- lists ---------------------------------------------------------------- *)

Lemma filter_all_true {X} (p : X -> bool) l : (forall x, In x l -> p x = true) -> filter p l = l.
Proof.
  induction l as [|a l IH]; intros H; [reflexivity|]. cbn [filter].
  rewrite (H a (or_introl eq_refl)). f_equal. apply IH. intros x Hx. apply H. right; exact Hx.
Qed.

Lemma filter_all_false {X} (p : X -> bool) l : (forall x, In x l -> p x = false) -> filter p l = [].
Proof.
  induction l as [|a l IH]; intros H; [reflexivity|]. cbn [filter].
  rewrite (H a (or_introl eq_refl)). apply IH. intros x Hx. apply H. right; exact Hx.
Qed.

Lemma filter_map_comm {X Y} (f : X -> Y) (p : Y -> bool) (q : X -> bool) l :
  (forall x, p (f x) = q x) -> filter p (map f l) = map f (filter q l).
Proof.
  intros H. induction l as [|a l IH]; [reflexivity|]. cbn [map filter]. rewrite H.
  destruct (q a); cbn [map]; rewrite IH; reflexivity.
Qed.

Lemma filter_filter_comm {X} (p q : X -> bool) l : filter p (filter q l) = filter q (filter p l).
Proof.
  induction l as [|a l IH]; [reflexivity|]. cbn [filter].
  destruct (q a) eqn:Eq, (p a) eqn:Ep; cbn [filter]; rewrite ?Eq, ?Ep, IH; reflexivity.
Qed.

Lemma flat_map_single {X} (l : list X) : flat_map (fun k => [k]) l = l.
Proof. induction l as [|a l IH]; [reflexivity|]. cbn [flat_map app]. rewrite IH. reflexivity. Qed.

Lemma flat_map_ext_in {X Y} (f g : X -> list Y) l :
  (forall x, In x l -> f x = g x) -> flat_map f l = flat_map g l.
Proof.
  induction l as [|a l IH]; intros H; [reflexivity|]. cbn [flat_map].
  rewrite (H a (or_introl eq_refl)), IH; [reflexivity|]. intros x Hx. apply H. right; exact Hx.
Qed.

(* ---- uniq (first-occurrence distinct names) ---------------------------------- *)

Lemma uniq_in (x : string) l : In x (uniq l) <-> In x l.
Proof.
  induction l as [|a l IH]; [reflexivity|]. cbn [uniq]. split.
  - intros [->|H]; [left; reflexivity|]. apply filter_In in H as [H _]. right. apply IH. exact H.
  - intros [->|H]; [left; reflexivity|].
    destruct (String.eqb a x) eqn:E; [left; apply String.eqb_eq; exact E|].
    right. apply filter_In. split; [apply IH; exact H|]. rewrite E. reflexivity.
Qed.

Lemma uniq_nodup l : NoDup (uniq l).
Proof.
  induction l as [|a l IH]; [constructor|]. cbn [uniq]. constructor.
  - intros H. apply filter_In in H as [_ H]. rewrite String.eqb_refl in H. discriminate.
  - apply NoDup_filter. exact IH.
Qed.

Lemma filter_eqb_nodup (c : string) l :
  NoDup l -> filter (fun c' => String.eqb c' c) l = if in_dec string_dec c l then [c] else [].
Proof.
  induction l as [|a l IH]; intros Hn; [reflexivity|].
  inversion Hn as [|? ? Hna Hnl]; subst. cbn [filter]. specialize (IH Hnl).
  destruct (String.eqb a c) eqn:E.
  - apply String.eqb_eq in E. subst a. rewrite IH.
    destruct (in_dec string_dec c l) as [Hin|_]; [contradiction|].
    destruct (in_dec string_dec c (c :: l)) as [_|Hno]; [reflexivity|]. exfalso. apply Hno. left; reflexivity.
  - apply String.eqb_neq in E. rewrite IH.
    destruct (in_dec string_dec c l) as [Hin|Hno], (in_dec string_dec c (a :: l)) as [Hin'|Hno']; try reflexivity.
    + exfalso. apply Hno'. right; exact Hin.
    + exfalso. destruct Hin' as [->|Hin']; [apply E; reflexivity | contradiction].
Qed.

(* ---- chromosome selection ----------------------------------------------------- *)

Lemma on_true c (r : grow) : on c r = true <-> chrom r = c.
Proof. unfold on. apply String.eqb_eq. Qed.

Lemma on_false c (r : grow) : on c r = false <-> chrom r <> c.
Proof. unfold on. apply String.eqb_neq. Qed.

Lemma chroms_of_in c (t : list grow) : In c (chroms_of t) <-> exists r, In r t /\ chrom r = c.
Proof.
  unfold chroms_of. rewrite uniq_in, in_map_iff. split; intros [r [H1 H2]]; exists r; auto.
Qed.

(* flat_map over keyed items: the part on chromosome c *)
Lemma filter_on_flat_map {X} (f : X -> list grow) (key : X -> string) c l :
  (forall x r, In r (f x) -> chrom r = key x) ->
  filter (on c) (flat_map f l) = flat_map f (filter (fun x => String.eqb (key x) c) l).
Proof.
  intros H. induction l as [|a l IH]; [reflexivity|]. cbn [flat_map filter]. rewrite filter_app, IH.
  destruct (String.eqb (key a) c) eqn:E.
  - cbn [flat_map]. f_equal. apply filter_all_true. intros r Hr. apply on_true.
    rewrite (H a r Hr). apply String.eqb_eq. exact E.
  - rewrite filter_all_false; [reflexivity|]. intros r Hr. apply on_false.
    rewrite (H a r Hr). apply String.eqb_neq. exact E.
Qed.

Lemma filter_on_flat_map_rows (f : grow -> list grow) c l :
  (forall x r, In r (f x) -> chrom r = chrom x) ->
  filter (on c) (flat_map f l) = flat_map f (filter (on c) l).
Proof. intros H. exact (filter_on_flat_map f chrom c l H). Qed.

(* flat_map over a duplicate-free list of chromosome names *)
Lemma filter_on_flat_map_chroms (F : string -> list grow) c (order : list string) :
  NoDup order -> (forall c' r, In r (F c') -> chrom r = c') ->
  filter (on c) (flat_map F order) = if in_dec string_dec c order then F c else [].
Proof.
  intros Hn HF. rewrite (filter_on_flat_map F (fun c' => c') c order HF), (filter_eqb_nodup c order Hn).
  destruct (in_dec string_dec c order); cbn [flat_map]; [apply app_nil_r | reflexivity].
Qed.

Lemma filter_on_in c (t : list grow) r : In r (filter (on c) t) <-> In r t /\ chrom r = c.
Proof. rewrite filter_In, on_true. reflexivity. Qed.

Lemma filter_on_empty c (t : list grow) : ~ In c (chroms_of t) -> filter (on c) t = [].
Proof.
  intros H. apply filter_all_false. intros r Hr. apply on_false. intros E. apply H.
  apply chroms_of_in. exists r; auto.
Qed.

Lemma valid_by_chrom (t : list grow) : (forall c, valid (filter (on c) t)) -> valid t.
Proof.
  intros H. unfold valid. rewrite Forall_forall. intros r Hr.
  specialize (H (chrom r)). unfold valid in H. rewrite Forall_forall in H. apply H.
  apply filter_on_in. auto.
Qed.

(* ---- merge ---------------------------------------------------------------------- *)

Lemma squash_chrom (g : list grow) q : In q (squash comb_cg g) -> exists f, hd_opt g = Some f /\ chrom q = chrom f.
Proof.
  destruct g as [|f g']; [intros []|]. destruct g' as [|f2 g'']; cbn [squash hd_opt].
  - intros [<-|[]]. exists f; auto.
  - intros [<-|[]]. exists f. split; [reflexivity|]. reflexivity.
Qed.

Lemma merge_slow_chrom bp (u : list grow) c :
  0 <= bp -> (forall r, In r u -> chrom r = c) ->
  forall q, In q (merge_slow comb_cg bp u) -> chrom q = c.
Proof.
  intros Hbp Hu q Hq. destruct u as [|r0 u0] eqn:Eu; [destruct Hq|]. rewrite <- Eu in *.
  assert (Hne : u <> []) by (rewrite Eu; discriminate).
  destruct (groups_struct bp u Hbp Hne) as (M & gs & Eg & _ & Ec).
  unfold merge_slow in Hq. rewrite Eg in Hq. apply in_flat_map in Hq as [g [Hg Hq]].
  apply squash_chrom in Hq as [f [Hf ->]]. apply Hu.
  eapply Permutation_in; [apply sort_rows_perm|]. rewrite <- Ec. apply in_concat. exists g. split; [exact Hg|].
  destruct g; [discriminate|]. cbn in Hf. injection Hf as ->. left; reflexivity.
Qed.

Lemma merged_chrom_order_nodup (t : list grow) : NoDup (merged_chrom_order t).
Proof.
  unfold merged_chrom_order.
  eapply Permutation_NoDup; [apply stable_sort_perm|].
  eapply Permutation_NoDup; [apply stable_sort_perm|]. apply uniq_nodup.
Qed.

Lemma merged_chrom_order_in (t : list grow) c : In c (merged_chrom_order t) <-> In c (chroms_of t).
Proof.
  unfold merged_chrom_order. split; intros H.
  - eapply Permutation_in in H; [|symmetry; apply stable_sort_perm].
    eapply Permutation_in in H; [|symmetry; apply stable_sort_perm]. exact H.
  - eapply Permutation_in; [apply stable_sort_perm|]. eapply Permutation_in; [apply stable_sort_perm|]. exact H.
Qed.

Lemma merge_sel_nil bp b : merge_sel comb_cg bp b (@nil grow) = [].
Proof. reflexivity. Qed.

Lemma gmerge_proj bp (t : list grow) c : 0 <= bp ->
  filter (on c) (gmerge bp t) = merge_sel comb_cg bp (all_gaps bp t) (filter (on c) t).
Proof.
  intros Hbp. unfold gmerge. destruct t as [|r0 t0] eqn:Et; [reflexivity|]. rewrite <- Et.
  destruct (all_gaps bp t) eqn:Eg.
  - unfold merge_sel. destruct (filter (on c) t); reflexivity.
  - rewrite filter_on_flat_map_chroms.
    + destruct (in_dec string_dec c (merged_chrom_order t)) as [Hin|Hno].
      * unfold merge_sel. destruct (filter (on c) t) eqn:Ef; reflexivity.
      * rewrite filter_on_empty; [reflexivity|]. intros H. apply Hno. apply merged_chrom_order_in. exact H.
    + apply merged_chrom_order_nodup.
    + intros c' r Hr. eapply merge_slow_chrom; [exact Hbp | | exact Hr].
      intros x Hx. apply filter_on_in in Hx. tauto.
Qed.

(* ---- subdivide --------------------------------------------------------------------- *)

Lemma split_row_q_pay {A} avg mn cut (r b : @row A) : In b (split_row_q avg mn cut r) -> pay b = pay r.
Proof.
  unfold split_row_q. destruct (hi r - lo r <? mn); [intros []|].
  destruct (nbins_q avg (hi r - lo r) =? 1); [intros [<-|[]]; reflexivity|].
  intros Hb.
  destruct (bins_from_spec (cut (hi r - lo r) (nbins_q avg (hi r - lo r))) (lo r) (hi r) (pay r)
              (Z.to_nat (nbins_q avg (hi r - lo r) - 1)) 1 (lo r)) as (_ & _ & Hp).
  rewrite Forall_forall in Hp. apply Hp. exact Hb.
Qed.

Lemma gsubdivide_proj avg mn cut (t : list grow) c :
  filter (on c) (gsubdivide avg mn cut t) =
  flat_map (split_row_q avg mn cut)
           (merge_sel comb_cg Gen.IvDefaults.merge_bp_default (all_gaps Gen.IvDefaults.merge_bp_default t)
                      (filter (on c) t)).
Proof.
  unfold gsubdivide.
  rewrite filter_on_flat_map_rows.
  - rewrite gmerge_proj; [reflexivity|].
    unfold Gen.IvDefaults.merge_bp_default. lia.
  - intros x r Hr. unfold chrom. rewrite (split_row_q_pay _ _ _ _ _ Hr). reflexivity.
Qed.

(* ---- subtract ---------------------------------------------------------------------- *)

Lemma zip_pieces_pay {A} (p : A) ss es q : In q (zip_pieces p ss es) -> pay q = p.
Proof. unfold zip_pieces. intros H. apply in_map_iff in H as [se [<- _]]. reflexivity. Qed.

Lemma subtract_row_pay {A B} (k : @row A) (ex : list (@row B)) q : In q (subtract_row k ex) -> pay q = pay k.
Proof.
  unfold subtract_row. destruct ex as [|x ex']; [intros [<-|[]]; reflexivity|].
  repeat match goal with |- context [if ?b then _ else _] => destruct b end;
    try (apply zip_pieces_pay); intros [].
Qed.

Lemma subtract_pay {A B} (a : list (@row A)) (b : list (@row B)) q :
  In q (subtract a b) -> exists k, In k a /\ pay q = pay k.
Proof.
  unfold subtract. intros H. apply in_flat_map in H as [k [Hk Hq]]. exists k. split; [exact Hk|].
  eapply subtract_row_pay. exact Hq.
Qed.

Lemma subtract_nil_r {A B} (a : list (@row A)) : subtract a (@nil (@row B)) = a.
Proof. unfold subtract. cbn [filter subtract_row]. apply flat_map_single. Qed.

Lemma gsubtract_proj (a b : list grow) c :
  filter (on c) (gsubtract a b) = subtract (filter (on c) a) (filter (on c) b).
Proof.
  unfold gsubtract. destruct b as [|b0 b'] eqn:Eb.
  - cbn [filter]. symmetry. apply (@subtract_nil_r gpay gpay).
  - rewrite <- Eb. rewrite filter_on_flat_map_chroms.
    + destruct (in_dec string_dec c (chroms_of a)) as [Hin|Hno]; [reflexivity|].
      rewrite (filter_on_empty c a Hno). reflexivity.
    + apply uniq_nodup.
    + intros c' r Hr. apply subtract_pay in Hr as [k [Hk Hp]]. apply filter_on_in in Hk as [_ Hk].
      unfold chrom in *. rewrite Hp. exact Hk.
Qed.

(* ---- resize ------------------------------------------------------------------------ *)

Lemma gresize_proj bp (t : list grow) c : filter (on c) (gresize bp t) = resize bp None (filter (on c) t).
Proof.
  unfold gresize, resize.
  assert (Hm : forall f : grow -> grow, (forall x, pay (f x) = pay x) ->
               filter (on c) (map f t) = map f (filter (on c) t)).
  { intros f Hf. apply filter_map_comm. intros x. unfold on, chrom. rewrite Hf. reflexivity. }
  destruct (bp <? 0).
  - rewrite filter_filter_comm. f_equal. apply Hm. intros x; reflexivity.
  - apply Hm. intros x; reflexivity.
Qed.

(* ---- set_gene ---------------------------------------------------------------------- *)

Lemma set_gene_proj g (t : list grow) c : filter (on c) (map (set_gene g) t) = map (set_gene g) (filter (on c) t).
Proof. apply filter_map_comm. intros x. reflexivity. Qed.

Lemma covers_set_gene g (t : list grow) x : covers (map (set_gene g) t) x <-> covers t x.
Proof.
  unfold covers. split.
  - intros [r [Hr Hx]]. apply in_map_iff in Hr as [r0 [<- Hr0]]. exists r0. split; [exact Hr0 | exact Hx].
  - intros [r [Hr Hx]]. exists (set_gene g r). split; [apply in_map; exact Hr | exact Hx].
Qed.
