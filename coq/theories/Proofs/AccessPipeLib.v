(* Library for the C13 pipeline: a strict-separation strengthening of the C06 piece lemmas
   (Proofs/IvSubtract.v proves the pieces of one row sorted and disjoint; with exclude rows
   of positive length they are separated by at least one base, and pieces of different
   keepers inherit the keepers' separation), and the bitmap reading of join's "bridged". *)
From CNV Require Import Base.Prelude Model.IvRow Model.Intervals Model.Access Model.AccessPipe
  Spec.Regions Spec.Cover Spec.Runs Proofs.IvCover Proofs.IvSubtract Proofs.AccessJoin.

Notation urow := (@row unit).

Lemma of_rows_app (l1 l2 : list urow) : of_rows (l1 ++ l2) = of_rows l1 ++ of_rows l2.
Proof. apply map_app. Qed.

Lemma sep_from_lower m p l x : 0 <= m -> sep_from m p l -> cov l x -> p + m <= x.
Proof.
  intros Hm. revert p. induction l as [|[a b] t IH]; intros p Hs Hc.
  - now apply cov_nil in Hc.
  - cbn in Hs. destruct Hs as (H1 & H2 & H3). apply cov_cons in Hc as [Hc|Hc]; [lia|].
    specialize (IH b H3 Hc). lia.
Qed.

(* the sweep of one keeper [cur, e) over exclude rows of positive length: pieces are
   non-empty and strictly separated, and can be followed by anything separated from e *)
Lemma sweep_sep_app (ex : list urow) : forall cur c0 e rest,
  Forall (fun x => lo x < hi x) ex -> Forall (fun x => lo x < e) ex ->
  c0 + 1 <= cur -> c0 <= e -> sep_from 1 e rest ->
  sep_from 1 c0 (of_rows (sweep tt cur ex e) ++ rest).
Proof.
  induction ex as [|x t IH]; intros cur c0 e rest Hv Hb Hc Hce Hr.
  - cbn [sweep]. unfold piece. destruct (cur <? e) eqn:E; cbn.
    + repeat split; [lia|lia|exact Hr].
    + eapply sep_from_weaken; [|exact Hr]. lia.
  - inversion Hv as [|? ? Hxv Hv']; inversion Hb as [|? ? Hxb Hb']; subst.
    cbn [sweep]. rewrite of_rows_app, <- app_assoc. unfold piece.
    destruct (cur <? lo x) eqn:E; cbn [of_rows map app].
    + cbn [sep_from lo hi fst snd]. repeat split; [lia|lia|].
      apply IH; auto; lia.
    + apply IH; auto; lia.
Qed.

Definition excl_valid (ex : list (Z * Z)) : Prop := Forall (fun p => fst p < snd p) ex.

Lemma valid_to_rows ex : excl_valid ex -> valid (to_rows ex).
Proof.
  unfold excl_valid, valid, to_rows. intros H. apply Forall_map.
  eapply Forall_impl; [|exact H]. cbn. auto.
Qed.

Lemma exclude_one_cons a b t ex :
  exclude_one ((a, b) :: t) ex =
  of_rows (subtract_row ((a, b, tt) : urow) (filter (overlaps a b) (to_rows ex))) ++ exclude_one t ex.
Proof. unfold exclude_one, subtract. cbn [to_rows map flat_map]. now rewrite of_rows_app. Qed.

(* (a) one exclude table keeps the region list well-formed for join *)
Theorem exclude_one_wf ex : excl_valid ex -> forall acc p,
  wf_regions p acc -> wf_regions p (exclude_one acc ex).
Proof.
  intros Hv. induction acc as [|[a b] t IH]; intros p Hwf.
  - exact I.
  - cbn in Hwf. destruct Hwf as (H1 & H2 & H3).
    rewrite exclude_one_cons. specialize (IH b H3).
    set (k := ((a, b, tt) : urow)).
    change (overlaps a b) with (@overlaps unit (lo k) (hi k)).
    destruct (filter (overlaps (lo k) (hi k)) (to_rows ex)) as [|x f] eqn:Ef.
    + cbn. repeat split; auto.
    + pose proof (ex_ok_filter k (to_rows ex)) as Hok. rewrite Ef in Hok.
      rewrite subtract_row_is_sweep by (auto; discriminate).
      assert (Hvf : valid (x :: f)).
      { rewrite <- Ef. apply valid_filter, valid_to_rows, Hv. }
      apply sweep_sep_app; [exact Hvf| |cbn; lia|cbn; lia|exact IH].
      eapply Forall_impl; [|exact Hok]. cbn. tauto.
Qed.

Theorem exclude_all_wf excls : Forall excl_valid excls -> forall runs p,
  wf_regions p runs -> wf_regions p (exclude_all runs excls).
Proof.
  induction excls as [|ex t IH]; intros Hv runs p Hwf; cbn [exclude_all fold_left]; [exact Hwf|].
  inversion Hv; subst.
  change (fold_left exclude_one t (exclude_one runs ex)) with (exclude_all (exclude_one runs ex) t).
  apply IH; auto. apply exclude_one_wf; auto.
Qed.

(* ---- bridged gaps, read off the bitmap ------------------------------------------------- *)

Lemma small_gap_ext (K K' : Z -> Prop) g x :
  (forall y, K y <-> K' y) -> small_gap K g x -> small_gap K' g x.
Proof.
  intros He (a & b & H1 & H2 & H3 & H4 & H5). exists a, b.
  repeat split; try lia; try (now apply He).
  intros y Hy HK. apply (H5 y Hy). now apply He.
Qed.

Lemma small_gap_nonpos K g x : g <= 0 -> ~ small_gap K g x.
Proof. intros Hg (a & b & H1 & H2 & _). lia. Qed.

Lemma bridged_small_gap g : forall rest a0 b0 x,
  a0 < b0 -> sep_from 1 b0 rest ->
  (bridged g b0 rest x <-> small_gap (cov ((a0, b0) :: rest)) g x).
Proof.
  induction rest as [|[s e] t IH]; intros a0 b0 x H0 Hs.
  - split; [intros H; now apply bridged_nil in H|].
    intros (a & b & H1 & H2 & H3 & H4 & H5). exfalso.
    apply cov_cons in H3 as [H3|H3]; [|now apply cov_nil in H3].
    apply cov_cons in H4 as [H4|H4]; [|now apply cov_nil in H4].
    apply (H5 x); [lia|]. apply cov_cons. left. lia.
  - cbn in Hs. destruct Hs as (Hs1 & Hs2 & Hs3).
    assert (Hsep : sep_from 1 (s - 1) ((s, e) :: t)) by (cbn; repeat split; auto; lia).
    rewrite bridged_cons. split.
    + intros [[Hg Hx]|Hb].
      * exists b0, s. repeat split; try lia.
        -- apply cov_cons. left. lia.
        -- apply cov_cons. right. apply cov_cons. left. lia.
        -- intros y Hy Hc. apply cov_cons in Hc as [Hc|Hc]; [lia|].
           pose proof (sep_from_lower 1 _ _ y ltac:(lia) Hsep Hc). lia.
      * apply (IH s e x Hs2 Hs3) in Hb.
        destruct Hb as (a & b & H1 & H2 & H3 & H4 & H5). exists a, b.
        repeat split; try lia.
        -- apply cov_cons. now right.
        -- apply cov_cons. now right.
        -- intros y Hy Hc. apply cov_cons in Hc as [Hc|Hc]; [|now apply (H5 y)].
           pose proof (sep_from_lower 1 _ _ (a - 1) ltac:(lia) Hsep H3). cbn in Hc. lia.
    + intros (a & b & H1 & H2 & H3 & H4 & H5).
      apply cov_cons in H3 as [H3|H3].
      * (* the gap starts right after the first region *)
        cbn in H3.
        assert (Ha : a = b0).
        { destruct (Z_lt_ge_dec a b0) as [Hlt|Hge]; [|lia].
          exfalso. apply (H5 a); [lia|]. apply cov_cons. left. cbn. lia. }
        subst a.
        apply cov_cons in H4 as [H4|H4]; [cbn in H4; lia|].
        pose proof (sep_from_lower 1 _ _ b ltac:(lia) Hsep H4) as Hb.
        assert (Hbs : b = s).
        { destruct (Z_lt_ge_dec s b) as [Hlt|Hge]; [|lia].
          exfalso. apply (H5 s); [lia|]. apply cov_cons. right. apply cov_cons. left. cbn. lia. }
        subst b. left. lia.
      * right. apply (IH s e x Hs2 Hs3).
        pose proof (sep_from_lower 1 _ _ (a - 1) ltac:(lia) Hsep H3) as Ha.
        exists a, b. repeat split; try lia; auto.
        -- apply cov_cons in H4 as [H4|H4]; [cbn in H4; lia|exact H4].
        -- intros y Hy Hc. apply (H5 y Hy). apply cov_cons. now right.
Qed.
