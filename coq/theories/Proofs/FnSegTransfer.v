(* C03 source tie of transfer_fields' aggregation loop: ONE ITERATION of

       for i, bin_idx in enumerate(iter_slices(cdata, segments.data, "outer", True)):
           if bin_weights is not None:
               seg_wt = bin_weights[bin_idx].sum()
               if seg_wt > 0: seg_dp = np.average(bin_depths[bin_idx], weights=bin_weights[bin_idx])
               else:          seg_dp = 0.0
           else: ...
           subgenes = [g for g in pd.unique(bin_genes[bin_idx]) if g not in ignore]
           seg_gn = ",".join(subgenes) if subgenes else "-"
           seg_genes[i] = seg_gn; seg_weights[i] = seg_wt; seg_depths[i] = seg_dp

   is regenerated from the Python source on every run as Gen/FnSegTransfer.v (fn_transfer_step: the
   three values stored at row i, as a function of the selection's aggregates).  Here: with the
   aggregates of Model/Segment.v (summed weight, weighted average, kept gene names in order) the
   generated step IS what `fill` is given for that row: gene_field, the summed weight, agg_depth. *)
From CNV Require Import Base.Prelude Base.Str Base.QNum Gen.FnSegTransfer Model.Segment.

Local Open Scope Q_scope.

Definition kept_genes (names : list string) : list string :=
  filter (fun g => negb (mem_string g ignored_names)) (uniq [] names).

Lemma source_transfer_gene i hw ws wm bc pm names :
  fst (fst (fn_transfer_step i hw ws wm bc pm (kept_genes names))) = gene_field names.
Proof.
  unfold fn_transfer_step, gene_field, kept_genes.
  destruct hw; cbn [fst snd];
    destruct (filter _ (uniq [] names)); reflexivity.
Qed.

Lemma Qltb_negb_le (a b : Q) : Qltb a b = negb (Qle_bool b a).
Proof.
  unfold Qltb. destruct (Qle_bool b a) eqn:E; cbn [negb].
  - apply Qle_bool_iff in E. destruct (a ?= b) eqn:C; try reflexivity.
    apply Qlt_alt in C. exfalso. apply (Qlt_irrefl a). eapply Qlt_le_trans; eassumption.
  - destruct (a ?= b) eqn:C; try reflexivity; exfalso.
    + apply Qeq_alt in C. assert (H : b <= a) by (rewrite C; apply Qle_refl).
      apply Qle_bool_iff in H. congruence.
    + apply Qgt_alt in C. assert (H : b <= a) by (apply Qlt_le_weak; exact C).
      apply Qle_bool_iff in H. congruence.
Qed.

(* weighted table: the selection's summed weight s and weighted mean qdot/s *)
Lemma source_transfer_weighted i bc pm (sp : list bin) s names :
  sum_weights sp = Some s ->
  fn_transfer_step i true s (Qred (qdot (map b_depth sp) (map wt0 sp) / s)) bc pm (kept_genes names)
  = (gene_field names, s, agg_depth sp).
Proof.
  intros Hs.
  pose proof (source_transfer_gene i true s (Qred (qdot (map b_depth sp) (map wt0 sp) / s)) bc pm names) as Hg.
  unfold fn_transfer_step in *. cbn [fst snd] in *.
  unfold agg_depth. rewrite Hs. rewrite Qltb_negb_le.
  change (inject_Z 0) with 0 in *.
  destruct (Qle_bool s 0); cbn [negb fst snd] in *; rewrite Hg; reflexivity.
Qed.

(* a table without a weight column: every bin counts 1, plain mean of the depths *)
Lemma source_transfer_unweighted i ws wm bc pm names :
  fn_transfer_step i false ws wm bc pm (kept_genes names) = (gene_field names, inject_Z bc, pm).
Proof.
  pose proof (source_transfer_gene i false ws wm bc pm names) as Hg.
  unfold fn_transfer_step in *. cbn [fst snd] in *. rewrite Hg. reflexivity.
Qed.
