(* List / string lemmas for the C20 proofs: column-wise helpers of Model/Export.v seen
   row-wise, mem_string / list_eqb reflection, chromosome ids of the SEG writer. *)
From CNV Require Import Base.Prelude Base.Str Model.Decimal Model.Export Spec.Export.
From CNV Require Model.Formats.

Local Open Scope Z_scope.

(* ---------------------------------------------------------------- map2 / select *)

Lemma map2_map_map {A B C D} (f : B -> C -> D) (g : A -> B) (h : A -> C) (l : list A) :
  map2 f (map g l) (map h l) = map (fun a => f (g a) (h a)) l.
Proof. induction l as [|a t IH]; cbn [map map2]; [reflexivity | now rewrite IH]. Qed.

Lemma map2_id_map {A C D} (f : A -> C -> D) (h : A -> C) (l : list A) :
  map2 f l (map h l) = map (fun a => f a (h a)) l.
Proof. induction l as [|a t IH]; cbn [map map2]; [reflexivity | now rewrite IH]. Qed.

Lemma select_map_map {A B} (p : A -> bool) (f : A -> B) (l : list A) :
  select (map p l) (map f l) = map f (filter p l).
Proof.
  induction l as [|a t IH]; cbn [map select filter]; [reflexivity|].
  destruct (p a); cbn [map]; now rewrite IH.
Qed.

Lemma filter_ext_in' {A} (p q : A -> bool) (l : list A) :
  (forall a, In a l -> p a = q a) -> filter p l = filter q l.
Proof.
  induction l as [|a t IH]; intro H; cbn [filter]; [reflexivity|].
  rewrite (H a (or_introl eq_refl)), IH; [reflexivity|]. intros b Hb. apply H. now right.
Qed.

Lemma filter_filter {A} (p q : A -> bool) (l : list A) :
  filter p (filter q l) = filter (fun a => q a && p a) l.
Proof.
  induction l as [|a t IH]; cbn [filter]; [reflexivity|].
  destruct (q a); cbn [filter andb]; [destruct (p a)|]; now rewrite IH.
Qed.

(* ---------------------------------------------------------------- strings *)

Lemma mem_string_In s l : mem_string s l = true <-> In s l.
Proof.
  induction l as [|x t IH]; cbn [mem_string In]; [split; [discriminate | tauto]|].
  rewrite orb_true_iff, String.eqb_eq, IH. split; intros [H|H]; auto.
Qed.

Lemma mem_string_false s l : mem_string s l = false <-> ~ In s l.
Proof.
  rewrite <- mem_string_In. destruct (mem_string s l); split; intro H; try reflexivity; try discriminate.
  exfalso. now apply H.
Qed.

Lemma list_eqb_eq (a b : list string) : list_eqb String.eqb a b = true <-> a = b.
Proof.
  revert b. induction a as [|x a IH]; intros [|y b]; cbn [list_eqb]; try (split; [discriminate | discriminate]).
  - split; reflexivity.
  - rewrite andb_true_iff, String.eqb_eq, IH. split; [intros [-> ->]; reflexivity | intro H; inversion H; auto].
Qed.

(* ---------------------------------------------------------------- distinct names, ids *)

Lemma distinct_names_uniq seen l :
  Formats.distinct_names seen l = filter (fun y => negb (mem_string y seen)) (uniq l).
Proof.
  revert seen. induction l as [|x t IH]; intro seen; cbn [Formats.distinct_names uniq filter]; [reflexivity|].
  destruct (mem_string x seen) eqn:M; cbn [negb].
  - rewrite IH, filter_filter. apply filter_ext_in'. intros a _.
    destruct (String.eqb a x) eqn:E; cbn [negb andb]; [|reflexivity].
    apply String.eqb_eq in E. subst a. now rewrite M.
  - f_equal. rewrite IH, filter_filter. apply filter_ext_in'. intros a _.
    cbn [mem_string]. destruct (String.eqb a x); cbn [negb andb orb]; reflexivity.
Qed.

Lemma distinct_names_nil l : Formats.distinct_names [] l = uniq l.
Proof.
  rewrite distinct_names_uniq. cbn [mem_string negb].
  induction (uniq l) as [|a t IH]; cbn [filter]; [reflexivity | now rewrite IH].
Qed.

Lemma uniq_NoDup l : NoDup (uniq l).
Proof.
  induction l as [|x t IH]; cbn [uniq]; constructor.
  - intro H. apply filter_In in H. destruct H as [_ H]. now rewrite String.eqb_refl in H.
  - now apply NoDup_filter.
Qed.

Lemma first_index_absent c names i : ~ In c names -> first_index c names i = None.
Proof.
  revert i. induction names as [|x t IH]; intros i H; cbn [first_index]; [reflexivity|].
  destruct (String.eqb x c) eqn:E.
  - apply String.eqb_eq in E. exfalso. apply H. now left.
  - apply IH. intro K. apply H. now right.
Qed.

(* create_chrom_ids skips a name that already reads as its id: the looked-up text is the same *)
Lemma lookup_chrom_ids c names i :
  NoDup names ->
  Formats.lookup c (Formats.chrom_ids_aux names i)
  = match first_index c names i with Some j => print_Z j | None => c end.
Proof.
  revert i. induction names as [|x t IH]; intros i ND; cbn [Formats.chrom_ids_aux first_index Formats.lookup];
    [reflexivity|].
  inversion ND as [|? ? Hx ND']; subst.
  destruct (String.eqb (print_Z i) x) eqn:P; cbn [app].
  - rewrite (IH (i + 1) ND'). destruct (String.eqb x c) eqn:E; [|reflexivity].
    apply String.eqb_eq in E, P. subst c.
    rewrite (first_index_absent x t (i + 1) Hx). now symmetry.
  - cbn [Formats.lookup]. destruct (String.eqb x c); [reflexivity|]. apply (IH (i + 1) ND').
Qed.

Lemma removelast_length_c20 {A} (l : list A) : length (removelast l) = (length l - 1)%nat.
Proof.
  induction l as [|a [|b t] IH]; cbn [removelast length] in *; try reflexivity. rewrite IH. lia.
Qed.

Lemma zip4_length {A B C D} (a : list A) (b : list B) (x : list C) (d : list D) n :
  length a = n -> length b = n -> length x = n -> length d = n -> length (zip4 a b x d) = n.
Proof.
  revert b x d n. induction a as [|? a IH]; intros [|? b] [|? x] [|? d] n Ha Hb Hx Hd; cbn in *; subst;
    try discriminate; try reflexivity.
  f_equal. apply IH; try reflexivity; congruence.
Qed.
Global Opaque zip4.

Lemma NoDup_app_snoc {A} (l : list A) (x : A) : NoDup l /\ ~ In x l -> NoDup (l ++ [x]).
Proof.
  intros [ND H]. induction l as [|a t IH]; cbn [app]; [constructor; [intros []|constructor]|].
  inversion ND as [|? ? Ha NDt]; subst. constructor.
  - intro K. apply in_app_or in K. destruct K as [K|[K|[]]]; [now apply Ha|]. subst. apply H. now left.
  - apply IH; [exact NDt|]. intro K. apply H. now right.
Qed.

(* ---------------------------------------------------------------- seq *)

Lemma map_seq_shift {A} (f : nat -> A) (n : nat) :
  map f (seq 1 n) = map (fun i => f (S i)) (seq 0 n).
Proof. rewrite <- seq_shift, map_map. reflexivity. Qed.
