(* Proofs for C18, second half: germline-heterozygous selection, mirrored median
   per range, TumorBoost, purity rescaling. *)
From CNV Require Import Base.Prelude Model.Vcf Model.VBaf Spec.Vcf Proofs.VcfLib.
From Coq Require Import Qabs Lqa.
Local Open Scope Q_scope.

(* ---- mirror ------------------------------------------------------------- *)

Lemma qabs_Qabs a : qabs a == Qabs a.
Proof.
  destruct (qabs_cases a) as [[H E]|[H E]]; rewrite E; symmetry.
  - apply Qabs_pos, H.
  - apply Qabs_neg. lra.
Qed.

Lemma mirror_eq above v : mirror above v == mirror_spec above v.
Proof.
  unfold mirror, mirror_spec, VcfDefaults.mirror_center.
  destruct above.
  - rewrite qadd_eq, qabs_Qabs, qsub_eq. reflexivity.
  - rewrite qsub_eq, qabs_Qabs, qsub_eq. reflexivity.
Qed.

Lemma mirror_above_ge v : 1 # 2 <= mirror true v.
Proof.
  rewrite mirror_eq. unfold mirror_spec.
  pose proof (Qabs_nonneg (v - (1 # 2))). lra.
Qed.

Lemma mirror_below_le v : mirror false v <= 1 # 2.
Proof.
  rewrite mirror_eq. unfold mirror_spec.
  pose proof (Qabs_nonneg (v - (1 # 2))). lra.
Qed.

Lemma mirror_unit above v : 0 <= v -> v <= 1 -> 0 <= mirror above v /\ mirror above v <= 1.
Proof.
  intros H0 H1. rewrite mirror_eq. unfold mirror_spec.
  assert (Ha : Qabs (v - (1 # 2)) <= 1 # 2) by (apply Qabs_Qle_condition; split; lra).
  pose proof (Qabs_nonneg (v - (1 # 2))).
  destruct above; split; lra.
Qed.

(* mirroring does nothing to a value that is already on the requested side *)
Lemma mirror_fix_above v : 1 # 2 <= v -> mirror true v == v.
Proof.
  intros H. rewrite mirror_eq. unfold mirror_spec. rewrite Qabs_pos; lra.
Qed.

Lemma mirror_fix_below v : v <= 1 # 2 -> mirror false v == v.
Proof.
  intros H. rewrite mirror_eq. unfold mirror_spec. rewrite Qabs_neg; lra.
Qed.

(* ---- median -------------------------------------------------------------- *)

Lemma median_value_is_median l : l <> [] -> is_median (median_value l) l.
Proof.
  intros Hne. exists (qsort l).
  assert (Hlen : length (qsort l) = length l) by apply isort_length.
  split; [apply qsort_perm|]. split; [apply qsort_sorted|].
  cbv zeta. rewrite Hlen. unfold median_value. split; intros Hev; rewrite Hev.
  - reflexivity.
  - rewrite qdiv_eq, qadd_eq. reflexivity.
Qed.

(* ---- series2value --------------------------------------------------------- *)

Lemma finite_of_Fin qs : finite_of (map Fin qs) = qs.
Proof. induction qs as [|q t IH]; cbn; [reflexivity | now rewrite IH]. Qed.

Lemma s2v_none ah : series2value ah [] = XNaN.
Proof. reflexivity. Qed.

Lemma s2v_single ah x : series2value ah [x] = x.
Proof. reflexivity. Qed.

Lemma s2v_many ah qs :
  (2 <= length qs)%nat ->
  series2value ah (map Fin qs) = Fin (median_value (map (mirror (direction ah qs)) qs)).
Proof.
  intros Hl. destruct qs as [|a [|b t]]; cbn [length] in Hl; try lia.
  change (map Fin (a :: b :: t)) with (Fin a :: Fin b :: map Fin t).
  unfold series2value.
  change (Fin a :: Fin b :: map Fin t) with (map Fin (a :: b :: t)).
  rewrite finite_of_Fin.
  rewrite median_spec; [reflexivity | discriminate].
Qed.

(* C18_baf: two or more hits *)
Lemma baf_many ah qs :
  (2 <= length qs)%nat ->
  exists m, series2value ah (map Fin qs) = Fin m /\
    is_median m (map (mirror (direction ah qs)) qs) /\
    (ah = Some true -> 1 # 2 <= m) /\
    (ah = Some false -> m <= 1 # 2) /\
    (Forall (fun v => 0 <= v /\ v <= 1) qs -> 0 <= m /\ m <= 1).
Proof.
  intros Hl. exists (median_value (map (mirror (direction ah qs)) qs)).
  assert (Hne : map (mirror (direction ah qs)) qs <> []).
  { destruct qs; [cbn in Hl; lia | discriminate]. }
  split; [apply s2v_many, Hl|]. split; [apply median_value_is_median, Hne|].
  split; [|split].
  - intros ->. cbn [direction]. apply median_value_ge; [exact Hne|].
    apply Forall_forall. intros x Hx. apply in_map_iff in Hx as (v & <- & _). apply mirror_above_ge.
  - intros ->. cbn [direction]. apply median_value_le; [exact Hne|].
    apply Forall_forall. intros x Hx. apply in_map_iff in Hx as (v & <- & _). apply mirror_below_le.
  - intros Hf. split.
    + apply median_value_ge; [exact Hne|]. apply Forall_forall. intros x Hx.
      apply in_map_iff in Hx as (v & <- & Hv). rewrite Forall_forall in Hf.
      destruct (Hf v Hv) as [A B]. apply (mirror_unit _ v A B).
    + apply median_value_le; [exact Hne|]. apply Forall_forall. intros x Hx.
      apply in_map_iff in Hx as (v & <- & Hv). rewrite Forall_forall in Hf.
      destruct (Hf v Hv) as [A B]. apply (mirror_unit _ v A B).
Qed.

(* direction when unspecified: that of the majority, i.e. median > 1/2 *)
Lemma direction_none qs : qs <> [] -> direction None qs = Qlt_bool (1 # 2) (median_value qs).
Proof.
  intros Hne. unfold direction, majority_above. rewrite median_spec by exact Hne. reflexivity.
Qed.

(* a single hit is returned as it is: on the right side only if it already was *)
Lemma baf_single_refuted :
  exists x : Q, series2value (Some true) [Fin x] = Fin x /\ x < 1 # 2 /\ ~ mirror true x == x.
Proof.
  exists (3 # 10). split; [reflexivity|]. split; [reflexivity|].
  intros H. vm_compute in H. discriminate.
Qed.

Lemma baf_single_majority x :
  series2value None [Fin x] = Fin x /\ mirror (direction None [x]) x == x.
Proof.
  split; [reflexivity|].
  rewrite direction_none by discriminate.
  assert (Hm : median_value [x] = x) by reflexivity. rewrite Hm.
  destruct (Qlt_bool (1 # 2) x) eqn:E.
  - apply Qlt_bool_iff in E. apply mirror_fix_above. lra.
  - apply Qlt_bool_false in E. apply mirror_fix_below, E.
Qed.

(* shape of the per-range vector *)
Lemma baf_by_ranges_shape paired rows ranges ah :
  ranges <> [] ->
  baf_by_ranges paired rows ranges ah false =
    Some (map (fun rg => series2value ah (hits_of (heterozygous rows) rg)) ranges).
Proof.
  intros Hr. unfold baf_by_ranges. rewrite andb_false_l.
  destruct ranges; [congruence|]. reflexivity.
Qed.

(* no variant at all: every range is missing *)
Lemma baf_by_ranges_empty paired ranges ah boost :
  ranges <> [] -> baf_by_ranges paired [] ranges ah boost = Some (map (fun _ => XNaN) ranges).
Proof.
  intros Hr. unfold baf_by_ranges. destruct ranges as [|r t]; [congruence|].
  assert (E : (if boost && paired then boost_assign (heterozygous []) else heterozygous []) = []).
  { destruct (boost && paired); reflexivity. }
  rewrite E. reflexivity.
Qed.

Lemma hits_of_spec rows rg :
  hits_of rows rg = map (fun lr => g_freq (v_t (snd lr))) (filter (fun lr => overlaps rg (snd lr)) rows).
Proof. reflexivity. Qed.

Lemma hits_none rows rg ah :
  (forall lr, In lr rows -> overlaps rg (snd lr) = false) -> series2value ah (hits_of rows rg) = XNaN.
Proof.
  intros H. unfold hits_of.
  assert (E : filter (fun lr => overlaps rg (snd lr)) rows = []).
  { induction rows as [|a t IH]; [reflexivity|]. cbn. rewrite (H a (or_introl eq_refl)).
    apply IH. intros lr Hl. apply H. now right. }
  rewrite E. reflexivity.
Qed.

(* ---- TumorBoost ----------------------------------------------------------- *)

Lemma boost_formula t n :
  (t < n \/ ~ n == 1) -> exists q, boost_q t n = Fin q /\ q == boost_spec t n.
Proof.
  intros H. unfold boost_q, boost_spec, VcfDefaults.boost_half, VcfDefaults.boost_one.
  destruct (Qlt_bool t n) eqn:E.
  - eexists. split; [reflexivity|]. rewrite qdiv_eq, qmul_eq. reflexivity.
  - assert (Hn : ~ n == 1).
    { destruct H as [H|H]; [|exact H]. apply Qlt_bool_false in E. lra. }
    destruct (Qeq_bool (qsub 1 n) 0) eqn:E0.
    + apply Qeq_bool_iff in E0. rewrite qsub_eq in E0. exfalso. apply Hn. lra.
    + eexists. split; [reflexivity|].
      rewrite qsub_eq, qdiv_eq, qmul_eq, !qsub_eq. reflexivity.
Qed.

(* a tumour frequency equal to the normal's is boosted to exactly 1/2 *)
Lemma boost_same n : ~ n == 1 -> boost_spec n n == 1 # 2.
Proof.
  intros Hn. unfold boost_spec.
  assert (E : Qlt_bool n n = false) by (apply Qlt_bool_false; apply Qle_refl).
  rewrite E. field. lra.
Qed.

(* ---- purity rescaling ------------------------------------------------------ *)

Lemma rescale_formula p o : rescale_baf p o == rescale_spec p o.
Proof.
  unfold rescale_baf, rescale_spec, VcfDefaults.normal_baf.
  rewrite qdiv_eq, qsub_eq, qmul_eq, qsub_eq. reflexivity.
Qed.

Lemma rescale_inverse p t : ~ p == 0 -> rescale_baf p (p * t + (1 - p) / 2) == t.
Proof.
  intros Hp. rewrite rescale_formula. unfold rescale_spec. field. exact Hp.
Qed.

Lemma rescale_pure o : rescale_baf 1 o == o.
Proof. rewrite rescale_formula. unfold rescale_spec. field. Qed.

(* ---- zygosity from frequency ------------------------------------------------ *)

Lemma zyg_from_freq_eq het hom f : zyg_from_freq het hom f = zyg_from_freq_spec het hom f.
Proof.
  unfold zyg_from_freq, zyg_from_freq_spec, xq_ltb, xq_geb,
    VcfDefaults.zfreq_ref, VcfDefaults.zfreq_hom, VcfDefaults.zfreq_mid.
  destruct f as [q| |]; try reflexivity.
Qed.

Lemma zyg_from_freq_valid het hom f : zyg_valid (zyg_from_freq het hom f).
Proof.
  rewrite zyg_from_freq_eq. unfold zyg_from_freq_spec, zyg_valid.
  destruct f as [q| |]; [destruct (Qlt_bool q het); [|destruct (Qle_bool hom q)]| |]; auto.
Qed.

Lemma rezyg_valid het hom r : row_valid (rezyg het hom r).
Proof.
  unfold row_valid, rezyg, g_valid. cbn. split; [apply zyg_from_freq_valid|].
  destruct (v_n r); cbn; [apply zyg_from_freq_valid | exact I].
Qed.

(* ---- heterozygous selection -------------------------------------------------- *)

Lemma is_het_valid z : zyg_valid z -> is_het_z z = Qeq_bool z (1 # 2).
Proof. intros [->|[->| ->]]; reflexivity. Qed.

Lemma het_pointwise r :
  row_valid r -> negb (inferred_somatic r) && is_het_z (germ_zyg r) = germline_het r.
Proof.
  unfold row_valid, g_valid, inferred_somatic, germline_het, germ_zyg.
  destruct (v_n r) as [n|].
  - intros [Ht Hn]. destruct Ht as [-> |[-> | ->]], Hn as [-> |[-> | ->]]; reflexivity.
  - intros [Ht _]. cbn. apply is_het_valid, Ht.
Qed.

Lemma het_pointwise_unpaired r : row_valid r -> is_het_z (germ_zyg r) = germline_het r.
Proof.
  unfold row_valid, g_valid, germline_het, germ_zyg.
  destruct (v_n r) as [n|]; intros [Ht Hn]; apply is_het_valid; assumption.
Qed.

Lemma label_from_snd i l : map snd (label_from i l) = l.
Proof.
  revert i. induction l as [|x t IH]; intros i; cbn; [reflexivity | now rewrite IH].
Qed.

Lemma filter_label (f : vrow -> bool) i l :
  map snd (filter (fun lr => f (snd lr)) (label_from i l)) = filter f l.
Proof.
  revert i. induction l as [|x t IH]; intros i; cbn; [reflexivity|].
  destruct (f x); cbn; now rewrite IH.
Qed.

Definition labelled (paired : bool) (rows : list vrow) : list lrow :=
  if paired then filter (fun lr => negb (inferred_somatic (snd lr))) (label_from 0 rows)
  else label_from 0 rows.

Lemma het_filter_labelled paired rows :
  Forall row_valid rows ->
  map snd (filter (fun lr => is_het_z (germ_zyg (snd lr))) (labelled paired rows))
  = filter germline_het rows.
Proof.
  intros Hv. rewrite Forall_forall in Hv. unfold labelled. destruct paired.
  - rewrite filter_filter.
    rewrite (filter_label (fun r => negb (inferred_somatic r) && is_het_z (germ_zyg r))).
    apply filter_ext_in'. intros x Hx. apply het_pointwise, Hv, Hx.
  - rewrite (filter_label (fun r => is_het_z (germ_zyg r))).
    apply filter_ext_in'. intros x Hx. apply het_pointwise_unpaired, Hv, Hx.
Qed.

Lemma filter_nil_existsb {A} (f : A -> bool) l : filter f l = [] <-> existsb f l = false.
Proof.
  induction l as [|x t IH]; cbn; [tauto|].
  destruct (f x); cbn; [split; discriminate | exact IH].
Qed.

Lemma heterozygous_some paired rows :
  Forall row_valid rows -> existsb germline_het rows = true ->
  map snd (heterozygous (labelled paired rows)) = filter germline_het rows.
Proof.
  intros Hv Hex. pose proof (het_filter_labelled paired rows Hv) as E.
  unfold heterozygous.
  destruct (filter (fun lr => is_het_z (germ_zyg (snd lr))) (labelled paired rows)) eqn:F.
  - cbn in E. symmetry in E. apply filter_nil_existsb in E. congruence.
  - exact E.
Qed.

Lemma heterozygous_none paired rows :
  Forall row_valid rows -> existsb germline_het rows = false ->
  heterozygous (labelled paired rows) = labelled paired rows.
Proof.
  intros Hv Hex. pose proof (het_filter_labelled paired rows Hv) as E.
  apply filter_nil_existsb in Hex. rewrite Hex in E.
  unfold heterozygous.
  destruct (filter (fun lr => is_het_z (germ_zyg (snd lr))) (labelled paired rows)) eqn:F.
  - reflexivity.
  - discriminate.
Qed.

Lemma labelled_snd paired rows :
  map snd (labelled paired rows)
  = if paired then filter (fun r => negb (inferred_somatic r)) rows else rows.
Proof.
  unfold labelled. destruct paired.
  - apply (filter_label (fun r => negb (inferred_somatic r))).
  - apply label_from_snd.
Qed.

(* the table whose genotypes decide: after zygosity_from_freq when it applies *)
Definition genotyped (paired : bool) (zf : option Q) (rows : list vrow) : list vrow :=
  match effective_zfreq paired zf rows with
  | None => rows
  | Some f => map (rezyg f (qsub 1 f)) rows
  end.

Lemma load_het_core_unfold paired zf rows out :
  load_het_core paired zf false rows = Ok out ->
  out = heterozygous (labelled paired (genotyped paired zf rows)).
Proof.
  unfold load_het_core, genotyped, labelled.
  destruct (effective_zfreq paired zf rows) as [f|].
  - destruct (zfreq_ok f (qsub 1 f)); [|discriminate]. intros H. injection H as <-. reflexivity.
  - intros H. injection H as <-. reflexivity.
Qed.

Lemma genotyped_valid paired zf rows :
  Forall row_valid rows -> Forall row_valid (genotyped paired zf rows).
Proof.
  intros Hv. unfold genotyped. destruct (effective_zfreq paired zf rows); [|exact Hv].
  apply Forall_forall. intros x Hx. apply in_map_iff in Hx as (r & <- & _). apply rezyg_valid.
Qed.

(* C18_het *)
Lemma load_het_exact paired zf rows out :
  Forall row_valid rows ->
  load_het_core paired zf false rows = Ok out ->
  existsb germline_het (genotyped paired zf rows) = true ->
  map snd out = filter germline_het (genotyped paired zf rows).
Proof.
  intros Hv H Hex. rewrite (load_het_core_unfold _ _ _ _ H).
  apply heterozygous_some; [apply genotyped_valid, Hv | exact Hex].
Qed.

(* C18_het_fallback *)
Lemma load_het_fallback paired zf rows out :
  Forall row_valid rows ->
  load_het_core paired zf false rows = Ok out ->
  existsb germline_het (genotyped paired zf rows) = false ->
  map snd out = if paired then filter (fun r => negb (inferred_somatic r)) (genotyped paired zf rows)
                else genotyped paired zf rows.
Proof.
  intros Hv H Hex. rewrite (load_het_core_unfold _ _ _ _ H).
  rewrite heterozygous_none; [apply labelled_snd | apply genotyped_valid, Hv | exact Hex].
Qed.

(* every kept row is a row of the table, with its own coordinates and numbers *)
Lemma heterozygous_incl rows lr : In lr (heterozygous rows) -> In lr rows.
Proof.
  unfold heterozygous.
  destruct (filter (fun lr => is_het_z (germ_zyg (snd lr))) rows) eqn:F; [tauto|].
  rewrite <- F. intros H. apply filter_In in H. tauto.
Qed.

Lemma label_from_in i rows lr : In lr (label_from i rows) -> In (snd lr) rows.
Proof.
  revert i. induction rows as [|x t IH]; intros i; cbn; [tauto|].
  intros [<-|H]; [now left | right; eapply IH, H].
Qed.

Definition same_site (a b : vrow) : Prop :=
  v_chrom a = v_chrom b /\ v_start a = v_start b /\ v_end a = v_end b /\ v_ref a = v_ref b /\
  v_alt a = v_alt b /\ v_somatic a = v_somatic b /\
  g_depth (v_t a) = g_depth (v_t b) /\ g_count (v_t a) = g_count (v_t b) /\
  g_freq (v_t a) = g_freq (v_t b) /\
  option_map g_freq (v_n a) = option_map g_freq (v_n b).

Lemma same_site_refl a : same_site a a.
Proof. unfold same_site. repeat split. Qed.

Lemma rezyg_same_site het hom r : same_site (rezyg het hom r) r.
Proof.
  unfold same_site, rezyg. cbn. repeat split. destruct (v_n r); reflexivity.
Qed.

Lemma load_het_attached paired zf rows out lr :
  load_het_core paired zf false rows = Ok out -> In lr out ->
  exists r, In r rows /\ same_site (snd lr) r.
Proof.
  intros H Hin. rewrite (load_het_core_unfold _ _ _ _ H) in Hin.
  apply heterozygous_incl in Hin.
  assert (Hg : In (snd lr) (genotyped paired zf rows)).
  { unfold labelled in Hin. destruct paired.
    - apply filter_In in Hin as [Hin _]. eapply label_from_in, Hin.
    - eapply label_from_in, Hin. }
  unfold genotyped in Hg. destruct (effective_zfreq paired zf rows) as [f|].
  - apply in_map_iff in Hg as (r & E & Hr). exists r. split; [exact Hr|].
    rewrite <- E. apply rezyg_same_site.
  - exists (snd lr). split; [exact Hg | apply same_site_refl].
Qed.

(* the literal exactness claim fails for the faithful model: nothing heterozygous -> everything kept *)
Definition hom_row : vrow :=
  {| v_chrom := "chr1"; v_ckey := 0%Z; v_start := 99%Z; v_end := 100%Z; v_ref := "A"; v_alt := "G";
     v_somatic := false;
     v_t := {| g_zyg := 1; g_depth := 40%Z; g_count := 40%Z; g_freq := Fin 1 |}; v_n := None |}.

Lemma load_het_exact_refuted :
  exists rows out, Forall row_valid rows /\ load_het_core false None false rows = Ok out /\
    map snd out <> filter germline_het rows.
Proof.
  exists [hom_row], [(0%Z, hom_row)]. split; [|split].
  - constructor; [|constructor]. split; [right; right; reflexivity | exact I].
  - reflexivity.
  - cbn. discriminate.
Qed.

(* ---- TumorBoost assignment is aligned by label --------------------------------- *)

Definition pair_row (t n : Q) (start : Z) (zt zn : Q) : vrow :=
  {| v_chrom := "chr1"; v_ckey := 0%Z; v_start := start; v_end := (start + 1)%Z; v_ref := "A"; v_alt := "G";
     v_somatic := false;
     v_t := {| g_zyg := zt; g_depth := 40%Z; g_count := 0%Z; g_freq := Fin t |};
     v_n := Some {| g_zyg := zn; g_depth := 40%Z; g_count := 0%Z; g_freq := Fin n |} |}.

(* three records, the first one homozygous in the normal: the two kept rows carry labels 1 and 2,
   the boosted vector is labelled 0 and 1 -- the row at 199 receives the value of the row at 299
   and the row at 299 receives NaN *)
Lemma boost_misaligned_refuted :
  exists rows out lr r0,
    load_het_core true None true rows = Ok out /\ In lr out /\ In r0 rows /\
    v_start (snd lr) = v_start r0 /\ v_start r0 = 199%Z /\
    g_freq (v_t (snd lr)) <> boost_row r0.
Proof.
  exists [pair_row 1 1 99 1 1; pair_row (3 # 4) (1 # 2) 199 (1 # 2) (1 # 2);
          pair_row (1 # 5) (2 # 5) 299 (1 # 2) (1 # 2)].
  eexists. eexists. exists (pair_row (3 # 4) (1 # 2) 199 (1 # 2) (1 # 2)).
  split; [vm_compute; reflexivity|]. split; [left; reflexivity|].
  split; [right; left; reflexivity|]. split; [reflexivity|]. split; [reflexivity|].
  vm_compute. discriminate.
Qed.

(* when no row was dropped the labels are 0..n-1 and every row receives its own value *)
Lemma nth_map_label (f : vrow -> xq) rows i k :
  (k < length rows)%nat ->
  nth k (map (fun lr => f (snd lr)) (label_from i rows)) XNaN = f (nth k rows hom_row).
Proof.
  revert i k. induction rows as [|x t IH]; intros i k Hk; cbn in *; [lia|].
  destruct k; [reflexivity|]. apply IH. lia.
Qed.

Lemma assign_aligned_contiguous values rows i :
  (0 <= i)%Z ->
  (forall k, (k < length rows)%nat ->
      nth (Z.to_nat i + k) values XNaN = boost_row (nth k rows hom_row)) ->
  assign_aligned (label_from i rows) values
  = map (fun lr => (fst lr, set_freq (snd lr) (boost_row (snd lr)))) (label_from i rows).
Proof.
  revert i. induction rows as [|x t IH]; intros i Hi Hv; cbn; [reflexivity|].
  f_equal.
  - assert (E : (i <? 0)%Z = false) by lia. rewrite E.
    specialize (Hv 0%nat ltac:(cbn; lia)). rewrite Nat.add_0_r in Hv. cbn in Hv. now rewrite Hv.
  - apply IH; [lia|]. intros k Hk.
    specialize (Hv (S k) ltac:(cbn; lia)). cbn in Hv.
    replace (Z.to_nat (i + 1) + k)%nat with (Z.to_nat i + S k)%nat by lia. exact Hv.
Qed.

Lemma boost_assign_contiguous rows :
  boost_assign (label_from 0 rows)
  = map (fun lr => (fst lr, set_freq (snd lr) (boost_row (snd lr)))) (label_from 0 rows).
Proof.
  unfold boost_assign. apply assign_aligned_contiguous; [lia|].
  intros k Hk. cbn. apply (nth_map_label boost_row), Hk.
Qed.
