(* Proofs for C18, second half: germline-heterozygous selection, mirrored median
   per range, TumorBoost, purity rescaling. *)
From CNV Require Import Base.Prelude Model.Vcf Model.VBaf Spec.Vcf Proofs.VcfLib.
From Coq Require Import Qabs Lqa.
Local Open Scope Q_scope.

(* ---- mirror ------------------------------------------------------------- *)

Lemma qabs_Qabs a : qabs a == Qabs a.
Proof.
  destruct (qabs_cases a) as [[H E]|[H E]]; rewrite E; symmetry.
  - apply Qabs_pos, H.
  - apply Qabs_neg. lra.
Qed.

Lemma mirror_eq above v : mirror above v == mirror_spec above v.
Proof.
  unfold mirror, mirror_spec, VcfDefaults.mirror_center.
  destruct above.
  - rewrite qadd_eq, qabs_Qabs, qsub_eq. reflexivity.
  - rewrite qsub_eq, qabs_Qabs, qsub_eq. reflexivity.
Qed.

Lemma mirror_above_ge v : 1 # 2 <= mirror true v.
Proof.
  rewrite mirror_eq. unfold mirror_spec.
  pose proof (Qabs_nonneg (v - (1 # 2))). lra.
Qed.

Lemma mirror_below_le v : mirror false v <= 1 # 2.
Proof.
  rewrite mirror_eq. unfold mirror_spec.
  pose proof (Qabs_nonneg (v - (1 # 2))). lra.
Qed.

Lemma mirror_unit above v : 0 <= v -> v <= 1 -> 0 <= mirror above v /\ mirror above v <= 1.
Proof.
  intros H0 H1. rewrite mirror_eq. unfold mirror_spec.
  assert (Ha : Qabs (v - (1 # 2)) <= 1 # 2) by (apply Qabs_Qle_condition; split; lra).
  pose proof (Qabs_nonneg (v - (1 # 2))).
  destruct above; split; lra.
Qed.

(* mirroring does nothing to a value that is already on the requested side *)
Lemma mirror_fix_above v : 1 # 2 <= v -> mirror true v == v.
Proof.
  intros H. rewrite mirror_eq. unfold mirror_spec. rewrite Qabs_pos; lra.
Qed.

Lemma mirror_fix_below v : v <= 1 # 2 -> mirror false v == v.
Proof.
  intros H. rewrite mirror_eq. unfold mirror_spec. rewrite Qabs_neg; lra.
Qed.

(* ---- median -------------------------------------------------------------- *)

Lemma median_value_is_median l : l <> [] -> is_median (median_value l) l.
Proof.
  intros Hne. exists (qsort l).
  assert (Hlen : length (qsort l) = length l) by apply isort_length.
  split; [apply qsort_perm|]. split; [apply qsort_sorted|].
  cbv zeta. rewrite Hlen. unfold median_value. split; intros Hev; rewrite Hev.
  - reflexivity.
  - rewrite qdiv_eq, qadd_eq. reflexivity.
Qed.

(* ---- series2value --------------------------------------------------------- *)

Lemma finite_of_Fin qs : finite_of (map Fin qs) = qs.
Proof. induction qs as [|q t IH]; cbn; [reflexivity | now rewrite IH]. Qed.

Lemma mirror_x_Fin b qs : map (mirror_x b) (map Fin qs) = map Fin (map (mirror b) qs).
Proof. rewrite !map_map. reflexivity. Qed.

Lemma s2v_none ah : series2value ah [] = XNaN.
Proof. destruct ah; reflexivity. Qed.

Lemma median_value_single x : median_value [x] = x.
Proof. reflexivity. Qed.

(* np.nanmedian through series2value: the median, also of a single value *)
Lemma summary_Fin qs : qs <> [] -> summary (map Fin qs) = Fin (median_value qs).
Proof.
  intros Hne. destruct qs as [|a [|b t]]; [congruence | reflexivity |].
  change (map Fin (a :: b :: t)) with (Fin a :: Fin b :: map Fin t).
  unfold summary.
  change (Fin a :: Fin b :: map Fin t) with (map Fin (a :: b :: t)).
  rewrite finite_of_Fin, median_spec; [reflexivity | discriminate].
Qed.

(* an explicit side: EVERY hit is mirrored to it before the median, a single one too *)
Lemma s2v_side b qs :
  qs <> [] -> series2value (Some b) (map Fin qs) = Fin (median_value (map (mirror b) qs)).
Proof.
  intros Hne. unfold series2value. rewrite mirror_x_Fin. apply summary_Fin.
  destruct qs; [congruence | discriminate].
Qed.

Lemma s2v_majority_many qs :
  (2 <= length qs)%nat ->
  series2value None (map Fin qs) = Fin (median_value (map (mirror (direction None qs)) qs)).
Proof.
  intros Hl. destruct qs as [|a [|b t]]; cbn [length] in Hl; try lia.
  change (map Fin (a :: b :: t)) with (Fin a :: Fin b :: map Fin t).
  unfold series2value, summary_majority.
  change (Fin a :: Fin b :: map Fin t) with (map Fin (a :: b :: t)).
  rewrite finite_of_Fin.
  rewrite median_spec; [reflexivity | discriminate].
Qed.

Lemma s2v_majority_single x : series2value None [Fin x] = Fin x.
Proof. reflexivity. Qed.

(* direction when unspecified: that of the majority, i.e. median > 1/2 *)
Lemma direction_none qs : qs <> [] -> direction None qs = Qlt_bool (1 # 2) (median_value qs).
Proof.
  intros Hne. unfold direction, majority_above. rewrite median_spec by exact Hne. reflexivity.
Qed.

(* a single value mirrored in the direction of its own "majority" is itself *)
Lemma mirror_single_majority x : mirror (direction None [x]) x == x.
Proof.
  rewrite direction_none by discriminate. rewrite median_value_single.
  destruct (Qlt_bool (1 # 2) x) eqn:E.
  - apply Qlt_bool_iff in E. apply mirror_fix_above. lra.
  - apply Qlt_bool_false in E. apply mirror_fix_below, E.
Qed.

Lemma baf_single_majority x :
  series2value None [Fin x] = Fin x /\ mirror (direction None [x]) x == x.
Proof. split; [reflexivity | apply mirror_single_majority]. Qed.

Lemma is_median_eq m m' l : m == m' -> is_median m' l -> is_median m l.
Proof.
  intros E (s & Hp & Hs & Ho & He). exists s. split; [exact Hp|]. split; [exact Hs|].
  cbv zeta in *. split; intros H; rewrite E; [apply Ho | apply He]; exact H.
Qed.

(* what series2value returns on one or more finite hits, as a number *)
Definition baf_value (ah : option bool) (qs : list Q) : Q :=
  match ah, qs with
  | None, [x] => x
  | _, _ => median_value (map (mirror (direction ah qs)) qs)
  end.

Lemma s2v_value ah qs : qs <> [] -> series2value ah (map Fin qs) = Fin (baf_value ah qs).
Proof.
  intros Hne. destruct ah as [b|].
  - rewrite (s2v_side b qs Hne). unfold baf_value, direction. destruct qs as [|? [|? ?]]; reflexivity.
  - destruct qs as [|a [|b t]]; [congruence | reflexivity |].
    rewrite s2v_majority_many by (cbn; lia). reflexivity.
Qed.

Lemma baf_value_eq ah qs :
  qs <> [] -> baf_value ah qs == median_value (map (mirror (direction ah qs)) qs).
Proof.
  intros Hne. destruct ah as [b|]; [destruct qs as [|? [|? ?]]; reflexivity|].
  destruct qs as [|a [|b t]]; [congruence | | reflexivity].
  unfold baf_value. cbn [map]. rewrite median_value_single. symmetry. apply mirror_single_majority.
Qed.

(* C18_baf: one or more hits, any above_half *)
Lemma baf_any ah qs :
  qs <> [] ->
  exists m, series2value ah (map Fin qs) = Fin m /\
    is_median m (map (mirror (direction ah qs)) qs) /\
    (ah = Some true -> 1 # 2 <= m) /\
    (ah = Some false -> m <= 1 # 2) /\
    (Forall (fun v => 0 <= v /\ v <= 1) qs -> 0 <= m /\ m <= 1).
Proof.
  intros Hq. exists (baf_value ah qs).
  assert (Hne : map (mirror (direction ah qs)) qs <> []).
  { destruct qs; [congruence | discriminate]. }
  pose proof (baf_value_eq ah qs Hq) as E.
  split; [apply s2v_value, Hq|].
  split; [eapply is_median_eq; [exact E | apply median_value_is_median, Hne]|].
  split; [|split].
  - intros ->. rewrite E. cbn [direction]. apply median_value_ge; [exact Hne|].
    apply Forall_forall. intros x Hx. apply in_map_iff in Hx as (v & <- & _). apply mirror_above_ge.
  - intros ->. rewrite E. cbn [direction]. apply median_value_le; [exact Hne|].
    apply Forall_forall. intros x Hx. apply in_map_iff in Hx as (v & <- & _). apply mirror_below_le.
  - intros Hf. rewrite E. split.
    + apply median_value_ge; [exact Hne|]. apply Forall_forall. intros x Hx.
      apply in_map_iff in Hx as (v & <- & Hv). rewrite Forall_forall in Hf.
      destruct (Hf v Hv) as [A B]. apply (mirror_unit _ v A B).
    + apply median_value_le; [exact Hne|]. apply Forall_forall. intros x Hx.
      apply in_map_iff in Hx as (v & <- & Hv). rewrite Forall_forall in Hf.
      destruct (Hf v Hv) as [A B]. apply (mirror_unit _ v A B).
Qed.

(* the repaired clause on its own: with an explicit side a range holding exactly one
   heterozygous variant gets that variant's frequency MIRRORED to the side *)
Lemma baf_single_side b x :
  exists m, series2value (Some b) [Fin x] = Fin m /\ m == mirror_spec b x /\
    (b = true -> 1 # 2 <= m) /\ (b = false -> m <= 1 # 2).
Proof.
  exists (mirror b x). split; [reflexivity|]. split; [apply mirror_eq|].
  split; intros ->; [apply mirror_above_ge | apply mirror_below_le].
Qed.

(* ---- hits of a table whose frequency column was replaced row by row ----------- *)

Lemma overlaps_set_freq rg r f : overlaps rg (set_freq r f) = overlaps rg r.
Proof. destruct rg as [[c s] e]. reflexivity. Qed.

Lemma hits_of_assign (f : vrow -> xq) rows rg :
  hits_of (map (fun lr => (fst lr, set_freq (snd lr) (f (snd lr)))) rows) rg
  = map (fun lr => f (snd lr)) (filter (fun lr => overlaps rg (snd lr)) rows).
Proof.
  unfold hits_of. induction rows as [|x t IH]; [reflexivity|].
  cbn [map filter snd]. rewrite overlaps_set_freq.
  destruct (overlaps rg (snd x)); cbn [map snd]; rewrite IH; reflexivity.
Qed.

Lemma hits_of_mirror_assign b rows rg :
  hits_of (mirror_assign b rows) rg = map (mirror_x b) (hits_of rows rg).
Proof.
  unfold mirror_assign.
  rewrite (hits_of_assign (fun r => mirror_x b (g_freq (v_t r)))).
  unfold hits_of. rewrite map_map. reflexivity.
Qed.

(* the hits of a range in a TumorBoost-ed table: the boosted value of each overlapping row's OWN
   tumour and normal frequencies *)
Lemma hits_of_boost_assign rows rg :
  hits_of (boost_assign rows) rg
  = map (fun lr => boost_row (snd lr)) (filter (fun lr => overlaps rg (snd lr)) rows).
Proof. apply (hits_of_assign boost_row). Qed.

(* the table the ranges are filled from *)
Definition baf_source (paired : bool) (rows : list lrow) (boost : bool) : list lrow :=
  if boost && paired then boost_assign (heterozygous rows) else heterozygous rows.

(* shape of the per-range vector: one value per range, each from the hits of that range *)
Lemma baf_by_ranges_shape paired rows ranges ah boost :
  ranges <> [] ->
  baf_by_ranges paired rows ranges ah boost =
    Some (map (fun rg => series2value ah (hits_of (baf_source paired rows boost) rg)) ranges).
Proof.
  intros Hr. unfold baf_by_ranges, baf_source.
  destruct ranges as [|r0 rt]; [congruence|].
  destruct ah as [b|]; [|reflexivity].
  f_equal. apply map_ext. intros rg. rewrite hits_of_mirror_assign. reflexivity.
Qed.

(* no variant at all: every range is missing *)
Lemma baf_by_ranges_empty paired ranges ah boost :
  ranges <> [] -> baf_by_ranges paired [] ranges ah boost = Some (map (fun _ => XNaN) ranges).
Proof.
  intros Hr. rewrite baf_by_ranges_shape by exact Hr. f_equal.
  assert (E : baf_source paired [] boost = []).
  { unfold baf_source. destruct (boost && paired); reflexivity. }
  rewrite E. apply map_ext. intros rg. apply s2v_none.
Qed.

Lemma hits_of_spec rows rg :
  hits_of rows rg = map (fun lr => g_freq (v_t (snd lr))) (filter (fun lr => overlaps rg (snd lr)) rows).
Proof. reflexivity. Qed.

Lemma hits_none rows rg ah :
  (forall lr, In lr rows -> overlaps rg (snd lr) = false) -> series2value ah (hits_of rows rg) = XNaN.
Proof.
  intros H. unfold hits_of.
  assert (E : filter (fun lr => overlaps rg (snd lr)) rows = []).
  { induction rows as [|a t IH]; [reflexivity|]. cbn. rewrite (H a (or_introl eq_refl)).
    apply IH. intros lr Hl. apply H. now right. }
  rewrite E. apply s2v_none.
Qed.

(* ---- TumorBoost ----------------------------------------------------------- *)

Lemma boost_formula t n :
  (t < n \/ ~ n == 1) -> exists q, boost_q t n = Fin q /\ q == boost_spec t n.
Proof.
  intros H. unfold boost_q, boost_spec, VcfDefaults.boost_half, VcfDefaults.boost_one.
  destruct (Qlt_bool t n) eqn:E.
  - eexists. split; [reflexivity|]. rewrite qdiv_eq, qmul_eq. reflexivity.
  - assert (Hn : ~ n == 1).
    { destruct H as [H|H]; [|exact H]. apply Qlt_bool_false in E. lra. }
    destruct (Qeq_bool (qsub 1 n) 0) eqn:E0.
    + apply Qeq_bool_iff in E0. rewrite qsub_eq in E0. exfalso. apply Hn. lra.
    + eexists. split; [reflexivity|].
      rewrite qsub_eq, qdiv_eq, qmul_eq, !qsub_eq. reflexivity.
Qed.

(* a tumour frequency equal to the normal's is boosted to exactly 1/2 *)
Lemma boost_same n : ~ n == 1 -> boost_spec n n == 1 # 2.
Proof.
  intros Hn. unfold boost_spec.
  assert (E : Qlt_bool n n = false) by (apply Qlt_bool_false; apply Qle_refl).
  rewrite E. field. lra.
Qed.

(* ---- purity rescaling ------------------------------------------------------ *)

Lemma rescale_formula p o : rescale_baf p o == rescale_spec p o.
Proof.
  unfold rescale_baf, rescale_spec, VcfDefaults.normal_baf.
  rewrite qdiv_eq, qsub_eq, qmul_eq, qsub_eq. reflexivity.
Qed.

Lemma rescale_inverse p t : ~ p == 0 -> rescale_baf p (p * t + (1 - p) / 2) == t.
Proof.
  intros Hp. rewrite rescale_formula. unfold rescale_spec. field. exact Hp.
Qed.

Lemma rescale_pure o : rescale_baf 1 o == o.
Proof. rewrite rescale_formula. unfold rescale_spec. field. Qed.

(* ---- zygosity from frequency ------------------------------------------------ *)

Lemma zyg_from_freq_eq het hom f : zyg_from_freq het hom f = zyg_from_freq_spec het hom f.
Proof.
  unfold zyg_from_freq, zyg_from_freq_spec, xq_ltb, xq_geb,
    VcfDefaults.zfreq_ref, VcfDefaults.zfreq_hom, VcfDefaults.zfreq_mid.
  destruct f as [q| |]; try reflexivity.
Qed.

Lemma zyg_from_freq_valid het hom f : zyg_valid (zyg_from_freq het hom f).
Proof.
  rewrite zyg_from_freq_eq. unfold zyg_from_freq_spec, zyg_valid.
  destruct f as [q| |]; [destruct (Qlt_bool q het); [|destruct (Qle_bool hom q)]| |]; auto.
Qed.

Lemma rezyg_valid het hom r : row_valid (rezyg het hom r).
Proof.
  unfold row_valid, rezyg, g_valid. cbn. split; [apply zyg_from_freq_valid|].
  destruct (v_n r); cbn; [apply zyg_from_freq_valid | exact I].
Qed.

(* ---- heterozygous selection -------------------------------------------------- *)

Lemma is_het_valid z : zyg_valid z -> is_het_z z = Qeq_bool z (1 # 2).
Proof. intros [->|[->| ->]]; reflexivity. Qed.

Lemma het_pointwise r :
  row_valid r -> negb (inferred_somatic r) && is_het_z (germ_zyg r) = germline_het r.
Proof.
  unfold row_valid, g_valid, inferred_somatic, germline_het, germ_zyg.
  destruct (v_n r) as [n|].
  - intros [Ht Hn]. destruct Ht as [-> |[-> | ->]], Hn as [-> |[-> | ->]]; reflexivity.
  - intros [Ht _]. cbn. apply is_het_valid, Ht.
Qed.

Lemma het_pointwise_unpaired r : row_valid r -> is_het_z (germ_zyg r) = germline_het r.
Proof.
  unfold row_valid, g_valid, germline_het, germ_zyg.
  destruct (v_n r) as [n|]; intros [Ht Hn]; apply is_het_valid; assumption.
Qed.

Lemma label_from_snd i l : map snd (label_from i l) = l.
Proof.
  revert i. induction l as [|x t IH]; intros i; cbn; [reflexivity | now rewrite IH].
Qed.

Lemma filter_label (f : vrow -> bool) i l :
  map snd (filter (fun lr => f (snd lr)) (label_from i l)) = filter f l.
Proof.
  revert i. induction l as [|x t IH]; intros i; cbn; [reflexivity|].
  destruct (f x); cbn; now rewrite IH.
Qed.

Definition labelled (paired : bool) (rows : list vrow) : list lrow :=
  if paired then filter (fun lr => negb (inferred_somatic (snd lr))) (label_from 0 rows)
  else label_from 0 rows.

Lemma het_filter_labelled paired rows :
  Forall row_valid rows ->
  map snd (filter (fun lr => is_het_z (germ_zyg (snd lr))) (labelled paired rows))
  = filter germline_het rows.
Proof.
  intros Hv. rewrite Forall_forall in Hv. unfold labelled. destruct paired.
  - rewrite filter_filter.
    rewrite (filter_label (fun r => negb (inferred_somatic r) && is_het_z (germ_zyg r))).
    apply filter_ext_in'. intros x Hx. apply het_pointwise, Hv, Hx.
  - rewrite (filter_label (fun r => is_het_z (germ_zyg r))).
    apply filter_ext_in'. intros x Hx. apply het_pointwise_unpaired, Hv, Hx.
Qed.

Lemma filter_nil_existsb {A} (f : A -> bool) l : filter f l = [] <-> existsb f l = false.
Proof.
  induction l as [|x t IH]; cbn; [tauto|].
  destruct (f x); cbn; [split; discriminate | exact IH].
Qed.

Lemma heterozygous_some paired rows :
  Forall row_valid rows -> existsb germline_het rows = true ->
  map snd (heterozygous (labelled paired rows)) = filter germline_het rows.
Proof.
  intros Hv Hex. pose proof (het_filter_labelled paired rows Hv) as E.
  unfold heterozygous.
  destruct (filter (fun lr => is_het_z (germ_zyg (snd lr))) (labelled paired rows)) eqn:F.
  - cbn in E. symmetry in E. apply filter_nil_existsb in E. congruence.
  - exact E.
Qed.

Lemma heterozygous_none paired rows :
  Forall row_valid rows -> existsb germline_het rows = false ->
  heterozygous (labelled paired rows) = labelled paired rows.
Proof.
  intros Hv Hex. pose proof (het_filter_labelled paired rows Hv) as E.
  apply filter_nil_existsb in Hex. rewrite Hex in E.
  unfold heterozygous.
  destruct (filter (fun lr => is_het_z (germ_zyg (snd lr))) (labelled paired rows)) eqn:F.
  - reflexivity.
  - discriminate.
Qed.

Lemma labelled_snd paired rows :
  map snd (labelled paired rows)
  = if paired then filter (fun r => negb (inferred_somatic r)) rows else rows.
Proof.
  unfold labelled. destruct paired.
  - apply (filter_label (fun r => negb (inferred_somatic r))).
  - apply label_from_snd.
Qed.

(* the table whose genotypes decide: after zygosity_from_freq when it applies *)
Definition genotyped (paired : bool) (zf : option Q) (rows : list vrow) : list vrow :=
  match effective_zfreq paired zf rows with
  | None => rows
  | Some f => map (rezyg f (qsub 1 f)) rows
  end.

Lemma load_het_core_unfold paired zf rows out :
  load_het_core paired zf false rows = Ok out ->
  out = heterozygous (labelled paired (genotyped paired zf rows)).
Proof.
  unfold load_het_core, genotyped, labelled.
  destruct (effective_zfreq paired zf rows) as [f|].
  - destruct (zfreq_ok f (qsub 1 f)); [|discriminate]. intros H. injection H as <-. reflexivity.
  - intros H. injection H as <-. reflexivity.
Qed.

Lemma genotyped_valid paired zf rows :
  Forall row_valid rows -> Forall row_valid (genotyped paired zf rows).
Proof.
  intros Hv. unfold genotyped. destruct (effective_zfreq paired zf rows); [|exact Hv].
  apply Forall_forall. intros x Hx. apply in_map_iff in Hx as (r & <- & _). apply rezyg_valid.
Qed.

(* C18_het *)
Lemma load_het_exact paired zf rows out :
  Forall row_valid rows ->
  load_het_core paired zf false rows = Ok out ->
  existsb germline_het (genotyped paired zf rows) = true ->
  map snd out = filter germline_het (genotyped paired zf rows).
Proof.
  intros Hv H Hex. rewrite (load_het_core_unfold _ _ _ _ H).
  apply heterozygous_some; [apply genotyped_valid, Hv | exact Hex].
Qed.

(* C18_het_fallback *)
Lemma load_het_fallback paired zf rows out :
  Forall row_valid rows ->
  load_het_core paired zf false rows = Ok out ->
  existsb germline_het (genotyped paired zf rows) = false ->
  map snd out = if paired then filter (fun r => negb (inferred_somatic r)) (genotyped paired zf rows)
                else genotyped paired zf rows.
Proof.
  intros Hv H Hex. rewrite (load_het_core_unfold _ _ _ _ H).
  rewrite heterozygous_none; [apply labelled_snd | apply genotyped_valid, Hv | exact Hex].
Qed.

(* every kept row is a row of the table, with its own coordinates and numbers *)
Lemma heterozygous_incl rows lr : In lr (heterozygous rows) -> In lr rows.
Proof.
  unfold heterozygous.
  destruct (filter (fun lr => is_het_z (germ_zyg (snd lr))) rows) eqn:F; [tauto|].
  rewrite <- F. intros H. apply filter_In in H. tauto.
Qed.

Lemma label_from_in i rows lr : In lr (label_from i rows) -> In (snd lr) rows.
Proof.
  revert i. induction rows as [|x t IH]; intros i; cbn; [tauto|].
  intros [<-|H]; [now left | right; eapply IH, H].
Qed.

Definition same_site (a b : vrow) : Prop :=
  v_chrom a = v_chrom b /\ v_start a = v_start b /\ v_end a = v_end b /\ v_ref a = v_ref b /\
  v_alt a = v_alt b /\ v_somatic a = v_somatic b /\
  g_depth (v_t a) = g_depth (v_t b) /\ g_count (v_t a) = g_count (v_t b) /\
  g_freq (v_t a) = g_freq (v_t b) /\
  option_map g_freq (v_n a) = option_map g_freq (v_n b).

Lemma same_site_refl a : same_site a a.
Proof. unfold same_site. repeat split. Qed.

Lemma rezyg_same_site het hom r : same_site (rezyg het hom r) r.
Proof.
  unfold same_site, rezyg. cbn. repeat split. destruct (v_n r); reflexivity.
Qed.

Lemma load_het_attached paired zf rows out lr :
  load_het_core paired zf false rows = Ok out -> In lr out ->
  exists r, In r rows /\ same_site (snd lr) r.
Proof.
  intros H Hin. rewrite (load_het_core_unfold _ _ _ _ H) in Hin.
  apply heterozygous_incl in Hin.
  assert (Hg : In (snd lr) (genotyped paired zf rows)).
  { unfold labelled in Hin. destruct paired.
    - apply filter_In in Hin as [Hin _]. eapply label_from_in, Hin.
    - eapply label_from_in, Hin. }
  unfold genotyped in Hg. destruct (effective_zfreq paired zf rows) as [f|].
  - apply in_map_iff in Hg as (r & E & Hr). exists r. split; [exact Hr|].
    rewrite <- E. apply rezyg_same_site.
  - exists (snd lr). split; [exact Hg | apply same_site_refl].
Qed.

(* the literal exactness claim fails for the faithful model: nothing heterozygous -> everything kept *)
Definition hom_row : vrow :=
  {| v_chrom := "chr1"; v_ckey := 0%Z; v_start := 99%Z; v_end := 100%Z; v_ref := "A"; v_alt := "G";
     v_somatic := false;
     v_t := {| g_zyg := 1; g_depth := 40%Z; g_count := 40%Z; g_freq := Fin 1 |}; v_n := None |}.

Lemma load_het_exact_refuted :
  exists rows out, Forall row_valid rows /\ load_het_core false None false rows = Ok out /\
    map snd out <> filter germline_het rows.
Proof.
  exists [hom_row], [(0%Z, hom_row)]. split; [|split].
  - constructor; [|constructor]. split; [right; right; reflexivity | exact I].
  - reflexivity.
  - cbn. discriminate.
Qed.

(* ---- TumorBoost written back: every row keeps its own value --------------------- *)

(* everything of a row except the tumour frequency column *)
Definition same_locus (a b : vrow) : Prop :=
  v_chrom a = v_chrom b /\ v_start a = v_start b /\ v_end a = v_end b /\ v_ref a = v_ref b /\
  v_alt a = v_alt b /\ v_somatic a = v_somatic b /\
  g_depth (v_t a) = g_depth (v_t b) /\ g_count (v_t a) = g_count (v_t b) /\
  option_map g_freq (v_n a) = option_map g_freq (v_n b).

Lemma same_site_locus a b : same_site a b -> same_locus a b.
Proof. unfold same_site, same_locus. tauto. Qed.

Lemma set_freq_same_locus r f : same_locus (set_freq r f) r.
Proof. unfold same_locus, set_freq. cbn. repeat split. Qed.

Lemma same_locus_trans a b c : same_locus a b -> same_locus b c -> same_locus a c.
Proof.
  unfold same_locus. intros (A1&A2&A3&A4&A5&A6&A7&A8&A9) (B1&B2&B3&B4&B5&B6&B7&B8&B9).
  repeat split; congruence.
Qed.

(* the boosted value depends on the two frequencies only *)
Lemma boost_row_same_site a b : same_site a b -> boost_row a = boost_row b.
Proof.
  unfold same_site, boost_row. intros (_&_&_&_&_&_&_&_&Ht&Hn).
  destruct (v_n a) as [na|], (v_n b) as [nb|]; cbn in Hn; try discriminate; [|reflexivity].
  injection Hn as Hn. now rewrite Ht, Hn.
Qed.

(* load_het_snps(tumor_boost=True) = load_het_snps(tumor_boost=False) with the frequency column
   replaced, row by row, by the boosted value of that row *)
Lemma load_het_core_boost paired zf rows out :
  load_het_core paired zf true rows = Ok out ->
  paired = true /\
  exists out0, load_het_core paired zf false rows = Ok out0 /\
    out = map (fun lr => (fst lr, set_freq (snd lr) (boost_row (snd lr)))) out0.
Proof.
  unfold load_het_core.
  destruct (match effective_zfreq paired zf rows with
            | Some f => if zfreq_ok f (qsub 1 f) then Ok (map (rezyg f (qsub 1 f)) rows) else Fail "AssertionError"
            | None => Ok rows end) as [rows1|e]; [|discriminate].
  destruct paired; [|discriminate].
  intros H. injection H as <-. split; [reflexivity|]. eexists. split; reflexivity.
Qed.

(* C18_attached_boost: whatever rows were dropped before, every kept row carries its own
   coordinates, depth, count, normal frequency, and the TumorBoost value of ITS OWN frequencies *)
Lemma load_het_boost_attached paired zf rows out lr :
  load_het_core paired zf true rows = Ok out -> In lr out ->
  exists r, In r rows /\ same_locus (snd lr) r /\ g_freq (v_t (snd lr)) = boost_row r.
Proof.
  intros H Hin. destruct (load_het_core_boost _ _ _ _ H) as (_ & out0 & H0 & ->).
  apply in_map_iff in Hin as (lr0 & <- & Hin0).
  destruct (load_het_attached _ _ _ _ _ H0 Hin0) as (r & Hr & Hs).
  exists r. split; [exact Hr|]. cbn [snd]. split.
  - eapply same_locus_trans; [apply set_freq_same_locus | apply same_site_locus, Hs].
  - cbn. apply boost_row_same_site, Hs.
Qed.

(* the rows kept and their order do not depend on tumor_boost *)
Lemma load_het_boost_same_rows paired zf rows out :
  load_het_core paired zf true rows = Ok out ->
  exists out0, load_het_core paired zf false rows = Ok out0 /\
    map fst out = map fst out0 /\ Forall2 (fun a b => same_locus (snd a) (snd b)) out out0.
Proof.
  intros H. destruct (load_het_core_boost _ _ _ _ H) as (_ & out0 & H0 & ->).
  exists out0. split; [exact H0|]. split.
  - rewrite map_map. reflexivity.
  - clear. induction out0 as [|x t IH]; constructor; [apply set_freq_same_locus | exact IH].
Qed.

(* ---- the baf column of do_call ------------------------------------------------------------- *)

Lemma baf_source_plain paired rows : baf_source paired rows false = heterozygous rows.
Proof. reflexivity. Qed.

Definition purity_rescales (purity : option Q) : option Q :=
  match purity with
  | Some p => if negb (Qeq_bool p 0) && Qlt_bool p 1 then Some p else None
  | None => None
  end.

(* do_call(segments, variants, purity): one baf per segment = baf_by_ranges with the defaults
   (majority direction, no TumorBoost), rescaled for purity exactly when 0 <> purity < 1 *)
Lemma call_baf_spec paired rows ranges purity :
  rows <> [] -> ranges <> [] ->
  call_baf paired rows ranges purity =
    Some (map (fun rg =>
                 let b := series2value None (hits_of (heterozygous rows) rg) in
                 match purity_rescales purity with Some p => rescale_x p b | None => b end) ranges).
Proof.
  intros Hrows Hr. unfold call_baf. destruct rows as [|r0 rt]; [congruence|].
  rewrite (baf_by_ranges_shape paired (r0 :: rt) ranges None false Hr), baf_source_plain.
  unfold purity_rescales. destruct purity as [p|].
  - destruct (negb (Qeq_bool p 0) && Qlt_bool p 1); [|reflexivity]. now rewrite map_map.
  - reflexivity.
Qed.

Lemma purity_rescales_some p : ~ p == 0 -> p < 1 -> purity_rescales (Some p) = Some p.
Proof.
  intros H0 H1. unfold purity_rescales.
  assert (E0 : Qeq_bool p 0 = false).
  { destruct (Qeq_bool p 0) eqn:E; [|reflexivity]. apply Qeq_bool_iff in E. contradiction. }
  assert (E1 : Qlt_bool p 1 = true) by now apply Qlt_bool_iff.
  now rewrite E0, E1.
Qed.

Lemma purity_rescales_pure p : 1 <= p -> purity_rescales (Some p) = None.
Proof.
  intros H. unfold purity_rescales.
  assert (E1 : Qlt_bool p 1 = false) by now apply Qlt_bool_false.
  rewrite E1, andb_false_r. reflexivity.
Qed.

(* a missing BAF stays missing, a number goes through the purity formula *)
Lemma rescale_x_cases p v :
  match v with
  | Fin q => exists q', rescale_x p v = Fin q' /\ q' == rescale_spec p q
  | _ => rescale_x p v = v
  end.
Proof.
  destruct v as [q| |]; try reflexivity.
  eexists. split; [reflexivity | apply rescale_formula].
Qed.

(* no variants at all: do_call adds no baf column *)
Lemma call_baf_no_variants paired ranges purity : call_baf paired [] ranges purity = None.
Proof. reflexivity. Qed.

(* ---- het_frac_by_ranges ------------------------------------------------------------------------ *)

Lemma count_true_bounds l : (0 <= count_true l <= Z.of_nat (length l))%Z.
Proof.
  unfold count_true. split; [lia|]. apply inj_le.
  induction l as [|b t IH]; cbn; [lia|]. destruct b; cbn; lia.
Qed.

(* the fraction of heterozygous variants among those overlapping the range: a number in [0,1] *)
Lemma het_frac_value_spec hits :
  hits <> [] ->
  exists q, het_frac_value hits = Fin q /\
    q == inject_Z (count_true hits) / inject_Z (Z.of_nat (length hits)) /\ 0 <= q /\ q <= 1.
Proof.
  intros Hne. destruct hits as [|b t]; [congruence|].
  set (l := b :: t). exists (qdiv (inject_Z (count_true l)) (inject_Z (Z.of_nat (length l)))). split; [reflexivity|].
  pose proof (count_true_bounds l) as [H0 H1].
  assert (Hlen : (0 < Z.of_nat (length l))%Z) by (cbn [l length]; lia).
  assert (Hd : 0 < inject_Z (Z.of_nat (length l))) by (change 0 with (inject_Z 0); rewrite <- Zlt_Qlt; exact Hlen).
  remember (het_frac_value l) as v eqn:Ev. unfold het_frac_value in Ev. cbn [l] in Ev. subst v.
  fold l. rewrite qdiv_eq. split; [reflexivity|]. split.
  - apply Qle_shift_div_l; [exact Hd|]. rewrite Qmult_0_l. change 0 with (inject_Z 0). rewrite <- Zle_Qle. exact H0.
  - apply Qle_shift_div_r; [exact Hd|]. rewrite Qmult_1_l. rewrite <- Zle_Qle. exact H1.
Qed.

Lemma het_frac_value_none : het_frac_value [] = XNaN.
Proof. reflexivity. Qed.

(* for a table with valid zygosities the indicator is "germline-heterozygous" *)
Lemma het_flags_germline rows rg :
  Forall (fun lr => row_valid (snd lr)) rows ->
  het_flags rows rg = map (fun lr => germline_het (snd lr)) (filter (fun lr => overlaps rg (snd lr)) rows).
Proof.
  intros Hv. unfold het_flags. apply map_ext_in. intros lr Hin. apply filter_In in Hin as [Hin _].
  rewrite Forall_forall in Hv. apply het_pointwise_unpaired, Hv, Hin.
Qed.

Lemma het_frac_shape rows ranges :
  ranges <> [] ->
  het_frac_by_ranges rows ranges = Some (map (fun rg => het_frac_value (het_flags rows rg)) ranges).
Proof. intros H. unfold het_frac_by_ranges. destruct ranges; [congruence | reflexivity]. Qed.
