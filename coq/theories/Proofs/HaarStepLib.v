(* C11: library for the clean-step theorems.
   - window sums of indicator ("unit step") functions and the tent function;
   - FindLocalPeaks on a sequence whose every interior triple is either "quiet"
     (zero, or strictly monotone through the middle) or a strict signed extremum:
     the peaks are exactly the extremal positions;
   - strictly increasing lists are determined by their members. *)
From Coq Require Import QArith.Qabs.
From CNV Require Import Base.Prelude Model.Haar Spec.Haar Proofs.HaarConv Proofs.HaarFlat
  Proofs.HaarUnify Proofs.HaarPeaks.
From Coq Require Import Lqa.

Local Open Scope Q_scope.

(* ---------- more window-sum algebra ---------- *)

Lemma wsum_plus f g a len : wsum (fun j => f j + g j) a len == wsum f a len + wsum g a len.
Proof.
  revert a; induction len as [|m IH]; intros a; cbn [wsum]; [ring|]. rewrite IH. ring.
Qed.

(* unit step at t: Spec.Haar.ustep *)

(* number of j in [k, k + len) with t <= j *)
Definition cnt_ge (t k len : Z) : Z := Z.max 0 (Z.min len (k + len - t)).

Lemma wsum_ustep t k len : wsum (ustep t) k len == inject_Z (cnt_ge t k (Z.of_nat len)).
Proof.
  revert k; induction len as [|m IH]; intros k.
  - cbn [wsum]. unfold cnt_ge. replace (Z.max 0 (Z.min (Z.of_nat 0) (k + Z.of_nat 0 - t))) with 0%Z by lia.
    reflexivity.
  - cbn [wsum]. rewrite IH. unfold ustep, cnt_ge.
    destruct (t <=? k)%Z eqn:E.
    + replace (Z.max 0 (Z.min (Z.of_nat (S m)) (k + Z.of_nat (S m) - t)))
        with (1 + Z.max 0 (Z.min (Z.of_nat m) (k + 1 + Z.of_nat m - t)))%Z by lia.
      rewrite inject_Z_plus. reflexivity.
    + replace (Z.max 0 (Z.min (Z.of_nat (S m)) (k + Z.of_nat (S m) - t)))
        with (Z.max 0 (Z.min (Z.of_nat m) (k + 1 + Z.of_nat m - t)))%Z by lia.
      ring.
Qed.

(* the tent of half-width h centred at t: Spec.Haar.tent / tentQ *)

Lemma cnt_tent t k h : (0 <= h)%Z -> (cnt_ge t k h - cnt_ge t (k - h) h = tent h t k)%Z.
Proof. intros Hh. unfold cnt_ge, tent. lia. Qed.

(* Haar window (upper minus lower sum) of a unit step: the tent *)
Lemma window_ustep t k h :
  (0 <= h)%Z -> wsum (ustep t) k (Z.to_nat h) - wsum (ustep t) (k - h)%Z (Z.to_nat h) == tentQ h t k.
Proof.
  intros Hh. rewrite !wsum_ustep. rewrite Z2Nat.id by lia. unfold tentQ.
  rewrite <- (cnt_tent t k h Hh). unfold Zminus. rewrite inject_Z_plus, inject_Z_opp. ring.
Qed.

Lemma inject_Z_lt a b : (a < b)%Z -> inject_Z a < inject_Z b.
Proof. intros H. rewrite <- Zlt_Qlt. exact H. Qed.

Lemma scaled_lt_pos f a b : 0 < f -> (a < b)%Z -> f * inject_Z a < f * inject_Z b.
Proof. intros Hf H. apply inject_Z_lt in H. nra. Qed.

Lemma scaled_lt_neg f a b : f < 0 -> (a < b)%Z -> f * inject_Z b < f * inject_Z a.
Proof. intros Hf H. apply inject_Z_lt in H. nra. Qed.

(* ---------- strictly increasing lists are determined by their members ---------- *)

Lemma ssorted_ext (l1 l2 : list Z) :
  ssorted l1 -> ssorted l2 -> (forall x, In x l1 <-> In x l2) -> l1 = l2.
Proof.
  revert l2; induction l1 as [|a t IH]; intros l2 S1 S2 H.
  - destruct l2 as [|b u]; [reflexivity|]. exfalso. apply (proj2 (H b)). left; reflexivity.
  - destruct l2 as [|b u]; [exfalso; apply (proj1 (H a)); left; reflexivity|].
    apply ssorted_inv in S1. destruct S1 as [S1 A1]. apply ssorted_inv in S2. destruct S2 as [S2 A2].
    assert (a = b).
    { destruct (proj1 (H a) (or_introl eq_refl)) as [E|Ha]; [congruence|].
      destruct (proj2 (H b) (or_introl eq_refl)) as [E|Hb]; [congruence|].
      specialize (A1 b Hb). specialize (A2 a Ha). lia. }
    subst b. f_equal. apply IH; [exact S1|exact S2|].
    intros x. split; intros Hx.
    + destruct (proj1 (H x) (or_intror Hx)) as [E|Hx2]; [|exact Hx2].
      subst x. specialize (A1 a Hx). lia.
    + destruct (proj2 (H x) (or_intror Hx)) as [E|Hx2]; [|exact Hx2].
      subst x. specialize (A2 a Hx). lia.
Qed.

(* ---------- FindLocalPeaks on strictly classified triples ---------- *)

(* nothing happens at this position: the value is zero, or the sequence passes strictly
   monotonically through it *)
Definition quietT (p c n : Q) : Prop := c == 0 \/ (p < c /\ c < n) \/ (n < c /\ c < p).
(* a strict positive maximum or a strict negative minimum *)
Definition peakT (p c n : Q) : Prop := (0 < c /\ p < c /\ n < c) \/ (c < 0 /\ c < p /\ c < n).

Lemma Qltb_lt x y : x < y -> Qltb x y = true.
Proof.
  intros H. unfold Qltb. apply negb_true_iff. destruct (Qle_bool y x) eqn:E; [|reflexivity].
  apply Qle_bool_iff in E. lra.
Qed.

Lemma Qltb_ge x y : y <= x -> Qltb x y = false.
Proof. intros H. unfold Qltb. apply negb_false_iff, Qle_bool_iff, H. Qed.

Lemma Qeqb_neq x y : ~ x == y -> Qeq_bool x y = false.
Proof.
  intros H. destruct (Qeq_bool x y) eqn:E; [|reflexivity]. apply Qeq_bool_iff in E. contradiction.
Qed.

Lemma flp_step_quiet k p c n st : quietT p c n -> flp_step k p c n st = ([], st).
Proof.
  intros H. unfold flp_step. destruct st as [maxS minS].
  destruct H as [H|[[H1 H2]|[H1 H2]]].
  - rewrite (Qltb_zero_l c H), (Qltb_zero_r c H). reflexivity.
  - destruct (Qltb 0 c) eqn:E0.
    + rewrite (Qltb_lt p c H1), (Qltb_ge n c) by lra. cbn [andb].
      rewrite (Qeqb_neq c n) by lra. rewrite (Qeqb_neq c p) by lra. reflexivity.
    + destruct (Qltb c 0) eqn:E1; [|reflexivity].
      rewrite (Qltb_ge c p) by lra. cbn [andb]. rewrite (Qeqb_neq c p) by lra. reflexivity.
  - destruct (Qltb 0 c) eqn:E0.
    + rewrite (Qltb_ge p c) by lra. cbn [andb]. rewrite (Qeqb_neq c p) by lra. reflexivity.
    + destruct (Qltb c 0) eqn:E1; [|reflexivity].
      rewrite (Qltb_lt c p H2), (Qltb_ge c n) by lra. cbn [andb].
      rewrite (Qeqb_neq c n) by lra. rewrite (Qeqb_neq c p) by lra. reflexivity.
Qed.

Lemma flp_step_peak k p c n st : peakT p c n -> flp_step k p c n st = ([k], st).
Proof.
  intros H. unfold flp_step. destruct st as [maxS minS].
  destruct H as [[H0 [H1 H2]]|[H0 [H1 H2]]].
  - rewrite (Qltb_lt 0 c H0), (Qltb_lt p c H1), (Qltb_lt n c H2). reflexivity.
  - rewrite (Qltb_ge 0 c) by lra. rewrite (Qltb_lt c 0 H0), (Qltb_lt c p H1), (Qltb_lt c n H2). reflexivity.
Qed.

Lemma quiet_not_peak p c n : quietT p c n -> ~ peakT p c n.
Proof. unfold quietT, peakT. intros H1 H2. lra. Qed.

(* triple starting at list index i *)
Definition tripleP (P : Q -> Q -> Q -> Prop) (l : list Q) (i : nat) : Prop :=
  P (nth i l 0) (nth (S i) l 0) (nth (S (S i)) l 0).

Lemma flp_loop_mem : forall l k0 st,
  (forall i, (i + 2 < length l)%nat -> tripleP quietT l i \/ tripleP peakT l i) ->
  forall x, In x (flp_loop l k0 st) <->
            exists i, (i + 2 < length l)%nat /\ x = (k0 + Z.of_nat i)%Z /\ tripleP peakT l i.
Proof.
  induction l as [|p t IH]; intros k0 st Hcl x.
  - cbn. split; [intros []|intros [i [Hi _]]; cbn in Hi; lia].
  - destruct t as [|c t']; [cbn; split; [intros []|intros [i [Hi _]]; cbn in Hi; lia]|].
    destruct t' as [|n t'']; [cbn; split; [intros []|intros [i [Hi _]]; cbn in Hi; lia]|].
    rewrite flp_loop_eq.
    assert (Hcl' : forall i, (i + 2 < length (c :: n :: t''))%nat ->
                     tripleP quietT (c :: n :: t'') i \/ tripleP peakT (c :: n :: t'') i).
    { intros i Hi. apply (Hcl (S i)). cbn [length] in *. lia. }
    destruct (Hcl 0%nat ltac:(cbn [length]; lia)) as [Hq|Hp]; [unfold tripleP in Hq; cbn [nth] in Hq|unfold tripleP in Hp; cbn [nth] in Hp].
    + rewrite (flp_step_quiet k0 p c n st Hq). cbn [app].
      rewrite (IH (k0 + 1)%Z st Hcl' x). split.
      * intros [i [Hi [-> Hpk]]]. exists (S i). split; [cbn [length] in *; lia|]. split; [lia|exact Hpk].
      * intros [i [Hi [-> Hpk]]]. destruct i as [|i].
        { exfalso. apply (quiet_not_peak _ _ _ Hq). exact Hpk. }
        exists i. split; [cbn [length] in *; lia|]. split; [lia|exact Hpk].
    + rewrite (flp_step_peak k0 p c n st Hp). cbn [app In].
      rewrite (IH (k0 + 1)%Z st Hcl' x). split.
      * intros [<-|[i [Hi [-> Hpk]]]].
        { exists 0%nat. split; [cbn [length]; lia|]. split; [lia|exact Hp]. }
        exists (S i). split; [cbn [length] in *; lia|]. split; [lia|exact Hpk].
      * intros [i [Hi [-> Hpk]]]. destruct i as [|i]; [left; lia|].
        right. exists i. split; [cbn [length] in *; lia|]. split; [lia|exact Hpk].
Qed.

(* the same with positions as integers and values through a pointwise description F *)
Lemma find_local_peaks_mem (l : list Q) (F : Z -> Q) :
  let n := Z.of_nat (length l) in
  (forall k, (0 <= k < n)%Z -> qnth l k == F k) ->
  (forall k, (1 <= k <= n - 2)%Z ->
     quietT (F (k - 1)%Z) (F k) (F (k + 1)%Z) \/ peakT (F (k - 1)%Z) (F k) (F (k + 1)%Z)) ->
  forall x, In x (find_local_peaks l) <->
            ((1 <= x <= n - 2)%Z /\ peakT (F (x - 1)%Z) (F x) (F (x + 1)%Z)).
Proof.
  intros n HF Hcl x.
  assert (E : forall i, (i + 2 < length l)%nat -> forall P : Q -> Q -> Q -> Prop,
            (forall a a' b b' c c', a == a' -> b == b' -> c == c' -> P a b c -> P a' b' c') ->
            P (F (1 + Z.of_nat i - 1)%Z) (F (1 + Z.of_nat i)%Z) (F (1 + Z.of_nat i + 1)%Z) -> tripleP P l i).
  { intros i Hi P HP H. unfold tripleP.
    pose proof (HF (Z.of_nat i) ltac:(lia)) as E0.
    pose proof (HF (Z.of_nat (S i)) ltac:(lia)) as E1.
    pose proof (HF (Z.of_nat (S (S i))) ltac:(lia)) as E2.
    unfold qnth in E0, E1, E2. rewrite Nat2Z.id in E0, E1, E2.
    eapply HP; [| | |exact H]; symmetry.
    - replace (1 + Z.of_nat i - 1)%Z with (Z.of_nat i) by lia. exact E0.
    - replace (1 + Z.of_nat i)%Z with (Z.of_nat (S i)) by lia. exact E1.
    - replace (1 + Z.of_nat i + 1)%Z with (Z.of_nat (S (S i))) by lia. exact E2. }
  assert (E' : forall i, (i + 2 < length l)%nat -> forall P : Q -> Q -> Q -> Prop,
            (forall a a' b b' c c', a == a' -> b == b' -> c == c' -> P a b c -> P a' b' c') ->
            tripleP P l i -> P (F (1 + Z.of_nat i - 1)%Z) (F (1 + Z.of_nat i)%Z) (F (1 + Z.of_nat i + 1)%Z)).
  { intros i Hi P HP H. unfold tripleP in H.
    pose proof (HF (Z.of_nat i) ltac:(lia)) as E0.
    pose proof (HF (Z.of_nat (S i)) ltac:(lia)) as E1.
    pose proof (HF (Z.of_nat (S (S i))) ltac:(lia)) as E2.
    unfold qnth in E0, E1, E2. rewrite Nat2Z.id in E0, E1, E2.
    eapply HP; [| | |exact H].
    - replace (1 + Z.of_nat i - 1)%Z with (Z.of_nat i) by lia. exact E0.
    - replace (1 + Z.of_nat i)%Z with (Z.of_nat (S i)) by lia. exact E1.
    - replace (1 + Z.of_nat i + 1)%Z with (Z.of_nat (S (S i))) by lia. exact E2. }
  assert (Pq : forall a a' b b' c c', a == a' -> b == b' -> c == c' -> quietT a b c -> quietT a' b' c').
  { unfold quietT. intros a a' b b' c c' H1 H2 H3 [H|[H|H]]; [left|right; left|right; right]; lra. }
  assert (Pp : forall a a' b b' c c', a == a' -> b == b' -> c == c' -> peakT a b c -> peakT a' b' c').
  { unfold peakT. intros a a' b b' c c' H1 H2 H3 [H|H]; [left|right]; lra. }
  unfold find_local_peaks. rewrite flp_loop_mem.
  - split.
    + intros [i [Hi [-> Hpk]]]. split; [lia|]. apply (E' i Hi peakT Pp Hpk).
    + intros [Hx Hpk]. exists (Z.to_nat (x - 1)). split; [lia|]. split; [lia|].
      apply (E (Z.to_nat (x - 1)) ltac:(lia) peakT Pp). replace (1 + Z.of_nat (Z.to_nat (x - 1)))%Z with x by lia. exact Hpk.
  - intros i Hi. destruct (Hcl (1 + Z.of_nat i)%Z ltac:(lia)) as [H|H].
    + left. apply (E i Hi quietT Pq H).
    + right. apply (E i Hi peakT Pp H).
Qed.

(* ---------- triples of a scaled tent ---------- *)

Lemma tent_quiet f h t k :
  ~ f == 0 -> k <> t ->
  quietT (f * tentQ h t (k - 1)) (f * tentQ h t k) (f * tentQ h t (k + 1)).
Proof.
  intros Hf Hk. unfold quietT, tentQ.
  assert (C : (tent h t k = 0 \/ (tent h t (k - 1) < tent h t k /\ tent h t k < tent h t (k + 1))
              \/ (tent h t (k + 1) < tent h t k /\ tent h t k < tent h t (k - 1)))%Z).
  { unfold tent. lia. }
  destruct C as [C|[[C1 C2]|[C1 C2]]].
  - left. rewrite C. ring.
  - destruct (Qlt_le_dec 0 f) as [Hp|Hn].
    + right; left. split; apply scaled_lt_pos; assumption.
    + assert (f < 0) by (destruct (Qeq_dec f 0); [contradiction|lra]).
      right; right. split; apply scaled_lt_neg; assumption.
  - destruct (Qlt_le_dec 0 f) as [Hp|Hn].
    + right; right. split; apply scaled_lt_pos; assumption.
    + assert (f < 0) by (destruct (Qeq_dec f 0); [contradiction|lra]).
      right; left. split; apply scaled_lt_neg; assumption.
Qed.

Lemma tent_peak f h t :
  ~ f == 0 -> (1 <= h)%Z ->
  peakT (f * tentQ h t (t - 1)) (f * tentQ h t t) (f * tentQ h t (t + 1)).
Proof.
  intros Hf Hh. unfold peakT, tentQ.
  assert (C : (0 < tent h t t /\ tent h t (t - 1) < tent h t t /\ tent h t (t + 1) < tent h t t)%Z).
  { unfold tent. lia. }
  destruct C as [C0 [C1 C2]].
  destruct (Qlt_le_dec 0 f) as [Hp|Hn].
  - left. split; [|split; apply scaled_lt_pos; assumption].
    pose proof (scaled_lt_pos f 0 _ Hp C0) as X. change (inject_Z 0) with 0 in X. lra.
  - assert (f < 0) by (destruct (Qeq_dec f 0); [contradiction|lra]).
    right. split; [|split; apply scaled_lt_neg; assumption].
    pose proof (scaled_lt_neg f 0 _ H C0) as X. change (inject_Z 0) with 0 in X. lra.
Qed.

Lemma tent_zero h t k : (h <= Z.abs (k - t))%Z -> tentQ h t k = 0.
Proof. intros H. unfold tentQ, tent. replace (Z.max 0 (h - Z.abs (k - t))) with 0%Z by lia. reflexivity. Qed.

Lemma tent_not_peak f h t k :
  k <> t -> ~ peakT (f * tentQ h t (k - 1)) (f * tentQ h t k) (f * tentQ h t (k + 1)).
Proof.
  intros Hk. destruct (Qeq_dec f 0) as [E|E].
  - unfold peakT. intros H. rewrite E in H. lra.
  - apply quiet_not_peak, tent_quiet; assumption.
Qed.
