(* C15 function-body tie of guess_xx (cnvlib/cnary.py), the WHOLE function, translated on every run (Gen/FnCnaryGuess.v):

       is_xy, stats = self.compare_sex_chromosomes(is_haploid_x_reference, diploid_parx_genome)
       if is_xy is None: return None
       if verbose: logging.info(...)
       return ~is_xy

   Model/Sex.v's guess_xx is the generated function on the model's decision: None stays None, otherwise negated. *)
From CNV Require Import Base.Prelude Base.Str Base.QNum Gen.CenterDefaults Model.Center Model.Sex Gen.FnCnaryGuess.

Theorem fn_guess_xx_eq gstat hap build t keys verbose :
  guess_xx gstat hap build t = fn_guess_xx (sex_decision gstat hap build t) keys verbose.
Proof. unfold guess_xx, fn_guess_xx. destruct (sex_decision gstat hap build t); reflexivity. Qed.
