(* C01 source tie of the `call` command's purity handling (cnvlib/commands.py _cmd_call), in front of do_call:

       if args.purity and not 0.0 < args.purity <= 1.0: raise RuntimeError("Purity must be between 0 and 1.")
       ...
       is_sample_female = (verify_sample_sex(...) if args.purity and args.purity < 1.0 else None)

   Both are regenerated from the Python source on every run (Gen/FnCallCmdGuards.v: the guard's test as
   fn_purity_rejected -- that it is the first statement and guards a RuntimeError is checked on the syntax tree by
   tools/fnspecs/z_call_rows.py --, the assignment as fn_cmd_sample_sex).  Here: the purities the command lets through are
   exactly the premise `valid_purity` of C01_cn_exact / C01_do_call_clonal (none, or 0 < p <= 1) plus the value 0, which
   Python's truthiness reads as "no purity" (use_purity answers None for it: the pure path); and the sample's sex is
   looked up exactly when Model/Call.v use_purity answers, i.e. on the purity-adjusted path that reads it. *)
From CNV Require Import Base.Prelude Base.Str Gen.CallDefaults Gen.FnCallCmdGuards Model.Call.
From CNV Require Proofs.Call.
From Coq Require Import Lqa.
Local Open Scope Q_scope.

Lemma source_purity_guard (purity : option Q) :
  fn_purity_rejected purity = false <-> (Call.valid_purity purity \/ exists p, purity = Some p /\ p == 0).
Proof.
  unfold fn_purity_rejected, Call.valid_purity. destruct purity as [p|].
  - change (inject_Z 0) with 0. change (inject_Z 1) with 1.
    destruct (Qeq_bool p 0) eqn:E0; cbn [negb andb].
    + apply Qeq_bool_iff in E0. split; [|reflexivity]. intros _. right. exists p. split; [reflexivity | exact E0].
    + assert (N0 : ~ p == 0). { intro H. apply Qeq_bool_iff in H. congruence. }
      destruct (Qle_bool p 0) eqn:E1; cbn [negb andb].
      * apply Qle_bool_iff in E1. split; [discriminate|].
        intros [[H _] | [q [H Hq]]]; [lra | injection H as <-; contradiction].
      * assert (P : 0 < p). { apply Qnot_le_lt. intro H. apply Qle_bool_iff in H. congruence. }
        destruct (Qle_bool p 1) eqn:E2; cbn [negb].
        -- apply Qle_bool_iff in E2. split; [|reflexivity]. intros _. left. split; assumption.
        -- split; [discriminate|].
           intros [[_ H] | [q [H Hq]]]; [apply Qle_bool_iff in H; congruence | injection H as <-; contradiction].
  - split; [|reflexivity]. intros _. left. exact I.
Qed.

Lemma source_cmd_sample_sex (purity : option Q) (verified : option bool) :
  fn_cmd_sample_sex purity verified = match use_purity purity with Some _ => verified | None => None end.
Proof.
  unfold fn_cmd_sample_sex, use_purity. cbv zeta. destruct purity as [p|]; [|reflexivity].
  change purity_limit with (inject_Z 1). destruct (negb (Qeq_bool p 0) && negb (Qle_bool (inject_Z 1) p)); reflexivity.
Qed.
