(* C12: the scalar arithmetic of cnvlib/antitarget.py and skgenome/subdivide.py as TRANSLATED
   from the source (Gen/FnBins.v, Gen/FnBinsSplit.v, tools/fnspecs/bins.py) equals the
   hand-written model (Model/Target.v, Model/Antitarget.v); the model's integer rule for the
   number of bins is round-half-even of the exact rational span / avg; and a float quotient
   can change that number only when it lands exactly on a tie the exact quotient is not on. *)
From Coq Require Import Qround Qabs.
From CNV Require Import Base.Prelude Base.Str Base.QNum Model.IvRow Model.Intervals
  Model.Target Model.Antitarget Spec.Cover Spec.Bins.
From CNV Require Import Proofs.QNumLemmas Proofs.IvSubdivide Proofs.TargetSplit Proofs.AntitargetContigs
  Proofs.Antitarget.
From Coq Require Import Psatz.
From CNV Require Gen.BinsDefaults Gen.FnBins Gen.FnBinsSplit.

(* ---- round(span / avg): the model's integer rule is round-half-even of the quotient -------- *)

Lemma round_half_even_frac (S : Z) (p : positive) : round_half_even (S # p) = round_div S (Zpos p).
Proof.
  unfold round_half_even, round_div.
  change (Qfloor (S # p)) with (S / Zpos p).
  pose proof (Z.div_mod S (Zpos p) ltac:(lia)) as Hdm.
  pose proof (Z.mod_pos_bound S (Zpos p) ltac:(lia)) as Hr.
  set (q := S / Zpos p) in *. set (r := S mod Zpos p) in *.
  assert (Ecmp : ((S # p) - inject_Z q ?= 1 # 2)%Q = (2 * r ?= Zpos p)).
  { unfold Qcompare, Qminus, Qplus, Qopp, inject_Z. cbn [Qnum Qden].
    rewrite ?Pos2Z.inj_mul, ?Z.mul_1_r, ?Z.mul_1_l.
    replace ((S + - q * Z.pos p) * 2) with (2 * r) by lia. reflexivity. }
  rewrite Ecmp.
  destruct (Z.compare_spec (2 * r) (Zpos p)) as [He|Hl|Hg].
  - assert (E1 : 2 * r <? Z.pos p = false) by lia. assert (E2 : Z.pos p <? 2 * r = false) by lia.
    rewrite E1, E2. reflexivity.
  - assert (E1 : 2 * r <? Z.pos p = true) by lia. rewrite E1. reflexivity.
  - assert (E1 : 2 * r <? Z.pos p = false) by lia. assert (E2 : Z.pos p <? 2 * r = true) by lia.
    rewrite E1, E2. reflexivity.
Qed.

Lemma span_over_avg (avg : Q) (span : Z) (p : positive) :
  Qnum avg = Zpos p -> (inject_Z span / avg == (span * Zpos (Qden avg)) # p)%Q.
Proof.
  destruct avg as [a d]. cbn [Qnum Qden]. intros ->.
  unfold Qeq, Qdiv, Qmult, Qinv, inject_Z. cbn [Qnum Qden]. rewrite ?Pos2Z.inj_mul. ring.
Qed.

Lemma round_div_round_half_even (avg : Q) (span : Z) : (0 < avg)%Q ->
  round_div (span * Zpos (Qden avg)) (Qnum avg) = round_half_even (inject_Z span / avg).
Proof.
  intros Ha. assert (Hn : 0 < Qnum avg) by (destruct avg as [a d]; unfold Qlt in Ha; cbn in *; lia).
  destruct (Qnum avg) as [|p|p] eqn:En; try lia.
  rewrite (round_half_even_Proper _ _ (span_over_avg avg span p En)).
  symmetry. apply round_half_even_frac.
Qed.

(* C12_nbins_round: the number of bins is max(1, round_half_even(span / avg)), exactly *)
Lemma nbins_q_round (avg : Q) (span : Z) : (0 < avg)%Q -> 0 <= span ->
  nbins_q avg span = Z.max 1 (round_half_even (inject_Z span / avg)).
Proof.
  intros Ha Hs. rewrite <- round_div_round_half_even by exact Ha.
  apply nbins_q_max; [|exact Hs]. destruct avg as [a d]; unfold Qlt in Ha; cbn in *; lia.
Qed.

(* `int(round(span / avg_size)) or 1`: the model's nbins, without the detour through max *)
Lemma nbins_q_or1 (avg : Q) (span : Z) : (0 < avg)%Q ->
  nbins_q avg span =
  (let n := round_half_even (inject_Z span / avg) in if n =? 0 then 1 else n).
Proof.
  intros Ha. cbv zeta. rewrite <- round_div_round_half_even by exact Ha. reflexivity.
Qed.

(* ---- floating point: where the number of bins can differ from the exact rule ----------------- *)

(* round_half_even q = k exactly when q is strictly within 1/2 of k, or on a tie next to the even k *)
Lemma round_half_even_cases q :
  let k := round_half_even q in
  (inject_Z k - (1 # 2) < q /\ q < inject_Z k + (1 # 2))%Q \/
  ((q == inject_Z k + (1 # 2))%Q /\ Z.even k = true) \/ ((q == inject_Z k - (1 # 2))%Q /\ Z.even k = true).
Proof.
  cbv zeta. unfold round_half_even. destruct (frac_bounds q) as [F0 F1].
  destruct (q - inject_Z (Qfloor q) ?= 1 # 2)%Q eqn:C.
  - apply Qeq_alt in C.
    assert (C1 : (q - inject_Z (Qfloor q) <= 1 # 2)%Q) by (rewrite C; apply Qle_refl).
    assert (C2 : (1 # 2 <= q - inject_Z (Qfloor q))%Q) by (rewrite C; apply Qle_refl).
    destruct (Z.even (Qfloor q)) eqn:Ev.
    + right; left. split; [apply Qle_antisym; lra | exact Ev].
    + right; right. rewrite inject_Z_plus. change (inject_Z 1) with 1%Q. split; [apply Qle_antisym; lra|].
      rewrite Z.even_add, Ev. reflexivity.
  - apply Qlt_alt in C. left. split; lra.
  - apply Qgt_alt in C. left. rewrite inject_Z_plus. change (inject_Z 1) with 1%Q. split; lra.
Qed.

Lemma inject_Z_succ_le (a b : Z) : a < b -> (inject_Z a + 1 <= inject_Z b)%Q.
Proof.
  intros H. change 1%Q with (inject_Z 1). rewrite <- inject_Z_plus. rewrite <- Zle_Qle. lia.
Qed.

Lemma round_half_even_strict q k :
  (inject_Z k - (1 # 2) < q)%Q -> (q < inject_Z k + (1 # 2))%Q -> round_half_even q = k.
Proof.
  intros H1 H2. pose proof (round_half_even_spec q) as Hs. apply Qabs_Qle_condition in Hs as [Hs1 Hs2].
  set (k' := round_half_even q) in *.
  destruct (Z.lt_trichotomy k' k) as [Hlt|[Heq|Hgt]]; [exfalso|exact Heq|exfalso].
  - pose proof (inject_Z_succ_le k' k Hlt). lra.
  - pose proof (inject_Z_succ_le k k' Hgt). lra.
Qed.

(* C12_nbins_float: a monotone rounding q' of the exact quotient q that fixes the half-integers
   (IEEE division: correctly rounded, and every half-integer below 2^52 is a double) rounds to
   the same integer as q unless q' is a tie and q is not *)
Lemma round_half_even_rounding (q q' : Q) :
  rounding_of q q' -> (~ is_tie q' \/ (q == q')%Q) -> round_half_even q' = round_half_even q.
Proof.
  intros Hr [Hnt|Heq]; [|apply round_half_even_Proper; symmetry; exact Heq].
  set (k := round_half_even q').
  destruct (round_half_even_cases q') as [[A B]|[[A _]|[A _]]]; fold k in A; try fold k in B.
  - symmetry. apply round_half_even_strict.
    + (* q <= k - 1/2 would force q' <= k - 1/2 *)
      destruct (Qlt_le_dec (inject_Z k - (1 # 2)) q) as [H|H]; [exact H|exfalso].
      destruct (Hr (k - 1)) as [H1 _]. unfold half in H1.
      assert (E : (inject_Z (k - 1) + (1 # 2) == inject_Z k - (1 # 2))%Q).
      { unfold Qeq, Qplus, Qminus, Qopp, inject_Z. simpl. lia. }
      rewrite E in H1. specialize (H1 H). lra.
    + destruct (Qlt_le_dec q (inject_Z k + (1 # 2))) as [H|H]; [exact H|exfalso].
      destruct (Hr k) as [_ H2]. unfold half in H2. specialize (H2 H). lra.
  - exfalso. apply Hnt. exists k. exact A.
  - exfalso. apply Hnt. exists (k - 1). unfold half.
    rewrite A. unfold Qeq, Qplus, Qminus, Qopp, inject_Z. simpl. lia.
Qed.

(* ---- source ties ------------------------------------------------------------------------------ *)

Section Source.
Variable exp2 : Q -> Q.
(* the contract used: 2 ** -5 = 1/32 (Base/RealFacts.v proves it of the real function) *)
Hypothesis exp2_m5 : (exp2 (-5 # 1) == 1 # 32)%Q.

Lemma trunc_fn (x y : Q) : (x == y)%Q ->
  trunc x = (if Qle_bool 0 y then floorQ y else ceilQ y).
Proof.
  intros E. unfold trunc, floorQ, ceilQ.
  assert (Eb : Qle_bool 0 x = Qle_bool 0 y).
  { destruct (Qle_bool 0 x) eqn:Ex, (Qle_bool 0 y) eqn:Ey; try reflexivity.
    - apply Qle_bool_iff in Ex. rewrite E in Ex. apply Qle_bool_iff in Ex. congruence.
    - apply Qle_bool_iff in Ey. rewrite <- E in Ey. apply Qle_bool_iff in Ey. congruence. }
  rewrite Eb. destruct (Qle_bool 0 y); [apply Qfloor_comp | apply Qceiling_comp]; exact E.
Qed.

(* min_bin_size = 2 * int(avg_bin_size * (2 ** MIN_REF_COVERAGE)) *)
Lemma fn_default_min_eq (avg : Q) :
  default_min_size avg = Some (FnBins.fn_default_min exp2 avg Gen.BinsDefaults.MIN_REF_COVERAGE).
Proof.
  unfold default_min_size, FnBins.fn_default_min. rewrite pow_int_min_ref.
  change Gen.BinsDefaults.min_size_factor with 2. f_equal. f_equal.
  apply trunc_fn. rewrite Qred_correct.
  change Gen.BinsDefaults.MIN_REF_COVERAGE with (-5 # 1)%Q. rewrite exp2_m5. reflexivity.
Qed.

(* if not min_bin_size: min_bin_size = <default>   (min_bin_size an integer; None: effective_min) *)
Lemma fn_effective_min_eq (avg : Q) (m : Z) :
  effective_min avg (Some m) = Some (FnBins.fn_effective_min exp2 avg m Gen.BinsDefaults.MIN_REF_COVERAGE).
Proof.
  unfold effective_min, FnBins.fn_effective_min. rewrite negb_involutive.
  destruct (m =? 0); [|reflexivity]. apply fn_default_min_eq.
Qed.

Lemma fn_effective_min_none (avg : Q) :
  effective_min avg None = Some (FnBins.fn_effective_min exp2 avg 0 Gen.BinsDefaults.MIN_REF_COVERAGE).
Proof. rewrite <- fn_effective_min_eq. reflexivity. Qed.

End Source.

(* pad_size = 2 * INSERT_SIZE; TELOMERE_SIZE = 150000 -- with the literal numbers of the property *)
Lemma fn_pad_size_eq : FnBins.fn_pad_size Gen.BinsDefaults.INSERT_SIZE = pad_size /\ pad_size = 500.
Proof. split; reflexivity. Qed.

Lemma fn_telomere_eq : FnBins.fn_telomere_size = Gen.BinsDefaults.TELOMERE_SIZE /\ FnBins.fn_telomere_size = 150000.
Proof. split; reflexivity. Qed.

(* the scalar head of _split_targets' loop body *)
Lemma fn_split_scalar_eq {A} (avg : Q) (mn : Z) (cut : Z -> Z -> Z -> Z) (r : @row A) : (0 < avg)%Q ->
  let '(span, keep, count) := FnBinsSplit.fn_split_scalar (lo r) (hi r) avg mn in
  span = hi r - lo r /\ keep = negb (span <? mn) /\
  nbins_q avg span = (if count =? 0 then 1 else count) /\
  split_row_q avg mn cut r =
    (if keep then
       let n := if count =? 0 then 1 else count in
       if n =? 1 then [r] else bins_from (cut span n) (lo r) (lo r) 1 (Z.to_nat (n - 1)) (hi r) (pay r)
     else []).
Proof.
  intros Ha. unfold FnBinsSplit.fn_split_scalar. cbv zeta.
  split; [reflexivity|]. split; [apply Z.leb_antisym|].
  pose proof (nbins_q_or1 avg (hi r - lo r) Ha) as Hn. cbv zeta in Hn.
  split; [exact Hn|]. unfold split_row_q. rewrite Z.ltb_antisym.
  destruct (mn <=? hi r - lo r); cbn [negb]; [|reflexivity]. rewrite Hn. reflexivity.
Qed.
