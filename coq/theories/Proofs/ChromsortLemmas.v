(* Lemmas about Model/Chromsort.v: the key comparison is a total order on keys
   (total preorder on rows), the stable sort is a sorted, stable permutation and
   idempotent; shape of sorter_chrom's key per class of chromosome name. *)
From CNV Require Import Base.Prelude Base.Str Model.Chromsort.

(* ------------------------------------------------------------------------ *)
(* comparisons that are total orders                                          *)

Definition good_cmp {A} (cmp : A -> A -> comparison) : Prop :=
  (forall a, cmp a a = Eq) /\
  (forall a b, cmp a b = CompOpp (cmp b a)) /\
  (forall a b, cmp a b = Eq -> a = b) /\
  (forall a b c, cmp a b = Lt -> cmp b c = Lt -> cmp a c = Lt).

Definition lex_cmp {A B} (c1 : A -> A -> comparison) (c2 : B -> B -> comparison)
  (x y : A * B) : comparison :=
  match c1 (fst x) (fst y) with Eq => c2 (snd x) (snd y) | c => c end.

Lemma lex_good {A B} (c1 : A -> A -> comparison) (c2 : B -> B -> comparison) :
  good_cmp c1 -> good_cmp c2 -> good_cmp (lex_cmp c1 c2).
Proof.
  intros (R1 & A1 & E1 & T1) (R2 & A2 & E2 & T2). unfold lex_cmp.
  split; [|split; [|split]].
  - intros [a b]; cbn. now rewrite R1, R2.
  - intros [a b] [a' b']; cbn. rewrite (A1 a a').
    destruct (c1 a' a); cbn; auto.
  - intros [a b] [a' b']; cbn. destruct (c1 a a') eqn:H1; try discriminate.
    intros H2. apply E1 in H1. apply E2 in H2. now subst.
  - intros [a b] [a' b'] [a'' b'']; cbn.
    destruct (c1 a a') eqn:H1; try discriminate;
    destruct (c1 a' a'') eqn:H2; try discriminate; intros H3 H4.
    + apply E1 in H1, H2. subst. rewrite R1. eauto.
    + apply E1 in H1. subst. now rewrite H2.
    + apply E1 in H2. subst. now rewrite H1.
    + now rewrite (T1 _ _ _ H1 H2).
Qed.

Lemma Z_compare_good : good_cmp Z.compare.
Proof.
  split; [|split; [|split]].
  - apply Z.compare_refl.
  - intros a b. apply Z.compare_antisym.
  - intros a b. apply Z.compare_eq.
  - intros a b c. rewrite !Z.compare_lt_iff. lia.
Qed.

Lemma ascii_compare_good : good_cmp Ascii.compare.
Proof.
  unfold Ascii.compare. split; [|split; [|split]].
  - intros a. apply N.compare_refl.
  - intros a b. apply N.compare_antisym.
  - intros a b H. apply N.compare_eq in H.
    rewrite <- (ascii_N_embedding a), <- (ascii_N_embedding b). now rewrite H.
  - intros a b c. rewrite !N.compare_lt_iff. lia.
Qed.

Lemma string_compare_good : good_cmp String.compare.
Proof.
  destruct ascii_compare_good as (R1 & A1 & E1 & T1).
  split; [|split; [|split]].
  - induction a as [|c s IH]; cbn; auto. now rewrite R1.
  - apply String.compare_antisym.
  - apply String.compare_eq_iff.
  - induction a as [|x a IH]; intros [|y b] [|z c]; cbn; try discriminate; auto.
    destruct (Ascii.compare x y) eqn:H1; try discriminate;
    destruct (Ascii.compare y z) eqn:H2; try discriminate; intros H3 H4.
    + apply E1 in H1, H2. subst. rewrite R1. eauto.
    + apply E1 in H1. subst. now rewrite H2.
    + apply E1 in H2. subst. now rewrite H1.
    + now rewrite (T1 _ _ _ H1 H2).
Qed.

Lemma ckey_compare_good : good_cmp ckey_compare.
Proof. exact (lex_good _ _ Z_compare_good string_compare_good). Qed.

Lemma rkey_compare_lex (a b : rkey) :
  rkey_compare a b = lex_cmp (lex_cmp ckey_compare Z.compare) Z.compare a b.
Proof.
  destruct a as [[ka sa] ea], b as [[kb sb] eb]. unfold rkey_compare, lex_cmp. cbn.
  destruct (ckey_compare ka kb); auto.
Qed.

Lemma rkey_compare_good : good_cmp rkey_compare.
Proof.
  pose proof (lex_good _ _ (lex_good _ _ ckey_compare_good Z_compare_good) Z_compare_good) as G.
  destruct G as (R & A & E & T).
  split; [|split; [|split]]; intros; rewrite ?rkey_compare_lex in *; eauto.
Qed.

(* leb derived from a good comparison is total and transitive *)
Section LebOfCmp.
  Context {A : Type} (cmp : A -> A -> comparison) (G : good_cmp cmp).
  Let leb (a b : A) : bool := match cmp a b with Gt => false | _ => true end.

  Lemma cmp_leb_total a b : leb a b = true \/ leb b a = true.
  Proof.
    destruct G as (_ & An & _ & _). unfold leb. rewrite (An b a).
    destruct (cmp a b); cbn; auto.
  Qed.

  Lemma cmp_leb_trans a b c : leb a b = true -> leb b c = true -> leb a c = true.
  Proof.
    destruct G as (R & An & E & T). unfold leb.
    destruct (cmp a b) eqn:H1; try discriminate;
    destruct (cmp b c) eqn:H2; try discriminate; intros _ _.
    - apply E in H1, H2. subst. now rewrite R.
    - apply E in H1. subst. now rewrite H2.
    - apply E in H2. subst. now rewrite H1.
    - now rewrite (T _ _ _ H1 H2).
  Qed.

  Lemma cmp_leb_antisym a b : leb a b = true -> leb b a = true -> a = b.
  Proof.
    destruct G as (R & An & E & T). unfold leb. rewrite (An b a).
    destruct (cmp a b) eqn:H; cbn; try discriminate; auto.
  Qed.
End LebOfCmp.

Lemma ckey_leb_total a b : ckey_leb a b = true \/ ckey_leb b a = true.
Proof. exact (cmp_leb_total _ ckey_compare_good a b). Qed.
Lemma ckey_leb_trans a b c : ckey_leb a b = true -> ckey_leb b c = true -> ckey_leb a c = true.
Proof. exact (cmp_leb_trans _ ckey_compare_good a b c). Qed.
Lemma ckey_leb_antisym a b : ckey_leb a b = true -> ckey_leb b a = true -> a = b.
Proof. exact (cmp_leb_antisym _ ckey_compare_good a b). Qed.
Lemma ckey_leb_refl a : ckey_leb a a = true.
Proof. destruct (ckey_leb_total a a); auto. Qed.

Lemma rkey_leb_total a b : rkey_leb a b = true \/ rkey_leb b a = true.
Proof. exact (cmp_leb_total _ rkey_compare_good a b). Qed.
Lemma rkey_leb_trans a b c : rkey_leb a b = true -> rkey_leb b c = true -> rkey_leb a c = true.
Proof. exact (cmp_leb_trans _ rkey_compare_good a b c). Qed.
Lemma rkey_leb_antisym a b : rkey_leb a b = true -> rkey_leb b a = true -> a = b.
Proof. exact (cmp_leb_antisym _ rkey_compare_good a b). Qed.
Lemma rkey_leb_refl a : rkey_leb a a = true.
Proof. destruct (rkey_leb_total a a); auto. Qed.

(* rkey_leb spelled out: lexicographic on (chromosome key, start, end) *)
Lemma rkey_leb_spec ka sa ea kb sb eb :
  rkey_leb (ka, sa, ea) (kb, sb, eb) = true <->
  ckey_ltb ka kb = true \/
  (ka = kb /\ (sa < sb \/ (sa = sb /\ ea <= eb))).
Proof.
  unfold rkey_leb, rkey_compare, ckey_ltb.
  destruct ckey_compare_good as (R & An & E & T).
  destruct (ckey_compare ka kb) eqn:H.
  - apply E in H. subst kb.
    destruct (Z.compare_spec sa sb) as [Hs|Hs|Hs].
    + destruct (Z.compare_spec ea eb) as [He|He|He].
      * split; intros H0; [right; split; [reflexivity|lia] | reflexivity].
      * split; intros H0; [right; split; [reflexivity|lia] | reflexivity].
      * split; [discriminate | intros [H0|[_ H0]]; [discriminate|lia]].
    + split; intros H0; [right; split; [reflexivity|lia] | reflexivity].
    + split; [discriminate | intros [H0|[_ H0]]; [discriminate|lia]].
  - split; auto.
  - split; try discriminate. intros [H0|[-> _]]; [discriminate|].
    rewrite R in H. discriminate.
Qed.

(* ------------------------------------------------------------------------ *)
(* the stable sort                                                            *)

Section StableSort.
  Context {A : Type} (leb : A -> A -> bool).
  Hypothesis leb_total : forall a b, leb a b = true \/ leb b a = true.
  Hypothesis leb_trans : forall a b c, leb a b = true -> leb b c = true -> leb a c = true.

  Let R (a b : A) : Prop := leb a b = true.

  Lemma insert_by_perm x l : Permutation (x :: l) (insert_by leb x l).
  Proof.
    induction l as [|y t IH]; cbn; auto.
    destruct (leb x y); auto.
    eapply perm_trans; [apply perm_swap|]. now constructor.
  Qed.

  Lemma stable_sort_perm l : Permutation l (stable_sort leb l).
  Proof.
    induction l as [|x t IH]; cbn; auto.
    eapply perm_trans; [|apply insert_by_perm]. now constructor.
  Qed.

  Lemma stable_sort_length l : length (stable_sort leb l) = length l.
  Proof. symmetry. apply Permutation_length, stable_sort_perm. Qed.

  Lemma stable_sort_In x l : In x (stable_sort leb l) <-> In x l.
  Proof.
    split; intros H.
    - eapply Permutation_in; [symmetry; apply stable_sort_perm| exact H].
    - eapply Permutation_in; [apply stable_sort_perm| exact H].
  Qed.

  Lemma insert_by_sorted x l : StronglySorted R l -> StronglySorted R (insert_by leb x l).
  Proof.
    induction l as [|y t IH]; cbn; intros HS.
    - repeat constructor.
    - inversion HS as [|? ? HS' HF]; subst.
      destruct (leb x y) eqn:Hxy.
      + constructor; auto. constructor; auto.
        eapply Forall_impl; [|exact HF]. intros z Hz. eapply leb_trans; eauto.
      + constructor; auto.
        assert (Hyx : R y x) by (destruct (leb_total x y); [congruence| auto]).
        eapply Permutation_Forall; [apply insert_by_perm|]. constructor; auto.
  Qed.

  Lemma stable_sort_sorted l : StronglySorted R (stable_sort leb l).
  Proof.
    induction l as [|x t IH]; cbn; [constructor|]. now apply insert_by_sorted.
  Qed.

  (* a sorted list is left unchanged *)
  Lemma stable_sort_sorted_id l : Sorted R l -> stable_sort leb l = l.
  Proof.
    induction l as [|x t IH]; cbn; auto. intros HS.
    inversion HS as [|? ? HS' HR]; subst. rewrite (IH HS').
    destruct t as [|y t']; cbn; auto.
    inversion HR; subst. unfold R in *. now rewrite H0.
  Qed.

  Lemma stable_sort_idem l : stable_sort leb (stable_sort leb l) = stable_sort leb l.
  Proof. apply stable_sort_sorted_id, StronglySorted_Sorted, stable_sort_sorted. Qed.

  (* stability: for every pivot z, the elements equivalent to z (leb both
     ways) appear in the output in their input order *)
  Definition equivb (z y : A) : bool := leb z y && leb y z.

  Lemma insert_by_filter z x l :
    filter (equivb z) (insert_by leb x l) = filter (equivb z) (x :: l).
  Proof.
    induction l as [|y t IH]; cbn [insert_by]; auto.
    destruct (leb x y) eqn:Hxy; auto.
    cbn [filter] in *. rewrite IH.
    destruct (equivb z x) eqn:Hzx; auto.
    destruct (equivb z y) eqn:Hzy; auto.
    exfalso. unfold equivb in *.
    apply andb_true_iff in Hzx, Hzy. destruct Hzx as [Hzx Hxz], Hzy as [Hzy Hyz].
    assert (leb x y = true) by (eapply leb_trans; eauto). congruence.
  Qed.

  Lemma stable_sort_stable z l :
    filter (equivb z) (stable_sort leb l) = filter (equivb z) l.
  Proof.
    induction l as [|x t IH]; cbn [stable_sort]; auto.
    rewrite insert_by_filter. cbn [filter]. now rewrite IH.
  Qed.
End StableSort.

(* sorting commutes with decoration by a key function *)
Lemma insert_by_map {A B} (f : A -> B) (lebB : B -> B -> bool) x l :
  map f (insert_by (fun a b => lebB (f a) (f b)) x l) = insert_by lebB (f x) (map f l).
Proof.
  induction l as [|y t IH]; cbn; auto.
  destruct (lebB (f x) (f y)); cbn; auto. now rewrite IH.
Qed.

Lemma stable_sort_map {A B} (f : A -> B) (lebB : B -> B -> bool) l :
  map f (stable_sort (fun a b => lebB (f a) (f b)) l) = stable_sort lebB (map f l).
Proof.
  induction l as [|x t IH]; cbn; auto. now rewrite insert_by_map, IH.
Qed.

Lemma stable_sort_ext {A} (l1 l2 : A -> A -> bool) l :
  (forall a b, l1 a b = l2 a b) -> stable_sort l1 l = stable_sort l2 l.
Proof.
  intros E. induction l as [|x t IH]; cbn; auto. rewrite IH.
  generalize (stable_sort l2 t). intros s. induction s as [|y s IHs]; cbn; auto.
  now rewrite E, IHs.
Qed.

Lemma insert_by_decorated {A K} (kf : A -> K) (lebK : K -> K -> bool) x l :
  insert_by (fun a b => lebK (fst a) (fst b)) (kf x, x) (map (fun y => (kf y, y)) l)
  = map (fun y => (kf y, y)) (insert_by (fun a b => lebK (kf a) (kf b)) x l).
Proof.
  induction l as [|y t IH]; cbn; auto.
  destruct (lebK (kf x) (kf y)); cbn; auto. now rewrite IH.
Qed.

Lemma stable_sort_decorated {A K} (kf : A -> K) (lebK : K -> K -> bool) l :
  stable_sort (fun a b => lebK (fst a) (fst b)) (map (fun y => (kf y, y)) l)
  = map (fun y => (kf y, y)) (stable_sort (fun a b => lebK (kf a) (kf b)) l).
Proof.
  induction l as [|x t IH]; cbn; auto. now rewrite IH, insert_by_decorated.
Qed.

(* ------------------------------------------------------------------------ *)
(* GenomicArray.sort                                                          *)

Section SortRegions.
  Context {A : Type} (proj : A -> string * Z * Z).

  Lemma region_leb_total a b : region_leb proj a b = true \/ region_leb proj b a = true.
  Proof. apply rkey_leb_total. Qed.

  Lemma region_leb_trans a b c :
    region_leb proj a b = true -> region_leb proj b c = true -> region_leb proj a c = true.
  Proof. apply rkey_leb_trans. Qed.

  Lemma region_leb_refl a : region_leb proj a a = true.
  Proof. apply rkey_leb_refl. Qed.

  Definition regions_sorted (l : list A) : Prop :=
    StronglySorted (fun a b => region_leb proj a b = true) l.

  Lemma sort_regions_perm l : Permutation l (sort_regions proj l).
  Proof. apply stable_sort_perm. Qed.

  Lemma sort_regions_length l : length (sort_regions proj l) = length l.
  Proof. apply stable_sort_length. Qed.

  Lemma sort_regions_In x l : In x (sort_regions proj l) <-> In x l.
  Proof. apply stable_sort_In. Qed.

  Lemma sort_regions_sorted l : regions_sorted (sort_regions proj l).
  Proof. apply stable_sort_sorted; [apply region_leb_total | apply region_leb_trans]. Qed.

  Lemma sort_regions_sorted_id l :
    Sorted (fun a b => region_leb proj a b = true) l -> sort_regions proj l = l.
  Proof. apply stable_sort_sorted_id. Qed.

  Lemma sort_regions_idem l : sort_regions proj (sort_regions proj l) = sort_regions proj l.
  Proof. apply stable_sort_idem; [apply region_leb_total | apply region_leb_trans]. Qed.

  (* rows with the same (key, start, end) as z keep their input order *)
  Lemma sort_regions_stable z l :
    filter (equivb (region_leb proj) z) (sort_regions proj l)
    = filter (equivb (region_leb proj) z) l.
  Proof. apply stable_sort_stable. apply region_leb_trans. Qed.

  Lemma equivb_region_same_key z y :
    equivb (region_leb proj) z y = true <-> rkey_of (proj z) = rkey_of (proj y).
  Proof.
    unfold equivb, region_leb. rewrite andb_true_iff. split.
    - intros [H1 H2]. now apply rkey_leb_antisym.
    - intros ->. split; apply rkey_leb_refl.
  Qed.

  Lemma sort_regions_fast_eq l : sort_regions_fast proj l = sort_regions proj l.
  Proof.
    unfold sort_regions_fast, sort_regions, region_leb.
    rewrite (stable_sort_decorated (fun x => rkey_of (proj x)) rkey_leb).
    rewrite map_map. cbn. apply map_id.
  Qed.
End SortRegions.

(* sorting rows and then projecting = sorting the projections, when the
   projection carries the (chromosome, start, end) triple *)
Lemma sort_regions_map {A B} (f : A -> B) (pa : A -> string * Z * Z) (pb : B -> string * Z * Z) l :
  (forall a, pb (f a) = pa a) ->
  map f (sort_regions pa l) = sort_regions pb (map f l).
Proof.
  intros E. unfold sort_regions.
  rewrite <- (stable_sort_map f (region_leb pb)).
  f_equal. apply stable_sort_ext. intros a b. unfold region_leb. now rewrite !E.
Qed.

(* ------------------------------------------------------------------------ *)
(* shape of sorter_chrom's key                                                *)

(* the key of a name that carries no chr prefix (after stripping) *)
Definition key_body (chrom : list ascii) : Z * string :=
  if is_XY chrom then (1000, unchars chrom)
  else
    let n := digits_val (take_digits chrom) in
    match drop_digits chrom with
    | [] => (n, EmptyString)
    | [c] => (2000 + n, unchars [c])
    | rest => (3000 + n, unchars rest)
    end.

Definition has_chr_prefix (cs : list ascii) : bool := prefixb chr_prefix (lower cs).

Lemma chrom_key_nochr cs : has_chr_prefix cs = false -> chrom_key_chars cs = key_body cs.
Proof. unfold chrom_key_chars, strip_chr, has_chr_prefix. now intros ->. Qed.

(* the prefix, in any letter case, is irrelevant *)
Lemma chrom_key_chr_strip a b c cs :
  lower [a; b; c] = chr_prefix -> chrom_key_chars (a :: b :: c :: cs) = key_body cs.
Proof.
  intros H. unfold chrom_key_chars, strip_chr.
  replace (prefixb chr_prefix (lower (a :: b :: c :: cs))) with true; [reflexivity|].
  cbn in H. injection H as Ha Hb Hc. cbn. rewrite Ha, Hb, Hc. reflexivity.
Qed.

Lemma chrom_key_chr_irrelevant a b c cs :
  lower [a; b; c] = chr_prefix -> has_chr_prefix cs = false ->
  chrom_key_chars (a :: b :: c :: cs) = chrom_key_chars cs.
Proof. intros H1 H2. now rewrite chrom_key_chr_strip, chrom_key_nochr. Qed.

Lemma take_drop_digits cs : take_digits cs ++ drop_digits cs = cs.
Proof. induction cs as [|c t IH]; cbn; auto. destruct (is_digit c); cbn; congruence. Qed.

Lemma take_digits_app ds rest :
  forallb is_digit ds = true ->
  match rest with [] => True | c :: _ => is_digit c = false end ->
  take_digits (ds ++ rest) = ds /\ drop_digits (ds ++ rest) = rest.
Proof.
  induction ds as [|d t IH]; cbn; intros Hd Hr.
  - destruct rest as [|c r]; cbn; auto. now rewrite Hr.
  - apply andb_true_iff in Hd. destruct Hd as [Hd Ht]. rewrite Hd.
    destruct (IH Ht Hr) as [-> ->]. auto.
Qed.

Lemma is_XY_digit_head c cs : is_digit c = true -> is_XY (c :: cs) = false.
Proof.
  destruct cs; cbn; auto.
  destruct (Ascii.eqb_spec c "X"%char) as [->|]; [discriminate|].
  destruct (Ascii.eqb_spec c "Y"%char) as [->|]; [discriminate|]. auto.
Qed.

(* all-digit names: key = (decimal value, "") -- numeric names sort by value *)
Lemma key_body_numeric ds :
  forallb is_digit ds = true -> key_body ds = (digits_val ds, EmptyString).
Proof.
  intros H. unfold key_body.
  destruct (take_digits_app ds [] H I) as [E1 E2]. rewrite app_nil_r in E1, E2.
  rewrite E1, E2.
  destruct ds as [|d t]; [reflexivity|].
  cbn in H. apply andb_true_iff in H. now rewrite (is_XY_digit_head d t (proj1 H)).
Qed.

(* digits followed by exactly one non-digit character (M, x, ...; not bare X/Y) *)
Lemma key_body_single ds c :
  forallb is_digit ds = true -> is_digit c = false -> is_XY (ds ++ [c]) = false ->
  key_body (ds ++ [c]) = (2000 + digits_val ds, unchars [c]).
Proof.
  intros H Hc HXY. unfold key_body. rewrite HXY.
  destruct (take_digits_app ds [c] H Hc) as [-> ->]. reflexivity.
Qed.

(* digits followed by two or more characters, the first a non-digit *)
Lemma key_body_long ds c c' rest :
  forallb is_digit ds = true -> is_digit c = false ->
  key_body (ds ++ c :: c' :: rest) = (3000 + digits_val ds, unchars (c :: c' :: rest)).
Proof.
  intros H Hc. unfold key_body.
  destruct (take_digits_app ds (c :: c' :: rest) H Hc) as [-> ->].
  replace (is_XY (ds ++ c :: c' :: rest)) with false; [reflexivity|].
  destruct ds as [|d [|d' t]]; cbn; auto.
Qed.

Lemma key_body_X : key_body ["X"%char] = (1000, "X"%string).
Proof. reflexivity. Qed.
Lemma key_body_Y : key_body ["Y"%char] = (1000, "Y"%string).
Proof. reflexivity. Qed.

Lemma digits_val_app ds c : digits_val (ds ++ [c]) = 10 * digits_val ds + digit_val c.
Proof. unfold digits_val. now rewrite fold_left_app. Qed.

Lemma digit_val_range c : is_digit c = true -> 0 <= digit_val c <= 9.
Proof.
  unfold is_digit, digit_val. intros H. apply andb_true_iff in H. destruct H as [H1 H2].
  apply Nat.leb_le in H1, H2. lia.
Qed.

Lemma digits_val_nonneg ds : forallb is_digit ds = true -> 0 <= digits_val ds.
Proof.
  induction ds as [|c t IH] using rev_ind; intros H; [cbn; lia|].
  rewrite forallb_app in H. apply andb_true_iff in H. destruct H as [H1 H2].
  cbn in H2. rewrite andb_true_r in H2.
  rewrite digits_val_app. pose proof (digit_val_range c H2). specialize (IH H1). lia.
Qed.

(* ordering consequences, on keys *)
Lemma ckey_ltb_fst a b : fst a < fst b -> ckey_ltb a b = true.
Proof.
  intros H. unfold ckey_ltb, ckey_compare.
  apply Z.compare_lt_iff in H. now rewrite H.
Qed.

Lemma ckey_ltb_leb a b : ckey_ltb a b = true -> ckey_leb a b = true.
Proof. unfold ckey_ltb, ckey_leb. destruct (ckey_compare a b); auto. Qed.

Lemma ckey_ltb_not_leb a b : ckey_ltb a b = true -> ckey_leb b a = false.
Proof.
  destruct ckey_compare_good as (_ & An & _ & _).
  unfold ckey_ltb, ckey_leb. rewrite (An b a). destruct (ckey_compare a b); cbn; auto; discriminate.
Qed.

(* numeric names sort by numeric value *)
Lemma numeric_names_by_value ds1 ds2 :
  forallb is_digit ds1 = true -> forallb is_digit ds2 = true ->
  digits_val ds1 < digits_val ds2 ->
  ckey_ltb (key_body ds1) (key_body ds2) = true.
Proof.
  intros H1 H2 Hlt. rewrite !key_body_numeric by assumption. now apply ckey_ltb_fst.
Qed.

(* numeric names below 1000 sort before X, X before Y, Y before every
   single-letter name, those before every longer name without leading digits *)
Lemma numeric_before_X ds :
  forallb is_digit ds = true -> digits_val ds < 1000 ->
  ckey_ltb (key_body ds) (key_body ["X"%char]) = true.
Proof. intros H Hlt. rewrite key_body_numeric by assumption. now apply ckey_ltb_fst. Qed.

Lemma X_before_Y : ckey_ltb (key_body ["X"%char]) (key_body ["Y"%char]) = true.
Proof. reflexivity. Qed.

Lemma Y_before_single c :
  is_digit c = false -> is_XY [c] = false ->
  ckey_ltb (key_body ["Y"%char]) (key_body [c]) = true.
Proof.
  intros Hc HXY. pose proof (key_body_single [] c eq_refl Hc HXY) as E. cbn [app] in E.
  rewrite E. now apply ckey_ltb_fst.
Qed.

Lemma single_before_long c d d' rest :
  is_digit c = false -> is_XY [c] = false -> is_digit d = false ->
  ckey_ltb (key_body [c]) (key_body (d :: d' :: rest)) = true.
Proof.
  intros Hc HXY Hd. pose proof (key_body_single [] c eq_refl Hc HXY) as E1.
  pose proof (key_body_long [] d d' rest eq_refl Hd) as E2. cbn [app] in E1, E2.
  rewrite E1, E2. now apply ckey_ltb_fst.
Qed.
