(* C12 source tie of the control flow of antitarget.get_antitargets [loop ties e3]:

       if accessible:
           accessible = drop_noncanonical_contigs(accessible, targets)
       else:
           TELOMERE_SIZE = 150000
           accessible = guess_chromosome_regions(targets, TELOMERE_SIZE)
       pad_size = 2 * INSERT_SIZE
       bg_arr = (accessible.resize_ranges(-pad_size)
                 .subtract(targets.resize_ranges(pad_size))
                 .subdivide(avg_bin_size, min_bin_size))
       bg_arr["gene"] = ANTITARGET_NAME

   is regenerated from the Python source on every run as Gen/FnAntiFlow.v (fn_get_antitargets: the id of the table that
   goes out and the value of its gene column).  Tables are opaque ids, the two helper functions and the three table
   methods function-typed inputs on ids; `if accessible:` reads id 0 as the falsy table.

   Here: under EVERY reading `tbl` of ids as genome tables in which the five function inputs are the model's
   operations (Model/Antitarget.v drop_noncanonical / guess_regions / gresize / gsubtract, Model/Target.v gsubdivide),
   the table the generated body returns, with the generated gene value written into every row, IS
   Model/Antitarget.v get_antitargets -- which branch supplies the accessible regions, the sign and size of both
   paddings, who is subtracted from whom, the arguments of subdivide and the name are all read off the source. *)
From CNV Require Import Base.Prelude Base.Str Model.IvRow Model.Intervals Model.Access Model.Target Model.Antitarget.
From CNV Require Gen.FnAntiFlow Gen.BinsDefaults.

Local Open Scope Z_scope.

Section Reading.
  Variable tbl : Z -> list grow.
  Variables drop_fn guess_fn resize_fn subtract_fn : Z -> Z -> Z.
  Variable subdivide_fn : Z -> Q -> Z -> Z.
  Variable cut : Z -> Z -> Z -> Z.

  (* the function inputs are the model's operations on the tables the ids stand for; drop_noncanonical_contigs may
     raise (compare_chrom_names' ValueError = None): where it does not, its result is the table of the returned id *)
  Record anti_reading : Prop := {
    rd_drop : forall a t rows, drop_noncanonical (tbl a) (tbl t) = Some rows -> tbl (drop_fn a t) = rows;
    rd_guess : forall t n, tbl (guess_fn t n) = guess_regions (tbl t) n;
    rd_resize : forall a bp, tbl (resize_fn a bp) = gresize bp (tbl a);
    rd_subtract : forall a b, tbl (subtract_fn a b) = gsubtract (tbl a) (tbl b);
    rd_subdivide : forall a avg mn, tbl (subdivide_fn a avg mn) = gsubdivide avg mn cut (tbl a) }.

  (* the `accessible` argument an id stands for: id 0 is the falsy value (None / a table without rows) *)
  Definition access_of (id : Z) : option (list grow) := if id =? 0 then None else Some (tbl id).

  Definition src_get_antitargets (targets access : Z) (avg : Q) (mn : Z) : list grow :=
    let '(out, name) := Gen.FnAntiFlow.fn_get_antitargets targets access avg mn Gen.BinsDefaults.INSERT_SIZE
                          Gen.BinsDefaults.ANTITARGET_NAME drop_fn guess_fn resize_fn subtract_fn subdivide_fn in
    map (set_gene name) (tbl out).

  Theorem source_get_antitargets (targets access : Z) (avg : Q) (mn : Z) :
    anti_reading -> (access <> 0 -> tbl access <> []) ->
    effective_access (tbl targets) (access_of access) <> None ->
    get_antitargets (tbl targets) (access_of access) avg mn cut = Some (src_get_antitargets targets access avg mn).
  Proof.
    intros R Hne Hok.
    unfold get_antitargets, src_get_antitargets, Gen.FnAntiFlow.fn_get_antitargets, access_of in *.
    destruct (access =? 0) eqn:E; cbn [negb].
    - cbn [effective_access]. f_equal.
      rewrite (rd_subdivide R), (rd_subtract R), !(rd_resize R), (rd_guess R). reflexivity.
    - assert (Hn : tbl access <> []) by (apply Hne; intro H0; rewrite H0 in E; discriminate).
      unfold effective_access in *. destruct (tbl access) as [|r0 rest] eqn:Et; [congruence|].
      destruct (drop_noncanonical (r0 :: rest) (tbl targets)) as [rows|] eqn:Ed; [|congruence].
      f_equal. rewrite (rd_subdivide R), (rd_subtract R), !(rd_resize R).
      rewrite <- Et in Ed. rewrite (rd_drop R _ _ _ Ed). reflexivity.
  Qed.

  (* the error path: the ValueError of compare_chrom_names (inside drop_noncanonical_contigs) is the only way out *)
  Lemma source_get_antitargets_error (targets access : Z) (avg : Q) (mn : Z) :
    effective_access (tbl targets) (access_of access) = None ->
    get_antitargets (tbl targets) (access_of access) avg mn cut = None.
  Proof. intro H. unfold get_antitargets. rewrite H. reflexivity. Qed.
End Reading.

(* the literals the body was read with: pad = 2 * INSERT_SIZE on both sides, telomere 150000 *)
Lemma source_flow_literals (t a : Z) (avg : Q) (mn : Z) (nm : string) (isz : Z)
    (drop_fn guess_fn resize_fn subtract_fn : Z -> Z -> Z) (subdivide_fn : Z -> Q -> Z -> Z) :
  Gen.FnAntiFlow.fn_get_antitargets t a avg mn isz nm drop_fn guess_fn resize_fn subtract_fn subdivide_fn =
  (subdivide_fn (subtract_fn (resize_fn (if a =? 0 then guess_fn t 150000 else drop_fn a t) (- (2 * isz)))
                             (resize_fn t (2 * isz))) avg mn, nm).
Proof. unfold Gen.FnAntiFlow.fn_get_antitargets. destruct (a =? 0); reflexivity. Qed.
