(* C16, source ties: the definitions generated from the Python bodies (Gen/FnGenesSegmean.v from
   cnvlib/segmetrics.py segment_mean, Gen/FnGenemetrics.v from the n_probes assignment of
   cnvlib/reports.py do_genemetrics) equal the hand-written model functions. *)
From CNV Require Import Base.Prelude Base.Str Gen.Params Gen.GenesDefaults
  Gen.FnGenesSegmean Gen.FnGenemetrics Model.Genes.

(* segment_mean: NaN on an empty table; the weighted average when the weight column has a non-zero
   entry; else the plain mean.  The table is the caller's, after drop_low_coverage when skip_low. *)
Lemma fn_segment_mean_eq (skip_low : bool) rows :
  let r := if skip_low then drop_low rows else rows in
  segment_mean skip_low rows =
  fn_segment_mean (Z.of_nat (length r)) true
                  (existsb (fun b => negb (Qeq_bool (b_weight b) 0)) r) None
                  (wavg (map b_log2 r) (map b_weight r)) (meanQ (map b_log2 r)).
Proof.
  cbv zeta. unfold segment_mean, fn_segment_mean.
  destruct (if skip_low then drop_low rows else rows) as [|x t]; [reflexivity|].
  change (Z.of_nat (length (x :: t)) =? 0) with (Z.of_nat (S (length t)) =? 0).
  rewrite Nat2Z.inj_succ. destruct (Z.eqb_spec (Z.succ (Z.of_nat (length t))) 0) as [E|_]; [lia|].
  cbn [andb]. reflexivity.
Qed.

(* the probe count the min_probes filter of do_genemetrics looks at: segment_probes when that column
   exists, else probes *)
Lemma fn_n_probes_eq r :
  n_probes r =
  fn_n_probes (match r_segp r with Some _ => true | None => false end)
              (match r_segp r with Some p => p | None => 0 end) (r_probes r).
Proof. unfold n_probes, fn_n_probes. destruct (r_segp r); reflexivity. Qed.
