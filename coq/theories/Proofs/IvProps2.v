(* The genome-level, payload and ordering theorems of C06 in their final form
   (Props/C06.v restates them and closes each with `exact`). *)
From CNV Require Import Base.Prelude Base.QNum Model.IvRow Model.IvCombine Model.Intervals Model.Chromsort Spec.Cover.
From CNV Require Import Proofs.IvCover Proofs.IvSubtract Proofs.IvMerge Proofs.IvIntersect Proofs.IvTop Proofs.IvFlatten
  Proofs.IvProps Proofs.IvLib2 Proofs.IvGenome Proofs.IvGenomeSort Proofs.IvPayload Proofs.IvGenomePayload
  Proofs.ChromsortLemmas.
From CNV Require Gen.IvDefaults Gen.IvCombiners.

(* ---- merge ------------------------------------------------------------------------------ *)
Lemma c06_genome_merge : forall (A : Type) (comb : A -> list A -> A) (bp : Z) (t : list (g_row A)) (c : string),
  filter (g_on c) (g_merge comb bp t) =
  merge_sel (g_comb comb) bp (all_gaps bp t) (filter (g_on c) t).
Proof. intros. apply g_merge_chrom. Qed.

Lemma c06_genome_merge_order : forall (A : Type) (comb : A -> list A -> A) (bp : Z) (t : list (g_row A)),
  (all_gaps bp t = true -> g_merge comb bp t = t) /\
  (all_gaps bp t = false ->
     g_chroms (g_merge comb bp t) = g_order t /\
     g_merge comb bp t = flat_map (fun c => filter (g_on c) (g_merge comb bp t)) (g_order t)) /\
  Permutation (g_chroms t) (g_order t) /\
  StronglySorted (fun a b => ckey_leb (chrom_key a) (chrom_key b) = true) (g_order t).
Proof.
  intros A comb bp t. destruct (g_merge_order comb bp t) as [H1 H2].
  split; [exact H1|]. split; [exact H2|]. split; [apply g_order_perm | apply g_order_sorted].
Qed.

(* the per-chromosome property, read off the genome-level result *)
Lemma c06_genome_merge_spec : forall (A : Type) (comb : A -> list A -> A) (t : list (g_row A)) (c : string),
  valid t ->
  let m := filter (g_on c) (g_merge comb 0 t) in
  (forall z, covers m z <-> covers (filter (g_on c) t) z) /\ sorted_separated m /\ valid m.
Proof.
  intros A comb t c Hv m. subst m. rewrite g_merge_chrom.
  exact (c06_merge _ (g_comb comb) t (g_on c) Hv).
Qed.

(* ---- flatten ---------------------------------------------------------------------------- *)
Lemma c06_genome_flatten : forall (A : Type) (comb : A -> list A -> A) (t : list (g_row A)) (c : string),
  filter (g_on c) (g_flatten comb t) =
  flatten_sel (g_comb comb) (no_overlap t) (filter (g_on c) t).
Proof. intros. apply g_flatten_chrom. Qed.

Lemma c06_genome_flatten_order : forall (A : Type) (comb : A -> list A -> A) (t : list (g_row A)),
  (no_overlap t = true -> g_flatten comb t = t) /\
  (no_overlap t = false -> valid t ->
     g_chroms (g_flatten comb t) = g_order t /\
     g_flatten comb t = flat_map (fun c => filter (g_on c) (g_flatten comb t)) (g_order t)).
Proof. intros. apply g_flatten_order. Qed.

Lemma c06_genome_flatten_spec : forall (A : Type) (comb : A -> list A -> A) (t : list (g_row A)) (c : string),
  valid t ->
  let u := filter (g_on c) t in
  let fl := filter (g_on c) (g_flatten comb t) in
  (forall z, covers fl z <-> covers u z) /\ sorted_disjoint fl /\ valid fl /\
  (forall y p, boundary u y -> In p fl -> ~ (lo p < y < hi p)).
Proof.
  intros A comb t c Hv u fl. subst fl u. rewrite g_flatten_chrom.
  exact (c06_flatten _ (g_comb comb) t (g_on c) Hv).
Qed.

(* ---- subtract --------------------------------------------------------------------------- *)
Lemma c06_genome_subtract : forall (A B : Type) (a : list (g_row A)) (b : list (g_row B)) (c : string),
  (b = [] -> g_subtract a b = a) /\
  (b <> [] -> filter (g_on c) (g_subtract a b) = subtract (filter (g_on c) a) (filter (g_on c) b)) /\
  (~ In c (g_chroms b) -> filter (g_on c) (g_subtract a b) = filter (g_on c) a).
Proof.
  intros A B a b c. split; [intros ->; reflexivity|]. split.
  - apply g_subtract_chrom.
  - apply g_subtract_untouched.
Qed.

Lemma c06_genome_subtract_order : forall (A B : Type) (a : list (g_row A)) (b : list (g_row B)),
  b <> [] ->
  g_subtract a b = flat_map (fun c => filter (g_on c) (g_subtract a b)) (g_chroms a) /\
  g_chroms (g_subtract a b) =
    filter (fun c => negb (Nat.eqb (length (filter (g_on c) (g_subtract a b))) 0)) (g_chroms a).
Proof. intros. now apply g_subtract_order. Qed.

Lemma c06_genome_subtract_spec : forall (A B : Type) (a : list (g_row A)) (b : list (g_row B)) (c : string),
  sorted_lo (filter (g_on c) b) ->
  forall z, covers (filter (g_on c) (g_subtract a b)) z <->
            covers (filter (g_on c) a) z /\ ~ covers (filter (g_on c) b) z.
Proof.
  intros A B a b c Hs z. destruct b as [|b0 b'] eqn:Eb.
  - cbn [g_subtract filter]. split; [intros H; split; [exact H | apply covers_nil] | tauto].
  - rewrite <- Eb in *. rewrite g_subtract_chrom by (rewrite Eb; discriminate).
    apply (proj1 (c06_subtract _ _ (filter (g_on c) a) (filter (g_on c) b) Hs)).
Qed.

(* ---- intersection(mode="trim") ------------------------------------------------------------- *)
Lemma c06_genome_intersect : forall (A B : Type) (a : list (g_row A)) (b : list (g_row B)) (c : string),
  filter (g_on c) (g_intersect a b) = intersect_trim (filter (g_on c) a) (filter (g_on c) b) /\
  (~ In c (g_chroms a) \/ ~ In c (g_chroms b) -> filter (g_on c) (g_intersect a b) = []) /\
  g_intersect a b = flat_map (fun c => filter (g_on c) (g_intersect a b)) (g_chroms b).
Proof.
  intros A B a b c. split; [apply g_intersect_chrom|]. split; [apply g_intersect_dropped | apply g_intersect_order].
Qed.

(* ---- subdivide / resize_ranges / total_range_size --------------------------------------------- *)
Lemma c06_genome_subdivide : forall (A : Type) (comb : A -> list A -> A) (avg mn : Z) (cut : Z -> Z -> Z -> Z)
                                    (t : list (g_row A)) (c : string),
  filter (g_on c) (g_subdivide comb avg mn cut t) =
  subdivide_sel (g_comb comb) avg mn cut (all_gaps Gen.IvDefaults.merge_bp_default t) (filter (g_on c) t).
Proof. intros. apply g_subdivide_chrom. Qed.

Lemma c06_genome_resize : forall (A : Type) (bp : Z) (sizes : option (string -> option Z)) (t : list (g_row A)) (c : string),
  filter (g_on c) (g_resize bp sizes t) = resize bp (g_size sizes c) (filter (g_on c) t) /\
  g_resize bp sizes t = flat_map (fun r => resize bp (g_size sizes (g_chrom r)) [r]) t.
Proof. intros. split; [apply g_resize_chrom | apply g_resize_rowwise]. Qed.

Lemma c06_genome_total : forall (A : Type) (comb : A -> list A -> A) (t : list (g_row A)),
  g_total comb t =
  sumZ (map (fun c => total_sel (g_comb comb) (all_gaps Gen.IvDefaults.total_size_bp t) (filter (g_on c) t))
            (g_chroms t)).
Proof. intros. apply g_total_chroms. Qed.

(* ---- GenomicArray.sort ----------------------------------------------------------------------- *)
Lemma c06_genome_sort : forall (A : Type) (t : list (g_row A)) (c : string) (z : g_row A),
  let leb := region_leb (@g_proj A) in
  filter (g_on c) (g_sort t) = sort_rows (filter (g_on c) t) /\
  Permutation t (g_sort t) /\
  StronglySorted (fun a b => leb a b = true) (g_sort t) /\
  filter (fun y => leb z y && leb y z) (g_sort t) = filter (fun y => leb z y && leb y z) t /\
  (Sorted (fun a b => leb a b = true) t -> g_sort t = t) /\
  g_sort (g_sort t) = g_sort t /\
  StronglySorted (fun a b => ckey_leb (chrom_key a) (chrom_key b) = true) (map g_chrom (g_sort t)).
Proof.
  intros A t c z leb.
  split; [apply g_sort_chrom|]. split; [apply g_sort_perm|]. split; [apply g_sort_sorted|].
  split; [apply g_sort_stable|]. split; [apply g_sort_id|]. split; [apply g_sort_idem | apply g_sort_chrom_order].
Qed.

(* ---- payload ----------------------------------------------------------------------------------- *)
Lemma c06_merge_payload_rows : forall (A : Type) (comb : A -> list A -> A) (t : list (@row A)),
  valid t ->
  Forall (fun o =>
    let cov := filter (iv_within o) (sort_rows t) in
    exists f, hd_error cov = Some f /\ lo o = lo f /\
              (cov = [o] \/ pay o = comb (pay f) (map pay cov)))
    (merge_slow comb 0 t).
Proof. intros A comb t Hv. exact (merge_slow_payload comb t Hv). Qed.

Lemma c06_flatten_payload_rows : forall (A : Type) (comb : A -> list A -> A) (t : list (@row A)),
  valid t ->
  Forall (fun p =>
    let cov := filter (iv_contains p) (sort_rows t) in
    cov <> [] /\
    exists g f, In g (groups 0 (sort_rows t)) /\ hd_error g = Some f /\ In p (flatten_group comb g) /\
                ((g = [p] /\ cov = [p]) \/ pay p = comb (pay f) (map pay cov)))
    (flatten_slow comb t).
Proof. intros A comb t Hv. exact (flatten_slow_payload comb t Hv). Qed.

Lemma c06_merge_payload : forall t : list (g_row pcols), valid t ->
  Forall (fun o =>
    let cov := filter (iv_within o) (sort_rows (filter (g_on (g_chrom o)) t)) in
    cov <> [] /\ cols_of (f_cols o) (f_cols (hd o cov)) (map f_cols cov))
    (g_merge (comb_cols false) 0 t).
Proof. exact g_merge_payload. Qed.

Lemma c06_flatten_payload : forall t : list (g_row pcols), valid t ->
  Forall (fun p =>
    let u := filter (g_on (g_chrom p)) t in
    let cov := filter (iv_contains p) (sort_rows u) in
    cov <> [] /\
    exists first, cols_of (f_cols p) first (map f_cols cov) /\
      (no_overlap t = true -> first = f_cols p) /\
      (no_overlap t = false ->
         exists g f, In g (groups 0 (sort_rows u)) /\ hd_error g = Some f /\
                     In p (flatten_group (g_comb (comb_cols false)) g) /\ first = f_cols f))
    (g_flatten (comb_cols false) t).
Proof. exact g_flatten_payload. Qed.

(* ---- the combiners ------------------------------------------------------------------------------ *)
Lemma merge_strands_spec x t :
  merge_strands (x :: t) = if forallb (String.eqb x) t then x else "."%string.
Proof.
  unfold merge_strands. cbn [uniq].
  destruct (forallb (String.eqb x) t) eqn:E.
  - rewrite forallb_forall in E. rewrite filter_none; [reflexivity|].
    intros y Hy. apply (proj1 (uniq_In _ _)) in Hy. rewrite (E y Hy). reflexivity.
  - destruct (filter (fun y => negb (String.eqb x y)) (uniq t)) as [|y l] eqn:Ef; [|reflexivity].
    exfalso. assert (forallb (String.eqb x) t = true); [|congruence].
    apply forallb_forall. intros y Hy. apply uniq_In in Hy.
    destruct (String.eqb x y) eqn:Exy; [reflexivity|]. exfalso.
    assert (In y (filter (fun y => negb (String.eqb x y)) (uniq t))) by (apply filter_In; split; [exact Hy | now rewrite Exy]).
    rewrite Ef in H. destruct H.
Qed.

Lemma py_sumQ_from (a : Q) l : fold_left (fun a x => Qred (a + x)) l a == a + fold_right Qplus 0%Q l.
Proof.
  revert a. induction l as [|x t IH]; intros a; cbn [fold_left fold_right]; [ring|].
  rewrite IH, Qred_correct. ring.
Qed.

Lemma c06_combiners :
  (* get_combiners: the defaults by column name *)
  (forall s, default_combiner s "chromosome" = Some CFirst /\ default_combiner s "start" = Some CFirst /\
             default_combiner s "end" = Some CMax /\ default_combiner s "gene" = Some CJoin /\
             default_combiner s "accession" = Some CJoin /\ default_combiner s "weight" = Some CSum /\
             default_combiner s "probes" = Some CSum /\ default_combiner s "tag" = None) /\
  default_combiner false "strand" = Some CStrands /\ default_combiner true "strand" = Some CFirst /\
  (* join_strings: distinct values in order of first appearance, joined by "," *)
  (forall l, join_strings l = String.concat "," (uniq l) /\ iv_distinct_in_order (uniq l) l) /\
  (* first_of / last_of / max / sum / merge_strands / make_const on a non-empty column *)
  (forall d x t, comb_str (Some CFirst) d (x :: t) = x /\ comb_str (Some CLast) d (x :: t) = last (x :: t) d /\
                 comb_str (Some CStrands) d (x :: t) = (if forallb (String.eqb x) t then x else "."%string) /\
                 comb_str None d (x :: t) = d) /\
  (forall d x t, comb_Z (Some CFirst) d (x :: t) = x /\ comb_Z (Some CSum) d (x :: t) = sumZ (x :: t) /\
                 (forall y, In y (x :: t) -> y <= comb_Z (Some CMax) d (x :: t)) /\
                 In (comb_Z (Some CMax) d (x :: t)) (x :: t) /\ comb_Z None d (x :: t) = d) /\
  (forall d l, comb_Q (Some CSum) d l == fold_right Qplus 0%Q l) /\
  (forall (V : Type) (v : V) l, make_const v l = v).
Proof.
  split; [intros []; repeat split; reflexivity|].
  split; [reflexivity|]. split; [reflexivity|].
  split; [intros l; split; [reflexivity | apply uniq_distinct_in_order]|].
  split.
  { intros d x t. split; [reflexivity|]. split; [reflexivity|]. split; [apply merge_strands_spec | reflexivity]. }
  split.
  { intros d x t. split; [reflexivity|]. split; [reflexivity|].
    assert (Hmax : forall l m, m <= maxZ_from m l /\ (forall y, In y l -> y <= maxZ_from m l) /\
                               (maxZ_from m l = m \/ In (maxZ_from m l) l)).
    { induction l as [|y l IH]; intros m; cbn [maxZ_from].
      - split; [lia|]. split; [intros y []|now left].
      - destruct (IH (Z.max m y)) as (H1 & H2 & H3). split; [lia|]. split.
        + intros z [<-|Hz]; [lia | now apply H2].
        + destruct H3 as [H3|H3]; [|right; now right].
          destruct (Z.max_spec m y) as [[_ E]|[_ E]]; rewrite E in *; [right; left; congruence | now left]. }
    cbn [comb_Z]. destruct (Hmax t x) as (H1 & H2 & H3).
    split; [intros y [<-|Hy]; [exact H1 | now apply H2]|].
    split; [destruct H3 as [->|H3]; [now left | now right] | reflexivity]. }
  split.
  { intros d l. cbn [comb_Q]. unfold py_sumQ. rewrite py_sumQ_from. ring. }
  reflexivity.
Qed.
