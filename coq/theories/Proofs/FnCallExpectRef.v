(* C01 source tie of absolute_expect / absolute_reference (cnvlib/call.py; the exporters read them), WHOLE functions:

       is_haploid_x_reference = True   /   is_sample_female = True
       df = get_as_dframe_and_set_reference_and_expect_copies(cnarr, ploidy, is_haploid_x_reference, diploid_parx_genome,
                                                              is_sample_female)
       return df["expect"]             /   return df["reference"]

   regenerated from the Python source on every run (Gen/FnCallExpectRef.v; the two columns of the callee's table are
   function-typed inputs).  Here: with the callee's generated column code (Gen/FnCallRefExpect.v fn_ref_expect, tied to
   Model/Call.v ref_expect by C01_source_ref_expect) in their place, absolute_expect is the `expect` copies and
   absolute_reference the `reference` copies of the row's class -- the second / first component of ref_expect, the pair
   the C01 theorems take r and x from --, and the flag each function fixes really does not matter: `expect` is the same
   for either reference sex, `reference` for either sample sex. *)
From CNV Require Import Base.Prelude Base.Str Gen.CallDefaults Gen.FnCallRefExpect Gen.FnCallExpectRef Model.Call.
From CNV Require Proofs.FnCallRefExpect.
Local Open Scope Z_scope.

Import Proofs.FnCallRefExpect.

(* the two columns of get_as_dframe_and_set_reference_and_expect_copies' table on a row with the given mask bits, as
   functions of the call's arguments (table id, ploidy, is_haploid_x_reference, build id, is_sample_female) *)
Definition gen_reference_col (xm ym hb pm : bool) : Z -> Z -> bool -> Z -> bool -> Z :=
  fun _ k hapx _ female => fst (fn_ref_expect k k hapx female xm ym hb pm).
Definition gen_expect_col (xm ym hb pm : bool) : Z -> Z -> bool -> Z -> bool -> Z :=
  fun _ k hapx _ female => snd (fn_ref_expect k k hapx female xm ym hb pm).

(* as written: which flag is fixed, which arguments go where, which column comes back *)
Lemma source_expect_ref_calls cn k b flag (R E : Z -> Z -> bool -> Z -> bool -> Z) :
  fn_absolute_expect cn k b flag R E = E cn k true b flag /\
  fn_absolute_reference cn k b flag R E = R cn k flag b true.
Proof. split; reflexivity. Qed.

Lemma expect_any_reference_sex k h1 h2 female c : snd (ref_expect k h1 female c) = snd (ref_expect k h2 female c).
Proof. destruct c; reflexivity. Qed.

Lemma reference_any_sample_sex k hapx f1 f2 c : fst (ref_expect k hapx f1 c) = fst (ref_expect k hapx f2 c).
Proof. destruct c; reflexivity. Qed.

Lemma source_absolute_expect cn k b female hapx has_build c :
  (c = ParY -> has_build = true) ->
  fn_absolute_expect cn k b female
    (gen_reference_col (is_x c) (is_y c) has_build (is_pary c)) (gen_expect_col (is_x c) (is_y c) has_build (is_pary c))
  = snd (ref_expect k hapx female c).
Proof.
  intro H. unfold fn_absolute_expect, gen_expect_col. cbv zeta.
  rewrite (source_ref_expect k true female has_build c H). apply expect_any_reference_sex.
Qed.

Lemma source_absolute_reference cn k b hapx female has_build c :
  (c = ParY -> has_build = true) ->
  fn_absolute_reference cn k b hapx
    (gen_reference_col (is_x c) (is_y c) has_build (is_pary c)) (gen_expect_col (is_x c) (is_y c) has_build (is_pary c))
  = fst (ref_expect k hapx female c).
Proof.
  intro H. unfold fn_absolute_reference, gen_reference_col. cbv zeta.
  rewrite (source_ref_expect k hapx true has_build c H). apply reference_any_sample_sex.
Qed.
