(* C19 source tie [loop ties e2]: the decorators on_array / on_weighted_array of cnvlib/descriptives.py

       def wrapper(a, **kwargs):  ...  if not len(a): return np.nan
                                       if len(a) == 1: (return a[0] if default is None else default)
                                       return f(a, **kwargs)

   regenerated from the source on every run (Gen/FnOnArray.v; the `**kwargs` of the signature only flows into the
   call of the wrapped function, an opaque input keyed by its text).  Here: Model/Descriptives.v on_array /
   on_weighted_array ARE the generated wrappers, and the weight column of clean_weighted is the generated NaN fill. *)
From CNV Require Import Base.Prelude Base.QNum Proofs.QNumLemmas Gen.FnOnArray Model.Descriptives.
From Coq Require Import Lia.
Local Open Scope Q_scope.

Lemma len_ge2 k : (Z.of_nat (S (S k)) =? 0)%Z = false /\ (Z.of_nat (S (S k)) =? 1)%Z = false.
Proof. split; apply Z.eqb_neq; lia. Qed.

Theorem source_on_array default f a :
  on_array default f a = fn_on_array (Z.of_nat (length a)) (hd 0 a) default (f a).
Proof.
  unfold fn_on_array. destruct a as [|x [|y t]]; cbn [on_array length hd].
  - reflexivity.
  - cbn. destruct default; reflexivity.
  - destruct (len_ge2 (length t)) as [E0 E1]. rewrite E0, E1. reflexivity.
Qed.

Theorem source_on_weighted_array default f ps n_w w any_nan :
  on_weighted_array default f ps =
  fn_on_weighted_empty (Z.of_nat (length ps)) n_w
    (fn_on_weighted_array (Z.of_nat (length ps)) (fst (hd (0, 0) ps)) default w any_nan (f ps)).
Proof.
  unfold fn_on_weighted_empty, fn_on_weighted_array. destruct ps as [|p [|q t]]; cbn [on_weighted_array length hd].
  - reflexivity.
  - cbn. destruct default; reflexivity.
  - destruct (len_ge2 (length t)) as [E0 E1]. rewrite E0, E1. reflexivity.
Qed.

(* the weights clean_weighted pairs with the kept values are the generated fill of the raw weights, `any_nan` being
   true as soon as some weight is NaN *)
Fixpoint clean_weighted_with (fill : option Q -> option Q) (a w : list (option Q)) : list (Q * Q) :=
  match a, w with
  | Some x :: a', ow :: w' => (x, match fill ow with Some y => y | None => 0 end) :: clean_weighted_with fill a' w'
  | None :: a', _ :: w' => clean_weighted_with fill a' w'
  | _, _ => []
  end.

Theorem source_weight_fill any_nan : forall a w,
  (In None w -> any_nan = true) ->
  clean_weighted a w = clean_weighted_with (fun ow => fn_weight_fill ow any_nan) a w.
Proof.
  induction a as [|[x|] a' IH]; intros [|ow w'] H; cbn [clean_weighted clean_weighted_with]; try reflexivity.
  - rewrite (IH w') by (intro I; apply H; now right). f_equal. f_equal.
    unfold fn_weight_fill. destruct ow as [y|]; [destruct any_nan; reflexivity|].
    rewrite H by now left. reflexivity.
  - apply IH. intro I. apply H. now right.
Qed.
