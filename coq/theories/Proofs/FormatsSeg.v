(* SEG: export seg -> import-seg returns every sample's segments (sorted when the
   written .cns is read), coordinates and remaining fields unchanged, label "-". *)
From CNV Require Import Base.Prelude Base.Str Model.Decimal Model.Chromsort Model.Sniff Model.Formats.
From CNV Require Import Proofs.ChromsortLemmas Proofs.FormatsLemmas.
From CNV Require Import Gen.Formats.

Definition gstep {A} (g : list (string * list A)) (p : string * A) := group_insert (fst p) (snd p) g.

Section Grouping.
  Context {A : Type}.
  Notation step := (@gstep A).

  Definition flat (S : list (string * list A)) : list (string * A) :=
    concat (map (fun sr => map (pair (fst sr)) (snd sr)) S).

  Lemma group_insert_new k (r : A) acc :
    ~ In k (map fst acc) -> group_insert k r acc = acc ++ [(k, [r])].
  Proof.
    induction acc as [|[k' rs] t IH]; cbn; intros H; auto.
    destruct (String.eqb_spec k' k) as [->|Hne]; [exfalso; apply H; now left|].
    rewrite IH; auto.
  Qed.

  Lemma group_insert_last k (r : A) acc rs :
    ~ In k (map fst acc) -> group_insert k r (acc ++ [(k, rs)]) = acc ++ [(k, rs ++ [r])].
  Proof.
    induction acc as [|[k' rs'] t IH]; cbn; intros H.
    - now rewrite String.eqb_refl.
    - destruct (String.eqb_spec k' k) as [->|Hne]; [exfalso; apply H; now left|].
      rewrite IH; auto.
  Qed.

  Lemma fold_same_key k rs' acc rs :
    ~ In k (map fst acc) ->
    fold_left step (map (pair k) rs') (acc ++ [(k, rs)]) = acc ++ [(k, rs ++ rs')].
  Proof.
    revert rs. induction rs' as [|r t IH]; intros rs H; cbn [map fold_left].
    - now rewrite app_nil_r.
    - change (step (acc ++ [(k, rs)]) (k, r)) with (group_insert k r (acc ++ [(k, rs)])).
      rewrite group_insert_last by assumption.
      rewrite IH by assumption. now rewrite <- app_assoc.
  Qed.

  Lemma group_fold S : forall acc,
    NoDup (map fst (acc ++ S)) -> Forall (fun sr => snd sr <> []) S ->
    fold_left step (flat S) acc = acc ++ S.
  Proof.
    induction S as [|[k rs] S' IH]; intros acc HN HF.
    - cbn. now rewrite app_nil_r.
    - inversion HF as [|? ? Hne HF']; subst. cbn in Hne.
      destruct rs as [|r0 rs']; [congruence|].
      assert (Hk : ~ In k (map fst acc)).
      { rewrite map_app in HN. cbn in HN. apply NoDup_remove_2 in HN.
        intros Hin. apply HN. apply in_or_app. now left. }
      change (flat ((k, r0 :: rs') :: S')) with (map (pair k) (r0 :: rs') ++ flat S').
      rewrite fold_left_app. cbn [map fold_left].
      change (step acc (k, r0)) with (group_insert k r0 acc).
      rewrite group_insert_new by assumption.
      rewrite fold_same_key by assumption. cbn [app].
      rewrite IH; auto.
      + now rewrite <- app_assoc.
      + now rewrite <- app_assoc.
  Qed.

  Lemma group_rows_flat S :
    NoDup (map fst S) -> Forall (fun sr => snd sr <> []) S -> group_rows (flat S) = S.
  Proof.
    intros HN HF. change (group_rows (flat S)) with (fold_left step (flat S) []).
    now rewrite (group_fold S []).
  Qed.
End Grouping.

Lemma flat_map {A B} (f : A -> B) (S : list (string * list A)) :
  map (fun p => (fst p, f (snd p))) (flat S) = flat (map (fun sr => (fst sr, map f (snd sr))) S).
Proof.
  unfold flat. induction S as [|[k rs] S' IH]; cbn; auto.
  rewrite map_app, IH. f_equal. rewrite !map_map. reflexivity.
Qed.

Lemma write_seg_body (samples : list (string * list row)) :
  concat (map (fun sr => write_seg_rows (fst sr) (snd sr)) samples)
  = map (fun p => seg_line (fst p) (snd p)) (flat samples).
Proof.
  unfold flat, write_seg_rows. induction samples as [|[k rs] S' IH]; cbn; auto.
  rewrite map_app, IH. f_equal. rewrite map_map. reflexivity.
Qed.

Definition add_gene (r : row) : row := (fst r, snd r ++ [seg_gene]).
Definition seg_ncol (probes : bool) : nat := if probes then 6%nat else 5%nat.

Definition seg_ok (probes : bool) (samples : list (string * list row)) : Prop :=
  NoDup (map fst samples) /\ Forall (fun sr => snd sr <> []) samples /\
  Forall (fun sr => Forall (fun r => length (snd r) = (if probes then 2 else 1)%nat) (snd sr)) samples.

Lemma in_flat {A} (p : string * A) S : In p (flat S) -> exists sr, In sr S /\ fst sr = fst p /\ In (snd p) (snd sr).
Proof.
  unfold flat. intros H. apply in_concat in H. destruct H as (l & Hl & Hp).
  apply in_map_iff in Hl. destruct Hl as (sr & <- & Hsr).
  apply in_map_iff in Hp. destruct Hp as (r & <- & Hr). exists sr. cbn. auto.
Qed.

Theorem roundtrip_parse_seg probes samples :
  seg_ok probes samples ->
  parse_seg (write_seg probes samples)
  = Some (map (fun sr => (fst sr, map add_gene (snd sr))) samples).
Proof.
  intros (HN & HF & HL). unfold parse_seg, write_seg.
  assert (Hh : seg_find_header (seg_header probes ::
                 concat (map (fun sr => write_seg_rows (fst sr) (snd sr)) samples))
               = Some (seg_ncol probes, concat (map (fun sr => write_seg_rows (fst sr) (snd sr)) samples))).
  { destruct probes; reflexivity. }
  rewrite Hh, write_seg_body.
  rewrite (all_some_map_map (fun p => seg_line (fst p) (snd p)) (read_seg_line (seg_ncol probes))
             (fun p : string * row => (fst p, add_gene (snd p)))).
  - cbn [option_map]. f_equal. rewrite flat_map. apply group_rows_flat.
    + rewrite map_map. cbn [fst]. exact HN.
    + apply Forall_map. eapply Forall_impl; [|exact HF]. intros [k rs] Hne. cbn in *.
      destruct rs; [congruence| discriminate].
  - intros [sid [[[c s] e] ex]] Hin. apply in_flat in Hin. destruct Hin as (sr & Hsr & _ & Hr).
    rewrite Forall_forall in HL. specialize (HL _ Hsr). rewrite Forall_forall in HL.
    specialize (HL _ Hr). cbn [fst snd] in *.
    unfold seg_line, read_seg_line. cbn [fst snd length].
    assert (E : (S (S (S (S (length ex)))) =? seg_ncol probes)%nat = true).
    { rewrite HL. destruct probes; reflexivity. }
    rewrite E. cbn [negb]. rewrite !parse_print. unfold add_gene. cbn [fst snd].
    now rewrite off_seg_zero.
Qed.

Theorem roundtrip_import_seg probes samples :
  seg_ok probes samples ->
  import_seg (write_seg probes samples)
  = Some (map (fun sr => (fst sr, sort_rows (map add_gene (snd sr)))) samples).
Proof.
  intros H. unfold import_seg. rewrite roundtrip_parse_seg by assumption.
  cbn [option_map]. now rewrite map_map.
Qed.
