(* C19 -- library lemmas closing gaps of the first round:
   (1) an order accepted by [arrange_pairs] (numpy's argsort, checked by [valid_order] and
       [sorted_fst_b]) really arranges the pairs as a permutation sorted by value, so the
       weighted-median theorems apply to [weighted_median_ord] without a contract hypothesis;
   (2) percentiles under order-reversing maps (IQR rescaling for every factor);
   (3) the gapper sum in indexed form: its published formula, and rescaling for every factor. *)
From CNV Require Import Base.Prelude Base.QNum Proofs.QNumLemmas Gen.DescDefaults
  Model.Descriptives Spec.Stats Proofs.DescriptivesWMedian Proofs.DescriptivesWMedianTop
  Proofs.DescriptivesScale Proofs.DescriptivesMore.
From Coq Require Import Qabs Qround Psatz Setoid Morphisms Sorting.Sorted.
Local Open Scope Q_scope.

(* ========================================================================== *)
(** * (1) arrange_pairs is sound *)

Lemma valid_order_perm ord n : valid_order ord n = true -> Permutation (seq 0 n) ord.
Proof.
  unfold valid_order. intro H. apply andb_true_iff in H as [HL HC].
  apply Nat.eqb_eq in HL. rewrite forallb_forall in HC.
  apply NoDup_Permutation_bis.
  - apply seq_NoDup.
  - rewrite seq_length. lia.
  - intros i Hi. specialize (HC i Hi). apply existsb_exists in HC as (j & Hj & E).
    apply Nat.eqb_eq in E. now subst.
Qed.

Lemma arrange_seq {A} (d : A) (l : list A) : arrange d (seq 0 (length l)) l = l.
Proof.
  unfold arrange. induction l as [|a t IH]; [reflexivity|].
  cbn [length seq map nth]. f_equal. rewrite <- seq_shift, map_map. exact IH.
Qed.

Lemma arrange_perm {A} (d : A) ord (l : list A) :
  valid_order ord (length l) = true -> Permutation (arrange d ord l) l.
Proof.
  intro H. apply valid_order_perm in H.
  rewrite <- (arrange_seq d l) at 2. unfold arrange. apply Permutation_map. now symmetry.
Qed.

Lemma sorted_fst_b_sound l : sorted_fst_b l = true -> sorted_by_value l.
Proof.
  intro H. unfold sorted_by_value. apply Sorted_StronglySorted.
  - intros x y z H1 H2. lra.
  - induction l as [|p t IH]; [constructor|].
    destruct t as [|q t'].
    + constructor; constructor.
    + cbn [sorted_fst_b] in H. apply andb_true_iff in H as [H1 H2]. apply qle_b_iff in H1.
      constructor; [now apply IH|]. constructor. exact H1.
Qed.

Theorem arrange_pairs_sound ord ps r :
  arrange_pairs ord ps = Some r -> Permutation r ps /\ sorted_by_value r.
Proof.
  unfold arrange_pairs. destruct (valid_order ord (length ps)) eqn:V; [|discriminate].
  destruct (sorted_fst_b (arrange (0, 0) ord ps)) eqn:S; [|discriminate].
  intro E; injection E as <-. split; [now apply arrange_perm|now apply sorted_fst_b_sound].
Qed.

(* the model's own arrangement, for reference in the property file *)
Theorem psort_sorted_perm ps : Permutation (psort ps) ps /\ sorted_by_value (psort ps).
Proof. split; [apply psort_perm|apply psort_sorted]. Qed.

(* the weighted median on numpy's arrangement: no contract hypothesis left *)
Theorem weighted_median_ord_halves ps ord m :
  nonneg_weights ps -> weighted_median_ord ps ord = Some (Some m) ->
  (forall r, arrange_pairs ord ps = Some r -> wm_no_near_tie r) ->
  is_weighted_median m ps.
Proof.
  intros Hnn E Hg. destruct ps as [|p [|q t]]; cbn [weighted_median_ord] in E.
  - discriminate.
  - injection E as <-. unfold is_weighted_median, wbelow, wabove, wtotal. cbn [filter map].
    assert (E1 : qlt_b (fst p) (fst p) = false) by (apply qlt_b_false; lra).
    rewrite E1. cbn [map sumQ]. assert (0 <= snd p) by (apply Hnn; now left).
    assert (0 <= (snd p + 0) / 2) by (apply Qle_shift_div_l; lra). split; assumption.
  - destruct (arrange_pairs ord (p :: q :: t)) as [r|] eqn:A; [|discriminate].
    injection E as <-. destruct (arrange_pairs_sound _ _ _ A) as [P S].
    apply (arranged_halves (p :: q :: t) r); auto. discriminate.
Qed.

Theorem weighted_median_ord_range ps ord m :
  nonneg_weights ps -> weighted_median_ord ps ord = Some (Some m) ->
  exists p q, In p ps /\ In q ps /\ fst p <= m <= fst q.
Proof.
  intros Hnn E. destruct ps as [|p [|q t]]; cbn [weighted_median_ord] in E.
  - discriminate.
  - injection E as <-. exists p, p. repeat split; try (now left); lra.
  - destruct (arrange_pairs ord (p :: q :: t)) as [r|] eqn:A; [|discriminate].
    injection E as <-. destruct (arrange_pairs_sound _ _ _ A) as [P S].
    apply (arranged_range (p :: q :: t) r); auto. discriminate.
Qed.

(* ========================================================================== *)
(** * (2) percentiles under reversal *)

Lemma Qfloor_unique z q : inject_Z z <= q -> q < inject_Z z + 1 -> Qfloor q = z.
Proof.
  intros H1 H2. pose proof (Qfloor_ge_Z _ _ H1) as G.
  pose proof (Qfloor_le q) as L.
  assert (inject_Z (Qfloor q) < inject_Z (z + 1)) as Hlt by (rewrite inject_Z_plus; change (inject_Z 1) with 1; lra).
  rewrite <- Zlt_Qlt in Hlt. lia.
Qed.

Lemma qofnat_sub a b : (b <= a)%nat -> qofnat (a - b) == qofnat a - qofnat b.
Proof. intro H. unfold qofnat. rewrite Nat2Z.inj_sub by exact H. unfold Z.sub. rewrite inject_Z_plus, inject_Z_opp. reflexivity. Qed.

(* reading a reversed list at position h = reading the list at position (n-1) - h *)
Lemma interp_sorted_rev s h : (0 < length s)%nat -> 0 <= h -> h <= qofnat (length s - 1) ->
  interp_sorted (rev s) h == interp_sorted s (qofnat (length s - 1) - h).
Proof.
  intros Hn H0 H1. set (n := length s) in *. set (N := (n - 1)%nat) in *.
  rewrite !interp_sorted_spec.
  destruct (frac_bounds h) as [F0 F1].
  pose proof (Qfloor_nonneg _ H0) as Z0.
  assert (ZN : (Qfloor h <= Z.of_nat N)%Z) by (apply Qfloor_le_Z; exact H1).
  set (zi := Qfloor h) in *. set (i := Z.to_nat zi).
  assert (Ei : inject_Z zi == qofnat i) by (unfold qofnat, i; rewrite Z2Nat.id by lia; reflexivity).
  assert (Ii : (i <= N)%nat) by (unfold i; lia).
  set (f := h - inject_Z zi) in *.
  destruct (Qeq_dec f 0) as [Ef|Ef].
  - (* h is an integer *)
    assert (Eh : h == qofnat i) by (unfold f in Ef; lra).
    assert (Efl : Qfloor (qofnat N - h) = Z.of_nat (N - i)).
    { apply Qfloor_unique; fold (qofnat (N - i)); rewrite (qofnat_sub N i Ii); lra. }
    rewrite Efl, Nat2Z.id.
    assert (Efr : qofnat N - h - inject_Z (Z.of_nat (N - i)) == 0).
    { fold (qofnat (N - i)). rewrite (qofnat_sub N i Ii). lra. }
    rewrite Efr, Ef. rewrite nthq_rev by (fold n; lia). fold n.
    replace (n - S i)%nat with (N - i)%nat by (unfold N; lia). ring.
  - (* strictly between two positions *)
    assert (Fpos : 0 < f) by (destruct (Qlt_le_dec 0 f); [assumption|exfalso; apply Ef; lra]).
    assert (Ii' : (i < N)%nat).
    { assert (qofnat i < qofnat N) as Hlt by (unfold f in Fpos; lra).
      unfold qofnat in Hlt. rewrite <- Zlt_Qlt in Hlt. lia. }
    assert (Efl : Qfloor (qofnat N - h) = Z.of_nat (N - i - 1)).
    { apply Qfloor_unique; fold (qofnat (N - i - 1));
        rewrite (qofnat_sub (N - i) 1) by lia; rewrite (qofnat_sub N i Ii);
        change (qofnat 1) with 1; unfold f in *; lra. }
    rewrite Efl, Nat2Z.id.
    assert (Efr : qofnat N - h - inject_Z (Z.of_nat (N - i - 1)) == 1 - f).
    { fold (qofnat (N - i - 1)). rewrite (qofnat_sub (N - i) 1) by lia. rewrite (qofnat_sub N i Ii).
      change (qofnat 1) with 1. unfold f. lra. }
    rewrite Efr.
    assert (A : nthq i (rev s) = nthq (N - i) s).
    { rewrite nthq_rev by (fold n; lia). fold n. f_equal. unfold N. lia. }
    assert (B : nth (S i) (rev s) (nthq i (rev s)) = nthq (N - i - 1) s).
    { destruct (nth_succ_cases (rev s) i) as [[L ->]|[L _]]; [|rewrite rev_length in L; fold n in L; lia].
      rewrite nthq_rev by (fold n; lia). fold n. f_equal. unfold N. lia. }
    assert (C : nth (S (N - i - 1)) s (nthq (N - i - 1) s) = nthq (N - i) s).
    { destruct (nth_succ_cases s (N - i - 1)) as [[L ->]|[L _]]; [|fold n in L; lia].
      f_equal. lia. }
    rewrite B, A, C. ring.
Qed.

Lemma percentile_pos_compl n p : qofnat (n - 1) - percentile_pos n p == percentile_pos n (100 - p).
Proof. rewrite !percentile_pos_spec. field. Qed.

(* order-reversing maps that commute with linear interpolation send the p-th percentile
   to the image of the (100-p)-th *)
Lemma percentile_map_anti (f : Q -> Q) p l : l <> [] -> 0 <= p <= 100 ->
  (forall a b, a <= b -> f b <= f a) -> interp_hom f -> percentile p (map f l) == f (percentile (100 - p) l).
Proof.
  intros N P Hf Hi. unfold percentile. rewrite !qsort_length, map_length.
  pose proof (length_pos_nonnil _ N) as L.
  assert (Pf : Proper (Qeq ==> Qeq) f) by now apply anti_proper.
  rewrite (interp_sorted_eqQ _ _ _ _ (qsort_map_anti f l Hf) (Qeq_refl _)).
  rewrite <- map_rev.
  assert (Ix : (Z.to_nat (Qfloor (percentile_pos (length l) p)) < length (rev (qsort l)))%nat).
  { rewrite rev_length, qsort_length. now apply percentile_pos_index. }
  rewrite (interp_sorted_map f (rev (qsort l)) _ Pf Hi Ix).
  apply Pf. destruct (percentile_pos_range (length l) p L P) as [R0 R1].
  rewrite interp_sorted_rev; rewrite ?qsort_length; auto.
  apply interp_sorted_eqQ; [reflexivity|apply percentile_pos_compl].
Qed.

Lemma percentile_scale_neg k p l : l <> [] -> 0 <= p <= 100 -> k <= 0 ->
  percentile p (map (fun x => k * x) l) == k * percentile (100 - p) l.
Proof.
  intros N P K. apply (percentile_map_anti (fun x => k * x)); auto.
  - intros a b H; nra.
  - intros a b t; ring.
Qed.

Theorem iqrQ_scale k a : a <> [] -> iqrQ (map (fun x => k * x) a) == Qabs k * iqrQ a.
Proof.
  intro N. destruct (Qlt_le_dec k 0) as [K|K].
  - unfold iqrQ. rewrite !percentile_scale_neg by (auto using p25, p75; lra).
    rewrite (percentile_PermQ (100 - 75) 25 a a (Qeq_refl 25) (PermQ_Equivalence.(Equivalence_Reflexive) a)).
    rewrite (percentile_PermQ (100 - 25) 75 a a (Qeq_refl 75) (PermQ_Equivalence.(Equivalence_Reflexive) a)).
    rewrite Qabs_neg by lra. ring.
  - rewrite (iqrQ_scale_nonneg k a N K), Qabs_pos by exact K. reflexivity.
Qed.

(* ========================================================================== *)
(** * (3) the gapper sum, indexed *)

(* sum_{j=0}^{n-2} (j+1)(n-(j+1)) (s[j+1] - s[j]) *)
Definition gidx (s : list Q) : Q :=
  sumQ (map (fun j => qofnat (S j * (length s - S j)) * (nthq (S j) s - nthq j s)) (seq 0 (length s - 1))).

Lemma sumQ_map_ext {A} (f g : A -> Q) l : (forall x, In x l -> f x == g x) -> sumQ (map f l) == sumQ (map g l).
Proof.
  induction l as [|x t IH]; intro H; cbn [map sumQ]; [reflexivity|].
  rewrite (H x) by now left. rewrite IH by (intros; apply H; now right). reflexivity.
Qed.

Lemma sumQ_map_scale {A} (k : Q) (f : A -> Q) l : sumQ (map (fun x => k * f x) l) == k * sumQ (map f l).
Proof. induction l as [|x t IH]; cbn [map sumQ]; [ring|rewrite IH; ring]. Qed.

Lemma qdot_diffs_idx (g : nat -> Q) s : forall off,
  qdot (diffs s) (map g (seq off (length s - 1))) ==
  sumQ (map (fun j => g (off + j)%nat * (nthq (S j) s - nthq j s)) (seq 0 (length s - 1))).
Proof.
  induction s as [|x t IH]; intro off; [reflexivity|].
  destruct t as [|y t']; [reflexivity|].
  cbn [length] in *. replace (S (S (length t')) - 1)%nat with (S (length t')) by lia.
  replace (S (length t') - 1)%nat with (length t') in IH by lia.
  cbn [diffs seq map]. rewrite qdot_cons. cbn [sumQ].
  rewrite <- (seq_shift (length t') 0), map_map. rewrite (IH (S off)).
  rewrite qsub_spec. rewrite Nat.add_0_r.
  assert (E : sumQ (map (fun j => g (S off + j)%nat * (nthq (S j) (y :: t') - nthq j (y :: t'))) (seq 0 (length t'))) ==
              sumQ (map (fun j => g (off + S j)%nat * (nthq (S (S j)) (x :: y :: t') - nthq (S j) (x :: y :: t'))) (seq 0 (length t')))).
  { apply sumQ_map_ext. intros j _. replace (S off + j)%nat with (off + S j)%nat by lia. reflexivity. }
  rewrite E. change (nthq 1 (x :: y :: t')) with y. change (nthq 0 (x :: y :: t')) with x. ring.
Qed.

Lemma gapper_sum_gidx a : gapper_sum a == gidx (qsort a).
Proof.
  unfold gapper_sum, gapper_weights, gidx. rewrite <- (qsort_length a).
  set (s := qsort a). rewrite (qdot_diffs_idx (fun i => qofnat (i * (length s - i))) s 1).
  apply sumQ_map_ext. intros j _. reflexivity.
Qed.

Lemma gidx_eqQ s s' : eqQ s s' -> gidx s == gidx s'.
Proof.
  intro H. unfold gidx. rewrite <- (eqQ_length _ _ H). apply sumQ_map_ext. intros j _.
  rewrite (eqQ_nthq _ _ (S j) H), (eqQ_nthq _ _ j H). reflexivity.
Qed.

Lemma gidx_scale k s : gidx (map (fun x => k * x) s) == k * gidx s.
Proof.
  unfold gidx. rewrite map_length, <- sumQ_map_scale. apply sumQ_map_ext. intros j Hj.
  apply in_seq in Hj. rewrite !nthq_map by lia. ring.
Qed.

Lemma rev_seq a m : rev (seq a m) = map (fun i => (a + (a + m - 1) - i)%nat) (seq a m).
Proof.
  revert a; induction m as [|m IH]; intro a; [reflexivity|].
  rewrite seq_S at 1. rewrite rev_app_distr. cbn [rev app]. rewrite IH.
  cbn [seq map]. f_equal; [lia|].
  rewrite <- seq_shift, !map_map. apply map_ext_in. intros i Hi. apply in_seq in Hi. lia.
Qed.

Lemma sumQ_rev_idx (F : nat -> Q) m :
  sumQ (map F (seq 0 m)) == sumQ (map (fun j => F (m - 1 - j)%nat) (seq 0 m)).
Proof.
  rewrite (sumQ_perm _ _ (Permutation_rev (map F (seq 0 m)))).
  rewrite <- map_rev, rev_seq, map_map. apply sumQ_map_ext. intros j _.
  replace (0 + (0 + m - 1) - j)%nat with (m - 1 - j)%nat by lia. reflexivity.
Qed.

Lemma gidx_rev s : gidx (rev s) == - gidx s.
Proof.
  unfold gidx. rewrite rev_length. set (n := length s).
  rewrite (sumQ_rev_idx (fun j => qofnat (S j * (n - S j)) * (nthq (S j) s - nthq j s)) (n - 1)).
  setoid_replace (- sumQ (map (fun j => qofnat (S (n - 1 - 1 - j) * (n - S (n - 1 - 1 - j))) *
                                       (nthq (S (n - 1 - 1 - j)) s - nthq (n - 1 - 1 - j) s)) (seq 0 (n - 1))))
    with ((-1) * sumQ (map (fun j => qofnat (S (n - 1 - 1 - j) * (n - S (n - 1 - 1 - j))) *
                                       (nthq (S (n - 1 - 1 - j)) s - nthq (n - 1 - 1 - j) s)) (seq 0 (n - 1)))) by ring.
  rewrite <- sumQ_map_scale. apply sumQ_map_ext. intros j Hj. apply in_seq in Hj.
  rewrite !nthq_rev by (fold n; lia). fold n.
  replace (n - S (S j))%nat with (n - 1 - 1 - j)%nat by lia.
  replace (n - S j)%nat with (S (n - 1 - 1 - j)) by lia.
  replace (n - S (n - 1 - 1 - j))%nat with (S j) by lia.
  rewrite (Nat.mul_comm (S j)). ring.
Qed.

Theorem gapper_sum_scale_abs k a : gapper_sum (map (fun x => k * x) a) == Qabs k * gapper_sum a.
Proof.
  destruct (Qlt_le_dec k 0) as [K|K].
  - rewrite !gapper_sum_gidx.
    assert (Ha : forall x y : Q, x <= y -> k * y <= k * x) by (intros x y H; nra).
    rewrite (gidx_eqQ _ _ (qsort_map_anti (fun x => k * x) a Ha)).
    rewrite gidx_rev, gidx_scale, Qabs_neg by lra. ring.
  - rewrite (gapper_sum_scale k a K), Qabs_pos by exact K. reflexivity.
Qed.

Theorem gapper_core_scale_abs sp k a :
  gapper_core sp (map (fun x => k * x) a) == Qabs k * gapper_core sp a.
Proof. rewrite !gapper_core_eq, map_length, gapper_sum_scale_abs. unfold Qdiv. ring. Qed.

(* the published formula (Wainer & Thissen): sum_i i (n-i) (x_(i+1) - x_(i)) / (n (n-1)), times sqrt(pi) *)
Lemma gapper_terms_gidx s : sumQ (gapper_termsQ s) == gidx s.
Proof.
  unfold gapper_termsQ, gidx. rewrite <- seq_shift, map_map. apply sumQ_map_ext. intros j _.
  cbn [Nat.sub]. rewrite Nat.sub_0_r. reflexivity.
Qed.

Theorem gapper_core_spec sp a : gapper_core sp a == gapperQ a * sp.
Proof.
  rewrite gapper_core_eq, gapper_sum_gidx. unfold gapperQ. rewrite gapper_terms_gidx.
  unfold qofnat, Qdiv. ring.
Qed.

(* ========================================================================== *)
(** * (4) the replayed chain of biweight iterations is the loop *)

Lemma last_cons_default {A} (l : list A) : forall x d, last (x :: l) d = last l x.
Proof.
  induction l as [|y t IH]; intros x d; [reflexivity|].
  change (last (x :: y :: t) d) with (last (y :: t) d). rewrite (IH y d), (IH y x). reflexivity.
Qed.

(* [biloc_chain] restarts every step from a supplied iterate (the harness supplies the code's own
   floats); when the supplied iterates are the exact ones it computes exactly [biloc_loop] *)
Theorem biloc_chain_exact fuel c eps a : forall i its m rs m',
  biloc_chain fuel c eps a i its m = (rs, m') ->
  (forall k, (S k < length rs)%nat -> nth k its 0 = nth k rs 0) ->
  last rs i = biloc_loop fuel c eps a i i.
Proof.
  induction fuel as [|fuel IH]; intros i its m rs m' E H; cbn [biloc_chain biloc_loop] in *.
  - injection E as <- _. reflexivity.
  - set (r := biloc_iter c eps a i) in *.
    destruct (qle_b (qabs (qsub r i)) eps).
    + injection E as <- _. reflexivity.
    + destruct (biloc_chain fuel c eps a (match its with r' :: _ => r' | [] => r end) (tl its)
                  (qmin2 m (qabs (qsub (qabs (qsub r i)) eps)))) as [rs' m''] eqn:C.
      injection E as <- _. rewrite last_cons_default.
      destruct rs' as [|r1 rs''].
      * (* no step left *)
        destruct fuel as [|fuel']; [reflexivity|]. cbn [biloc_chain] in C.
        destruct (qle_b _ eps) in C; [discriminate|].
        destruct (biloc_chain fuel' _ _ _ _ _ _) in C. discriminate.
      * assert (Enext : match its with r' :: _ => r' | [] => r end = r).
        { destruct its as [|r' t]; [reflexivity|]. exact (H 0%nat ltac:(cbn; lia)). }
        rewrite Enext in C. apply (IH r (tl its) _ _ _ C).
        intros k Hk. assert (Hk' : (S (S k) < length (r :: r1 :: rs''))%nat) by (cbn [length] in *; lia).
        specialize (H (S k) Hk'). change (nth (S k) (r :: r1 :: rs'') 0) with (nth k (r1 :: rs'') 0) in H.
        rewrite <- H. destruct its; [destruct k; reflexivity|reflexivity].
Qed.
