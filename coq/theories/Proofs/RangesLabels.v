(* C07: the label / position bridge.  iter_slices yields index LABELS; the callers look the
   rows (intersection: `self.data.loc[indices]`) or a column's values (into_ranges,
   iter_ranges_of: `column[slc]`) up BY LABEL.  With unique labels a label lookup of the labels
   of a sub-list of the table gives that sub-list back; with the default labels 0..n-1 a label
   lookup is the positional lookup; with other labels it is not (the witness below is the
   situation of a filtered table, where positional indexing goes wrong). *)
From CNV Require Import Base.Prelude Model.Ranges Spec.RangeQuery
  Proofs.RangesLib Proofs.Ranges Proofs.RangesTables.

Lemma filter_label_unique (t : list row) (r : row) :
  NoDup (map r_id t) -> In r t -> filter (fun x => r_id x =? r_id r) t = [r].
Proof.
  induction t as [|a t IH]; intros Hnd Hin; [destruct Hin|].
  cbn [map] in Hnd. inversion Hnd as [|? ? Ha Hnd']; subst. cbn [filter].
  destruct Hin as [->|Hin].
  - rewrite Z.eqb_refl. f_equal. apply filter_all_false. intros x Hx.
    destruct (r_id x =? r_id r) eqn:E; [|reflexivity]. exfalso. apply Ha.
    apply Z.eqb_eq in E. rewrite <- E. now apply in_map.
  - destruct (r_id a =? r_id r) eqn:E.
    + exfalso. apply Ha. apply Z.eqb_eq in E. rewrite E. now apply in_map.
    + now apply IH.
Qed.

(* unique labels: looking the labels of some rows of the table up gives those rows back *)
Theorem rows_loc_unique (t sub : list row) :
  NoDup (map r_id t) -> (forall r, In r sub -> In r t) -> rows_loc t (map r_id sub) = sub.
Proof.
  intros Hnd. induction sub as [|r sub IH]; intros Hin; [reflexivity|].
  unfold rows_loc in *. cbn [map flat_map].
  rewrite (filter_label_unique t r Hnd (Hin r (or_introl eq_refl))), IH; [reflexivity|].
  intros x Hx. apply Hin. now right.
Qed.

Lemma rows_loc_app t l1 l2 : rows_loc t (l1 ++ l2) = rows_loc t l1 ++ rows_loc t l2.
Proof. unfold rows_loc. apply flat_map_app. Qed.

Lemma rows_loc_concat (t : list row) (subs : list (list row)) :
  NoDup (map r_id t) -> (forall sub r, In sub subs -> In r sub -> In r t) ->
  rows_loc t (concat (map (map r_id) subs)) = concat subs.
Proof.
  intros Hnd. induction subs as [|s subs IH]; intros Hin; [reflexivity|].
  cbn [map concat]. rewrite rows_loc_app, (rows_loc_unique t s Hnd), IH; [reflexivity| |].
  - intros sub r Hs Hr. apply (Hin sub r); [now right | exact Hr].
  - intros r Hr. apply (Hin s r); [now left | exact Hr].
Qed.

(* every slice iter_slices yields consists of rows of the table *)
Lemma select_spec_incl m qs qe rows r : m <> QTrim -> In r (select_spec m qs qe rows) -> In r rows.
Proof.
  intros Hm. destruct m; [| |contradiction]; unfold select_spec, inner_spec, outer_spec;
    intros H; apply filter_In in H; tauto.
Qed.

Lemma rows_of_incl c table r : In r (rows_of c table) -> In r (map snd table).
Proof.
  unfold rows_of, of_chrom. intros H. apply in_map_iff in H as [x [<- Hx]].
  apply filter_In in Hx as [Hx _]. now apply in_map.
Qed.

Theorem iter_slices_rows table other im ke :
  table_ok table -> grouped other ->
  forall sub r, In sub (iter_slices table other im ke) -> In r sub -> In r (map snd table).
Proof.
  intros Hok Hg sub r Hs Hr. rewrite iter_slices_answers in Hs by assumption.
  apply in_map_iff in Hs as [[b sel] [<- Hs]]. apply filter_In in Hs as [Hs _].
  unfold answers in Hs. apply in_map_iff in Hs as [b' [Hb' _]]. inversion Hb'; subst.
  cbn [snd] in Hr. apply select_spec_incl in Hr; [|destruct im; discriminate].
  eapply rows_of_incl; eauto.
Qed.

(* THE BRIDGE: with unique labels, the rows found under the labels of a slice are the slice *)
Theorem iter_slices_loc table other im ke :
  table_ok table -> grouped other -> NoDup (map r_id (map snd table)) ->
  Forall (fun sub => rows_loc (map snd table) (map r_id sub) = sub) (iter_slices table other im ke) /\
  rows_loc (map snd table) (concat (iter_slice_labels table other im ke)) =
    concat (iter_slices table other im ke).
Proof.
  intros Hok Hg Hnd. split.
  - apply Forall_forall. intros sub Hs. apply rows_loc_unique; [exact Hnd|].
    intros r Hr. eapply iter_slices_rows; eauto.
  - unfold iter_slice_labels. apply rows_loc_concat; [exact Hnd|].
    intros sub r Hs Hr. eapply iter_slices_rows; eauto.
Qed.

(* ---- default labels: label = position ------------------------------------------------------ *)
Lemma filter_label_pos (l : Z) : forall (t : list row) (k0 : nat),
  (forall k r, nth_error t k = Some r -> r_id r = Z.of_nat (k0 + k)) ->
  filter (fun r => r_id r =? l) t =
  match (if l <? Z.of_nat k0 then None else nth_error t (Z.to_nat l - k0)) with
  | Some r => [r]
  | None => []
  end.
Proof.
  induction t as [|a t IH]; intros k0 H.
  - cbn [filter]. destruct (l <? Z.of_nat k0); [reflexivity|]. destruct (Z.to_nat l - k0)%nat; reflexivity.
  - assert (Ha : r_id a = Z.of_nat k0) by (rewrite (H 0%nat a eq_refl); f_equal; lia).
    assert (H' : forall k r, nth_error t k = Some r -> r_id r = Z.of_nat (S k0 + k)).
    { intros k r Hk. rewrite (H (S k) r Hk). f_equal. lia. }
    specialize (IH (S k0) H'). cbn [filter]. rewrite IH, Ha.
    destruct (Z.of_nat k0 =? l) eqn:E.
    + apply Z.eqb_eq in E. subst l.
      assert (E1 : Z.of_nat k0 <? Z.of_nat (S k0) = true) by lia. rewrite E1, Z.ltb_irrefl.
      rewrite Nat2Z.id, Nat.sub_diag. reflexivity.
    + apply Z.eqb_neq in E.
      destruct (l <? Z.of_nat k0) eqn:E2.
      * assert (E3 : l <? Z.of_nat (S k0) = true) by lia. rewrite E3. reflexivity.
      * destruct (l <? Z.of_nat (S k0)) eqn:E3; [lia|].
        assert (E4 : (Z.to_nat l - k0 = S (Z.to_nat l - S k0))%nat) by lia.
        rewrite E4. reflexivity.
Qed.

(* with the default labels 0..n-1 the label lookup IS the positional lookup *)
Theorem rows_loc_default (t : list row) (ls : list Z) :
  (forall k r, nth_error t k = Some r -> r_id r = Z.of_nat k) ->
  rows_loc t ls = rows_iloc t ls.
Proof.
  intros H. unfold rows_loc, rows_iloc. rewrite !flat_map_concat_map. f_equal. apply map_ext. intros l.
  rewrite (filter_label_pos l t 0%nat) by (intros k r Hk; cbn; now apply H).
  cbn [Z.of_nat]. rewrite Nat.sub_0_r. destruct (l <? 0); reflexivity.
Qed.

(* ... and with other labels it is not: a table that lost its first row keeps the labels 1, 2;
   the label of its first row names, by position, its second row *)
Example rows_loc_not_iloc :
  let t := [mkRow 1 10 20; mkRow 2 30 40] in
  rows_loc t [1] = [mkRow 1 10 20] /\ rows_iloc t [1] = [mkRow 2 30 40].
Proof. split; reflexivity. Qed.

(* repeated labels: a label lookup returns every row carrying the label, for every request *)
Example rows_loc_repeated :
  rows_loc [mkRow 0 10 20; mkRow 0 30 40] [0] = [mkRow 0 10 20; mkRow 0 30 40].
Proof. reflexivity. Qed.
