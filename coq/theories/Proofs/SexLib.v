(* Library for the chromosomal-sex part of C15: on samples whose values are all the same number
   Mood's test has no table to offer, and the (weighted) median is that number. *)
From CNV Require Import Base.Prelude Base.QNum Proofs.QNumLemmas Gen.CenterDefaults Gen.DescDefaults
  Model.Center Model.Sex.
From CNV Require Model.Descriptives.
From Coq Require Import Qabs Setoid Morphisms Psatz.
Local Open Scope Q_scope.

Definition const_list (v : Q) (l : list Q) : Prop := forall x, In x l -> x == v.

Lemma const_list_map_qadd v c l : const_list v l -> const_list (v + c) (map (fun x => qadd x c) l).
Proof.
  intros H y Hy. apply in_map_iff in Hy. destruct Hy as [x [<- Hx]]. rewrite qadd_spec, (H x Hx). reflexivity.
Qed.

Lemma const_list_app v l1 l2 : const_list v l1 -> const_list v l2 -> const_list v (l1 ++ l2).
Proof. intros H1 H2 x Hx. apply in_app_or in Hx. destruct Hx; auto. Qed.

Lemma const_list_eq v v' l : v == v' -> const_list v l -> const_list v' l.
Proof. intros E H x Hx. rewrite (H x Hx). exact E. Qed.

(* ---- Mood's test on constant samples: every value ties with the grand median ------------------ *)
Lemma count_if_zero p l : (forall x, In x l -> p x = false) -> count_if p l = 0%Z.
Proof.
  intros H. unfold count_if. replace (filter p l) with (@nil Q); [reflexivity|].
  symmetry. induction l as [|x l IH]; simpl; [reflexivity|].
  rewrite (H x) by (left; reflexivity). apply IH. intros y Hy. apply H. right. exact Hy.
Qed.

Lemma mood_stat_const gstat v s1 s2 : const_list v s1 -> const_list v s2 -> mood_stat gstat s1 s2 = None.
Proof.
  intros H1 H2. unfold mood_stat. destruct s1 as [|x1 r1]; [reflexivity|]. destruct s2 as [|x2 r2]; [reflexivity|].
  set (s1 := x1 :: r1) in *. set (s2 := x2 :: r2) in *.
  assert (Hm : median (s1 ++ s2) == v).
  { apply median_const; [subst s1; discriminate|]. apply const_list_app; assumption. }
  assert (T : mood_table s1 s2 = (0, 0, 0, 0)%Z).
  { unfold mood_table.
    rewrite !count_if_zero; [reflexivity| | | |].
    - intros x Hx. apply qlt_b_false. rewrite Hm, (H2 x Hx). apply Qle_refl.
    - intros x Hx. apply qlt_b_false. rewrite Hm, (H1 x Hx). apply Qle_refl.
    - intros x Hx. apply qlt_b_false. rewrite Hm, (H2 x Hx). apply Qle_refl.
    - intros x Hx. apply qlt_b_false. rewrite Hm, (H1 x Hx). apply Qle_refl. }
  rewrite T. reflexivity.
Qed.

(* ---- weighted median of a constant sample ------------------------------------------------------ *)
Definition okp (v : Q) (p : Q * Q) : Prop := fst p == v /\ 0 <= snd p.

Lemma pins_ok v p l : okp v p -> Forall (okp v) l -> Forall (okp v) (Descriptives.pins p l).
Proof.
  intros Hp H. induction H as [|q l Hq H IH]; simpl.
  - constructor; [exact Hp|constructor].
  - destruct (qle_b (fst p) (fst q)).
    + constructor; [exact Hp|]. constructor; assumption.
    + constructor; assumption.
Qed.

Lemma psort_ok v l : Forall (okp v) l -> Forall (okp v) (Descriptives.psort l).
Proof.
  intros H. unfold Descriptives.psort. induction H as [|p l Hp H IH]; simpl; [constructor|].
  apply pins_ok; assumption.
Qed.

Lemma pins_nonnil p l : Descriptives.pins p l <> [].
Proof. destruct l as [|q l]; simpl; [discriminate|]. destruct (qle_b (fst p) (fst q)); discriminate. Qed.

Lemma psort_nonnil l : l <> [] -> Descriptives.psort l <> [].
Proof. destruct l as [|p l]; [contradiction|]. intros _. unfold Descriptives.psort. simpl. apply pins_nonnil. Qed.

Lemma argmax_from_ok v l : forall best, okp v best -> Forall (okp v) l -> okp v (Descriptives.argmax_from best l).
Proof.
  induction l as [|p l IH]; intros best Hb H; simpl; [exact Hb|].
  inversion H; subst. destruct (qlt_b (snd best) (snd p)); apply IH; assumption.
Qed.

Lemma snd_sum_nonneg v l : Forall (okp v) l -> 0 <= qsum (map snd l).
Proof.
  intros H. apply qsum_nonneg. intros x Hx. apply in_map_iff in Hx. destruct Hx as [p [<- Hp]].
  rewrite Forall_forall in H. apply (H p Hp).
Qed.

Lemma wmed_walk_const v mid tol l : forall acc,
  Forall (okp v) l -> l <> [] -> mid - tol <= acc + qsum (map snd l) ->
  Descriptives.wmed_walk mid tol acc l == v.
Proof.
  induction l as [|[v1 w1] rest IH]; intros acc H Hn Hinv; [contradiction|].
  inversion H as [|? ? [Hv1 Hw1] Hrest]; subst. simpl in Hv1, Hw1.
  cbn [Descriptives.wmed_walk].
  destruct (qle_b (qsub mid tol) (qadd acc w1)) eqn:E.
  - destruct rest as [|[v2 w2] rest']; [exact Hv1|].
    inversion Hrest as [|? ? [Hv2 _] _]; subst. simpl in Hv2.
    destruct (qle_b (qabs (qsub (qadd acc w1) mid)) tol); [|exact Hv1].
    rewrite qdiv_spec, qadd_spec, Hv1, Hv2. field.
  - apply qle_b_false in E. rewrite qsub_spec, qadd_spec in E.
    cbn [map] in Hinv. rewrite qsum_cons in Hinv. cbn [snd] in Hinv.
    destruct rest as [|p rest'].
    + exfalso. cbn [map] in Hinv. rewrite qsum_nil in Hinv. lra.
    + apply IH; [exact Hrest|discriminate|]. rewrite qadd_spec. lra.
Qed.

Lemma wmed_tol_nonneg v l : Forall (okp v) l -> 0 <= Descriptives.wmed_tol l.
Proof.
  intros H. unfold Descriptives.wmed_tol. rewrite !qmul_spec.
  pose proof (snd_sum_nonneg v l H) as Hs. pose proof (qofnat_nonneg (length l)) as Hn.
  assert (He : 0 <= WMEDIAN_TOL_EPS) by (unfold WMEDIAN_TOL_EPS; unfold Qle; simpl; lia).
  apply Qmult_le_0_compat; [apply Qmult_le_0_compat|]; assumption.
Qed.

Lemma wmedian_sorted_const v l : Forall (okp v) l -> l <> [] -> Descriptives.wmedian_sorted l == v.
Proof.
  intros H Hn. unfold Descriptives.wmedian_sorted.
  destruct (existsb _ l).
  - destruct l as [|p t]; [contradiction|]. inversion H; subst.
    apply (argmax_from_ok v t p); assumption.
  - apply wmed_walk_const; [exact H|exact Hn|].
    pose proof (wmed_tol_nonneg v l H) as Ht. pose proof (snd_sum_nonneg v l H) as Hs.
    rewrite qmul_spec. assert (E : WMEDIAN_HALF == 1 # 2) by reflexivity. rewrite E. lra.
Qed.

Lemma combine_ok v a : forall w, const_list v a -> (forall x, In x w -> 0 <= x) -> Forall (okp v) (combine a w).
Proof.
  induction a as [|x a IH]; intros w Ha Hw; simpl; [constructor|].
  destruct w as [|y w]; [constructor|]. constructor.
  - split; simpl; [apply Ha; left; reflexivity|apply Hw; left; reflexivity].
  - apply IH; [intros z Hz; apply Ha; right; exact Hz|intros z Hz; apply Hw; right; exact Hz].
Qed.

Lemma wmed_const v a w : a <> [] -> length w = length a -> const_list v a -> (forall x, In x w -> 0 <= x) ->
  wmed a w == v.
Proof.
  intros Hn Hl Ha Hw. unfold wmed, Descriptives.weighted_median, Descriptives.weighted_median_ps.
  pose proof (combine_ok v a w Ha Hw) as Hok.
  assert (Hc : combine a w <> []).
  { destruct a as [|x a]; [contradiction|]. destruct w as [|y w]; [discriminate Hl|discriminate]. }
  destruct (combine a w) as [|p [|q r]] eqn:E; [contradiction| |].
  - simpl. inversion Hok as [|? ? [Hp _] _]; subst. exact Hp.
  - cbn [Descriptives.on_weighted_array]. apply wmedian_sorted_const.
    + apply psort_ok. exact Hok.
    + apply psort_nonnil. discriminate.
Qed.

(* ---- the difference of medians on constant samples --------------------------------------------- *)
Definition ok_weights (l : list Q) (ow : option (list Q)) : Prop :=
  match ow with None => True | Some w => length w = length l /\ forall x, In x w -> 0 <= x end.

Lemma med_diff_const a v auto_l auto_w vals w :
  auto_l <> [] -> vals <> [] -> const_list a auto_l -> const_list v vals ->
  ok_weights auto_l auto_w -> ok_weights vals w ->
  med_diff auto_l auto_w vals w == Qabs (a - v).
Proof.
  intros Hna Hnv Ha Hv Hwa Hwv. unfold med_diff.
  assert (M : qabs (qsub (median auto_l) (median vals)) == Qabs (a - v)).
  { unfold qabs. rewrite qsub_spec, (median_const a auto_l Hna Ha), (median_const v vals Hnv Hv). reflexivity. }
  destruct auto_w as [aw|]; [|exact M]. destruct w as [vw|]; [|exact M].
  destruct Hwa as [Hla Hpa]. destruct Hwv as [Hlv Hpv].
  unfold qabs. rewrite qsub_spec, (wmed_const a auto_l aw Hna Hla Ha Hpa), (wmed_const v vals vw Hnv Hlv Hv Hpv).
  reflexivity.
Qed.

(* ---- the maleness ratio on constant samples ---------------------------------------------------- *)
Lemma lr_of_none_r fs fd md : lr_of fs None fd md = qdiv fd (qmax2 md lr_denominator_floor).
Proof. destruct fs; reflexivity. Qed.
Lemma lr_of_none_l ms fd md : lr_of None ms fd md = qdiv fd (qmax2 md lr_denominator_floor).
Proof. reflexivity. Qed.

Lemma floor_pos : 0 < lr_denominator_floor.
Proof. unfold lr_denominator_floor, Qlt. simpl. lia. Qed.

Lemma qmax2_zero_floor m : m == 0 -> qmax2 m lr_denominator_floor == lr_denominator_floor.
Proof.
  intros Hm. unfold qmax2. destruct (Qle_bool m lr_denominator_floor) eqn:E; [reflexivity|].
  exfalso. assert (K : m <= lr_denominator_floor) by (rewrite Hm; apply Qlt_le_weak; exact floor_pos).
  apply Qle_bool_iff in K. congruence.
Qed.

Lemma ok_weights_map l ow (f : Q -> Q) : ok_weights l ow -> ok_weights (map f l) ow.
Proof. destruct ow; simpl; [|trivial]. rewrite map_length. trivial. Qed.

(* the sample sits where the male hypothesis puts it: ratio = |a - (v + female_shift)| / floor *)
Lemma male_lr_male gstat a v auto_l auto_w vals w fshift mshift :
  auto_l <> [] -> vals <> [] -> const_list a auto_l -> const_list v vals ->
  ok_weights auto_l auto_w -> ok_weights vals w ->
  v + mshift == a ->
  male_lr gstat auto_l auto_w vals w fshift mshift == Qabs (a - (v + fshift)) / lr_denominator_floor.
Proof.
  intros Hna Hnv Ha Hv Hwa Hwv Hal. unfold male_lr.
  assert (Hmv : const_list a (map (fun x => qadd x mshift) vals)).
  { apply (const_list_eq (v + mshift)); [exact Hal|]. apply const_list_map_qadd. exact Hv. }
  rewrite (mood_stat_const gstat a auto_l _ Ha Hmv), lr_of_none_r.
  assert (Hnm : forall c, map (fun x => qadd x c) vals <> []).
  { intros c K. apply map_eq_nil in K. contradiction. }
  rewrite qdiv_spec.
  rewrite (med_diff_const a (v + fshift) auto_l auto_w _ w Hna (Hnm fshift) Ha
             (const_list_map_qadd v fshift vals Hv) Hwa (ok_weights_map _ _ _ Hwv)).
  rewrite qmax2_zero_floor; [reflexivity|].
  rewrite (med_diff_const a a auto_l auto_w _ w Hna (Hnm mshift) Ha Hmv Hwa (ok_weights_map _ _ _ Hwv)).
  setoid_replace (a - a) with 0 by ring. reflexivity.
Qed.

(* the sample sits where the female hypothesis puts it: ratio = 0 *)
Lemma male_lr_female gstat a v auto_l auto_w vals w fshift mshift :
  auto_l <> [] -> vals <> [] -> const_list a auto_l -> const_list v vals ->
  ok_weights auto_l auto_w -> ok_weights vals w ->
  v + fshift == a ->
  male_lr gstat auto_l auto_w vals w fshift mshift == 0.
Proof.
  intros Hna Hnv Ha Hv Hwa Hwv Hal. unfold male_lr.
  assert (Hfv : const_list a (map (fun x => qadd x fshift) vals)).
  { apply (const_list_eq (v + fshift)); [exact Hal|]. apply const_list_map_qadd. exact Hv. }
  rewrite (mood_stat_const gstat a auto_l _ Ha Hfv), lr_of_none_l.
  assert (Hnm : forall c, map (fun x => qadd x c) vals <> []).
  { intros c K. apply map_eq_nil in K. contradiction. }
  rewrite qdiv_spec.
  rewrite (med_diff_const a a auto_l auto_w _ w Hna (Hnm fshift) Ha Hfv Hwa (ok_weights_map _ _ _ Hwv)).
  setoid_replace (a - a) with 0 by ring. simpl (Qabs 0). unfold Qdiv. ring.
Qed.
