(* C12 source ties of antitarget.drop_noncanonical_contigs: which untargeted chromosome is skipped,

       untgt_chroms = access_chroms - target_chroms
       if any(is_canonical_contig_name(c) for c in target_chroms):
           chroms_to_skip = [c for c in untgt_chroms if not is_canonical_contig_name(c)]
       else:
           max_tgt_chr_name_len = max(map(len, target_chroms))
           chroms_to_skip = [c for c in untgt_chroms if len(c) > max_tgt_chr_name_len]

   (the two comprehension tests under the branch test, read for one chromosome c) and which row of
   `accessible` survives,

       if chroms_to_skip:
           skip_idx = accessible.chromosome.isin(chroms_to_skip)
           accessible = accessible[~skip_idx]

   regenerated from the Python source on every run as Gen/FnAntiSkip.v (fn_skip_chrom, fn_keep_access_row;
   the contig-name rule is C13's is_canonical_contig_name, an input here).  Here: Model/Antitarget.v
   chroms_to_skip and the row filter of drop_noncanonical ARE the filters by the generated tests. *)
From CNV Require Import Base.Prelude Base.Str Model.IvRow Model.Access Model.Target Model.Antitarget.
From CNV Require Gen.FnAntiSkip.

Local Open Scope Z_scope.

Lemma source_skip_chrom (d : Z) (anyc cc : bool) (c : string) (mx : Z) :
  FnAntiSkip.fn_skip_chrom d anyc cc c mx = if anyc then negb cc else mx <? slen c.
Proof. reflexivity. Qed.

Lemma source_keep_access_row (b : bool) : FnAntiSkip.fn_keep_access_row b = negb b.
Proof. reflexivity. Qed.

Theorem source_chroms_to_skip (d : Z) (access_chroms target_chroms : list string) :
  chroms_to_skip access_chroms target_chroms =
  filter (fun c => FnAntiSkip.fn_skip_chrom d (existsb is_canonical_contig_name target_chroms)
                     (is_canonical_contig_name c) c (max_len target_chroms))
         (filter (fun c => negb (mem_string c target_chroms)) access_chroms).
Proof.
  unfold chroms_to_skip. cbv zeta.
  destruct (existsb is_canonical_contig_name target_chroms); apply filter_ext; intros c;
    rewrite source_skip_chrom; reflexivity.
Qed.

Theorem source_drop_rows (access targets : list grow) :
  drop_noncanonical access targets =
  match compare_chrom_names access targets with
  | None => None
  | Some (ac, tc) =>
      Some (filter (fun r => FnAntiSkip.fn_keep_access_row (mem_string (chrom r) (chroms_to_skip ac tc))) access)
  end.
Proof. reflexivity. Qed.
