(* C09 source tie of bedcov's command line:

       cmd = [bed_fname, bam_fname]
       if min_mapq and min_mapq > 0:
           cmd.extend(["-Q", str(min_mapq)])

   is regenerated from the Python source on every run as Gen/FnCoverageCmd.v (fn_bedcov_cmd: the list of strings handed
   to pysam.bedcov, before the optional --reference).  Here: the -Q option is absent exactly when the model's
   pileup_cut (Model/Coverage.v) is 0 -- samtools' own default --, and otherwise it carries pileup_cut min_mapq, which is
   then min_mapq itself: the mapping-quality cut-off samtools applies is the model's pileup_cut. *)
From CNV Require Import Base.Prelude Base.Str Model.Decimal Gen.CoverageDefaults Gen.FnCoverageCmd Model.Coverage.

(* the command line samtools is to be given for an effective cut-off q (0: its default, no option) *)
Definition cmd_for_cut (bed bam : string) (q : Z) : list string :=
  bed :: bam :: (if q =? 0 then [] else ["-Q"%string; print_Z q]).

Lemma source_bedcov_cmd bed bam cut :
  fn_bedcov_cmd bed bam cut = cmd_for_cut bed bam (pileup_cut cut).
Proof.
  unfold fn_bedcov_cmd, cmd_for_cut, pileup_cut.
  change BEDCOV_MAPQ_OPTION_CUT with 0.
  destruct (0 <? cut) eqn:E.
  - apply Z.ltb_lt in E. assert (H : cut =? 0 = false) by (apply Z.eqb_neq; lia).
    rewrite H. reflexivity.
  - rewrite andb_false_r. reflexivity.
Qed.

(* the option is there exactly for a positive min_mapq, and then names min_mapq *)
Lemma source_bedcov_cmd_cases bed bam cut :
  (0 < cut -> fn_bedcov_cmd bed bam cut = [bed; bam; "-Q"%string; print_Z cut] /\ pileup_cut cut = cut) /\
  (cut <= 0 -> fn_bedcov_cmd bed bam cut = [bed; bam] /\ pileup_cut cut = 0).
Proof.
  unfold fn_bedcov_cmd, pileup_cut. change BEDCOV_MAPQ_OPTION_CUT with 0. split; intro H.
  - assert (E : 0 <? cut = true) by (apply Z.ltb_lt; lia).
    assert (E0 : cut =? 0 = false) by (apply Z.eqb_neq; lia).
    rewrite E, E0. split; reflexivity.
  - assert (E : 0 <? cut = false) by (apply Z.ltb_ge; lia).
    rewrite E, andb_false_r. split; reflexivity.
Qed.
