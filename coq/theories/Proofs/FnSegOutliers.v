(* C03 source tie of drop_outliers, the WHOLE function read per row:

       if not len(cnarr):
           return cnarr
       outlier_mask = np.concatenate([smoothing.rolling_outlier_quantile(subarr["log2"], width, 0.95, factor)
                                      for _chrom, subarr in cnarr.by_chromosome()])
       n_outliers = outlier_mask.sum()
       if n_outliers: logging.info(...)
       return cnarr[~outlier_mask]

   is regenerated from the Python source on every run as Gen/FnSegOutliers.v (fn_drop_outliers_keep: whether a bin stays
   in the returned table, as a function of the table's length, the bin's mask bit and the mask's sum).  Here: for a bin
   of a table (which then has a row) it is `negb outlier`, the second factor of the model's `survives`
   (Model/Segment.v); with the generated weight mask (Gen/FnSegWeightMask.v) the model's `survives` is the conjunction
   of the generated bits. *)
From CNV Require Import Base.Prelude Base.Str Base.QNum Gen.FnSegOutliers Gen.FnSegWeightMask Model.Segment Proofs.FnSegWeightMask.

Lemma source_drop_outliers (nrows : Z) (outlier : bool) (n_outliers : Z) :
  nrows <> 0 -> fn_drop_outliers_keep nrows outlier n_outliers = negb outlier.
Proof.
  intro H. unfold fn_drop_outliers_keep.
  assert (E : (nrows =? 0) = false) by (apply Z.eqb_neq; exact H).
  rewrite E. reflexivity.
Qed.

(* an empty table is handed back as it is *)
Lemma source_drop_outliers_empty (outlier : bool) (n_outliers : Z) :
  fn_drop_outliers_keep 0 outlier n_outliers = true.
Proof. reflexivity. Qed.

Lemma source_survives_bits skip_low (min_weight : Q) (outlier : bool) (b : bin) (nrows n_outliers : Z) :
  nrows <> 0 ->
  survives skip_low min_weight outlier b
  = negb (skip_low && low_coverage b) && fn_drop_outliers_keep nrows outlier n_outliers
    && negb (fn_weight_too_low min_weight (b_weight b)).
Proof.
  intro H. rewrite source_weight_survives, (source_drop_outliers nrows outlier n_outliers H). reflexivity.
Qed.
