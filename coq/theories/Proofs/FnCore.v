(* C10 source tie of core.ensure_path's backup-name search: the first candidate and ONE ITERATION of
   `while os.path.isfile(bak_fname): cnt += 1; bak_fname = f"{fname}.{cnt}"` are regenerated from the
   Python source on every run (Gen/FnCore.v).  Here: the candidates are exactly the family
   fname.1, fname.2, ... that Model/World.v indexes by 1, 2, ... (first_free starts at 1 and moves
   from n to n + 1), and two members of the family with different indices are different names -- so
   indexing the files of the family by the number is faithful. *)
From CNV Require Import Base.Prelude Base.Str Model.Decimal Gen.FnCore Model.World Proofs.FormatsLemmas.

Local Open Scope Z_scope.

Definition backup_name (fname : string) (n : nat) : string :=
  (fname ++ "." ++ print_Z (Z.of_nat n))%string.

Lemma source_backup_first fname : fn_backup_first fname = (1, backup_name fname 1).
Proof. reflexivity. Qed.

Lemma source_backup_step fname n :
  fn_backup_step fname (Z.of_nat n) (backup_name fname n) = (Z.of_nat (S n), backup_name fname (S n)).
Proof.
  unfold fn_backup_step, backup_name. cbn zeta.
  replace (Z.of_nat n + 1) with (Z.of_nat (S n)) by lia. reflexivity.
Qed.

Lemma string_app_inv_head (a b c : string) : (a ++ b = a ++ c)%string -> b = c.
Proof. induction a as [|ch a IH]; cbn; intro H; [exact H|]. inversion H. auto. Qed.

Lemma backup_name_inj fname n m : backup_name fname n = backup_name fname m -> n = m.
Proof.
  unfold backup_name. intro H.
  apply string_app_inv_head in H. apply (string_app_inv_head ".") in H.
  assert (Hz : Some (Z.of_nat n) = Some (Z.of_nat m)) by (rewrite <- !parse_print, H; reflexivity).
  inversion Hz. lia.
Qed.

(* the search the code runs: candidates n = 1, 2, ... until one is free; with the family's files
   looked up by index this is the model's first_free *)
Fixpoint search (fname : string) (isfile : string -> bool) (fuel : nat) (cnt : Z) (bak : string) : option (Z * string) :=
  match fuel with
  | O => None
  | S fuel' => if isfile bak then let '(c, b) := fn_backup_step fname cnt bak in search fname isfile fuel' c b
               else Some (cnt, bak)
  end.

Lemma source_search fname (f : @fs string) fuel : forall n,
  search fname (fun nm => existsb (fun k => String.eqb nm (backup_name fname k) && match lookup k f with Some _ => true | None => false end)
                                  (map fst f)) fuel (Z.of_nat n) (backup_name fname n)
  = option_map (fun k => (Z.of_nat k, backup_name fname k)) (first_free fuel n f).
Proof.
  induction fuel as [|fuel IH]; intro n; [reflexivity|].
  cbn [search first_free].
  assert (Hex : existsb (fun k => String.eqb (backup_name fname n) (backup_name fname k)
                                   && match lookup k f with Some _ => true | None => false end) (map fst f)
                = match lookup n f with Some _ => true | None => false end).
  { destruct (lookup n f) as [c|] eqn:L.
    - apply existsb_exists. exists n. split.
      + clear IH. induction f as [|[k c'] t IHt]; [discriminate|].
        cbn [lookup] in L. cbn [map fst]. destruct (Nat.eqb_spec k n).
        * left. auto.
        * right. apply IHt. exact L.
      + rewrite String.eqb_refl, L. reflexivity.
    - apply Bool.not_true_is_false. intro Hx. apply existsb_exists in Hx.
      destruct Hx as [k [_ Hk]]. apply andb_true_iff in Hk. destruct Hk as [He Hl].
      apply String.eqb_eq in He. apply backup_name_inj in He. subst k. rewrite L in Hl. discriminate. }
  rewrite Hex. destruct (lookup n f) as [c|].
  - rewrite source_backup_step. apply IH.
  - reflexivity.
Qed.
